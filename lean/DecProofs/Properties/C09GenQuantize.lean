/-
  C09 / C11 / C12 (generated-code level) — `bid128_frexp`, `bid128_fdim` and `bid128_quantize` as translated into
  `DecGen/Code.lean`, against the specification-level model (`Dec.frexpD`, `Dec.cmpD`, `Dec.quantizeD` of DecModel/Misc.lean).
  Built on `C13GenNoncomp` (bit-field tests, `decodeW`, the `BID_NR_DIGITS` digit count, exact multi-word products).
-/
import DecProofs.Properties.C13GenNoncomp
import DecProofs.Properties.C06GenFromInt
import DecProofs.Properties.C03GenCompare
import DecProofs.Properties.C13GenPack

set_option linter.unusedSimpArgs false
set_option linter.unusedVariables false
set_option maxRecDepth 4096

namespace Dec.C09GenQuantize
open Dec.Rs Dec.Gen.Code Dec.C13GenNoncomp

/-! ## A1. `bid128_frexp` -/

/-- the digit-count tail (five reads of the same `BID_NR_DIGITS` entry `t`) with an arbitrary continuation `k` -/
def nrTailG {β : Type} (t : Except String DecDigits) (hi lo : UInt64) (k : Int32 → Except String β) : Except String β :=
  Except.bind t (fun v =>
    if (Int32.ofInt (toI v.digits) == 0) = true then
      Except.bind t (fun v =>
        Except.bind t (fun v_1 =>
          Except.bind
            (if decide (hi > v_1.threshold_hi) = true then Except.ok true
              else
                Except.bind t (fun v =>
                  if (hi == v.threshold_hi) = true then
                    Except.bind t (fun v => Except.ok (decide (lo ≥ v.threshold_lo)))
                  else Except.ok false))
            (fun v_2 =>
              if v_2 = true then k (Int32.ofInt (toI v.digits1) + 1)
              else k (Int32.ofInt (toI v.digits1)))))
    else k (Int32.ofInt (toI v.digits)))

theorem nrTailG_eval {β : Type} (D D1 : UInt32) (THI TLO hi lo : UInt64) (k : Int32 → Except String β) :
    nrTailG (.ok ⟨D, THI, TLO, D1⟩) hi lo k =
      k (if Int32.ofInt (toI D) = 0 then
        (if THI.toNat * 2^64 + TLO.toNat ≤ hi.toNat * 2^64 + lo.toNat then Int32.ofInt (toI D1) + 1 else Int32.ofInt (toI D1))
        else Int32.ofInt (toI D)) := by
  have := lo.toNat_lt; have := TLO.toNat_lt
  simp only [nrTailG, Except.bind]
  by_cases h0 : Int32.ofInt (toI D) = 0
  · simp only [h0, beq_self_eq_true, if_true]
    by_cases h1 : hi > THI
    · have : THI.toNat * 2^64 + TLO.toNat ≤ hi.toNat * 2^64 + lo.toNat := by
        rw [gt_iff_lt, UInt64.lt_iff_toNat_lt] at h1; omega
      simp only [h1, decide_true, if_true, this]
    · by_cases h2 : hi = THI
      · subst h2
        by_cases h3 : lo ≥ TLO
        · have : hi.toNat * 2^64 + TLO.toNat ≤ hi.toNat * 2^64 + lo.toNat := by
            rw [ge_iff_le, UInt64.le_iff_toNat_le] at h3; omega
          simp only [h1, decide_false, Bool.false_eq_true, if_false, beq_self_eq_true, if_true, h3, decide_true, this]
        · have : ¬ hi.toNat * 2^64 + TLO.toNat ≤ hi.toNat * 2^64 + lo.toNat := by
            rw [ge_iff_le, UInt64.le_iff_toNat_le] at h3; omega
          simp only [h1, decide_false, Bool.false_eq_true, if_false, beq_self_eq_true, if_true, h3, this]
      · have : ¬ THI.toNat * 2^64 + TLO.toNat ≤ hi.toNat * 2^64 + lo.toNat := by
          rw [gt_iff_lt, UInt64.lt_iff_toNat_lt] at h1
          rw [← UInt64.toNat_inj] at h2
          omega
        have h2' : (hi == THI) = false := by rw [beq_eq_false_iff_ne]; exact h2
        simp only [h1, decide_false, Bool.false_eq_true, if_false, h2', this]
  · have h0' : (Int32.ofInt (toI D) == 0) = false := by rw [beq_eq_false_iff_ne]; exact h0
    simp only [h0', Bool.false_eq_true, if_false, h0]

/-- with the entry of the bit length of the coefficient the tail continues with `ndigits C` -/
theorem nr_coreG {β : Type} (hi lo : UInt64) (k : Int32 → Except String β)
    (hC0 : 0 < hi.toNat * 2^64 + lo.toNat) (hC : hi.toNat * 2^64 + lo.toNat < 2^113) :
    ∃ Q : Int32, Q.toInt = (ndigits (hi.toNat * 2^64 + lo.toNat) : Int) ∧
      nrTailG (tblDD Dec.Gen.BID_NR_DIGITS (UInt64.ofNat (hi.toNat * 2^64 + lo.toNat).log2)) hi lo k = k Q := by
  have hL : (hi.toNat * 2^64 + lo.toNat).log2 < 113 := (Nat.log2_lt (by omega)).2 hC
  rw [tblDD_nr _ hL, nrTailG_eval]
  exact ⟨_, nr_q _ hC0 hC, rfl⟩

/-- `frexp`'s bit-length computation: the index is the position of the leading bit -/
theorem frexp_bits_idx (v : UInt64) (K : UInt32) (h0 : 0 < v.toNat) (h53 : v.toNat < 2^53) (hK2 : K.toNat ≤ 64) :
    (UInt64.ofInt (toI (K + (((UInt32.ofInt (toI ((F64U.ofU64 (UInt64.ofInt (toI v))).bits >>> 52))) &&& 2047) - 1023))))
      = UInt64.ofNat (K.toNat + v.toNat.log2) := by
  obtain ⟨f1, f2⟩ := float_exp v.toNat h0 h53
  have hl : v.toNat.log2 < 53 := (Nat.log2_lt (by omega)).2 h53
  have e1 : (UInt64.ofInt (toI v)) = v := by rw [toI_u64, u64_ofInt_nat, UInt64.ofNat_toNat]
  have e2 : ((F64U.ofU64 v).bits >>> 52).toNat = v.toNat.log2 + 1023 := by
    rw [UInt64.toNat_shiftRight, F64U.ofU64, UInt64.toNat_ofNat', Nat.mod_eq_of_lt (by omega),
      show (52 : UInt64).toNat % 64 = 52 from by decide, Nat.shiftRight_eq_div_pow, f1]
  have e3 : (K + (((UInt32.ofInt (toI ((F64U.ofU64 v).bits >>> 52))) &&& 2047) - 1023)).toNat = K.toNat + v.toNat.log2 := by
    rw [UInt32.toNat_add, UInt32.toNat_sub, UInt32.toNat_and, toI_u64, u32_ofInt_nat, UInt32.toNat_ofNat', e2,
      show (2047 : UInt32).toNat = 2^11 - 1 from by decide, Nat.and_two_pow_sub_one_eq_mod,
      show (1023 : UInt32).toNat = 1023 from by decide]
    omega
  rw [e1, toI_u32, e3, u64_ofInt_nat]

theorem frexp_bits_idx0 (v : UInt64) (h0 : 0 < v.toNat) (h53 : v.toNat < 2^53) :
    (UInt64.ofInt (toI ((((UInt32.ofInt (toI ((F64U.ofU64 (UInt64.ofInt (toI v))).bits >>> 52))) &&& 2047) - 1023))))
      = UInt64.ofNat v.toNat.log2 := by
  have := frexp_bits_idx v 0 h0 h53 (by decide)
  rw [UInt32.zero_add, show UInt32.toNat 0 = 0 from rfl, Nat.zero_add] at this
  exact this


/-- `frexp`'s index into `BID_NR_DIGITS` (the inner `≥ 2^32` test is dead code under `≥ 2^53`, but it is in the source) -/
def frexpIdx (x : U128) : UInt64 :=
  if (x.w1 &&& 0x1ffffffffffff == 0) = true then
    if decide (x.w0 ≥ 0x20000000000000) = true then
      if decide (x.w0 ≥ 0x100000000) = true then
        UInt64.ofInt (toI ((32 : UInt32) + (((UInt32.ofInt (toI ((F64U.ofU64 (UInt64.ofInt (toI (x.w0 >>> 32)))).bits >>> 52))) &&& 2047) - 1023)))
      else UInt64.ofInt (toI ((((UInt32.ofInt (toI ((F64U.ofU64 (UInt64.ofInt (toI x.w0))).bits >>> 52))) &&& 2047) - 1023)))
    else UInt64.ofInt (toI ((((UInt32.ofInt (toI ((F64U.ofU64 (UInt64.ofInt (toI x.w0))).bits >>> 52))) &&& 2047) - 1023)))
  else UInt64.ofInt (toI ((64 : UInt32) + (((UInt32.ofInt (toI ((F64U.ofU64 (UInt64.ofInt (toI (x.w1 &&& 0x1ffffffffffff)))).bits >>> 52))) &&& 2047) - 1023)))

/-- what `frexp` returns once the digit count `q` is known -/
def frexpK (x : U128) (q : Int32) : Except String (U128 × Int32) :=
  .ok ({ w0 := x.w0,
         w1 := (x.w1 &&& (0x8001ffffffffffff : UInt64)) ||| UInt64.ofInt (toI ((Int64.ofInt (toI (-q)) + (6176 : Int64)) <<< (49 : Int64))) },
       Int32.ofInt (toI (UInt32.ofInt (toI ((x.w1 &&& (0x7ffe000000000000 : UInt64)) >>> (49 : UInt64))) - (6176 : UInt32) + UInt32.ofInt (toI q))))

theorem frexp_shape (x : U128) : bid128_frexp x =
    if (x.w1 &&& 0x7800000000000000 == 0x7800000000000000) = true then
      if (x.w1 &&& 0x7e00000000000000 == 0x7e00000000000000) = true then
        .ok ({ w0 := x.w0, w1 := x.w1 &&& 0xfdffffffffffffff }, 0)
      else .ok (x, 0)
    else if (x.w1 &&& 0x6000000000000000 == 0x6000000000000000) = true then
      .ok ({ w0 := 0, w1 := (x.w1 &&& (0x8000000000000000 : UInt64)) |||
              (UInt64.ofInt (toI (UInt32.ofInt (toI ((x.w1 &&& (0x1fff800000000000 : UInt64)) >>> (47 : UInt64))))) <<< (49 : UInt64)) }, 0)
    else if (decide (x.w1 &&& 0x1ffffffffffff > 0x1ed09bead87c0) ||
              x.w1 &&& 0x1ffffffffffff == 0x1ed09bead87c0 && decide (x.w0 > 0x378d8e63ffffffff) ||
              x.w1 &&& 0x1ffffffffffff == 0 && x.w0 == 0) = true then
      .ok ({ w0 := 0, w1 := (x.w1 &&& (0x8000000000000000 : UInt64)) |||
              (UInt64.ofInt (toI (UInt32.ofInt (toI ((x.w1 &&& (0x7ffe000000000000 : UInt64)) >>> (49 : UInt64))))) <<< (49 : UInt64)) }, 0)
    else nrTailG (tblDD Dec.Gen.BID_NR_DIGITS (frexpIdx x)) (x.w1 &&& 0x1ffffffffffff) x.w0 (frexpK x) := by
  unfold bid128_frexp frexpIdx nrTailG frexpK
  delta c_MASK_SPECIAL c_MASK_SNAN c_MASK_EXP c_MASK_EXP2 c_MASK_COEFF
  simp only [bind, Except.bind, pure, Except.pure]
  by_cases h1 : (x.w1 &&& 0x7800000000000000 == 0x7800000000000000) = true
  · rw [if_pos h1, if_pos h1]
  rw [if_neg h1, if_neg h1]
  by_cases h2 : (x.w1 &&& 0x6000000000000000 == 0x6000000000000000) = true
  · rw [if_pos h2, if_pos h2]
  rw [if_neg h2, if_neg h2]
  by_cases h3 : (decide (x.w1 &&& 0x1ffffffffffff > 0x1ed09bead87c0) ||
              x.w1 &&& 0x1ffffffffffff == 0x1ed09bead87c0 && decide (x.w0 > 0x378d8e63ffffffff) ||
              x.w1 &&& 0x1ffffffffffff == 0 && x.w0 == 0) = true
  · rw [if_pos h3, if_pos h3]
  rw [if_neg h3, if_neg h3]
  by_cases h4 : (x.w1 &&& 0x1ffffffffffff == 0) = true
  · rw [if_pos h4, if_pos h4]
    by_cases h5 : decide (x.w0 ≥ 0x20000000000000) = true
    · rw [if_pos h5, if_pos h5]
      by_cases h6 : decide (x.w0 ≥ 0x100000000) = true
      · rw [if_pos h6, if_pos h6]
      · rw [if_neg h6, if_neg h6]
    · rw [if_neg h5, if_neg h5]
  · rw [if_neg h4, if_neg h4]


theorem i32_ofInt_congr (a b : Int) (h : a % 2^32 = b % 2^32) : Int32.ofInt a = Int32.ofInt b := by
  rw [← Int32.toInt_inj, Int32.toInt_ofInt, Int32.toInt_ofInt]
  have e : ((Int32.size : Nat) : Int) = 2^32 := by decide
  rw [← Int.emod_bmod a, ← Int.emod_bmod b, e, h]

/-- `frexp`'s exponent word: `((−q as i64) + 6176) << 49` as `u64` -/
theorem frexp_w1 (Q : Int32) (nd : Nat) (hQ : Q.toInt = nd) (h1 : nd ≤ 6176) :
    UInt64.ofInt (toI ((Int64.ofInt (toI (-Q)) + (6176 : Int64)) <<< (49 : Int64))) = UInt64.ofNat ((6176 - nd) * 2^49) := by
  have eq : (-Q).toInt = -(nd : Int) := by
    rw [Int32.toInt_neg, hQ, bmod32 _ (by omega) (by omega)]
  simp only [toI]
  rw [Dec.C06GenFromInt.ofInt_toInt64, eq]
  rw [← UInt64.toNat_inj, ← Int64.toNat_toBitVec, Int64.toBitVec_shiftLeft, Int64.toBitVec_add]
  have e1 : (Int64.toBitVec 49).smod 64 = 49#64 := by decide
  have e2 : (Int64.toBitVec 6176) = 6176#64 := by decide
  rw [e1, e2, BitVec.shiftLeft_eq', BitVec.toNat_shiftLeft, BitVec.toNat_add, Int64.toBitVec_ofInt,
    BitVec.toNat_ofInt, UInt64.toNat_ofNat', Nat.shiftLeft_eq]
  simp only [BitVec.toNat_ofNat, Nat.reduceMod, Nat.reducePow]
  have : ((-(nd : Int)) % ((18446744073709551616 : Nat) : Int)).toNat = 18446744073709551616 - nd ∨ nd = 0 := by omega
  omega


theorem frexpIdx_eq (x : U128) (hC0 : 0 < x.w1.toNat % 2^49 * 2^64 + x.w0.toNat) :
    frexpIdx x = UInt64.ofNat (x.w1.toNat % 2^49 * 2^64 + x.w0.toNat).log2 := by
  have hl := x.w0.toNat_lt
  unfold frexpIdx
  by_cases c5 : x.w1.toNat % 2^49 = 0
  · rw [if_pos (by rw [u64_beq_zero, coeff_hi]; simpa using c5)]
    by_cases c6 : 2^53 ≤ x.w0.toNat
    · rw [if_pos (by rw [u64_ge]; simpa using c6), if_pos (by rw [u64_ge]; simp; omega),
        frexp_bits_idx _ 32 (by rw [shr32]; omega) (by rw [shr32]; omega) (by decide)]
      rw [shr32, show UInt32.toNat 32 = 32 from by decide, log2_shift _ c6, c5]
      simp only [Nat.zero_mul, Nat.zero_add]
    · rw [if_neg (by rw [u64_ge]; simpa using c6), frexp_bits_idx0 _ (by omega) (by omega), c5]
      simp only [Nat.zero_mul, Nat.zero_add]
  · rw [if_neg (by rw [u64_beq_zero, coeff_hi]; simpa using c5),
      frexp_bits_idx _ 64 (by rw [coeff_hi]; omega) (by rw [coeff_hi]; omega) (by decide)]
    rw [show UInt32.toNat 64 = 64 from by decide, coeff_hi, log2_hi _ _ c5 hl]

/-- the biased exponent field as `frexp` extracts it (through `u32`) -/
theorem exp_u32 (w : UInt64) : (UInt32.ofInt (toI ((w &&& 0x7ffe000000000000) >>> 49))).toNat = w.toNat / 2^49 % 2^14 := by
  have e : ((w &&& 0x7ffe000000000000) >>> 49).toNat = w.toNat / 2^49 % 2^14 := by
    rw [UInt64.toNat_shiftRight, toNat_and_field w _ 14 49 (by decide), show (49 : UInt64).toNat % 64 = 49 from by decide,
      Nat.shiftRight_eq_div_pow, Nat.mul_div_cancel _ (by decide)]
  rw [toI_u64, e, u32_ofInt_nat, UInt32.toNat_ofNat']
  omega

theorem exp2_u32 (w : UInt64) : (UInt32.ofInt (toI ((w &&& 0x1fff800000000000) >>> 47))).toNat = w.toNat / 2^47 % 2^14 := by
  have e : ((w &&& 0x1fff800000000000) >>> 47).toNat = w.toNat / 2^47 % 2^14 := by
    rw [UInt64.toNat_shiftRight, toNat_and_field w _ 14 47 (by decide), show (47 : UInt64).toNat % 64 = 47 from by decide,
      Nat.shiftRight_eq_div_pow, Nat.mul_div_cancel _ (by decide)]
  rw [toI_u64, e, u32_ofInt_nat, UInt32.toNat_ofNat']
  omega

/-- a zero with sign word `sgn` and biased exponent `E`, as `frexp` (and others) assemble it -/
theorem zero_words (w : UInt64) (u : UInt32) (E : Nat) (hu : u.toNat = E) (hE : E < 2^14) :
    ({ w0 := 0, w1 := (w &&& (0x8000000000000000 : UInt64)) ||| (UInt64.ofInt (toI u) <<< (49 : UInt64)) } : U128)
      = ofBits (encode (.fin (decide (w.toNat / 2^63 % 2 = 1)) 0 ((E : Int) - 6176))) := by
  have hw := w.toNat_lt
  have e1 : (UInt64.ofInt (toI u) <<< (49 : UInt64)).toNat = E * 2^49 := by
    rw [UInt64.toNat_shiftLeft, toI_u32, u64_ofInt_nat, UInt64.toNat_ofNat', hu,
      show (49 : UInt64).toNat % 64 = 49 from by decide, Nat.shiftLeft_eq]
    omega
  have e2 : ((w &&& (0x8000000000000000 : UInt64)) ||| (UInt64.ofInt (toI u) <<< (49 : UInt64))).toNat
      = w.toNat / 2^63 % 2 * 2^63 + E * 2^49 := by
    rw [UInt64.toNat_or, sign_keep, e1, Nat.mul_comm _ (2^63), ← Nat.two_pow_add_eq_or_of_lt (by omega)]
  have e3 : ((E : Int) - 6176 + 6176).toNat = E := by omega
  rw [← ofBits_bitsOf ({ w0 := 0, w1 := (w &&& (0x8000000000000000 : UInt64)) ||| (UInt64.ofInt (toI u) <<< (49 : UInt64)) } : U128)]
  refine congrArg ofBits ?_
  show _ * 2^64 + (0 : UInt64).toNat = signBit _ + (((E : Int) - 6176 + 6176).toNat) * 2^113 + 0
  rw [e2, e3, UInt64.toNat_zero]
  by_cases hs : w.toNat / 2^63 % 2 = 1 <;> simp only [hs, decide_true, decide_false, signBit, if_true, if_false, Bool.false_eq_true] <;> omega

theorem eq_ofBits (r : U128) (n : Nat) (h : bitsOf r = n) : r = ofBits n := by rw [← h, ofBits_bitsOf]

theorem or3 (s e c : Nat) (hs : s ≤ 1) (he : e < 2^14) (hc : c < 2^49) :
    (s * 2^63 + c) ||| (e * 2^49) = s * 2^63 + e * 2^49 + c := by
  rw [Nat.mul_comm s, Nat.two_pow_add_eq_or_of_lt (show c < 2^63 by omega) s, Nat.or_assoc, Nat.or_comm c, Nat.mul_comm e,
    ← Nat.two_pow_add_eq_or_of_lt hc e, ← Nat.two_pow_add_eq_or_of_lt (show 2^49 * e + c < 2^63 by omega) s]
  omega

/-- the finite result of `frexp`: coefficient kept, exponent field `6176 − q` -/
theorem frexp_words (x : U128) (Q : Int32) (nd : Nat) (hQ : Q.toInt = nd) (h1 : nd ≤ 6176) :
    ({ w0 := x.w0, w1 := (x.w1 &&& (0x8001ffffffffffff : UInt64)) |||
        UInt64.ofInt (toI ((Int64.ofInt (toI (-Q)) + (6176 : Int64)) <<< (49 : Int64))) } : U128)
      = ofBits (encode (.fin (decide (x.w1.toNat / 2^63 % 2 = 1)) (x.w1.toNat % 2^49 * 2^64 + x.w0.toNat) (-(nd : Int)))) := by
  have hw := x.w1.toNat_lt
  have hl := x.w0.toNat_lt
  have em : (x.w1 &&& (0x8001ffffffffffff : UInt64)).toNat = x.w1.toNat / 2^63 % 2 * 2^63 + x.w1.toNat % 2^49 := by
    have hm : (0x8001ffffffffffff : UInt64) = 0x8000000000000000 ||| 0x1ffffffffffff := by decide
    rw [hm, UInt64.toNat_and, UInt64.toNat_or, Nat.and_or_distrib_left, ← UInt64.toNat_and, ← UInt64.toNat_and, sign_keep, coeff_hi,
      Nat.mul_comm _ (2^63), ← Nat.two_pow_add_eq_or_of_lt (by omega)]
  have e2 : ((x.w1 &&& (0x8001ffffffffffff : UInt64)) |||
        UInt64.ofInt (toI ((Int64.ofInt (toI (-Q)) + (6176 : Int64)) <<< (49 : Int64)))).toNat
      = x.w1.toNat / 2^63 % 2 * 2^63 + (6176 - nd) * 2^49 + x.w1.toNat % 2^49 := by
    rw [frexp_w1 Q nd hQ h1, UInt64.toNat_or, em, UInt64.toNat_ofNat',
      Nat.mod_eq_of_lt (show (6176 - nd) * 2^49 < 2^64 by omega),
      or3 (x.w1.toNat / 2^63 % 2) (6176 - nd) (x.w1.toNat % 2^49) (by omega) (by omega) (by omega)]
  have e3 : (-(nd : Int) + 6176).toNat = 6176 - nd := by omega
  apply eq_ofBits
  show _ * 2^64 + x.w0.toNat = signBit _ + ((-(nd : Int) + 6176).toNat) * 2^113 + (x.w1.toNat % 2^49 * 2^64 + x.w0.toNat)
  rw [e2, e3]
  by_cases hs : x.w1.toNat / 2^63 % 2 = 1 <;> simp only [hs, decide_true, decide_false, signBit, if_true, if_false, Bool.false_eq_true] <;> omega

/-- the integer result of `frexp`: `(E − 6176) + q` computed in `u32`, read as `i32` -/
theorem frexp_exp (w : UInt64) (Q : Int32) (nd : Nat) (hQ : Q.toInt = nd) (h1 : nd ≤ 6176) :
    Int32.ofInt (toI (UInt32.ofInt (toI ((w &&& (0x7ffe000000000000 : UInt64)) >>> (49 : UInt64))) - (6176 : UInt32) + UInt32.ofInt (toI Q)))
      = Int32.ofInt ((nd : Int) + (((w.toNat / 2^49 % 2^14 : Nat) : Int) - 6176)) := by
  apply i32_ofInt_congr
  rw [toI_u32, UInt32.toNat_add, UInt32.toNat_sub, exp_u32, toI_i32, hQ, u32_ofInt_nat, UInt32.toNat_ofNat',
    show (6176 : UInt32).toNat = 6176 from by decide]
  have := Nat.mod_lt (w.toNat / 2^49) (show 0 < 2^14 by decide)
  omega


theorem decodeW_large (h l : Nat) (c1 : ¬ h / 2^59 % 16 = 15) (c3 : h / 2^61 % 4 = 3) :
    decodeW h l = .fin (decide (h / 2^63 % 2 = 1)) 0 ((h / 2^47 % 2^14 : Nat) - (6176 : Int)) := by
  unfold decodeW; rw [if_neg c1, if_pos c3]

theorem decodeW_small_zero (h l : Nat) (c1 : ¬ h / 2^59 % 16 = 15) (c3 : ¬ h / 2^61 % 4 = 3)
    (hz : P34 ≤ h % 2^49 * 2^64 + l ∨ h % 2^49 * 2^64 + l = 0) :
    decodeW h l = .fin (decide (h / 2^63 % 2 = 1)) 0 ((h / 2^49 % 2^14 : Nat) - (6176 : Int)) := by
  unfold decodeW; rw [if_neg c1, if_neg c3]
  rcases hz with hz | hz
  · rw [if_neg (by omega)]
  · rw [hz]; simp only [P34]; rfl

/-- clearing the signalling bit of a word that is not a signalling NaN's changes nothing when bit 57 is clear -/
theorem quiet_noop (w : UInt64) (h : w.toNat / 2^57 % 2 = 0) : w &&& 0xfdffffffffffffff = w := by
  have hw := w.toNat_lt
  rw [← UInt64.toNat_inj, UInt64.toNat_and, show (0xfdffffffffffffff : UInt64).toNat = 0xfdffffffffffffff from by decide,
    Dec.C06GenFromInt.and_quiet]
  omega

/-- **`bid128_frexp`**, every pattern (the routine takes no status word and never panics):
* finite `x` (zeros and non-canonical encodings included): exactly the canonical encoding of the model's `frexpD` fraction
  (`c·10^(−q)`, `q` the digit count; a zero stays the zero with its exponent) and its exponent `q + e` (0 for zeros);
* infinite `x`: `x` itself, bit for bit (a non-canonical infinity is NOT canonicalised), exponent 0;
* NaN `x`: `x` with the signalling bit (bit 121) cleared and nothing else touched (payload ≥ 10^33 / reserved bits are NOT
  canonicalised; an sNaN raises nothing — there is no status word), exponent 0. -/
theorem frexp_spec (x : U128) : bid128_frexp x = .ok (match decode (bitsOf x) with
    | .fin s c e => (ofBits (encode (frexpD (.fin s c e)).1), Int32.ofInt (frexpD (.fin s c e)).2)
    | .inf _ => (x, 0)
    | .nan _ _ _ => ({ w0 := x.w0, w1 := x.w1 &&& 0xfdffffffffffffff }, 0)) := by
  rw [frexp_shape, decode_bitsOf]
  simp only [inf_test, snan_test, steer_test, gt128, zero_test, coeff_hi, UInt64.toNat_ofNat]
  have hl := x.w0.toNat_lt
  have hh := x.w1.toNat_lt
  by_cases c1 : x.w1.toNat / 2^59 % 16 = 15
  · rw [if_pos (by simpa using c1)]
    by_cases cN : x.w1.toNat / 2^58 % 32 = 31
    · obtain ⟨s, p, hd⟩ := decodeW_nan _ x.w0.toNat cN
      rw [hd]
      by_cases cS : x.w1.toNat / 2^57 % 64 = 63
      · rw [if_pos (by simpa using cS)]
      · rw [if_neg (by simpa using cS), quiet_noop _ (by omega)]
    · rw [decodeW_inf _ _ c1 cN, if_neg (by simp only [decide_eq_true_eq]; omega)]
  rw [if_neg (by simpa using c1)]
  by_cases c3 : x.w1.toNat / 2^61 % 4 = 3
  · rw [if_pos (by simpa using c3), decodeW_large _ _ c1 c3]
    simp only [frexpD, if_true]
    rw [zero_words x.w1 _ _ (exp2_u32 x.w1) (Nat.mod_lt _ (by decide))]
    rfl
  rw [if_neg (by simpa using c3)]
  by_cases cz : P34 ≤ x.w1.toNat % 2^49 * 2^64 + x.w0.toNat ∨ x.w1.toNat % 2^49 * 2^64 + x.w0.toNat = 0
  · rw [if_pos (by
      simp only [P34] at cz
      simp only [Bool.or_eq_true, decide_eq_true_eq]; omega), decodeW_small_zero _ _ c1 c3 cz]
    simp only [frexpD, if_true]
    rw [zero_words x.w1 _ _ (exp_u32 x.w1) (Nat.mod_lt _ (by decide))]
    rfl
  rw [if_neg (by
      simp only [P34] at cz
      simp only [Bool.or_eq_true, decide_eq_true_eq]; omega)]
  have c4 : ¬ P34 ≤ x.w1.toNat % 2^49 * 2^64 + x.w0.toNat := fun h => cz (Or.inl h)
  have c2 : ¬ x.w1.toNat % 2^49 * 2^64 + x.w0.toNat = 0 := fun h => cz (Or.inr h)
  have hC0 : 0 < x.w1.toNat % 2^49 * 2^64 + x.w0.toNat := by omega
  have hC : x.w1.toNat % 2^49 * 2^64 + x.w0.toNat < 2^113 := by simp only [P34] at c4; omega
  have hq : ndigits (x.w1.toNat % 2^49 * 2^64 + x.w0.toNat) ≤ 34 := by
    rw [ndigits_le_iff (by omega)]; simp only [P34] at c4; omega
  obtain ⟨Q, hQ, hk⟩ := nr_coreG (x.w1 &&& 0x1ffffffffffff) x.w0 (frexpK x) (by rw [coeff_hi]; exact hC0) (by rw [coeff_hi]; exact hC)
  rw [coeff_hi] at hQ hk
  rw [frexpIdx_eq x hC0, hk, decodeW_canon _ _ c1 c3 c4]
  simp only [frexpD, if_neg c2]
  unfold frexpK
  rw [frexp_words x Q _ hQ (by omega), frexp_exp x.w1 Q _ hQ (by omega)]


theorem frexpD_WF (s : Bool) (c : Nat) (e : Int) (h : (Datum.fin s c e).WF) : (frexpD (.fin s c e)).1.WF := by
  obtain ⟨hc, h1, h2⟩ := h
  by_cases h0 : c = 0
  · simp only [frexpD, if_pos h0]; exact ⟨by simp only [P34]; omega, h1, h2⟩
  · simp only [frexpD, if_neg h0]
    have hq : ndigits c ≤ 34 := by rw [ndigits_le_iff (by omega)]; simp only [P34] at hc; omega
    have := ndigits_pos (Nat.pos_of_ne_zero h0)
    exact ⟨hc, by simp only [eMin]; omega, by simp only [eMax]; omega⟩

/-- `frexp` of a finite datum at the level of data: the result decodes to the model's fraction, is canonical, and the
returned `i32` is the model's exponent (no wrap-around) -/
theorem frexp_finite (x : U128) {s : Bool} {c : Nat} {e : Int} (h : decode (bitsOf x) = .fin s c e) :
    ∃ r n, bid128_frexp x = .ok (r, n) ∧ decode (bitsOf r) = (frexpD (.fin s c e)).1 ∧
      isCanonical (bitsOf r) = true ∧ n.toInt = (frexpD (.fin s c e)).2 := by
  have hwf : (Datum.fin s c e).WF := by rw [← h]; exact decode_WF _
  have hwf' := frexpD_WF s c e hwf
  refine ⟨_, _, by rw [frexp_spec, h], ?_, ?_, ?_⟩
  · rw [bitsOf_ofBits _ (encode_lt hwf'), decode_encode hwf']
  · rw [bitsOf_ofBits _ (encode_lt hwf')]; exact isCanonical_encode hwf'
  · obtain ⟨hc, h1, h2⟩ := hwf
    simp only [eMin, eMax] at h1 h2
    by_cases h0 : c = 0
    · simp only [frexpD, if_pos h0]; rfl
    · simp only [frexpD, if_neg h0]
      have hq : ndigits c ≤ 34 := by rw [ndigits_le_iff (by omega)]; simp only [P34] at hc; omega
      exact Int32.toInt_ofInt_of_le (by omega) (by omega)

-- 123·10^0 ↦ 0.123 and 3; the largest coefficient; a non-canonical zero keeps its exponent; −Inf with garbage is returned as is;
-- an sNaN with a payload ≥ 10^33 only loses its signalling bit
example : bid128_frexp ⟨123, 0x3040000000000000⟩ = .ok (⟨123, 0x303a000000000000⟩, 3) ∧
    bid128_frexp ⟨0x378d8e63ffffffff, 0x8001ed09bead87c0⟩ = .ok (⟨0x378d8e63ffffffff, 0xaffded09bead87c0⟩, -6142) ∧
    bid128_frexp ⟨0x378d8e6400000000, 0x3041ed09bead87c0⟩ = .ok (⟨0, 0x3040000000000000⟩, 0) ∧
    bid128_frexp ⟨5, 0x6c10000000000007⟩ = .ok (⟨0, 0x3040000000000000⟩, 0) ∧
    bid128_frexp ⟨7, 0xf800000000000001⟩ = .ok (⟨7, 0xf800000000000001⟩, 0) ∧
    bid128_frexp ⟨7, 0x7e003fffffffffff⟩ = .ok (⟨7, 0x7c003fffffffffff⟩, 0) := by decide +kernel

/-! ## A2. `bid128_fdim` -/

theorem bitsOf_eq3 (x : U128) : Dec.C03GenCompare.bitsOf x = bitsOf x := rfl
theorem bitsOf_eq6 (x : U128) : Dec.C06GenFromInt.bitsOf x = bitsOf x := rfl
theorem ofBits_eq6 (n : Nat) : Dec.C06GenFromInt.ofBits n = ofBits n := rfl

/-- **`bid128_fdim`**, every pair of patterns, rounding mode and incoming status word: the quiet comparison `x > y` is made
with its status effect discarded (the status word is saved before and restored after);
* both operands non-NaN and not `x > y` (so `x ≤ y`; infinities, zeros and non-canonical encodings included): the result is
  exactly `+0` with exponent 0 (`0x3040…0`) and the status word is returned unchanged;
* otherwise (`x > y`, or some operand NaN): whatever the translated `bid128_add` returns for `x` and `y` with its sign bit
  flipped (a NaN `y` is passed unchanged) — result and status word. -/
theorem fdim_spec (x y : U128) (m : RoundingMode) (f : UInt32) :
    bid128_fdim x y m f =
      if (decode (bitsOf x)).isNaN = false ∧ (decode (bitsOf y)).isNaN = false ∧
          cmpD (decode (bitsOf x)) (decode (bitsOf y)) ≠ some .gt
      then .ok (⟨0, 0x3040000000000000⟩, f)
      else bid128_add x (if (decode (bitsOf y)).isNaN then y else ofBits ((bitsOf y + 2^127) % 2^128)) m f := by
  unfold bid128_fdim
  simp only [bind, Except.bind, pure, Except.pure, Dec.C03GenCompare.quiet_greater_spec, Dec.C06GenFromInt.sub_eq, bne,
    Dec.C06GenFromInt.nan_test_decode, bitsOf_eq3, bitsOf_eq6, ofBits_eq6]
  have eta : ∀ r : Except String (U128 × UInt32),
      (Except.bind r (fun v => Except.ok (v.1, v.2)) : Except String (U128 × UInt32)) = r := by
    intro r; cases r <;> rfl
  by_cases hc : (decode (bitsOf x)).isNaN = false ∧ (decode (bitsOf y)).isNaN = false ∧
      cmpD (decode (bitsOf x)) (decode (bitsOf y)) ≠ some .gt
  · rw [if_pos hc, if_pos (by
      obtain ⟨h1, h2, h3⟩ := hc
      rw [h1, h2]
      simp only [Bool.not_false, Bool.true_and, Bool.not_eq_true', beq_eq_false_iff_ne]
      exact h3)]
  · rw [if_neg hc, if_neg (by
      intro h
      apply hc
      simp only [Bool.and_eq_true, Bool.not_eq_true', beq_eq_false_iff_ne] at h
      exact ⟨h.1.1, h.1.2, h.2⟩)]
    exact eta _

-- 1 ≤ 2: `+0`, status word untouched; 2 > 1: the translated addition of 2 and −1; a NaN operand goes to the addition as it is
example : bid128_fdim ⟨1, 0x3040000000000000⟩ ⟨2, 0x3040000000000000⟩ .Upward 0x20 = .ok (⟨0, 0x3040000000000000⟩, 0x20) := by
  decide +kernel
example (m : RoundingMode) (f : UInt32) : bid128_fdim ⟨2, 0x3040000000000000⟩ ⟨1, 0x3040000000000000⟩ m f
    = bid128_add ⟨2, 0x3040000000000000⟩ ⟨1, 0xb040000000000000⟩ m f := by
  rw [fdim_spec, if_neg (by decide +kernel), if_neg (by decide +kernel)]
  exact congrFun (congrFun (congrArg (bid128_add _) (by decide +kernel)) m) f
example (m : RoundingMode) (f : UInt32) : bid128_fdim ⟨2, 0x3040000000000000⟩ ⟨1, 0x7e00000000000000⟩ m f
    = bid128_add ⟨2, 0x3040000000000000⟩ ⟨1, 0x7e00000000000000⟩ m f := by
  rw [fdim_spec, if_neg (by decide +kernel), if_pos (by decide +kernel)]

/-! ## B. `bid128_quantize` -/

/-! ### the bit tests of the front end, as facts about the decoded datum -/

theorem t_nan (x : U128) : (x.w1 &&& 0x7c00000000000000 == 0x7c00000000000000) = (decode (bitsOf x)).isNaN :=
  Except.ok.inj (is_nan_spec x)
theorem t_snan (x : U128) : (x.w1 &&& 0x7e00000000000000 == 0x7e00000000000000) = (decode (bitsOf x)).isSNaN :=
  Except.ok.inj (is_signaling_spec x)
theorem t_notfin (x : U128) : (x.w1 &&& 0x7800000000000000 == 0x7800000000000000) = !(decode (bitsOf x)).isFin := by
  have h : (x.w1 &&& 0x7800000000000000 != 0x7800000000000000) = (decode (bitsOf x)).isFin := Except.ok.inj (is_finite_spec x)
  rw [← h, bne, Bool.not_not]

theorem and7c (w : UInt64) : (w &&& 0x7c00000000000000).toNat = w.toNat / 2^58 % 32 * 2^58 :=
  toNat_and_field w _ 5 58 (by decide)

theorem decodeW_isFin (h l : Nat) : (decodeW h l).isFin = decide (h / 2^59 % 16 ≠ 15) := by
  rcases decodeW_cases h l with ⟨h1, h2, hd⟩ | ⟨h1, h2, h3, hd⟩ | ⟨h1, h2, h3, hd⟩ | ⟨h1, h2, hd⟩ | ⟨h1, h2, h3, hd⟩ | ⟨h1, h2, h3, hd⟩ <;>
    rw [hd, Bool.eq_iff_iff] <;> simp only [Datum.isFin, decide_eq_true_eq, Bool.false_eq_true, false_iff, true_iff] <;> omega
theorem decodeW_isNaN (h l : Nat) : (decodeW h l).isNaN = decide (h / 2^58 % 32 = 31) := by
  rcases decodeW_cases h l with ⟨h1, h2, hd⟩ | ⟨h1, h2, h3, hd⟩ | ⟨h1, h2, h3, hd⟩ | ⟨h1, h2, hd⟩ | ⟨h1, h2, h3, hd⟩ | ⟨h1, h2, h3, hd⟩ <;>
    rw [hd, Bool.eq_iff_iff] <;> simp only [Datum.isNaN, decide_eq_true_eq, Bool.false_eq_true, false_iff, true_iff] <;> omega
theorem decodeW_isInf (h l : Nat) : (decodeW h l).isInf = decide (h / 2^58 % 32 = 30) := by
  rcases decodeW_cases h l with ⟨h1, h2, hd⟩ | ⟨h1, h2, h3, hd⟩ | ⟨h1, h2, h3, hd⟩ | ⟨h1, h2, hd⟩ | ⟨h1, h2, h3, hd⟩ | ⟨h1, h2, h3, hd⟩ <;>
    rw [hd, Bool.eq_iff_iff] <;> simp only [Datum.isInf, decide_eq_true_eq, Bool.false_eq_true, false_iff, true_iff] <;> omega

theorem t_lt78 (x : U128) : decide (x.w1 &&& 0x7c00000000000000 < 0x7800000000000000) = (decode (bitsOf x)).isFin := by
  rw [decode_bitsOf, decodeW_isFin, decide_eq_decide, UInt64.lt_iff_toNat_lt, and7c,
    show (0x7800000000000000 : UInt64).toNat = 30 * 2^58 from by decide]
  omega
theorem t_le78 (x : U128) : decide (x.w1 &&& 0x7c00000000000000 ≤ 0x7800000000000000) = !(decode (bitsOf x)).isNaN := by
  rw [decode_bitsOf, decodeW_isNaN, Bool.eq_iff_iff]
  simp only [decide_eq_true_eq, Bool.not_eq_true', decide_eq_false_iff_not, UInt64.le_iff_toNat_le, and7c,
    show (0x7800000000000000 : UInt64).toNat = 30 * 2^58 from by decide]
  omega
theorem t_eq78 (x : U128) : (x.w1 &&& 0x7c00000000000000 == 0x7800000000000000) = (decode (bitsOf x)).isInf := by
  rw [decode_bitsOf, decodeW_isInf, Bool.eq_iff_iff]
  simp only [decide_eq_true_eq, beq_iff_eq, ← UInt64.toNat_inj, and7c,
    show (0x7800000000000000 : UInt64).toNat = 30 * 2^58 from by decide]
  omega


/-! ### the results of the front end -/

theorem and_quiet64 (w : UInt64) : (w &&& 0xfdffffffffffffff).toNat = w.toNat / 2^58 % 2^6 * 2^58 + w.toNat % 2^57 := by
  rw [UInt64.toNat_and, show (0xfdffffffffffffff : UInt64).toNat = 0xfdffffffffffffff from by decide, Dec.C06GenFromInt.and_quiet]

theorem ofBits_w0 (n : Nat) : (ofBits n).w0.toNat = n % 2^64 := by
  show (UInt64.ofNat (n % 2^64)).toNat = _
  rw [UInt64.toNat_ofNat']; omega
theorem ofBits_w1 (n : Nat) (h : n < 2^128) : (ofBits n).w1.toNat = n / 2^64 := by
  show (UInt64.ofNat (n / 2^64)).toNat = _
  rw [UInt64.toNat_ofNat']; omega

/-- clearing the signalling bit of the canonical encoding of a NaN: the canonical quiet NaN with the same sign and payload -/
theorem quiet_nan_words (s g : Bool) (p : Nat) (hp : p < P33) :
    ({ w0 := (ofBits (encode (.nan s g p))).w0, w1 := (ofBits (encode (.nan s g p))).w1 &&& 0xfdffffffffffffff } : U128)
      = ofBits (encode (.nan s false p)) := by
  have hn : encode (.nan s g p) < 2^128 := encode_lt (d := .nan s g p) hp
  apply eq_ofBits
  show _ * 2^64 + _ = _
  rw [and_quiet64, ofBits_w0, ofBits_w1 _ hn]
  simp only [P33] at hp
  cases s <;> cases g <;> simp only [encode, signBit, if_true, if_false, Bool.false_eq_true] <;> omega

theorem quiet_inf_words (s : Bool) :
    ({ w0 := (ofBits (encode (.inf s))).w0, w1 := (ofBits (encode (.inf s))).w1 &&& 0xfdffffffffffffff } : U128)
      = ofBits (encode (.inf s)) := by
  cases s <;> decide +kernel

theorem nan_words : ({ w0 := 0, w1 := 0x7c00000000000000 } : U128) = ofBits (encode defaultNaN) := by decide +kernel


/-- `bid_get_BID128_very_fast` on a sign word, an in-range biased exponent and a coefficient below 10^34 -/
theorem very_fast_words (sw : UInt64) (s : Bool) (hs : sw.toNat = if s then 2^63 else 0) (E : Int) (hE0 : 0 ≤ E)
    (hE1 : E ≤ 12287) (C : Nat) (hC : C < 10^34) :
    bid_get_BID128_very_fast sw (Int32.ofInt E) (ofBits C) = .ok (ofBits (encode (.fin s C (E - 6176)))) := by
  have hC' : C < 2^128 := by
    have : (10:Nat)^34 < 2^128 := by decide +kernel
    omega
  have hsw : sw = 0 ∨ sw = 0x8000000000000000 := by
    cases s
    · left; rw [← UInt64.toNat_inj]; simpa using hs
    · right; rw [← UInt64.toNat_inj]; simpa using hs
  have hsd : decide (sw ≠ 0) = s := by
    cases s
    · have : sw = 0 := by rw [← UInt64.toNat_inj]; simpa using hs
      subst this; rfl
    · have : sw = 0x8000000000000000 := by rw [← UInt64.toNat_inj]; simpa using hs
      subst this; rfl
  have hE : (Int32.ofInt E).toInt = E := Int32.toInt_ofInt_of_le (by omega) (by omega)
  have hb : Dec.C13GenPack.bitsOf (ofBits C) = C := bitsOf_ofBits C hC'
  obtain ⟨r, h, hr, _⟩ := Dec.C13GenPack.get_very_fast_spec sw (Int32.ofInt E) (ofBits C) hsw (by omega) (by omega)
    (by rw [hb]; exact hC)
  rw [h, hE, hb, hsd] at *
  exact congrArg Except.ok (eq_ofBits r _ hr)

theorem sign_word' (x : U128) : (x.w1 &&& 0x8000000000000000).toNat = if (decode (bitsOf x)).neg then 2^63 else 0 :=
  Dec.C06GenFromInt.sign_word x


/-! ### the routine in pieces -/

def quantDown (sign_x : UInt64) (exponent_y : Int32) (CX_ : U128) (expon_diff : Int32) (rnd_mode : RoundingMode) (pfpsf_ : UInt32) : Except String (U128 × UInt32) := do
  let mut pfpsf : UInt32 := pfpsf_
  let mut CX : U128 := CX_
  let mut CT : U256 := default
  let mut CX2 : U128 := default
  let mut CR : U128 := default
  let mut Stemp : U128 := default
  let mut res : U128 := default
  let mut REM_H : U128 := default
  let mut C2N : U128 := default
  let mut remainder_h : UInt64 := default
  let mut carry : UInt64 := default
  let mut CY64 : UInt64 := default
  let mut extra_digits : Int32 := default
  let mut amount : Int32 := default
  let mut rmode : RoundingMode := default
  let mut status : UInt32 := default
  rmode := rnd_mode
  if ((sign_x != (0 : UInt64)) && ((decide ((((UInt32.ofInt (toI rmode)) - (1 : UInt32))) < (2 : UInt32))))) then
    rmode := (← RoundingMode.fromU32 ((3 : UInt32) - ((UInt32.ofInt (toI rmode)))))
  extra_digits := (-expon_diff)
  CX := (← add_128_128 CX (← tbl128_2 Dec.Gen.BID_ROUND_CONST_TABLE_128 36 (UInt64.ofInt (toI rmode)) (UInt64.ofInt (toI extra_digits))))
  CT := (← mul_128x128_to_256 CX (← tbl128 Dec.Gen.BID_RECIPROCALS10_128 (UInt64.ofInt (toI extra_digits))))
  amount := (← tblI32 Dec.Gen.BID_RECIP_SCALE (UInt64.ofInt (toI extra_digits)))
  CX2 := { CX2 with w0 := CT.w2 }
  CX2 := { CX2 with w1 := CT.w3 }
  if (decide (amount ≥ (0x40 : Int32))) then
    CR := { CR with w1 := (0 : UInt64) }
    CR := { CR with w0 := (CX2.w1 >>> (UInt64.ofInt (toI ((amount - (0x40 : Int32)))))) }
  else
    CR := (← shr_128 CX2 amount)
  if ((rnd_mode == RoundingMode.NearestEven) && (((CR.w0 &&& (1 : UInt64))) == (1 : UInt64))) then
    remainder_h := (if (decide (amount ≥ (0x40 : Int32))) then (CX2.w0 ||| ((CX2.w1 <<< (UInt64.ofInt (toI (((0x80 : Int32) - amount))))))) else (CX2.w0 <<< (UInt64.ofInt (toI (((0x40 : Int32) - amount))))))
    if (← (if (remainder_h == (0 : UInt64)) then (do pure ((← (if (decide (CT.w1 < (← tbl128 Dec.Gen.BID_RECIPROCALS10_128 (UInt64.ofInt (toI extra_digits))).w1)) then pure true else (do pure ((← (if (CT.w1 == (← tbl128 Dec.Gen.BID_RECIPROCALS10_128 (UInt64.ofInt (toI extra_digits))).w1) then (do pure (decide (CT.w0 < (← tbl128 Dec.Gen.BID_RECIPROCALS10_128 (UInt64.ofInt (toI extra_digits))).w0))) else pure false)))))))) else pure false)) then
      CR := { CR with w0 := (CR.w0 - 1) }
  status := c_StatusFlags_BID_INEXACT_EXCEPTION
  if (decide (amount ≥ (0x40 : Int32))) then
    REM_H := { REM_H with w1 := (CX2.w1 <<< (UInt64.ofInt (toI (((0x80 : Int32) - amount))))) }
    REM_H := { REM_H with w0 := CX2.w0 }
  else
    REM_H := { REM_H with w1 := (CX2.w0 <<< (UInt64.ofInt (toI (((0x40 : Int32) - amount))))) }
    REM_H := { REM_H with w0 := (0 : UInt64) }
  let t__8 : RoundingMode := rmode
  if ((t__8 == RoundingMode.NearestEven) || (t__8 == RoundingMode.NearestAway)) then
    if (← (if ((REM_H.w1 == (0x8000000000000000 : UInt64)) && (REM_H.w0 == (0 : UInt64))) then (do pure ((← (if (decide (CT.w1 < (← tbl128 Dec.Gen.BID_RECIPROCALS10_128 (UInt64.ofInt (toI extra_digits))).w1)) then pure true else (do pure ((← (if (CT.w1 == (← tbl128 Dec.Gen.BID_RECIPROCALS10_128 (UInt64.ofInt (toI extra_digits))).w1) then (do pure (decide (CT.w0 < (← tbl128 Dec.Gen.BID_RECIPROCALS10_128 (UInt64.ofInt (toI extra_digits))).w0))) else pure false)))))))) else pure false)) then
      status := c_StatusFlags_BID_EXACT_STATUS
  else
    if ((t__8 == RoundingMode.Downward) || (t__8 == RoundingMode.TowardZero)) then
      if (← (if (((REM_H.w1 ||| REM_H.w0)) == (0 : UInt64)) then (do pure ((← (if (decide (CT.w1 < (← tbl128 Dec.Gen.BID_RECIPROCALS10_128 (UInt64.ofInt (toI extra_digits))).w1)) then pure true else (do pure ((← (if (CT.w1 == (← tbl128 Dec.Gen.BID_RECIPROCALS10_128 (UInt64.ofInt (toI extra_digits))).w1) then (do pure (decide (CT.w0 < (← tbl128 Dec.Gen.BID_RECIPROCALS10_128 (UInt64.ofInt (toI extra_digits))).w0))) else pure false)))))))) else pure false)) then
        status := c_StatusFlags_BID_EXACT_STATUS
    else
      let t__9 := (← add_carry_out CT.w0 ((← tbl128 Dec.Gen.BID_RECIPROCALS10_128 (UInt64.ofInt (toI extra_digits))).w0))
      Stemp := { Stemp with w0 := t__9.1 }
      CY64 := t__9.2
      let t__10 := (← add_carry_in_out CT.w1 ((← tbl128 Dec.Gen.BID_RECIPROCALS10_128 (UInt64.ofInt (toI extra_digits))).w1) CY64)
      Stemp := { Stemp with w1 := t__10.1 }
      carry := t__10.2
      if (decide (amount < (0x40 : Int32))) then
        C2N := { C2N with w1 := (0 : UInt64) }
        C2N := { C2N with w0 := (((UInt64.ofInt (toI 1))) <<< (UInt64.ofInt (toI amount))) }
        REM_H := { REM_H with w0 := (REM_H.w1 >>> (UInt64.ofInt (toI (((0x40 : Int32) - amount))))) }
        REM_H := { REM_H with w1 := (0 : UInt64) }
      else
        C2N := { C2N with w1 := (((UInt64.ofInt (toI 1))) <<< (UInt64.ofInt (toI ((amount - (0x40 : Int32)))))) }
        C2N := { C2N with w0 := (0 : UInt64) }
        REM_H := { REM_H with w1 := (REM_H.w1 >>> (UInt64.ofInt (toI ((0x80 : Int32) - amount)))) }
      REM_H := { REM_H with w0 := (REM_H.w0 + carry) }
      if (decide (REM_H.w0 < carry)) then
        REM_H := { REM_H with w1 := (REM_H.w1 + 1) }
      if (← unsigned_compare_ge_128 REM_H C2N) then
        status := c_StatusFlags_BID_EXACT_STATUS
  let t__11 ← set_status_flags pfpsf status
  pfpsf := t__11
  res := (← bid_get_BID128_very_fast sign_x exponent_y CR)
  return (res, pfpsf)

def quantMain (sign_x : UInt64) (exponent_x exponent_y : Int32) (CX_ : U128) (rnd_mode : RoundingMode) (pfpsf_ : UInt32) : Except String (U128 × UInt32) := do
  let mut pfpsf : UInt32 := pfpsf_
  let mut CX : U128 := CX_
  let mut CT : U256 := default
  let mut T : U128 := default
  let mut CX2 : U128 := default
  let mut CR : U128 := default
  let mut Stemp : U128 := default
  let mut res : U128 := default
  let mut REM_H : U128 := default
  let mut C2N : U128 := default
  let mut remainder_h : UInt64 := default
  let mut carry : UInt64 := default
  let mut CY64 : UInt64 := default
  let mut tempx : F32U := default
  let mut digits_x : Int32 := default
  let mut extra_digits : Int32 := default
  let mut amount : Int32 := default
  let mut expon_diff : Int32 := default
  let mut total_digits : Int32 := default
  let mut bin_expon_cx : Int32 := default
  let mut rmode : RoundingMode := default
  let mut status : UInt32 := default
  if (CX.w1 != (0 : UInt64)) then
    tempx := (F32U.ofU64 (UInt64.ofInt (toI CX.w1)))
    bin_expon_cx := (Int32.ofInt (toI (((((((tempx.bits >>> 0x17)) &&& (0xff : UInt32))) - (0x7f : UInt32)) + (0x40 : UInt32)))))
  else
    tempx := (F32U.ofU64 (UInt64.ofInt (toI CX.w0)))
    bin_expon_cx := (Int32.ofInt (toI ((((((tempx.bits >>> 0x17)) &&& (0xff : UInt32))) - (0x7f : UInt32)))))
  digits_x := (← tblI32 Dec.Gen.BID_ESTIMATE_DECIMAL_DIGITS (UInt64.ofInt (toI bin_expon_cx)))
  if (← (if (decide (CX.w1 > (← tbl128 Dec.Gen.BID_POWER10_TABLE_128 (UInt64.ofInt (toI digits_x))).w1)) then pure true else (do pure ((← (if (CX.w1 == (← tbl128 Dec.Gen.BID_POWER10_TABLE_128 (UInt64.ofInt (toI digits_x))).w1) then (do pure (decide (CX.w0 ≥ (← tbl128 Dec.Gen.BID_POWER10_TABLE_128 (UInt64.ofInt (toI digits_x))).w0))) else pure false)))))) then
    digits_x := (digits_x + 1)
  expon_diff := (exponent_x - exponent_y)
  total_digits := (digits_x + expon_diff)
  if (decide (((UInt32.ofInt (toI total_digits))) ≤ (0x22 : UInt32))) then
    if (decide (expon_diff ≥ (0 : Int32))) then
      T := (← tbl128 Dec.Gen.BID_POWER10_TABLE_128 (UInt64.ofInt (toI expon_diff)))
      CX2 := (← mul_128x128_low T CX)
      res := (← bid_get_BID128_very_fast sign_x exponent_y CX2)
      return (res, pfpsf)
    rmode := rnd_mode
    if ((sign_x != (0 : UInt64)) && ((decide ((((UInt32.ofInt (toI rmode)) - (1 : UInt32))) < (2 : UInt32))))) then
      rmode := (← RoundingMode.fromU32 ((3 : UInt32) - ((UInt32.ofInt (toI rmode)))))
    extra_digits := (-expon_diff)
    CX := (← add_128_128 CX (← tbl128_2 Dec.Gen.BID_ROUND_CONST_TABLE_128 36 (UInt64.ofInt (toI rmode)) (UInt64.ofInt (toI extra_digits))))
    CT := (← mul_128x128_to_256 CX (← tbl128 Dec.Gen.BID_RECIPROCALS10_128 (UInt64.ofInt (toI extra_digits))))
    amount := (← tblI32 Dec.Gen.BID_RECIP_SCALE (UInt64.ofInt (toI extra_digits)))
    CX2 := { CX2 with w0 := CT.w2 }
    CX2 := { CX2 with w1 := CT.w3 }
    if (decide (amount ≥ (0x40 : Int32))) then
      CR := { CR with w1 := (0 : UInt64) }
      CR := { CR with w0 := (CX2.w1 >>> (UInt64.ofInt (toI ((amount - (0x40 : Int32)))))) }
    else
      CR := (← shr_128 CX2 amount)
    if ((rnd_mode == RoundingMode.NearestEven) && (((CR.w0 &&& (1 : UInt64))) == (1 : UInt64))) then
      remainder_h := (if (decide (amount ≥ (0x40 : Int32))) then (CX2.w0 ||| ((CX2.w1 <<< (UInt64.ofInt (toI (((0x80 : Int32) - amount))))))) else (CX2.w0 <<< (UInt64.ofInt (toI (((0x40 : Int32) - amount))))))
      if (← (if (remainder_h == (0 : UInt64)) then (do pure ((← (if (decide (CT.w1 < (← tbl128 Dec.Gen.BID_RECIPROCALS10_128 (UInt64.ofInt (toI extra_digits))).w1)) then pure true else (do pure ((← (if (CT.w1 == (← tbl128 Dec.Gen.BID_RECIPROCALS10_128 (UInt64.ofInt (toI extra_digits))).w1) then (do pure (decide (CT.w0 < (← tbl128 Dec.Gen.BID_RECIPROCALS10_128 (UInt64.ofInt (toI extra_digits))).w0))) else pure false)))))))) else pure false)) then
        CR := { CR with w0 := (CR.w0 - 1) }
    status := c_StatusFlags_BID_INEXACT_EXCEPTION
    if (decide (amount ≥ (0x40 : Int32))) then
      REM_H := { REM_H with w1 := (CX2.w1 <<< (UInt64.ofInt (toI (((0x80 : Int32) - amount))))) }
      REM_H := { REM_H with w0 := CX2.w0 }
    else
      REM_H := { REM_H with w1 := (CX2.w0 <<< (UInt64.ofInt (toI (((0x40 : Int32) - amount))))) }
      REM_H := { REM_H with w0 := (0 : UInt64) }
    let t__8 : RoundingMode := rmode
    if ((t__8 == RoundingMode.NearestEven) || (t__8 == RoundingMode.NearestAway)) then
      if (← (if ((REM_H.w1 == (0x8000000000000000 : UInt64)) && (REM_H.w0 == (0 : UInt64))) then (do pure ((← (if (decide (CT.w1 < (← tbl128 Dec.Gen.BID_RECIPROCALS10_128 (UInt64.ofInt (toI extra_digits))).w1)) then pure true else (do pure ((← (if (CT.w1 == (← tbl128 Dec.Gen.BID_RECIPROCALS10_128 (UInt64.ofInt (toI extra_digits))).w1) then (do pure (decide (CT.w0 < (← tbl128 Dec.Gen.BID_RECIPROCALS10_128 (UInt64.ofInt (toI extra_digits))).w0))) else pure false)))))))) else pure false)) then
        status := c_StatusFlags_BID_EXACT_STATUS
    else
      if ((t__8 == RoundingMode.Downward) || (t__8 == RoundingMode.TowardZero)) then
        if (← (if (((REM_H.w1 ||| REM_H.w0)) == (0 : UInt64)) then (do pure ((← (if (decide (CT.w1 < (← tbl128 Dec.Gen.BID_RECIPROCALS10_128 (UInt64.ofInt (toI extra_digits))).w1)) then pure true else (do pure ((← (if (CT.w1 == (← tbl128 Dec.Gen.BID_RECIPROCALS10_128 (UInt64.ofInt (toI extra_digits))).w1) then (do pure (decide (CT.w0 < (← tbl128 Dec.Gen.BID_RECIPROCALS10_128 (UInt64.ofInt (toI extra_digits))).w0))) else pure false)))))))) else pure false)) then
          status := c_StatusFlags_BID_EXACT_STATUS
      else
        let t__9 := (← add_carry_out CT.w0 ((← tbl128 Dec.Gen.BID_RECIPROCALS10_128 (UInt64.ofInt (toI extra_digits))).w0))
        Stemp := { Stemp with w0 := t__9.1 }
        CY64 := t__9.2
        let t__10 := (← add_carry_in_out CT.w1 ((← tbl128 Dec.Gen.BID_RECIPROCALS10_128 (UInt64.ofInt (toI extra_digits))).w1) CY64)
        Stemp := { Stemp with w1 := t__10.1 }
        carry := t__10.2
        if (decide (amount < (0x40 : Int32))) then
          C2N := { C2N with w1 := (0 : UInt64) }
          C2N := { C2N with w0 := (((UInt64.ofInt (toI 1))) <<< (UInt64.ofInt (toI amount))) }
          REM_H := { REM_H with w0 := (REM_H.w1 >>> (UInt64.ofInt (toI (((0x40 : Int32) - amount))))) }
          REM_H := { REM_H with w1 := (0 : UInt64) }
        else
          C2N := { C2N with w1 := (((UInt64.ofInt (toI 1))) <<< (UInt64.ofInt (toI ((amount - (0x40 : Int32)))))) }
          C2N := { C2N with w0 := (0 : UInt64) }
          REM_H := { REM_H with w1 := (REM_H.w1 >>> (UInt64.ofInt (toI ((0x80 : Int32) - amount)))) }
        REM_H := { REM_H with w0 := (REM_H.w0 + carry) }
        if (decide (REM_H.w0 < carry)) then
          REM_H := { REM_H with w1 := (REM_H.w1 + 1) }
        if (← unsigned_compare_ge_128 REM_H C2N) then
          status := c_StatusFlags_BID_EXACT_STATUS
    let t__11 ← set_status_flags pfpsf status
    pfpsf := t__11
    res := (← bid_get_BID128_very_fast sign_x exponent_y CR)
    return (res, pfpsf)
  if (decide (total_digits < (0 : Int32))) then
    CR := { CR with w1 := (0 : UInt64) }
    CR := { CR with w0 := (0 : UInt64) }
    rmode := rnd_mode
    if ((sign_x != (0 : UInt64)) && ((decide ((((UInt32.ofInt (toI rmode)) - (1 : UInt32))) < (2 : UInt32))))) then
      rmode := (← RoundingMode.fromU32 ((3 : UInt32) - ((UInt32.ofInt (toI rmode)))))
    if (rmode == RoundingMode.Upward) then
      CR := { CR with w0 := (1 : UInt64) }
    let t__12 ← set_status_flags pfpsf c_StatusFlags_BID_INEXACT_EXCEPTION
    pfpsf := t__12
    res := (← bid_get_BID128_very_fast sign_x exponent_y CR)
    return (res, pfpsf)
  let t__13 ← set_status_flags pfpsf c_StatusFlags_BID_INVALID_EXCEPTION
  pfpsf := t__13
  res := { res with w1 := (0x7c00000000000000 : UInt64) }
  res := { res with w0 := (0 : UInt64) }
  return (res, pfpsf)

def quantMain2 (sign_x : UInt64) (exponent_x exponent_y : Int32) (CX_ : U128) (rnd_mode : RoundingMode) (pfpsf_ : UInt32) : Except String (U128 × UInt32) := do
  let mut pfpsf : UInt32 := pfpsf_
  let mut CX : U128 := CX_
  let mut CT : U256 := default
  let mut T : U128 := default
  let mut CX2 : U128 := default
  let mut CR : U128 := default
  let mut Stemp : U128 := default
  let mut res : U128 := default
  let mut REM_H : U128 := default
  let mut C2N : U128 := default
  let mut remainder_h : UInt64 := default
  let mut carry : UInt64 := default
  let mut CY64 : UInt64 := default
  let mut tempx : F32U := default
  let mut digits_x : Int32 := default
  let mut extra_digits : Int32 := default
  let mut amount : Int32 := default
  let mut expon_diff : Int32 := default
  let mut total_digits : Int32 := default
  let mut bin_expon_cx : Int32 := default
  let mut rmode : RoundingMode := default
  let mut status : UInt32 := default
  if (CX.w1 != (0 : UInt64)) then
    tempx := (F32U.ofU64 (UInt64.ofInt (toI CX.w1)))
    bin_expon_cx := (Int32.ofInt (toI (((((((tempx.bits >>> 0x17)) &&& (0xff : UInt32))) - (0x7f : UInt32)) + (0x40 : UInt32)))))
  else
    tempx := (F32U.ofU64 (UInt64.ofInt (toI CX.w0)))
    bin_expon_cx := (Int32.ofInt (toI ((((((tempx.bits >>> 0x17)) &&& (0xff : UInt32))) - (0x7f : UInt32)))))
  digits_x := (← tblI32 Dec.Gen.BID_ESTIMATE_DECIMAL_DIGITS (UInt64.ofInt (toI bin_expon_cx)))
  if (← (if (decide (CX.w1 > (← tbl128 Dec.Gen.BID_POWER10_TABLE_128 (UInt64.ofInt (toI digits_x))).w1)) then pure true else (do pure ((← (if (CX.w1 == (← tbl128 Dec.Gen.BID_POWER10_TABLE_128 (UInt64.ofInt (toI digits_x))).w1) then (do pure (decide (CX.w0 ≥ (← tbl128 Dec.Gen.BID_POWER10_TABLE_128 (UInt64.ofInt (toI digits_x))).w0))) else pure false)))))) then
    digits_x := (digits_x + 1)
  expon_diff := (exponent_x - exponent_y)
  total_digits := (digits_x + expon_diff)
  if (decide (((UInt32.ofInt (toI total_digits))) ≤ (0x22 : UInt32))) then
    if (decide (expon_diff ≥ (0 : Int32))) then
      T := (← tbl128 Dec.Gen.BID_POWER10_TABLE_128 (UInt64.ofInt (toI expon_diff)))
      CX2 := (← mul_128x128_low T CX)
      res := (← bid_get_BID128_very_fast sign_x exponent_y CX2)
      return (res, pfpsf)
    return (← quantDown sign_x exponent_y CX expon_diff rnd_mode pfpsf)
  if (decide (total_digits < (0 : Int32))) then
    CR := { CR with w1 := (0 : UInt64) }
    CR := { CR with w0 := (0 : UInt64) }
    rmode := rnd_mode
    if ((sign_x != (0 : UInt64)) && ((decide ((((UInt32.ofInt (toI rmode)) - (1 : UInt32))) < (2 : UInt32))))) then
      rmode := (← RoundingMode.fromU32 ((3 : UInt32) - ((UInt32.ofInt (toI rmode)))))
    if (rmode == RoundingMode.Upward) then
      CR := { CR with w0 := (1 : UInt64) }
    let t__12 ← set_status_flags pfpsf c_StatusFlags_BID_INEXACT_EXCEPTION
    pfpsf := t__12
    res := (← bid_get_BID128_very_fast sign_x exponent_y CR)
    return (res, pfpsf)
  let t__13 ← set_status_flags pfpsf c_StatusFlags_BID_INVALID_EXCEPTION
  pfpsf := t__13
  res := { res with w1 := (0x7c00000000000000 : UInt64) }
  res := { res with w0 := (0 : UInt64) }
  return (res, pfpsf)


def quantFront2 (x y : U128) (rnd_mode : RoundingMode) (pfpsf_ : UInt32) (t__1 t__2 : UInt64 × UInt64 × Int32 × U128) : Except String (U128 × UInt32) := do
  let mut pfpsf : UInt32 := pfpsf_
  let mut CT : U256 := default
  let mut CX : U128 := default
  let mut CY : U128 := default
  let mut T : U128 := default
  let mut CX2 : U128 := default
  let mut CR : U128 := default
  let mut Stemp : U128 := default
  let mut res : U128 := default
  let mut REM_H : U128 := default
  let mut C2N : U128 := default
  let mut sign_x : UInt64 := (0 : UInt64)
  let mut sign_y : UInt64 := (0 : UInt64)
  let mut remainder_h : UInt64 := default
  let mut carry : UInt64 := default
  let mut CY64 : UInt64 := default
  let mut valid_x : UInt64 := default
  let mut tempx : F32U := default
  let mut exponent_x : Int32 := (0 : Int32)
  let mut exponent_y : Int32 := (0 : Int32)
  let mut digits_x : Int32 := default
  let mut extra_digits : Int32 := default
  let mut amount : Int32 := default
  let mut expon_diff : Int32 := default
  let mut total_digits : Int32 := default
  let mut bin_expon_cx : Int32 := default
  let mut rmode : RoundingMode := default
  let mut status : UInt32 := default
  sign_x := t__1.2.1
  exponent_x := t__1.2.2.1
  CX := t__1.2.2.2
  valid_x := t__1.1
  sign_y := t__2.2.1
  exponent_y := t__2.2.2.1
  CY := t__2.2.2.2
  if (t__2.1 == (0 : UInt64)) then
    if (((x.w1 &&& c_SNAN_MASK64)) == c_SNAN_MASK64) then
      let t__3 ← set_status_flags pfpsf c_StatusFlags_BID_INVALID_EXCEPTION
      pfpsf := t__3
    if (((y.w1 &&& (0x7c00000000000000 : UInt64))) == (0x7c00000000000000 : UInt64)) then
      if (((y.w1 &&& (0x7e00000000000000 : UInt64))) == (0x7e00000000000000 : UInt64)) then
        let t__4 ← set_status_flags pfpsf c_StatusFlags_BID_INVALID_EXCEPTION
        pfpsf := t__4
      if (((x.w1 &&& (0x7c00000000000000 : UInt64))) != (0x7c00000000000000 : UInt64)) then
        res := { res with w1 := (CY.w1 &&& c_QUIET_MASK64) }
        res := { res with w0 := CY.w0 }
      else
        res := { res with w1 := (CX.w1 &&& c_QUIET_MASK64) }
        res := { res with w0 := CX.w0 }
      return (res, pfpsf)
    if (((y.w1 &&& (0x7800000000000000 : UInt64))) == (0x7800000000000000 : UInt64)) then
      if (decide (((x.w1 &&& (0x7c00000000000000 : UInt64))) < (0x7800000000000000 : UInt64))) then
        let t__5 ← set_status_flags pfpsf c_StatusFlags_BID_INVALID_EXCEPTION
        pfpsf := t__5
        res := { res with w1 := (0x7c00000000000000 : UInt64) }
        res := { res with w0 := (0 : UInt64) }
        return (res, pfpsf)
      else
        if (decide (((x.w1 &&& (0x7c00000000000000 : UInt64))) ≤ (0x7800000000000000 : UInt64))) then
          res := { res with w1 := (CX.w1 &&& c_QUIET_MASK64) }
          res := { res with w0 := CX.w0 }
          return (res, pfpsf)
  if (valid_x == (0 : UInt64)) then
    if (((x.w1 &&& (0x7c00000000000000 : UInt64))) == (0x7800000000000000 : UInt64)) then
      let t__6 ← set_status_flags pfpsf c_StatusFlags_BID_INVALID_EXCEPTION
      pfpsf := t__6
      res := { res with w1 := (0x7c00000000000000 : UInt64) }
      res := { res with w0 := (0 : UInt64) }
      return (res, pfpsf)
    else
      if (((x.w1 &&& (0x7c00000000000000 : UInt64))) == (0x7c00000000000000 : UInt64)) then
        if (((x.w1 &&& (0x7e00000000000000 : UInt64))) == (0x7e00000000000000 : UInt64)) then
          let t__7 ← set_status_flags pfpsf c_StatusFlags_BID_INVALID_EXCEPTION
          pfpsf := t__7
        res := { res with w1 := (CX.w1 &&& c_QUIET_MASK64) }
        res := { res with w0 := CX.w0 }
        return (res, pfpsf)
    if ((CX.w1 == (0 : UInt64)) && (CX.w0 == (0 : UInt64))) then
      res := (← bid_get_BID128_very_fast sign_x exponent_y CX)
      return (res, pfpsf)
  quantMain sign_x exponent_x exponent_y CX rnd_mode pfpsf

theorem quantize_shape (x y : U128) (m : RoundingMode) (f : UInt32) :
    bid128_quantize x y m f =
      Except.bind (unpack_BID128_value 0 0 default x) (fun t1 =>
        Except.bind (unpack_BID128_value 0 0 default y) (fun t2 => quantFront2 x y m f t1 t2)) := by
  rfl

theorem quantMain_shape (sx : UInt64) (ex ey : Int32) (CX : U128) (m : RoundingMode) (f : UInt32) :
    quantMain sx ex ey CX m f = quantMain2 sx ex ey CX m f := by
  unfold quantMain quantMain2
  simp only [bind_pure]
  rfl


/-- what the NaN rule and `quantizeD` together demand -/
def quantExpect (m : Mode) (dx dy : Datum) : Datum × Flags :=
  if dx.isNaN then (quietNaN dx, if dx.isSNaN || dy.isSNaN then fInvalid else 0)
  else if dy.isNaN then (quietNaN dy, if dy.isSNaN then fInvalid else 0)
  else quantizeD m dx dy

theorem valid_zero (c : Nat) (hc : c < 2^128) : ((ofBits c).w0 ||| (ofBits c).w1 == 0) = decide (c = 0) := by
  rw [Bool.eq_iff_iff, beq_iff_eq, decide_eq_true_eq, ← UInt64.toNat_inj, UInt64.toNat_or, ofBits_w0, ofBits_w1 _ hc,
    UInt64.toNat_zero, Nat.or_eq_zero_iff]
  omega

theorem coeff_zero (c : Nat) (hc : c < 2^128) : ((ofBits c).w1 == 0 && (ofBits c).w0 == 0) = decide (c = 0) := by
  rw [zero128, ofBits_w0, ofBits_w1 _ hc, decide_eq_decide]
  omega

theorem or11 (f : UInt32) : f ||| 1 ||| 1 = f ||| 1 := by rw [UInt32.or_assoc]; rfl

/-- `Except.bind` on a value, as a rewriting step WITH a proof term (the definitional `simp` step makes the kernel compare
the continuation with the next `bind`, argument by argument, which explodes) -/
theorem bind_ok {α β : Type} (v : α) (F : α → Except String β) : Except.bind (Except.ok v) F = F v := id rfl

theorem bitsOf_fn6 : @Dec.C06GenFromInt.bitsOf = @bitsOf := rfl
theorem ofBits_fn6 : @Dec.C06GenFromInt.ofBits = @ofBits := rfl

theorem flag0 (f : UInt32) : f ||| UInt32.ofNat 0 = f := UInt32.or_zero
theorem flag1 (f : UInt32) : f ||| UInt32.ofNat 1 = f ||| 1 := rfl

theorem tests_nan (x : U128) {s g : Bool} {p : Nat} (hd : decode (bitsOf x) = .nan s g p) :
    (x.w1 &&& 0x7c00000000000000 == 0x7c00000000000000) = true ∧
    (x.w1 &&& 0x7e00000000000000 == 0x7e00000000000000) = g ∧
    (x.w1 &&& 0x7800000000000000 == 0x7800000000000000) = true ∧
    decide (x.w1 &&& 0x7c00000000000000 < 0x7800000000000000) = false ∧
    decide (x.w1 &&& 0x7c00000000000000 ≤ 0x7800000000000000) = false ∧
    (x.w1 &&& 0x7c00000000000000 == 0x7800000000000000) = false := by
  rw [t_nan, t_snan, t_notfin, t_lt78, t_le78, t_eq78, hd]
  exact ⟨rfl, rfl, rfl, rfl, rfl, rfl⟩

theorem tests_inf (x : U128) {s : Bool} (hd : decode (bitsOf x) = .inf s) :
    (x.w1 &&& 0x7c00000000000000 == 0x7c00000000000000) = false ∧
    (x.w1 &&& 0x7e00000000000000 == 0x7e00000000000000) = false ∧
    (x.w1 &&& 0x7800000000000000 == 0x7800000000000000) = true ∧
    decide (x.w1 &&& 0x7c00000000000000 < 0x7800000000000000) = false ∧
    decide (x.w1 &&& 0x7c00000000000000 ≤ 0x7800000000000000) = true ∧
    (x.w1 &&& 0x7c00000000000000 == 0x7800000000000000) = true := by
  rw [t_nan, t_snan, t_notfin, t_lt78, t_le78, t_eq78, hd]
  exact ⟨rfl, rfl, rfl, rfl, rfl, rfl⟩

theorem tests_fin (x : U128) {s : Bool} {c : Nat} {e : Int} (hd : decode (bitsOf x) = .fin s c e) :
    (x.w1 &&& 0x7c00000000000000 == 0x7c00000000000000) = false ∧
    (x.w1 &&& 0x7e00000000000000 == 0x7e00000000000000) = false ∧
    (x.w1 &&& 0x7800000000000000 == 0x7800000000000000) = false ∧
    decide (x.w1 &&& 0x7c00000000000000 < 0x7800000000000000) = true ∧
    decide (x.w1 &&& 0x7c00000000000000 ≤ 0x7800000000000000) = true ∧
    (x.w1 &&& 0x7c00000000000000 == 0x7800000000000000) = false := by
  rw [t_nan, t_snan, t_notfin, t_lt78, t_le78, t_eq78, hd]
  exact ⟨rfl, rfl, rfl, rfl, rfl, rfl⟩

/-- unfold the front end -/
macro "front_unfold" : tactic => `(tactic| (
  simp only []
  unfold quantFront2
  delta c_SNAN_MASK64 c_QUIET_MASK64 c_StatusFlags_BID_INVALID_EXCEPTION c_DEC_FE_INVALID
  simp only [bind, Except.bind, pure, Except.pure, set_status_flags, bne]))

theorem quantize_front_special (x y : U128) (m : RoundingMode) (f : UInt32)
    (h : ¬ ((decode (bitsOf x)).isFin = true ∧ (decode (bitsOf x)).isZero = false ∧ (decode (bitsOf y)).isFin = true)) :
    bid128_quantize x y m f = .ok (ofBits (encode (quantExpect (Dec.C13GenPack.md m) (decode (bitsOf x)) (decode (bitsOf y))).1),
      f ||| UInt32.ofNat (quantExpect (Dec.C13GenPack.md m) (decode (bitsOf x)) (decode (bitsOf y))).2) := by
  rw [quantize_shape, Dec.C06GenFromInt.unpack_value_spec, bind_ok, Dec.C06GenFromInt.unpack_value_spec, bind_ok,
    bitsOf_fn6, ofBits_fn6]
  have wx := decode_WF (bitsOf x)
  have wy := decode_WF (bitsOf y)
  have sgx := sign_word' x
  unfold quantExpect
  cases hdx : decode (bitsOf x) with
  | nan sx gx px =>
    have cx : canon (bitsOf x) = encode (.nan sx gx px) := by unfold canon; rw [hdx]
    rw [hdx] at wx
    obtain ⟨a1, a2, a3, a4, a5, a6⟩ := tests_nan x hdx
    cases hdy : decode (bitsOf y) with
    | nan sy gy py =>
      have cy : canon (bitsOf y) = encode (.nan sy gy py) := by unfold canon; rw [hdy]
      rw [hdy] at wy
      obtain ⟨b1, b2, b3, b4, b5, b6⟩ := tests_nan y hdy
      rw [cx, cy]
      front_unfold
      simp only [a1, a2, a3, a4, a5, a6, b1, b2, b3, beq_self_eq_true, if_true, if_false,
        Bool.not_true, Bool.not_false, Bool.false_eq_true, or11, quiet_nan_words _ _ _ wx, quiet_nan_words _ _ _ wy]
      simp only [Datum.isNaN, Datum.isSNaN, quietNaN, if_true]
      cases gx <;> cases gy <;>
        simp only [if_true, if_false, Bool.false_eq_true, Bool.or_self, Bool.or_true, Bool.true_or, Bool.or_false, fInvalid,
          flag0, flag1]
    | inf sy =>
      have cy : canon (bitsOf y) = encode (.inf sy) := by unfold canon; rw [hdy]
      obtain ⟨b1, b2, b3, b4, b5, b6⟩ := tests_inf y hdy
      rw [cx, cy]
      front_unfold
      simp only [a1, a2, a3, a4, a5, a6, b1, b2, b3, beq_self_eq_true, if_true, if_false,
        Bool.not_true, Bool.not_false, Bool.false_eq_true, or11, quiet_nan_words _ _ _ wx]
      simp only [Datum.isNaN, Datum.isSNaN, quietNaN, if_true]
      cases gx <;>
        simp only [if_true, if_false, Bool.false_eq_true, Bool.or_self, Bool.or_true, Bool.true_or, Bool.or_false, fInvalid,
          flag0, flag1]
    | fin sy cy ey =>
      have hcy : cy < 2^128 := by rw [hdy] at wy; have := wy.1; simp only [P34] at this; omega
      obtain ⟨b1, b2, b3, b4, b5, b6⟩ := tests_fin y hdy
      rw [cx]
      front_unfold
      simp only [a1, a2, a3, a4, a5, a6, b1, b2, b3, beq_self_eq_true, if_true, if_false,
        Bool.not_true, Bool.not_false, Bool.false_eq_true, or11, quiet_nan_words _ _ _ wx, valid_zero _ hcy]
      simp only [Datum.isNaN, Datum.isSNaN, quietNaN, if_true]
      cases gx <;> by_cases hz : cy = 0 <;>
        simp only [hz, decide_true, decide_false, if_true, if_false, Bool.false_eq_true, Bool.or_self, Bool.or_true, Bool.true_or,
          Bool.or_false, fInvalid, flag0, flag1, or11]
  | inf sx =>
    have cx : canon (bitsOf x) = encode (.inf sx) := by unfold canon; rw [hdx]
    obtain ⟨a1, a2, a3, a4, a5, a6⟩ := tests_inf x hdx
    cases hdy : decode (bitsOf y) with
    | nan sy gy py =>
      have cy : canon (bitsOf y) = encode (.nan sy gy py) := by unfold canon; rw [hdy]
      rw [hdy] at wy
      obtain ⟨b1, b2, b3, b4, b5, b6⟩ := tests_nan y hdy
      rw [cx, cy]
      front_unfold
      simp only [a1, a2, a3, a4, a5, a6, b1, b2, b3, beq_self_eq_true, if_true, if_false,
        Bool.not_true, Bool.not_false, Bool.false_eq_true, or11, quiet_nan_words _ _ _ wy]
      simp only [Datum.isNaN, Datum.isSNaN, quietNaN, if_true, if_false, Bool.false_eq_true]
      cases gy <;>
        simp only [if_true, if_false, Bool.false_eq_true, fInvalid, flag0, flag1]
    | inf sy =>
      have cy : canon (bitsOf y) = encode (.inf sy) := by unfold canon; rw [hdy]
      obtain ⟨b1, b2, b3, b4, b5, b6⟩ := tests_inf y hdy
      rw [cx, cy]
      front_unfold
      simp only [a1, a2, a3, a4, a5, a6, b1, b2, b3, beq_self_eq_true, if_true, if_false,
        Bool.not_true, Bool.not_false, Bool.false_eq_true, or11, quiet_inf_words]
      simp only [Datum.isNaN, Datum.isSNaN, quantizeD, if_true, if_false, Bool.false_eq_true, flag0]
    | fin sy cy ey =>
      have hcy : cy < 2^128 := by rw [hdy] at wy; have := wy.1; simp only [P34] at this; omega
      obtain ⟨b1, b2, b3, b4, b5, b6⟩ := tests_fin y hdy
      rw [cx]
      front_unfold
      simp only [a1, a2, a3, a4, a5, a6, b1, b2, b3, beq_self_eq_true, if_true, if_false,
        Bool.not_true, Bool.not_false, Bool.false_eq_true, or11, valid_zero _ hcy, nan_words]
      simp only [Datum.isNaN, Datum.isSNaN, quantizeD, invalidResult, if_true, if_false, Bool.false_eq_true, fInvalid, flag1]
      by_cases hz : cy = 0 <;> simp only [hz, decide_true, decide_false, if_true, if_false, Bool.false_eq_true]
  | fin sx cx ex =>
    have hcx : cx < 2^128 := by rw [hdx] at wx; have := wx.1; simp only [P34] at this; omega
    obtain ⟨a1, a2, a3, a4, a5, a6⟩ := tests_fin x hdx
    cases hdy : decode (bitsOf y) with
    | nan sy gy py =>
      have cy : canon (bitsOf y) = encode (.nan sy gy py) := by unfold canon; rw [hdy]
      rw [hdy] at wy
      obtain ⟨b1, b2, b3, b4, b5, b6⟩ := tests_nan y hdy
      rw [cy]
      front_unfold
      simp only [a1, a2, a3, a4, a5, a6, b1, b2, b3, beq_self_eq_true, if_true, if_false,
        Bool.not_true, Bool.not_false, Bool.false_eq_true, or11, quiet_nan_words _ _ _ wy]
      simp only [Datum.isNaN, Datum.isSNaN, quietNaN, if_true, if_false, Bool.false_eq_true]
      cases gy <;>
        simp only [if_true, if_false, Bool.false_eq_true, fInvalid, flag0, flag1]
    | inf sy =>
      have cy : canon (bitsOf y) = encode (.inf sy) := by unfold canon; rw [hdy]
      obtain ⟨b1, b2, b3, b4, b5, b6⟩ := tests_inf y hdy
      rw [cy]
      front_unfold
      simp only [a1, a2, a3, a4, a5, a6, b1, b2, b3, beq_self_eq_true, if_true, if_false,
        Bool.not_true, Bool.not_false, Bool.false_eq_true, or11, nan_words]
      simp only [Datum.isNaN, Datum.isSNaN, quantizeD, invalidResult, if_true, if_false, Bool.false_eq_true, fInvalid, flag1]
    | fin sy cy ey =>
      have hcy : cy < 2^128 := by rw [hdy] at wy; have := wy.1; simp only [P34] at this; omega
      obtain ⟨b1, b2, b3, b4, b5, b6⟩ := tests_fin y hdy
      have hz : cx = 0 := by
        rw [hdx, hdy] at h
        simp only [Datum.isFin, Datum.isZero, true_and, and_true, beq_eq_false_iff_ne, ne_eq, not_not] at h
        exact h
      subst hz
      rw [hdx] at sgx wx
      rw [hdy] at wy
      have hey := wy.2
      simp only [eMin, eMax] at hey
      have hvf := very_fast_words (x.w1 &&& 0x8000000000000000) sx sgx (ey + 6176) (by omega) (by omega) 0 (by decide)
      front_unfold
      simp only [a1, a2, a3, a4, a5, a6, b1, b2, b3, beq_self_eq_true, if_true, if_false,
        Bool.not_true, Bool.not_false, Bool.false_eq_true, or11, valid_zero _ hcy, valid_zero 0 (by decide),
        coeff_zero 0 (by decide), decide_true, hvf]
      simp only [Datum.isNaN, Datum.isSNaN, quantizeD, if_true, if_false, Bool.false_eq_true, flag0]
      have e : ey + 6176 - 6176 = ey := by omega
      by_cases hz : cy = 0 <;> simp only [hz, decide_true, decide_false, if_true, if_false, Bool.false_eq_true, e]


/-- both operands finite, `x` non-zero: the front end hands over to the numeric part -/
theorem quantize_front_main (x y : U128) (m : RoundingMode) (f : UInt32) {sx sy : Bool} {cx cy : Nat} {ex ey : Int}
    (hdx : decode (bitsOf x) = .fin sx cx ex) (hdy : decode (bitsOf y) = .fin sy cy ey) (hc : cx ≠ 0) :
    bid128_quantize x y m f =
      quantMain (x.w1 &&& 0x8000000000000000) (Int32.ofInt (ex + 6176)) (Int32.ofInt (ey + 6176)) (ofBits cx) m f := by
  rw [quantize_shape, Dec.C06GenFromInt.unpack_value_spec, bind_ok, Dec.C06GenFromInt.unpack_value_spec, bind_ok,
    bitsOf_fn6, ofBits_fn6]
  have wx := decode_WF (bitsOf x)
  have wy := decode_WF (bitsOf y)
  rw [hdx] at wx; rw [hdy] at wy
  have hcx : cx < 2^128 := by have := wx.1; simp only [P34] at this; omega
  have hcy : cy < 2^128 := by have := wy.1; simp only [P34] at this; omega
  obtain ⟨a1, a2, a3, a4, a5, a6⟩ := tests_fin x hdx
  obtain ⟨b1, b2, b3, b4, b5, b6⟩ := tests_fin y hdy
  rw [hdx, hdy]
  front_unfold
  simp only [a1, a2, a3, a4, a5, a6, b1, b2, b3, beq_self_eq_true, if_true, if_false,
    Bool.not_true, Bool.not_false, Bool.false_eq_true, or11, valid_zero _ hcy, valid_zero _ hcx, coeff_zero _ hcx, hc, decide_false]
  by_cases hz : cy = 0 <;> simp only [hz, decide_true, decide_false, if_true, if_false, Bool.false_eq_true]

end Dec.C09GenQuantize
