/-
  C02GenFmaZ (part Q: Case (1''B) complete) — see C02GenFmaZ.lean
-/
import DecProofs.Properties.C02GenFmaZP
set_option linter.unusedSimpArgs false
set_option linter.unusedVariables false
namespace Dec.C02GenFmaZ
open Dec Dec.Rs Dec.Gen.Code Dec.C03GenCompare Dec.C02GenCorrection
open Dec.C08GenRoundIntegral (bind_ok' ite_true_bool ite_false_bool i32_add i32_sub i32_neg)

/-! ## 21. Case (1''B) assembled -/


/-- the test "the padded `z` is not `10^33`" on the two words -/
theorem p33_ne_test (r : U128) (cf : Nat) (hP : r.w1.toNat * 2^64 + r.w0.toNat = cf) :
    ((r.w1 != (0x314dc6448d93 : UInt64)) || (r.w0 != (0x38c15b0a00000000 : UInt64))) = decide (cf ≠ 10 ^ 33) := by
  have h0 := r.w0.toNat_lt
  rw [Bool.eq_iff_iff, Bool.or_eq_true, bne_iff_ne, bne_iff_ne, decide_eq_true_eq, Ne, Ne, ← UInt64.toNat_inj, ← UInt64.toNat_inj]
  show ¬ r.w1.toNat = 0x314dc6448d93 ∨ ¬ r.w0.toNat = 0x38c15b0a00000000 ↔ _
  subst hP
  omega

/-- **Case (1''B) of `bid128_ext_fma`, complete**: under the entry invariant and the case conditions as the code tests
them (`delta = 34`, `z` can be padded to 34 digits), the block returns the encoding of the correctly rounded exact sum and ORs
its flags into the status word. -/
theorem caseZ2_spec (C3 : U128) (C4 : U256) (q3 q4 e3 delta p34 : Int32) (z_sign p_sign z_exp : UInt64)
    (sz sp : Bool) (c3 c4 : Nat) (E3 E4 : Int)
    (inv : ZInv C3 C4 q3 q4 e3 delta p34 z_sign p_sign z_exp sz sp c3 c4 E3 E4)
    (hc1 : ((decide (p34 ≤ (delta - (1 : Int32)))) ||
      ((p34 == delta) && (decide ((e3 + (0x1820 : Int32)) < (p34 - q3))))) = false)
    (hc2 : (p34 == delta) = true)
    (pml pmg pil pig : Bool) (m : RoundingMode) (pfpsf : UInt32) (res : U128) (scale : Int32) (R64 : UInt64)
    (P128 R128 : U128) (P192 R192 : U192) (R256 : U256) (pref : Int) :
    ∃ ml mg il ig : Bool,
      caseZ2 pml pmg pil pig m pfpsf res z_sign p_sign z_exp C3 C4 q3 q4 e3 scale p34 false false false false false
          false false false R64 P128 R128 P192 R192 R256 =
        .ok (ofBits (encode (addFin (modeOf m) sp c4 E4 sz c3 E3 pref).1), ml, mg, il, ig,
          pfpsf ||| UInt32.ofNat (addFin (modeOf m) sp c4 E4 sz c3 E3 pref).2) := by
  obtain ⟨hC3, hc0, hc34, hq3, he3, hE1, hE2, hze, hzs, hps, hC4, h40, hq4, hq468, hE4a, hE4b, hdelta, hp⟩ := inv
  have hQ34 : ndigits c3 ≤ 34 := Dec.C08GenRoundIntegral.ndigits_le_34 c3 (by rw [Dec.C13PackHelpers.P34_eq']; exact hc34)
  have hQ1 := ndigits_pos hc0
  have hq4p := ndigits_pos h40
  have hc4lt : c4 < 10 ^ ndigits c4 := lt_pow_ndigits c4
  -- the case conditions
  have hA3 : (e3 + 0x1820).toInt = E3 + 6176 := by rw [i32_add _ _ (by omega) (by decide), he3]; rfl
  have hA4 : (p34 - q3).toInt = 34 - (ndigits c3 : Int) := by rw [hp, i32_sub _ _ (by decide) (by omega), hq3]; rfl
  have hδ : (ndigits c3 : Int) + E3 - ndigits c4 - E4 = 34 := by
    rw [beq_iff_eq, hp, ← Int32.toInt_inj, hdelta] at hc2
    have : (34 : Int32).toInt = 34 := rfl
    omega
  have hS2 : ((34 - ndigits c3 : Nat) : Int) ≤ E3 + 6176 := by
    rw [Bool.or_eq_false_iff, Bool.and_eq_false_iff] at hc1
    rcases hc1.2 with h | h
    · rw [hc2] at h; exact absurd h (by decide)
    · rw [decide_eq_false_iff_not, Int32.lt_iff_toInt_lt, hA3, hA4] at h
      omega
  obtain ⟨S, hS⟩ : ∃ S, S = 34 - ndigits c3 := ⟨_, rfl⟩
  rw [← hS] at hS2
  have hQS : ndigits c3 + S = 34 := by omega
  -- the mathematics: the exact sum in units of 10^E4
  obtain ⟨hEle, hD, hA⟩ := gap_pow c3 c4 S E3 E4 0 (by omega)
  rw [Nat.pow_zero, Nat.mul_one] at hD
  obtain ⟨hcf34, _, hcfu⟩ := pad_bounds c3 S hc0 (by omega)
  have hcf33 := hcfu hQS
  have hcfpos : 0 < c3 * 10 ^ S := Nat.mul_pos hc0 (Nat.pow_pos (by decide))
  have hdom : c4 < c3 * 10 ^ (E3 - E4).toNat := by
    rw [← hA, hD]
    calc c4 < 10 ^ ndigits c4 := hc4lt
      _ ≤ c3 * 10 ^ S * 10 ^ ndigits c4 := Nat.le_mul_of_pos_left _ hcfpos
  have hadd := addFin_dom (modeOf m) sp sz c4 c3 E4 E3 pref (by omega) hdom
  rw [← hA] at hadd
  have hef1 : -6176 ≤ E3 - S := by omega
  have hef2 : E3 - S ≤ 12300 := by omega
  -- the code: padding and comparison
  rw [caseZ2_eq]
  obtain ⟨sc', r, zx', e3', hpad, hr, hzx', he3'⟩ := z2Pad_spec res z_exp C3 q3 e3 scale p34
    (fun scale res z_exp e3 =>
      z2Half C4 q4 false false false fun lt eq gt =>
        if (p_sign == z_sign) = true then
          z2Same pml pmg pil pig m pfpsf res z_sign z_exp e3 false false false false lt eq gt fun res z_exp pfpsf ml mg il ig =>
            z2Fin pml pmg pil pig pfpsf res z_sign z_exp ml mg il ig
        else if ((res.w1 != (0x314dc6448d93 : UInt64)) || (res.w0 != (0x38c15b0a00000000 : UInt64))) = true then
          z2Diff pml pmg pil pig m pfpsf res z_sign z_exp e3 false false false false lt eq gt fun res z_exp pfpsf ml mg il ig =>
            z2Fin pml pmg pil pig pfpsf res z_sign z_exp ml mg il ig
        else
          z2Pow pml pmg pil pig m pfpsf res z_sign z_exp C4 q4 e3 false false false false false lt eq gt R64 P128 R128 P192 R192
            R256 fun res z_exp pfpsf ml mg il ig => z2Fin pml pmg pil pig pfpsf res z_sign z_exp ml mg il ig)
    c3 E3 hC3 hc0 hc34 hq3 he3 hE2 (by rw [← hS]; exact hS2) hze hp
  rw [← hS] at hr hzx' he3'
  rw [hpad, z2Half_spec C4 q4 _ c4 hC4 h40 hq4 hq468]
  rw [sign_beq _ _ _ _ hps hzs]
  rw [← hD] 
  by_cases hsg : sp = sz
  · -- equal signs
    have hb : (sp == sz) = true := by simpa using hsg
    rw [if_pos hb, z2Same_eq]
    rw [if_pos hsg] at hadd
    obtain ⟨hdl, hnt⟩ := same_math sz (c3 * 10 ^ S) c4 E4 (E3 - S) hEle hef1 (by omega) h40 (by rw [hD]; exact hc4lt) hcf34 hcf33
    obtain ⟨l', h', zx'', e3'', hcls, hw, hzx'', he3''⟩ := z2SameCls_spec r.w0 r.w1 z_sign zx' e3'
      (decide (2 * c4 < 10 ^ (E3 - S - E4).toNat)) (decide (2 * c4 = 10 ^ (E3 - S - E4).toNat))
      (decide (10 ^ (E3 - S - E4).toNat < 2 * c4))
      (fun res z_exp e3 ml mg il ig =>
        z2SameTail pml pmg pil pig m pfpsf res z_sign z_exp e3 ml mg il ig fun res z_exp pfpsf ml mg il ig =>
          z2Fin pml pmg pil pig pfpsf res z_sign z_exp ml mg il ig)
      (c3 * 10 ^ S) (E3 - S) hr hcf34 he3' hef1 hef2 hzx'
    rw [show r = ⟨r.w0, r.w1⟩ from rfl, hcls, hadd]
    exact ⟨_, _, _, _, z2SameTail_spec hdl hnt pml pmg pil pig m pfpsf l' h' z_sign zx'' e3'' pref hw hzx'' he3'' hzs⟩
  · -- opposite signs
    have hb : (sp == sz) = false := by simpa using hsg
    rw [if_neg (by rw [hb]; decide), p33_ne_test r (c3 * 10 ^ S) hr]
    rw [if_neg hsg] at hadd
    by_cases hpow : c3 * 10 ^ S = 10 ^ 33
    · -- the padded z is 10^33
      rw [if_neg (by simpa using hpow)]
      have hN : c3 * 10 ^ S * 10 ^ (E3 - S - E4).toNat = P33 * 10 ^ ndigits c4 := by
        rw [hpow, hD, Dec.C13PackHelpers.P33_eq']
      rw [hadd, hN, hD]
      exact z2Pow_spec pml pmg pil pig m pfpsf r z_sign zx' C4 q4 e3' R64 P128 R128 P192 R192 R256 sz c4 E4 (E3 - S) pref
        hC4 h40 hq4 hq468 hzx' hef1 hef2 (by omega) hzs
    · rw [if_pos (by simpa using hpow), z2Diff_eq]
      have hcfgt : 10 ^ 33 < c3 * 10 ^ S := by omega
      obtain ⟨hdl, hnt⟩ := diff_math sz (c3 * 10 ^ S) c4 E4 (E3 - S) hEle hef1 (by omega) h40 (by rw [hD]; exact hc4lt) hcf34 hcfgt
      obtain ⟨l', h', hcls, hw⟩ := z2DiffCls_spec r.w0 r.w1 z_sign zx'
        (decide (2 * c4 < 10 ^ (E3 - S - E4).toNat)) (decide (2 * c4 = 10 ^ (E3 - S - E4).toNat))
        (decide (10 ^ (E3 - S - E4).toNat < 2 * c4))
        (fun res z_exp ml mg il ig =>
          z2DiffTail pml pmg pil pig m pfpsf res z_sign z_exp e3' ml mg il ig fun res z_exp pfpsf ml mg il ig =>
            z2Fin pml pmg pil pig pfpsf res z_sign z_exp ml mg il ig)
        (c3 * 10 ^ S) hr hcfpos
      rw [show r = ⟨r.w0, r.w1⟩ from rfl, hcls, hadd]
      have hle : (diffCls (c3 * 10 ^ S) (decide (2 * c4 < 10 ^ (E3 - S - E4).toNat)) (decide (2 * c4 = 10 ^ (E3 - S - E4).toNat))
          (decide (10 ^ (E3 - S - E4).toNat < 2 * c4))).1 ≤ c3 * 10 ^ S := by
        unfold diffCls; split
        · exact le_refl _
        · split
          · exact Nat.sub_le _ _
          · exact le_refl _
      have e34 : P34 = 10000000000000000000000000000000000 := rfl
      have hnd : ∀ x, x ≤ c3 * 10 ^ S → deliver x (E3 - S) = (x, E3 - S) := by
        intro x hx; unfold deliver; rw [if_neg (by omega)]
      have hd := hnd _ hle
      exact ⟨_, _, _, _, z2DiffTail_spec hdl hnt pml pmg pil pig m pfpsf l' h' z_sign zx' zx' e3' pref (by rw [hd]; exact hw)
        (fun _ => by rw [hd]; exact hzx') (by rw [hd]; exact he3') hzs⟩


end Dec.C02GenFmaZ
