/-
  C02GenFmaZ (part M: Case (1''B), the mathematics of the `10^33` branch) — see C02GenFmaZ.lean
-/
import DecProofs.Properties.C02GenFmaZL
set_option linter.unusedSimpArgs false
set_option linter.unusedVariables false
set_option linter.unusedTactic false
set_option linter.unreachableTactic false
set_option linter.unnecessarySeqFocus false
namespace Dec.C02GenFmaZ
open Dec Dec.Rs Dec.Gen.Code Dec.C03GenCompare Dec.C02GenCorrection
open Dec.C02RoundHelpers (Spec rne rne_eq)

/-! ## 17. Case (1''B), `10^33`: one exponent lower -/


/-- **`10^33·10^(q4) − c4` one exponent lower** (`c4 = a·D + ρ`, `D = 2h` the unit there, `0 < ρ`): the nearest-even
rounding is `10^34 − R` with `R` the nearest-even rounding of `c4 / D`, and the indicators are the mirrored ones -/
theorem deliv_pow_R (s : Bool) (E4 ef : Int) (a ρ h : Nat) (hE : E4 ≤ ef) (hef1 : -6176 ≤ ef) (hef2 : ef ≤ 20000)
    (hD : 10 ^ (ef - E4).toNat = 2 * h) (ha1 : 1 ≤ a) (ha9 : a ≤ 9) (hρ0 : 0 < ρ) (hρ : ρ < 2 * h) :
    Deliv s (P34 * (2 * h) - (a * (2 * h) + ρ)) E4 ef
      (P34 - (if ρ < h then a else if h < ρ then a + 1 else if a % 2 = 0 then a else a + 1))
      (decide (h < ρ)) (decide (ρ < h)) (decide (ρ = h ∧ a % 2 = 0)) (decide (ρ = h ∧ a % 2 = 1)) := by
  have e34 : P34 = 10000000000000000000000000000000000 := rfl
  have hh : 0 < h := by omega
  rw [e34]
  have hmod : (10000000000000000000000000000000000 * (2 * h) - (a * (2 * h) + ρ)) % (2 * h) = 2 * h - ρ := by
    have : 10000000000000000000000000000000000 * (2 * h) - (a * (2 * h) + ρ) =
        (10000000000000000000000000000000000 - a - 1) * (2 * h) + (2 * h - ρ) := by
      interval_cases a <;> omega
    rw [this, Nat.mul_comm, Nat.mul_add_mod, Nat.mod_eq_of_lt (by omega)]
  have hinex : (10000000000000000000000000000000000 * (2 * h) - (a * (2 * h) + ρ)) % (2 * h) ≠ 0 := by rw [hmod]; omega
  clear hmod
  refine ⟨hE, hef1, hef2, ?_, ?_, ?_, ?_, ?_, ?_, ?_, ?_, by rw [hD]; exact hinex, ?_, ?_⟩
  all_goals clear hinex
  all_goals try rw [hD]
  all_goals try rw [e34]
  · simp only [RoundedInt]
    interval_cases a <;> simp only [Nat.reduceMod, Nat.reduceEqDiff, ↓reduceIte, Nat.reduceAdd, OfNat.ofNat_ne_zero, one_ne_zero] <;>
      (refine ⟨?_, ?_⟩ <;> (repeat' split) <;> (try simp only [Nat.reduceSub, Nat.reduceAdd, and_false, and_true, false_iff, true_iff, false_and, true_and]) <;> first | omega | (intro _; trivial))
  · rw [decide_eq_decide]
    interval_cases a <;> simp only [Nat.reduceMod, Nat.reduceEqDiff, ↓reduceIte, Nat.reduceAdd, OfNat.ofNat_ne_zero, one_ne_zero] <;>
      ((repeat' split) <;> (try simp only [Nat.reduceSub, Nat.reduceAdd, and_false, and_true, false_iff, true_iff, false_and, true_and]) <;> first | omega | (intro _; trivial))
  · rw [decide_eq_decide]
    interval_cases a <;> simp only [Nat.reduceMod, Nat.reduceEqDiff, ↓reduceIte, Nat.reduceAdd, OfNat.ofNat_ne_zero, one_ne_zero] <;>
      ((repeat' split) <;> (try simp only [Nat.reduceSub, Nat.reduceAdd, and_false, and_true, false_iff, true_iff, false_and, true_and]) <;> first | omega | (intro _; trivial))
  · rw [decide_eq_decide]
    interval_cases a <;> simp only [Nat.reduceMod, Nat.reduceEqDiff, ↓reduceIte, Nat.reduceAdd, OfNat.ofNat_ne_zero, one_ne_zero] <;>
      ((repeat' split) <;> (try simp only [Nat.reduceSub, Nat.reduceAdd, and_false, and_true, false_iff, true_iff, false_and, true_and]) <;> first | omega | (intro _; trivial))
  · rw [decide_eq_decide]
    interval_cases a <;> simp only [Nat.reduceMod, Nat.reduceEqDiff, ↓reduceIte, Nat.reduceAdd, OfNat.ofNat_ne_zero, one_ne_zero] <;>
      ((repeat' split) <;> (try simp only [Nat.reduceSub, Nat.reduceAdd, and_false, and_true, false_iff, true_iff, false_and, true_and]) <;> first | omega | (intro _; trivial))
  · interval_cases a <;> simp only [Nat.reduceMod, Nat.reduceEqDiff, ↓reduceIte, Nat.reduceAdd, OfNat.ofNat_ne_zero, one_ne_zero] <;>
      ((repeat' split) <;> (try simp only [Nat.reduceSub, Nat.reduceAdd, and_false, and_true, false_iff, true_iff, false_and, true_and]) <;> first | omega | (intro _; trivial))
  · intro hc; exfalso
    interval_cases a <;> simp only [Nat.reduceMod, Nat.reduceEqDiff, ↓reduceIte, Nat.reduceAdd, OfNat.ofNat_ne_zero, one_ne_zero] at hc <;>
      (revert hc; (repeat' split) <;> (try simp only [Nat.reduceSub, Nat.reduceAdd, and_false, and_true, false_iff, true_iff, false_and, true_and]) <;> first | omega | (intro _; trivial))
  · intro _ hc; exfalso
    have e33 : P33 = 1000000000000000000000000000000000 := rfl
    rw [e33] at hc
    interval_cases a <;> simp only [Nat.reduceMod, Nat.reduceEqDiff, ↓reduceIte, Nat.reduceAdd, OfNat.ofNat_ne_zero, one_ne_zero] at hc <;>
      (revert hc; (repeat' split) <;> (try simp only [Nat.reduceSub, Nat.reduceAdd, and_false, and_true, false_iff, true_iff, false_and, true_and]) <;> first | omega | (intro _; trivial))
  · interval_cases a <;> omega
  · right
    interval_cases a <;> omega


/-- the helper's contract for `x = q − 1`, in terms of the leading digit `a` and the rest `ρ` of `c4` -/
theorem spec_digits (c4 cs : Nat) (incr ml mg il ig : Bool) (h0 : 0 < c4) (hq : 2 ≤ ndigits c4)
    (hs : Spec (ndigits c4) (ndigits c4 - 1) c4 cs incr ⟨ml, mg, il, ig⟩) :
    ∃ a ρ h : Nat, 10 ^ (ndigits c4 - 1) = 2 * h ∧ c4 = a * (2 * h) + ρ ∧ ρ < 2 * h ∧ 1 ≤ a ∧ a ≤ 9 ∧
      (if incr = true then 10 else cs) = (if ρ < h then a else if h < ρ then a + 1 else if a % 2 = 0 then a else a + 1) ∧
      (ml = true ↔ ρ = h ∧ a % 2 = 1) ∧ (mg = true ↔ ρ = h ∧ a % 2 = 0) ∧ (il = true ↔ 0 < ρ ∧ ρ < h) ∧
      (ig = true ↔ h < ρ) ∧ (incr = true → cs = 1) := by
  obtain ⟨hcs, hin, h1, h2, h3, h4⟩ := hs
  obtain ⟨lo, hi⟩ := ndigits_spec h0
  obtain ⟨x, hx⟩ : ∃ x, ndigits c4 = x + 2 := ⟨ndigits c4 - 2, by omega⟩
  rw [hx] at hcs hin h1 h2 h3 h4 lo hi ⊢
  simp only [show x + 2 - 1 = x + 1 by omega, show x + 2 - (x + 1) = 1 by omega, show 1 - 1 = 0 by omega,
    Nat.pow_one, Nat.pow_zero] at hcs hin h1 h2 h3 h4 lo hi ⊢
  have hr := rne_eq c4 (x + 1) (by omega)
  have hp : 10 ^ (x + 2) = 10 * 10 ^ (x + 1) := by rw [Nat.pow_succ]; omega
  have hp2 : 10 ^ (x + 1) = 2 * (5 * 10 ^ x) := by rw [Nat.pow_succ]; omega
  have hpp : 0 < 10 ^ x := Nat.pow_pos (by decide)
  have hdm := Nat.div_add_mod c4 (10 ^ (x + 1))
  have hml := Nat.mod_lt c4 (show 0 < 10 ^ (x + 1) by omega)
  rw [hp] at hi
  generalize rne c4 (x + 1) = R at *
  have hR : (if incr = true then 10 else cs) = R := by
    by_cases hc : R = 10
    · rw [if_pos (hin.2 hc), hc]
    · rw [if_neg (fun h => hc (hin.1 h)), hcs, if_neg hc]
  have hcs1 : incr = true → cs = 1 := fun h => by rw [hcs, if_pos (hin.1 h)]
  rw [hR]
  have hh : 2 * (5 * 10 ^ x) / 2 = 5 * 10 ^ x := by omega
  rw [hp2, hh] at h1 h2 h3 h4 hr
  rw [hp2] at hdm hml lo hi
  generalize 5 * 10 ^ x = t at *
  generalize c4 / (2 * t) = a at *
  generalize c4 % (2 * t) = ρ at *
  refine ⟨a, ρ, t, hp2, by rw [Nat.mul_comm]; exact hdm.symm, hml, ?_, ?_, hr, h1, h2, h3, h4, hcs1⟩
  · by_contra hc
    have : a = 0 := by omega
    subst this
    omega
  · by_contra hc
    have : 10 * (2 * t) ≤ a * (2 * t) := Nat.mul_le_mul_right _ (by omega)
    rw [Nat.mul_comm a] at this
    omega


/-- **Case (1''B), `10^33` above the least exponent, `q4 ≥ 2`: the mathematics.**  With the helper's one-digit rounding
of `C4`: no indicator — the difference is exactly `(10^34 − digit)` one exponent lower; otherwise `10^34 − R` is its
nearest-even rounding there, with the mirrored indicators. -/
theorem pow_math (mode : Mode) (sz : Bool) (c4 cs : Nat) (incr ml mg il ig : Bool) (E4 ef pref : Int) (h0 : 0 < c4)
    (hq : 2 ≤ ndigits c4) (hs : Spec (ndigits c4) (ndigits c4 - 1) c4 cs incr ⟨ml, mg, il, ig⟩)
    (hE : E4 ≤ ef - 1) (hQ : (ef - 1 - E4).toNat = ndigits c4 - 1) (hef1 : -6176 < ef) (hef2 : ef ≤ 20000) :
    ((ml = false ∧ mg = false ∧ il = false ∧ ig = false) →
      1 ≤ cs ∧ cs ≤ 9 ∧
      finish mode sz (P34 * 10 ^ (ndigits c4 - 1) - c4) 1 E4 pref =
        if eMax < ef - 1 then (overflowResult mode sz, fOverflow ||| fInexact) else (.fin sz (P34 - cs) (ef - 1), 0)) ∧
    (¬ (ml = false ∧ mg = false ∧ il = false ∧ ig = false) →
      Deliv sz (P34 * 10 ^ (ndigits c4 - 1) - c4) E4 (ef - 1) (P34 - (if incr = true then 10 else cs)) ig il mg ml ∧
      ¬ (P34 * 10 ^ (ndigits c4 - 1) - c4 < 10 ^ 33 * 10 ^ (ef - 1 - E4).toNat) ∧
      1 ≤ (if incr = true then 10 else cs) ∧ (if incr = true then 10 else cs) ≤ 10 ∧ (incr = true → cs = 1) ∧
      (il = true → ig = false ∧ ml = false ∧ mg = false) ∧ (ig = true → ml = false ∧ mg = false) ∧ (ml = true → mg = false)) := by
  obtain ⟨a, ρ, h, hD, hc4, hρ, ha1, ha9, hR, hml, hmg, hil, hig, hcs1⟩ := spec_digits c4 cs incr ml mg il ig h0 hq hs
  have e34 : P34 = 10000000000000000000000000000000000 := rfl
  have hh : 0 < h := by omega
  rw [hD, hQ, hD]
  constructor
  · rintro ⟨e1, e2, e3, e4⟩
    have hρ0 : ρ = 0 := by
      by_contra hne
      rcases Nat.lt_trichotomy ρ h with hlt | heq | hgt
      · have := hil.2 ⟨by omega, hlt⟩; rw [e3] at this; exact absurd this (by decide)
      · by_cases hpar : a % 2 = 1
        · have := hml.2 ⟨heq, hpar⟩; rw [e1] at this; exact absurd this (by decide)
        · have := hmg.2 ⟨heq, by omega⟩; rw [e2] at this; exact absurd this (by decide)
      · have := hig.2 hgt; rw [e4] at this; exact absurd this (by decide)
    subst hρ0
    rw [if_pos hh] at hR
    have hinc : incr = false := by
      cases hi : incr
      · rfl
      · rw [hi, if_pos rfl] at hR; omega
    rw [hinc, if_neg (by decide)] at hR
    subst hR
    refine ⟨ha1, ha9, ?_⟩
    have hN : P34 * (2 * h) - c4 = (P34 - cs) * (2 * h) := by
      rw [hc4, Nat.sub_mul]; omega
    rw [hN]
    have hval : (((P34 - cs) * (2 * h) : Nat) : ℚ) / (1 : Nat) * (10 : ℚ) ^ E4 =
        ((P34 - cs : Nat) : ℚ) / (1 : Nat) * (10 : ℚ) ^ (ef - 1) := by
      rw [← hD, ← hQ]
      have : ef - 1 = E4 + ((ef - 1 - E4).toNat : Int) := by omega
      generalize (ef - 1 - E4).toNat = K at this ⊢
      rw [this, zpow_add₀ (by norm_num : (10 : ℚ) ≠ 0), zpow_natCast]
      push_cast
      ring
    rw [finish_congr mode sz _ 1 (P34 - cs) 1 E4 (ef - 1) pref (Nat.mul_pos (by omega) (by omega)) (by decide) (by omega)
      (by decide) hval]
    exact finish_exact34 mode sz (P34 - cs) (ef - 1) pref (by rw [e34]; omega) (by rw [e34]; omega)
      (by rw [e34]; interval_cases cs <;> decide) (by unfold eMin; omega)
  · intro hne
    have hρ0 : 0 < ρ := by
      by_contra hz
      have hz' : ρ = 0 := by omega
      apply hne
      refine ⟨?_, ?_, ?_, ?_⟩
      · cases hv : ml; rfl; have := hml.1 hv; omega
      · cases hv : mg; rfl; have := hmg.1 hv; omega
      · cases hv : il; rfl; have := hil.1 hv; omega
      · cases hv : ig; rfl; have := hig.1 hv; omega
    have hdl := deliv_pow_R sz E4 (ef - 1) a ρ h hE (by omega) (by omega) (by rw [hQ]; exact hD) ha1 ha9 hρ0 hρ
    rw [← hc4, ← hR] at hdl
    have i1 : decide (h < ρ) = ig := by rw [Bool.eq_iff_iff, decide_eq_true_eq]; exact hig.symm
    have i2 : decide (ρ < h) = il := by rw [Bool.eq_iff_iff, decide_eq_true_eq, hil]; constructor <;> intro hx <;> [exact ⟨hρ0, hx⟩; exact hx.2]
    have i3 : decide (ρ = h ∧ a % 2 = 0) = mg := by rw [Bool.eq_iff_iff, decide_eq_true_eq]; exact hmg.symm
    have i4 : decide (ρ = h ∧ a % 2 = 1) = ml := by rw [Bool.eq_iff_iff, decide_eq_true_eq]; exact hml.symm
    rw [i1, i2, i3, i4] at hdl
    refine ⟨hdl, ?_, ?_, ?_, hcs1, ?_, ?_, ?_⟩
    · rw [hc4, e34]
      interval_cases a <;> omega
    · rw [hR]; (repeat' split) <;> omega
    · rw [hR]; (repeat' split) <;> omega
    · intro hv
      have := hil.1 hv
      refine ⟨?_, ?_, ?_⟩
      · cases hv' : ig; rfl; have := hig.1 hv'; omega
      · cases hv' : ml; rfl; have := hml.1 hv'; omega
      · cases hv' : mg; rfl; have := hmg.1 hv'; omega
    · intro hv
      have := hig.1 hv
      refine ⟨?_, ?_⟩
      · cases hv' : ml; rfl; have := hml.1 hv'; omega
      · cases hv' : mg; rfl; have := hmg.1 hv'; omega
    · intro hv
      have := hml.1 hv
      cases hv' : mg; rfl; have := hmg.1 hv'; omega


end Dec.C02GenFmaZ
