/-
  SourceLevel — the PROPERTIES (/verif/properties.jsonl, C01 … C20) restated as theorems about the PUBLIC API of the source:
  `Dec.Gen.Api.run "<method>" mode flags args` is the regenerated dispatch of /repo/src/d128.rs (one call of a routine of
  `DecGen/Code.lean`, itself the machine translation of /repo/src/bid*.rs).  Every theorem here is about `Api.run` with the
  literal method name: the dispatch lemmas `run_<method>` of §0 are proved by `rfl` (the string-literal `match` of `Api.run`
  reduces), and everything else is composition of the finished `…Gen…` theorem files with the spec-level theorems.
  No new mathematics.  `bitsOf x` = the 128-bit pattern, `dOf x = decode (bitsOf x)` = the datum a value denotes.

  What is covered (each theorem carries the sentence of the property it formalises in its docstring):
    C19  encode_decimal_spec, decode_decimal_spec, …_datum, decode_encode_decimal, encode_decode_decimal
    C03  compare_quiet_*_spec (12), compare_signaling_*_spec (8), compare_exactly_one, compare_by_value,
         compare_nan_operand
    C18  total_order_spec, total_order_mag_spec, total_order_refl / _trans / _total / _antisymm, total_order_chain,
         total_order_cohort, total_order_nans
    C20  eq_spec, ne_spec, partial_cmp_spec, lt_spec, gt_spec, le_spec, ge_spec, eq_refl / eq_symm / eq_trans, eq_by_value,
         eq_nan, partial_cmp_agrees, partial_cmp_swap, lt_trans, le_trans, hash_eq_iff_eq
    C16  min_num_spec, max_num_spec, min_num_mag_spec, max_num_mag_spec, minmax_numbers, minmax_expected
    C13  predicates_spec, class_consistent, is_normal_iff, noncanonical_treated;   C12 (quiet ops)  abs_negate_spec
    C09  same_quantum_spec, same_quantum_finite, quantexp_spec, llquantexp_spec, quantum_spec, quantize_special,
         quantize_infinities, quantize_one_infinity
    C11  scaleb_spec, ldexp_spec, scalebln_spec, scaleb_in_range, scaleb_specials, frexp_spec
    C17  next_up_spec, next_down_spec, next_up_least, next_up_boundaries, next_down_next_up, next_after_spec, next_accepted
    C12  binary_nan (addition, subtraction, multiplication, division, remainder, fmod, quantize, next_after, next_toward),
         unary_nan (square_root, nearbyint, the six round_to_integral_*, next_up, next_down, logb), fma_nan
    C06  c_style_conversions (lround / llround / lrint / llrint ARE the named i64 conversions)
    C14 / C15  frame_binary (46 methods), frame_unary (20 methods), frame_scale: returns normally; result and raised bits do
         not depend on the status word on entry; the word is only OR-ed into

  [The list below is the state when THIS file was written.  It has since been overtaken: see the 123-method table at the top of
   SourceLevel4.lean (SourceLevel2 / SourceLevel3 / SourceLevel4, C10GenFmodRem, C01GenDivClosed, C01GenSqrtLong,
   C02GenFmaAssembly3, C07GenBinConv close every row except the rounding loop of bid128_add, hypothesis `LoopRestRounding`).]
  NOT DERIVABLE YET (at the time of writing) from the finished `…Gen…` theorems (missing piece in brackets):
    C01 / C02 / C10  the numeric results of addition, subtraction, multiplication, division, square_root,
         fused_multiply_add, remainder, fmod  [no complete specification of bid128_add / mul / div / sqrt / fma / rem / fmod;
         only their NaN front ends (C12GenNaN) and the helper layers C01GenArith, C02GenRound, C13GenPack]; the operator forms
         (+ - * / %, Sum, Product) are not in the dispatch
    C04 / C05 / C07  from_string / to_string / from f32, f64  [not in `Api.run`; no Gen theorems]
    C06  the 40 convert_to_* methods and hence the values of lround … llrint  [C06GenToInt is work in progress: only
         `to_int32_int_spec`]; conversions FROM integers are proved (C06GenFromInt.from_*_spec) but `from` is not a
         dispatched method
    C08  nearbyint, round_to_integral_*, modf on numbers  [C08GenRoundIntegral is work in progress (zero / negative /
         positive forms done there); NaN operands are covered here by `unary_nan`]
    C09  quantize of two finite operands with x ≠ 0 — and therefore "same_quantum(quantize(x, y), y)"
         [C09GenQuantize.quantize_front_main stops at `quantMain`]
    C11  logb, log_b on numbers  [C11GenLogb is work in progress]; frexp of zero / infinity / NaN is in
         C09GenQuantize.frexp_spec and not restated
    C12  "operations that create a NaN from non-NaN operands (0/0, Inf−Inf, …)"  [needs the numeric specifications above];
         copy and copy_sign are not public methods of the dispatch (C13GenNoncomp.copy_spec, copy_sign_spec exist)
    C13  `is_canonical` is not a dispatched method (C13GenNoncomp.is_canonical_spec exists); "every result produced by a
         computational operation is canonical" is proved here for the methods with complete specifications only
    C14 / C15  for the methods listed above only
    C17  next_after / next_toward flag sentences are given through `Dec.nextAfterD` (`next_after_spec`, `next_accepted`)
    C20  the HashSet / HashMap sentence itself is about std; what is proved is `hash_eq_iff_eq` (equal ⇔ same bytes hashed)
-/
import DecGen.Api
import DecProofs.Properties.C03GenCompare
import DecProofs.Properties.C03GenCompare2
import DecProofs.Properties.C03Order
import DecProofs.Properties.C06GenFromInt
import DecProofs.Properties.C09GenQuantize
import DecProofs.Properties.C11GenScale
import DecProofs.Properties.C11
import DecProofs.Properties.C12GenNaN
import DecProofs.Properties.C13GenNoncomp
import DecProofs.Properties.C13
import DecProofs.Properties.C16GenMinMax
import DecProofs.Properties.C16Order
import DecProofs.Properties.C17GenNext
import DecProofs.Properties.C18GenTotalOrder
import DecProofs.Properties.C18Order
import DecProofs.Properties.C19GenDpd
import DecProofs.Properties.C19RoundTrip
import DecProofs.Properties.C20GenGlue
import DecProofs.Properties.C20Order

set_option linter.unusedVariables false
set_option linter.unusedSimpArgs false

namespace Dec.SourceLevel
open Dec.Rs Dec.Gen.Code Dec.Gen.Api

/-- the 128-bit pattern of a `d128` value (`w[1]·2^64 + w[0]`); the same function as the `bitsOf` of every `…Gen…` file -/
abbrev bitsOf (x : U128) : Nat := Dec.C03GenCompare.bitsOf x
/-- the datum a `d128` value denotes (every pattern denotes one) -/
abbrev dOf (x : U128) : Datum := decode (bitsOf x)

theorem bitsOf_lt (x : U128) : bitsOf x < 2^128 := Dec.C03GenCompare.bitsOf_lt x

/-- the word with a given 128-bit pattern -/
abbrev ofBits (n : Nat) : U128 := Dec.C19GenDpd.ofBits n

theorem bitsOf_ofBits {n : Nat} (h : n < 2^128) : bitsOf (ofBits n) = n := Dec.C19GenDpd.bitsOf_ofBits_of_lt h
theorem ofBits_bitsOf (x : U128) : ofBits (bitsOf x) = x := Dec.C19GenDpd.ofBits_bitsOf x
theorem eq_of_bitsOf_eq {x y : U128} (h : bitsOf x = bitsOf y) : x = y := by
  rw [← ofBits_bitsOf x, ← ofBits_bitsOf y, h]

/-- the other two spellings of `ofBits` in the `…Gen…` files denote the same word -/
theorem ofBits13 (n : Nat) : Dec.C13GenNoncomp.ofBits n = ofBits n := by
  unfold Dec.C13GenNoncomp.ofBits ofBits Dec.C19GenDpd.ofBits
  congr 1
  apply UInt64.toNat_inj.mp
  simp only [UInt64.toNat_ofNat']; omega
theorem ofBits06 (n : Nat) : Dec.C06GenFromInt.ofBits n = ofBits n := ofBits13 n

theorem map_ok {α β : Type} (g : α → β) (v : α) : (Except.ok v : Except String α).map g = .ok (g v) := rfl

/-! ## 0. The dispatch: each public method is one call of a translated routine (`rfl` on the regenerated `Api.run`) -/

theorem run_encode_decimal (m : RoundingMode) (f : UInt32) (a0 : U128) :
    run "encode_decimal" m f [.d a0] = some ((bid_to_dpd128 a0).map fun r => ([.d r], f)) := rfl
theorem run_decode_decimal (m : RoundingMode) (f : UInt32) (a0 : U128) :
    run "decode_decimal" m f [.d a0] = some ((bid_dpd_to_bid128 a0).map fun r => ([.d r], f)) := rfl
theorem run_abs (m : RoundingMode) (f : UInt32) (a0 : U128) :
    run "abs" m f [.d a0] = some ((bid128_abs a0).map fun r => ([.d r], f)) := rfl
theorem run_class (m : RoundingMode) (f : UInt32) (a0 : U128) :
    run "class" m f [.d a0] = some ((bid128_class a0).map fun r => ([.c r], f)) := rfl
theorem run_is_finite (m : RoundingMode) (f : UInt32) (a0 : U128) :
    run "is_finite" m f [.d a0] = some ((bid128_is_finite a0).map fun r => ([.b r], f)) := rfl
theorem run_is_infinite (m : RoundingMode) (f : UInt32) (a0 : U128) :
    run "is_infinite" m f [.d a0] = some ((bid128_is_inf a0).map fun r => ([.b r], f)) := rfl
theorem run_is_nan (m : RoundingMode) (f : UInt32) (a0 : U128) :
    run "is_nan" m f [.d a0] = some ((bid128_is_nan a0).map fun r => ([.b r], f)) := rfl
theorem run_is_normal (m : RoundingMode) (f : UInt32) (a0 : U128) :
    run "is_normal" m f [.d a0] = some ((bid128_is_normal a0).map fun r => ([.b r], f)) := rfl
theorem run_is_signaling (m : RoundingMode) (f : UInt32) (a0 : U128) :
    run "is_signaling" m f [.d a0] = some ((bid128_is_signaling a0).map fun r => ([.b r], f)) := rfl
theorem run_is_sign_minus (m : RoundingMode) (f : UInt32) (a0 : U128) :
    run "is_sign_minus" m f [.d a0] = some ((bid128_is_signed a0).map fun r => ([.b r], f)) := rfl
theorem run_is_subnormal (m : RoundingMode) (f : UInt32) (a0 : U128) :
    run "is_subnormal" m f [.d a0] = some ((bid128_is_subnormal a0).map fun r => ([.b r], f)) := rfl
theorem run_is_zero (m : RoundingMode) (f : UInt32) (a0 : U128) :
    run "is_zero" m f [.d a0] = some ((bid128_is_zero a0).map fun r => ([.b r], f)) := rfl
theorem run_negate (m : RoundingMode) (f : UInt32) (a0 : U128) :
    run "negate" m f [.d a0] = some ((bid128_negate a0).map fun r => ([.d r], f)) := rfl
theorem run_same_quantum (m : RoundingMode) (f : UInt32) (a0 : U128) (a1 : U128) :
    run "same_quantum" m f [.d a0, .d a1] = some ((bid128_same_quantum a0 a1).map fun r => ([.b r], f)) := rfl
theorem run_total_order (m : RoundingMode) (f : UInt32) (a0 : U128) (a1 : U128) :
    run "total_order" m f [.d a0, .d a1] = some ((bid128_total_order a0 a1).map fun r => ([.b r], f)) := rfl
theorem run_total_order_mag (m : RoundingMode) (f : UInt32) (a0 : U128) (a1 : U128) :
    run "total_order_mag" m f [.d a0, .d a1] = some ((bid128_total_order_mag a0 a1).map fun r => ([.b r], f)) := rfl
theorem run_fdim (m : RoundingMode) (f : UInt32) (a0 : U128) (a1 : U128) :
    run "fdim" m f [.d a0, .d a1] = some ((bid128_fdim a0 a1 m f).map fun (r, g) => ([.d r], g)) := rfl
theorem run_fused_multiply_add (m : RoundingMode) (f : UInt32) (a0 : U128) (a1 : U128) (a2 : U128) :
    run "fused_multiply_add" m f [.d a0, .d a1, .d a2] = some ((bid128_fma a0 a1 a2 m f).map fun (r, g) => ([.d r], g)) := rfl
theorem run_fmod (m : RoundingMode) (f : UInt32) (a0 : U128) (a1 : U128) :
    run "fmod" m f [.d a0, .d a1] = some ((bid128_fmod a0 a1 f).map fun (r, g) => ([.d r], g)) := rfl
theorem run_frexp (m : RoundingMode) (f : UInt32) (a0 : U128) :
    run "frexp" m f [.d a0] = some ((bid128_frexp a0).map fun r => ([.d r.1, .i (r.2).toInt], f)) := rfl
theorem run_ldexp (m : RoundingMode) (f : UInt32) (a0 : U128) (a1 : Int) :
    run "ldexp" m f [.d a0, .i a1] = some ((bid128_ldexp a0 (Int32.ofInt a1) m f).map fun (r, g) => ([.d r], g)) := rfl
theorem run_llquantexp (m : RoundingMode) (f : UInt32) (a0 : U128) :
    run "llquantexp" m f [.d a0] = some ((bid128_llquantexp a0 f).map fun (r, g) => ([.i (r).toInt], g)) := rfl
theorem run_logb (m : RoundingMode) (f : UInt32) (a0 : U128) :
    run "logb" m f [.d a0] = some ((bid128_logb a0 f).map fun (r, g) => ([.d r], g)) := rfl
theorem run_lrint (m : RoundingMode) (f : UInt32) (a0 : U128) :
    run "lrint" m f [.d a0] = some ((bid128_lrint a0 m f).map fun (r, g) => ([.i (r).toInt], g)) := rfl
theorem run_llrint (m : RoundingMode) (f : UInt32) (a0 : U128) :
    run "llrint" m f [.d a0] = some ((bid128_llrint a0 m f).map fun (r, g) => ([.i (r).toInt], g)) := rfl
theorem run_lround (m : RoundingMode) (f : UInt32) (a0 : U128) :
    run "lround" m f [.d a0] = some ((bid128_lround a0 f).map fun (r, g) => ([.i (r).toInt], g)) := rfl
theorem run_llround (m : RoundingMode) (f : UInt32) (a0 : U128) :
    run "llround" m f [.d a0] = some ((bid128_llround a0 f).map fun (r, g) => ([.i (r).toInt], g)) := rfl
theorem run_max_num (m : RoundingMode) (f : UInt32) (a0 : U128) (a1 : U128) :
    run "max_num" m f [.d a0, .d a1] = some ((bid128_maxnum a0 a1 f).map fun (r, g) => ([.d r], g)) := rfl
theorem run_max_num_mag (m : RoundingMode) (f : UInt32) (a0 : U128) (a1 : U128) :
    run "max_num_mag" m f [.d a0, .d a1] = some ((bid128_maxnum_mag a0 a1 f).map fun (r, g) => ([.d r], g)) := rfl
theorem run_min_num (m : RoundingMode) (f : UInt32) (a0 : U128) (a1 : U128) :
    run "min_num" m f [.d a0, .d a1] = some ((bid128_minnum a0 a1 f).map fun (r, g) => ([.d r], g)) := rfl
theorem run_min_num_mag (m : RoundingMode) (f : UInt32) (a0 : U128) (a1 : U128) :
    run "min_num_mag" m f [.d a0, .d a1] = some ((bid128_minnum_mag a0 a1 f).map fun (r, g) => ([.d r], g)) := rfl
theorem run_nearbyint (m : RoundingMode) (f : UInt32) (a0 : U128) :
    run "nearbyint" m f [.d a0] = some ((bid128_nearbyint a0 m f).map fun (r, g) => ([.d r], g)) := rfl
theorem run_next_after (m : RoundingMode) (f : UInt32) (a0 : U128) (a1 : U128) :
    run "next_after" m f [.d a0, .d a1] = some ((bid128_nextafter a0 a1 f).map fun (r, g) => ([.d r], g)) := rfl
theorem run_next_down (m : RoundingMode) (f : UInt32) (a0 : U128) :
    run "next_down" m f [.d a0] = some ((bid128_nextdown a0 f).map fun (r, g) => ([.d r], g)) := rfl
theorem run_next_toward (m : RoundingMode) (f : UInt32) (a0 : U128) (a1 : U128) :
    run "next_toward" m f [.d a0, .d a1] = some ((bid128_nexttoward a0 a1 f).map fun (r, g) => ([.d r], g)) := rfl
theorem run_next_up (m : RoundingMode) (f : UInt32) (a0 : U128) :
    run "next_up" m f [.d a0] = some ((bid128_nextup a0 f).map fun (r, g) => ([.d r], g)) := rfl
theorem run_quantexp (m : RoundingMode) (f : UInt32) (a0 : U128) :
    run "quantexp" m f [.d a0] = some ((bid128_quantexp a0 f).map fun (r, g) => ([.i (r).toInt], g)) := rfl
theorem run_quantize (m : RoundingMode) (f : UInt32) (a0 : U128) (a1 : U128) :
    run "quantize" m f [.d a0, .d a1] = some ((bid128_quantize a0 a1 m f).map fun (r, g) => ([.d r], g)) := rfl
theorem run_quantum (m : RoundingMode) (f : UInt32) (a0 : U128) :
    run "quantum" m f [.d a0] = some ((bid128_quantum a0).map fun r => ([.d r], f)) := rfl
theorem run_scaleb (m : RoundingMode) (f : UInt32) (a0 : U128) (a1 : Int) :
    run "scaleb" m f [.d a0, .i a1] = some ((bid128_scalbn a0 (Int32.ofInt a1) m f).map fun (r, g) => ([.d r], g)) := rfl
theorem run_scalebln (m : RoundingMode) (f : UInt32) (a0 : U128) (a1 : Int) :
    run "scalebln" m f [.d a0, .i a1] = some ((bid128_scalbln a0 (Int64.ofInt a1) m f).map fun (r, g) => ([.d r], g)) := rfl
theorem run_square_root (m : RoundingMode) (f : UInt32) (a0 : U128) :
    run "square_root" m f [.d a0] = some ((bid128_sqrt a0 m f).map fun (r, g) => ([.d r], g)) := rfl
theorem run_addition (m : RoundingMode) (f : UInt32) (a0 : U128) (a1 : U128) :
    run "addition" m f [.d a0, .d a1] = some ((bid128_add a0 a1 m f).map fun (r, g) => ([.d r], g)) := rfl
theorem run_division (m : RoundingMode) (f : UInt32) (a0 : U128) (a1 : U128) :
    run "division" m f [.d a0, .d a1] = some ((bid128_div a0 a1 m f).map fun (r, g) => ([.d r], g)) := rfl
theorem run_multiplication (m : RoundingMode) (f : UInt32) (a0 : U128) (a1 : U128) :
    run "multiplication" m f [.d a0, .d a1] = some ((bid128_mul a0 a1 m f).map fun (r, g) => ([.d r], g)) := rfl
theorem run_remainder (m : RoundingMode) (f : UInt32) (a0 : U128) (a1 : U128) :
    run "remainder" m f [.d a0, .d a1] = some ((bid128_rem a0 a1 f).map fun (r, g) => ([.d r], g)) := rfl
theorem run_subtraction (m : RoundingMode) (f : UInt32) (a0 : U128) (a1 : U128) :
    run "subtraction" m f [.d a0, .d a1] = some ((bid128_sub a0 a1 m f).map fun (r, g) => ([.d r], g)) := rfl
theorem run_convert_to_i64_ties_to_away (m : RoundingMode) (f : UInt32) (a0 : U128) :
    run "convert_to_i64_ties_to_away" m f [.d a0] = some ((bid128_to_int64_rninta a0 f).map fun (r, g) => ([.i (r).toInt], g)) := rfl
theorem run_convert_to_i64_exact_ties_to_even (m : RoundingMode) (f : UInt32) (a0 : U128) :
    run "convert_to_i64_exact_ties_to_even" m f [.d a0] = some ((bid128_to_int64_xrnint a0 f).map fun (r, g) => ([.i (r).toInt], g)) := rfl
theorem run_convert_to_i64_exact_ties_to_away (m : RoundingMode) (f : UInt32) (a0 : U128) :
    run "convert_to_i64_exact_ties_to_away" m f [.d a0] = some ((bid128_to_int64_xrninta a0 f).map fun (r, g) => ([.i (r).toInt], g)) := rfl
theorem run_convert_to_i64_exact_toward_negative (m : RoundingMode) (f : UInt32) (a0 : U128) :
    run "convert_to_i64_exact_toward_negative" m f [.d a0] = some ((bid128_to_int64_xfloor a0 f).map fun (r, g) => ([.i (r).toInt], g)) := rfl
theorem run_convert_to_i64_exact_toward_positive (m : RoundingMode) (f : UInt32) (a0 : U128) :
    run "convert_to_i64_exact_toward_positive" m f [.d a0] = some ((bid128_to_int64_xceil a0 f).map fun (r, g) => ([.i (r).toInt], g)) := rfl
theorem run_convert_to_i64_exact_toward_zero (m : RoundingMode) (f : UInt32) (a0 : U128) :
    run "convert_to_i64_exact_toward_zero" m f [.d a0] = some ((bid128_to_int64_xint a0 f).map fun (r, g) => ([.i (r).toInt], g)) := rfl
theorem run_round_to_integral_exact (m : RoundingMode) (f : UInt32) (a0 : U128) :
    run "round_to_integral_exact" m f [.d a0] = some ((bid128_round_integral_exact a0 m f).map fun (r, g) => ([.d r], g)) := rfl
theorem run_round_to_integral_ties_to_away (m : RoundingMode) (f : UInt32) (a0 : U128) :
    run "round_to_integral_ties_to_away" m f [.d a0] = some ((bid128_round_integral_nearest_away a0 f).map fun (r, g) => ([.d r], g)) := rfl
theorem run_round_to_integral_ties_to_even (m : RoundingMode) (f : UInt32) (a0 : U128) :
    run "round_to_integral_ties_to_even" m f [.d a0] = some ((bid128_round_integral_nearest_even a0 f).map fun (r, g) => ([.d r], g)) := rfl
theorem run_round_to_integral_ties_toward_negative (m : RoundingMode) (f : UInt32) (a0 : U128) :
    run "round_to_integral_ties_toward_negative" m f [.d a0] = some ((bid128_round_integral_negative a0 f).map fun (r, g) => ([.d r], g)) := rfl
theorem run_round_to_integral_ties_toward_positive (m : RoundingMode) (f : UInt32) (a0 : U128) :
    run "round_to_integral_ties_toward_positive" m f [.d a0] = some ((bid128_round_integral_positive a0 f).map fun (r, g) => ([.d r], g)) := rfl
theorem run_round_to_integral_ties_toward_zero (m : RoundingMode) (f : UInt32) (a0 : U128) :
    run "round_to_integral_ties_toward_zero" m f [.d a0] = some ((bid128_round_integral_zero a0 f).map fun (r, g) => ([.d r], g)) := rfl
theorem run_eq (m : RoundingMode) (f : UInt32) (a0 : U128) (a1 : U128) :
    run "eq" m f [.d a0, .d a1] = some ((d128_eq a0 a1).map fun r => ([.b r], f)) := rfl
theorem run_lt (m : RoundingMode) (f : UInt32) (a0 : U128) (a1 : U128) :
    run "lt" m f [.d a0, .d a1] = some ((d128_lt a0 a1).map fun r => ([.b r], f)) := rfl
theorem run_le (m : RoundingMode) (f : UInt32) (a0 : U128) (a1 : U128) :
    run "le" m f [.d a0, .d a1] = some ((d128_le a0 a1).map fun r => ([.b r], f)) := rfl
theorem run_gt (m : RoundingMode) (f : UInt32) (a0 : U128) (a1 : U128) :
    run "gt" m f [.d a0, .d a1] = some ((d128_gt a0 a1).map fun r => ([.b r], f)) := rfl
theorem run_ge (m : RoundingMode) (f : UInt32) (a0 : U128) (a1 : U128) :
    run "ge" m f [.d a0, .d a1] = some ((d128_ge a0 a1).map fun r => ([.b r], f)) := rfl
theorem run_partial_cmp (m : RoundingMode) (f : UInt32) (a0 : U128) (a1 : U128) :
    run "partial_cmp" m f [.d a0, .d a1] = some ((d128_partial_cmp a0 a1).map fun r => ([.o r], f)) := rfl
theorem run_ne (m : RoundingMode) (f : UInt32) (a0 : U128) (a1 : U128) :
    run "ne" m f [.d a0, .d a1] = some ((d128_eq a0 a1).map fun r => ([.b (!r)], f)) := rfl
theorem run_hash (m : RoundingMode) (f : UInt32) (a0 : U128) :
    run "hash" m f [.d a0] = some ((d128_hash a0 []).map fun r => ([.h r], f)) := rfl
theorem run_compare_quiet_equal (m : RoundingMode) (f : UInt32) (a0 : U128) (a1 : U128) :
    run "compare_quiet_equal" m f [.d a0, .d a1] = some ((bid128_quiet_equal a0 a1 f).map fun (r, g) => ([.b r], g)) := rfl
theorem run_compare_quiet_greater (m : RoundingMode) (f : UInt32) (a0 : U128) (a1 : U128) :
    run "compare_quiet_greater" m f [.d a0, .d a1] = some ((bid128_quiet_greater a0 a1 f).map fun (r, g) => ([.b r], g)) := rfl
theorem run_compare_quiet_unordered (m : RoundingMode) (f : UInt32) (a0 : U128) (a1 : U128) :
    run "compare_quiet_unordered" m f [.d a0, .d a1] = some ((bid128_quiet_unordered a0 a1 f).map fun (r, g) => ([.b r], g)) := rfl
theorem run_compare_quiet_ordered (m : RoundingMode) (f : UInt32) (a0 : U128) (a1 : U128) :
    run "compare_quiet_ordered" m f [.d a0, .d a1] = some ((bid128_quiet_ordered a0 a1 f).map fun (r, g) => ([.b r], g)) := rfl
theorem run_compare_quiet_greater_equal (m : RoundingMode) (f : UInt32) (a0 : U128) (a1 : U128) :
    run "compare_quiet_greater_equal" m f [.d a0, .d a1] = some ((bid128_quiet_greater_equal a0 a1 f).map fun (r, g) => ([.b r], g)) := rfl
theorem run_compare_quiet_greater_unordered (m : RoundingMode) (f : UInt32) (a0 : U128) (a1 : U128) :
    run "compare_quiet_greater_unordered" m f [.d a0, .d a1] = some ((bid128_quiet_greater_unordered a0 a1 f).map fun (r, g) => ([.b r], g)) := rfl
theorem run_compare_quiet_less (m : RoundingMode) (f : UInt32) (a0 : U128) (a1 : U128) :
    run "compare_quiet_less" m f [.d a0, .d a1] = some ((bid128_quiet_less a0 a1 f).map fun (r, g) => ([.b r], g)) := rfl
theorem run_compare_quiet_less_equal (m : RoundingMode) (f : UInt32) (a0 : U128) (a1 : U128) :
    run "compare_quiet_less_equal" m f [.d a0, .d a1] = some ((bid128_quiet_less_equal a0 a1 f).map fun (r, g) => ([.b r], g)) := rfl
theorem run_compare_quiet_less_unordered (m : RoundingMode) (f : UInt32) (a0 : U128) (a1 : U128) :
    run "compare_quiet_less_unordered" m f [.d a0, .d a1] = some ((bid128_quiet_less_unordered a0 a1 f).map fun (r, g) => ([.b r], g)) := rfl
theorem run_compare_quiet_not_equal (m : RoundingMode) (f : UInt32) (a0 : U128) (a1 : U128) :
    run "compare_quiet_not_equal" m f [.d a0, .d a1] = some ((bid128_quiet_not_equal a0 a1 f).map fun (r, g) => ([.b r], g)) := rfl
theorem run_compare_quiet_not_greater (m : RoundingMode) (f : UInt32) (a0 : U128) (a1 : U128) :
    run "compare_quiet_not_greater" m f [.d a0, .d a1] = some ((bid128_quiet_not_greater a0 a1 f).map fun (r, g) => ([.b r], g)) := rfl
theorem run_compare_quiet_not_less (m : RoundingMode) (f : UInt32) (a0 : U128) (a1 : U128) :
    run "compare_quiet_not_less" m f [.d a0, .d a1] = some ((bid128_quiet_not_less a0 a1 f).map fun (r, g) => ([.b r], g)) := rfl
theorem run_compare_signaling_greater (m : RoundingMode) (f : UInt32) (a0 : U128) (a1 : U128) :
    run "compare_signaling_greater" m f [.d a0, .d a1] = some ((bid128_signaling_greater a0 a1 f).map fun (r, g) => ([.b r], g)) := rfl
theorem run_compare_signaling_greater_equal (m : RoundingMode) (f : UInt32) (a0 : U128) (a1 : U128) :
    run "compare_signaling_greater_equal" m f [.d a0, .d a1] = some ((bid128_signaling_greater_equal a0 a1 f).map fun (r, g) => ([.b r], g)) := rfl
theorem run_compare_signaling_greater_unordered (m : RoundingMode) (f : UInt32) (a0 : U128) (a1 : U128) :
    run "compare_signaling_greater_unordered" m f [.d a0, .d a1] = some ((bid128_signaling_greater_unordered a0 a1 f).map fun (r, g) => ([.b r], g)) := rfl
theorem run_compare_signaling_less (m : RoundingMode) (f : UInt32) (a0 : U128) (a1 : U128) :
    run "compare_signaling_less" m f [.d a0, .d a1] = some ((bid128_signaling_less a0 a1 f).map fun (r, g) => ([.b r], g)) := rfl
theorem run_compare_signaling_less_equal (m : RoundingMode) (f : UInt32) (a0 : U128) (a1 : U128) :
    run "compare_signaling_less_equal" m f [.d a0, .d a1] = some ((bid128_signaling_less_equal a0 a1 f).map fun (r, g) => ([.b r], g)) := rfl
theorem run_compare_signaling_less_unordered (m : RoundingMode) (f : UInt32) (a0 : U128) (a1 : U128) :
    run "compare_signaling_less_unordered" m f [.d a0, .d a1] = some ((bid128_signaling_less_unordered a0 a1 f).map fun (r, g) => ([.b r], g)) := rfl
theorem run_compare_signaling_not_greater (m : RoundingMode) (f : UInt32) (a0 : U128) (a1 : U128) :
    run "compare_signaling_not_greater" m f [.d a0, .d a1] = some ((bid128_signaling_not_greater a0 a1 f).map fun (r, g) => ([.b r], g)) := rfl
theorem run_compare_signaling_not_less (m : RoundingMode) (f : UInt32) (a0 : U128) (a1 : U128) :
    run "compare_signaling_not_less" m f [.d a0, .d a1] = some ((bid128_signaling_not_less a0 a1 f).map fun (r, g) => ([.b r], g)) := rfl

/-! ## C19 — `encode_decimal`, `decode_decimal` -/

open Dec.C19RoundTrip in
/-- C19: "encode_decimal maps every decimal128 datum from the BID encoding to the DPD encoding … exactly as laid out in
IEEE 754-2008 section 3.5.2 … neither conversion raises a flag or panics for any of the 2^128 inputs" -/
theorem encode_decimal_spec (m : RoundingMode) (f : UInt32) (x : U128) :
    run "encode_decimal" m f [.d x] = some (.ok ([.d (ofBits (toDpd (bitsOf x)))], f)) := by
  rw [run_encode_decimal, Dec.C19GenDpd.bid_to_dpd128_eq]; rfl

/-- C19: "decode_decimal is the inverse mapping, accepting all 1024 declet patterns including the 24 redundant ones" -/
theorem decode_decimal_spec (m : RoundingMode) (f : UInt32) (w : U128) :
    run "decode_decimal" m f [.d w] = some (.ok ([.d (ofBits (fromDpd (bitsOf w)))], f)) := by
  rw [run_decode_decimal, Dec.C19GenDpd.bid_dpd_to_bid128_eq]; rfl

open Dec.C19RoundTrip in
/-- the same in `bitsOf r = …` form, with what the results denote: the DPD word denotes the datum of `x`
(same sign, digits, exponent, infinity or NaN kind and payload) and is a canonical DPD word -/
theorem encode_decimal_datum (m : RoundingMode) (f : UInt32) (x : U128) :
    ∃ w, run "encode_decimal" m f [.d x] = some (.ok ([.d w], f)) ∧ bitsOf w = toDpd (bitsOf x) ∧
      dpdDatum (bitsOf w) = dOf x ∧ DpdCanonical (bitsOf w) := by
  have e : bitsOf (ofBits (toDpd (bitsOf x))) = toDpd (bitsOf x) := bitsOf_ofBits (toDpd_lt _)
  exact ⟨_, encode_decimal_spec m f x, e, by rw [e]; exact dpdDatum_toDpd _, by rw [e]; exact toDpd_canonical _⟩

open Dec.C19RoundTrip in
theorem decode_decimal_datum (m : RoundingMode) (f : UInt32) (w : U128) :
    ∃ x, run "decode_decimal" m f [.d w] = some (.ok ([.d x], f)) ∧ bitsOf x = fromDpd (bitsOf w) ∧
      dOf x = dpdDatum (bitsOf w) ∧ isCanonical (bitsOf x) = true := by
  have e : bitsOf (ofBits (fromDpd (bitsOf w))) = fromDpd (bitsOf w) := bitsOf_ofBits (Dec.C19GenDpd.fromDpd_lt _)
  exact ⟨_, decode_decimal_spec m f w, e, by show decode (bitsOf _) = _; rw [e]; exact decode_fromDpd _,
    by rw [e]; exact fromDpd_canonical _⟩

open Dec.C19RoundTrip in
/-- C19: "decode(encode(x)) equals x for every canonical x" — and for every other pattern it is the canonical
encoding of the same datum -/
theorem decode_encode_decimal (m m' : RoundingMode) (f f' : UInt32) (x : U128) :
    ∃ w, run "encode_decimal" m f [.d x] = some (.ok ([.d w], f)) ∧
      run "decode_decimal" m' f' [.d w] = some (.ok ([.d (ofBits (canon (bitsOf x)))], f')) ∧
      (isCanonical (bitsOf x) = true → run "decode_decimal" m' f' [.d w] = some (.ok ([.d x], f'))) := by
  refine ⟨_, encode_decimal_spec m f x, ?_, ?_⟩
  · rw [decode_decimal_spec, bitsOf_ofBits (toDpd_lt _), fromDpd_toDpd]
  · intro h
    rw [decode_decimal_spec, bitsOf_ofBits (toDpd_lt _), fromDpd_toDpd, ((isCanonical_iff _).1 h).2, ofBits_bitsOf]

open Dec.C19RoundTrip in
/-- C19: "encode(decode(d)) equals d for every canonical DPD word" — and for every other word it is the canonical DPD
word of the same datum -/
theorem encode_decode_decimal (m m' : RoundingMode) (f f' : UInt32) (w : U128) :
    ∃ x, run "decode_decimal" m f [.d w] = some (.ok ([.d x], f)) ∧
      run "encode_decimal" m' f' [.d x] = some (.ok ([.d (ofBits (toDpd (fromDpd (bitsOf w))))], f')) ∧
      (DpdCanonical (bitsOf w) → run "encode_decimal" m' f' [.d x] = some (.ok ([.d w], f'))) := by
  refine ⟨_, decode_decimal_spec m f w, ?_, ?_⟩
  · rw [encode_decimal_spec, bitsOf_ofBits (Dec.C19GenDpd.fromDpd_lt _)]
  · intro h
    rw [encode_decimal_spec, bitsOf_ofBits (Dec.C19GenDpd.fromDpd_lt _), toDpd_fromDpd h, ofBits_bitsOf]

example : run "encode_decimal" .NearestEven 7 [.d ⟨0x400, 0xB040000000000000⟩]
    = some (.ok ([.d ⟨0x424, 0xA208000000000000⟩], 7)) :=
  (encode_decimal_spec _ _ _).trans (by decide +kernel)


/-! ## C03 — the twenty comparison predicates

`predTable name r` (DecModel/Compare.lean) is the truth table of the predicate `name` on the four-way relation
`r = cmpD a b` of the decoded operands (`some .lt/.eq/.gt`, `none` = unordered). -/

/-- C03: `compare_quiet_equal` "returns the truth value determined by the exact mathematical order of the two values …
Quiet predicates raise invalid only for a signaling NaN … no other flag is ever raised" -/
theorem compare_quiet_equal_spec (m : RoundingMode) (f : UInt32) (x y : U128) :
    ∃ b, run "compare_quiet_equal" m f [.d x, .d y]
        = some (.ok ([.b b], f ||| UInt32.ofNat (quietCmpFlags (dOf x) (dOf y)))) ∧
      predTable "equal" (cmpD (dOf x) (dOf y)) = some b := by
  obtain ⟨b, h1, h2⟩ := Dec.C03GenCompare.quiet_equal_table x y f
  exact ⟨b, by rw [run_compare_quiet_equal, h1]; rfl, h2⟩

/-- C03: `compare_quiet_greater` "returns the truth value determined by the exact mathematical order of the two values …
Quiet predicates raise invalid only for a signaling NaN … no other flag is ever raised" -/
theorem compare_quiet_greater_spec (m : RoundingMode) (f : UInt32) (x y : U128) :
    ∃ b, run "compare_quiet_greater" m f [.d x, .d y]
        = some (.ok ([.b b], f ||| UInt32.ofNat (quietCmpFlags (dOf x) (dOf y)))) ∧
      predTable "greater" (cmpD (dOf x) (dOf y)) = some b := by
  obtain ⟨b, h1, h2⟩ := Dec.C03GenCompare.quiet_greater_table x y f
  exact ⟨b, by rw [run_compare_quiet_greater, h1]; rfl, h2⟩

/-- C03: `compare_quiet_unordered` "returns the truth value determined by the exact mathematical order of the two values …
Quiet predicates raise invalid only for a signaling NaN … no other flag is ever raised" -/
theorem compare_quiet_unordered_spec (m : RoundingMode) (f : UInt32) (x y : U128) :
    ∃ b, run "compare_quiet_unordered" m f [.d x, .d y]
        = some (.ok ([.b b], f ||| UInt32.ofNat (quietCmpFlags (dOf x) (dOf y)))) ∧
      predTable "unordered" (cmpD (dOf x) (dOf y)) = some b := by
  obtain ⟨b, h1, h2⟩ := Dec.C03GenCompare.quiet_unordered_table x y f
  exact ⟨b, by rw [run_compare_quiet_unordered, h1]; rfl, h2⟩

/-- C03: `compare_quiet_ordered` "returns the truth value determined by the exact mathematical order of the two values …
Quiet predicates raise invalid only for a signaling NaN … no other flag is ever raised" -/
theorem compare_quiet_ordered_spec (m : RoundingMode) (f : UInt32) (x y : U128) :
    ∃ b, run "compare_quiet_ordered" m f [.d x, .d y]
        = some (.ok ([.b b], f ||| UInt32.ofNat (quietCmpFlags (dOf x) (dOf y)))) ∧
      predTable "ordered" (cmpD (dOf x) (dOf y)) = some b := by
  obtain ⟨b, h1, h2⟩ := Dec.C03GenCompare.quiet_ordered_table x y f
  exact ⟨b, by rw [run_compare_quiet_ordered, h1]; rfl, h2⟩

/-- C03: `compare_quiet_greater_equal` "returns the truth value determined by the exact mathematical order of the two values …
Quiet predicates raise invalid only for a signaling NaN … no other flag is ever raised" -/
theorem compare_quiet_greater_equal_spec (m : RoundingMode) (f : UInt32) (x y : U128) :
    ∃ b, run "compare_quiet_greater_equal" m f [.d x, .d y]
        = some (.ok ([.b b], f ||| UInt32.ofNat (quietCmpFlags (dOf x) (dOf y)))) ∧
      predTable "greater_equal" (cmpD (dOf x) (dOf y)) = some b := by
  obtain ⟨b, h1, h2⟩ := Dec.C03GenCompare2.quiet_greater_equal_table x y f
  exact ⟨b, by rw [run_compare_quiet_greater_equal, h1]; rfl, h2⟩

/-- C03: `compare_quiet_greater_unordered` "returns the truth value determined by the exact mathematical order of the two values …
Quiet predicates raise invalid only for a signaling NaN … no other flag is ever raised" -/
theorem compare_quiet_greater_unordered_spec (m : RoundingMode) (f : UInt32) (x y : U128) :
    ∃ b, run "compare_quiet_greater_unordered" m f [.d x, .d y]
        = some (.ok ([.b b], f ||| UInt32.ofNat (quietCmpFlags (dOf x) (dOf y)))) ∧
      predTable "greater_unordered" (cmpD (dOf x) (dOf y)) = some b := by
  obtain ⟨b, h1, h2⟩ := Dec.C03GenCompare2.quiet_greater_unordered_table x y f
  exact ⟨b, by rw [run_compare_quiet_greater_unordered, h1]; rfl, h2⟩

/-- C03: `compare_quiet_less` "returns the truth value determined by the exact mathematical order of the two values …
Quiet predicates raise invalid only for a signaling NaN … no other flag is ever raised" -/
theorem compare_quiet_less_spec (m : RoundingMode) (f : UInt32) (x y : U128) :
    ∃ b, run "compare_quiet_less" m f [.d x, .d y]
        = some (.ok ([.b b], f ||| UInt32.ofNat (quietCmpFlags (dOf x) (dOf y)))) ∧
      predTable "less" (cmpD (dOf x) (dOf y)) = some b := by
  obtain ⟨b, h1, h2⟩ := Dec.C03GenCompare2.quiet_less_table x y f
  exact ⟨b, by rw [run_compare_quiet_less, h1]; rfl, h2⟩

/-- C03: `compare_quiet_less_equal` "returns the truth value determined by the exact mathematical order of the two values …
Quiet predicates raise invalid only for a signaling NaN … no other flag is ever raised" -/
theorem compare_quiet_less_equal_spec (m : RoundingMode) (f : UInt32) (x y : U128) :
    ∃ b, run "compare_quiet_less_equal" m f [.d x, .d y]
        = some (.ok ([.b b], f ||| UInt32.ofNat (quietCmpFlags (dOf x) (dOf y)))) ∧
      predTable "less_equal" (cmpD (dOf x) (dOf y)) = some b := by
  obtain ⟨b, h1, h2⟩ := Dec.C03GenCompare2.quiet_less_equal_table x y f
  exact ⟨b, by rw [run_compare_quiet_less_equal, h1]; rfl, h2⟩

/-- C03: `compare_quiet_less_unordered` "returns the truth value determined by the exact mathematical order of the two values …
Quiet predicates raise invalid only for a signaling NaN … no other flag is ever raised" -/
theorem compare_quiet_less_unordered_spec (m : RoundingMode) (f : UInt32) (x y : U128) :
    ∃ b, run "compare_quiet_less_unordered" m f [.d x, .d y]
        = some (.ok ([.b b], f ||| UInt32.ofNat (quietCmpFlags (dOf x) (dOf y)))) ∧
      predTable "less_unordered" (cmpD (dOf x) (dOf y)) = some b := by
  obtain ⟨b, h1, h2⟩ := Dec.C03GenCompare2.quiet_less_unordered_table x y f
  exact ⟨b, by rw [run_compare_quiet_less_unordered, h1]; rfl, h2⟩

/-- C03: `compare_quiet_not_equal` "returns the truth value determined by the exact mathematical order of the two values …
Quiet predicates raise invalid only for a signaling NaN … no other flag is ever raised" -/
theorem compare_quiet_not_equal_spec (m : RoundingMode) (f : UInt32) (x y : U128) :
    ∃ b, run "compare_quiet_not_equal" m f [.d x, .d y]
        = some (.ok ([.b b], f ||| UInt32.ofNat (quietCmpFlags (dOf x) (dOf y)))) ∧
      predTable "not_equal" (cmpD (dOf x) (dOf y)) = some b := by
  obtain ⟨b, h1, h2⟩ := Dec.C03GenCompare.quiet_not_equal_table x y f
  exact ⟨b, by rw [run_compare_quiet_not_equal, h1]; rfl, h2⟩

/-- C03: `compare_quiet_not_greater` "returns the truth value determined by the exact mathematical order of the two values …
Quiet predicates raise invalid only for a signaling NaN … no other flag is ever raised" -/
theorem compare_quiet_not_greater_spec (m : RoundingMode) (f : UInt32) (x y : U128) :
    ∃ b, run "compare_quiet_not_greater" m f [.d x, .d y]
        = some (.ok ([.b b], f ||| UInt32.ofNat (quietCmpFlags (dOf x) (dOf y)))) ∧
      predTable "not_greater" (cmpD (dOf x) (dOf y)) = some b := by
  obtain ⟨b, h1, h2⟩ := Dec.C03GenCompare2.quiet_not_greater_table x y f
  exact ⟨b, by rw [run_compare_quiet_not_greater, h1]; rfl, h2⟩

/-- C03: `compare_quiet_not_less` "returns the truth value determined by the exact mathematical order of the two values …
Quiet predicates raise invalid only for a signaling NaN … no other flag is ever raised" -/
theorem compare_quiet_not_less_spec (m : RoundingMode) (f : UInt32) (x y : U128) :
    ∃ b, run "compare_quiet_not_less" m f [.d x, .d y]
        = some (.ok ([.b b], f ||| UInt32.ofNat (quietCmpFlags (dOf x) (dOf y)))) ∧
      predTable "not_less" (cmpD (dOf x) (dOf y)) = some b := by
  obtain ⟨b, h1, h2⟩ := Dec.C03GenCompare2.quiet_not_less_table x y f
  exact ⟨b, by rw [run_compare_quiet_not_less, h1]; rfl, h2⟩

/-- C03: `compare_signaling_greater`: the same truth value; "signaling predicates raise invalid for any NaN" -/
theorem compare_signaling_greater_spec (m : RoundingMode) (f : UInt32) (x y : U128) :
    ∃ b, run "compare_signaling_greater" m f [.d x, .d y]
        = some (.ok ([.b b], f ||| UInt32.ofNat (signalingCmpFlags (dOf x) (dOf y)))) ∧
      predTable "greater" (cmpD (dOf x) (dOf y)) = some b := by
  obtain ⟨b, h1, h2⟩ := Dec.C03GenCompare2.signaling_greater_table x y f
  exact ⟨b, by rw [run_compare_signaling_greater, h1]; rfl, h2⟩

/-- C03: `compare_signaling_greater_equal`: the same truth value; "signaling predicates raise invalid for any NaN" -/
theorem compare_signaling_greater_equal_spec (m : RoundingMode) (f : UInt32) (x y : U128) :
    ∃ b, run "compare_signaling_greater_equal" m f [.d x, .d y]
        = some (.ok ([.b b], f ||| UInt32.ofNat (signalingCmpFlags (dOf x) (dOf y)))) ∧
      predTable "greater_equal" (cmpD (dOf x) (dOf y)) = some b := by
  obtain ⟨b, h1, h2⟩ := Dec.C03GenCompare2.signaling_greater_equal_table x y f
  exact ⟨b, by rw [run_compare_signaling_greater_equal, h1]; rfl, h2⟩

/-- C03: `compare_signaling_greater_unordered`: the same truth value; "signaling predicates raise invalid for any NaN" -/
theorem compare_signaling_greater_unordered_spec (m : RoundingMode) (f : UInt32) (x y : U128) :
    ∃ b, run "compare_signaling_greater_unordered" m f [.d x, .d y]
        = some (.ok ([.b b], f ||| UInt32.ofNat (signalingCmpFlags (dOf x) (dOf y)))) ∧
      predTable "greater_unordered" (cmpD (dOf x) (dOf y)) = some b := by
  obtain ⟨b, h1, h2⟩ := Dec.C03GenCompare2.signaling_greater_unordered_table x y f
  exact ⟨b, by rw [run_compare_signaling_greater_unordered, h1]; rfl, h2⟩

/-- C03: `compare_signaling_less`: the same truth value; "signaling predicates raise invalid for any NaN" -/
theorem compare_signaling_less_spec (m : RoundingMode) (f : UInt32) (x y : U128) :
    ∃ b, run "compare_signaling_less" m f [.d x, .d y]
        = some (.ok ([.b b], f ||| UInt32.ofNat (signalingCmpFlags (dOf x) (dOf y)))) ∧
      predTable "less" (cmpD (dOf x) (dOf y)) = some b := by
  obtain ⟨b, h1, h2⟩ := Dec.C03GenCompare2.signaling_less_table x y f
  exact ⟨b, by rw [run_compare_signaling_less, h1]; rfl, h2⟩

/-- C03: `compare_signaling_less_equal`: the same truth value; "signaling predicates raise invalid for any NaN" -/
theorem compare_signaling_less_equal_spec (m : RoundingMode) (f : UInt32) (x y : U128) :
    ∃ b, run "compare_signaling_less_equal" m f [.d x, .d y]
        = some (.ok ([.b b], f ||| UInt32.ofNat (signalingCmpFlags (dOf x) (dOf y)))) ∧
      predTable "less_equal" (cmpD (dOf x) (dOf y)) = some b := by
  obtain ⟨b, h1, h2⟩ := Dec.C03GenCompare2.signaling_less_equal_table x y f
  exact ⟨b, by rw [run_compare_signaling_less_equal, h1]; rfl, h2⟩

/-- C03: `compare_signaling_less_unordered`: the same truth value; "signaling predicates raise invalid for any NaN" -/
theorem compare_signaling_less_unordered_spec (m : RoundingMode) (f : UInt32) (x y : U128) :
    ∃ b, run "compare_signaling_less_unordered" m f [.d x, .d y]
        = some (.ok ([.b b], f ||| UInt32.ofNat (signalingCmpFlags (dOf x) (dOf y)))) ∧
      predTable "less_unordered" (cmpD (dOf x) (dOf y)) = some b := by
  obtain ⟨b, h1, h2⟩ := Dec.C03GenCompare2.signaling_less_unordered_table x y f
  exact ⟨b, by rw [run_compare_signaling_less_unordered, h1]; rfl, h2⟩

/-- C03: `compare_signaling_not_greater`: the same truth value; "signaling predicates raise invalid for any NaN" -/
theorem compare_signaling_not_greater_spec (m : RoundingMode) (f : UInt32) (x y : U128) :
    ∃ b, run "compare_signaling_not_greater" m f [.d x, .d y]
        = some (.ok ([.b b], f ||| UInt32.ofNat (signalingCmpFlags (dOf x) (dOf y)))) ∧
      predTable "not_greater" (cmpD (dOf x) (dOf y)) = some b := by
  obtain ⟨b, h1, h2⟩ := Dec.C03GenCompare2.signaling_not_greater_table x y f
  exact ⟨b, by rw [run_compare_signaling_not_greater, h1]; rfl, h2⟩

/-- C03: `compare_signaling_not_less`: the same truth value; "signaling predicates raise invalid for any NaN" -/
theorem compare_signaling_not_less_spec (m : RoundingMode) (f : UInt32) (x y : U128) :
    ∃ b, run "compare_signaling_not_less" m f [.d x, .d y]
        = some (.ok ([.b b], f ||| UInt32.ofNat (signalingCmpFlags (dOf x) (dOf y)))) ∧
      predTable "not_less" (cmpD (dOf x) (dOf y)) = some b := by
  obtain ⟨b, h1, h2⟩ := Dec.C03GenCompare2.signaling_not_less_table x y f
  exact ⟨b, by rw [run_compare_signaling_not_less, h1]; rfl, h2⟩

/-- C03: "members of one cohort compare equal, +0 equals -0, infinities bound all finite values, and any NaN makes the
pair unordered": exactly one of `less`, `equal`, `greater`, `unordered` answers `true`, for every pair of patterns -/
theorem compare_exactly_one (m : RoundingMode) (f : UInt32) (x y : U128) :
    ∃ bl be bg bu g1 g2 g3 g4,
      run "compare_quiet_less" m f [.d x, .d y] = some (.ok ([.b bl], g1)) ∧
      run "compare_quiet_equal" m f [.d x, .d y] = some (.ok ([.b be], g2)) ∧
      run "compare_quiet_greater" m f [.d x, .d y] = some (.ok ([.b bg], g3)) ∧
      run "compare_quiet_unordered" m f [.d x, .d y] = some (.ok ([.b bu], g4)) ∧
      ((bl = true ∧ be = false ∧ bg = false ∧ bu = false) ∨ (bl = false ∧ be = true ∧ bg = false ∧ bu = false) ∨
       (bl = false ∧ be = false ∧ bg = true ∧ bu = false) ∨ (bl = false ∧ be = false ∧ bg = false ∧ bu = true)) := by
  obtain ⟨bl, h1, t1⟩ := compare_quiet_less_spec m f x y
  obtain ⟨be, h2, t2⟩ := compare_quiet_equal_spec m f x y
  obtain ⟨bg, h3, t3⟩ := compare_quiet_greater_spec m f x y
  obtain ⟨bu, h4, t4⟩ := compare_quiet_unordered_spec m f x y
  refine ⟨bl, be, bg, bu, _, _, _, _, h1, h2, h3, h4, ?_⟩
  rcases h : cmpD (dOf x) (dOf y) with _ | (_ | _ | _) <;> rw [h] at t1 t2 t3 t4 <;>
    simp only [predTable, Option.some.injEq] at t1 t2 t3 t4 <;> subst t1 t2 t3 t4 <;> decide

/-- C03: finite operands (zeros and all cohort members included) are compared by their exact rational values
`fval s c e = (−1)^s · c · 10^e`; no flag is raised -/
theorem compare_by_value (m : RoundingMode) (f : UInt32) (x y : U128) (vx vy : ℚ)
    (hx : (dOf x).val = some vx) (hy : (dOf y).val = some vy) :
    run "compare_quiet_less" m f [.d x, .d y] = some (.ok ([.b (decide (vx < vy))], f)) ∧
    run "compare_quiet_equal" m f [.d x, .d y] = some (.ok ([.b (decide (vx = vy))], f)) ∧
    run "compare_quiet_greater" m f [.d x, .d y] = some (.ok ([.b (decide (vx > vy))], f)) ∧
    run "compare_quiet_less_equal" m f [.d x, .d y] = some (.ok ([.b (decide (vx ≤ vy))], f)) ∧
    run "compare_quiet_greater_equal" m f [.d x, .d y] = some (.ok ([.b (decide (vx ≥ vy))], f)) ∧
    run "compare_quiet_not_equal" m f [.d x, .d y] = some (.ok ([.b (decide (vx ≠ vy))], f)) ∧
    run "compare_signaling_less" m f [.d x, .d y] = some (.ok ([.b (decide (vx < vy))], f)) ∧
    run "compare_signaling_greater" m f [.d x, .d y] = some (.ok ([.b (decide (vx > vy))], f)) := by
  obtain ⟨p1, p2, p3, p4, p5, p6, -⟩ := Dec.C03Order.predicates_by_value (dOf x) (dOf y) vx vy hx hy
  have nx : (dOf x).isSNaN = false ∧ (dOf x).isNaN = false := by
    cases h : dOf x <;> rw [h] at hx <;> simp [Datum.val, Datum.isSNaN, Datum.isNaN] at hx ⊢
  have ny : (dOf y).isSNaN = false ∧ (dOf y).isNaN = false := by
    cases h : dOf y <;> rw [h] at hy <;> simp [Datum.val, Datum.isSNaN, Datum.isNaN] at hy ⊢
  have q : f ||| UInt32.ofNat (quietCmpFlags (dOf x) (dOf y)) = f := by
    unfold quietCmpFlags; rw [nx.1, ny.1]; exact UInt32.or_zero
  have s : f ||| UInt32.ofNat (signalingCmpFlags (dOf x) (dOf y)) = f := by
    unfold signalingCmpFlags; rw [nx.2, ny.2]; exact UInt32.or_zero
  refine ⟨?_, ?_, ?_, ?_, ?_, ?_, ?_, ?_⟩
  · obtain ⟨b, h, t⟩ := compare_quiet_less_spec m f x y; rw [p1] at t; cases t; rw [h, q]
  · obtain ⟨b, h, t⟩ := compare_quiet_equal_spec m f x y; rw [p2] at t; cases t; rw [h, q]
  · obtain ⟨b, h, t⟩ := compare_quiet_greater_spec m f x y; rw [p3] at t; cases t; rw [h, q]
  · obtain ⟨b, h, t⟩ := compare_quiet_less_equal_spec m f x y; rw [p4] at t; cases t; rw [h, q]
  · obtain ⟨b, h, t⟩ := compare_quiet_greater_equal_spec m f x y; rw [p5] at t; cases t; rw [h, q]
  · obtain ⟨b, h, t⟩ := compare_quiet_not_equal_spec m f x y; rw [p6] at t; cases t; rw [h, q]
  · obtain ⟨b, h, t⟩ := compare_signaling_less_spec m f x y; rw [p1] at t; cases t; rw [h, s]
  · obtain ⟨b, h, t⟩ := compare_signaling_greater_spec m f x y; rw [p3] at t; cases t; rw [h, s]

/-- C03: "any NaN makes the pair unordered": with a NaN operand `less`, `equal`, `greater`, `less_equal`,
`greater_equal`, `ordered` answer false; `not_equal`, `unordered` (and the `not_…`, `…_unordered` forms) answer true -/
theorem compare_nan_operand (m : RoundingMode) (f : UInt32) (x y : U128)
    (h : (dOf x).isNaN = true ∨ (dOf y).isNaN = true) :
    ∃ g, run "compare_quiet_less" m f [.d x, .d y] = some (.ok ([.b false], g)) ∧
      run "compare_quiet_equal" m f [.d x, .d y] = some (.ok ([.b false], g)) ∧
      run "compare_quiet_greater" m f [.d x, .d y] = some (.ok ([.b false], g)) ∧
      run "compare_quiet_not_equal" m f [.d x, .d y] = some (.ok ([.b true], g)) ∧
      run "compare_quiet_unordered" m f [.d x, .d y] = some (.ok ([.b true], g)) ∧
      g = f ||| UInt32.ofNat (if (dOf x).isSNaN || (dOf y).isSNaN then fInvalid else 0) := by
  obtain ⟨p1, p2, p3, -, -, -, p7, -, -, -, -, p12⟩ := Dec.C03Order.nan_operand (dOf x) (dOf y) h
  refine ⟨_, ?_, ?_, ?_, ?_, ?_, rfl⟩
  · obtain ⟨b, h, t⟩ := compare_quiet_less_spec m f x y; rw [p1] at t; cases t; exact h
  · obtain ⟨b, h, t⟩ := compare_quiet_equal_spec m f x y; rw [p2] at t; cases t; exact h
  · obtain ⟨b, h, t⟩ := compare_quiet_greater_spec m f x y; rw [p3] at t; cases t; exact h
  · obtain ⟨b, h, t⟩ := compare_quiet_not_equal_spec m f x y; rw [p7] at t; cases t; exact h
  · obtain ⟨b, h, t⟩ := compare_quiet_unordered_spec m f x y; rw [p12] at t; cases t; exact h


/-! ## C18 — `total_order`, `total_order_mag` -/

theorem b_of_run_eq {a b : Bool} {f g : UInt32}
    (h : (some (.ok ([AVal.b a], f)) : Option (Except String (List AVal × UInt32))) = some (.ok ([.b b], g))) : a = b := by
  cases h; rfl


/-- C18: "total_order(x, y) holds exactly when x precedes or equals y in the IEEE 754-2008 totalOrder … with non-canonical
encodings ranked as the values they denote" (`Dec.totalLe` on the decoded operands); the status word is untouched -/
theorem total_order_spec (m : RoundingMode) (f : UInt32) (x y : U128) :
    run "total_order" m f [.d x, .d y] = some (.ok ([.b (totalLe (dOf x) (dOf y))], f)) := by
  rw [run_total_order, Dec.C18GenTotalOrder.total_order_spec]; rfl

/-- C18: "total_order_mag is the same relation applied to the absolute values" -/
theorem total_order_mag_spec (m : RoundingMode) (f : UInt32) (x y : U128) :
    run "total_order_mag" m f [.d x, .d y]
      = some (.ok ([.b (totalLe ((dOf x).setSign false) ((dOf y).setSign false))], f)) := by
  rw [run_total_order_mag, Dec.C18GenTotalOrder.total_order_mag_spec, Dec.C18.mag_is_abs]; rfl

/-- C18: "It is therefore reflexive" -/
theorem total_order_refl (m : RoundingMode) (f : UInt32) (x : U128) :
    run "total_order" m f [.d x, .d x] = some (.ok ([.b true], f)) := by
  rw [total_order_spec, Dec.C18Order.refl]

/-- C18: "transitive" -/
theorem total_order_trans (m : RoundingMode) (f : UInt32) (x y z : U128)
    (h1 : run "total_order" m f [.d x, .d y] = some (.ok ([.b true], f)))
    (h2 : run "total_order" m f [.d y, .d z] = some (.ok ([.b true], f))) :
    run "total_order" m f [.d x, .d z] = some (.ok ([.b true], f)) := by
  rw [total_order_spec] at h1 h2 ⊢
  have e1 : totalLe (dOf x) (dOf y) = true := b_of_run_eq h1
  have e2 : totalLe (dOf y) (dOf z) = true := b_of_run_eq h2
  rw [Dec.C18Order.trans e1 e2]

/-- C18: "and total" -/
theorem total_order_total (m : RoundingMode) (f : UInt32) (x y : U128) :
    run "total_order" m f [.d x, .d y] = some (.ok ([.b true], f)) ∨
    run "total_order" m f [.d y, .d x] = some (.ok ([.b true], f)) := by
  rw [total_order_spec, total_order_spec]
  rcases Dec.C18Order.total (dOf x) (dOf y) with h | h
  · left; rw [h]
  · right; rw [h]

/-- C18: "total_order(x, y) and total_order(y, x) both hold exactly when x and y denote the same canonical datum" — i.e.
exactly when their canonical encodings are the same 128 bits -/
theorem total_order_antisymm (m : RoundingMode) (f : UInt32) (x y : U128) :
    (run "total_order" m f [.d x, .d y] = some (.ok ([.b true], f)) ∧
     run "total_order" m f [.d y, .d x] = some (.ok ([.b true], f))) ↔ canon (bitsOf x) = canon (bitsOf y) := by
  rw [total_order_spec, total_order_spec]
  have key : (totalLe (dOf x) (dOf y) = true ∧ totalLe (dOf y) (dOf x) = true) ↔ dOf x = dOf y :=
    Dec.C18Order.le_and_ge_iff_eq _ _
  have k2 : dOf x = dOf y ↔ canon (bitsOf x) = canon (bitsOf y) := by
    constructor
    · intro h; unfold canon; exact congrArg encode h
    · intro h
      have := congrArg decode h
      rwa [decode_canon, decode_canon] at this
  rw [← k2, ← key]
  constructor
  · rintro ⟨h1, h2⟩
    constructor
    · exact b_of_run_eq h1
    · exact b_of_run_eq h2
  · rintro ⟨h1, h2⟩; rw [h1, h2]; exact ⟨rfl, rfl⟩

/-- C18: "-NaN < -Inf < negative finite < -0 < +0 < positive finite < +Inf < +NaN": whenever the numeric comparison says
Less (numbers and infinities, any cohort members) the total order agrees, strictly; −0 strictly precedes +0; NaNs are
the extremes -/
theorem total_order_chain (m : RoundingMode) (f : UInt32) (x y : U128) :
    (cmpD (dOf x) (dOf y) = some .lt →
      run "total_order" m f [.d x, .d y] = some (.ok ([.b true], f)) ∧
      run "total_order" m f [.d y, .d x] = some (.ok ([.b false], f))) ∧
    ((dOf x).neg = true → (dOf y).neg = false →
      run "total_order" m f [.d x, .d y] = some (.ok ([.b true], f)) ∧
      run "total_order" m f [.d y, .d x] = some (.ok ([.b false], f))) := by
  rw [total_order_spec, total_order_spec]
  constructor
  · intro h; obtain ⟨h1, h2⟩ := Dec.C18Order.lt_of_cmpD_lt h; rw [h1, h2]; exact ⟨rfl, rfl⟩
  · intro hx hy; obtain ⟨h1, h2⟩ := Dec.C18.neg_before_pos _ _ hx hy; rw [h1, h2]; exact ⟨rfl, rfl⟩

/-- C18: "numerically equal finite values ordered by exponent (smaller exponent first when positive, reversed when
negative)" -/
theorem total_order_cohort (m : RoundingMode) (f : UInt32) (x y : U128) (s : Bool) (c1 c2 : Nat) (e1 e2 : Int)
    (hx : dOf x = .fin s c1 e1) (hy : dOf y = .fin s c2 e2) (h : fval false c1 e1 = fval false c2 e2) :
    run "total_order" m f [.d x, .d y]
      = some (.ok ([.b (if s then decide (e2 ≤ e1) else decide (e1 ≤ e2))], f)) := by
  rw [total_order_spec, hx, hy]
  obtain ⟨h1, h2⟩ := Dec.C18Order.same_value_by_exponent c1 c2 e1 e2 h
  cases s
  · rw [h1]; rfl
  · rw [h2]; rfl

/-- C18: "signaling before quiet and smaller payload first among positive NaNs (reversed for negative)" -/
theorem total_order_nans (m : RoundingMode) (f : UInt32) (x y : U128) (g : Bool) (p q : Nat)
    (hx : dOf x = .nan false g p) (hy : dOf y = .nan false g q) :
    run "total_order" m f [.d x, .d y] = some (.ok ([.b (decide (p ≤ q))], f)) := by
  rw [total_order_spec, hx, hy, (Dec.C18.positive_classes 0 p q 0 g).2.2.2.2.2.2]

example : run "total_order" .NearestEven 0 [.d ⟨10, 0x303e000000000000⟩, .d ⟨1, 0x3040000000000000⟩]
    = some (.ok ([.b true], 0)) := by
  rw [total_order_spec, show totalLe (dOf ⟨10, 0x303e000000000000⟩) (dOf ⟨1, 0x3040000000000000⟩) = true from by decide +kernel]


/-! ## C20 — `==`, `!=`, `<`, `<=`, `>`, `>=`, `partial_cmp`, `hash` (the trait glue of d128.rs) -/

/-- C20: equality on the decimal type is `Dec.eqGlue` of the decoded operands (no status word is involved) -/
theorem eq_spec (m : RoundingMode) (f : UInt32) (x y : U128) :
    run "eq" m f [.d x, .d y] = some (.ok ([.b (eqGlue (dOf x) (dOf y))], f)) := by
  rw [run_eq, Dec.C20GenGlue.d128_eq_spec]; rfl

theorem ne_spec (m : RoundingMode) (f : UInt32) (x y : U128) :
    run "ne" m f [.d x, .d y] = some (.ok ([.b (!eqGlue (dOf x) (dOf y))], f)) := by
  rw [run_ne, Dec.C20GenGlue.d128_eq_spec]; rfl

theorem partial_cmp_spec (m : RoundingMode) (f : UInt32) (x y : U128) :
    run "partial_cmp" m f [.d x, .d y] = some (.ok ([.o (partialCmpGlue (dOf x) (dOf y))], f)) := by
  rw [run_partial_cmp, Dec.C20GenGlue.d128_partial_cmp_spec]; rfl

theorem lt_spec (m : RoundingMode) (f : UInt32) (x y : U128) :
    run "lt" m f [.d x, .d y] = some (.ok ([.b (cmpD (dOf x) (dOf y) == some .lt)], f)) := by
  rw [run_lt, Dec.C20GenGlue.d128_lt_spec]; rfl

theorem gt_spec (m : RoundingMode) (f : UInt32) (x y : U128) :
    run "gt" m f [.d x, .d y] = some (.ok ([.b (cmpD (dOf x) (dOf y) == some .gt)], f)) := by
  rw [run_gt, Dec.C20GenGlue.d128_gt_spec]; rfl

/-- C20: "a <= b holds exactly when partial_cmp(a, b) is Less or Equal" -/
theorem le_spec (m : RoundingMode) (f : UInt32) (x y : U128) :
    run "le" m f [.d x, .d y]
      = some (.ok ([.b (partialCmpGlue (dOf x) (dOf y) == some .lt || partialCmpGlue (dOf x) (dOf y) == some .eq)], f)) := by
  rw [run_le, Dec.C20GenGlue.d128_le_spec]; rfl

theorem ge_spec (m : RoundingMode) (f : UInt32) (x y : U128) :
    run "ge" m f [.d x, .d y]
      = some (.ok ([.b (partialCmpGlue (dOf x) (dOf y) == some .gt || partialCmpGlue (dOf x) (dOf y) == some .eq)], f)) := by
  rw [run_ge, Dec.C20GenGlue.d128_ge_spec]; rfl

/-- C20: "Equality on the decimal type is an equivalence relation": reflexive (NaNs included) -/
theorem eq_refl (m : RoundingMode) (f : UInt32) (x : U128) :
    run "eq" m f [.d x, .d x] = some (.ok ([.b true], f)) := by
  rw [eq_spec, Dec.C20.eq_refl]

/-- … symmetric -/
theorem eq_symm (m : RoundingMode) (f : UInt32) (x y : U128) :
    run "eq" m f [.d x, .d y] = run "eq" m f [.d y, .d x] := by
  rw [eq_spec, eq_spec, Dec.C20Order.eq_symm]

/-- … transitive -/
theorem eq_trans (m : RoundingMode) (f : UInt32) (x y z : U128)
    (h1 : run "eq" m f [.d x, .d y] = some (.ok ([.b true], f)))
    (h2 : run "eq" m f [.d y, .d z] = some (.ok ([.b true], f))) :
    run "eq" m f [.d x, .d z] = some (.ok ([.b true], f)) := by
  rw [eq_spec] at h1 h2 ⊢
  rw [Dec.C20Order.eq_trans (b_of_run_eq h1) (b_of_run_eq h2)]

/-- C20: "numerically equal values are equal whatever their quantum or zero sign" -/
theorem eq_by_value (m : RoundingMode) (f : UInt32) (x y : U128) (s1 s2 : Bool) (c1 c2 : Nat) (e1 e2 : Int)
    (hx : dOf x = .fin s1 c1 e1) (hy : dOf y = .fin s2 c2 e2) :
    run "eq" m f [.d x, .d y] = some (.ok ([.b true], f)) ↔ fval s1 c1 e1 = fval s2 c2 e2 := by
  rw [eq_spec, hx, hy, ← Dec.C20Order.eq_fin_iff]
  constructor
  · intro h; exact b_of_run_eq h
  · intro h; rw [h]

/-- C20: "all NaNs form one class, a NaN never equals a number" -/
theorem eq_nan (m : RoundingMode) (f : UInt32) (x y : U128) (hx : (dOf x).isNaN = true) :
    run "eq" m f [.d x, .d y] = some (.ok ([.b (dOf y).isNaN], f)) := by
  rw [eq_spec]
  cases hy : (dOf y).isNaN
  · rw [((Dec.C20.nan_classes _ _).2 hx hy).1]
  · rw [(Dec.C20.nan_classes _ _).1 hx hy]

/-- C20: "partial_cmp, <, <=, > and >= agree with it and with each other": `partial_cmp` is `Equal` exactly when `==`
holds, `Less` / `Greater` exactly when `<` / `>` hold -/
theorem partial_cmp_agrees (m : RoundingMode) (f : UInt32) (x y : U128) :
    (run "partial_cmp" m f [.d x, .d y] = some (.ok ([.o (some .eq)], f)) ↔
      run "eq" m f [.d x, .d y] = some (.ok ([.b true], f))) ∧
    (run "partial_cmp" m f [.d x, .d y] = some (.ok ([.o (some .lt)], f)) ↔
      run "lt" m f [.d x, .d y] = some (.ok ([.b true], f))) ∧
    (run "partial_cmp" m f [.d x, .d y] = some (.ok ([.o (some .gt)], f)) ↔
      run "gt" m f [.d x, .d y] = some (.ok ([.b true], f))) := by
  have o_inj : ∀ {a b : Option Ordering}, (some (.ok ([AVal.o a], f)) : Option (Except String (List AVal × UInt32)))
      = some (.ok ([.o b], f)) → a = b := by intro a b h; cases h; rfl
  rw [partial_cmp_spec, eq_spec, lt_spec, gt_spec]
  refine ⟨?_, ?_, ?_⟩
  · constructor
    · intro h; rw [(Dec.C20.partialCmp_eq_iff _ _).1 (o_inj h)]
    · intro h; rw [(Dec.C20.partialCmp_eq_iff _ _).2 (b_of_run_eq h)]
  · constructor
    · intro h; rw [(Dec.C20Order.partialCmpGlue_lt_iff _ _).1 (o_inj h)]; rfl
    · intro h
      have := b_of_run_eq h
      rw [(Dec.C20Order.partialCmpGlue_lt_iff _ _).2 (by simpa using this)]
  · constructor
    · intro h; rw [(Dec.C20Order.partialCmpGlue_gt_iff _ _).1 (o_inj h)]; rfl
    · intro h
      have := b_of_run_eq h
      rw [(Dec.C20Order.partialCmpGlue_gt_iff _ _).2 (by simpa using this)]

/-- C20: "partial_cmp is antisymmetric": exchanging the operands mirrors the answer -/
theorem partial_cmp_swap (m : RoundingMode) (f : UInt32) (x y : U128) :
    ∃ o, run "partial_cmp" m f [.d x, .d y] = some (.ok ([.o o], f)) ∧
      run "partial_cmp" m f [.d y, .d x] = some (.ok ([.o (o.map Ordering.swap)], f)) := by
  refine ⟨_, partial_cmp_spec m f x y, ?_⟩
  rw [partial_cmp_spec, Dec.C20Order.partialCmp_swap]

/-- C20: "and transitive" (`<` and `<=`) -/
theorem lt_trans (m : RoundingMode) (f : UInt32) (x y z : U128)
    (h1 : run "lt" m f [.d x, .d y] = some (.ok ([.b true], f)))
    (h2 : run "lt" m f [.d y, .d z] = some (.ok ([.b true], f))) :
    run "lt" m f [.d x, .d z] = some (.ok ([.b true], f)) := by
  rw [run_lt] at h1 h2 ⊢
  have a1 : d128_lt x y = .ok true := by
    rcases h : d128_lt x y with e | b
    · rw [h] at h1; cases h1
    · rw [h] at h1; cases h1; rfl
  have a2 : d128_lt y z = .ok true := by
    rcases h : d128_lt y z with e | b
    · rw [h] at h2; cases h2
    · rw [h] at h2; cases h2; rfl
  rw [Dec.C20GenGlue.lt_trans a1 a2]; rfl

theorem le_trans (m : RoundingMode) (f : UInt32) (x y z : U128)
    (h1 : run "le" m f [.d x, .d y] = some (.ok ([.b true], f)))
    (h2 : run "le" m f [.d y, .d z] = some (.ok ([.b true], f))) :
    run "le" m f [.d x, .d z] = some (.ok ([.b true], f)) := by
  rw [run_le] at h1 h2 ⊢
  have a1 : d128_le x y = .ok true := by
    rcases h : d128_le x y with e | b
    · rw [h] at h1; cases h1
    · rw [h] at h1; cases h1; rfl
  have a2 : d128_le y z = .ok true := by
    rcases h : d128_le y z with e | b
    · rw [h] at h2; cases h2
    · rw [h] at h2; cases h2; rfl
  rw [Dec.C20GenGlue.le_trans a1 a2]; rfl

/-- C20: "Values that are equal hash equally" — and conversely: the bytes fed to the hasher (the translator models the
hasher state as the list of bytes written so far) are the same exactly when `==` holds -/
theorem hash_eq_iff_eq (m : RoundingMode) (f : UInt32) (x y : U128) :
    run "hash" m f [.d x] = run "hash" m f [.d y] ↔ run "eq" m f [.d x, .d y] = some (.ok ([.b true], f)) := by
  have hx : run "hash" m f [.d x] = some (.ok ([.h (Dec.C20GenGlue.key x)], f)) := by
    rw [run_hash, Dec.C20GenGlue.d128_hash_spec, map_ok, List.nil_append]
  have hy : run "hash" m f [.d y] = some (.ok ([.h (Dec.C20GenGlue.key y)], f)) := by
    rw [run_hash, Dec.C20GenGlue.d128_hash_spec, map_ok, List.nil_append]
  have h_inj : ∀ {a b : List UInt8}, (some (.ok ([AVal.h a], f)) : Option (Except String (List AVal × UInt32)))
      = some (.ok ([.h b], f)) → a = b := by intro a b h; cases h; rfl
  have k := Dec.C20GenGlue.key_eq_iff x y
  rw [Dec.C20GenGlue.d128_eq_spec, Dec.C20GenGlue.ok_inj] at k
  rw [hx, hy, eq_spec]
  constructor
  · intro h
    have e : eqGlue (dOf x) (dOf y) = true := k.1 (h_inj h)
    rw [e]
  · intro h
    have e : eqGlue (dOf x) (dOf y) = true := b_of_run_eq h
    rw [k.2 e]

example : run "eq" .NearestEven 0 [.d ⟨10, 0x303e000000000000⟩, .d ⟨1, 0x3040000000000000⟩] = some (.ok ([.b true], 0)) := by
  rw [eq_spec, show eqGlue (dOf ⟨10, 0x303e000000000000⟩) (dOf ⟨1, 0x3040000000000000⟩) = true from by decide +kernel]


/-! ## C16 — `min_num`, `max_num`, `min_num_mag`, `max_num_mag` -/

open Dec.C16GenMinMax in
/-- C16: the four operations, all pairs of patterns and every status word: the returned word is the canonical encoding of
`selBy first a b` (which operand: `C16GenMinMax.nanSel` for NaNs, the exact order with the explicit tie rules
`plainTie` / `magTie` for numbers), and `invalid` is or-ed in exactly for a signalling NaN operand -/
theorem min_num_spec (m : RoundingMode) (f : UInt32) (x y : U128) :
    run "min_num" m f [.d x, .d y] = some (.ok ([.d (ofBits (encode (selBy minFirst (dOf x) (dOf y))))],
      f ||| UInt32.ofNat (quietCmpFlags (dOf x) (dOf y)))) := by
  rw [run_min_num, bid128_minnum_eq]; rfl

open Dec.C16GenMinMax in
theorem max_num_spec (m : RoundingMode) (f : UInt32) (x y : U128) :
    run "max_num" m f [.d x, .d y] = some (.ok ([.d (ofBits (encode (selBy maxFirst (dOf x) (dOf y))))],
      f ||| UInt32.ofNat (quietCmpFlags (dOf x) (dOf y)))) := by
  rw [run_max_num, bid128_maxnum_eq]; rfl

open Dec.C16GenMinMax in
theorem min_num_mag_spec (m : RoundingMode) (f : UInt32) (x y : U128) :
    run "min_num_mag" m f [.d x, .d y] = some (.ok ([.d (ofBits (encode (selBy minMagFirst (dOf x) (dOf y))))],
      f ||| UInt32.ofNat (quietCmpFlags (dOf x) (dOf y)))) := by
  rw [run_min_num_mag, bid128_minnum_mag_eq]; rfl

open Dec.C16GenMinMax in
theorem max_num_mag_spec (m : RoundingMode) (f : UInt32) (x y : U128) :
    run "max_num_mag" m f [.d x, .d y] = some (.ok ([.d (ofBits (encode (selBy maxMagFirst (dOf x) (dOf y))))],
      f ||| UInt32.ofNat (quietCmpFlags (dOf x) (dOf y)))) := by
  rw [run_max_num_mag, bid128_maxnum_mag_eq]; rfl

open Dec.C16GenMinMax in
/-- C16: "For non-NaN operands min_num, max_num, min_num_mag and max_num_mag return one of the two operands in canonical
form, chosen by the exact order of the values (of the magnitudes for the _mag forms, falling back to the signed order when
magnitudes are equal), and raise no flag; when the values compare equal the result is still one of the operands." -/
theorem minmax_numbers (m : RoundingMode) (f : UInt32) (x y : U128)
    (hx : (dOf x).isNaN = false) (hy : (dOf y).isNaN = false) :
    ∃ r1 r2 r3 r4 : U128,
      run "min_num" m f [.d x, .d y] = some (.ok ([.d r1], f)) ∧
      run "max_num" m f [.d x, .d y] = some (.ok ([.d r2], f)) ∧
      run "min_num_mag" m f [.d x, .d y] = some (.ok ([.d r3], f)) ∧
      run "max_num_mag" m f [.d x, .d y] = some (.ok ([.d r4], f)) ∧
      (∃ d ∈ minmaxChoices false false (dOf x) (dOf y), bitsOf r1 = encode d) ∧
      (∃ d ∈ minmaxChoices true false (dOf x) (dOf y), bitsOf r2 = encode d) ∧
      (∃ d ∈ minmaxChoices false true (dOf x) (dOf y), bitsOf r3 = encode d) ∧
      (∃ d ∈ minmaxChoices true true (dOf x) (dOf y), bitsOf r4 = encode d) ∧
      (bitsOf r1 = canon (bitsOf x) ∨ bitsOf r1 = canon (bitsOf y)) ∧
      isCanonical (bitsOf r1) = true ∧ isCanonical (bitsOf r2) = true ∧
      isCanonical (bitsOf r3) = true ∧ isCanonical (bitsOf r4) = true := by
  have nf : f ||| UInt32.ofNat (quietCmpFlags (dOf x) (dOf y)) = f := by
    unfold quietCmpFlags
    have sx : (dOf x).isSNaN = false := by cases h : dOf x <;> rw [h] at hx <;> simp [Datum.isNaN, Datum.isSNaN] at hx ⊢
    have sy : (dOf y).isSNaN = false := by cases h : dOf y <;> rw [h] at hy <;> simp [Datum.isNaN, Datum.isSNaN] at hy ⊢
    rw [sx, sy]; exact UInt32.or_zero
  obtain ⟨c1, e1⟩ := result_canonical minFirst x y
  obtain ⟨c2, e2⟩ := result_canonical maxFirst x y
  obtain ⟨c3, e3⟩ := result_canonical minMagFirst x y
  obtain ⟨c4, e4⟩ := result_canonical maxMagFirst x y
  refine ⟨_, _, _, _, by rw [min_num_spec, nf], by rw [max_num_spec, nf], by rw [min_num_mag_spec, nf],
    by rw [max_num_mag_spec, nf], ⟨_, selBy_mem_choices false false _ _ _ hx hy, e1⟩,
    ⟨_, selBy_mem_choices true false _ _ _ hx hy, e2⟩, ⟨_, selBy_mem_choices false true _ _ _ hx hy, e3⟩,
    ⟨_, selBy_mem_choices true true _ _ _ hx hy, e4⟩, ?_, c1, c2, c3, c4⟩
  have := Dec.C16.choices_subset false false _ _ _ (selBy_mem_choices false false (plainTie false) _ _ hx hy)
  rcases this with h | h
  · left; exact e1.trans (by unfold minFirst; rw [h]; rfl)
  · right; exact e1.trans (by unfold minFirst; rw [h]; rfl)

open Dec.C16GenMinMax in
/-- C16: "With exactly one quiet NaN operand the other operand is returned, two quiet NaNs give a quiet NaN, and any
signaling NaN gives a quiet NaN with invalid" — in the judge's form (`expectCore.minmax`), for all four methods at once:
the expectation is a `oneOf`, the returned bits are one of its alternatives and the flags are the expected ones -/
theorem minmax_expected (m : RoundingMode) (f : UInt32) (x y : U128) :
    ∃ r1 r2 r3 r4 a1 a2 a3 a4,
      run "min_num" m f [.d x, .d y] = some (.ok ([.d r1], f ||| UInt32.ofNat (quietCmpFlags (dOf x) (dOf y)))) ∧
      run "max_num" m f [.d x, .d y] = some (.ok ([.d r2], f ||| UInt32.ofNat (quietCmpFlags (dOf x) (dOf y)))) ∧
      run "min_num_mag" m f [.d x, .d y] = some (.ok ([.d r3], f ||| UInt32.ofNat (quietCmpFlags (dOf x) (dOf y)))) ∧
      run "max_num_mag" m f [.d x, .d y] = some (.ok ([.d r4], f ||| UInt32.ofNat (quietCmpFlags (dOf x) (dOf y)))) ∧
      Dec.expectCore.minmax false false (bitsOf x) (bitsOf y) = .oneOf a1 (quietCmpFlags (dOf x) (dOf y)) ∧
      Dec.expectCore.minmax true false (bitsOf x) (bitsOf y) = .oneOf a2 (quietCmpFlags (dOf x) (dOf y)) ∧
      Dec.expectCore.minmax false true (bitsOf x) (bitsOf y) = .oneOf a3 (quietCmpFlags (dOf x) (dOf y)) ∧
      Dec.expectCore.minmax true true (bitsOf x) (bitsOf y) = .oneOf a4 (quietCmpFlags (dOf x) (dOf y)) ∧
      [Val.d (bitsOf r1)] ∈ a1 ∧ [Val.d (bitsOf r2)] ∈ a2 ∧ [Val.d (bitsOf r3)] ∈ a3 ∧ [Val.d (bitsOf r4)] ∈ a4 := by
  obtain ⟨r1, a1, h1, e1, m1, -⟩ := minnum_judged x y f
  obtain ⟨r2, a2, h2, e2, m2, -⟩ := maxnum_judged x y f
  obtain ⟨r3, a3, h3, e3, m3, -⟩ := minnum_mag_judged x y f
  obtain ⟨r4, a4, h4, e4, m4, -⟩ := maxnum_mag_judged x y f
  exact ⟨r1, r2, r3, r4, a1, a2, a3, a4, by rw [run_min_num, h1]; rfl, by rw [run_max_num, h2]; rfl,
    by rw [run_min_num_mag, h3]; rfl, by rw [run_max_num_mag, h4]; rfl, e1, e2, e3, e4, m1, m2, m3, m4⟩

/-! ## C13 — `class` and the predicates; C12 — `abs`, `negate` -/

open Dec.C13GenNoncomp in
/-- C13: "Every one of the 2^128 encodings is accepted … and treated as the value IEEE 754-2008 assigns to it": the nine
predicates and `class` are the spec-level functions of the decoded datum; no status word is touched -/
theorem predicates_spec (m : RoundingMode) (f : UInt32) (x : U128) :
    run "is_nan" m f [.d x] = some (.ok ([.b (dOf x).isNaN], f)) ∧
    run "is_signaling" m f [.d x] = some (.ok ([.b (dOf x).isSNaN], f)) ∧
    run "is_infinite" m f [.d x] = some (.ok ([.b (dOf x).isInf], f)) ∧
    run "is_finite" m f [.d x] = some (.ok ([.b (dOf x).isFin], f)) ∧
    run "is_zero" m f [.d x] = some (.ok ([.b (dOf x).isZero], f)) ∧
    run "is_normal" m f [.d x] = some (.ok ([.b (isNormalD (dOf x))], f)) ∧
    run "is_subnormal" m f [.d x] = some (.ok ([.b (isSubnormalD (dOf x))], f)) ∧
    run "is_sign_minus" m f [.d x] = some (.ok ([.b (dOf x).neg], f)) ∧
    run "class" m f [.d x] = some (.ok ([.c (classType (dOf x))], f)) := by
  refine ⟨?_, ?_, ?_, ?_, ?_, ?_, ?_, ?_, ?_⟩
  · rw [run_is_nan, is_nan_spec]; rfl
  · rw [run_is_signaling, is_signaling_spec]; rfl
  · rw [run_is_infinite, is_inf_spec]; rfl
  · rw [run_is_finite, is_finite_spec]; rfl
  · rw [run_is_zero, is_zero_spec]; rfl
  · rw [run_is_normal, is_normal_spec]; rfl
  · rw [run_is_subnormal, is_subnormal_spec]; rfl
  · rw [run_is_sign_minus, is_signed_spec]; rfl
  · rw [run_class, class_spec]; rfl

/-- the spec-level predicates as functions of the class number (from `C13.class_consistent`) -/
theorem class_bools (d : Datum) :
    d.isSNaN = decide (classOf d = 0) ∧ d.isNaN = decide (classOf d = 0 ∨ classOf d = 1) ∧
    d.isInf = decide (classOf d = 2 ∨ classOf d = 9) ∧ d.isZero = decide (classOf d = 5 ∨ classOf d = 6) ∧
    isNormalD d = decide (classOf d = 3 ∨ classOf d = 8) ∧ isSubnormalD d = decide (classOf d = 4 ∨ classOf d = 7) ∧
    d.isFin = decide (3 ≤ classOf d ∧ classOf d ≤ 8) ∧ (2 ≤ classOf d → d.neg = decide (classOf d ≤ 5)) := by
  obtain ⟨k0, k1, k2, k3, k4, k5, k6, k7, k8⟩ := Dec.C13.class_consistent d
  have lt := Dec.C13.class_lt_ten d
  have b2d : ∀ (b : Bool) (P : Prop) [Decidable P], (P ↔ b = true) → b = decide P := by
    intro b P _ h; cases b <;> simp at h ⊢ <;> exact h
  refine ⟨b2d _ _ k0, ?_, b2d _ _ k2, b2d _ _ k3, b2d _ _ k4, b2d _ _ k5, b2d _ _ k8.symm, ?_⟩
  · apply b2d
    constructor
    · rintro (h | h)
      · have := k0.1 h
        cases d <;> simp [Datum.isSNaN, Datum.isNaN] at this ⊢
      · exact (k1.1 h).1
    · intro h
      by_cases hs : d.isSNaN = true
      · left; exact k0.2 hs
      · right; exact k1.2 ⟨h, by simpa using hs⟩
  · intro h2
    apply b2d
    constructor
    · intro h5; exact k6 ⟨h2, h5⟩
    · intro hn
      apply Classical.byContradiction
      intro h
      have := k7 ⟨by omega, by omega⟩
      rw [hn] at this; exact Bool.noConfusion this

open Dec.C13GenNoncomp in
/-- C13: "class() returns exactly one of the ten classes, consistent with is_nan, is_signaling, is_infinite, is_finite,
is_zero, is_normal, is_subnormal, is_sign_minus" (`classIdx` = the discriminant 0..9 of `ClassTypes`, `classOf` the
spec-level class number) "(normal iff the adjusted exponent is at least -6143)" -/
theorem class_consistent (m : RoundingMode) (f : UInt32) (x : U128) :
    ∃ c, run "class" m f [.d x] = some (.ok ([.c c], f)) ∧ classIdx c = classOf (dOf x) ∧ classIdx c < 10 ∧
      run "is_signaling" m f [.d x] = some (.ok ([.b (decide (classIdx c = 0))], f)) ∧
      run "is_nan" m f [.d x] = some (.ok ([.b (decide (classIdx c = 0 ∨ classIdx c = 1))], f)) ∧
      run "is_infinite" m f [.d x] = some (.ok ([.b (decide (classIdx c = 2 ∨ classIdx c = 9))], f)) ∧
      run "is_zero" m f [.d x] = some (.ok ([.b (decide (classIdx c = 5 ∨ classIdx c = 6))], f)) ∧
      run "is_normal" m f [.d x] = some (.ok ([.b (decide (classIdx c = 3 ∨ classIdx c = 8))], f)) ∧
      run "is_subnormal" m f [.d x] = some (.ok ([.b (decide (classIdx c = 4 ∨ classIdx c = 7))], f)) ∧
      run "is_finite" m f [.d x] = some (.ok ([.b (decide (3 ≤ classIdx c ∧ classIdx c ≤ 8))], f)) ∧
      (2 ≤ classIdx c → run "is_sign_minus" m f [.d x] = some (.ok ([.b (decide (classIdx c ≤ 5))], f))) := by
  obtain ⟨p1, p2, p3, p4, p5, p6, p7, p8, p9⟩ := predicates_spec m f x
  have hc := classIdx_classType (dOf x)
  obtain ⟨b0, b1, b2, b3, b4, b5, b6, b7⟩ := class_bools (dOf x)
  refine ⟨_, p9, hc, by rw [hc]; exact Dec.C13.class_lt_ten _, ?_, ?_, ?_, ?_, ?_, ?_, ?_, ?_⟩
  · rw [p2, hc, ← b0]
  · rw [p1, hc, ← b1]
  · rw [p3, hc, ← b2]
  · rw [p5, hc, ← b3]
  · rw [p6, hc, ← b4]
  · rw [p7, hc, ← b5]
  · rw [p4, hc, ← b6]
  · intro h2; rw [hc] at h2; rw [p8, hc, ← b7 h2]

/-- C13: "(normal iff the adjusted exponent is at least -6143)" -/
theorem is_normal_iff (m : RoundingMode) (f : UInt32) (x : U128) :
    run "is_normal" m f [.d x] = some (.ok ([.b true], f)) ↔
      ∃ s c e, dOf x = .fin s c e ∧ c ≠ 0 ∧ (ndigits c : Int) + e - 1 ≥ -6143 := by
  rw [(predicates_spec m f x).2.2.2.2.2.1]
  constructor
  · intro h
    have h := b_of_run_eq h
    cases hd : dOf x with
    | fin s c' e =>
      rw [hd] at h
      simp only [isNormalD, Bool.and_eq_true, bne_iff_ne, ne_eq, decide_eq_true_eq] at h
      exact ⟨s, c', e, rfl, h.1, h.2⟩
    | inf s => rw [hd] at h; simp [isNormalD] at h
    | nan s g p => rw [hd] at h; simp [isNormalD] at h
  · rintro ⟨s, c', e, hd, h1, h2⟩
    rw [hd]
    have : isNormalD (.fin s c' e) = true := by
      simp only [isNormalD, Bool.and_eq_true, bne_iff_ne, ne_eq, decide_eq_true_eq]
      exact ⟨h1, h2⟩
    rw [this]

open Dec.C13GenNoncomp in
/-- C13: "finite encodings whose coefficient is 10^34 or more, or that use the large-coefficient form, are zeros with their
sign and exponent, and junk bits in infinities are ignored" — as `is_zero` / `is_infinite` see them -/
theorem noncanonical_treated (m : RoundingMode) (f : UInt32) (x : U128) :
    ((bitsOf x / 2^123) % 16 ≠ 15 → ((bitsOf x / 2^123) % 16 / 4 = 3 ∨ P34 ≤ bitsOf x % 2^113) →
      run "is_zero" m f [.d x] = some (.ok ([.b true], f))) ∧
    ((bitsOf x / 2^123) % 16 = 15 → (bitsOf x / 2^122) % 2 = 0 →
      run "is_infinite" m f [.d x] = some (.ok ([.b true], f))) := by
  obtain ⟨-, -, p3, -, p5, -⟩ := predicates_spec m f x
  constructor
  · intro h1 h2
    rw [p5]
    by_cases h3 : (bitsOf x / 2^123) % 16 / 4 = 3
    · show some (Except.ok ([AVal.b (decode (bitsOf x)).isZero], f)) = _
      rw [decode_large _ h1 h3]; rfl
    · have h4 : P34 ≤ bitsOf x % 2^113 := by rcases h2 with h | h; exact absurd h h3; exact h
      show some (Except.ok ([AVal.b (decode (bitsOf x)).isZero], f)) = _
      rw [decode_small _ h1 h3, if_neg (by omega)]; rfl
  · intro h1 h2
    rw [p3]
    show some (Except.ok ([AVal.b (decode (bitsOf x)).isInf], f)) = _
    rw [decode_inf _ h1 h2]; rfl

open Dec.C13GenNoncomp in
/-- C12: "The quiet operations copy, negate, abs and copy_sign never raise a flag and change nothing but the sign bit, even
for signaling NaNs" — the two that are public methods of `d128` -/
theorem abs_negate_spec (m : RoundingMode) (f : UInt32) (x : U128) :
    (∃ r, run "abs" m f [.d x] = some (.ok ([.d r], f)) ∧ bitsOf r = bitsOf x % 2^127 ∧
      dOf r = (dOf x).setSign false) ∧
    (∃ r, run "negate" m f [.d x] = some (.ok ([.d r], f)) ∧ bitsOf r = (bitsOf x + 2^127) % 2^128 ∧
      dOf r = (dOf x).negate) := by
  obtain ⟨r1, h1, b1, d1⟩ := abs_decode x
  obtain ⟨r2, h2, b2, d2⟩ := negate_decode x
  exact ⟨⟨r1, by rw [run_abs, h1]; rfl, b1, d1⟩, ⟨r2, by rw [run_negate, h2]; rfl, b2, d2⟩⟩


/-! ## C09 — `same_quantum`, `quantum`, `quantexp`, `llquantexp`; `quantize` with a special operand -/

/-- C09: "same_quantum … report exactly the operand's quantum exponent": finite operands share a quantum iff their
exponents are equal; two infinities or two NaNs do, mixed kinds do not -/
theorem same_quantum_spec (m : RoundingMode) (f : UInt32) (x y : U128) :
    run "same_quantum" m f [.d x, .d y] = some (.ok ([.b (sameQuantumD (dOf x) (dOf y))], f)) := by
  rw [run_same_quantum, Dec.C13GenNoncomp.same_quantum_spec]; rfl

theorem same_quantum_finite (m : RoundingMode) (f : UInt32) (x y : U128) (s1 s2 : Bool) (c1 c2 : Nat) (e1 e2 : Int)
    (hx : dOf x = .fin s1 c1 e1) (hy : dOf y = .fin s2 c2 e2) :
    run "same_quantum" m f [.d x, .d y] = some (.ok ([.b (e1 == e2)], f)) := by
  rw [same_quantum_spec, hx, hy]; rfl

/-- C09: "quantexp and llquantexp report exactly the operand's quantum exponent (… invalid and the indefinite integer for
non-finite operands)" -/
theorem quantexp_spec (m : RoundingMode) (f : UInt32) (x : U128) :
    (∀ s c e, dOf x = .fin s c e → run "quantexp" m f [.d x] = some (.ok ([.i e], f))) ∧
    ((dOf x).isFin = false → run "quantexp" m f [.d x] = some (.ok ([.i (-2147483648)], f ||| 1))) := by
  constructor
  · intro s c e h
    obtain ⟨r, h1, h2⟩ := Dec.C06GenFromInt.quantexp_finite x f h
    rw [run_quantexp, h1, ← h2]; rfl
  · intro h
    obtain ⟨r, h1, h2, -⟩ := Dec.C06GenFromInt.quantexp_special x f h
    rw [run_quantexp, h1, ← h2]; rfl

theorem llquantexp_spec (m : RoundingMode) (f : UInt32) (x : U128) :
    (∀ s c e, dOf x = .fin s c e → run "llquantexp" m f [.d x] = some (.ok ([.i e], f))) ∧
    ((dOf x).isFin = false → run "llquantexp" m f [.d x] = some (.ok ([.i (-9223372036854775808)], f ||| 1))) := by
  constructor
  · intro s c e h
    obtain ⟨r, h1, h2⟩ := Dec.C06GenFromInt.llquantexp_finite x f h
    rw [run_llquantexp, h1, ← h2]; rfl
  · intro h
    obtain ⟨r, h1, h2, -⟩ := Dec.C06GenFromInt.llquantexp_special x f h
    rw [run_llquantexp, h1, ← h2]; rfl

/-- C09: "quantum … (10^e for quantum …)": for a finite operand `+1·10^e` with the operand's own exponent, for an infinity
`+Inf`; canonical; no status word is involved -/
theorem quantum_spec (m : RoundingMode) (f : UInt32) (x : U128) (h : (dOf x).isNaN = false) :
    ∃ r, run "quantum" m f [.d x] = some (.ok ([.d r], f)) ∧ dOf r = quantumD (dOf x) ∧
      isCanonical (bitsOf r) = true ∧
      (∀ s c e, dOf x = .fin s c e → dOf r = .fin false 1 e) ∧ (∀ s, dOf x = .inf s → dOf r = .inf false) := by
  obtain ⟨r, h1, -, h3, h4⟩ := Dec.C06GenFromInt.quantum_nonnan x h
  have h3' : dOf r = quantumD (dOf x) := h3
  refine ⟨r, by rw [run_quantum, h1]; rfl, h3, h4, ?_, ?_⟩
  · intro s c e hd; rw [h3', hd]; rfl
  · intro s hd; rw [h3', hd]; rfl

/-- C09: quantize "is a quiet NaN with invalid when … exactly one operand is infinite (two infinities give the infinity of
x)"; NaN operands follow the NaN rule; a zero `x` takes `y`'s exponent exactly (all of this is the part of
`bid128_quantize` proved so far: every case except "both finite, x non-zero") -/
theorem quantize_special (m : RoundingMode) (f : UInt32) (x y : U128)
    (h : ¬ ((dOf x).isFin = true ∧ (dOf x).isZero = false ∧ (dOf y).isFin = true)) :
    ∃ r, run "quantize" m f [.d x, .d y] = some (.ok ([.d r],
        f ||| UInt32.ofNat (Dec.C09GenQuantize.quantExpect (Dec.C13GenPack.md m) (dOf x) (dOf y)).2)) ∧
      bitsOf r = encode (Dec.C09GenQuantize.quantExpect (Dec.C13GenPack.md m) (dOf x) (dOf y)).1 % 2^128 := by
  refine ⟨_, by rw [run_quantize, Dec.C09GenQuantize.quantize_front_special x y m f h]; rfl, ?_⟩
  rw [ofBits13]
  exact Dec.C19GenDpd.bitsOf_ofBits _

theorem quantExpect_infs (md : Mode) (s1 s2 : Bool) :
    Dec.C09GenQuantize.quantExpect md (.inf s1) (.inf s2) = (.inf s1, 0) := by
  simp only [Dec.C09GenQuantize.quantExpect, Datum.isNaN, Bool.false_eq_true, if_false, quantizeD]

theorem quantExpect_inf_fin (md : Mode) (s1 s2 : Bool) (c : Nat) (e : Int) :
    Dec.C09GenQuantize.quantExpect md (.inf s1) (.fin s2 c e) = (.nan false false 0, fInvalid) ∧
    Dec.C09GenQuantize.quantExpect md (.fin s2 c e) (.inf s1) = (.nan false false 0, fInvalid) := by
  constructor <;>
  simp only [Dec.C09GenQuantize.quantExpect, Datum.isNaN, Bool.false_eq_true, if_false, quantizeD, invalidResult,
    defaultNaN]

theorem quantize_infinities (m : RoundingMode) (f : UInt32) (x y : U128) (s1 s2 : Bool)
    (hx : dOf x = .inf s1) (hy : dOf y = .inf s2) :
    ∃ r, run "quantize" m f [.d x, .d y] = some (.ok ([.d r], f)) ∧ bitsOf r = encode (.inf s1) := by
  have hq := Dec.C09GenQuantize.quantize_front_special x y m f (by
    show ¬ ((dOf x).isFin = true ∧ _)
    rintro ⟨h1, -⟩; rw [hx] at h1; exact Bool.noConfusion h1)
  have e : Dec.C09GenQuantize.quantExpect (Dec.C13GenPack.md m) (decode (Dec.C13GenNoncomp.bitsOf x))
      (decode (Dec.C13GenNoncomp.bitsOf y)) = (.inf s1, 0) := by
    have := quantExpect_infs (Dec.C13GenPack.md m) s1 s2
    have hx' : decode (Dec.C13GenNoncomp.bitsOf x) = .inf s1 := hx
    have hy' : decode (Dec.C13GenNoncomp.bitsOf y) = .inf s2 := hy
    rw [hx', hy']; exact this
  rw [e] at hq
  have f0 : f ||| UInt32.ofNat (Datum.inf s1, (0 : Flags)).2 = f := UInt32.or_zero
  rw [f0] at hq
  refine ⟨_, by rw [run_quantize, hq]; rfl, ?_⟩
  rw [ofBits13]
  exact bitsOf_ofBits (encode_lt (d := .inf s1) trivial)

theorem quantize_one_infinity (m : RoundingMode) (f : UInt32) (x y : U128) (s1 s2 : Bool) (c : Nat) (e : Int)
    (h : (dOf x = .inf s1 ∧ dOf y = .fin s2 c e) ∨ (dOf x = .fin s2 c e ∧ dOf y = .inf s1)) :
    ∃ r, run "quantize" m f [.d x, .d y] = some (.ok ([.d r], f ||| 1)) ∧ bitsOf r = encode (.nan false false 0) := by
  have hq := Dec.C09GenQuantize.quantize_front_special x y m f (by
    show ¬ ((dOf x).isFin = true ∧ (dOf x).isZero = false ∧ (dOf y).isFin = true)
    rintro ⟨h1, -, h3⟩
    rcases h with ⟨hx, hy⟩ | ⟨hx, hy⟩
    · rw [hx] at h1; exact Bool.noConfusion h1
    · rw [hy] at h3; exact Bool.noConfusion h3)
  have e : Dec.C09GenQuantize.quantExpect (Dec.C13GenPack.md m) (decode (Dec.C13GenNoncomp.bitsOf x))
      (decode (Dec.C13GenNoncomp.bitsOf y)) = (.nan false false 0, fInvalid) := by
    obtain ⟨q1, q2⟩ := quantExpect_inf_fin (Dec.C13GenPack.md m) s1 s2 c e
    rcases h with ⟨hx, hy⟩ | ⟨hx, hy⟩
    · have hx' : decode (Dec.C13GenNoncomp.bitsOf x) = .inf s1 := hx
      have hy' : decode (Dec.C13GenNoncomp.bitsOf y) = .fin s2 c e := hy
      rw [hx', hy']; exact q1
    · have hx' : decode (Dec.C13GenNoncomp.bitsOf x) = .fin s2 c e := hx
      have hy' : decode (Dec.C13GenNoncomp.bitsOf y) = .inf s1 := hy
      rw [hx', hy']; exact q2
  rw [e] at hq
  refine ⟨_, by rw [run_quantize, hq]; rfl, ?_⟩
  rw [ofBits13]
  exact bitsOf_ofBits (encode_lt (d := .nan false false 0) (by decide))


/-! ## C11 — `scaleb`, `ldexp`, `scalebln`, `frexp` -/

/-- what `scaleb` must return: the NaN rule for a NaN operand, otherwise `Dec.scalebD` (x·10^n handed to the universal
finishing step) — `C11GenScale.scalebSpec` -/
abbrev scalebSpec := Dec.C11GenScale.scalebSpec
abbrev md := Dec.C13GenPack.md

/-- C11: "scaleb … return x*10^n …, and otherwise the correctly rounded overflow or gradual-underflow result with the
matching flags, zeros and special values keeping their identity" — all patterns, counts, modes and status words -/
theorem scaleb_spec (m : RoundingMode) (f : UInt32) (x : U128) (n : Int) (hn : -2147483648 ≤ n ∧ n ≤ 2147483647) :
    ∃ r, run "scaleb" m f [.d x, .i n]
        = some (.ok ([.d r], f ||| UInt32.ofNat (scalebSpec (md m) n (dOf x)).2)) ∧
      bitsOf r = encode (scalebSpec (md m) n (dOf x)).1 % 2^128 := by
  have e : (Int32.ofInt n).toInt = n := Int32.toInt_ofInt_of_le (by omega) (by omega)
  have h := Dec.C11GenScale.scalbn_spec x (Int32.ofInt n) m f
  rw [e] at h
  refine ⟨_, by rw [run_scaleb, h]; rfl, ?_⟩
  rw [ofBits06]; exact Dec.C19GenDpd.bitsOf_ofBits _

theorem ldexp_spec (m : RoundingMode) (f : UInt32) (x : U128) (n : Int) (hn : -2147483648 ≤ n ∧ n ≤ 2147483647) :
    ∃ r, run "ldexp" m f [.d x, .i n]
        = some (.ok ([.d r], f ||| UInt32.ofNat (scalebSpec (md m) n (dOf x)).2)) ∧
      bitsOf r = encode (scalebSpec (md m) n (dOf x)).1 % 2^128 := by
  have e : (Int32.ofInt n).toInt = n := Int32.toInt_ofInt_of_le (by omega) (by omega)
  have h := Dec.C11GenScale.ldexp_spec x (Int32.ofInt n) m f
  rw [e] at h
  refine ⟨_, by rw [run_ldexp, h]; rfl, ?_⟩
  rw [ofBits06]; exact Dec.C19GenDpd.bitsOf_ofBits _

/-- C11: "n saturates rather than wraps": `scalebln` with a 64-bit count is `scaleb` with the count clamped to the
32-bit range -/
theorem scalebln_spec (m : RoundingMode) (f : UInt32) (x : U128) (n : Int)
    (hn : -9223372036854775808 ≤ n ∧ n ≤ 9223372036854775807) :
    ∃ r, run "scalebln" m f [.d x, .i n]
        = some (.ok ([.d r], f ||| UInt32.ofNat (scalebSpec (md m) (clampI32 n) (dOf x)).2)) ∧
      bitsOf r = encode (scalebSpec (md m) (clampI32 n) (dOf x)).1 % 2^128 ∧
      (n ≤ -2147483648 → clampI32 n = -2147483648) ∧ (2147483647 ≤ n → clampI32 n = 2147483647) ∧
      (-2147483648 ≤ n → n ≤ 2147483647 → clampI32 n = n) := by
  have e : (Int64.ofInt n).toInt = n := Int64.toInt_ofInt_of_le (by omega) (by omega)
  have h := Dec.C11GenScale.scalbln_spec x (Int64.ofInt n) m f
  rw [e] at h
  obtain ⟨s1, s2, s3⟩ := Dec.C11.scalbln_saturates n
  refine ⟨_, by rw [run_scalebln, h]; rfl, ?_, s1, s2, s3⟩
  rw [ofBits06]; exact Dec.C19GenDpd.bitsOf_ofBits _

/-- C11: "the same coefficient with the exponent moved by n whenever that is representable": finite non-zero `x = ±c·10^e`
with `e + n` in the exponent range — result `±c·10^(e+n)`, no flag -/
theorem scaleb_in_range (m : RoundingMode) (f : UInt32) (x : U128) (n : Int) (hn : -2147483648 ≤ n ∧ n ≤ 2147483647)
    (s : Bool) (c : Nat) (e : Int) (hd : dOf x = .fin s c e) (hc : c ≠ 0) (h1 : eMin ≤ e + n) (h2 : e + n ≤ eMax) :
    ∃ r, run "scaleb" m f [.d x, .i n] = some (.ok ([.d r], f)) ∧ bitsOf r = encode (.fin s c (e + n)) := by
  obtain ⟨r, hr, hb⟩ := scaleb_spec m f x n hn
  have wf : (Datum.fin s c e).WF := by rw [← hd]; exact decode_WF _
  have hcP : c < 10 ^ 34 := by have := wf.1; simp only [P34] at this; omega
  have key : scalebSpec (md m) n (dOf x) = (.fin s c (e + n), 0) := by
    rw [hd]
    show (if (Datum.fin s c e).isNaN then _ else scalebD (md m) n (.fin s c e)) = _
    simp only [Datum.isNaN, Bool.false_eq_true, if_false]
    rw [Dec.C11.scaleb_is_finish _ _ _ _ _ hc]
    have hnorm : Dec.C13PackHelpers.norm34 c (e + n + 6176) = (c, e + n + 6176) := by
      unfold Dec.C13PackHelpers.norm34; rw [if_neg (by omega)]
    have := Dec.C13PackHelpers.finish_in_range (md m) s c (e + n + 6176) (by omega) (by omega)
      (by rw [hnorm]; simp only [eMin] at h1; show (0 : Int) ≤ e + n + 6176; omega)
      (by rw [hnorm]; simp only [eMax] at h2; show e + n + 6176 ≤ (12287 : Int); omega)
    rw [hnorm] at this
    have e1 : e + n + 6176 - 6176 = e + n := by omega
    rw [e1] at this
    exact this
  rw [key] at hr hb
  have wf2 : (Datum.fin s c (e + n)).WF := ⟨wf.1, h1, h2⟩
  refine ⟨r, by rw [hr]; exact congrArg (fun g => some (Except.ok ([AVal.d r], g))) UInt32.or_zero, ?_⟩
  rw [hb]; exact Nat.mod_eq_of_lt (encode_lt wf2)

/-- C11: "zeros and special values keeping their identity" — an infinity is returned as it is (canonical), a zero keeps
its sign and moves its exponent (clamped), no flag -/
theorem scaleb_specials (m : RoundingMode) (f : UInt32) (x : U128) (n : Int) (hn : -2147483648 ≤ n ∧ n ≤ 2147483647) :
    (∀ s, dOf x = .inf s → ∃ r, run "scaleb" m f [.d x, .i n] = some (.ok ([.d r], f)) ∧ bitsOf r = encode (.inf s)) ∧
    (∀ s e, dOf x = .fin s 0 e → ∃ r, run "scaleb" m f [.d x, .i n] = some (.ok ([.d r], f)) ∧
      bitsOf r = encode (zeroAt s (e + n)) % 2^128) := by
  obtain ⟨r, hr, hb⟩ := scaleb_spec m f x n hn
  constructor
  · intro s hd
    have key : scalebSpec (md m) n (dOf x) = (.inf s, 0) := by rw [hd]; rfl
    rw [key] at hr hb
    refine ⟨r, by rw [hr]; exact congrArg (fun g => some (Except.ok ([AVal.d r], g))) UInt32.or_zero, ?_⟩
    rw [hb]; exact Nat.mod_eq_of_lt (encode_lt (d := .inf s) trivial)
  · intro s e hd
    have key : scalebSpec (md m) n (dOf x) = (zeroAt s (e + n), 0) := by
      rw [hd]
      show (if (Datum.fin s 0 e).isNaN then _ else scalebD (md m) n (.fin s 0 e)) = _
      simp only [Datum.isNaN, Bool.false_eq_true, if_false]
      exact (Dec.C11.scaleb_specials _ _ _ _).1
    rw [key] at hr hb
    exact ⟨r, by rw [hr]; exact congrArg (fun g => some (Except.ok ([AVal.d r], g))) UInt32.or_zero, hb⟩

/-- C11: "frexp returns a fraction in [1/10, 1) and an exponent such that fraction*10^exp reconstructs x exactly": for
finite non-zero `x = ±c·10^e` with `q` digits the fraction is `±c·10^(−q)` (canonical) and the exponent `q + e` -/
theorem frexp_spec (m : RoundingMode) (f : UInt32) (x : U128) (s : Bool) (c : Nat) (e : Int)
    (hd : dOf x = .fin s c e) (hc : c ≠ 0) :
    ∃ r, run "frexp" m f [.d x] = some (.ok ([.d r, .i ((ndigits c : Int) + e)], f)) ∧
      dOf r = .fin s c (-(ndigits c : Int)) ∧ isCanonical (bitsOf r) = true ∧
      (-(ndigits c : Int)) + ((ndigits c : Int) + e) = e := by
  obtain ⟨r, n, h1, h2, h3, h4⟩ := Dec.C09GenQuantize.frexp_finite x hd
  obtain ⟨k1, k2⟩ := Dec.C11.frexp_spec s c e hc
  rw [k1] at h2 h4
  refine ⟨r, ?_, h2, h3, k2⟩
  rw [run_frexp, h1]
  show some (Except.ok ([AVal.d r, AVal.i n.toInt], f)) = _
  rw [h4]


/-! ## C17 — `next_up`, `next_down`, `next_after`, `next_toward` -/

theorem not_snan_of_not_nan {d : Datum} (h : d.isNaN = false) : d.isSNaN = false := by
  cases d <;> simp [Datum.isNaN, Datum.isSNaN] at h ⊢

open Dec.C17GenNext in
/-- C17: "For any non-NaN x, next_up returns the least decimal128 value greater than x … and no flag raised": the result
is the canonical encoding of `Dec.nextUpD` of the decoded operand (NaN operands: the NaN rule) -/
theorem next_up_spec (m : RoundingMode) (f : UInt32) (x : U128) :
    ∃ r, run "next_up" m f [.d x] = some (.ok ([.d r], if (dOf x).isSNaN then f ||| 1 else f)) ∧
      bitsOf r = encode (if (dOf x).isNaN then quietNaN (dOf x) else nextUpD (dOf x)) ∧
      isCanonical (bitsOf r) = true ∧
      ((dOf x).isNaN = false → run "next_up" m f [.d x] = some (.ok ([.d r], f)) ∧ dOf r = nextUpD (dOf x)) := by
  have wf : (upD (dOf x)).WF := by
    unfold upD; split
    · exact quietNaN_WF (decode_WF _)
    · exact nextUpD_WF (decode_WF _)
  have hb : bitsOf (Dec.C06GenFromInt.ofBits (encode (upD (dOf x)))) = encode (upD (dOf x)) := by
    rw [ofBits06]; exact bitsOf_ofBits (encode_lt wf)
  refine ⟨_, by rw [run_next_up, nextup_spec]; rfl, hb, by rw [hb]; exact isCanonical_encode wf, ?_⟩
  intro hn
  have hs : bid128_nextup x f = .ok (Dec.C06GenFromInt.ofBits (encode (upD (dOf x))), f) := by
    rw [nextup_spec]; unfold nanFlags
    rw [show (decode (Dec.C03GenCompare.bitsOf x)).isSNaN = false from not_snan_of_not_nan hn]; rfl
  have hu : upD (dOf x) = nextUpD (dOf x) := by unfold upD; rw [if_neg (by rw [hn]; exact Bool.false_ne_true)]
  refine ⟨by rw [run_next_up, hs]; rfl, ?_⟩
  show decode (bitsOf (Dec.C06GenFromInt.ofBits (encode (upD (dOf x))))) = _
  rw [hb, decode_encode wf, hu]

open Dec.C17GenNext in
/-- C17: "next_down the greatest value less than x" (`Dec.nextDownD`, the mirror image of `nextUpD`) -/
theorem next_down_spec (m : RoundingMode) (f : UInt32) (x : U128) :
    ∃ r, run "next_down" m f [.d x] = some (.ok ([.d r], if (dOf x).isSNaN then f ||| 1 else f)) ∧
      bitsOf r = encode (if (dOf x).isNaN then quietNaN (dOf x) else nextDownD (dOf x)) ∧
      isCanonical (bitsOf r) = true ∧
      ((dOf x).isNaN = false → run "next_down" m f [.d x] = some (.ok ([.d r], f)) ∧ dOf r = nextDownD (dOf x)) := by
  have wf : (downD (dOf x)).WF := by
    unfold downD; split
    · exact quietNaN_WF (decode_WF _)
    · exact nextDownD_WF (decode_WF _)
  have hb : bitsOf (Dec.C06GenFromInt.ofBits (encode (downD (dOf x)))) = encode (downD (dOf x)) := by
    rw [ofBits06]; exact bitsOf_ofBits (encode_lt wf)
  refine ⟨_, by rw [run_next_down, nextdown_spec]; rfl, hb, by rw [hb]; exact isCanonical_encode wf, ?_⟩
  intro hn
  have hs : bid128_nextdown x f = .ok (Dec.C06GenFromInt.ofBits (encode (downD (dOf x))), f) := by
    rw [nextdown_spec]; unfold nanFlags
    rw [show (decode (Dec.C03GenCompare.bitsOf x)).isSNaN = false from not_snan_of_not_nan hn]; rfl
  have hu : downD (dOf x) = nextDownD (dOf x) := by unfold downD; rw [if_neg (by rw [hn]; exact Bool.false_ne_true)]
  refine ⟨by rw [run_next_down, hs]; rfl, ?_⟩
  show decode (bitsOf (Dec.C06GenFromInt.ofBits (encode (downD (dOf x))))) = _
  rw [hb, decode_encode wf, hu]

/-- C17: "the least decimal128 value greater than x … (in the representation with the smallest possible exponent) … no
representable value lies strictly between x and its neighbour": finite non-zero `x` whose successor is finite -/
theorem next_up_least (m : RoundingMode) (f : UInt32) (x : U128) (s : Bool) (c : Nat) (e : Int)
    (hd : dOf x = .fin s c e) (hc : c ≠ 0) :
    ∃ r, run "next_up" m f [.d x] = some (.ok ([.d r], f)) ∧
      ((∃ s' c' e', dOf r = .fin s' c' e' ∧ fval s c e < fval s' c' e' ∧
          ∀ s'' c'' e'', Representable c'' e'' → fval s c e < fval s'' c'' e'' → fval s' c' e' ≤ fval s'' c'' e'') ∨
        dOf r = .inf false) := by
  obtain ⟨r, -, -, -, h⟩ := next_up_spec m f x
  obtain ⟨h1, h2⟩ := h (by rw [hd]; rfl)
  have hrep : Representable c e := by have := decode_WF (bitsOf x); rw [show decode (bitsOf x) = _ from hd] at this; exact this
  refine ⟨r, h1, ?_⟩
  rw [h2, hd]
  rcases Dec.C17Adjacent.nextUp_representable s c e hc hrep with ⟨s', c', e', hy, -⟩ | hy
  · left
    exact ⟨s', c', e', hy, Dec.C17Adjacent.nextUp_gt s c e hc hrep s' c' e' hy,
      fun s'' c'' e'' hr hgt => Dec.C17Adjacent.nextUp_least s c e hc hrep s' c' e' hy s'' c'' e'' hr hgt⟩
  · right; exact hy

/-- C17: "with next_up(+MAX)=+Inf, next_up(-Inf)=-MAX, zero stepping to the smallest subnormal" -/
theorem next_up_boundaries (m : RoundingMode) (f : UInt32) (x : U128) :
    (dOf x = .fin false (P34 - 1) eMax → ∃ r, run "next_up" m f [.d x] = some (.ok ([.d r], f)) ∧ dOf r = .inf false) ∧
    (dOf x = .inf true → ∃ r, run "next_up" m f [.d x] = some (.ok ([.d r], f)) ∧ dOf r = .fin true (P34 - 1) eMax) ∧
    (∀ s e, dOf x = .fin s 0 e → ∃ r, run "next_up" m f [.d x] = some (.ok ([.d r], f)) ∧ dOf r = .fin false 1 eMin) := by
  obtain ⟨r, -, -, -, h⟩ := next_up_spec m f x
  obtain ⟨b1, b2, -, b4, -⟩ := Dec.C17.nextUp_boundaries false 0
  refine ⟨?_, ?_, ?_⟩
  · intro hd; obtain ⟨h1, h2⟩ := h (by rw [hd]; rfl); exact ⟨r, h1, by rw [h2, hd, b1]⟩
  · intro hd; obtain ⟨h1, h2⟩ := h (by rw [hd]; rfl); exact ⟨r, h1, by rw [h2, hd, b2]⟩
  · intro s e hd; obtain ⟨h1, h2⟩ := h (by rw [hd]; rfl)
    exact ⟨r, h1, by rw [h2, hd, (Dec.C17.nextUp_boundaries s e).2.2.2.1]⟩

/-- C17: "hence next_down(next_up(x)) equals x in value for every finite x" — the two public methods composed -/
theorem next_down_next_up (m m' : RoundingMode) (f f' : UInt32) (x : U128) (s : Bool) (c : Nat) (e : Int)
    (hd : dOf x = .fin s c e) :
    ∃ r1 r2, run "next_up" m f [.d x] = some (.ok ([.d r1], f)) ∧
      run "next_down" m' f' [.d r1] = some (.ok ([.d r2], f')) ∧
      ∃ s' c' e', dOf r2 = .fin s' c' e' ∧ fval s' c' e' = fval s c e := by
  obtain ⟨r1, -, -, -, h⟩ := next_up_spec m f x
  obtain ⟨h1, h2⟩ := h (by rw [hd]; rfl)
  obtain ⟨r2, -, -, -, k⟩ := next_down_spec m' f' r1
  have hn : (dOf r1).isNaN = false := by rw [h2]; exact Dec.C17GenNext.nextUpD_isNaN (by rw [hd]; rfl)
  obtain ⟨k1, k2⟩ := k hn
  have hrep : Representable c e := by have := decode_WF (bitsOf x); rw [show decode (bitsOf x) = _ from hd] at this; exact this
  obtain ⟨s', c', e', q1, q2⟩ := Dec.C17Adjacent.nextDown_nextUp s c e hrep
  exact ⟨r1, r2, h1, k1, s', c', e', by rw [k2, h2, hd, q1], q2⟩

open Dec.C17GenNext in
/-- C17: "next_after(x, y) and next_toward(x, y) return x's neighbour in the direction of y, x itself with y's sign when
they compare equal, raise overflow+inexact when a finite x steps to infinity and underflow+inexact when the result is
subnormal or zero" — the result and the flags of `Dec.nextAfterD` (NaN operands: the NaN rule); `next_toward` is the
same routine -/
theorem next_after_spec (m : RoundingMode) (f : UInt32) (x y : U128) :
    ∃ r, run "next_after" m f [.d x, .d y] = some (.ok ([.d r], afterFlags f (dOf x) (dOf y))) ∧
      run "next_toward" m f [.d x, .d y] = some (.ok ([.d r], afterFlags f (dOf x) (dOf y))) ∧
      bitsOf r = encode (afterD (dOf x) (dOf y)) % 2^128 ∧
      ((dOf x).isNaN = false → (dOf y).isNaN = false →
        afterD (dOf x) (dOf y) = (nextAfterD (dOf x) (dOf y)).1 ∧
        afterFlags f (dOf x) (dOf y) = f ||| UInt32.ofNat (nextAfterD (dOf x) (dOf y)).2 ∧
        (cmpD (dOf x) (dOf y) = some .lt → (nextAfterD (dOf x) (dOf y)).1 = nextUpD (dOf x)) ∧
        (cmpD (dOf x) (dOf y) = some .gt → (nextAfterD (dOf x) (dOf y)).1 = nextDownD (dOf x)) ∧
        (cmpD (dOf x) (dOf y) = some .eq → (nextAfterD (dOf x) (dOf y)).1 = (dOf x).setSign (dOf y).neg)) := by
  refine ⟨_, by rw [run_next_after, nextafter_spec]; rfl, by rw [run_next_toward, nexttoward_spec]; rfl,
    by show bitsOf (Dec.C06GenFromInt.ofBits _) = _; rw [ofBits06]; exact Dec.C19GenDpd.bitsOf_ofBits _, ?_⟩
  intro hx hy
  obtain ⟨d1, d2⟩ := Dec.C17.nextAfter_direction (dOf x) (dOf y)
  refine ⟨?_, ?_, d1, d2, Dec.C17.nextAfter_equal _ _⟩
  · unfold afterD; rw [if_neg (by rw [hx]; exact Bool.false_ne_true), if_neg (by rw [hy]; exact Bool.false_ne_true)]
  · unfold afterFlags; rw [if_neg (by rw [hx, hy]; exact Bool.false_ne_true)]

/-- C17 in the judge's terms: the outcome of each of the four methods meets `Dec.expect "next_…"`, every mode -/
theorem next_accepted (mo : Mode) (ta : Bool) (m : RoundingMode) (f : UInt32) (x y : U128) :
    (∃ r f', run "next_up" m f [.d x] = some (.ok ([.d r], f')) ∧
      Dec.C17GenNext.Accepted (expect "next_up" mo [.d (bitsOf x)] ta) r f f') ∧
    (∃ r f', run "next_down" m f [.d x] = some (.ok ([.d r], f')) ∧
      Dec.C17GenNext.Accepted (expect "next_down" mo [.d (bitsOf x)] ta) r f f') ∧
    (∃ r f', run "next_after" m f [.d x, .d y] = some (.ok ([.d r], f')) ∧
      Dec.C17GenNext.Accepted (expect "next_after" mo [.d (bitsOf x), .d (bitsOf y)] ta) r f f') ∧
    (∃ r f', run "next_toward" m f [.d x, .d y] = some (.ok ([.d r], f')) ∧
      Dec.C17GenNext.Accepted (expect "next_toward" mo [.d (bitsOf x), .d (bitsOf y)] ta) r f f') := by
  obtain ⟨r1, g1, h1, a1⟩ := Dec.C17GenNext.nextup_accepted mo ta x f
  obtain ⟨r2, g2, h2, a2⟩ := Dec.C17GenNext.nextdown_accepted mo ta x f
  obtain ⟨r3, g3, h3, a3⟩ := Dec.C17GenNext.nextafter_accepted mo ta x y f
  obtain ⟨r4, g4, h4, a4⟩ := Dec.C17GenNext.nexttoward_accepted mo ta x y f
  exact ⟨⟨r1, g1, by rw [run_next_up, h1]; rfl, a1⟩, ⟨r2, g2, by rw [run_next_down, h2]; rfl, a2⟩,
    ⟨r3, g3, by rw [run_next_after, h3]; rfl, a3⟩, ⟨r4, g4, by rw [run_next_toward, h4]; rfl, a4⟩⟩


/-! ## C12 — NaN operands of the public computational methods -/

open Dec.C12GenNaN in
/-- the unary result `(qnanU x, …)` in the rule's terms -/
theorem unary_rule (x : U128) (f : UInt32) (h : (dOf x).isNaN = true) :
    NaNRuleOK [dOf x] f (qnanU x, if (dOf x).isSNaN then f ||| 1 else f) := by
  have := rule_unary x f h
  have e : nanFlags f [decode (Dec.C06GenFromInt.bitsOf x)] = (if (dOf x).isSNaN then f ||| 1 else f) := by
    unfold nanFlags
    simp only [List.any_cons, List.any_nil, Bool.or_false]
    rfl
  rw [e] at this; exact this

open Dec.C12GenNaN in
/-- `bid128_div` runs `bid128_div_clear_status` from a clear status word and ORs what it raised into the caller's word -/
theorem div_nan_full (x y : U128) (m : RoundingMode) (f : UInt32)
    (h : ((dOf x).isNaN || (dOf y).isNaN) = true) :
    bid128_div x y m f = .ok (pick2 x y, nanFlags f [dOf x, dOf y]) := by
  unfold bid128_div
  simp only [bind, Except.bind, pure, Except.pure, c_StatusFlags_BID_EXACT_STATUS]
  rw [div_nan x y m 0 h]
  simp only []
  have e : f ||| nanFlags 0 [decode (Dec.C06GenFromInt.bitsOf x), decode (Dec.C06GenFromInt.bitsOf y)]
      = nanFlags f [dOf x, dOf y] := by
    unfold nanFlags
    split
    · rename_i h1
      have h1' : [dOf x, dOf y].any Datum.isSNaN = true := h1
      rw [if_pos h1']; show f ||| (0 ||| 1) = f ||| 1; rw [UInt32.zero_or]
    · rename_i h1
      have h1' : ¬ [dOf x, dOf y].any Datum.isSNaN = true := h1
      rw [if_neg h1']; exact UInt32.or_zero
  rw [e]

open Dec.C12GenNaN in
/-- C12: "Every computational operation given at least one NaN operand returns a canonical quiet NaN whose sign and payload
are those of one of its NaN operands (payloads at or above 10^33 and reserved bits read as zero), raises invalid if and only
if some operand is a signaling NaN, and raises nothing else" — the binary public methods (`NaNRuleOK ds f (r, g)`:
`bitsOf r` is `encode (quietNaN n)` for a NaN operand `n`, and `g = f ||| invalid-iff-some-sNaN`).  The first operand's NaN
is the one propagated when both are NaNs (`pick2`). -/
theorem binary_nan (m : RoundingMode) (f : UInt32) (x y : U128) (h : ((dOf x).isNaN || (dOf y).isNaN) = true) :
    ∃ r g, NaNRuleOK [dOf x, dOf y] f (r, g) ∧
      run "addition" m f [.d x, .d y] = some (.ok ([.d r], g)) ∧
      run "subtraction" m f [.d x, .d y] = some (.ok ([.d r], g)) ∧
      run "multiplication" m f [.d x, .d y] = some (.ok ([.d r], g)) ∧
      run "division" m f [.d x, .d y] = some (.ok ([.d r], g)) ∧
      run "remainder" m f [.d x, .d y] = some (.ok ([.d r], g)) ∧
      run "fmod" m f [.d x, .d y] = some (.ok ([.d r], g)) ∧
      run "quantize" m f [.d x, .d y] = some (.ok ([.d r], g)) ∧
      run "next_after" m f [.d x, .d y] = some (.ok ([.d r], g)) ∧
      run "next_toward" m f [.d x, .d y] = some (.ok ([.d r], g)) := by
  refine ⟨pick2 x y, nanFlags f [dOf x, dOf y], rule_binary x y f h, ?_, ?_, ?_, ?_, ?_, ?_, ?_, ?_, ?_⟩
  · rw [run_addition, add_nan x y m f h]; rfl
  · rw [run_subtraction, sub_nan x y m f h]; rfl
  · rw [run_multiplication, mul_nan x y m f h]; rfl
  · rw [run_division, div_nan_full x y m f h]; rfl
  · rw [run_remainder, rem_nan x y f h]; rfl
  · rw [run_fmod, fmod_nan x y f h]; rfl
  · rw [run_quantize, quantize_nan x y m f h]; rfl
  · rw [run_next_after, nextafter_nan x y f h]; rfl
  · rw [run_next_toward, Dec.C06GenFromInt.nexttoward_eq, nextafter_nan x y f h]; rfl

open Dec.C12GenNaN in
/-- C12, the unary public methods: square root, the seven round-to-integral forms, `next_up`, `next_down`, `logb` -/
theorem unary_nan (m : RoundingMode) (f : UInt32) (x : U128) (h : (dOf x).isNaN = true) :
    ∃ r g, NaNRuleOK [dOf x] f (r, g) ∧
      run "square_root" m f [.d x] = some (.ok ([.d r], g)) ∧
      run "nearbyint" m f [.d x] = some (.ok ([.d r], g)) ∧
      run "round_to_integral_exact" m f [.d x] = some (.ok ([.d r], g)) ∧
      run "round_to_integral_ties_to_even" m f [.d x] = some (.ok ([.d r], g)) ∧
      run "round_to_integral_ties_to_away" m f [.d x] = some (.ok ([.d r], g)) ∧
      run "round_to_integral_ties_toward_negative" m f [.d x] = some (.ok ([.d r], g)) ∧
      run "round_to_integral_ties_toward_positive" m f [.d x] = some (.ok ([.d r], g)) ∧
      run "round_to_integral_ties_toward_zero" m f [.d x] = some (.ok ([.d r], g)) ∧
      run "next_up" m f [.d x] = some (.ok ([.d r], g)) ∧
      run "next_down" m f [.d x] = some (.ok ([.d r], g)) ∧
      run "logb" m f [.d x] = some (.ok ([.d r], g)) := by
  refine ⟨qnanU x, _, unary_rule x f h, ?_, ?_, ?_, ?_, ?_, ?_, ?_, ?_, ?_, ?_, ?_⟩
  · rw [run_square_root, sqrt_nan x m f h]; rfl
  · rw [run_nearbyint, nearbyint_nan x m f h]; rfl
  · rw [run_round_to_integral_exact, round_integral_exact_nan x m f h]; rfl
  · rw [run_round_to_integral_ties_to_even, round_integral_nearest_even_nan x f h]; rfl
  · rw [run_round_to_integral_ties_to_away, round_integral_nearest_away_nan x f h]; rfl
  · rw [run_round_to_integral_ties_toward_negative, round_integral_negative_nan x f h]; rfl
  · rw [run_round_to_integral_ties_toward_positive, round_integral_positive_nan x f h]; rfl
  · rw [run_round_to_integral_ties_toward_zero, round_integral_zero_nan x f h]; rfl
  · rw [run_next_up, nextup_nan x f h]; rfl
  · rw [run_next_down, nextdown_nan x f h]; rfl
  · rw [run_logb, logb_nan x f h]; rfl

open Dec.C12GenNaN in
/-- C12, fused multiply-add: the NaN of `y` is propagated if `y` is a NaN, else `z`'s, else `x`'s (`fmaPick`) -/
theorem fma_nan (m : RoundingMode) (f : UInt32) (x y z : U128)
    (h : ((dOf x).isNaN || (dOf y).isNaN || (dOf z).isNaN) = true) :
    ∃ r g, NaNRuleOK [dOf x, dOf y, dOf z] f (r, g) ∧
      run "fused_multiply_add" m f [.d x, .d y, .d z] = some (.ok ([.d r], g)) := by
  refine ⟨fmaPick x y z, _, rule_ternary x y z f h, ?_⟩
  rw [run_fused_multiply_add, Dec.C12GenNaN.fma_nan x y z m f h]; rfl

/-! ## C06 — the four C-style conversions are the named `i64` conversions -/

/-- C06: "lrint/llrint/lround/llround return exactly the integer obtained by rounding the operand's exact value in the named
direction": `lround` and `llround` ARE `convert_to_i64_ties_to_away`; `lrint` and `llrint` ARE the inexact-signalling
`convert_to_i64_exact_…` of the current rounding mode (so what is proved about those conversions holds for these) -/
theorem c_style_conversions (m : RoundingMode) (f : UInt32) (x : U128) :
    run "lround" m f [.d x] = run "convert_to_i64_ties_to_away" m f [.d x] ∧
    run "llround" m f [.d x] = run "convert_to_i64_ties_to_away" m f [.d x] ∧
    run "llrint" m f [.d x] = run "lrint" m f [.d x] ∧
    run "lrint" m f [.d x] = (match m with
      | .NearestEven => run "convert_to_i64_exact_ties_to_even" m f [.d x]
      | .NearestAway => run "convert_to_i64_exact_ties_to_away" m f [.d x]
      | .Downward => run "convert_to_i64_exact_toward_negative" m f [.d x]
      | .Upward => run "convert_to_i64_exact_toward_positive" m f [.d x]
      | .TowardZero => run "convert_to_i64_exact_toward_zero" m f [.d x]) := by
  refine ⟨?_, ?_, ?_, ?_⟩
  · rw [run_lround, run_convert_to_i64_ties_to_away, Dec.C06GenFromInt.lround_eq]
  · rw [run_llround, run_convert_to_i64_ties_to_away, Dec.C06GenFromInt.llround_eq]
  · rw [run_llrint, run_lrint, Dec.C06GenFromInt.llrint_eq, Dec.C06GenFromInt.lrint_eq]
  · rw [run_lrint, Dec.C06GenFromInt.lrint_eq]
    cases m
    · exact (run_convert_to_i64_exact_ties_to_even _ f x).symm
    · exact (run_convert_to_i64_exact_toward_negative _ f x).symm
    · exact (run_convert_to_i64_exact_toward_positive _ f x).symm
    · exact (run_convert_to_i64_exact_toward_zero _ f x).symm
    · exact (run_convert_to_i64_exact_ties_to_away _ f x).symm


/-! ## C14 / C15 — the status word is only OR-ed into, and no method panics

For every method whose routine has a complete specification theorem: for all operands and modes there are a result `v`
and a set of raised bits, both independent of the status word on entry, such that the call returns normally with `v` and
the entry word or-ed with exactly those bits. -/

theorem frame0 {g : UInt32 → Option (Except String (List AVal × UInt32))} {v : List AVal}
    (h : ∀ f, g f = some (.ok (v, f))) : ∃ v raised, ∀ f, g f = some (.ok (v, f ||| raised)) :=
  ⟨v, 0, fun f => by rw [h f, UInt32.or_zero]⟩

theorem frameIf {g : UInt32 → Option (Except String (List AVal × UInt32))} {v : List AVal} {b : Bool}
    (h : ∀ f, g f = some (.ok (v, if b then f ||| 1 else f))) : ∃ v raised, ∀ f, g f = some (.ok (v, f ||| raised)) :=
  ⟨v, if b then 1 else 0, fun f => by rw [h f]; cases b <;> simp only [Bool.false_eq_true, if_true, if_false, UInt32.or_zero]⟩

theorem afterFlags_frame (f : UInt32) (dx dy : Datum) :
    Dec.C17GenNext.afterFlags f dx dy = f ||| (if dx.isNaN || dy.isNaN then (if dx.isSNaN || dy.isSNaN then 1 else 0)
      else UInt32.ofNat (nextAfterD dx dy).2) := by
  unfold Dec.C17GenNext.afterFlags
  split
  · split
    · rfl
    · rw [UInt32.or_zero]
  · rfl

/-- C14: "Every flag-taking operation only ORs bits into the caller's status word … The returned value and the set of newly
raised bits are the same whatever the status word contained on entry"; C15: "returns normally for every possible argument" —
the two-operand methods with complete specifications -/
theorem frame_binary (op : String) (hop : op ∈ ["compare_quiet_equal", "compare_quiet_greater", "compare_quiet_unordered", "compare_quiet_ordered", "compare_quiet_greater_equal", "compare_quiet_greater_unordered", "compare_quiet_less", "compare_quiet_less_equal", "compare_quiet_less_unordered", "compare_quiet_not_equal", "compare_quiet_not_greater", "compare_quiet_not_less", "compare_signaling_greater", "compare_signaling_greater_equal", "compare_signaling_greater_unordered", "compare_signaling_less", "compare_signaling_less_equal", "compare_signaling_less_unordered", "compare_signaling_not_greater", "compare_signaling_not_less", "total_order", "total_order_mag", "same_quantum", "eq", "ne", "lt", "le", "gt", "ge", "partial_cmp", "min_num", "max_num", "min_num_mag", "max_num_mag", "next_after", "next_toward"])
    (m : RoundingMode) (x y : U128) :
    ∃ v raised, ∀ f, run op m f [.d x, .d y] = some (.ok (v, f ||| raised)) := by
  simp only [List.mem_cons, List.not_mem_nil, or_false] at hop
  rcases hop with rfl | rfl | rfl | rfl | rfl | rfl | rfl | rfl | rfl | rfl | rfl | rfl | rfl | rfl | rfl | rfl | rfl | rfl | rfl | rfl | rfl | rfl | rfl | rfl | rfl | rfl | rfl | rfl | rfl | rfl | rfl | rfl | rfl | rfl | rfl | rfl
  · obtain ⟨b, -, t⟩ := compare_quiet_equal_spec m 0 x y
    refine ⟨[.b b], UInt32.ofNat (quietCmpFlags (dOf x) (dOf y)), fun f => ?_⟩
    obtain ⟨b', h', t'⟩ := compare_quiet_equal_spec m f x y
    have e : b' = b := Option.some.inj (t'.symm.trans t)
    subst e; exact h' 
  · obtain ⟨b, -, t⟩ := compare_quiet_greater_spec m 0 x y
    refine ⟨[.b b], UInt32.ofNat (quietCmpFlags (dOf x) (dOf y)), fun f => ?_⟩
    obtain ⟨b', h', t'⟩ := compare_quiet_greater_spec m f x y
    have e : b' = b := Option.some.inj (t'.symm.trans t)
    subst e; exact h' 
  · obtain ⟨b, -, t⟩ := compare_quiet_unordered_spec m 0 x y
    refine ⟨[.b b], UInt32.ofNat (quietCmpFlags (dOf x) (dOf y)), fun f => ?_⟩
    obtain ⟨b', h', t'⟩ := compare_quiet_unordered_spec m f x y
    have e : b' = b := Option.some.inj (t'.symm.trans t)
    subst e; exact h' 
  · obtain ⟨b, -, t⟩ := compare_quiet_ordered_spec m 0 x y
    refine ⟨[.b b], UInt32.ofNat (quietCmpFlags (dOf x) (dOf y)), fun f => ?_⟩
    obtain ⟨b', h', t'⟩ := compare_quiet_ordered_spec m f x y
    have e : b' = b := Option.some.inj (t'.symm.trans t)
    subst e; exact h' 
  · obtain ⟨b, -, t⟩ := compare_quiet_greater_equal_spec m 0 x y
    refine ⟨[.b b], UInt32.ofNat (quietCmpFlags (dOf x) (dOf y)), fun f => ?_⟩
    obtain ⟨b', h', t'⟩ := compare_quiet_greater_equal_spec m f x y
    have e : b' = b := Option.some.inj (t'.symm.trans t)
    subst e; exact h' 
  · obtain ⟨b, -, t⟩ := compare_quiet_greater_unordered_spec m 0 x y
    refine ⟨[.b b], UInt32.ofNat (quietCmpFlags (dOf x) (dOf y)), fun f => ?_⟩
    obtain ⟨b', h', t'⟩ := compare_quiet_greater_unordered_spec m f x y
    have e : b' = b := Option.some.inj (t'.symm.trans t)
    subst e; exact h' 
  · obtain ⟨b, -, t⟩ := compare_quiet_less_spec m 0 x y
    refine ⟨[.b b], UInt32.ofNat (quietCmpFlags (dOf x) (dOf y)), fun f => ?_⟩
    obtain ⟨b', h', t'⟩ := compare_quiet_less_spec m f x y
    have e : b' = b := Option.some.inj (t'.symm.trans t)
    subst e; exact h' 
  · obtain ⟨b, -, t⟩ := compare_quiet_less_equal_spec m 0 x y
    refine ⟨[.b b], UInt32.ofNat (quietCmpFlags (dOf x) (dOf y)), fun f => ?_⟩
    obtain ⟨b', h', t'⟩ := compare_quiet_less_equal_spec m f x y
    have e : b' = b := Option.some.inj (t'.symm.trans t)
    subst e; exact h' 
  · obtain ⟨b, -, t⟩ := compare_quiet_less_unordered_spec m 0 x y
    refine ⟨[.b b], UInt32.ofNat (quietCmpFlags (dOf x) (dOf y)), fun f => ?_⟩
    obtain ⟨b', h', t'⟩ := compare_quiet_less_unordered_spec m f x y
    have e : b' = b := Option.some.inj (t'.symm.trans t)
    subst e; exact h' 
  · obtain ⟨b, -, t⟩ := compare_quiet_not_equal_spec m 0 x y
    refine ⟨[.b b], UInt32.ofNat (quietCmpFlags (dOf x) (dOf y)), fun f => ?_⟩
    obtain ⟨b', h', t'⟩ := compare_quiet_not_equal_spec m f x y
    have e : b' = b := Option.some.inj (t'.symm.trans t)
    subst e; exact h' 
  · obtain ⟨b, -, t⟩ := compare_quiet_not_greater_spec m 0 x y
    refine ⟨[.b b], UInt32.ofNat (quietCmpFlags (dOf x) (dOf y)), fun f => ?_⟩
    obtain ⟨b', h', t'⟩ := compare_quiet_not_greater_spec m f x y
    have e : b' = b := Option.some.inj (t'.symm.trans t)
    subst e; exact h' 
  · obtain ⟨b, -, t⟩ := compare_quiet_not_less_spec m 0 x y
    refine ⟨[.b b], UInt32.ofNat (quietCmpFlags (dOf x) (dOf y)), fun f => ?_⟩
    obtain ⟨b', h', t'⟩ := compare_quiet_not_less_spec m f x y
    have e : b' = b := Option.some.inj (t'.symm.trans t)
    subst e; exact h' 
  · obtain ⟨b, -, t⟩ := compare_signaling_greater_spec m 0 x y
    refine ⟨[.b b], UInt32.ofNat (signalingCmpFlags (dOf x) (dOf y)), fun f => ?_⟩
    obtain ⟨b', h', t'⟩ := compare_signaling_greater_spec m f x y
    have e : b' = b := Option.some.inj (t'.symm.trans t)
    subst e; exact h' 
  · obtain ⟨b, -, t⟩ := compare_signaling_greater_equal_spec m 0 x y
    refine ⟨[.b b], UInt32.ofNat (signalingCmpFlags (dOf x) (dOf y)), fun f => ?_⟩
    obtain ⟨b', h', t'⟩ := compare_signaling_greater_equal_spec m f x y
    have e : b' = b := Option.some.inj (t'.symm.trans t)
    subst e; exact h' 
  · obtain ⟨b, -, t⟩ := compare_signaling_greater_unordered_spec m 0 x y
    refine ⟨[.b b], UInt32.ofNat (signalingCmpFlags (dOf x) (dOf y)), fun f => ?_⟩
    obtain ⟨b', h', t'⟩ := compare_signaling_greater_unordered_spec m f x y
    have e : b' = b := Option.some.inj (t'.symm.trans t)
    subst e; exact h' 
  · obtain ⟨b, -, t⟩ := compare_signaling_less_spec m 0 x y
    refine ⟨[.b b], UInt32.ofNat (signalingCmpFlags (dOf x) (dOf y)), fun f => ?_⟩
    obtain ⟨b', h', t'⟩ := compare_signaling_less_spec m f x y
    have e : b' = b := Option.some.inj (t'.symm.trans t)
    subst e; exact h' 
  · obtain ⟨b, -, t⟩ := compare_signaling_less_equal_spec m 0 x y
    refine ⟨[.b b], UInt32.ofNat (signalingCmpFlags (dOf x) (dOf y)), fun f => ?_⟩
    obtain ⟨b', h', t'⟩ := compare_signaling_less_equal_spec m f x y
    have e : b' = b := Option.some.inj (t'.symm.trans t)
    subst e; exact h' 
  · obtain ⟨b, -, t⟩ := compare_signaling_less_unordered_spec m 0 x y
    refine ⟨[.b b], UInt32.ofNat (signalingCmpFlags (dOf x) (dOf y)), fun f => ?_⟩
    obtain ⟨b', h', t'⟩ := compare_signaling_less_unordered_spec m f x y
    have e : b' = b := Option.some.inj (t'.symm.trans t)
    subst e; exact h' 
  · obtain ⟨b, -, t⟩ := compare_signaling_not_greater_spec m 0 x y
    refine ⟨[.b b], UInt32.ofNat (signalingCmpFlags (dOf x) (dOf y)), fun f => ?_⟩
    obtain ⟨b', h', t'⟩ := compare_signaling_not_greater_spec m f x y
    have e : b' = b := Option.some.inj (t'.symm.trans t)
    subst e; exact h' 
  · obtain ⟨b, -, t⟩ := compare_signaling_not_less_spec m 0 x y
    refine ⟨[.b b], UInt32.ofNat (signalingCmpFlags (dOf x) (dOf y)), fun f => ?_⟩
    obtain ⟨b', h', t'⟩ := compare_signaling_not_less_spec m f x y
    have e : b' = b := Option.some.inj (t'.symm.trans t)
    subst e; exact h' 
  · exact frame0 (fun f => total_order_spec m f x y)
  · exact frame0 (fun f => total_order_mag_spec m f x y)
  · exact frame0 (fun f => same_quantum_spec m f x y)
  · exact frame0 (fun f => eq_spec m f x y)
  · exact frame0 (fun f => ne_spec m f x y)
  · exact frame0 (fun f => lt_spec m f x y)
  · exact frame0 (fun f => le_spec m f x y)
  · exact frame0 (fun f => gt_spec m f x y)
  · exact frame0 (fun f => ge_spec m f x y)
  · exact frame0 (fun f => partial_cmp_spec m f x y)
  · exact ⟨_, _, fun f => min_num_spec m f x y⟩
  · exact ⟨_, _, fun f => max_num_spec m f x y⟩
  · exact ⟨_, _, fun f => min_num_mag_spec m f x y⟩
  · exact ⟨_, _, fun f => max_num_mag_spec m f x y⟩
  · exact ⟨_, _, fun f => by
      rw [run_next_after, Dec.C17GenNext.nextafter_spec, map_ok, afterFlags_frame]⟩
  · exact ⟨_, _, fun f => by
      rw [run_next_toward, Dec.C17GenNext.nexttoward_spec, map_ok, afterFlags_frame]⟩

/-- C14 / C15, the one-operand methods with complete specifications -/
theorem frame_unary (op : String) (hop : op ∈ ["encode_decimal", "decode_decimal", "abs", "negate", "class", "is_nan",
      "is_signaling", "is_infinite", "is_finite", "is_zero", "is_normal", "is_subnormal", "is_sign_minus", "quantum",
      "quantexp", "llquantexp", "next_up", "next_down", "frexp", "hash"])
    (m : RoundingMode) (x : U128) :
    ∃ v raised, ∀ f, run op m f [.d x] = some (.ok (v, f ||| raised)) := by
  simp only [List.mem_cons, List.not_mem_nil, or_false] at hop
  rcases hop with rfl | rfl | rfl | rfl | rfl | rfl | rfl | rfl | rfl | rfl | rfl | rfl | rfl | rfl | rfl | rfl | rfl |
    rfl | rfl | rfl
  · exact frame0 (fun f => encode_decimal_spec m f x)
  · exact frame0 (fun f => decode_decimal_spec m f x)
  · exact frame0 (fun f => by rw [run_abs, Dec.C13GenNoncomp.abs_spec]; rfl)
  · exact frame0 (fun f => by rw [run_negate, Dec.C13GenNoncomp.negate_spec]; rfl)
  · exact frame0 (fun f => (predicates_spec m f x).2.2.2.2.2.2.2.2)
  · exact frame0 (fun f => (predicates_spec m f x).1)
  · exact frame0 (fun f => (predicates_spec m f x).2.1)
  · exact frame0 (fun f => (predicates_spec m f x).2.2.1)
  · exact frame0 (fun f => (predicates_spec m f x).2.2.2.1)
  · exact frame0 (fun f => (predicates_spec m f x).2.2.2.2.1)
  · exact frame0 (fun f => (predicates_spec m f x).2.2.2.2.2.1)
  · exact frame0 (fun f => (predicates_spec m f x).2.2.2.2.2.2.1)
  · exact frame0 (fun f => (predicates_spec m f x).2.2.2.2.2.2.2.1)
  · exact frame0 (fun f => by rw [run_quantum, Dec.C06GenFromInt.quantum_spec]; rfl)
  · cases hd : dOf x with
    | fin s c e => exact frame0 (fun f => (quantexp_spec m f x).1 s c e hd)
    | inf s => exact ⟨_, _, fun f => (quantexp_spec m f x).2 (by rw [hd]; rfl)⟩
    | nan s g p => exact ⟨_, _, fun f => (quantexp_spec m f x).2 (by rw [hd]; rfl)⟩
  · cases hd : dOf x with
    | fin s c e => exact frame0 (fun f => (llquantexp_spec m f x).1 s c e hd)
    | inf s => exact ⟨_, _, fun f => (llquantexp_spec m f x).2 (by rw [hd]; rfl)⟩
    | nan s g p => exact ⟨_, _, fun f => (llquantexp_spec m f x).2 (by rw [hd]; rfl)⟩
  · exact frameIf (b := (dOf x).isSNaN) (fun f => by rw [run_next_up, Dec.C17GenNext.nextup_spec]; rfl)
  · exact frameIf (b := (dOf x).isSNaN) (fun f => by rw [run_next_down, Dec.C17GenNext.nextdown_spec]; rfl)
  · exact frame0 (fun f => by rw [run_frexp, Dec.C09GenQuantize.frexp_spec]; rfl)
  · exact frame0 (fun f => by rw [run_hash, Dec.C20GenGlue.d128_hash_spec]; rfl)

/-- C14 / C15, `scaleb` / `ldexp` (the count is taken as an `i32`) and `scalebln` (as an `i64`) -/
theorem frame_scale (m : RoundingMode) (x : U128) (n : Int) :
    (∃ v raised, ∀ f, run "scaleb" m f [.d x, .i n] = some (.ok (v, f ||| raised))) ∧
    (∃ v raised, ∀ f, run "ldexp" m f [.d x, .i n] = some (.ok (v, f ||| raised))) ∧
    (∃ v raised, ∀ f, run "scalebln" m f [.d x, .i n] = some (.ok (v, f ||| raised))) := by
  refine ⟨⟨[.d (Dec.C06GenFromInt.ofBits (encode (scalebSpec (md m) (Int32.ofInt n).toInt (dOf x)).1))],
      UInt32.ofNat (scalebSpec (md m) (Int32.ofInt n).toInt (dOf x)).2, fun f => ?_⟩,
    ⟨[.d (Dec.C06GenFromInt.ofBits (encode (scalebSpec (md m) (Int32.ofInt n).toInt (dOf x)).1))],
      UInt32.ofNat (scalebSpec (md m) (Int32.ofInt n).toInt (dOf x)).2, fun f => ?_⟩,
    ⟨[.d (Dec.C06GenFromInt.ofBits (encode (scalebSpec (md m) (clampI32 (Int64.ofInt n).toInt) (dOf x)).1))],
      UInt32.ofNat (scalebSpec (md m) (clampI32 (Int64.ofInt n).toInt) (dOf x)).2, fun f => ?_⟩⟩
  · rw [run_scaleb, Dec.C11GenScale.scalbn_spec]; rfl
  · rw [run_ldexp, Dec.C11GenScale.ldexp_spec]; rfl
  · rw [run_scalebln, Dec.C11GenScale.scalbln_spec]; rfl


/-! ## Non-vacuity: the theorems instantiated on concrete operands -/

-- 0.9 < 1 (coefficient 9, exponent −1 against coefficient 1, exponent 0): `less` answers true, nothing is raised
example : run "compare_quiet_less" .NearestEven 0 [.d ⟨9, 0x303e000000000000⟩, .d ⟨1, 0x3040000000000000⟩]
    = some (.ok ([.b true], 0)) := by
  obtain ⟨b, h, t⟩ := compare_quiet_less_spec .NearestEven 0 ⟨9, 0x303e000000000000⟩ ⟨1, 0x3040000000000000⟩
  have e : predTable "less" (cmpD (dOf ⟨9, 0x303e000000000000⟩) (dOf ⟨1, 0x3040000000000000⟩)) = some true := by
    decide +kernel
  have : b = true := Option.some.inj (t.symm.trans e)
  subst this
  rw [h, show (0 : UInt32) ||| UInt32.ofNat (quietCmpFlags (dOf ⟨9, 0x303e000000000000⟩) (dOf ⟨1, 0x3040000000000000⟩)) = 0
    from by decide +kernel]
-- 1E+1 and 10E+0 have the same value: `min_num` returns 1E+1, `max_num` 10E+0, no flag
example : run "min_num" .NearestEven 0 [.d ⟨1, 0x3042000000000000⟩, .d ⟨10, 0x3040000000000000⟩]
    = some (.ok ([.d ⟨1, 0x3042000000000000⟩], 0)) := by
  rw [min_num_spec,
    show ofBits (encode (Dec.C16GenMinMax.selBy Dec.C16GenMinMax.minFirst (dOf ⟨1, 0x3042000000000000⟩)
      (dOf ⟨10, 0x3040000000000000⟩))) = ⟨1, 0x3042000000000000⟩ from by decide +kernel,
    show (0 : UInt32) ||| UInt32.ofNat (quietCmpFlags (dOf ⟨1, 0x3042000000000000⟩) (dOf ⟨10, 0x3040000000000000⟩)) = 0
      from by decide +kernel]
-- the non-canonical pattern 0x6c00…05 (large-coefficient form) is a positive zero for `class` and `is_zero`
example : run "class" .NearestEven 3 [.d ⟨5, 0x6c00000000000000⟩] = some (.ok ([.c .PositiveZero], 3)) := by
  rw [(predicates_spec .NearestEven 3 ⟨5, 0x6c00000000000000⟩).2.2.2.2.2.2.2.2,
    show Dec.C13GenNoncomp.classType (dOf ⟨5, 0x6c00000000000000⟩) = .PositiveZero from by decide +kernel]
-- quantexp of 123E+1 is 1; of −Inf it is i32::MIN with invalid
example : run "quantexp" .NearestEven 4 [.d ⟨123, 0x3042000000000000⟩] = some (.ok ([.i 1], 4)) :=
  (quantexp_spec .NearestEven 4 ⟨123, 0x3042000000000000⟩).1 false 123 1 (by decide +kernel)
example : run "quantexp" .NearestEven 4 [.d ⟨0, 0xf800000000000000⟩] = some (.ok ([.i (-2147483648)], 4 ||| 1)) :=
  (quantexp_spec .NearestEven 4 ⟨0, 0xf800000000000000⟩).2 (by decide +kernel)
-- scaleb(123E+1, 5) = 123E+6
example : ∃ r, run "scaleb" .Upward 0 [.d ⟨123, 0x3042000000000000⟩, .i 5] = some (.ok ([.d r], 0)) ∧
    bitsOf r = encode (.fin false 123 (1 + 5)) :=
  scaleb_in_range .Upward 0 ⟨123, 0x3042000000000000⟩ 5 (by decide) false 123 1 (by decide +kernel) (by decide)
    (by decide) (by decide)
-- next_up(+MAX) = +Inf; a signalling NaN operand of `addition` comes back quieted, with invalid
example : ∃ r, run "next_up" .NearestEven 0 [.d ⟨0x378D8E63FFFFFFFF, 0x5FFFED09BEAD87C0⟩] = some (.ok ([.d r], 0)) ∧
    dOf r = .inf false :=
  (next_up_boundaries .NearestEven 0 ⟨0x378D8E63FFFFFFFF, 0x5FFFED09BEAD87C0⟩).1 (by decide +kernel)
example : ∃ r g, Dec.C12GenNaN.NaNRuleOK [dOf ⟨7, 0xfe00000000000000⟩, dOf ⟨1, 0x3040000000000000⟩] 0 (r, g) ∧
    run "addition" .NearestEven 0 [.d ⟨7, 0xfe00000000000000⟩, .d ⟨1, 0x3040000000000000⟩] = some (.ok ([.d r], g)) := by
  obtain ⟨r, g, h, h1, -⟩ := binary_nan .NearestEven 0 ⟨7, 0xfe00000000000000⟩ ⟨1, 0x3040000000000000⟩ (by decide +kernel)
  exact ⟨r, g, h, h1⟩

end Dec.SourceLevel
