/-
  C06Q — decimal → integer conversion returns the exact value `fval s c e` rounded to an integer in
  the named direction (floor / ceiling / truncation / nearest-even / nearest-away), reports exactness
  correctly, and is range-checked.  Statements over ℚ with Mathlib's `⌊·⌋`, `⌈·⌉`.
-/
import DecProofs.Core.RoundQ
import DecProofs.Properties.C06

namespace Dec.C06Q

/-- **Main statement, all five directions.**  For every sign, coefficient and exponent (positive,
zero or negative), the integer returned by `roundToInt` is the exact value `(-1)^s·c·10^e` rounded
to an integer in the named direction (`RoundedZ`: floor for `rdn`, ceiling for `rup`, truncation for
`rtz`, nearest with ties-to-even for `rne`, nearest with ties-away for `rna`). -/
theorem roundToInt_rounded (mode : Mode) (s : Bool) (c : Nat) (e : Int) :
    RoundedZ mode (fval s c e) (roundToInt mode s c e).1 := by
  by_cases h : 0 ≤ e
  · rw [(C06.roundToInt_spec mode s c e).1 h, fval_of_nonneg s c e h]
    exact RoundedZ_intCast mode _
  · have h' : e < 0 := by omega
    rw [(C06.roundToInt_spec mode s c e).2 h', fval_of_neg s c e (by omega)]
    have hD : 0 < 10 ^ (-e).toNat := pow10_pos _
    have hd : (0 : ℚ) < ((10 ^ (-e).toNat : Nat) : ℚ) := by exact_mod_cast hD
    exact (roundInt_divmod_RoundedTo mode s c _ hD).toRoundedZ (by positivity)

/-- toward-negative conversion is the floor of the exact value -/
theorem roundToInt_rdn_floor (s : Bool) (c : Nat) (e : Int) :
    (roundToInt .rdn s c e).1 = ⌊fval s c e⌋ := roundToInt_rounded .rdn s c e

/-- toward-positive conversion is the ceiling of the exact value -/
theorem roundToInt_rup_ceil (s : Bool) (c : Nat) (e : Int) :
    (roundToInt .rup s c e).1 = ⌈fval s c e⌉ := roundToInt_rounded .rup s c e

/-- toward-zero conversion is truncation: floor for non-negative values, ceiling for negative ones -/
theorem roundToInt_rtz_trunc (s : Bool) (c : Nat) (e : Int) :
    (roundToInt .rtz s c e).1 = if 0 ≤ fval s c e then ⌊fval s c e⌋ else ⌈fval s c e⌉ :=
  roundToInt_rounded .rtz s c e

/-- toward-zero conversion, magnitude form: `|result| = ⌊|value|⌋` -/
theorem roundToInt_rtz_natAbs (s : Bool) (c : Nat) (e : Int) :
    ((roundToInt .rtz s c e).1.natAbs : Int) = ⌊|fval s c e|⌋ := by
  have h := roundToInt_rtz_trunc s c e
  rw [h]
  by_cases h0 : 0 ≤ fval s c e
  · rw [if_pos h0, abs_of_nonneg h0]
    have : 0 ≤ ⌊fval s c e⌋ := Int.floor_nonneg.2 h0
    omega
  · rw [if_neg h0]
    have hneg : fval s c e ≤ 0 := by linarith [not_le.1 h0]
    rw [abs_of_nonpos hneg, Int.floor_neg]
    have : ⌈fval s c e⌉ ≤ 0 := Int.ceil_le.2 (by exact_mod_cast hneg)
    omega

/-- nearest-even conversion: within one half of the exact value; even when exactly half-way -/
theorem roundToInt_rne_nearest (s : Bool) (c : Nat) (e : Int) :
    |fval s c e - (roundToInt .rne s c e).1| ≤ 1 / 2 ∧
    (|fval s c e - (roundToInt .rne s c e).1| = 1 / 2 → (roundToInt .rne s c e).1 % 2 = 0) :=
  roundToInt_rounded .rne s c e

/-- nearest-away conversion: within one half of the exact value; the candidate of larger magnitude
when exactly half-way -/
theorem roundToInt_rna_nearest (s : Bool) (c : Nat) (e : Int) :
    |fval s c e - (roundToInt .rna s c e).1| ≤ 1 / 2 ∧
    (|fval s c e - (roundToInt .rna s c e).1| = 1 / 2 →
      |fval s c e| ≤ |(((roundToInt .rna s c e).1 : Int) : ℚ)|) :=
  roundToInt_rounded .rna s c e

/-- the result is characterised by the value alone: any integer that is the named rounding of the
exact value is the one returned -/
theorem roundToInt_unique (mode : Mode) (s : Bool) (c : Nat) (e : Int) (n : Int)
    (hn : RoundedZ mode (fval s c e) n) : (roundToInt mode s c e).1 = n :=
  RoundedZ_unique mode _ _ _ (roundToInt_rounded mode s c e) hn

/-- the "exact" component is true iff the operand's value is an integer -/
theorem roundToInt_exact_iff (mode : Mode) (s : Bool) (c : Nat) (e : Int) :
    (roundToInt mode s c e).2 = true ↔ IsInt (fval s c e) := by
  by_cases h : 0 ≤ e
  · rw [(C06.roundToInt_spec mode s c e).1 h]
    exact ⟨fun _ => isInt_fval_of_nonneg s c e h, fun _ => rfl⟩
  · have h' : e < 0 := by omega
    rw [(C06.roundToInt_spec mode s c e).2 h', isInt_fval_iff s c e (by omega)]
    simp

/-- when the operand is an integer, every direction returns that integer -/
theorem roundToInt_of_isInt (mode : Mode) (s : Bool) (c : Nat) (e : Int) (n : Int)
    (hn : fval s c e = n) : (roundToInt mode s c e).1 = n :=
  roundToInt_unique mode s c e n (hn ▸ RoundedZ_intCast mode n)

/-! ### The conversion operations -/

/-- **C06, in range.**  Let `n` be the exact value of the finite operand rounded to an integer in the
operation's direction.  If `n` lies in the target range `[lo, hi]` the conversion returns `n`; it
raises inexact exactly when it is an inexact-signalling variant (`xflag`) and the operand is not an
integer, and raises nothing otherwise. -/
theorem toInt_in_range (mode : Mode) (xflag s : Bool) (lo hi indef : Int) (c : Nat) (e : Int) (n : Int)
    (hn : RoundedZ mode (fval s c e) n) (hr : lo ≤ n ∧ n ≤ hi) :
    (toIntD mode xflag lo hi indef (.fin s c e)).1 = n ∧
    ((xflag = true ∧ ¬ IsInt (fval s c e)) → (toIntD mode xflag lo hi indef (.fin s c e)).2 = fInexact) ∧
    (¬ (xflag = true ∧ ¬ IsInt (fval s c e)) → (toIntD mode xflag lo hi indef (.fin s c e)).2 = 0) := by
  have e1 := roundToInt_unique mode s c e n hn
  rw [C06.toInt_in_range mode xflag s lo hi indef c e (by rw [e1]; exact hr)]
  refine ⟨e1, ?_, ?_⟩
  · rintro ⟨hx, hi'⟩
    have : (roundToInt mode s c e).2 = false := by
      rw [← Bool.not_eq_true, roundToInt_exact_iff]; exact hi'
    simp [hx, this]
  · intro hnot
    by_cases hx : xflag = true
    · have : (roundToInt mode s c e).2 = true := by
        rw [roundToInt_exact_iff]; by_contra hc; exact hnot ⟨hx, hc⟩
      simp [this]
    · simp [hx]

/-- inexact is raised iff (signalling variant and non-integer operand) — as an equivalence -/
theorem toInt_inexact_iff (mode : Mode) (xflag s : Bool) (lo hi indef : Int) (c : Nat) (e : Int) (n : Int)
    (hn : RoundedZ mode (fval s c e) n) (hr : lo ≤ n ∧ n ≤ hi) :
    ((toIntD mode xflag lo hi indef (.fin s c e)).2 = fInexact ↔ (xflag = true ∧ ¬ IsInt (fval s c e))) ∧
    ((toIntD mode xflag lo hi indef (.fin s c e)).2 = fInexact ∨ (toIntD mode xflag lo hi indef (.fin s c e)).2 = 0) := by
  obtain ⟨_, h2, h3⟩ := toInt_in_range mode xflag s lo hi indef c e n hn hr
  by_cases hc : xflag = true ∧ ¬ IsInt (fval s c e)
  · exact ⟨⟨fun _ => hc, h2⟩, Or.inl (h2 hc)⟩
  · refine ⟨⟨fun hf => ?_, fun h => absurd h hc⟩, Or.inr (h3 hc)⟩
    rw [h3 hc] at hf; exact absurd hf (by decide)

/-- **C06, out of range.**  If the rounded integer lies outside `[lo, hi]` the conversion returns the
indefinite value and raises invalid only (no inexact). -/
theorem toInt_out_of_range (mode : Mode) (xflag s : Bool) (lo hi indef : Int) (c : Nat) (e : Int) (n : Int)
    (hn : RoundedZ mode (fval s c e) n) (hr : ¬ (lo ≤ n ∧ n ≤ hi)) :
    toIntD mode xflag lo hi indef (.fin s c e) = (indef, fInvalid) := by
  have e1 := roundToInt_unique mode s c e n hn
  exact C06.toInt_out_of_range mode xflag s lo hi indef c e (by rw [e1]; exact hr)

/-- the rounded integer always exists, so one of the two cases above always applies -/
theorem rounded_exists (mode : Mode) (s : Bool) (c : Nat) (e : Int) :
    ∃ n : Int, RoundedZ mode (fval s c e) n := ⟨_, roundToInt_rounded mode s c e⟩

-- 2.5 → 2 under nearest-even into int32, inexact signalled
example : RoundedZ .rne (fval false 25 (-1)) 2 ∧ ((-2147483648 : Int) ≤ 2 ∧ (2 : Int) ≤ 2147483647) := by
  refine ⟨?_, by decide⟩
  have := roundToInt_rounded .rne false 25 (-1)
  have e : (roundToInt .rne false 25 (-1)).1 = 2 := by decide
  rwa [e] at this

-- -0.3 is not an integer; 12·10^2 is
example : ¬ IsInt (fval true 3 (-1)) := by
  rw [isInt_fval_iff _ _ _ (by decide)]; decide
example : IsInt (fval false 12 2) := isInt_fval_of_nonneg _ _ _ (by decide)

end Dec.C06Q
