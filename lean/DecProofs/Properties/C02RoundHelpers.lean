/-
  C02 (helper level) — the four digit-removal rounding helpers of /repo/src/bid_round.rs
  (`bid_round64_2_18`, `bid_round128_19_38`, `bid_round192_39_57`, `bid_round256_58_76`), as transcribed in
  `DecModel/RoundHelpers.lean`, compute what they are for, on every input of their domain:

      q in the range of the routine,  1 ≤ x ≤ q − 1,  C < 10^q      (every word of C a u64)

  with a = ⌊C / 10^x⌋, r = C mod 10^x, h = 10^x / 2, R = a + r/10^x rounded to nearest, ties to even
  (`roundInt .rne` of `DecModel/Round.lean`):

      C*        = 10^(q−x−1) if R = 10^(q−x), else R          incr_exp = (R = 10^(q−x))
      is_midpoint_lt_even    ⇔ r = h ∧ a odd      (the midpoint is below the even neighbour a + 1 that was returned)
      is_midpoint_gt_even    ⇔ r = h ∧ a even     (the midpoint is above the even neighbour a that was returned)
      is_inexact_lt_midpoint ⇔ 0 < r < h          (C* = a, the discarded part is below the midpoint)
      is_inexact_gt_midpoint ⇔ h < r              (C* = a + 1, the discarded part is above the midpoint)

  (`round64_spec`, `round128_spec`, `round192_spec`, `round256_spec`; the hypothesis `10^(q−1) ≤ C` — "C has q
  digits" — is not needed).  Consequences for every routine (`Spec.…`): at most one indicator is set, and none is set
  exactly when r = 0.

  EXCEPTION, found here and confirmed on the compiled code: `bid_round256_58_76` with x ≤ 19 (branch `ind <= 18`,
  line 945 of bid_round.rs compares `fstar.w[3]` with `BID_TEN2MXTRUNC256[ind].w[2]` instead of `.w[3]`) reports
  `is_inexact_lt_midpoint` wrongly for some C with r = 1 (indicator missing: all four are false although the result
  is inexact) and for some C with r = 0 (indicator set although the result is exact).  Witnesses: `round256_line945_missing`,
  `round256_line945_spurious`.  `round256_spec` therefore asks 20 ≤ x; for x ≤ 19 `round256_spec_low` proves everything
  except that one indicator, and that indicator too whenever r ≥ 2.
  No caller reaches the defect: every call of `bid_round256_58_76` in bid128_fma.rs has 58 ≤ q ≤ 68 and x ≥ 23
  (x = q − 34 at lines 420, 1406, 3236, 3571; x = q − 1 at lines 1934, 2362; at line 2668 x = delta + q − 34 ≥ 24 with
  delta ≥ 0, possibly decremented at line 2860 when a cancellation cost a digit).

  Where the domain comes from.  All calls are in bid128_fma.rs (36 of them); `q` is always the digit count the caller has
  just computed for the `C` it passes (from BID_NR_DIGITS / `bid_bid_nr_digits256` or by comparison with BID_TEN2K*), so
  10^(q−1) ≤ C < 10^q, and the routine is chosen by `q ≤ 18`, `≤ 38`, `≤ 57`, else:
    * x = q − 34, 35 ≤ q ≤ 68: round a sum / product to 34 digits   (lines 395–428, 1381–1415, 3211–3245, 3535–3580)
    * x = q − 1, 2 ≤ q ≤ 68: round the product to one digit          (lines 1903–1942, 2331–2370)
    * x = delta + q − 34, 1 ≤ x ≤ q − 1, 2 ≤ q ≤ 68 (decremented and retried at line 2860 after a cancellation):
      align the product with the addend                               (lines 2605–2676); likewise x = e4 − e3,
      1 ≤ x ≤ q − 1 ≤ 33, for the addend                              (lines 3418–3438)
    * x = emin − e, 1 ≤ x ≤ q − 1, q ≤ 34 (q ≤ 38 at 3029): second rounding of a tiny result, the cases x ≥ q being
      handled by the callers themselves                               (lines 562–580, 1506–1531, 3011–3036, 3776–3795)
    * (q, x) = (35, 1): a sum that reached 35 digits                  (line 2720)
  So the 64-, 128- and 192-bit routines are used on their whole documented range 1 ≤ x ≤ q − 1, and the 256-bit one only
  with 58 ≤ q ≤ 68 and x ≥ 23 (x = q − 34 ≥ 24; x = q − 1 ≥ 57; x = delta + q − 34 with delta ≥ 0, less one retry).

  How the proof goes.  The error analysis of the reciprocal multiplication is done once, on numbers (`core`): with
  K·10^x = 2^E + δ, 0 < δ, and (⌊(C + h)/10^x⌋ + 1)·δ < K, the product P = (C + h)·K has ⌊(C + h)/10^x⌋ above bit E
  and its low E bits F satisfy  F > 2^(E−1) ⇔ r < h,  F − 2^(E−1) > K − 1 ⇔ 0 < r (when r < h),  F ≤ K − 1 ⇔ r = h.
  Its side conditions are decidable per table row and are checked by the kernel on the rows of the tables the crate
  was compiled with (`tbl64 … tbl256`, `tbl256_57`): BID_KXnnn is the reciprocal, BID_EXnnnMnnn the shift,
  BID_MASKnnn = 2^s − 1, 2·BID_HALFnnn = 2^s, BID_TEN2MXTRUNCnnn + 1 = BID_KXnnn, 2·BID_MIDPOINTnnn = 10^x, and E as the
  branches of the code assemble it (word index · 64 + shift).  The word-level blocks of each routine are then shown to
  compute the number-level blocks `inexN`, `midN` (bit-level lemmas `funnel`, `shrZ`, `and_mask`; carries by `omega`).
-/
import DecModel.RoundHelpers
import DecProofs.Core.RoundInt

set_option linter.unusedSimpArgs false
set_option exponentiation.threshold 600

namespace Dec.C02RoundHelpers
open Dec Dec.RH Dec.Gen

/-! ### Words and shifts -/

theorem wd_testBit (P k j : Nat) : (wd P k).testBit j = (decide (j < 64) && P.testBit (64 * k + j)) := by
  unfold wd
  rw [Nat.testBit_mod_two_pow, Nat.testBit_div_two_pow, Nat.add_comm]

/-- the funnel shift of two adjacent words (`(hi << (64 − s)) | (lo >> s)`, `1 ≤ s ≤ 63`) is a word of the shifted number -/
theorem funnel (P k s : Nat) (h1 : 1 ≤ s) (h2 : s ≤ 63) :
    shl64 (wd P (k + 1)) (64 - s) ||| shr64 (wd P k) s = wd (P / 2 ^ (64 * k + s)) 0 := by
  apply Nat.eq_of_testBit_eq
  intro j
  have e1 : (64 - s) % 64 = 64 - s := Nat.mod_eq_of_lt (by omega)
  have e2 : s % 64 = s := Nat.mod_eq_of_lt (by omega)
  simp only [shl64, shr64, e1, e2, Nat.testBit_or, Nat.testBit_mod_two_pow, Nat.testBit_shiftLeft, Nat.testBit_shiftRight,
    wd_testBit, Nat.testBit_div_two_pow, Nat.mul_zero, Nat.zero_add]
  by_cases hj : j < 64
  · by_cases hs : s + j < 64
    · have : ¬ (j ≥ 64 - s) := by omega
      simp [hj, hs, this]
      congr 1; omega
    · have h3 : j ≥ 64 - s := by omega
      have h4 : j - (64 - s) < 64 := by omega
      simp [hj, hs, h3, h4]
      congr 1; omega
  · have : ¬ (s + j < 64) := by omega
    simp [hj, this]

-- `(hi << 61) | (lo >> 3)` on the words of a 128-bit number
example : shl64 (wd 0x0123456789abcdeffedcba9876543210 1) (64 - 3) ||| shr64 (wd 0x0123456789abcdeffedcba9876543210 0) 3
    = wd (0x0123456789abcdeffedcba9876543210 / 2 ^ 3) 0 := by decide +kernel

theorem shr_top (P k s : Nat) (h2 : s ≤ 63) (hP : P < 2 ^ (64 * (k + 1))) :
    shr64 (wd P k) s = P / 2 ^ (64 * k + s) := by
  have e2 : s % 64 = s := Nat.mod_eq_of_lt (by omega)
  have : P / 2 ^ (64 * k) < 2 ^ 64 := by
    apply Nat.div_lt_of_lt_mul
    rw [← Nat.pow_add]; exact hP
  rw [shr64, e2, wd, Nat.mod_eq_of_lt this, Nat.shiftRight_eq_div_pow, Nat.div_div_eq_div_mul, ← Nat.pow_add]

/-- `P.w[k] & MASK` with `MASK = 2^s − 1` -/
theorem and_mask (P k s : Nat) (hs : s ≤ 64) : wd P k &&& (2 ^ s - 1) = P / 2 ^ (64 * k) % 2 ^ s := by
  rw [Nat.and_two_pow_sub_one_eq_mod, wd, Nat.mod_mod_of_dvd _ (Nat.pow_dvd_pow 2 hs)]

theorem wd_div (P E j : Nat) : wd (P / 2 ^ E) j = P / 2 ^ (E + 64 * j) % 2 ^ 64 := by
  rw [wd, Nat.div_div_eq_div_mul, ← Nat.pow_add]

/-- `(P.w[k+1] << (64 − s)) | (P.w[k] >> s)` is word `j` of `P >> E` when bit `64k + s` of `P` is bit `64j` of `P >> E` -/
theorem funnelZ (P k s E j : Nat) (h1 : 1 ≤ s) (h2 : s ≤ 63) (hE : 64 * k + s = E + 64 * j) :
    shl64 (wd P (k + 1)) (64 - s) ||| shr64 (wd P k) s = wd (P / 2 ^ E) j := by
  rw [funnel P k s h1 h2, wd_div, wd_div, hE]; rfl

theorem funnelZ' (P k s E j : Nat) (h1 : 1 ≤ s) (h2 : s ≤ 63) (hE : 64 * k + s = E + 64 * j) :
    shr64 (wd P k) s ||| shl64 (wd P (k + 1)) (64 - s) = wd (P / 2 ^ E) j := by
  rw [Nat.or_comm]; exact funnelZ P k s E j h1 h2 hE

/-- the top word shifted right is the top word of `P >> E` -/
theorem shrZ (P k s E j : Nat) (h2 : s ≤ 63) (hP : P < 2 ^ (64 * (k + 1))) (hE : 64 * k + s = E + 64 * j) :
    shr64 (wd P k) s = wd (P / 2 ^ E) j := by
  rw [shr_top P k s h2 hP, wd_div, ← hE, Nat.mod_eq_of_lt]
  apply Nat.div_lt_of_lt_mul
  calc P < 2 ^ (64 * (k + 1)) := hP
    _ ≤ 2 ^ (64 * k + s + 64) := Nat.pow_le_pow_right (by decide) (by omega)
    _ = 2 ^ (64 * k + s) * 2 ^ 64 := Nat.pow_add ..

theorem modsplit (P b s : Nat) : P % 2 ^ (b + s) = P % 2 ^ b + 2 ^ b * (P / 2 ^ b % 2 ^ s) := by
  rw [Nat.pow_add, Nat.mod_mul]

theorem div_lt_pow (P a b : Nat) (h : P < 2 ^ (a + b)) : P / 2 ^ a < 2 ^ b := by
  apply Nat.div_lt_of_lt_mul; rw [← Nat.pow_add]; exact h

theorem pow_le_W (s : Nat) (h : s ≤ 63) : 2 ^ s ≤ 2 ^ 63 := Nat.pow_le_pow_right (by decide) h

/-- `Z = P >> E` is below `2^b` when `P` is below `2^n`, `n ≤ E + b` -/
theorem shifted_lt (P n E b : Nat) (hP : P < 2 ^ n) (h : n ≤ E + b) : P / 2 ^ E < 2 ^ b :=
  div_lt_pow P E b (Nat.lt_of_lt_of_le hP (Nat.pow_le_pow_right (by decide) h))

/-! ### Tables: every entry is a 64-bit word; multi-word entries as numbers -/

/-- all entries of a table are 64-bit words -/
def allW (t : List Nat) : Bool := t.all (fun w => decide (w < 2 ^ 64))

theorem tw_lt {t : List Nat} (h : allW t = true) (k i j : Nat) : tw t k i j < 2 ^ 64 := by
  unfold tw
  rw [List.getD_eq_getElem?_getD]
  cases hg : t[i * k + j]? with
  | none => exact Nat.pow_pos (by decide)
  | some v =>
    have hm : v ∈ t := List.mem_of_getElem? hg
    have := List.all_eq_true.1 h v hm
    simpa using this

theorem tv2 (t : List Nat) (i : Nat) : tv t 2 i = tw t 2 i 0 + 2 ^ 64 * tw t 2 i 1 := by
  simp [tv, List.range, List.range.loop]
theorem tv3 (t : List Nat) (i : Nat) : tv t 3 i = tw t 3 i 0 + 2 ^ 64 * tw t 3 i 1 + 2 ^ 128 * tw t 3 i 2 := by
  simp [tv, List.range, List.range.loop]; omega
theorem tv4 (t : List Nat) (i : Nat) :
    tv t 4 i = tw t 4 i 0 + 2 ^ 64 * tw t 4 i 1 + 2 ^ 128 * tw t 4 i 2 + 2 ^ 192 * tw t 4 i 3 := by
  simp [tv, List.range, List.range.loop]; omega

theorem w_MIDPOINT64 : allW BID_MIDPOINT64 = true := by decide +kernel
theorem w_MIDPOINT128 : allW BID_MIDPOINT128 = true := by decide +kernel
theorem w_MIDPOINT192 : allW BID_MIDPOINT192 = true := by decide +kernel
theorem w_MIDPOINT256 : allW BID_MIDPOINT256 = true := by decide +kernel
theorem w_HALF64 : allW BID_HALF64 = true := by decide +kernel
theorem w_HALF128 : allW BID_HALF128 = true := by decide +kernel
theorem w_HALF192 : allW BID_HALF192 = true := by decide +kernel
theorem w_HALF256 : allW BID_HALF256 = true := by decide +kernel
theorem w_TRUNC64 : allW BID_TEN2MXTRUNC64 = true := by decide +kernel
theorem w_TRUNC128 : allW BID_TEN2MXTRUNC128 = true := by decide +kernel
theorem w_TRUNC192 : allW BID_TEN2MXTRUNC192 = true := by decide +kernel
theorem w_TRUNC256 : allW BID_TEN2MXTRUNC256 = true := by decide +kernel
theorem w_TEN2K64 : allW BID_TEN2K64 = true := by decide +kernel
theorem w_TEN2K128 : allW BID_TEN2K128 = true := by decide +kernel
theorem w_TEN2K256 : allW BID_TEN2K256 = true := by decide +kernel
theorem w_KX64 : allW BID_KX64 = true := by decide +kernel

/-! ### The error analysis, on numbers -/

/-- quotient and remainder of `C + h` by `D = 2h` from those of `C` -/
theorem divmod_add_half (C h : Nat) (hh : 0 < h) :
    (C % (2 * h) < h → (C + h) / (2 * h) = C / (2 * h) ∧ (C + h) % (2 * h) = C % (2 * h) + h) ∧
    (h ≤ C % (2 * h) → (C + h) / (2 * h) = C / (2 * h) + 1 ∧ (C + h) % (2 * h) = C % (2 * h) - h) := by
  have hD : 0 < 2 * h := by omega
  have e := Nat.div_add_mod C (2 * h)
  have hr := Nat.mod_lt C hD
  generalize C / (2 * h) = a at *
  generalize C % (2 * h) = r at *
  constructor
  · intro hlt
    have : C + h = 2 * h * a + (r + h) := by omega
    rw [this, Nat.mul_add_div hD, Nat.mul_add_mod, Nat.div_eq_of_lt (by omega), Nat.mod_eq_of_lt (by omega)]
    omega
  · intro hge
    have : C + h = 2 * h * (a + 1) + (r - h) := by rw [Nat.mul_add]; omega
    rw [this, Nat.mul_add_div hD, Nat.mul_add_mod, Nat.div_eq_of_lt (by omega), Nat.mod_eq_of_lt (by omega)]
    omega

/-- **The error analysis, once for all widths.**  `D = 2h` the power of ten, `K·D = 2^E + δ` with `0 < δ` (`K` is the
reciprocal of `D` scaled by `2^E` and rounded up), and `δ` small enough for the quotient `(C + h)/D`.  Then the product
`P = (C + h)·K` has integer part `⌊(C + h)/D⌋` above bit `E`, and its low `E` bits `F` answer the three questions the
code asks of them: `F > 1/2` iff the remainder `r` of `C` is below `h`; `F − 1/2 > T* = K − 1` iff moreover `r ≠ 0`;
`F ≤ T*` iff `r = h`.  (And `F − 1/2 ≥ 2K` when `2 ≤ r < h`: used for line 945 only.) -/
theorem core (h K E δ C : Nat) (hh : 0 < h) (hK : K * (2 * h) = 2 ^ E + δ) (hδ : 0 < δ) (hE : 1 ≤ E)
    (hb : ((C + h) / (2 * h) + 1) * δ < K) :
    ((C + h) * K) / 2 ^ E = (if C % (2 * h) < h then C / (2 * h) else C / (2 * h) + 1) ∧
    (2 ^ (E - 1) < ((C + h) * K) % 2 ^ E ↔ C % (2 * h) < h) ∧
    (C % (2 * h) < h → (K - 1 < ((C + h) * K) % 2 ^ E - 2 ^ (E - 1) ↔ 0 < C % (2 * h))) ∧
    (((C + h) * K) % 2 ^ E ≤ K - 1 ↔ C % (2 * h) = h) ∧
    (C % (2 * h) < h → 2 ≤ C % (2 * h) → 2 * K ≤ ((C + h) * K) % 2 ^ E - 2 ^ (E - 1)) := by
  have hD : 0 < 2 * h := by omega
  obtain ⟨hlo, hhi⟩ := divmod_add_half C h hh
  have hr := Nat.mod_lt C hD
  have e' := Nat.div_add_mod (C + h) (2 * h)
  have hr' := Nat.mod_lt (C + h) hD
  generalize C / (2 * h) = a at *
  generalize C % (2 * h) = r at *
  generalize ha' : (C + h) / (2 * h) = a' at *
  generalize hr'' : (C + h) % (2 * h) = r' at *
  have hpow : 2 ^ E = 2 * 2 ^ (E - 1) := by
    rw [← Nat.pow_succ']; congr 1; omega
  generalize 2 ^ (E - 1) = half at *
  -- the product, split at bit E
  have hP : (C + h) * K = 2 ^ E * a' + (a' * δ + r' * K) := by
    calc (C + h) * K = (2 * h * a' + r') * K := by rw [e']
      _ = a' * (K * (2 * h)) + r' * K := by
          rw [Nat.add_mul, Nat.mul_comm (2 * h) a', Nat.mul_assoc, Nat.mul_comm (2 * h) K]
      _ = a' * (2 ^ E + δ) + r' * K := by rw [hK]
      _ = 2 ^ E * a' + (a' * δ + r' * K) := by rw [Nat.mul_add, Nat.mul_comm a' (2 ^ E), Nat.add_assoc]
  have hb' : a' * δ + δ < K := by rw [Nat.add_mul, Nat.one_mul] at hb; exact hb
  have hrK : r' * K + K ≤ 2 ^ E + δ := by
    have : (r' + 1) * K ≤ (2 * h) * K := Nat.mul_le_mul_right K hr'
    rw [Nat.add_mul, Nat.one_mul, Nat.mul_comm (2 * h) K, hK] at this
    exact this
  have hX : a' * δ + r' * K < 2 ^ E := by omega
  have hq : (C + h) * K / 2 ^ E = a' := by
    rw [hP, Nat.mul_add_div (Nat.pow_pos (by decide)), Nat.div_eq_of_lt hX, Nat.add_zero]
  have hm : (C + h) * K % 2 ^ E = a' * δ + r' * K := by
    rw [hP, Nat.mul_add_mod, Nat.mod_eq_of_lt hX]
  rw [hq, hm]
  -- h·K = half + δ/2
  have hhK : 2 * (h * K) = 2 * half + δ := by
    rw [← hpow, ← hK, Nat.mul_comm K, Nat.mul_assoc]
  generalize hA : a' * δ = A at *
  generalize hB : r' * K = B at *
  generalize hHK : h * K = HK at *
  by_cases hlt : r < h
  · obtain ⟨rfl, rfl⟩ := hlo hlt
    have hBe : B = r * K + HK := by rw [← hB, ← hHK, Nat.add_mul]
    generalize hB0 : r * K = B0 at *
    have hB0' : r = 0 → B0 = 0 := by intro h0; rw [← hB0, h0, Nat.zero_mul]
    have hB0'' : 0 < r → K ≤ B0 := by
      intro h0; rw [← hB0]; exact Nat.le_mul_of_pos_left K h0
    have hB0''' : 2 ≤ r → 2 * K ≤ B0 := by
      intro h0; rw [← hB0]; exact Nat.mul_le_mul_right K h0
    simp only [hlt, if_true, iff_true, true_implies]
    refine ⟨trivial, by omega, ?_, by omega, ?_⟩
    · constructor
      · intro hgt
        apply Nat.pos_of_ne_zero
        intro h0; have := hB0' h0; omega
      · intro h0; have := hB0'' h0; omega
    · intro h0; have := hB0''' h0; omega
  · obtain ⟨rfl, rfl⟩ := hhi (by omega)
    have hle : (r - h) + 1 ≤ h := by omega
    have hBle : B + K ≤ HK := by
      have : ((r - h) + 1) * K ≤ h * K := Nat.mul_le_mul_right K hle
      rw [Nat.add_mul, Nat.one_mul, hB, hHK] at this; exact this
    have hB0' : r = h → B = 0 := by intro h0; rw [← hB, h0, Nat.sub_self, Nat.zero_mul]
    have hB0'' : h < r → K ≤ B := by
      intro h0; rw [← hB]; exact Nat.le_mul_of_pos_left K (by omega)
    simp only [hlt, if_false, false_implies, iff_false, true_and, and_true]
    refine ⟨by omega, ?_⟩
    constructor
    · intro hle'
      by_cases h0 : h < r
      · have := hB0'' h0; omega
      · omega
    · intro h0; have := hB0' h0; omega

-- `core` at `h = 5` (`x = 1`), `E = 67`, `K = ⌈2^67/10⌉ = BID_KX64[0]`, `δ = 2`, `C = 12345` (`r = 5 = h`: a midpoint)
example : (0xcccccccccccccccd : Nat) * (2 * 5) = 2 ^ 67 + 2 ∧ ((12345 + 5) / (2 * 5) + 1) * 2 < 0xcccccccccccccccd ∧
    ((12345 + 5) * 0xcccccccccccccccd) / 2 ^ 67 = 1235 ∧
    ((12345 + 5) * 0xcccccccccccccccd) % 2 ^ 67 ≤ 0xcccccccccccccccd - 1 := by
  decide +kernel

/-! ### The decision blocks on numbers, and what they decide -/

/-- the inexactness block at the level of numbers: `F` the fraction bits `f*`, `Hf` one half, `T` the truncated `10^(-x)` -/
def inexN (F Hf T : Nat) : Ind :=
  if Hf < F then (if T < F - Hf then { inexLtMid := true } else {}) else { inexGtMid := true }

/-- the midpoint block at the level of numbers: `Z` the integer part `⌊C*⌋` -/
def midN (Z F T : Nat) (fl : Ind) : Nat × Ind :=
  if F ≤ T then
    if Z % 2 = 1 then (Z - 1, { fl with midGtEven := true, inexLtMid := false, inexGtMid := false })
    else (Z, { fl with midLtEven := true, inexLtMid := false, inexGtMid := false })
  else (Z, fl)

/-- the rounding-overflow block at the level of numbers: `n = q − x` -/
def ovfN (n Z : Nat) : Nat × Bool := (if Z = 10 ^ n then 10 ^ (n - 1) else Z, decide (Z = 10 ^ n))

/-- the four indicators as functions of the quotient `a`, the remainder `r` and the half divisor `h` -/
def specInd (a r h : Nat) : Ind :=
  { midLtEven := decide (r = h ∧ a % 2 = 1), midGtEven := decide (r = h ∧ a % 2 = 0),
    inexLtMid := decide (0 < r ∧ r < h), inexGtMid := decide (h < r) }

theorem midN_core (h K E δ C : Nat) (hh : 0 < h) (hK : K * (2 * h) = 2 ^ E + δ) (hδ : 0 < δ) (hE : 1 ≤ E)
    (hb : ((C + h) / (2 * h) + 1) * δ < K) :
    midN (((C + h) * K) / 2 ^ E) (((C + h) * K) % 2 ^ E) (K - 1)
        (inexN (((C + h) * K) % 2 ^ E) (2 ^ (E - 1)) (K - 1)) =
      (roundInt .rne false (C / (2 * h)) (C % (2 * h)) (2 * h), specInd (C / (2 * h)) (C % (2 * h)) h) := by
  obtain ⟨c1, c2, c3, c4, _⟩ := core h K E δ C hh hK hδ hE hb
  have hr := Nat.mod_lt C (show 0 < 2 * h by omega)
  generalize ((C + h) * K) / 2 ^ E = Z at *
  generalize ((C + h) * K) % 2 ^ E = F at *
  generalize C / (2 * h) = a at *
  generalize C % (2 * h) = r at *
  unfold midN inexN roundInt roundUp specInd
  by_cases hlt : r < h
  · have hne : ¬ r = h := by omega
    have h4 : ¬ F ≤ K - 1 := by rw [c4]; exact hne
    have h2 : 2 ^ (E - 1) < F := c2.2 hlt
    have hgt : ¬ h < r := by omega
    simp only [hlt, if_true] at c1
    subst c1
    by_cases h0 : r = 0
    · have h3 : ¬ K - 1 < F - 2 ^ (E - 1) := by rw [c3 hlt]; omega
      subst h0
      simp [h4, h2, h3, hh]
      omega
    · have h3 : K - 1 < F - 2 ^ (E - 1) := by rw [c3 hlt]; omega
      have h5 : ¬ 2 * r > 2 * h := by omega
      have h6 : ¬ 2 * r = 2 * h := by omega
      simp [h4, h2, h3, h0, hlt, hne, hgt, h5, h6]
      omega
  · simp only [hlt, if_false] at c1
    subst c1
    have h2 : ¬ 2 ^ (E - 1) < F := by rw [c2]; exact hlt
    have h0 : ¬ r = 0 := by omega
    by_cases heq : r = h
    · have h4 : F ≤ K - 1 := c4.2 heq
      subst heq
      have h6 : ¬ 2 * r > 2 * r := by omega
      by_cases hodd : a % 2 = 1
      · have : ¬ (a + 1) % 2 = 1 := by omega
        simp [h4, h2, h0, hodd, this, h6]
      · have h7 : (a + 1) % 2 = 1 := by omega
        have h8 : a % 2 = 0 := by omega
        simp [h4, h2, h0, h7, h8, h6]
    · have h4 : ¬ F ≤ K - 1 := by rw [c4]; exact heq
      have h5 : 2 * r > 2 * h := by omega
      have h7 : h < r := by omega
      simp [h4, h2, h0, h5, heq, hlt, h7]

/-- `midN_core` with the side conditions in the form the table checks deliver them -/
theorem stages_spec (x C h K E T Hf bound : Nat) (hD : 2 * h = 10 ^ x) (hh : 0 < h) (hT : T + 1 = K)
    (hK : 2 ^ E < K * 10 ^ x) (hb : (bound / 10 ^ x + 1) * (K * 10 ^ x - 2 ^ E) < K) (hHf : 2 * Hf = 2 ^ E)
    (hC : C + h < bound) :
    midN (((C + h) * K) / 2 ^ E) (((C + h) * K) % 2 ^ E) T (inexN (((C + h) * K) % 2 ^ E) Hf T) =
      (roundInt .rne false (C / 10 ^ x) (C % 10 ^ x) (10 ^ x), specInd (C / 10 ^ x) (C % 10 ^ x) (10 ^ x / 2)) := by
  have hE : 1 ≤ E := by
    rcases Nat.eq_zero_or_pos E with h0 | h0
    · subst h0; omega
    · exact h0
  have hpow : 2 ^ E = 2 * 2 ^ (E - 1) := by
    rw [← Nat.pow_succ']; congr 1; omega
  have hHf' : Hf = 2 ^ (E - 1) := by omega
  have hT' : T = K - 1 := by omega
  have hh2 : 10 ^ x / 2 = h := by omega
  rw [hHf', hT', hh2, ← hD]
  rw [← hD] at hK hb
  apply midN_core h K E (K * (2 * h) - 2 ^ E) C hh (by omega) (by omega) hE
  have : (C + h) / (2 * h) ≤ bound / (2 * h) := Nat.div_le_div_right (Nat.le_of_lt hC)
  calc ((C + h) / (2 * h) + 1) * (K * (2 * h) - 2 ^ E) ≤ (bound / (2 * h) + 1) * (K * (2 * h) - 2 ^ E) :=
        Nat.mul_le_mul_right _ (by omega)
    _ < K := hb

/-- the facts of `core` about the fraction bits, with the side conditions in the form the table checks deliver them -/
theorem stages_core (x C h K E T Hf bound : Nat) (hD : 2 * h = 10 ^ x) (hh : 0 < h) (hT : T + 1 = K)
    (hK : 2 ^ E < K * 10 ^ x) (hb : (bound / 10 ^ x + 1) * (K * 10 ^ x - 2 ^ E) < K) (hHf : 2 * Hf = 2 ^ E)
    (hC : C + h < bound) :
    (Hf < ((C + h) * K) % 2 ^ E ↔ C % 10 ^ x < 10 ^ x / 2) ∧
    (((C + h) * K) % 2 ^ E ≤ T ↔ C % 10 ^ x = 10 ^ x / 2) ∧
    (C % 10 ^ x < 10 ^ x / 2 → 2 ≤ C % 10 ^ x → 2 * K ≤ ((C + h) * K) % 2 ^ E - Hf) := by
  have hE : 1 ≤ E := by
    rcases Nat.eq_zero_or_pos E with h0 | h0
    · subst h0; omega
    · exact h0
  have hpow : 2 ^ E = 2 * 2 ^ (E - 1) := by
    rw [← Nat.pow_succ']; congr 1; omega
  have hHf' : Hf = 2 ^ (E - 1) := by omega
  have hT' : T = K - 1 := by omega
  have hh2 : 10 ^ x / 2 = h := by omega
  rw [hHf', hT', hh2, ← hD]
  rw [← hD] at hK hb
  have hb' : ((C + h) / (2 * h) + 1) * (K * (2 * h) - 2 ^ E) < K := by
    have : (C + h) / (2 * h) ≤ bound / (2 * h) := Nat.div_le_div_right (Nat.le_of_lt hC)
    calc ((C + h) / (2 * h) + 1) * (K * (2 * h) - 2 ^ E) ≤ (bound / (2 * h) + 1) * (K * (2 * h) - 2 ^ E) :=
          Nat.mul_le_mul_right _ (by omega)
      _ < K := hb
  obtain ⟨_, c2, _, c4, c5⟩ := core h K E (K * (2 * h) - 2 ^ E) C hh (by omega) (by omega) hE hb'
  exact ⟨c2, c4, c5⟩

/-- changing the `inexLtMid` indicator going into the midpoint block changes only that indicator coming out, and
not even that at a midpoint -/
theorem midN_with (Z F T : Nat) (fl : Ind) (b : Bool) :
    midN Z F T { fl with inexLtMid := b } =
      ((midN Z F T fl).1, { (midN Z F T fl).2 with inexLtMid := if F ≤ T then false else b }) := by
  unfold midN
  by_cases h : F ≤ T
  · by_cases h2 : Z % 2 = 1 <;> simp [h, h2]
  · simp [h]


/-! ### The specification -/

/-- `C / 10^x` rounded to nearest, ties to even -/
def rne (C x : Nat) : Nat := roundInt .rne false (C / 10 ^ x) (C % 10 ^ x) (10 ^ x)

/-- `rne C x` is `C / 10^x` rounded to nearest-even in the sense of `DecProofs/Core/RoundInt.lean` -/
theorem rne_rounded (C x : Nat) : RoundedInt .rne false C (10 ^ x) (rne C x) := by
  have h := roundInt_spec .rne false (C / 10 ^ x) (C % 10 ^ x) (10 ^ x) (Nat.mod_lt _ (Nat.pow_pos (by decide)))
  rw [Nat.div_add_mod'] at h
  exact h

example : rne 12450 2 = 124 ∧ rne 12550 2 = 126 ∧ rne 12451 2 = 125 := by decide +kernel

/-- What a routine called with `q`, `x`, `C` must hand back: `cstar` (as a number), `incr` and the four indicators. -/
structure Spec (q x C cstar : Nat) (incr : Bool) (fl : Ind) : Prop where
  /-- `C*` is `C / 10^x` rounded half-even, replaced by `10^(q−x−1)` when the rounding carried into a new digit -/
  cstar_eq : cstar = if rne C x = 10 ^ (q - x) then 10 ^ (q - x - 1) else rne C x
  /-- `incr_exp` says that this replacement took place -/
  incr_iff : incr = true ↔ rne C x = 10 ^ (q - x)
  /-- exact midpoint, odd quotient: rounded up to the even `a + 1` -/
  midLtEven_iff : fl.midLtEven = true ↔ C % 10 ^ x = 10 ^ x / 2 ∧ C / 10 ^ x % 2 = 1
  /-- exact midpoint, even quotient: rounded down to the even `a` -/
  midGtEven_iff : fl.midGtEven = true ↔ C % 10 ^ x = 10 ^ x / 2 ∧ C / 10 ^ x % 2 = 0
  /-- inexact, below the midpoint: rounded down -/
  inexLtMid_iff : fl.inexLtMid = true ↔ 0 < C % 10 ^ x ∧ C % 10 ^ x < 10 ^ x / 2
  /-- inexact, above the midpoint: rounded up -/
  inexGtMid_iff : fl.inexGtMid = true ↔ 10 ^ x / 2 < C % 10 ^ x

/-- `rne` is `a`, or `a + 1`, by the usual rule -/
theorem rne_eq (C x : Nat) (hx : 1 ≤ x) :
    rne C x = if C % 10 ^ x < 10 ^ x / 2 then C / 10 ^ x
      else if 10 ^ x / 2 < C % 10 ^ x then C / 10 ^ x + 1
      else if C / 10 ^ x % 2 = 0 then C / 10 ^ x else C / 10 ^ x + 1 := by
  unfold rne roundInt roundUp
  obtain ⟨y, rfl⟩ : ∃ y, x = y + 1 := ⟨x - 1, by omega⟩
  have hD : 10 ^ (y + 1) = 2 * (5 * 10 ^ y) := by rw [Nat.pow_succ]; omega
  have hp : 0 < 10 ^ y := Nat.pow_pos (by decide)
  generalize 10 ^ (y + 1) = D at *
  generalize 10 ^ y = p at *
  subst hD
  have hh : 2 * (5 * p) / 2 = 5 * p := by omega
  rw [hh]
  generalize C / (2 * (5 * p)) = a
  generalize C % (2 * (5 * p)) = r
  by_cases h1 : r < 5 * p
  · by_cases h0 : r = 0
    · simp [h0, hp]
    · have h2 : ¬ 2 * r > 2 * (5 * p) := by omega
      have h3 : ¬ 2 * r = 2 * (5 * p) := by omega
      simp [h0, h1, h2, h3]
  · have h0 : ¬ r = 0 := by omega
    by_cases h2 : 5 * p < r
    · have h3 : 2 * r > 2 * (5 * p) := by omega
      simp [h0, h1, h2, h3]
    · have h3 : ¬ 2 * r > 2 * (5 * p) := by omega
      have h4 : 2 * r = 2 * (5 * p) := by omega
      by_cases h5 : a % 2 = 0
      · have : ¬ a % 2 = 1 := by omega
        simp [h0, h1, h2, h3, h4, h5]
      · have : a % 2 = 1 := by omega
        simp [h0, h1, h2, h3, h4, this]

/-- the number-level blocks deliver the specification -/
theorem Spec.of_blocks (q x C cstar : Nat) (incr : Bool) (fl : Ind)
    (h1 : (cstar, incr) = ovfN (q - x) (rne C x)) (h2 : fl = specInd (C / 10 ^ x) (C % 10 ^ x) (10 ^ x / 2)) :
    Spec q x C cstar incr fl := by
  unfold ovfN at h1
  obtain ⟨h1a, h1b⟩ := Prod.mk.inj h1
  subst h2
  refine ⟨h1a, ?_, ?_, ?_, ?_, ?_⟩ <;> simp [specInd, h1b]

namespace Spec
variable {q x C cstar : Nat} {incr : Bool} {fl : Ind}

/-- at most one of the four indicators is set -/
theorem atMostOne (s : Spec q x C cstar incr fl) :
    b2n fl.midLtEven + b2n fl.midGtEven + b2n fl.inexLtMid + b2n fl.inexGtMid ≤ 1 := by
  have h1 := s.midLtEven_iff; have h2 := s.midGtEven_iff; have h3 := s.inexLtMid_iff; have h4 := s.inexGtMid_iff
  generalize C % 10 ^ x = r at *; generalize 10 ^ x / 2 = h at *; generalize C / 10 ^ x = a at *
  unfold b2n
  cases e1 : fl.midLtEven <;> cases e2 : fl.midGtEven <;> cases e3 : fl.inexLtMid <;> cases e4 : fl.inexGtMid <;>
    simp only [e1, e2, e3, e4, true_iff, false_iff, if_true, Bool.false_eq_true, if_false] at * <;> omega

/-- no indicator is set exactly when nothing was discarded -/
theorem exact_iff (s : Spec q x C cstar incr fl) (hx : 1 ≤ x) :
    (fl.midLtEven = false ∧ fl.midGtEven = false ∧ fl.inexLtMid = false ∧ fl.inexGtMid = false) ↔ C % 10 ^ x = 0 := by
  have h1 := s.midLtEven_iff; have h2 := s.midGtEven_iff; have h3 := s.inexLtMid_iff; have h4 := s.inexGtMid_iff
  have hh : 0 < 10 ^ x / 2 := by
    obtain ⟨y, rfl⟩ : ∃ y, x = y + 1 := ⟨x - 1, by omega⟩
    have hp : 0 < 10 ^ y := Nat.pow_pos (by decide)
    rw [Nat.pow_succ]; omega
  generalize C % 10 ^ x = r at *; generalize 10 ^ x / 2 = h at *; generalize C / 10 ^ x = a at *
  cases e1 : fl.midLtEven <;> cases e2 : fl.midGtEven <;> cases e3 : fl.inexLtMid <;> cases e4 : fl.inexGtMid <;>
    simp only [e1, e2, e3, e4, true_iff, false_iff, Bool.false_eq_true, Bool.true_eq_false, and_self, and_false, false_and,
      true_and, and_true] at * <;> omega

/-- the value handed back, `C*` with its exponent increment, is `rne C x` -/
theorem value (s : Spec q x C cstar incr fl) (hqx : x + 1 ≤ q) : cstar * (if incr then 10 else 1) = rne C x := by
  have h1 := s.cstar_eq; have h2 := s.incr_iff
  by_cases h : rne C x = 10 ^ (q - x)
  · have : incr = true := h2.2 h
    have e : 10 ^ (q - x) = 10 ^ (q - x - 1) * 10 := by
      rw [← Nat.pow_succ]; congr 1; omega
    rw [h1, if_pos h, this, if_pos rfl, h, e]
  · have : incr = false := by
      cases hi : incr
      · rfl
      · exact absurd (h2.1 hi) h
    rw [h1, if_neg h, this]; simp

/-- `C*` has `q − x` digits when `C` has `q` -/
theorem digits (s : Spec q x C cstar incr fl) (hx : 1 ≤ x) (hqx : x + 1 ≤ q) (hlo : 10 ^ (q - 1) ≤ C) (hhi : C < 10 ^ q) :
    10 ^ (q - x - 1) ≤ cstar ∧ cstar < 10 ^ (q - x) := by
  have h1 := s.cstar_eq
  have hr := rne_eq C x hx
  have e1 : 10 ^ q = 10 ^ (q - x) * 10 ^ x := by rw [← Nat.pow_add]; congr 1; omega
  have e2 : 10 ^ (q - 1) = 10 ^ (q - x - 1) * 10 ^ x := by rw [← Nat.pow_add]; congr 1; omega
  have e3 : 10 ^ (q - x) = 10 ^ (q - x - 1) * 10 := by rw [← Nat.pow_succ]; congr 1; omega
  have hp : 0 < 10 ^ x := Nat.pow_pos (by decide)
  have ha1 : C / 10 ^ x < 10 ^ (q - x) := by
    rw [Nat.div_lt_iff_lt_mul hp, ← e1]; exact hhi
  have ha2 : 10 ^ (q - x - 1) ≤ C / 10 ^ x := by
    rw [Nat.le_div_iff_mul_le hp, ← e2]; exact hlo
  have hp2 : 0 < 10 ^ (q - x - 1) := Nat.pow_pos (by decide)
  generalize rne C x = R at *
  generalize C / 10 ^ x = a at *
  generalize 10 ^ (q - x) = A at *
  generalize 10 ^ (q - x - 1) = B at *
  subst h1
  split at hr <;> (try split at hr) <;> (try split at hr) <;> split <;> omega

end Spec

/-! ### What the proofs need of the tables, checked on the tables the crate was compiled with -/

/-- What the error analysis (`core`) and the word-level tests need of row `x` of the reciprocal tables: `s` the shift
(`BID_EXnnnMnnn`), `msk` the mask, `hlf` the half, `K` the reciprocal (`BID_KXnnn`), `E` its scaling as the code's branches
assemble it, `T` the truncated reciprocal (`BID_TEN2MXTRUNCnnn`), `bound` an upper bound of `C + 10^x/2`. -/
def RowOK (x s msk hlf K E T bound : Nat) : Prop :=
  1 ≤ s ∧ s ≤ 63 ∧ msk = 2 ^ s - 1 ∧ 2 * hlf = 2 ^ s ∧ T + 1 = K ∧
  2 ^ E < K * 10 ^ x ∧ (bound / 10 ^ x + 1) * (K * 10 ^ x - 2 ^ E) < K

instance (x s msk hlf K E T bound : Nat) : Decidable (RowOK x s msk hlf K E T bound) := by
  unfold RowOK; infer_instance

/-- `Ex` for `bid_round64_2_18`: the shift applies to word 1 of the product -/
def E64 (i : Nat) : Nat := 64 + tw BID_EX64M64 1 i 0

theorem tbl64 : ∀ i, i < 17 →
    RowOK (i + 1) (tw BID_EX64M64 1 i 0) (tw BID_MASK64 1 i 0) (tw BID_HALF64 1 i 0) (tw BID_KX64 1 i 0)
      (E64 i) (tw BID_TEN2MXTRUNC64 1 i 0) (15 * 10 ^ 17) ∧
    2 * tw BID_MIDPOINT64 1 i 0 = 10 ^ (i + 1) := by
  decide +kernel

/-- `Ex` for `bid_round128_19_38` as its branches see it: word 2 of the product for `ind ≤ 18`, word 3 otherwise -/
def E128 (i : Nat) : Nat := (if i ≤ 18 then 128 else 192) + tw BID_EX128M128 1 i 0
/-- the midpoint `bid_round128_19_38` adds: from `BID_MIDPOINT64` for `ind ≤ 18`, else from `BID_MIDPOINT128` -/
def M128 (i : Nat) : Nat := if i ≤ 18 then tw BID_MIDPOINT64 1 i 0 else tv BID_MIDPOINT128 2 (i - 19)

theorem tbl128 : ∀ i, i < 37 →
    RowOK (i + 1) (tw BID_EX128M128 1 i 0) (tw BID_MASK128 1 i 0) (tw BID_HALF128 1 i 0) (tv BID_KX128 2 i)
      (E128 i) (tv BID_TEN2MXTRUNC128 2 i) (15 * 10 ^ 37) ∧
    2 * M128 i = 10 ^ (i + 1) ∧ tv BID_KX128 2 i < 2 ^ 128 := by
  decide +kernel

def E192 (i : Nat) : Nat := (if i ≤ 18 then 192 else if i ≤ 37 then 256 else 320) + tw BID_EX192M192 1 i 0
def M192 (i : Nat) : Nat :=
  if i ≤ 18 then tw BID_MIDPOINT64 1 i 0 else if i ≤ 37 then tv BID_MIDPOINT128 2 (i - 19)
  else tv BID_MIDPOINT192 3 (i - 38)

theorem tbl192 : ∀ i, i < 56 →
    RowOK (i + 1) (tw BID_EX192M192 1 i 0) (tw BID_MASK192 1 i 0) (tw BID_HALF192 1 i 0) (tv BID_KX192 3 i)
      (E192 i) (tv BID_TEN2MXTRUNC192 3 i) (15 * 10 ^ 56) ∧
    2 * M192 i = 10 ^ (i + 1) ∧ tv BID_KX192 3 i < 2 ^ 192 := by
  decide +kernel

def E256 (i : Nat) : Nat :=
  (if i ≤ 18 then 256 else if i ≤ 37 then 320 else if i ≤ 56 then 384 else 448) + tw BID_EX256M256 1 i 0
def M256 (i : Nat) : Nat :=
  if i ≤ 18 then tw BID_MIDPOINT64 1 i 0 else if i ≤ 37 then tv BID_MIDPOINT128 2 (i - 19)
  else if i ≤ 57 then tv BID_MIDPOINT192 3 (i - 38) else tv BID_MIDPOINT256 4 (i - 58)

theorem tbl256 : ∀ i, i < 75 → i ≠ 57 →
    RowOK (i + 1) (tw BID_EX256M256 1 i 0) (tw BID_MASK256 1 i 0) (tw BID_HALF256 1 i 0) (tv BID_KX256 4 i)
      (E256 i) (tv BID_TEN2MXTRUNC256 4 i) (15 * 10 ^ 75) ∧
    2 * M256 i = 10 ^ (i + 1) ∧ tv BID_KX256 4 i < 2 ^ 256 ∧ 2 ^ 255 ≤ tv BID_KX256 4 i := by
  decide +kernel

/-- row 57 (`x = 58`) of the 256-bit tables: `10^58` has 193 bits, the shift is 0, the code takes `P.w[7]` whole
(lines 889–902) and compares `P.w[6]` with `BID_HALF256[57] = 2^63` -/
theorem tbl256_57 :
    tw BID_EX256M256 1 57 0 = 0 ∧ tw BID_HALF256 1 57 0 = 2 ^ 63 ∧
    tv BID_TEN2MXTRUNC256 4 57 + 1 = tv BID_KX256 4 57 ∧ 2 ^ 448 < tv BID_KX256 4 57 * 10 ^ 58 ∧
    (15 * 10 ^ 75 / 10 ^ 58 + 1) * (tv BID_KX256 4 57 * 10 ^ 58 - 2 ^ 448) < tv BID_KX256 4 57 ∧
    2 * M256 57 = 10 ^ 58 ∧ tv BID_KX256 4 57 < 2 ^ 256 := by
  decide +kernel

/-- the shift amounts of the branches that shift are in `1..63`: neither `>> s` nor `<< (64 − s)` reaches 64 -/
theorem shift64_range (i : Nat) (hi : i < 17) : 1 ≤ tw BID_EX64M64 1 i 0 ∧ tw BID_EX64M64 1 i 0 ≤ 63 :=
  ⟨(tbl64 i hi).1.1, (tbl64 i hi).1.2.1⟩
theorem shift128_range (i : Nat) (hi : i < 37) : 1 ≤ tw BID_EX128M128 1 i 0 ∧ tw BID_EX128M128 1 i 0 ≤ 63 :=
  ⟨(tbl128 i hi).1.1, (tbl128 i hi).1.2.1⟩
theorem shift192_range (i : Nat) (hi : i < 56) : 1 ≤ tw BID_EX192M192 1 i 0 ∧ tw BID_EX192M192 1 i 0 ≤ 63 :=
  ⟨(tbl192 i hi).1.1, (tbl192 i hi).1.2.1⟩
theorem shift256_range (i : Nat) (hi : i < 75) (h57 : i ≠ 57) :
    1 ≤ tw BID_EX256M256 1 i 0 ∧ tw BID_EX256M256 1 i 0 ≤ 63 :=
  ⟨(tbl256 i hi h57).1.1, (tbl256 i hi h57).1.2.1⟩

/-- the power of ten `Cstar` is compared with at index `n = q − x`, and the one it is replaced by, as the branches of
the rounding-overflow block pick them from `BID_TEN2K64`, `BID_TEN2K128`, `BID_TEN2K256` -/
def K10 (n : Nat) : Nat :=
  if n ≤ 19 then tw BID_TEN2K64 1 n 0 else if n ≤ 38 then tv BID_TEN2K128 2 (n - 20) else tv BID_TEN2K256 4 (n - 39)
def R10 (n : Nat) : Nat :=
  if n ≤ 19 then tw BID_TEN2K64 1 (n - 1) 0 else if n = 20 then tw BID_TEN2K64 1 19 0
  else if n ≤ 38 then tv BID_TEN2K128 2 (n - 21) else if n = 39 then tv BID_TEN2K128 2 18
  else tv BID_TEN2K256 4 (n - 40)

theorem ten2k : ∀ n, n < 76 → 1 ≤ n → K10 n = 10 ^ n ∧ R10 n = 10 ^ (n - 1) := by
  decide +kernel

/-- the powers of ten below `2^192` in `BID_TEN2K256` (`10^39 … 10^57`) have a zero top word: `bid_round192_39_57` and the
branch `ind ≤ 57` of `bid_round256_58_76` compare and copy only their three low words -/
theorem ten2k256_top : ∀ j, j < 19 → tw BID_TEN2K256 4 j 3 = 0 := by
  decide +kernel

macro "bsimp" : tactic =>
  `(tactic| simp only [Bool.or_eq_true, Bool.and_eq_true, decide_eq_true_eq, beq_iff_eq, bne_iff_ne, ne_eq])

/-- the number `v` as a 128/192/256-bit structure -/
def u128 (v : Nat) : U128 := ⟨wd v 0, wd v 1⟩
def u192 (v : Nat) : U192 := ⟨wd v 0, wd v 1, wd v 2⟩
def u256 (v : Nat) : U256 := ⟨wd v 0, wd v 1, wd v 2, wd v 3⟩

/-! ### bid_round64_2_18 -/

theorem round64_unfold (q x C : Nat) :
    round64 q x C =
      (let i := x - 1
       let C' := add64 C (tw BID_MIDPOINT64 1 i 0)
       let P := C' * tw BID_KX64 1 i 0
       let f1 := wd P 1 &&& tw BID_MASK64 1 i 0
       let f0 := wd P 0
       let m := r64Midpoint i (shr64 (wd P 1) (tw BID_EX64M64 1 i 0)) f1 f0 (r64Inexact i f1 f0)
       let o := r64Ovf q x m.1
       { cstar := o.1, incrExp := o.2, ind := m.2 }) := rfl

theorem r64Inexact_spec (i f1 f0 : Nat) (h0 : f0 < 2 ^ 64) (h1 : f1 < 2 ^ 64) :
    r64Inexact i f1 f0 = inexN (f0 + 2 ^ 64 * f1) (2 ^ 64 * tw BID_HALF64 1 i 0) (tw BID_TEN2MXTRUNC64 1 i 0) := by
  have hh := tw_lt w_HALF64 1 i 0
  have ht0 := tw_lt w_TRUNC64 1 i 0
  unfold r64Inexact inexN
  generalize tw BID_HALF64 1 i 0 = half at *
  generalize tw BID_TEN2MXTRUNC64 1 i 0 = t0 at *
  have c1 : (decide (f1 > half) || (f1 == half && f0 != 0)) = true ↔ 2 ^ 64 * half < f0 + 2 ^ 64 * f1 := by
    bsimp; omega
  simp only [c1]
  split
  · have c2 : (sub64 f1 half != 0 || decide (f0 > t0)) = true ↔ t0 < f0 + 2 ^ 64 * f1 - 2 ^ 64 * half := by
      bsimp; unfold sub64; omega
    simp only [c2]
  · rfl

theorem r64Midpoint_spec (i Cs f1 f0 : Nat) (fl : Ind) (hc : Cs < 2 ^ 64) (h0 : f0 < 2 ^ 64) (h1 : f1 < 2 ^ 64) :
    r64Midpoint i Cs f1 f0 fl = midN Cs (f0 + 2 ^ 64 * f1) (tw BID_TEN2MXTRUNC64 1 i 0) fl ∧
    (r64Midpoint i Cs f1 f0 fl).1 < 2 ^ 64 := by
  have ht0 := tw_lt w_TRUNC64 1 i 0
  unfold r64Midpoint midN
  generalize tw BID_TEN2MXTRUNC64 1 i 0 = t0 at *
  have c1' : (f1 == 0 && decide (f0 ≤ t0)) = true ↔ f0 + 2 ^ 64 * f1 ≤ t0 := by bsimp; omega
  have c2' : (Cs &&& 1 == 1) = true ↔ Cs % 2 = 1 := by
    rw [Nat.and_one_is_mod]; bsimp
  simp only [c1', c2']
  by_cases hm : f0 + 2 ^ 64 * f1 ≤ t0
  · simp only [hm, if_true]
    by_cases ho : Cs % 2 = 1
    · have e0 : sub64 Cs 1 = Cs - 1 := by unfold sub64; omega
      simp only [ho, if_true, e0, true_and]
      omega
    · simp only [ho, if_false, true_and]
      exact hc
  · simp only [hm, if_false, true_and]
    exact hc

theorem r64Ovf_spec (q x Cs : Nat) (hn1 : 1 ≤ q - x) (hn : q - x ≤ 19) (hc : Cs < 2 ^ 64) :
    r64Ovf q x Cs = ovfN (q - x) Cs ∧ (r64Ovf q x Cs).1 < 2 ^ 64 := by
  obtain ⟨hk, hr⟩ := ten2k (q - x) (by omega) hn1
  unfold r64Ovf ovfN
  generalize q - x = n at *
  simp only
  rw [← hk, ← hr]
  unfold K10 R10
  simp only [hn, if_true]
  have hb1 := tw_lt w_TEN2K64 1 (n - 1) 0
  generalize tw BID_TEN2K64 1 n 0 = k at *
  generalize tw BID_TEN2K64 1 (n - 1) 0 = p at *
  by_cases he : Cs = k
  · simp [he, hb1]
  · simp [he, hc]

/-- **`bid_round64_2_18` meets its specification** on its whole domain `2 ≤ q ≤ 18`, `1 ≤ x ≤ q − 1`, `C < 10^q`
(all call sites of bid128_fma.rs are inside it; see the head of the file). -/
theorem round64_spec (q x C : Nat) (hq : 2 ≤ q) (hq' : q ≤ 18) (hx : 1 ≤ x) (hxq : x + 1 ≤ q) (hC : C < 10 ^ q) :
    Spec q x C (round64 q x C).cstar (round64 q x C).incrExp (round64 q x C).ind ∧ (round64 q x C).cstar < 2 ^ 64 := by
  obtain ⟨i, rfl⟩ : ∃ i, x = i + 1 := ⟨x - 1, by omega⟩
  have hi : i < 17 := by omega
  obtain ⟨⟨hs1, hs2, hmsk, hhlf, hT, hK, hb⟩, hM⟩ := tbl64 i hi
  have hKlt := tw_lt w_KX64 1 i 0
  rw [round64_unfold]
  simp only [Nat.add_sub_cancel]
  -- the midpoint is added without wrapping
  have hCq : 10 ^ q ≤ 10 ^ 18 := Nat.pow_le_pow_right (by decide) hq'
  have hxi : 10 ^ (i + 1) ≤ 10 ^ 17 := Nat.pow_le_pow_right (by decide) (by omega)
  have hwrap : C + tw BID_MIDPOINT64 1 i 0 < 2 ^ 64 := by omega
  have aval : add64 C (tw BID_MIDPOINT64 1 i 0) = C + tw BID_MIDPOINT64 1 i 0 := Nat.mod_eq_of_lt hwrap
  rw [aval]
  generalize hMd : tw BID_MIDPOINT64 1 i 0 = M at *
  -- the product and its two parts
  have hP : (C + M) * tw BID_KX64 1 i 0 < 2 ^ 128 := by
    calc (C + M) * tw BID_KX64 1 i 0 < 2 ^ 64 * 2 ^ 64 := Nat.mul_lt_mul'' hwrap hKlt
      _ = 2 ^ 128 := by rw [← Nat.pow_add]
  generalize hPd : (C + M) * tw BID_KX64 1 i 0 = P at *
  have hS := pow_le_W _ hs2
  have hZ : P / 2 ^ E64 i < 2 ^ 64 := shifted_lt P 128 _ 64 hP (by unfold E64; omega)
  have hcs : shr64 (wd P 1) (tw BID_EX64M64 1 i 0) = P / 2 ^ E64 i := by
    rw [shrZ P 1 _ (E64 i) 0 hs2 hP (by unfold E64; omega), wd, Nat.mul_zero, Nat.pow_zero, Nat.div_one,
      Nat.mod_eq_of_lt hZ]
  have hf1 : wd P 1 &&& tw BID_MASK64 1 i 0 = P / 2 ^ 64 % 2 ^ tw BID_EX64M64 1 i 0 := by
    rw [hmsk, and_mask P 1 _ (by omega)]
  have hF1 := Nat.mod_lt (P / 2 ^ 64) (Nat.pow_pos (n := tw BID_EX64M64 1 i 0) (by decide : 0 < 2))
  have hfv : wd P 0 + 2 ^ 64 * (P / 2 ^ 64 % 2 ^ tw BID_EX64M64 1 i 0) = P % 2 ^ E64 i := by
    unfold E64; rw [modsplit]; unfold wd; omega
  have hf0 : wd P 0 < 2 ^ 64 := Nat.mod_lt _ (by decide)
  rw [hcs, hf1]
  -- the two decision blocks
  have hin := r64Inexact_spec i (P / 2 ^ 64 % 2 ^ tw BID_EX64M64 1 i 0) (wd P 0) hf0 (by omega)
  obtain ⟨hmid, m0⟩ := r64Midpoint_spec i (P / 2 ^ E64 i) (P / 2 ^ 64 % 2 ^ tw BID_EX64M64 1 i 0) (wd P 0)
    (r64Inexact i (P / 2 ^ 64 % 2 ^ tw BID_EX64M64 1 i 0) (wd P 0)) hZ hf0 (by omega)
  generalize r64Midpoint i (P / 2 ^ E64 i) (P / 2 ^ 64 % 2 ^ tw BID_EX64M64 1 i 0) (wd P 0)
    (r64Inexact i (P / 2 ^ 64 % 2 ^ tw BID_EX64M64 1 i 0) (wd P 0)) = m at *
  rw [hin, hfv, ← hPd] at hmid
  have hHf : 2 * (2 ^ 64 * tw BID_HALF64 1 i 0) = 2 ^ E64 i := by
    unfold E64; rw [Nat.pow_add, ← hhlf, Nat.mul_left_comm]
  have hpos : 0 < M := by
    have : 0 < 10 ^ (i + 1) := Nat.pow_pos (by decide)
    omega
  rw [stages_spec (i + 1) C M _ _ _ _ (15 * 10 ^ 17) hM hpos hT hK hb hHf (by omega)] at hmid
  -- the rounding-overflow block
  obtain ⟨hov, o0⟩ := r64Ovf_spec q (i + 1) m.1 (by omega) (by omega) m0
  have hm1 : m.1 = rne C (i + 1) := by rw [hmid]; rfl
  have hm2 : m.2 = specInd (C / 10 ^ (i + 1)) (C % 10 ^ (i + 1)) (10 ^ (i + 1) / 2) := by rw [hmid]
  refine ⟨Spec.of_blocks _ _ _ _ _ _ ?_ hm2, o0⟩
  rw [← hm1, ← hov]

-- a tie with an odd quotient that carries into a new digit (q = 18, x = 3, C = 999999999999999|500)
example : round64 18 3 999999999999999500 = ⟨10 ^ 14, true, { midLtEven := true }⟩ := by decide +kernel
-- a tie with an even quotient; below the midpoint; above the midpoint; exact
example : round64 5 2 12450 = ⟨124, false, { midGtEven := true }⟩ := by decide +kernel
example : round64 5 2 12449 = ⟨124, false, { inexLtMid := true }⟩ := by decide +kernel
example : round64 5 2 12451 = ⟨125, false, { inexGtMid := true }⟩ := by decide +kernel
example : round64 5 2 12400 = ⟨124, false, {}⟩ := by decide +kernel
example : Spec 5 2 12450 124 false { midGtEven := true } :=
  (round64_spec 5 2 12450 (by decide) (by decide) (by decide) (by decide) (by decide)).1

/-! ### bid_round128_19_38 -/

theorem round128_unfold (q x : Nat) (C : U128) :
    round128 q x C =
      (let i := x - 1
       let C' := r128AddMid i C
       let P := C'.val * tv BID_KX128 2 i
       let sp := r128Split i P
       let m := r128Midpoint i sp.1 sp.2 (r128Inexact i sp.2)
       let o := r128Ovf q x m.1
       { cstar := o.1, incrExp := o.2, ind := m.2 }) := rfl

theorem r128AddMid_spec (i : Nat) (C : U128) (h0 : C.w0 < 2 ^ 64) (h1 : C.w1 < 2 ^ 64) :
    (r128AddMid i C).w0 < 2 ^ 64 ∧ (r128AddMid i C).w1 < 2 ^ 64 ∧
    (r128AddMid i C).val = (C.val + M128 i) % 2 ^ 128 := by
  obtain ⟨c0, c1⟩ := C
  simp only at h0 h1
  unfold r128AddMid M128
  by_cases hi : i ≤ 18
  · simp only [hi, if_true]
    have hm := tw_lt w_MIDPOINT64 1 i 0
    generalize tw BID_MIDPOINT64 1 i 0 = m at *
    simp only [U128.val]
    (repeat' split) <;> simp only [add64] at * <;> omega
  · simp only [hi, if_false, tv2]
    have hm0 := tw_lt w_MIDPOINT128 2 (i - 19) 0
    have hm1 := tw_lt w_MIDPOINT128 2 (i - 19) 1
    generalize tw BID_MIDPOINT128 2 (i - 19) 0 = m0 at *
    generalize tw BID_MIDPOINT128 2 (i - 19) 1 = m1 at *
    simp only [U128.val]
    (repeat' split) <;> simp only [add64] at * <;> omega

theorem r128Split_spec (i : Nat) (P : Nat) (hP : P < 2 ^ 256)
    (h1 : 1 ≤ tw BID_EX128M128 1 i 0) (h2 : tw BID_EX128M128 1 i 0 ≤ 63)
    (hm : tw BID_MASK128 1 i 0 = 2 ^ (tw BID_EX128M128 1 i 0) - 1) :
    (r128Split i P).1.val = P / 2 ^ (E128 i) ∧ (r128Split i P).1.w0 < 2 ^ 64 ∧ (r128Split i P).1.w1 < 2 ^ 64 ∧
    (r128Split i P).2.val = P % 2 ^ (E128 i) ∧ (r128Split i P).2.w0 < 2 ^ 64 ∧ (r128Split i P).2.w1 < 2 ^ 64 ∧
    (r128Split i P).2.w2 < 2 ^ 64 ∧ (r128Split i P).2.w3 < 2 ^ 64 ∧ (i ≤ 18 → (r128Split i P).2.w3 = 0) := by
  unfold r128Split E128
  rw [hm]
  generalize tw BID_EX128M128 1 i 0 = s at *
  have hS := pow_le_W s h2
  by_cases hi : i ≤ 18
  · simp only [hi, if_true, U128.val, U256.val]
    rw [funnelZ' P 2 s (128 + s) 0 h1 h2 (by omega), shrZ P 3 s (128 + s) 1 h2 hP (by omega),
      and_mask P 2 s (by omega), modsplit]
    have hZ : P / 2 ^ (128 + s) < 2 ^ 128 := div_lt_pow P _ _ (Nat.lt_of_lt_of_le hP (Nat.pow_le_pow_right (by decide) (by omega)))
    have hF := Nat.mod_lt (P / 2 ^ (64 * 2)) (Nat.pow_pos (n := s) (by decide : 0 < 2))
    generalize P / 2 ^ (128 + s) = Z at *
    generalize P / 2 ^ (64 * 2) % 2 ^ s = Fr at *
    unfold wd
    refine ⟨?_, ?_, ?_, ?_, ?_, ?_, ?_, ?_, ?_⟩ <;> first | omega | simp
  · simp only [hi, if_false, U128.val, U256.val]
    rw [shrZ P 3 s (192 + s) 0 h2 hP (by omega), and_mask P 3 s (by omega), modsplit]
    have hZ : P / 2 ^ (192 + s) < 2 ^ 64 := div_lt_pow P _ _ (Nat.lt_of_lt_of_le hP (Nat.pow_le_pow_right (by decide) (by omega)))
    have hF := Nat.mod_lt (P / 2 ^ (64 * 3)) (Nat.pow_pos (n := s) (by decide : 0 < 2))
    generalize P / 2 ^ (192 + s) = Z at *
    generalize P / 2 ^ (64 * 3) % 2 ^ s = Fr at *
    unfold wd
    refine ⟨?_, ?_, ?_, ?_, ?_, ?_, ?_, ?_, ?_⟩ <;> first | omega | simp

theorem r128Inexact_spec (i : Nat) (f : U256) (h0 : f.w0 < 2 ^ 64) (h1 : f.w1 < 2 ^ 64) (h2 : f.w2 < 2 ^ 64)
    (h3 : f.w3 < 2 ^ 64) (hz : i ≤ 18 → f.w3 = 0) :
    r128Inexact i f = inexN f.val (2 ^ (if i ≤ 18 then 128 else 192) * tw BID_HALF128 1 i 0) (tv BID_TEN2MXTRUNC128 2 i) := by
  obtain ⟨f0, f1, f2, f3⟩ := f
  simp only at h0 h1 h2 h3 hz
  have hh := tw_lt w_HALF128 1 i 0
  have ht0 := tw_lt w_TRUNC128 2 i 0
  have ht1 := tw_lt w_TRUNC128 2 i 1
  unfold r128Inexact inexN
  simp only [tv2, U256.val]
  generalize tw BID_HALF128 1 i 0 = half at *
  generalize tw BID_TEN2MXTRUNC128 2 i 0 = t0 at *
  generalize tw BID_TEN2MXTRUNC128 2 i 1 = t1 at *
  by_cases hi : i ≤ 18
  · have hz' := hz hi
    subst hz'
    simp only [hi, if_true]
    have c1 : (decide (f2 > half) || (f2 == half && (f1 != 0 || f0 != 0))) = true ↔
        2 ^ 128 * half < f0 + 2 ^ 64 * f1 + 2 ^ 128 * f2 + 2 ^ 192 * 0 := by bsimp; omega
    simp only [c1]
    split
    · have c2 : (sub64 f2 half != 0 || decide (f1 > t1) || (f1 == t1 && decide (f0 > t0))) = true ↔
          t0 + 2 ^ 64 * t1 < f0 + 2 ^ 64 * f1 + 2 ^ 128 * f2 + 2 ^ 192 * 0 - 2 ^ 128 * half := by
        bsimp; unfold sub64; omega
      simp only [c2]
    · rfl
  · simp only [hi, if_false]
    have c1 : (decide (f3 > half) || (f3 == half && (f2 != 0 || f1 != 0 || f0 != 0))) = true ↔
        2 ^ 192 * half < f0 + 2 ^ 64 * f1 + 2 ^ 128 * f2 + 2 ^ 192 * f3 := by bsimp; omega
    simp only [c1]
    split
    · have c2 : (sub64 f3 half != 0 || f2 != 0 || decide (f1 > t1) || (f1 == t1 && decide (f0 > t0))) = true ↔
          t0 + 2 ^ 64 * t1 < f0 + 2 ^ 64 * f1 + 2 ^ 128 * f2 + 2 ^ 192 * f3 - 2 ^ 192 * half := by
        bsimp; unfold sub64; omega
      simp only [c2]
    · rfl

theorem r128Midpoint_spec (i : Nat) (Cs : U128) (f : U256) (fl : Ind) (hc0 : Cs.w0 < 2 ^ 64) (hc1 : Cs.w1 < 2 ^ 64)
    (h0 : f.w0 < 2 ^ 64) (h1 : f.w1 < 2 ^ 64) (h2 : f.w2 < 2 ^ 64) (h3 : f.w3 < 2 ^ 64) :
    ((r128Midpoint i Cs f fl).1.val, (r128Midpoint i Cs f fl).2) = midN Cs.val f.val (tv BID_TEN2MXTRUNC128 2 i) fl ∧
    (r128Midpoint i Cs f fl).1.w0 < 2 ^ 64 ∧ (r128Midpoint i Cs f fl).1.w1 < 2 ^ 64 := by
  obtain ⟨f0, f1, f2, f3⟩ := f
  obtain ⟨c0, c1⟩ := Cs
  simp only at h0 h1 h2 h3 hc0 hc1
  have ht0 := tw_lt w_TRUNC128 2 i 0
  have ht1 := tw_lt w_TRUNC128 2 i 1
  unfold r128Midpoint midN
  simp only [tv2, U256.val, U128.val]
  generalize tw BID_TEN2MXTRUNC128 2 i 0 = t0 at *
  generalize tw BID_TEN2MXTRUNC128 2 i 1 = t1 at *
  have c1' : (f3 == 0 && f2 == 0 && (decide (f1 < t1) || (f1 == t1 && decide (f0 ≤ t0)))) = true ↔
      f0 + 2 ^ 64 * f1 + 2 ^ 128 * f2 + 2 ^ 192 * f3 ≤ t0 + 2 ^ 64 * t1 := by bsimp; omega
  have c2' : (c0 &&& 1 == 1) = true ↔ (c0 + 2 ^ 64 * c1) % 2 = 1 := by
    rw [Nat.and_one_is_mod]; bsimp; omega
  simp only [c1', c2']
  by_cases hm : f0 + 2 ^ 64 * f1 + 2 ^ 128 * f2 + 2 ^ 192 * f3 ≤ t0 + 2 ^ 64 * t1
  · simp only [hm, if_true]
    by_cases ho : (c0 + 2 ^ 64 * c1) % 2 = 1
    · have e0 : sub64 c0 1 = c0 - 1 := by unfold sub64; omega
      have e1 : ¬ (c0 - 1 = 0xffffffffffffffff) := by omega
      simp only [ho, if_true, e0, beq_iff_eq, e1, if_false, Prod.mk.injEq, and_true]
      omega
    · simp only [ho, if_false, and_true, true_and]
      exact ⟨hc0, hc1⟩
  · simp only [hm, if_false, true_and]
    exact ⟨hc0, hc1⟩

theorem r128Ovf_spec (q x : Nat) (Cs : U128) (hn1 : 1 ≤ q - x) (hn : q - x < 38)
    (hc0 : Cs.w0 < 2 ^ 64) (hc1 : Cs.w1 < 2 ^ 64) :
    ((r128Ovf q x Cs).1.val, (r128Ovf q x Cs).2) = ovfN (q - x) Cs.val ∧
    (r128Ovf q x Cs).1.w0 < 2 ^ 64 ∧ (r128Ovf q x Cs).1.w1 < 2 ^ 64 := by
  obtain ⟨c0, c1⟩ := Cs
  simp only at hc0 hc1
  obtain ⟨hk, hr⟩ := ten2k (q - x) (by omega) hn1
  unfold r128Ovf ovfN
  generalize q - x = n at *
  simp only [U128.val]
  rw [← hk, ← hr]
  unfold K10 R10
  by_cases h19 : n ≤ 19
  · simp only [h19, if_true]
    have hb0 := tw_lt w_TEN2K64 1 n 0
    have hb1 := tw_lt w_TEN2K64 1 (n - 1) 0
    generalize tw BID_TEN2K64 1 n 0 = k at *
    generalize tw BID_TEN2K64 1 (n - 1) 0 = p at *
    have c : (c1 == 0 && c0 == k) = true ↔ c0 + 2 ^ 64 * c1 = k := by bsimp; omega
    simp only [c]
    by_cases he : c0 + 2 ^ 64 * c1 = k
    · have : c1 = 0 := by omega
      subst this
      simp [he, hb1]
    · simp [he, hc0, hc1]
  · by_cases h20 : n = 20
    · subst h20
      simp only [tv2, show ¬ (20 ≤ 19) from by omega, show (20 ≤ 38) from by omega, if_true, if_false, BEq.rfl,
        Nat.sub_self]
      have hb0 := tw_lt w_TEN2K128 2 0 0
      have hb1 := tw_lt w_TEN2K128 2 0 1
      have hb2 := tw_lt w_TEN2K64 1 19 0
      generalize tw BID_TEN2K128 2 0 0 = k0 at *
      generalize tw BID_TEN2K128 2 0 1 = k1 at *
      generalize tw BID_TEN2K64 1 19 0 = p at *
      have c : (c1 == k1 && c0 == k0) = true ↔ c0 + 2 ^ 64 * c1 = k0 + 2 ^ 64 * k1 := by bsimp; omega
      simp only [c]
      by_cases he : c0 + 2 ^ 64 * c1 = k0 + 2 ^ 64 * k1
      · simp [he, hb2]
      · simp [he, hc0, hc1]
    · have h38 : n ≤ 38 := by omega
      have hb : (n == 20) = false := by simp [h20]
      simp only [tv2, h19, h20, h38, hb, if_true, if_false, Bool.false_eq_true]
      have hb0 := tw_lt w_TEN2K128 2 (n - 20) 0
      have hb1 := tw_lt w_TEN2K128 2 (n - 20) 1
      have hb2 := tw_lt w_TEN2K128 2 (n - 21) 0
      have hb3 := tw_lt w_TEN2K128 2 (n - 21) 1
      generalize tw BID_TEN2K128 2 (n - 20) 0 = k0 at *
      generalize tw BID_TEN2K128 2 (n - 20) 1 = k1 at *
      generalize tw BID_TEN2K128 2 (n - 21) 0 = p0 at *
      generalize tw BID_TEN2K128 2 (n - 21) 1 = p1 at *
      have c : (c1 == k1 && c0 == k0) = true ↔ c0 + 2 ^ 64 * c1 = k0 + 2 ^ 64 * k1 := by bsimp; omega
      simp only [c]
      by_cases he : c0 + 2 ^ 64 * c1 = k0 + 2 ^ 64 * k1
      · simp [he, hb2, hb3]
      · simp [he, hc0, hc1]

/-- **`bid_round128_19_38` meets its specification** on its whole domain `19 ≤ q ≤ 38`, `1 ≤ x ≤ q − 1`, `C < 10^q`
(all call sites of bid128_fma.rs are inside it; see the head of the file). -/
theorem round128_spec (q x : Nat) (C : U128) (hq : 19 ≤ q) (hq' : q ≤ 38) (hx : 1 ≤ x) (hxq : x + 1 ≤ q)
    (h0 : C.w0 < 2 ^ 64) (h1 : C.w1 < 2 ^ 64) (hC : C.val < 10 ^ q) :
    Spec q x C.val (round128 q x C).cstar.val (round128 q x C).incrExp (round128 q x C).ind ∧
    (round128 q x C).cstar.w0 < 2 ^ 64 ∧ (round128 q x C).cstar.w1 < 2 ^ 64 := by
  obtain ⟨i, rfl⟩ : ∃ i, x = i + 1 := ⟨x - 1, by omega⟩
  have hi : i < 37 := by omega
  obtain ⟨⟨hs1, hs2, hmsk, hhlf, hT, hK, hb⟩, hM, hKlt⟩ := tbl128 i hi
  rw [round128_unfold]
  simp only [Nat.add_sub_cancel]
  -- the midpoint is added without wrapping
  obtain ⟨a0, a1, aval⟩ := r128AddMid_spec i C h0 h1
  have hCq : 10 ^ q ≤ 10 ^ 38 := Nat.pow_le_pow_right (by decide) hq'
  have hxi : 10 ^ (i + 1) ≤ 10 ^ 37 := Nat.pow_le_pow_right (by decide) (by omega)
  have hwrap : C.val + M128 i < 2 ^ 128 := by omega
  rw [Nat.mod_eq_of_lt hwrap] at aval
  generalize r128AddMid i C = C' at *
  -- the product
  have hP : C'.val * tv BID_KX128 2 i < 2 ^ 256 := by
    have : C'.val < 2 ^ 128 := by rw [aval]; exact hwrap
    calc C'.val * tv BID_KX128 2 i < 2 ^ 128 * 2 ^ 128 := Nat.mul_lt_mul'' this hKlt
      _ = 2 ^ 256 := by rw [← Nat.pow_add]
  obtain ⟨sv, s0, s1, fv, f0, f1, f2, f3, fz⟩ := r128Split_spec i _ hP hs1 hs2 hmsk
  generalize r128Split i (C'.val * tv BID_KX128 2 i) = sp at *
  -- the two decision blocks
  have hin := r128Inexact_spec i sp.2 f0 f1 f2 f3 fz
  obtain ⟨hmid, m0, m1⟩ := r128Midpoint_spec i sp.1 sp.2 (r128Inexact i sp.2) s0 s1 f0 f1 f2 f3
  generalize r128Midpoint i sp.1 sp.2 (r128Inexact i sp.2) = m at *
  rw [hin, sv, fv, aval] at hmid
  have hHf : 2 * (2 ^ (if i ≤ 18 then 128 else 192) * tw BID_HALF128 1 i 0) = 2 ^ E128 i := by
    unfold E128; rw [Nat.pow_add, ← hhlf]; generalize (2 ^ (if i ≤ 18 then 128 else 192)) = A; 
    generalize tw BID_HALF128 1 i 0 = B; rw [Nat.mul_left_comm]
  have hpos : 0 < M128 i := by
    have : 0 < 10 ^ (i + 1) := Nat.pow_pos (by decide)
    omega
  rw [stages_spec (i + 1) C.val (M128 i) _ _ _ _ (15 * 10 ^ 37) hM hpos hT hK hb hHf (by omega)] at hmid
  obtain ⟨hm1, hm2⟩ := Prod.mk.inj hmid
  -- the rounding-overflow block
  obtain ⟨hov, o0, o1⟩ := r128Ovf_spec q (i + 1) m.1 (by omega) (by omega) m0 m1
  refine ⟨Spec.of_blocks _ _ _ _ _ _ ?_ hm2, o0, o1⟩
  rw [hov, hm1]; rfl

-- q = 35, x = 1 (the call at line 2720 of bid128_fma.rs), C = 10^35 − 5: a tie, odd quotient, carries to 10^34 → 10^33
example : round128 35 1 (u128 (10 ^ 35 - 5)) = ⟨u128 (10 ^ 33), true, { midLtEven := true }⟩ := by decide +kernel
-- both halves of the midpoint table (x = 19 reads BID_MIDPOINT64, x = 20 BID_MIDPOINT128), 38 digits
example : round128 38 19 (u128 (12345678901234567895 * 10 ^ 18 + 1)) =
    ⟨u128 1234567890123456790, false, { inexGtMid := true }⟩ := by decide +kernel
example : round128 38 20 (u128 (12345678901234567850 * 10 ^ 18)) =
    ⟨u128 123456789012345678, false, { midGtEven := true }⟩ := by decide +kernel

/-! ### bid_round192_39_57 -/

theorem round192_unfold (q x : Nat) (C : U192) :
    round192 q x C =
      (let i := x - 1
       let C' := r192AddMid i C
       let P := C'.val * tv BID_KX192 3 i
       let sp := r192Split i P
       let m := r192Midpoint i sp.1 sp.2 (r192Inexact i sp.2)
       let o := r192Ovf q x m.1
       { cstar := o.1, incrExp := o.2, ind := m.2 }) := rfl

theorem r192AddMid_spec (i : Nat) (C : U192) (h0 : C.w0 < 2 ^ 64) (h1 : C.w1 < 2 ^ 64) (h2 : C.w2 < 2 ^ 64) :
    (r192AddMid i C).w0 < 2 ^ 64 ∧ (r192AddMid i C).w1 < 2 ^ 64 ∧ (r192AddMid i C).w2 < 2 ^ 64 ∧
    (r192AddMid i C).val = (C.val + M192 i) % 2 ^ 192 := by
  obtain ⟨c0, c1, c2⟩ := C
  simp only at h0 h1 h2
  unfold r192AddMid M192
  by_cases hi : i ≤ 18
  · simp only [hi, if_true]
    have hm := tw_lt w_MIDPOINT64 1 i 0
    generalize tw BID_MIDPOINT64 1 i 0 = m at *
    simp only [U192.val]
    (repeat' split) <;> simp only [add64, beq_iff_eq] at * <;> omega
  · by_cases hi2 : i ≤ 37
    · simp only [hi, hi2, if_true, if_false, tv2]
      have hm0 := tw_lt w_MIDPOINT128 2 (i - 19) 0
      have hm1 := tw_lt w_MIDPOINT128 2 (i - 19) 1
      generalize tw BID_MIDPOINT128 2 (i - 19) 0 = m0 at *
      generalize tw BID_MIDPOINT128 2 (i - 19) 1 = m1 at *
      simp only [U192.val]
      (repeat' split) <;> simp only [add64, beq_iff_eq] at * <;> omega
    · simp only [hi, hi2, if_false, tv3]
      have hm0 := tw_lt w_MIDPOINT192 3 (i - 38) 0
      have hm1 := tw_lt w_MIDPOINT192 3 (i - 38) 1
      have hm2 := tw_lt w_MIDPOINT192 3 (i - 38) 2
      generalize tw BID_MIDPOINT192 3 (i - 38) 0 = m0 at *
      generalize tw BID_MIDPOINT192 3 (i - 38) 1 = m1 at *
      generalize tw BID_MIDPOINT192 3 (i - 38) 2 = m2 at *
      simp only [U192.val]
      (repeat' split) <;> simp only [add64, beq_iff_eq] at * <;> omega

theorem r192Split_spec (i : Nat) (P : Nat) (hP : P < 2 ^ 384)
    (h1 : 1 ≤ tw BID_EX192M192 1 i 0) (h2 : tw BID_EX192M192 1 i 0 ≤ 63)
    (hm : tw BID_MASK192 1 i 0 = 2 ^ (tw BID_EX192M192 1 i 0) - 1) :
    (r192Split i P).1.val = P / 2 ^ (E192 i) ∧ (r192Split i P).1.w0 < 2 ^ 64 ∧ (r192Split i P).1.w1 < 2 ^ 64 ∧
    (r192Split i P).1.w2 < 2 ^ 64 ∧
    (r192Split i P).2.val = P % 2 ^ (E192 i) ∧ (r192Split i P).2.w0 < 2 ^ 64 ∧ (r192Split i P).2.w1 < 2 ^ 64 ∧
    (r192Split i P).2.w2 < 2 ^ 64 ∧ (r192Split i P).2.w3 < 2 ^ 64 ∧ (r192Split i P).2.w4 < 2 ^ 64 ∧
    (r192Split i P).2.w5 < 2 ^ 64 ∧ (i ≤ 18 → (r192Split i P).2.w4 = 0) ∧ (i ≤ 37 → (r192Split i P).2.w5 = 0) := by
  unfold r192Split E192
  rw [hm]
  generalize tw BID_EX192M192 1 i 0 = s at *
  have hS := pow_le_W s h2
  by_cases hi : i ≤ 18
  · simp only [hi, if_true, U192.val, U384.val]
    rw [funnelZ P 3 s (192 + s) 0 h1 h2 (by omega), funnelZ P 4 s (192 + s) 1 h1 h2 (by omega),
      shrZ P 5 s (192 + s) 2 h2 hP (by omega), and_mask P 3 s (by omega), modsplit]
    have hZ : P / 2 ^ (192 + s) < 2 ^ 192 := shifted_lt P 384 _ _ hP (by omega)
    have hF := Nat.mod_lt (P / 2 ^ (64 * 3)) (Nat.pow_pos (n := s) (by decide : 0 < 2))
    generalize P / 2 ^ (192 + s) = Z at *
    generalize P / 2 ^ (64 * 3) % 2 ^ s = Fr at *
    unfold wd
    refine ⟨?_, ?_, ?_, ?_, ?_, ?_, ?_, ?_, ?_, ?_, ?_, ?_, ?_⟩ <;> first | omega | simp
  · by_cases hi2 : i ≤ 37
    · simp only [hi, hi2, if_true, if_false, U192.val, U384.val]
      rw [funnelZ P 4 s (256 + s) 0 h1 h2 (by omega), shrZ P 5 s (256 + s) 1 h2 hP (by omega),
        and_mask P 4 s (by omega), modsplit]
      have hZ : P / 2 ^ (256 + s) < 2 ^ 128 := shifted_lt P 384 _ _ hP (by omega)
      have hF := Nat.mod_lt (P / 2 ^ (64 * 4)) (Nat.pow_pos (n := s) (by decide : 0 < 2))
      generalize P / 2 ^ (256 + s) = Z at *
      generalize P / 2 ^ (64 * 4) % 2 ^ s = Fr at *
      unfold wd
      refine ⟨?_, ?_, ?_, ?_, ?_, ?_, ?_, ?_, ?_, ?_, ?_, ?_, ?_⟩ <;> first | omega | simp
    · simp only [hi, hi2, if_false, U192.val, U384.val]
      rw [shrZ P 5 s (320 + s) 0 h2 hP (by omega), and_mask P 5 s (by omega), modsplit]
      have hZ : P / 2 ^ (320 + s) < 2 ^ 64 := shifted_lt P 384 _ _ hP (by omega)
      have hF := Nat.mod_lt (P / 2 ^ (64 * 5)) (Nat.pow_pos (n := s) (by decide : 0 < 2))
      generalize P / 2 ^ (320 + s) = Z at *
      generalize P / 2 ^ (64 * 5) % 2 ^ s = Fr at *
      unfold wd
      refine ⟨?_, ?_, ?_, ?_, ?_, ?_, ?_, ?_, ?_, ?_, ?_, ?_, ?_⟩ <;> first | omega | simp

theorem gtT192_spec (i : Nat) (f : U384) (h0 : f.w0 < 2 ^ 64) (h1 : f.w1 < 2 ^ 64) :
    gtT192 f i = true ↔ tv BID_TEN2MXTRUNC192 3 i < f.w0 + 2 ^ 64 * f.w1 + 2 ^ 128 * f.w2 := by
  have ht0 := tw_lt w_TRUNC192 3 i 0
  have ht1 := tw_lt w_TRUNC192 3 i 1
  have ht2 := tw_lt w_TRUNC192 3 i 2
  unfold gtT192
  rw [tv3]
  generalize tw BID_TEN2MXTRUNC192 3 i 0 = t0 at *
  generalize tw BID_TEN2MXTRUNC192 3 i 1 = t1 at *
  generalize tw BID_TEN2MXTRUNC192 3 i 2 = t2 at *
  bsimp; omega

theorem r192Inexact_spec (i : Nat) (f : U384) (h0 : f.w0 < 2 ^ 64) (h1 : f.w1 < 2 ^ 64) (h2 : f.w2 < 2 ^ 64)
    (h3 : f.w3 < 2 ^ 64) (h4 : f.w4 < 2 ^ 64) (h5 : f.w5 < 2 ^ 64) (hz4 : i ≤ 18 → f.w4 = 0) (hz5 : i ≤ 37 → f.w5 = 0) :
    r192Inexact i f = inexN f.val (2 ^ (if i ≤ 18 then 192 else if i ≤ 37 then 256 else 320) * tw BID_HALF192 1 i 0)
      (tv BID_TEN2MXTRUNC192 3 i) := by
  have hg := gtT192_spec i f h0 h1
  obtain ⟨f0, f1, f2, f3, f4, f5⟩ := f
  simp only at h0 h1 h2 h3 h4 h5 hz4 hz5 hg
  have hh := tw_lt w_HALF192 1 i 0
  have htv : tv BID_TEN2MXTRUNC192 3 i < 2 ^ 192 := by
    rw [tv3]
    have ht0 := tw_lt w_TRUNC192 3 i 0
    have ht1 := tw_lt w_TRUNC192 3 i 1
    have ht2 := tw_lt w_TRUNC192 3 i 2
    omega
  unfold r192Inexact inexN
  simp only [U384.val]
  generalize tw BID_HALF192 1 i 0 = half at *
  generalize tv BID_TEN2MXTRUNC192 3 i = T at *
  generalize gtT192 ⟨f0, f1, f2, f3, f4, f5⟩ i = g at *
  by_cases hi : i ≤ 18
  · have := hz4 hi; subst this
    have := hz5 (by omega); subst this
    simp only [hi, if_true]
    have c1 : (decide (f3 > half) || (f3 == half && (f2 != 0 || f1 != 0 || f0 != 0))) = true ↔
        2 ^ 192 * half < f0 + 2 ^ 64 * f1 + 2 ^ 128 * f2 + 2 ^ 192 * f3 + 2 ^ 256 * 0 + 2 ^ 320 * 0 := by bsimp; omega
    simp only [c1]
    split
    · have c2 : (sub64 f3 half != 0 || g) = true ↔
          T < f0 + 2 ^ 64 * f1 + 2 ^ 128 * f2 + 2 ^ 192 * f3 + 2 ^ 256 * 0 + 2 ^ 320 * 0 - 2 ^ 192 * half := by
        bsimp; rw [hg]; unfold sub64; omega
      simp only [c2]
    · rfl
  · by_cases hi2 : i ≤ 37
    · have := hz5 hi2; subst this
      simp only [hi, hi2, if_true, if_false]
      have c1 : (decide (f4 > half) || (f4 == half && (f3 != 0 || f2 != 0 || f1 != 0 || f0 != 0))) = true ↔
          2 ^ 256 * half < f0 + 2 ^ 64 * f1 + 2 ^ 128 * f2 + 2 ^ 192 * f3 + 2 ^ 256 * f4 + 2 ^ 320 * 0 := by
        bsimp; omega
      simp only [c1]
      split
      · have c2 : (sub64 f4 half != 0 || f3 != 0 || g) = true ↔
            T < f0 + 2 ^ 64 * f1 + 2 ^ 128 * f2 + 2 ^ 192 * f3 + 2 ^ 256 * f4 + 2 ^ 320 * 0 - 2 ^ 256 * half := by
          bsimp; rw [hg]; unfold sub64; omega
        simp only [c2]
      · rfl
    · simp only [hi, hi2, if_false]
      have c1 : (decide (f5 > half) || (f5 == half && (f4 != 0 || f3 != 0 || f2 != 0 || f1 != 0 || f0 != 0))) = true ↔
          2 ^ 320 * half < f0 + 2 ^ 64 * f1 + 2 ^ 128 * f2 + 2 ^ 192 * f3 + 2 ^ 256 * f4 + 2 ^ 320 * f5 := by
        bsimp; omega
      simp only [c1]
      split
      · have c2 : (sub64 f5 half != 0 || f4 != 0 || f3 != 0 || g) = true ↔
            T < f0 + 2 ^ 64 * f1 + 2 ^ 128 * f2 + 2 ^ 192 * f3 + 2 ^ 256 * f4 + 2 ^ 320 * f5 - 2 ^ 320 * half := by
          bsimp; rw [hg]; unfold sub64; omega
        simp only [c2]
      · rfl

theorem r192Midpoint_spec (i : Nat) (Cs : U192) (f : U384) (fl : Ind) (hc0 : Cs.w0 < 2 ^ 64) (hc1 : Cs.w1 < 2 ^ 64)
    (hc2 : Cs.w2 < 2 ^ 64) (h0 : f.w0 < 2 ^ 64) (h1 : f.w1 < 2 ^ 64) (h2 : f.w2 < 2 ^ 64) (h3 : f.w3 < 2 ^ 64)
    (h4 : f.w4 < 2 ^ 64) (h5 : f.w5 < 2 ^ 64) :
    ((r192Midpoint i Cs f fl).1.val, (r192Midpoint i Cs f fl).2) = midN Cs.val f.val (tv BID_TEN2MXTRUNC192 3 i) fl ∧
    (r192Midpoint i Cs f fl).1.w0 < 2 ^ 64 ∧ (r192Midpoint i Cs f fl).1.w1 < 2 ^ 64 ∧
    (r192Midpoint i Cs f fl).1.w2 < 2 ^ 64 := by
  obtain ⟨f0, f1, f2, f3, f4, f5⟩ := f
  obtain ⟨c0, c1, c2⟩ := Cs
  simp only at h0 h1 h2 h3 h4 h5 hc0 hc1 hc2
  have ht0 := tw_lt w_TRUNC192 3 i 0
  have ht1 := tw_lt w_TRUNC192 3 i 1
  have ht2 := tw_lt w_TRUNC192 3 i 2
  unfold r192Midpoint midN
  simp only [tv3, U384.val, U192.val]
  generalize tw BID_TEN2MXTRUNC192 3 i 0 = t0 at *
  generalize tw BID_TEN2MXTRUNC192 3 i 1 = t1 at *
  generalize tw BID_TEN2MXTRUNC192 3 i 2 = t2 at *
  have c1' : (f5 == 0 && f4 == 0 && f3 == 0 &&
        (decide (f2 < t2) || (f2 == t2 && decide (f1 < t1)) || (f2 == t2 && f1 == t1 && decide (f0 ≤ t0)))) = true ↔
      f0 + 2 ^ 64 * f1 + 2 ^ 128 * f2 + 2 ^ 192 * f3 + 2 ^ 256 * f4 + 2 ^ 320 * f5 ≤ t0 + 2 ^ 64 * t1 + 2 ^ 128 * t2 := by
    bsimp; omega
  have c2' : (c0 &&& 1 == 1) = true ↔ (c0 + 2 ^ 64 * c1 + 2 ^ 128 * c2) % 2 = 1 := by
    rw [Nat.and_one_is_mod]; bsimp; omega
  simp only [c1', c2']
  by_cases hm : f0 + 2 ^ 64 * f1 + 2 ^ 128 * f2 + 2 ^ 192 * f3 + 2 ^ 256 * f4 + 2 ^ 320 * f5 ≤
      t0 + 2 ^ 64 * t1 + 2 ^ 128 * t2
  · simp only [hm, if_true]
    by_cases ho : (c0 + 2 ^ 64 * c1 + 2 ^ 128 * c2) % 2 = 1
    · have e0 : sub64 c0 1 = c0 - 1 := by unfold sub64; omega
      have e1 : ¬ (c0 - 1 = 0xffffffffffffffff) := by omega
      simp only [ho, if_true, e0, beq_iff_eq, e1, if_false, Prod.mk.injEq, and_true]
      omega
    · simp only [ho, if_false, and_true, true_and]
      exact ⟨hc0, hc1, hc2⟩
  · simp only [hm, if_false, true_and]
    exact ⟨hc0, hc1, hc2⟩

theorem r192Ovf_spec (q x : Nat) (Cs : U192) (hn1 : 1 ≤ q - x) (hn : q - x < 57)
    (hc0 : Cs.w0 < 2 ^ 64) (hc1 : Cs.w1 < 2 ^ 64) (hc2 : Cs.w2 < 2 ^ 64) :
    ((r192Ovf q x Cs).1.val, (r192Ovf q x Cs).2) = ovfN (q - x) Cs.val ∧
    (r192Ovf q x Cs).1.w0 < 2 ^ 64 ∧ (r192Ovf q x Cs).1.w1 < 2 ^ 64 ∧ (r192Ovf q x Cs).1.w2 < 2 ^ 64 := by
  obtain ⟨c0, c1, c2⟩ := Cs
  simp only at hc0 hc1 hc2
  obtain ⟨hk, hr⟩ := ten2k (q - x) (by omega) hn1
  unfold r192Ovf ovfN
  generalize q - x = n at *
  simp only [U192.val]
  rw [← hk, ← hr]
  unfold K10 R10
  by_cases h19 : n ≤ 19
  · simp only [h19, if_true]
    have hb1 := tw_lt w_TEN2K64 1 (n - 1) 0
    have hb0 := tw_lt w_TEN2K64 1 n 0
    generalize tw BID_TEN2K64 1 n 0 = k at *
    generalize tw BID_TEN2K64 1 (n - 1) 0 = p at *
    have c : (c2 == 0 && c1 == 0 && c0 == k) = true ↔ c0 + 2 ^ 64 * c1 + 2 ^ 128 * c2 = k := by bsimp; omega
    simp only [c]
    by_cases he : c0 + 2 ^ 64 * c1 + 2 ^ 128 * c2 = k
    · have : c1 = 0 := by omega
      subst this
      have : c2 = 0 := by omega
      subst this
      simp [he, hb1]
    · simp [he, hc0, hc1, hc2]
  · by_cases h20 : n = 20
    · subst h20
      simp only [tv2, show ¬ (20 ≤ 19) from by omega, show (20 ≤ 38) from by omega, if_true, if_false, BEq.rfl,
        Nat.sub_self]
      have hb0 := tw_lt w_TEN2K128 2 0 0
      have hb1 := tw_lt w_TEN2K128 2 0 1
      have hb2 := tw_lt w_TEN2K64 1 19 0
      generalize tw BID_TEN2K128 2 0 0 = k0 at *
      generalize tw BID_TEN2K128 2 0 1 = k1 at *
      generalize tw BID_TEN2K64 1 19 0 = p at *
      have c : (c2 == 0 && c1 == k1 && c0 == k0) = true ↔
          c0 + 2 ^ 64 * c1 + 2 ^ 128 * c2 = k0 + 2 ^ 64 * k1 := by bsimp; omega
      simp only [c]
      by_cases he : c0 + 2 ^ 64 * c1 + 2 ^ 128 * c2 = k0 + 2 ^ 64 * k1
      · have : c2 = 0 := by omega
        subst this
        simp [he, hb2]
      · simp [he, hc0, hc1, hc2]
    · have hb20 : (n == 20) = false := by simp [h20]
      by_cases h38 : n ≤ 38
      · simp only [tv2, h19, h20, h38, hb20, if_true, if_false, Bool.false_eq_true]
        have hb0 := tw_lt w_TEN2K128 2 (n - 20) 0
        have hb1 := tw_lt w_TEN2K128 2 (n - 20) 1
        have hb2 := tw_lt w_TEN2K128 2 (n - 21) 0
        have hb3 := tw_lt w_TEN2K128 2 (n - 21) 1
        generalize tw BID_TEN2K128 2 (n - 20) 0 = k0 at *
        generalize tw BID_TEN2K128 2 (n - 20) 1 = k1 at *
        generalize tw BID_TEN2K128 2 (n - 21) 0 = p0 at *
        generalize tw BID_TEN2K128 2 (n - 21) 1 = p1 at *
        have c : (c2 == 0 && c1 == k1 && c0 == k0) = true ↔
            c0 + 2 ^ 64 * c1 + 2 ^ 128 * c2 = k0 + 2 ^ 64 * k1 := by bsimp; omega
        simp only [c]
        by_cases he : c0 + 2 ^ 64 * c1 + 2 ^ 128 * c2 = k0 + 2 ^ 64 * k1
        · have : c2 = 0 := by omega
          subst this
          simp [he, hb2, hb3]
        · simp [he, hc0, hc1, hc2]
      · by_cases h39 : n = 39
        · subst h39
          simp only [tv2, tv4, show ¬ (39 ≤ 19) from by omega, show ¬ (39 ≤ 38) from by omega,
            show ¬ (39 = 20) from by omega, show (39 == 20) = false from rfl, show (39 == 39) = true from rfl,
            if_true, if_false, Nat.sub_self, Bool.false_eq_true]
          have hz := ten2k256_top 0 (by omega)
          have hb0 := tw_lt w_TEN2K256 4 0 0
          have hb1 := tw_lt w_TEN2K256 4 0 1
          have hb2 := tw_lt w_TEN2K256 4 0 2
          have hb3 := tw_lt w_TEN2K128 2 18 0
          have hb4 := tw_lt w_TEN2K128 2 18 1
          rw [hz]
          simp only [Nat.mul_zero, Nat.add_zero]
          generalize tw BID_TEN2K256 4 0 0 = k0 at *
          generalize tw BID_TEN2K256 4 0 1 = k1 at *
          generalize tw BID_TEN2K256 4 0 2 = k2 at *
          generalize tw BID_TEN2K128 2 18 0 = p0 at *
          generalize tw BID_TEN2K128 2 18 1 = p1 at *
          have c : (c2 == k2 && c1 == k1 && c0 == k0) = true ↔
              c0 + 2 ^ 64 * c1 + 2 ^ 128 * c2 = k0 + 2 ^ 64 * k1 + 2 ^ 128 * k2 := by bsimp; omega
          simp only [c]
          by_cases he : c0 + 2 ^ 64 * c1 + 2 ^ 128 * c2 = k0 + 2 ^ 64 * k1 + 2 ^ 128 * k2
          · simp [he, hb3, hb4]
          · simp [he, hc0, hc1, hc2]
        · have hb39 : (n == 39) = false := by simp [h39]
          simp only [tv4, h19, h20, h38, h39, hb20, hb39, if_false, Bool.false_eq_true]
          have hz := ten2k256_top (n - 39) (by omega)
          have hz' := ten2k256_top (n - 40) (by omega)
          have hb0 := tw_lt w_TEN2K256 4 (n - 39) 0
          have hb1 := tw_lt w_TEN2K256 4 (n - 39) 1
          have hb2 := tw_lt w_TEN2K256 4 (n - 39) 2
          have hb3 := tw_lt w_TEN2K256 4 (n - 40) 0
          have hb4 := tw_lt w_TEN2K256 4 (n - 40) 1
          have hb5 := tw_lt w_TEN2K256 4 (n - 40) 2
          rw [hz, hz']
          simp only [Nat.mul_zero, Nat.add_zero]
          generalize tw BID_TEN2K256 4 (n - 39) 0 = k0 at *
          generalize tw BID_TEN2K256 4 (n - 39) 1 = k1 at *
          generalize tw BID_TEN2K256 4 (n - 39) 2 = k2 at *
          generalize tw BID_TEN2K256 4 (n - 40) 0 = p0 at *
          generalize tw BID_TEN2K256 4 (n - 40) 1 = p1 at *
          generalize tw BID_TEN2K256 4 (n - 40) 2 = p2 at *
          have c : (c2 == k2 && c1 == k1 && c0 == k0) = true ↔
              c0 + 2 ^ 64 * c1 + 2 ^ 128 * c2 = k0 + 2 ^ 64 * k1 + 2 ^ 128 * k2 := by bsimp; omega
          simp only [c]
          by_cases he : c0 + 2 ^ 64 * c1 + 2 ^ 128 * c2 = k0 + 2 ^ 64 * k1 + 2 ^ 128 * k2
          · simp [he, hb3, hb4, hb5]
          · simp [he, hc0, hc1, hc2]

/-- **`bid_round192_39_57` meets its specification** on its whole domain `39 ≤ q ≤ 57`, `1 ≤ x ≤ q − 1`, `C < 10^q`
(all call sites of bid128_fma.rs are inside it; see the head of the file). -/
theorem round192_spec (q x : Nat) (C : U192) (hq : 39 ≤ q) (hq' : q ≤ 57) (hx : 1 ≤ x) (hxq : x + 1 ≤ q)
    (h0 : C.w0 < 2 ^ 64) (h1 : C.w1 < 2 ^ 64) (h2 : C.w2 < 2 ^ 64) (hC : C.val < 10 ^ q) :
    Spec q x C.val (round192 q x C).cstar.val (round192 q x C).incrExp (round192 q x C).ind ∧
    (round192 q x C).cstar.w0 < 2 ^ 64 ∧ (round192 q x C).cstar.w1 < 2 ^ 64 ∧ (round192 q x C).cstar.w2 < 2 ^ 64 := by
  obtain ⟨i, rfl⟩ : ∃ i, x = i + 1 := ⟨x - 1, by omega⟩
  have hi : i < 56 := by omega
  obtain ⟨⟨hs1, hs2, hmsk, hhlf, hT, hK, hb⟩, hM, hKlt⟩ := tbl192 i hi
  rw [round192_unfold]
  simp only [Nat.add_sub_cancel]
  -- the midpoint is added without wrapping
  obtain ⟨a0, a1, a2, aval⟩ := r192AddMid_spec i C h0 h1 h2
  have hCq : 10 ^ q ≤ 10 ^ 57 := Nat.pow_le_pow_right (by decide) hq'
  have hxi : 10 ^ (i + 1) ≤ 10 ^ 56 := Nat.pow_le_pow_right (by decide) (by omega)
  have hwrap : C.val + M192 i < 2 ^ 192 := by omega
  rw [Nat.mod_eq_of_lt hwrap] at aval
  generalize r192AddMid i C = C' at *
  -- the product
  have hP : C'.val * tv BID_KX192 3 i < 2 ^ 384 := by
    have : C'.val < 2 ^ 192 := by rw [aval]; exact hwrap
    calc C'.val * tv BID_KX192 3 i < 2 ^ 192 * 2 ^ 192 := Nat.mul_lt_mul'' this hKlt
      _ = 2 ^ 384 := by rw [← Nat.pow_add]
  obtain ⟨sv, s0, s1, s2, fv, f0, f1, f2, f3, f4, f5, fz4, fz5⟩ := r192Split_spec i _ hP hs1 hs2 hmsk
  generalize r192Split i (C'.val * tv BID_KX192 3 i) = sp at *
  -- the two decision blocks
  have hin := r192Inexact_spec i sp.2 f0 f1 f2 f3 f4 f5 fz4 fz5
  obtain ⟨hmid, m0, m1, m2⟩ := r192Midpoint_spec i sp.1 sp.2 (r192Inexact i sp.2) s0 s1 s2 f0 f1 f2 f3 f4 f5
  generalize r192Midpoint i sp.1 sp.2 (r192Inexact i sp.2) = m at *
  rw [hin, sv, fv, aval] at hmid
  have hHf : 2 * (2 ^ (if i ≤ 18 then 192 else if i ≤ 37 then 256 else 320) * tw BID_HALF192 1 i 0) = 2 ^ E192 i := by
    unfold E192; rw [Nat.pow_add, ← hhlf, Nat.mul_left_comm]
  have hpos : 0 < M192 i := by
    have : 0 < 10 ^ (i + 1) := Nat.pow_pos (by decide)
    omega
  rw [stages_spec (i + 1) C.val (M192 i) _ _ _ _ (15 * 10 ^ 56) hM hpos hT hK hb hHf (by omega)] at hmid
  obtain ⟨hm1, hm2⟩ := Prod.mk.inj hmid
  -- the rounding-overflow block
  obtain ⟨hov, o0, o1, o2⟩ := r192Ovf_spec q (i + 1) m.1 (by omega) (by omega) m0 m1 m2
  refine ⟨Spec.of_blocks _ _ _ _ _ _ ?_ hm2, o0, o1, o2⟩
  rw [hov, hm1]; rfl

-- q = 57, x = 23 (rounding a 57-digit product to 34 digits): just below the midpoint
example : round192 57 23 (u192 (1234567890123456789012345678901234 * 10 ^ 23 + 5 * 10 ^ 22 - 1)) =
    ⟨u192 1234567890123456789012345678901234, false, { inexLtMid := true }⟩ := by decide +kernel
-- x = q − 1 (rounding to one digit, lines 1925 / 2353): 95·10^38 → 10 → replaced by 1, incr_exp
example : round192 40 39 (u192 (95 * 10 ^ 38)) = ⟨u192 1, true, { midLtEven := true }⟩ := by decide +kernel

/-! ### bid_round256_58_76 -/

theorem round256_unfold (q x : Nat) (C : U256) :
    round256 q x C =
      (let i := x - 1
       let C' := r256AddMid i C
       let P := C'.val * tv BID_KX256 4 i
       let sp := r256Split i P
       let m := r256Midpoint i sp.1 sp.2 (r256Inexact i sp.2)
       let o := r256Ovf q x m.1
       { cstar := o.1, incrExp := o.2, ind := m.2 }) := rfl

/-- what every row of the 256-bit tables has, row 57 included -/
theorem tbl256_all (i : Nat) (hi : i < 75) :
    tv BID_TEN2MXTRUNC256 4 i + 1 = tv BID_KX256 4 i ∧ 2 ^ E256 i < tv BID_KX256 4 i * 10 ^ (i + 1) ∧
    (15 * 10 ^ 75 / 10 ^ (i + 1) + 1) * (tv BID_KX256 4 i * 10 ^ (i + 1) - 2 ^ E256 i) < tv BID_KX256 4 i ∧
    2 * M256 i = 10 ^ (i + 1) ∧ tv BID_KX256 4 i < 2 ^ 256 := by
  by_cases h57 : i = 57
  · subst h57
    obtain ⟨hs, _, hT, hK, hb, hM, hKlt⟩ := tbl256_57
    have hE : E256 57 = 448 := by unfold E256; rw [hs]; rfl
    rw [hE]
    exact ⟨hT, hK, hb, hM, hKlt⟩
  · obtain ⟨⟨_, _, _, _, hT, hK, hb⟩, hM, hKlt, _⟩ := tbl256 i hi h57
    exact ⟨hT, hK, hb, hM, hKlt⟩

/-- one half, as the branches of the inexactness block place it (`BID_HALF256[ind]` in word 4, 5, 6 or 7), is `2^(Ex−1)` -/
theorem half256 (i : Nat) (hi : i < 75) :
    2 * (2 ^ (if i ≤ 18 then 256 else if i ≤ 37 then 320 else if i ≤ 57 then 384 else 448) * tw BID_HALF256 1 i 0) =
      2 ^ E256 i := by
  by_cases h57 : i = 57
  · subst h57
    obtain ⟨hs, hh, _⟩ := tbl256_57
    unfold E256; rw [hs, hh]; decide
  · obtain ⟨⟨_, _, _, hhlf, _⟩, _⟩ := tbl256 i hi h57
    unfold E256
    rw [Nat.pow_add, ← hhlf, Nat.mul_left_comm]
    by_cases h1 : i ≤ 18
    · simp only [h1, if_true]
    · by_cases h2 : i ≤ 37
      · simp only [h1, h2, if_true, if_false]
      · by_cases h3 : i ≤ 56
        · simp only [h1, h2, h3, show i ≤ 57 from by omega, if_true, if_false]
        · simp only [h1, h2, h3, show ¬ i ≤ 57 from by omega, if_false]

theorem r256Add0_spec (C : U256) (m : Nat) (hm : m < 2 ^ 64) (h0 : C.w0 < 2 ^ 64) (h1 : C.w1 < 2 ^ 64)
    (h2 : C.w2 < 2 ^ 64) (h3 : C.w3 < 2 ^ 64) :
    (r256Add0 C m).w0 < 2 ^ 64 ∧ (r256Add0 C m).w1 < 2 ^ 64 ∧ (r256Add0 C m).w2 < 2 ^ 64 ∧
    (r256Add0 C m).w3 < 2 ^ 64 ∧ (r256Add0 C m).val = (C.val + m) % 2 ^ 256 := by
  obtain ⟨c0, c1, c2, c3⟩ := C
  simp only at h0 h1 h2 h3
  unfold r256Add0
  simp only [U256.val]
  (repeat' split) <;> simp only [add64, beq_iff_eq] at * <;> omega

theorem r256Add1_spec (C : U256) (m : Nat) (hm : m < 2 ^ 64) (h0 : C.w0 < 2 ^ 64) (h1 : C.w1 < 2 ^ 64)
    (h2 : C.w2 < 2 ^ 64) (h3 : C.w3 < 2 ^ 64) :
    (r256Add1 C m).w0 < 2 ^ 64 ∧ (r256Add1 C m).w1 < 2 ^ 64 ∧ (r256Add1 C m).w2 < 2 ^ 64 ∧
    (r256Add1 C m).w3 < 2 ^ 64 ∧ (r256Add1 C m).val = (C.val + 2 ^ 64 * m) % 2 ^ 256 := by
  obtain ⟨c0, c1, c2, c3⟩ := C
  simp only at h0 h1 h2 h3
  unfold r256Add1
  simp only [U256.val]
  (repeat' split) <;> simp only [add64, beq_iff_eq] at * <;> omega

theorem r256Add2_spec (C : U256) (m : Nat) (hm : m < 2 ^ 64) (h0 : C.w0 < 2 ^ 64) (h1 : C.w1 < 2 ^ 64)
    (h2 : C.w2 < 2 ^ 64) (h3 : C.w3 < 2 ^ 64) :
    (r256Add2 C m).w0 < 2 ^ 64 ∧ (r256Add2 C m).w1 < 2 ^ 64 ∧ (r256Add2 C m).w2 < 2 ^ 64 ∧
    (r256Add2 C m).w3 < 2 ^ 64 ∧ (r256Add2 C m).val = (C.val + 2 ^ 128 * m) % 2 ^ 256 := by
  obtain ⟨c0, c1, c2, c3⟩ := C
  simp only at h0 h1 h2 h3
  unfold r256Add2
  simp only [U256.val]
  (repeat' split) <;> simp only [add64, beq_iff_eq] at * <;> omega

theorem r256Add3_spec (C : U256) (m : Nat) (h0 : C.w0 < 2 ^ 64) (h1 : C.w1 < 2 ^ 64)
    (h2 : C.w2 < 2 ^ 64) (h3 : C.w3 < 2 ^ 64) :
    (r256Add3 C m).w0 < 2 ^ 64 ∧ (r256Add3 C m).w1 < 2 ^ 64 ∧ (r256Add3 C m).w2 < 2 ^ 64 ∧
    (r256Add3 C m).w3 < 2 ^ 64 ∧ (r256Add3 C m).val = (C.val + 2 ^ 192 * m) % 2 ^ 256 := by
  obtain ⟨c0, c1, c2, c3⟩ := C
  simp only at h0 h1 h2 h3
  unfold r256Add3
  simp only [U256.val, add64]
  omega

theorem r256AddMid_spec (i : Nat) (C : U256) (h0 : C.w0 < 2 ^ 64) (h1 : C.w1 < 2 ^ 64) (h2 : C.w2 < 2 ^ 64)
    (h3 : C.w3 < 2 ^ 64) :
    (r256AddMid i C).w0 < 2 ^ 64 ∧ (r256AddMid i C).w1 < 2 ^ 64 ∧ (r256AddMid i C).w2 < 2 ^ 64 ∧
    (r256AddMid i C).w3 < 2 ^ 64 ∧ (r256AddMid i C).val = (C.val + M256 i) % 2 ^ 256 := by
  unfold r256AddMid M256
  by_cases hi : i ≤ 18
  · simp only [hi, if_true]
    exact r256Add0_spec C _ (tw_lt w_MIDPOINT64 1 i 0) h0 h1 h2 h3
  · by_cases hi2 : i ≤ 37
    · simp only [hi, hi2, if_true, if_false, tv2]
      obtain ⟨a0, a1, a2, a3, av⟩ := r256Add0_spec C _ (tw_lt w_MIDPOINT128 2 (i - 19) 0) h0 h1 h2 h3
      obtain ⟨b0, b1, b2, b3, bv⟩ := r256Add1_spec _ _ (tw_lt w_MIDPOINT128 2 (i - 19) 1) a0 a1 a2 a3
      refine ⟨b0, b1, b2, b3, ?_⟩
      rw [bv, av]; omega
    · by_cases hi3 : i ≤ 57
      · simp only [hi, hi2, hi3, if_true, if_false, tv3]
        obtain ⟨a0, a1, a2, a3, av⟩ := r256Add0_spec C _ (tw_lt w_MIDPOINT192 3 (i - 38) 0) h0 h1 h2 h3
        obtain ⟨b0, b1, b2, b3, bv⟩ := r256Add1_spec _ _ (tw_lt w_MIDPOINT192 3 (i - 38) 1) a0 a1 a2 a3
        obtain ⟨c0, c1, c2, c3, cv⟩ := r256Add2_spec _ _ (tw_lt w_MIDPOINT192 3 (i - 38) 2) b0 b1 b2 b3
        refine ⟨c0, c1, c2, c3, ?_⟩
        rw [cv, bv, av]; omega
      · simp only [hi, hi2, hi3, if_false, tv4]
        obtain ⟨a0, a1, a2, a3, av⟩ := r256Add0_spec C _ (tw_lt w_MIDPOINT256 4 (i - 58) 0) h0 h1 h2 h3
        obtain ⟨b0, b1, b2, b3, bv⟩ := r256Add1_spec _ _ (tw_lt w_MIDPOINT256 4 (i - 58) 1) a0 a1 a2 a3
        obtain ⟨c0, c1, c2, c3, cv⟩ := r256Add2_spec _ _ (tw_lt w_MIDPOINT256 4 (i - 58) 2) b0 b1 b2 b3
        obtain ⟨d0, d1, d2, d3, dv⟩ := r256Add3_spec _ _ c0 c1 c2 c3
        refine ⟨d0, d1, d2, d3, ?_⟩
        rw [dv, cv, bv, av]; omega

/-- what `r256Split_spec` says of the two parts of the product -/
def Split256OK (i P : Nat) (sp : U256 × U512) : Prop :=
  sp.1.val = P / 2 ^ (E256 i) ∧ sp.1.w0 < 2 ^ 64 ∧ sp.1.w1 < 2 ^ 64 ∧ sp.1.w2 < 2 ^ 64 ∧ sp.1.w3 < 2 ^ 64 ∧
  sp.2.val = P % 2 ^ (E256 i) ∧ sp.2.w0 < 2 ^ 64 ∧ sp.2.w1 < 2 ^ 64 ∧ sp.2.w2 < 2 ^ 64 ∧ sp.2.w3 < 2 ^ 64 ∧
  sp.2.w4 < 2 ^ 64 ∧ sp.2.w5 < 2 ^ 64 ∧ sp.2.w6 < 2 ^ 64 ∧ sp.2.w7 < 2 ^ 64 ∧
  (i ≤ 18 → sp.2.w5 = 0) ∧ (i ≤ 37 → sp.2.w6 = 0) ∧ (i ≤ 57 → sp.2.w7 = 0)

theorem r256Split_spec (i : Nat) (hi : i < 75) (P : Nat) (hP : P < 2 ^ 512) : Split256OK i P (r256Split i P) := by
  unfold Split256OK
  by_cases h57 : i = 57
  · subst h57
    obtain ⟨hs, _⟩ := tbl256_57
    have hE : E256 57 = 448 := by unfold E256; rw [hs]; rfl
    rw [hE]
    unfold r256Split
    simp only [show ¬ (57 ≤ 18) from by omega, show ¬ (57 ≤ 37) from by omega, show ¬ (57 ≤ 56) from by omega,
      show (57 == 57) = true from rfl, if_true, if_false, U256.val, U512.val]
    unfold wd
    refine ⟨?_, ?_, ?_, ?_, ?_, ?_, ?_, ?_, ?_, ?_, ?_, ?_, ?_, ?_, ?_, ?_, ?_⟩ <;> first | omega | simp
  · obtain ⟨⟨h1, h2, hm, _⟩, _⟩ := tbl256 i hi h57
    have hb57 : (i == 57) = false := by simp [h57]
    unfold r256Split E256
    rw [hm]
    generalize tw BID_EX256M256 1 i 0 = s at *
    have hS := pow_le_W s h2
    by_cases hi1 : i ≤ 18
    · simp only [hi1, if_true, U256.val, U512.val]
      rw [funnelZ P 4 s (256 + s) 0 h1 h2 (by omega), funnelZ P 5 s (256 + s) 1 h1 h2 (by omega),
        funnelZ P 6 s (256 + s) 2 h1 h2 (by omega), shrZ P 7 s (256 + s) 3 h2 hP (by omega),
        and_mask P 4 s (by omega), modsplit]
      have hZ : P / 2 ^ (256 + s) < 2 ^ 256 := shifted_lt P 512 _ _ hP (by omega)
      have hF := Nat.mod_lt (P / 2 ^ (64 * 4)) (Nat.pow_pos (n := s) (by decide : 0 < 2))
      generalize P / 2 ^ (256 + s) = Z at *
      generalize P / 2 ^ (64 * 4) % 2 ^ s = Fr at *
      unfold wd
      refine ⟨?_, ?_, ?_, ?_, ?_, ?_, ?_, ?_, ?_, ?_, ?_, ?_, ?_, ?_, ?_, ?_, ?_⟩ <;> first | omega | simp
    · by_cases hi2 : i ≤ 37
      · simp only [hi1, hi2, if_true, if_false, U256.val, U512.val]
        rw [funnelZ P 5 s (320 + s) 0 h1 h2 (by omega), funnelZ P 6 s (320 + s) 1 h1 h2 (by omega),
          shrZ P 7 s (320 + s) 2 h2 hP (by omega), and_mask P 5 s (by omega), modsplit]
        have hZ : P / 2 ^ (320 + s) < 2 ^ 192 := shifted_lt P 512 _ _ hP (by omega)
        have hF := Nat.mod_lt (P / 2 ^ (64 * 5)) (Nat.pow_pos (n := s) (by decide : 0 < 2))
        generalize P / 2 ^ (320 + s) = Z at *
        generalize P / 2 ^ (64 * 5) % 2 ^ s = Fr at *
        unfold wd
        refine ⟨?_, ?_, ?_, ?_, ?_, ?_, ?_, ?_, ?_, ?_, ?_, ?_, ?_, ?_, ?_, ?_, ?_⟩ <;> first | omega | simp
      · by_cases hi3 : i ≤ 56
        · simp only [hi1, hi2, hi3, if_true, if_false, U256.val, U512.val]
          rw [funnelZ P 6 s (384 + s) 0 h1 h2 (by omega), shrZ P 7 s (384 + s) 1 h2 hP (by omega),
            and_mask P 6 s (by omega), modsplit]
          have hZ : P / 2 ^ (384 + s) < 2 ^ 128 := shifted_lt P 512 _ _ hP (by omega)
          have hF := Nat.mod_lt (P / 2 ^ (64 * 6)) (Nat.pow_pos (n := s) (by decide : 0 < 2))
          generalize P / 2 ^ (384 + s) = Z at *
          generalize P / 2 ^ (64 * 6) % 2 ^ s = Fr at *
          unfold wd
          refine ⟨?_, ?_, ?_, ?_, ?_, ?_, ?_, ?_, ?_, ?_, ?_, ?_, ?_, ?_, ?_, ?_, ?_⟩ <;> first | omega | simp
        · simp only [hi1, hi2, hi3, hb57, if_false, Bool.false_eq_true, U256.val, U512.val]
          rw [shrZ P 7 s (448 + s) 0 h2 hP (by omega), and_mask P 7 s (by omega), modsplit]
          have hZ : P / 2 ^ (448 + s) < 2 ^ 64 := shifted_lt P 512 _ _ hP (by omega)
          have hF := Nat.mod_lt (P / 2 ^ (64 * 7)) (Nat.pow_pos (n := s) (by decide : 0 < 2))
          generalize P / 2 ^ (448 + s) = Z at *
          generalize P / 2 ^ (64 * 7) % 2 ^ s = Fr at *
          unfold wd
          refine ⟨?_, ?_, ?_, ?_, ?_, ?_, ?_, ?_, ?_, ?_, ?_, ?_, ?_, ?_, ?_, ?_, ?_⟩ <;> first | omega | simp

theorem tv256_lt (i : Nat) : tv BID_TEN2MXTRUNC256 4 i < 2 ^ 256 := by
  rw [tv4]
  have ht0 := tw_lt w_TRUNC256 4 i 0
  have ht1 := tw_lt w_TRUNC256 4 i 1
  have ht2 := tw_lt w_TRUNC256 4 i 2
  have ht3 := tw_lt w_TRUNC256 4 i 3
  omega

theorem gtT256_spec (i : Nat) (f : U512) (h0 : f.w0 < 2 ^ 64) (h1 : f.w1 < 2 ^ 64) (h2 : f.w2 < 2 ^ 64) :
    gtT256 f i = true ↔ tv BID_TEN2MXTRUNC256 4 i < f.w0 + 2 ^ 64 * f.w1 + 2 ^ 128 * f.w2 + 2 ^ 192 * f.w3 := by
  have ht0 := tw_lt w_TRUNC256 4 i 0
  have ht1 := tw_lt w_TRUNC256 4 i 1
  have ht2 := tw_lt w_TRUNC256 4 i 2
  have ht3 := tw_lt w_TRUNC256 4 i 3
  unfold gtT256
  rw [tv4]
  generalize tw BID_TEN2MXTRUNC256 4 i 0 = t0 at *
  generalize tw BID_TEN2MXTRUNC256 4 i 1 = t1 at *
  generalize tw BID_TEN2MXTRUNC256 4 i 2 = t2 at *
  generalize tw BID_TEN2MXTRUNC256 4 i 3 = t3 at *
  bsimp; omega

/-- the inexactness block of `bid_round256_58_76` in the branches `ind ≥ 19` (`x ≥ 20`), where it is written correctly -/
theorem r256Inexact_spec (i : Nat) (h19 : 19 ≤ i) (f : U512) (h0 : f.w0 < 2 ^ 64) (h1 : f.w1 < 2 ^ 64)
    (h2 : f.w2 < 2 ^ 64) (h3 : f.w3 < 2 ^ 64) (h4 : f.w4 < 2 ^ 64) (h5 : f.w5 < 2 ^ 64) (h6 : f.w6 < 2 ^ 64)
    (h7 : f.w7 < 2 ^ 64) (hz6 : i ≤ 37 → f.w6 = 0) (hz7 : i ≤ 57 → f.w7 = 0) :
    r256Inexact i f = inexN f.val
      (2 ^ (if i ≤ 18 then 256 else if i ≤ 37 then 320 else if i ≤ 57 then 384 else 448) * tw BID_HALF256 1 i 0)
      (tv BID_TEN2MXTRUNC256 4 i) := by
  have hg := gtT256_spec i f h0 h1 h2
  have htv := tv256_lt i
  obtain ⟨f0, f1, f2, f3, f4, f5, f6, f7⟩ := f
  simp only at h0 h1 h2 h3 h4 h5 h6 h7 hz6 hz7 hg
  have hh := tw_lt w_HALF256 1 i 0
  unfold r256Inexact inexN
  simp only [U512.val]
  generalize tw BID_HALF256 1 i 0 = half at *
  generalize tv BID_TEN2MXTRUNC256 4 i = T at *
  generalize gtT256 ⟨f0, f1, f2, f3, f4, f5, f6, f7⟩ i = g at *
  have hi : ¬ i ≤ 18 := by omega
  by_cases hi2 : i ≤ 37
  · have := hz6 hi2; subst this
    have := hz7 (by omega); subst this
    simp only [hi, hi2, if_true, if_false]
    have c1 : (decide (f5 > half) || (f5 == half && (f4 != 0 || f3 != 0 || f2 != 0 || f1 != 0 || f0 != 0))) = true ↔
        2 ^ 320 * half < f0 + 2 ^ 64 * f1 + 2 ^ 128 * f2 + 2 ^ 192 * f3 + 2 ^ 256 * f4 + 2 ^ 320 * f5 + 2 ^ 384 * 0
          + 2 ^ 448 * 0 := by bsimp; omega
    simp only [c1]
    split
    · have c2 : (sub64 f5 half != 0 || f4 != 0 || g) = true ↔
          T < f0 + 2 ^ 64 * f1 + 2 ^ 128 * f2 + 2 ^ 192 * f3 + 2 ^ 256 * f4 + 2 ^ 320 * f5 + 2 ^ 384 * 0
            + 2 ^ 448 * 0 - 2 ^ 320 * half := by
        bsimp; rw [hg]; unfold sub64; omega
      simp only [c2]
    · rfl
  · by_cases hi3 : i ≤ 57
    · have := hz7 hi3; subst this
      simp only [hi, hi2, hi3, if_true, if_false]
      have c1 : (decide (f6 > half) ||
            (f6 == half && (f5 != 0 || f4 != 0 || f3 != 0 || f2 != 0 || f1 != 0 || f0 != 0))) = true ↔
          2 ^ 384 * half < f0 + 2 ^ 64 * f1 + 2 ^ 128 * f2 + 2 ^ 192 * f3 + 2 ^ 256 * f4 + 2 ^ 320 * f5 + 2 ^ 384 * f6
            + 2 ^ 448 * 0 := by bsimp; omega
      simp only [c1]
      split
      · have c2 : (sub64 f6 half != 0 || f5 != 0 || f4 != 0 || g) = true ↔
            T < f0 + 2 ^ 64 * f1 + 2 ^ 128 * f2 + 2 ^ 192 * f3 + 2 ^ 256 * f4 + 2 ^ 320 * f5 + 2 ^ 384 * f6
              + 2 ^ 448 * 0 - 2 ^ 384 * half := by
          bsimp; rw [hg]; unfold sub64; omega
        simp only [c2]
      · rfl
    · simp only [hi, hi2, hi3, if_false]
      have c1 : (decide (f7 > half) ||
            (f7 == half && (f6 != 0 || f5 != 0 || f4 != 0 || f3 != 0 || f2 != 0 || f1 != 0 || f0 != 0))) = true ↔
          2 ^ 448 * half < f0 + 2 ^ 64 * f1 + 2 ^ 128 * f2 + 2 ^ 192 * f3 + 2 ^ 256 * f4 + 2 ^ 320 * f5 + 2 ^ 384 * f6
            + 2 ^ 448 * f7 := by bsimp; omega
      simp only [c1]
      split
      · have c2 : (sub64 f7 half != 0 || f6 != 0 || f5 != 0 || f4 != 0 || g) = true ↔
            T < f0 + 2 ^ 64 * f1 + 2 ^ 128 * f2 + 2 ^ 192 * f3 + 2 ^ 256 * f4 + 2 ^ 320 * f5 + 2 ^ 384 * f6
              + 2 ^ 448 * f7 - 2 ^ 448 * half := by
          bsimp; rw [hg]; unfold sub64; omega
        simp only [c2]
      · rfl

theorem r256Midpoint_spec (i : Nat) (Cs : U256) (f : U512) (fl : Ind) (hc0 : Cs.w0 < 2 ^ 64) (hc1 : Cs.w1 < 2 ^ 64)
    (hc2 : Cs.w2 < 2 ^ 64) (hc3 : Cs.w3 < 2 ^ 64) (h0 : f.w0 < 2 ^ 64) (h1 : f.w1 < 2 ^ 64) (h2 : f.w2 < 2 ^ 64)
    (h3 : f.w3 < 2 ^ 64) (h4 : f.w4 < 2 ^ 64) (h5 : f.w5 < 2 ^ 64) (h6 : f.w6 < 2 ^ 64) (h7 : f.w7 < 2 ^ 64) :
    ((r256Midpoint i Cs f fl).1.val, (r256Midpoint i Cs f fl).2) = midN Cs.val f.val (tv BID_TEN2MXTRUNC256 4 i) fl ∧
    (r256Midpoint i Cs f fl).1.w0 < 2 ^ 64 ∧ (r256Midpoint i Cs f fl).1.w1 < 2 ^ 64 ∧
    (r256Midpoint i Cs f fl).1.w2 < 2 ^ 64 ∧ (r256Midpoint i Cs f fl).1.w3 < 2 ^ 64 := by
  obtain ⟨f0, f1, f2, f3, f4, f5, f6, f7⟩ := f
  obtain ⟨c0, c1, c2, c3⟩ := Cs
  simp only at h0 h1 h2 h3 h4 h5 h6 h7 hc0 hc1 hc2 hc3
  have ht0 := tw_lt w_TRUNC256 4 i 0
  have ht1 := tw_lt w_TRUNC256 4 i 1
  have ht2 := tw_lt w_TRUNC256 4 i 2
  have ht3 := tw_lt w_TRUNC256 4 i 3
  unfold r256Midpoint midN
  simp only [tv4, U512.val, U256.val]
  generalize tw BID_TEN2MXTRUNC256 4 i 0 = t0 at *
  generalize tw BID_TEN2MXTRUNC256 4 i 1 = t1 at *
  generalize tw BID_TEN2MXTRUNC256 4 i 2 = t2 at *
  generalize tw BID_TEN2MXTRUNC256 4 i 3 = t3 at *
  have c1' : (f7 == 0 && f6 == 0 && f5 == 0 && f4 == 0 &&
        (decide (f3 < t3) || (f3 == t3 && decide (f2 < t2)) || (f3 == t3 && f2 == t2 && decide (f1 < t1))
          || (f3 == t3 && f2 == t2 && f1 == t1 && decide (f0 ≤ t0)))) = true ↔
      f0 + 2 ^ 64 * f1 + 2 ^ 128 * f2 + 2 ^ 192 * f3 + 2 ^ 256 * f4 + 2 ^ 320 * f5 + 2 ^ 384 * f6 + 2 ^ 448 * f7 ≤
        t0 + 2 ^ 64 * t1 + 2 ^ 128 * t2 + 2 ^ 192 * t3 := by
    bsimp; omega
  have c2' : (c0 &&& 1 == 1) = true ↔ (c0 + 2 ^ 64 * c1 + 2 ^ 128 * c2 + 2 ^ 192 * c3) % 2 = 1 := by
    rw [Nat.and_one_is_mod]; bsimp; omega
  simp only [c1', c2']
  by_cases hm : f0 + 2 ^ 64 * f1 + 2 ^ 128 * f2 + 2 ^ 192 * f3 + 2 ^ 256 * f4 + 2 ^ 320 * f5 + 2 ^ 384 * f6
      + 2 ^ 448 * f7 ≤ t0 + 2 ^ 64 * t1 + 2 ^ 128 * t2 + 2 ^ 192 * t3
  · simp only [hm, if_true]
    by_cases ho : (c0 + 2 ^ 64 * c1 + 2 ^ 128 * c2 + 2 ^ 192 * c3) % 2 = 1
    · have e0 : sub64 c0 1 = c0 - 1 := by unfold sub64; omega
      have e1 : ¬ (c0 - 1 = 0xffffffffffffffff) := by omega
      simp only [ho, if_true, e0, beq_iff_eq, e1, if_false, Prod.mk.injEq, and_true]
      omega
    · simp only [ho, if_false, and_true, true_and]
      exact ⟨hc0, hc1, hc2, hc3⟩
  · simp only [hm, if_false, true_and]
    exact ⟨hc0, hc1, hc2, hc3⟩


theorem r256Ovf_spec (q x : Nat) (Cs : U256) (hn1 : 1 ≤ q - x) (hn : q - x < 76)
    (hc0 : Cs.w0 < 2 ^ 64) (hc1 : Cs.w1 < 2 ^ 64) (hc2 : Cs.w2 < 2 ^ 64) (hc3 : Cs.w3 < 2 ^ 64) :
    ((r256Ovf q x Cs).1.val, (r256Ovf q x Cs).2) = ovfN (q - x) Cs.val ∧
    (r256Ovf q x Cs).1.w0 < 2 ^ 64 ∧ (r256Ovf q x Cs).1.w1 < 2 ^ 64 ∧ (r256Ovf q x Cs).1.w2 < 2 ^ 64 ∧
    (r256Ovf q x Cs).1.w3 < 2 ^ 64 := by
  obtain ⟨c0, c1, c2, c3⟩ := Cs
  simp only at hc0 hc1 hc2 hc3
  obtain ⟨hk, hr⟩ := ten2k (q - x) hn hn1
  unfold r256Ovf ovfN
  generalize q - x = n at *
  simp only [U256.val]
  rw [← hk, ← hr]
  unfold K10 R10
  by_cases h19 : n ≤ 19
  · simp only [h19, if_true]
    have hb1 := tw_lt w_TEN2K64 1 (n - 1) 0
    have hb0 := tw_lt w_TEN2K64 1 n 0
    generalize tw BID_TEN2K64 1 n 0 = k at *
    generalize tw BID_TEN2K64 1 (n - 1) 0 = p at *
    have c : (c3 == 0 && c2 == 0 && c1 == 0 && c0 == k) = true ↔
        c0 + 2 ^ 64 * c1 + 2 ^ 128 * c2 + 2 ^ 192 * c3 = k := by bsimp; omega
    simp only [c]
    by_cases he : c0 + 2 ^ 64 * c1 + 2 ^ 128 * c2 + 2 ^ 192 * c3 = k
    · have : c1 = 0 := by omega
      subst this
      have : c2 = 0 := by omega
      subst this
      have : c3 = 0 := by omega
      subst this
      simp [he, hb1]
    · simp [he, hc0, hc1, hc2, hc3]
  · by_cases h20 : n = 20
    · subst h20
      simp only [tv2, show ¬ (20 ≤ 19) from by omega, show (20 ≤ 38) from by omega, if_true, if_false, BEq.rfl,
        Nat.sub_self]
      have hb0 := tw_lt w_TEN2K128 2 0 0
      have hb1 := tw_lt w_TEN2K128 2 0 1
      have hb2 := tw_lt w_TEN2K64 1 19 0
      generalize tw BID_TEN2K128 2 0 0 = k0 at *
      generalize tw BID_TEN2K128 2 0 1 = k1 at *
      generalize tw BID_TEN2K64 1 19 0 = p at *
      have c : (c3 == 0 && c2 == 0 && c1 == k1 && c0 == k0) = true ↔
          c0 + 2 ^ 64 * c1 + 2 ^ 128 * c2 + 2 ^ 192 * c3 = k0 + 2 ^ 64 * k1 := by bsimp; omega
      simp only [c]
      by_cases he : c0 + 2 ^ 64 * c1 + 2 ^ 128 * c2 + 2 ^ 192 * c3 = k0 + 2 ^ 64 * k1
      · have : c2 = 0 := by omega
        subst this
        have : c3 = 0 := by omega
        subst this
        simp [he, hb2]
      · simp [he, hc0, hc1, hc2, hc3]
    · have hb20 : (n == 20) = false := by simp [h20]
      by_cases h38 : n ≤ 38
      · simp only [tv2, h19, h20, h38, hb20, if_true, if_false, Bool.false_eq_true]
        have hb0 := tw_lt w_TEN2K128 2 (n - 20) 0
        have hb1 := tw_lt w_TEN2K128 2 (n - 20) 1
        have hb2 := tw_lt w_TEN2K128 2 (n - 21) 0
        have hb3 := tw_lt w_TEN2K128 2 (n - 21) 1
        generalize tw BID_TEN2K128 2 (n - 20) 0 = k0 at *
        generalize tw BID_TEN2K128 2 (n - 20) 1 = k1 at *
        generalize tw BID_TEN2K128 2 (n - 21) 0 = p0 at *
        generalize tw BID_TEN2K128 2 (n - 21) 1 = p1 at *
        have c : (c3 == 0 && c2 == 0 && c1 == k1 && c0 == k0) = true ↔
            c0 + 2 ^ 64 * c1 + 2 ^ 128 * c2 + 2 ^ 192 * c3 = k0 + 2 ^ 64 * k1 := by bsimp; omega
        simp only [c]
        by_cases he : c0 + 2 ^ 64 * c1 + 2 ^ 128 * c2 + 2 ^ 192 * c3 = k0 + 2 ^ 64 * k1
        · have : c2 = 0 := by omega
          subst this
          have : c3 = 0 := by omega
          subst this
          simp [he, hb2, hb3]
        · simp [he, hc0, hc1, hc2, hc3]
      · by_cases h39 : n = 39
        · subst h39
          simp only [tv2, tv4, show ¬ (39 ≤ 19) from by omega, show ¬ (39 ≤ 38) from by omega,
            show ¬ (39 = 20) from by omega, show (39 == 20) = false from rfl, show (39 == 39) = true from rfl,
            if_true, if_false, Nat.sub_self, Bool.false_eq_true]
          have hz := ten2k256_top 0 (by omega)
          have hb0 := tw_lt w_TEN2K256 4 0 0
          have hb1 := tw_lt w_TEN2K256 4 0 1
          have hb2 := tw_lt w_TEN2K256 4 0 2
          have hb3 := tw_lt w_TEN2K128 2 18 0
          have hb4 := tw_lt w_TEN2K128 2 18 1
          rw [hz]
          simp only [Nat.mul_zero, Nat.add_zero]
          generalize tw BID_TEN2K256 4 0 0 = k0 at *
          generalize tw BID_TEN2K256 4 0 1 = k1 at *
          generalize tw BID_TEN2K256 4 0 2 = k2 at *
          generalize tw BID_TEN2K128 2 18 0 = p0 at *
          generalize tw BID_TEN2K128 2 18 1 = p1 at *
          have c : (c3 == 0 && c2 == k2 && c1 == k1 && c0 == k0) = true ↔
              c0 + 2 ^ 64 * c1 + 2 ^ 128 * c2 + 2 ^ 192 * c3 = k0 + 2 ^ 64 * k1 + 2 ^ 128 * k2 := by bsimp; omega
          simp only [c]
          by_cases he : c0 + 2 ^ 64 * c1 + 2 ^ 128 * c2 + 2 ^ 192 * c3 = k0 + 2 ^ 64 * k1 + 2 ^ 128 * k2
          · have : c3 = 0 := by omega
            subst this
            simp [he, hb3, hb4]
          · simp [he, hc0, hc1, hc2, hc3]
        · have hb39 : (n == 39) = false := by simp [h39]
          by_cases h57 : n ≤ 57
          · simp only [tv4, h19, h20, h38, h39, h57, hb20, hb39, if_true, if_false, Bool.false_eq_true]
            have hz := ten2k256_top (n - 39) (by omega)
            have hz' := ten2k256_top (n - 40) (by omega)
            have hb0 := tw_lt w_TEN2K256 4 (n - 39) 0
            have hb1 := tw_lt w_TEN2K256 4 (n - 39) 1
            have hb2 := tw_lt w_TEN2K256 4 (n - 39) 2
            have hb3 := tw_lt w_TEN2K256 4 (n - 40) 0
            have hb4 := tw_lt w_TEN2K256 4 (n - 40) 1
            have hb5 := tw_lt w_TEN2K256 4 (n - 40) 2
            rw [hz, hz']
            simp only [Nat.mul_zero, Nat.add_zero]
            generalize tw BID_TEN2K256 4 (n - 39) 0 = k0 at *
            generalize tw BID_TEN2K256 4 (n - 39) 1 = k1 at *
            generalize tw BID_TEN2K256 4 (n - 39) 2 = k2 at *
            generalize tw BID_TEN2K256 4 (n - 40) 0 = p0 at *
            generalize tw BID_TEN2K256 4 (n - 40) 1 = p1 at *
            generalize tw BID_TEN2K256 4 (n - 40) 2 = p2 at *
            have c : (c3 == 0 && c2 == k2 && c1 == k1 && c0 == k0) = true ↔
                c0 + 2 ^ 64 * c1 + 2 ^ 128 * c2 + 2 ^ 192 * c3 = k0 + 2 ^ 64 * k1 + 2 ^ 128 * k2 := by bsimp; omega
            simp only [c]
            by_cases he : c0 + 2 ^ 64 * c1 + 2 ^ 128 * c2 + 2 ^ 192 * c3 = k0 + 2 ^ 64 * k1 + 2 ^ 128 * k2
            · have : c3 = 0 := by omega
              subst this
              simp [he, hb3, hb4, hb5]
            · simp [he, hc0, hc1, hc2, hc3]
          · simp only [tv4, h19, h20, h38, h39, h57, hb20, hb39, if_false, Bool.false_eq_true]
            have hb0 := tw_lt w_TEN2K256 4 (n - 39) 0
            have hb1 := tw_lt w_TEN2K256 4 (n - 39) 1
            have hb2 := tw_lt w_TEN2K256 4 (n - 39) 2
            have hb2' := tw_lt w_TEN2K256 4 (n - 39) 3
            have hb3 := tw_lt w_TEN2K256 4 (n - 40) 0
            have hb4 := tw_lt w_TEN2K256 4 (n - 40) 1
            have hb5 := tw_lt w_TEN2K256 4 (n - 40) 2
            have hb6 := tw_lt w_TEN2K256 4 (n - 40) 3
            generalize tw BID_TEN2K256 4 (n - 39) 0 = k0 at *
            generalize tw BID_TEN2K256 4 (n - 39) 1 = k1 at *
            generalize tw BID_TEN2K256 4 (n - 39) 2 = k2 at *
            generalize tw BID_TEN2K256 4 (n - 39) 3 = k3 at *
            generalize tw BID_TEN2K256 4 (n - 40) 0 = p0 at *
            generalize tw BID_TEN2K256 4 (n - 40) 1 = p1 at *
            generalize tw BID_TEN2K256 4 (n - 40) 2 = p2 at *
            generalize tw BID_TEN2K256 4 (n - 40) 3 = p3 at *
            have c : (c3 == k3 && c2 == k2 && c1 == k1 && c0 == k0) = true ↔
                c0 + 2 ^ 64 * c1 + 2 ^ 128 * c2 + 2 ^ 192 * c3 = k0 + 2 ^ 64 * k1 + 2 ^ 128 * k2 + 2 ^ 192 * k3 := by
              bsimp; omega
            simp only [c]
            by_cases he : c0 + 2 ^ 64 * c1 + 2 ^ 128 * c2 + 2 ^ 192 * c3 = k0 + 2 ^ 64 * k1 + 2 ^ 128 * k2 + 2 ^ 192 * k3
            · simp [he, hb3, hb4, hb5, hb6]
            · simp [he, hc0, hc1, hc2, hc3]

/-- the part of `bid_round256_58_76` before the inexactness block, for every `x`: the midpoint is added without wrapping,
the product is split into `⌊P / 2^Ex⌋` and `P mod 2^Ex` -/
theorem round256_front (q i : Nat) (C : U256) (hq' : q ≤ 76) (hxq : i + 1 + 1 ≤ q)
    (h0 : C.w0 < 2 ^ 64) (h1 : C.w1 < 2 ^ 64) (h2 : C.w2 < 2 ^ 64) (h3 : C.w3 < 2 ^ 64) (hC : C.val < 10 ^ q) :
    Split256OK i ((C.val + M256 i) * tv BID_KX256 4 i) (r256Split i ((r256AddMid i C).val * tv BID_KX256 4 i)) ∧
    (r256AddMid i C).val = C.val + M256 i ∧ C.val + M256 i < 15 * 10 ^ 75 := by
  have hi : i < 75 := by omega
  obtain ⟨hT, hK, hb, hM, hKlt⟩ := tbl256_all i hi
  obtain ⟨a0, a1, a2, a3, aval⟩ := r256AddMid_spec i C h0 h1 h2 h3
  have hCq : 10 ^ q ≤ 10 ^ 76 := Nat.pow_le_pow_right (by decide) hq'
  have hxi : 10 ^ (i + 1) ≤ 10 ^ 75 := Nat.pow_le_pow_right (by decide) (by omega)
  have hwrap : C.val + M256 i < 2 ^ 256 := by omega
  rw [Nat.mod_eq_of_lt hwrap] at aval
  have hP : (C.val + M256 i) * tv BID_KX256 4 i < 2 ^ 512 := by
    calc (C.val + M256 i) * tv BID_KX256 4 i < 2 ^ 256 * 2 ^ 256 := Nat.mul_lt_mul'' hwrap hKlt
      _ = 2 ^ 512 := by rw [← Nat.pow_add]
  rw [aval]
  exact ⟨r256Split_spec i hi _ hP, rfl, by omega⟩

/-- **`bid_round256_58_76` meets its specification** for `58 ≤ q ≤ 76`, `20 ≤ x ≤ q − 1`, `C < 10^q`.  This contains every
call in bid128_fma.rs (`58 ≤ q ≤ 68`, `x ≥ 23`).  For `x ≤ 19` see `round256_spec_low` and the two witnesses. -/
theorem round256_spec (q x : Nat) (C : U256) (hq : 58 ≤ q) (hq' : q ≤ 76) (hx : 20 ≤ x) (hxq : x + 1 ≤ q)
    (h0 : C.w0 < 2 ^ 64) (h1 : C.w1 < 2 ^ 64) (h2 : C.w2 < 2 ^ 64) (h3 : C.w3 < 2 ^ 64) (hC : C.val < 10 ^ q) :
    Spec q x C.val (round256 q x C).cstar.val (round256 q x C).incrExp (round256 q x C).ind ∧
    (round256 q x C).cstar.w0 < 2 ^ 64 ∧ (round256 q x C).cstar.w1 < 2 ^ 64 ∧ (round256 q x C).cstar.w2 < 2 ^ 64 ∧
    (round256 q x C).cstar.w3 < 2 ^ 64 := by
  obtain ⟨i, rfl⟩ : ∃ i, x = i + 1 := ⟨x - 1, by omega⟩
  have hi : i < 75 := by omega
  obtain ⟨hT, hK, hb, hM, hKlt⟩ := tbl256_all i hi
  obtain ⟨hsp, aval, hbound⟩ := round256_front q i C hq' hxq h0 h1 h2 h3 hC
  rw [round256_unfold]
  simp only [Nat.add_sub_cancel]
  unfold Split256OK at hsp
  obtain ⟨sv, s0, s1, s2, s3, fv, f0, f1, f2, f3, f4, f5, f6, f7, _, fz6, fz7⟩ := hsp
  generalize r256Split i ((r256AddMid i C).val * tv BID_KX256 4 i) = sp at *
  -- the two decision blocks
  have hin := r256Inexact_spec i (by omega) sp.2 f0 f1 f2 f3 f4 f5 f6 f7 fz6 fz7
  obtain ⟨hmid, m0, m1, m2, m3⟩ :=
    r256Midpoint_spec i sp.1 sp.2 (r256Inexact i sp.2) s0 s1 s2 s3 f0 f1 f2 f3 f4 f5 f6 f7
  generalize r256Midpoint i sp.1 sp.2 (r256Inexact i sp.2) = m at *
  rw [hin, sv, fv] at hmid
  have hpos : 0 < M256 i := by
    have : 0 < 10 ^ (i + 1) := Nat.pow_pos (by decide)
    omega
  rw [stages_spec (i + 1) C.val (M256 i) _ _ _ _ (15 * 10 ^ 75) hM hpos hT hK hb (half256 i hi) hbound] at hmid
  obtain ⟨hm1, hm2⟩ := Prod.mk.inj hmid
  -- the rounding-overflow block
  obtain ⟨hov, o0, o1, o2, o3⟩ := r256Ovf_spec q (i + 1) m.1 (by omega) (by omega) m0 m1 m2 m3
  refine ⟨Spec.of_blocks _ _ _ _ _ _ ?_ hm2, o0, o1, o2, o3⟩
  rw [hov, hm1]; rfl

-- q = 68, x = 34 (rounding a 68-digit product to 34 digits): exact; all nines
example : round256 68 34 (u256 (1234567890123456789012345678901234 * 10 ^ 34)) =
    ⟨u256 1234567890123456789012345678901234, false, {}⟩ := by decide +kernel
example : round256 68 34 (u256 (10 ^ 68 - 1)) = ⟨u256 (10 ^ 33), true, { inexGtMid := true }⟩ := by decide +kernel
-- x = 58, the row with shift 0
example : round256 76 58 (u256 (123456789012345678 * 10 ^ 58 + 5 * 10 ^ 57)) =
    ⟨u256 123456789012345678, false, { midGtEven := true }⟩ := by decide +kernel


/-! ### `bid_round256_58_76` with `x ≤ 19`: line 945 -/

/-- The inexactness block of `bid_round256_58_76` in the branch `ind ≤ 18`.  Because of line 945 it is NOT `inexN`:
it agrees with it except possibly in `is_inexact_lt_midpoint`, and in that too when `f* ≤ 1/2` or `f* − 1/2 ≥ 2^256·2^(−Ex)`
(the word `tmp64` is then non-zero and the faulty comparison is not reached). -/
theorem r256Inexact_low (i : Nat) (h18 : i ≤ 18) (f : U512) (h0 : f.w0 < 2 ^ 64) (h1 : f.w1 < 2 ^ 64)
    (h2 : f.w2 < 2 ^ 64) (h3 : f.w3 < 2 ^ 64) (h4 : f.w4 < 2 ^ 64) (hz5 : f.w5 = 0) (hz6 : f.w6 = 0) (hz7 : f.w7 = 0) :
    r256Inexact i f = { inexN f.val (2 ^ 256 * tw BID_HALF256 1 i 0) (tv BID_TEN2MXTRUNC256 4 i) with
                        inexLtMid := (r256Inexact i f).inexLtMid } ∧
    (¬ 2 ^ 256 * tw BID_HALF256 1 i 0 < f.val → (r256Inexact i f).inexLtMid = false) ∧
    (2 ^ 256 * tw BID_HALF256 1 i 0 < f.val → 2 ^ 256 ≤ f.val - 2 ^ 256 * tw BID_HALF256 1 i 0 →
      (r256Inexact i f).inexLtMid = true) := by
  obtain ⟨f0, f1, f2, f3, f4, f5, f6, f7⟩ := f
  simp only at h0 h1 h2 h3 h4 hz5 hz6 hz7
  subst hz5 hz6 hz7
  have hh := tw_lt w_HALF256 1 i 0
  unfold r256Inexact inexN
  simp only [U512.val, h18, if_true]
  generalize tw BID_HALF256 1 i 0 = half at *
  generalize tv BID_TEN2MXTRUNC256 4 i = T at *
  generalize gtT256Line945 ⟨f0, f1, f2, f3, f4, 0, 0, 0⟩ i = g at *
  have c1 : (decide (f4 > half) || (f4 == half && (f3 != 0 || f2 != 0 || f1 != 0 || f0 != 0))) = true ↔
      2 ^ 256 * half < f0 + 2 ^ 64 * f1 + 2 ^ 128 * f2 + 2 ^ 192 * f3 + 2 ^ 256 * f4 + 2 ^ 320 * 0 + 2 ^ 384 * 0
        + 2 ^ 448 * 0 := by bsimp; omega
  simp only [c1]
  by_cases hlt : 2 ^ 256 * half < f0 + 2 ^ 64 * f1 + 2 ^ 128 * f2 + 2 ^ 192 * f3 + 2 ^ 256 * f4 + 2 ^ 320 * 0
      + 2 ^ 384 * 0 + 2 ^ 448 * 0
  · simp only [hlt, if_true, not_true, false_implies, true_implies, true_and]
    have c3 : 2 ^ 256 ≤ f0 + 2 ^ 64 * f1 + 2 ^ 128 * f2 + 2 ^ 192 * f3 + 2 ^ 256 * f4 + 2 ^ 320 * 0
        + 2 ^ 384 * 0 + 2 ^ 448 * 0 - 2 ^ 256 * half → (sub64 f4 half != 0) = true := by
      intro h; bsimp; unfold sub64; omega
    cases hg : (sub64 f4 half != 0 || g)
    · constructor
      · by_cases ht : T < f0 + 2 ^ 64 * f1 + 2 ^ 128 * f2 + 2 ^ 192 * f3 + 2 ^ 256 * f4 + 2 ^ 320 * 0
            + 2 ^ 384 * 0 + 2 ^ 448 * 0 - 2 ^ 256 * half <;> simp only [ht, if_true, if_false] <;> rfl
      · intro h
        have := c3 h
        rw [this] at hg
        simp at hg
    · constructor
      · by_cases ht : T < f0 + 2 ^ 64 * f1 + 2 ^ 128 * f2 + 2 ^ 192 * f3 + 2 ^ 256 * f4 + 2 ^ 320 * 0
            + 2 ^ 384 * 0 + 2 ^ 448 * 0 - 2 ^ 256 * half <;> simp only [ht, if_true, if_false] <;> rfl
      · intro _; rfl
  · simp only [hlt, if_false, not_false_eq_true, true_implies, false_implies, and_true]

/-- **`bid_round256_58_76` for `58 ≤ q ≤ 76`, `1 ≤ x ≤ 19`, `C < 10^q`** (not reached by any caller).
`C*`, `incr_exp` and three of the four indicators are right: the result with `is_inexact_lt_midpoint` corrected meets the
specification.  `is_inexact_lt_midpoint` itself is right whenever the discarded part `C mod 10^x` is at least 2; for
`C mod 10^x ∈ {0, 1}` it can be wrong in either direction (`round256_line945_missing`, `round256_line945_spurious`). -/
theorem round256_spec_low (q x : Nat) (C : U256) (hq' : q ≤ 76) (hx : 1 ≤ x) (hx' : x ≤ 19) (hxq : x + 1 ≤ q)
    (h0 : C.w0 < 2 ^ 64) (h1 : C.w1 < 2 ^ 64) (h2 : C.w2 < 2 ^ 64) (h3 : C.w3 < 2 ^ 64) (hC : C.val < 10 ^ q) :
    Spec q x C.val (round256 q x C).cstar.val (round256 q x C).incrExp
      { (round256 q x C).ind with inexLtMid := decide (0 < C.val % 10 ^ x ∧ C.val % 10 ^ x < 10 ^ x / 2) } ∧
    (2 ≤ C.val % 10 ^ x →
      Spec q x C.val (round256 q x C).cstar.val (round256 q x C).incrExp (round256 q x C).ind) ∧
    (round256 q x C).cstar.w0 < 2 ^ 64 ∧ (round256 q x C).cstar.w1 < 2 ^ 64 ∧ (round256 q x C).cstar.w2 < 2 ^ 64 ∧
    (round256 q x C).cstar.w3 < 2 ^ 64 := by
  obtain ⟨i, rfl⟩ : ∃ i, x = i + 1 := ⟨x - 1, by omega⟩
  have hi : i < 75 := by omega
  have hi18 : i ≤ 18 := by omega
  obtain ⟨hT, hK, hb, hM, hKlt⟩ := tbl256_all i hi
  obtain ⟨_, _, _, hK255⟩ := tbl256 i hi (by omega)
  obtain ⟨hsp, aval, hbound⟩ := round256_front q i C hq' hxq h0 h1 h2 h3 hC
  rw [round256_unfold]
  simp only [Nat.add_sub_cancel]
  unfold Split256OK at hsp
  obtain ⟨sv, s0, s1, s2, s3, fv, f0, f1, f2, f3, f4, f5, f6, f7, fz5, fz6, fz7⟩ := hsp
  generalize r256Split i ((r256AddMid i C).val * tv BID_KX256 4 i) = sp at *
  -- the two decision blocks
  obtain ⟨hin, hbF, hbT⟩ := r256Inexact_low i hi18 sp.2 f0 f1 f2 f3 f4 (fz5 hi18) (fz6 (by omega)) (fz7 (by omega))
  obtain ⟨hmid, m0, m1, m2, m3⟩ :=
    r256Midpoint_spec i sp.1 sp.2 (r256Inexact i sp.2) s0 s1 s2 s3 f0 f1 f2 f3 f4 f5 f6 f7
  generalize r256Midpoint i sp.1 sp.2 (r256Inexact i sp.2) = m at *
  have hpos : 0 < M256 i := by
    have : 0 < 10 ^ (i + 1) := Nat.pow_pos (by decide)
    omega
  have hhalf := half256 i hi
  simp only [hi18, if_true] at hhalf
  rw [hin, midN_with, sv, fv] at hmid
  rw [fv] at hbF hbT
  rw [stages_spec (i + 1) C.val (M256 i) _ _ _ _ (15 * 10 ^ 75) hM hpos hT hK hb hhalf hbound] at hmid
  obtain ⟨c2, c4, c5⟩ := stages_core (i + 1) C.val (M256 i) _ _ _ _ (15 * 10 ^ 75) hM hpos hT hK hb hhalf hbound
  obtain ⟨hm1, hm2⟩ := Prod.mk.inj hmid
  simp only at hm1 hm2
  -- the rounding-overflow block
  obtain ⟨hov, o0, o1, o2, o3⟩ := r256Ovf_spec q (i + 1) m.1 (by omega) (by omega) m0 m1 m2 m3
  have hcs : ((r256Ovf q (i + 1) m.1).1.val, (r256Ovf q (i + 1) m.1).2) = ovfN (q - (i + 1)) (rne C.val (i + 1)) := by
    rw [hov, hm1]; rfl
  refine ⟨Spec.of_blocks _ _ _ _ _ _ hcs ?_, ?_, o0, o1, o2, o3⟩
  · rw [hm2]; rfl
  · intro hr2
    refine Spec.of_blocks _ _ _ _ _ _ hcs ?_
    rw [hm2]
    generalize (C.val + M256 i) * tv BID_KX256 4 i % 2 ^ E256 i = F at *
    generalize (r256Inexact i sp.2).inexLtMid = b at *
    generalize C.val % 10 ^ (i + 1) = r at *
    generalize 10 ^ (i + 1) / 2 = h at *
    have key : (if F ≤ tv BID_TEN2MXTRUNC256 4 i then false else b) = decide (0 < r ∧ r < h) := by
      by_cases hlt : r < h
      · have hne : ¬ F ≤ tv BID_TEN2MXTRUNC256 4 i := by rw [c4]; omega
        have hb1 : b = true := hbT (c2.2 hlt) (by have := c5 hlt hr2; omega)
        simp [hne, hb1, hlt]; omega
      · by_cases heq : r = h
        · simp [c4.2 heq, hlt]
        · have hne : ¬ F ≤ tv BID_TEN2MXTRUNC256 4 i := by rw [c4]; exact heq
          have hb0 : b = false := hbF (by rw [c2]; exact hlt)
          simp [hne, hb0, hlt]
    rw [key]; rfl

-- x ≤ 19 with a discarded part ≥ 2: right
example : round256 58 4 (u256 (3 * 10 ^ 57 + 2)) = ⟨u256 (3 * 10 ^ 53), false, { inexLtMid := true }⟩ := by decide +kernel

/-- Witness 1 for line 945 (confirmed on the compiled crate: `hk_round256 - 0 G3a G4 Gde00000000000001 Gc3f961fd92e08f89
G7a59762159ce7055 G0` prints `… G0 G0 G0 G0 G0`): `q = 58`, `x = 4`, `C = 3·10^57 + 1`.  The discarded part is 1 — inexact,
below the midpoint — but no indicator is set: a caller would take the result for exact. -/
theorem round256_line945_missing :
    (round256 58 4 (u256 (3 * 10 ^ 57 + 1))).ind = {} ∧
    (3 * 10 ^ 57 + 1) % 10 ^ 4 = 1 := by
  decide +kernel

/-- Witness 2 for line 945 (confirmed on the compiled crate): `q = 76`, `x = 17`, `C = 7·10^75`.  Nothing is discarded — the
result is exact — but `is_inexact_lt_midpoint` is set. -/
theorem round256_line945_spurious :
    (round256 76 17 (u256 (7 * 10 ^ 75))).ind = { inexLtMid := true } ∧
    (7 * 10 ^ 75) % 10 ^ 17 = 0 := by
  decide +kernel


/-! ### No table index is out of range

Every table index the routines compute is a function of `q` and `x` alone (never of `C`): `ind = x − 1` and `ind − 19`,
`ind − 38`, `ind − 58` in the first blocks, `q − x` and `q − x − 1`, `− 20`, `− 21`, `− 39`, `− 40` in the last one.  For every
`(q, x)` of the domain they are inside the tables the crate was compiled with, whichever branch is taken, so the Rust
indexing cannot panic (and the model's `tw`, which reads 0 past the end of a table, never does so). -/

/-- entry `i` of a table of `k`-word entries exists -/
def inT (t : List Nat) (k i : Nat) : Bool := decide (i * k + (k - 1) < t.length)

def idxOK64 (q x : Nat) : Bool :=
  let i := x - 1; let n := q - x
  inT BID_MIDPOINT64 1 i && inT BID_KX64 1 i && inT BID_EX64M64 1 i && inT BID_MASK64 1 i && inT BID_HALF64 1 i
    && inT BID_TEN2MXTRUNC64 1 i && decide (1 ≤ n) && inT BID_TEN2K64 1 n

/-- the reads of the rounding-overflow block at `n = q − x` (`w` = width of the routine in words) -/
def idxOKovf (w n : Nat) : Bool :=
  decide (1 ≤ n) &&
  (if n ≤ 19 then inT BID_TEN2K64 1 n
   else if n == 20 then inT BID_TEN2K128 2 0 && inT BID_TEN2K64 1 19
   else if n ≤ (if w == 2 then 37 else 38) then decide (21 ≤ n) && inT BID_TEN2K128 2 (n - 20)
   else if n == 39 then inT BID_TEN2K256 4 0 && inT BID_TEN2K128 2 18
   else decide (40 ≤ n) && inT BID_TEN2K256 4 (n - 39))

def idxOK128 (q x : Nat) : Bool :=
  let i := x - 1
  (if i ≤ 18 then inT BID_MIDPOINT64 1 i else inT BID_MIDPOINT128 2 (i - 19))
    && inT BID_KX128 2 i && inT BID_EX128M128 1 i && inT BID_MASK128 1 i && inT BID_HALF128 1 i
    && inT BID_TEN2MXTRUNC128 2 i && idxOKovf 2 (q - x)

def idxOK192 (q x : Nat) : Bool :=
  let i := x - 1
  (if i ≤ 18 then inT BID_MIDPOINT64 1 i else if i ≤ 37 then inT BID_MIDPOINT128 2 (i - 19)
   else inT BID_MIDPOINT192 3 (i - 38))
    && inT BID_KX192 3 i && inT BID_EX192M192 1 i && inT BID_MASK192 1 i && inT BID_HALF192 1 i
    && inT BID_TEN2MXTRUNC192 3 i && idxOKovf 3 (q - x)

def idxOK256 (q x : Nat) : Bool :=
  let i := x - 1
  (if i ≤ 18 then inT BID_MIDPOINT64 1 i else if i ≤ 37 then inT BID_MIDPOINT128 2 (i - 19)
   else if i ≤ 57 then inT BID_MIDPOINT192 3 (i - 38) else inT BID_MIDPOINT256 4 (i - 58))
    && inT BID_KX256 4 i && inT BID_EX256M256 1 i && inT BID_MASK256 1 i && inT BID_HALF256 1 i
    && inT BID_TEN2MXTRUNC256 4 i && idxOKovf 4 (q - x)

theorem idx64_in_range : ∀ q, q < 19 → 2 ≤ q → ∀ x, x < q → 1 ≤ x → idxOK64 q x = true := by decide +kernel
theorem idx128_in_range : ∀ q, q < 39 → 19 ≤ q → ∀ x, x < q → 1 ≤ x → idxOK128 q x = true := by decide +kernel
theorem idx192_in_range : ∀ q, q < 58 → 39 ≤ q → ∀ x, x < q → 1 ≤ x → idxOK192 q x = true := by decide +kernel
theorem idx256_in_range : ∀ q, q < 77 → 58 ≤ q → ∀ x, x < q → 1 ≤ x → idxOK256 q x = true := by decide +kernel

example : idxOK256 68 34 = true := by decide +kernel
-- one past the documented range of `x` the first table read is already outside
example : idxOK64 19 18 = false := by decide +kernel


/-! ### The judge's interface -/

/-- on its domain `hkRound` is the model of the routine, in the hook's result layout, with the status word untouched -/
theorem hkRound_round64 (m : Mode) (fl q x c0 : Nat) (hd : inDomain 2 18 q x [c0] = true) :
    hkRound "round64" m fl [q, x, c0] = some (outWords (round64 q x c0) (fun c => [c]), fl) := by
  simp [hkRound, hd]
theorem hkRound_round128 (m : Mode) (fl q x c0 c1 : Nat) (hd : inDomain 19 38 q x [c0, c1] = true) :
    hkRound "round128" m fl [q, x, c0, c1] = some (outWords (round128 q x ⟨c0, c1⟩) (fun c => [c.w0, c.w1]), fl) := by
  simp [hkRound, hd]
theorem hkRound_round192 (m : Mode) (fl q x c0 c1 c2 : Nat) (hd : inDomain 39 57 q x [c0, c1, c2] = true) :
    hkRound "round192" m fl [q, x, c0, c1, c2] =
      some (outWords (round192 q x ⟨c0, c1, c2⟩) (fun c => [c.w0, c.w1, c.w2]), fl) := by
  simp [hkRound, hd]
theorem hkRound_round256 (m : Mode) (fl q x c0 c1 c2 c3 : Nat) (hd : inDomain 58 76 q x [c0, c1, c2, c3] = true) :
    hkRound "round256" m fl [q, x, c0, c1, c2, c3] =
      some (outWords (round256 q x ⟨c0, c1, c2, c3⟩) (fun c => [c.w0, c.w1, c.w2, c.w3]), fl) := by
  simp [hkRound, hd]

-- through the interface, as the kernel evaluates it: result words, then incr_exp and the four indicators, status word passed on
example : hkRound "round64" .rup 0x20 [18, 3, 999999999999999500] = some ([10 ^ 14, 1, 1, 0, 0, 0], 0x20) := by
  decide +kernel
example : hkRound "round128" .rne 0 [38, 20, wd (12345678901234567850 * 10 ^ 18) 0, wd (12345678901234567850 * 10 ^ 18) 1] =
    some ([123456789012345678, 0, 0, 0, 1, 0, 0], 0) := by decide +kernel
-- the input of `round256_line945_missing`, as the compiled routine answers it too
example : hkRound "round256" .rne 0 [58, 4, 0xde00000000000001, 0xc3f961fd92e08f89, 0x7a59762159ce7055, 0] =
    some ([0xabe0000000000000, 0xa187ade91d04fd25, 0x321d4546984ab, 0, 0, 0, 0, 0, 0], 0) := by decide +kernel
-- outside the domain: `x = q`, a word that is not a `u64`, a name of another group
example : hkRound "round64" .rne 0 [5, 5, 12345] = none := by decide +kernel
example : hkRound "round64" .rne 0 [5, 2, 2 ^ 64] = none := by decide +kernel
example : hkRound "unpack" .rne 0 [0, 0] = none := by decide +kernel

end Dec.C02RoundHelpers
