/-
  C02GenFmaZ (part I: Case (1''B), the common ends) — see C02GenFmaZ.lean
-/
import DecProofs.Properties.C02GenFmaZH
set_option linter.unusedSimpArgs false
set_option linter.unusedVariables false
namespace Dec.C02GenFmaZ
open Dec Dec.Rs Dec.Gen.Code Dec.C03GenCompare Dec.C02GenCorrection
open Dec.C08GenRoundIntegral (bind_ok' ite_true_bool ite_false_bool i32_add i32_sub i32_neg)
open Dec.C01GenAdd (idx_i32 ten2k128_get19 lt113)

/-! ## 13. Case (1''B): the last statement, the two common ends -/


/-- the datum `finish` returns: the sign it was given, an infinity or a well-formed finite number -/
theorem finish_shape (mode : Mode) (s : Bool) (n d : Nat) (e pref : Int) (hn : 0 < n) (hd : 0 < d) :
    (finish mode s n d e pref).1 = .inf s ∨
    ∃ c x, (finish mode s n d e pref).1 = .fin s c x ∧ c < P34 ∧ -6176 ≤ x ∧ x ≤ 6111 := by
  rcases finish_spec_strict mode s n d e pref hn hd with ⟨_, m, x, ho, _, hr, _⟩ | ⟨_, m, x, ho, h1, h2, h3, _⟩ | ⟨_, ho, _⟩
  · right; exact ⟨m, x, by rw [ho], hr.1, hr.2.1, hr.2.2⟩
  · right; exact ⟨m, x, by rw [ho], h1, h2, h3⟩
  · rw [ho]
    unfold overflowResult
    cases mode <;> cases s <;> simp <;> exact ⟨by decide, by decide, by decide⟩

theorem or_and_absorb (w m : UInt64) : w ||| (w &&& m) = w := by
  apply UInt64.toBitVec_inj.1
  show w.toBitVec ||| (w.toBitVec &&& m.toBitVec) = w.toBitVec
  ext i hi
  simp only [BitVec.getElem_or, BitVec.getElem_and]
  cases w.toBitVec[i] <;> simp

theorem or_idem2 (a x : UInt64) : (a ||| x) ||| x = a ||| x := by rw [UInt64.or_assoc, UInt64.or_self]

/-- a word that carries the sign bit absorbs the sign word -/
theorem or_sign_absorb (w sw : UInt64) (s : Bool) (hsw : sw.toNat = if s then 2^63 else 0)
    (hw : w.toNat / 2^63 % 2 = if s then 1 else 0) : w ||| sw = w := by
  apply UInt64.toNat_inj.1
  rw [UInt64.toNat_or, hsw]
  cases s
  · simp
  · simp only [if_true] at hw ⊢
    have hlt := w.toNat_lt
    obtain ⟨r, hr, hr2⟩ : ∃ r, w.toNat = 2^63 + r ∧ r < 2^63 := ⟨w.toNat - 2^63, by omega, by omega⟩
    have h1 := Dec.C17GenNext.or_sign r 1 hr2
    rw [Nat.one_mul] at h1
    rw [hr, ← h1, Nat.or_assoc, Nat.or_self]

/-- the last statement of Case (1''B) does not change an encoded result of the right sign -/
theorem final_or_id (d : Datum) (s : Bool) (z_sign : UInt64) (hzs : z_sign.toNat = if s then 2^63 else 0)
    (hd : d = .inf s ∨ ∃ c x, d = .fin s c x ∧ c < P34 ∧ -6176 ≤ x ∧ x ≤ 6111) (m : UInt64) :
    (ofBits (encode d)).w1 ||| (z_sign ||| (((ofBits (encode d)).w1 &&& m) &&& m)) = (ofBits (encode d)).w1 := by
  have hbit : (ofBits (encode d)).w1.toNat / 2^63 % 2 = if s then 1 else 0 := by
    rcases hd with rfl | ⟨c, x, rfl, hc, h1, h2⟩
    · rw [Dec.C17GenNext.ofBits_w1]
      cases s <;> rfl
    · have e34 : P34 = 10000000000000000000000000000000000 := rfl
      rw [(enc_words s c x (by omega) h1 (by omega)).2]
      obtain ⟨E, hE⟩ : ∃ E : Nat, (x + 6176).toNat = E := ⟨_, rfl⟩
      have hE2 : E < 2^14 := by omega
      rw [hE]
      cases s <;> simp only [if_true, if_false, Bool.false_eq_true] <;> omega
  rw [← UInt64.or_assoc, or_sign_absorb _ z_sign s hzs hbit, UInt64.and_assoc, UInt64.and_self, or_and_absorb]


/-- Case (1''B), equal signs: the padded `z`, or one unit more, with the indicator (the translated text) -/
def z2SameCls {α : Type} (res_ : U128) (z_sign_ : UInt64) (z_exp_ : UInt64) (e3_ : Int32) (is_midpoint_lt_even_ : Bool) (is_midpoint_gt_even_ : Bool) (is_inexact_lt_midpoint_ : Bool) (is_inexact_gt_midpoint_ : Bool) (lt_half_ulp_ : Bool) (eq_half_ulp_ : Bool) (gt_half_ulp_ : Bool) (k : U128 → UInt64 → Int32 → Bool → Bool → Bool → Bool → Except String α) : Except String α := do
  let mut res : U128 := res_
  let mut z_sign : UInt64 := z_sign_
  let mut z_exp : UInt64 := z_exp_
  let mut e3 : Int32 := e3_
  let mut is_midpoint_lt_even : Bool := is_midpoint_lt_even_
  let mut is_midpoint_gt_even : Bool := is_midpoint_gt_even_
  let mut is_inexact_lt_midpoint : Bool := is_inexact_lt_midpoint_
  let mut is_inexact_gt_midpoint : Bool := is_inexact_gt_midpoint_
  let mut lt_half_ulp : Bool := lt_half_ulp_
  let mut eq_half_ulp : Bool := eq_half_ulp_
  let mut gt_half_ulp : Bool := gt_half_ulp_
  if lt_half_ulp then
    res := { res with w1 := (res.w1 ||| (z_sign ||| ((z_exp &&& c_MASK_EXP)))) }
    is_inexact_lt_midpoint := true
  else
    if (((eq_half_ulp && (((res.w0 &&& (1 : UInt64))) == (1 : UInt64)))) || gt_half_ulp) then
      res := { res with w0 := (res.w0 + 1) }
      if (res.w0 == (0 : UInt64)) then
        res := { res with w1 := (res.w1 + 1) }
      if ((((res.w1 &&& c_MASK_COEFF)) == (0x1ed09bead87c0 : UInt64)) && (res.w0 == (0x378d8e6400000000 : UInt64))) then
        e3 := (e3 + 1)
        z_exp := (((((UInt64.ofInt (toI ((e3 + (0x1820 : Int32)))))) <<< 0x31)) &&& c_MASK_EXP)
        res := { res with w1 := (0x314dc6448d93 : UInt64) }
        res := { res with w0 := (0x38c15b0a00000000 : UInt64) }
      res := { res with w1 := (res.w1 ||| (z_sign ||| ((z_exp &&& c_MASK_EXP)))) }
      if eq_half_ulp then
        is_midpoint_lt_even := true
      else
        is_inexact_gt_midpoint := true
    else
      res := { res with w1 := (res.w1 ||| (z_sign ||| ((z_exp &&& c_MASK_EXP)))) }
      is_midpoint_gt_even := true
  k res z_exp e3 is_midpoint_lt_even is_midpoint_gt_even is_inexact_lt_midpoint is_inexact_gt_midpoint

/-- Case (1''B), equal signs: inexact, overflow in nearest-even, the correction (the translated text) -/
def z2SameTail (ptr_is_midpoint_lt_even_ : Bool) (ptr_is_midpoint_gt_even_ : Bool) (ptr_is_inexact_lt_midpoint_ : Bool) (ptr_is_inexact_gt_midpoint_ : Bool) (rnd_mode_ : RoundingMode) (pfpsf_ : UInt32) (res_ : U128) (z_sign_ : UInt64) (z_exp_ : UInt64) (e3_ : Int32) (is_midpoint_lt_even_ : Bool) (is_midpoint_gt_even_ : Bool) (is_inexact_lt_midpoint_ : Bool) (is_inexact_gt_midpoint_ : Bool) (k : U128 → UInt64 → UInt32 → Bool → Bool → Bool → Bool → Except String (U128 × Bool × Bool × Bool × Bool × UInt32)) : Except String (U128 × Bool × Bool × Bool × Bool × UInt32) := do
  let mut ptr_is_midpoint_lt_even : Bool := ptr_is_midpoint_lt_even_
  let mut ptr_is_midpoint_gt_even : Bool := ptr_is_midpoint_gt_even_
  let mut ptr_is_inexact_lt_midpoint : Bool := ptr_is_inexact_lt_midpoint_
  let mut ptr_is_inexact_gt_midpoint : Bool := ptr_is_inexact_gt_midpoint_
  let mut rnd_mode : RoundingMode := rnd_mode_
  let mut pfpsf : UInt32 := pfpsf_
  let mut res : U128 := res_
  let mut z_sign : UInt64 := z_sign_
  let mut z_exp : UInt64 := z_exp_
  let mut e3 : Int32 := e3_
  let mut is_midpoint_lt_even : Bool := is_midpoint_lt_even_
  let mut is_midpoint_gt_even : Bool := is_midpoint_gt_even_
  let mut is_inexact_lt_midpoint : Bool := is_inexact_lt_midpoint_
  let mut is_inexact_gt_midpoint : Bool := is_inexact_gt_midpoint_
  pfpsf := (pfpsf ||| c_StatusFlags_BID_INEXACT_EXCEPTION)
  if ((decide (e3 > c_EXP_MAX_UNBIASED)) && (rnd_mode == RoundingMode.NearestEven)) then
    res := { res with w1 := (z_sign ||| (0x7800000000000000 : UInt64)) }
    res := { res with w0 := (0 : UInt64) }
    pfpsf := (pfpsf ||| (c_StatusFlags_BID_INEXACT_EXCEPTION ||| c_StatusFlags_BID_OVERFLOW_EXCEPTION))
    ptr_is_midpoint_lt_even := is_midpoint_lt_even
    ptr_is_midpoint_gt_even := is_midpoint_gt_even
    ptr_is_inexact_lt_midpoint := is_inexact_lt_midpoint
    ptr_is_inexact_gt_midpoint := is_inexact_gt_midpoint
    return (res, ptr_is_midpoint_lt_even, ptr_is_midpoint_gt_even, ptr_is_inexact_lt_midpoint, ptr_is_inexact_gt_midpoint, pfpsf)
  if (rnd_mode != RoundingMode.NearestEven) then
    let t__27 ← bid_rounding_correction rnd_mode is_inexact_lt_midpoint is_inexact_gt_midpoint is_midpoint_lt_even is_midpoint_gt_even e3 res pfpsf
    res := t__27.1
    pfpsf := t__27.2
    z_exp := (res.w1 &&& c_MASK_EXP)
  k res z_exp pfpsf is_midpoint_lt_even is_midpoint_gt_even is_inexact_lt_midpoint is_inexact_gt_midpoint

/-- Case (1''B), opposite signs: the padded `z`, or one unit less, with the indicator (the translated text) -/
def z2DiffCls {α : Type} (res_ : U128) (z_sign_ : UInt64) (z_exp_ : UInt64) (is_midpoint_lt_even_ : Bool) (is_midpoint_gt_even_ : Bool) (is_inexact_lt_midpoint_ : Bool) (is_inexact_gt_midpoint_ : Bool) (lt_half_ulp_ : Bool) (eq_half_ulp_ : Bool) (gt_half_ulp_ : Bool) (k : U128 → UInt64 → Bool → Bool → Bool → Bool → Except String α) : Except String α := do
  let mut res : U128 := res_
  let mut z_sign : UInt64 := z_sign_
  let mut z_exp : UInt64 := z_exp_
  let mut is_midpoint_lt_even : Bool := is_midpoint_lt_even_
  let mut is_midpoint_gt_even : Bool := is_midpoint_gt_even_
  let mut is_inexact_lt_midpoint : Bool := is_inexact_lt_midpoint_
  let mut is_inexact_gt_midpoint : Bool := is_inexact_gt_midpoint_
  let mut lt_half_ulp : Bool := lt_half_ulp_
  let mut eq_half_ulp : Bool := eq_half_ulp_
  let mut gt_half_ulp : Bool := gt_half_ulp_
  if lt_half_ulp then
    res := { res with w1 := (res.w1 ||| (z_sign ||| ((z_exp &&& c_MASK_EXP)))) }
    is_inexact_gt_midpoint := true
  else
    if (((eq_half_ulp && (((res.w0 &&& (1 : UInt64))) == (1 : UInt64)))) || gt_half_ulp) then
      res := { res with w0 := (res.w0 - 1) }
      if (res.w0 == (0xffffffffffffffff : UInt64)) then
        res := { res with w1 := (res.w1 - 1) }
      res := { res with w1 := (res.w1 ||| (z_sign ||| ((z_exp &&& c_MASK_EXP)))) }
      if eq_half_ulp then
        is_midpoint_gt_even := true
      else
        is_inexact_lt_midpoint := true
    else
      res := { res with w1 := (res.w1 ||| (z_sign ||| ((z_exp &&& c_MASK_EXP)))) }
      is_midpoint_lt_even := true
  k res z_exp is_midpoint_lt_even is_midpoint_gt_even is_inexact_lt_midpoint is_inexact_gt_midpoint

/-- Case (1''B), opposite signs: overflow, inexact, the correction (the translated text) -/
def z2DiffTail (ptr_is_midpoint_lt_even_ : Bool) (ptr_is_midpoint_gt_even_ : Bool) (ptr_is_inexact_lt_midpoint_ : Bool) (ptr_is_inexact_gt_midpoint_ : Bool) (rnd_mode_ : RoundingMode) (pfpsf_ : UInt32) (res_ : U128) (z_sign_ : UInt64) (z_exp_ : UInt64) (e3_ : Int32) (is_midpoint_lt_even_ : Bool) (is_midpoint_gt_even_ : Bool) (is_inexact_lt_midpoint_ : Bool) (is_inexact_gt_midpoint_ : Bool) (k : U128 → UInt64 → UInt32 → Bool → Bool → Bool → Bool → Except String (U128 × Bool × Bool × Bool × Bool × UInt32)) : Except String (U128 × Bool × Bool × Bool × Bool × UInt32) := do
  let mut ptr_is_midpoint_lt_even : Bool := ptr_is_midpoint_lt_even_
  let mut ptr_is_midpoint_gt_even : Bool := ptr_is_midpoint_gt_even_
  let mut ptr_is_inexact_lt_midpoint : Bool := ptr_is_inexact_lt_midpoint_
  let mut ptr_is_inexact_gt_midpoint : Bool := ptr_is_inexact_gt_midpoint_
  let mut rnd_mode : RoundingMode := rnd_mode_
  let mut pfpsf : UInt32 := pfpsf_
  let mut res : U128 := res_
  let mut z_sign : UInt64 := z_sign_
  let mut z_exp : UInt64 := z_exp_
  let mut e3 : Int32 := e3_
  let mut is_midpoint_lt_even : Bool := is_midpoint_lt_even_
  let mut is_midpoint_gt_even : Bool := is_midpoint_gt_even_
  let mut is_inexact_lt_midpoint : Bool := is_inexact_lt_midpoint_
  let mut is_inexact_gt_midpoint : Bool := is_inexact_gt_midpoint_
  if (decide (e3 > c_EXP_MAX_UNBIASED)) then
    if (rnd_mode == RoundingMode.NearestEven) then
      res := { res with w1 := (z_sign ||| (0x7800000000000000 : UInt64)) }
      res := { res with w0 := (0 : UInt64) }
      pfpsf := (pfpsf ||| (c_StatusFlags_BID_INEXACT_EXCEPTION ||| c_StatusFlags_BID_OVERFLOW_EXCEPTION))
    else
      let t__28 ← bid_rounding_correction rnd_mode is_inexact_lt_midpoint is_inexact_gt_midpoint is_midpoint_lt_even is_midpoint_gt_even e3 res pfpsf
      res := t__28.1
      pfpsf := t__28.2
    ptr_is_midpoint_lt_even := is_midpoint_lt_even
    ptr_is_midpoint_gt_even := is_midpoint_gt_even
    ptr_is_inexact_lt_midpoint := is_inexact_lt_midpoint
    ptr_is_inexact_gt_midpoint := is_inexact_gt_midpoint
    return (res, ptr_is_midpoint_lt_even, ptr_is_midpoint_gt_even, ptr_is_inexact_lt_midpoint, ptr_is_inexact_gt_midpoint, pfpsf)
  pfpsf := (pfpsf ||| c_StatusFlags_BID_INEXACT_EXCEPTION)
  if (rnd_mode != RoundingMode.NearestEven) then
    let t__29 ← bid_rounding_correction rnd_mode is_inexact_lt_midpoint is_inexact_gt_midpoint is_midpoint_lt_even is_midpoint_gt_even e3 res pfpsf
    res := t__29.1
    pfpsf := t__29.2
  z_exp := (res.w1 &&& c_MASK_EXP)
  k res z_exp pfpsf is_midpoint_lt_even is_midpoint_gt_even is_inexact_lt_midpoint is_inexact_gt_midpoint

theorem z2Same_eq (pml pmg pil pig : Bool) (m : RoundingMode) (pfpsf : UInt32) (res : U128) (z_sign z_exp : UInt64)
    (e3 : Int32) (ml mg il ig lt eq gt : Bool)
    (k : U128 → UInt64 → UInt32 → Bool → Bool → Bool → Bool → Except String (U128 × Bool × Bool × Bool × Bool × UInt32)) :
    z2Same pml pmg pil pig m pfpsf res z_sign z_exp e3 ml mg il ig lt eq gt k =
      z2SameCls res z_sign z_exp e3 ml mg il ig lt eq gt fun res z_exp e3 ml mg il ig =>
        z2SameTail pml pmg pil pig m pfpsf res z_sign z_exp e3 ml mg il ig k := by
  rfl

theorem z2Diff_eq (pml pmg pil pig : Bool) (m : RoundingMode) (pfpsf : UInt32) (res : U128) (z_sign z_exp : UInt64)
    (e3 : Int32) (ml mg il ig lt eq gt : Bool)
    (k : U128 → UInt64 → UInt32 → Bool → Bool → Bool → Bool → Except String (U128 × Bool × Bool × Bool × Bool × UInt32)) :
    z2Diff pml pmg pil pig m pfpsf res z_sign z_exp e3 ml mg il ig lt eq gt k =
      z2DiffCls res z_sign z_exp ml mg il ig lt eq gt fun res z_exp ml mg il ig =>
        z2DiffTail pml pmg pil pig m pfpsf res z_sign z_exp e3 ml mg il ig k := by
  rfl


/-- a delivery that is not tiny, through the correction, with the flags `finish` reports -/
theorem Deliv.corr_nt2 {s : Bool} {N : Nat} {E4 ef : Int} {cf : Nat} {L G ML MG : Bool} (h : Deliv s N E4 ef cf L G ML MG)
    (hnt : ¬ N < 10 ^ 33 * 10 ^ (ef - E4).toNat) (m : RoundingMode) (hm : m ≠ .NearestEven) (e : Int32) (res : U128)
    (pf : UInt32) (pref : Int) (hs : negW res.w1.toNat = s) (hc : sigW res.w1.toNat res.w0.toNat = (deliver cf ef).1)
    (he : e.toInt = (deliver cf ef).2) :
    bid_rounding_correction m L G ML MG e res pf =
      .ok (ofBits (encode (finish (modeOf m) s N 1 E4 pref).1), pf ||| UInt32.ofNat (finish (modeOf m) s N 1 E4 pref).2) ∧
    ((finish (modeOf m) s N 1 E4 pref).2 = fOverflow ||| fInexact ∨ (finish (modeOf m) s N 1 E4 pref).2 = fInexact) := by
  refine ⟨h.corr_nt hnt m hm e res pf pref hs hc he, ?_⟩
  obtain ⟨uf, ov, hcode, hfl, huf, hov⟩ := h.corrected m hm e res pf pref hs hc he
  rw [hfl, if_neg hnt]
  cases ov
  · right; rfl
  · left; rfl

/-- coefficient words under the sign word and a masked exponent word: sign, coefficient, and — if the exponent is in
range — the canonical encoding -/
theorem packed_facts (l h z_sign zx : UInt64) (sz : Bool) (cd : Nat) (ed : Int)
    (hP : h.toNat * 2^64 + l.toNat = cd) (hcd : cd < 2^113) (hzs : z_sign.toNat = if sz then 2^63 else 0)
    (hzx : ed ≤ 6111 → zx.toNat = (ed + 6176).toNat * 2^49) (h1 : -6176 ≤ ed) :
    negW (h ||| (z_sign ||| (zx &&& c_MASK_EXP))).toNat = sz ∧
    sigW (h ||| (z_sign ||| (zx &&& c_MASK_EXP))).toNat l.toNat = cd ∧
    (ed ≤ 6111 → (⟨l, h ||| (z_sign ||| (zx &&& c_MASK_EXP))⟩ : U128) = ofBits (encode (.fin sz cd ed))) := by
  obtain ⟨X, hX⟩ : ∃ X, X = zx.toNat / 2^49 % 2^14 := ⟨_, rfl⟩
  have hX2 : X < 2^14 := by omega
  have hew : (zx &&& c_MASK_EXP).toNat = X * 2^49 := by rw [Dec.C01GenAdd.exp_field, hX]
  have hw := asm l h z_sign (zx &&& c_MASK_EXP) sz cd X hP hcd hzs hew hX2
  have hw1 : (h ||| (z_sign ||| (zx &&& c_MASK_EXP))) = (ofBits (encode (.fin sz cd ((X : Int) - 6176)))).w1 := by rw [← hw]
  have hw0 : l = (ofBits (encode (.fin sz cd ((X : Int) - 6176)))).w0 := by rw [← hw]
  refine ⟨?_, ?_, fun h2 => ?_⟩
  · rw [hw1]; exact enc_neg _ _ _ hcd (by omega) (by omega)
  · rw [hw1, hw0]; exact enc_sig _ _ _ hcd (by omega) (by omega)
  · rw [hw]
    have : X = (ed + 6176).toNat := by
      rw [hX, hzx h2, Nat.mul_div_cancel _ (by decide), Nat.mod_eq_of_lt (by omega)]
    rw [this, show (((ed + 6176).toNat : Nat) : Int) - 6176 = ed by omega]


theorem z2Fin_eq (pml pmg pil pig : Bool) (pfpsf : UInt32) (res : U128) (z_sign z_exp : UInt64) (ml mg il ig : Bool) :
    z2Fin pml pmg pil pig pfpsf res z_sign z_exp ml mg il ig =
      .ok (⟨res.w0, res.w1 ||| (z_sign ||| (z_exp &&& c_MASK_EXP))⟩, ml, mg, il, ig, pfpsf) := rfl

theorem gt_emax (e : Int32) (ed : Int) (he : e.toInt = ed) : decide (e > c_EXP_MAX_UNBIASED) = decide (6111 < ed) := by
  rw [decide_eq_decide, gt_iff_lt, Int32.lt_iff_toInt_lt, he]; rfl

/-- **Case (1''B), the common end** (equal signs): from a delivery that is not tiny to the one correct rounding -/
theorem z2SameTail_spec {sz : Bool} {N : Nat} {E4 ef : Int} {cf : Nat} {L G ML MG : Bool}
    (h : Deliv sz N E4 ef cf L G ML MG) (hnt : ¬ N < 10 ^ 33 * 10 ^ (ef - E4).toNat)
    (pml pmg pil pig : Bool) (m : RoundingMode) (pfpsf : UInt32) (l hh z_sign zx : UInt64) (e3 : Int32) (pref : Int)
    (hP : hh.toNat * 2^64 + l.toNat = (deliver cf ef).1)
    (hzx : (deliver cf ef).2 ≤ 6111 → zx.toNat = ((deliver cf ef).2 + 6176).toNat * 2^49)
    (he : e3.toInt = (deliver cf ef).2) (hzs : z_sign.toNat = if sz then 2^63 else 0) :
    z2SameTail pml pmg pil pig m pfpsf ⟨l, hh ||| (z_sign ||| (zx &&& c_MASK_EXP))⟩ z_sign zx e3 ML MG L G
        (fun res z_exp pfpsf ml mg il ig => z2Fin pml pmg pil pig pfpsf res z_sign z_exp ml mg il ig) =
      .ok (ofBits (encode (finish (modeOf m) sz N 1 E4 pref).1), ML, MG, L, G,
        pfpsf ||| UInt32.ofNat (finish (modeOf m) sz N 1 E4 pref).2) := by
  have e34 : P34 = 10000000000000000000000000000000000 := rfl
  have hd1 : (deliver cf ef).1 < 2^113 := by
    have := h.hcf
    unfold deliver; split
    · show P33 < _; decide
    · show cf < _; omega
  have hd2 : -6176 ≤ (deliver cf ef).2 := by
    have := h.hef1
    unfold deliver; split
    · show _ ≤ ef + 1; omega
    · exact this
  obtain ⟨f1, f2, f3⟩ := packed_facts l hh z_sign zx sz _ _ hP hd1 hzs hzx hd2
  have hN0 : 0 < N := by
    have := h.hinex
    rcases Nat.eq_zero_or_pos N with h0 | h0
    · rw [h0, Nat.zero_mod] at this; exact absurd rfl this
    · exact h0
  simp only [z2SameTail, bind, pure, Except.pure, bind_ok', gt_emax e3 _ he]
  by_cases hm : m = .NearestEven
  · subst hm
    have hn := h.nearest pref
    simp only [beq_self_eq_true, Bool.and_true, bne_self_eq_false, Bool.false_eq_true, if_false]
    show _ = Except.ok (ofBits (encode (finish .rne sz N 1 E4 pref).1), ML, MG, L, G,
        pfpsf ||| UInt32.ofNat (finish .rne sz N 1 E4 pref).2)
    by_cases hov : 6111 < (deliver cf ef).2
    · rw [if_pos (by simpa using hov), hn, if_pos (by unfold eMax; exact hov), inf_word z_sign sz hzs]
      rw [UInt32.or_assoc, show (c_StatusFlags_BID_INEXACT_EXCEPTION ||| (c_StatusFlags_BID_INEXACT_EXCEPTION |||
        c_StatusFlags_BID_OVERFLOW_EXCEPTION) : UInt32) = UInt32.ofNat (fOverflow ||| fInexact) from by decide]
    · rw [if_neg (by simpa using hov), hn, if_neg (by unfold eMax; exact hov), if_neg hnt, z2Fin_eq]
      show Except.ok ((⟨l, (hh ||| (z_sign ||| (zx &&& c_MASK_EXP))) ||| (z_sign ||| (zx &&& c_MASK_EXP))⟩ : U128),
        ML, MG, L, G, _) = _
      rw [or_idem2, f3 (by omega)]
      rfl
  · have hmb : (m == RoundingMode.NearestEven) = false := by simpa using hm
    have hmn : (m != RoundingMode.NearestEven) = true := by simpa using hm
    simp only [hmb, Bool.and_false, Bool.false_eq_true, if_false, hmn, if_true]
    obtain ⟨hcode, hfl⟩ := h.corr_nt2 hnt m hm e3 ⟨l, hh ||| (z_sign ||| (zx &&& c_MASK_EXP))⟩
      (pfpsf ||| c_StatusFlags_BID_INEXACT_EXCEPTION) pref f1 f2 he
    rw [hcode]
    simp only [Except.bind, z2Fin_eq]
    rw [final_or_id _ sz z_sign hzs (finish_shape (modeOf m) sz N 1 E4 pref hN0 (by decide)),
      flags_abs' pfpsf (pfpsf ||| c_StatusFlags_BID_INEXACT_EXCEPTION) False _ (Or.inl rfl) (by rcases hfl with h | h; exact Or.inl h; exact Or.inr (Or.inr h))
        (fun h => h.elim)]


theorem final_or_word (a x zs m : UInt64) :
    (a ||| (zs ||| x)) ||| (zs ||| (((a ||| (zs ||| x)) &&& m) &&& m)) = a ||| (zs ||| x) := by
  have h1 : (a ||| (zs ||| x)) ||| zs = a ||| (zs ||| x) := by
    rw [UInt64.or_assoc, UInt64.or_assoc, UInt64.or_comm x zs, ← UInt64.or_assoc zs zs, UInt64.or_self]
  rw [← UInt64.or_assoc, h1, UInt64.and_assoc, UInt64.and_self, or_and_absorb]

/-- **Case (1''B), the common end** (opposite signs): from a delivery that is not tiny to the one correct rounding -/
theorem z2DiffTail_spec {sz : Bool} {N : Nat} {E4 ef : Int} {cf : Nat} {L G ML MG : Bool}
    (h : Deliv sz N E4 ef cf L G ML MG) (hnt : ¬ N < 10 ^ 33 * 10 ^ (ef - E4).toNat)
    (pml pmg pil pig : Bool) (m : RoundingMode) (pfpsf : UInt32) (l hh z_sign zx zx0 : UInt64) (e3 : Int32) (pref : Int)
    (hP : hh.toNat * 2^64 + l.toNat = (deliver cf ef).1)
    (hzx : (deliver cf ef).2 ≤ 6111 → zx.toNat = ((deliver cf ef).2 + 6176).toNat * 2^49)
    (he : e3.toInt = (deliver cf ef).2) (hzs : z_sign.toNat = if sz then 2^63 else 0) :
    z2DiffTail pml pmg pil pig m pfpsf ⟨l, hh ||| (z_sign ||| (zx &&& c_MASK_EXP))⟩ z_sign zx0 e3 ML MG L G
        (fun res z_exp pfpsf ml mg il ig => z2Fin pml pmg pil pig pfpsf res z_sign z_exp ml mg il ig) =
      .ok (ofBits (encode (finish (modeOf m) sz N 1 E4 pref).1), ML, MG, L, G,
        pfpsf ||| UInt32.ofNat (finish (modeOf m) sz N 1 E4 pref).2) := by
  have e34 : P34 = 10000000000000000000000000000000000 := rfl
  have hd1 : (deliver cf ef).1 < 2^113 := by
    have := h.hcf
    unfold deliver; split
    · show P33 < _; decide
    · show cf < _; omega
  have hd2 : -6176 ≤ (deliver cf ef).2 := by
    have := h.hef1
    unfold deliver; split
    · show _ ≤ ef + 1; omega
    · exact this
  obtain ⟨f1, f2, f3⟩ := packed_facts l hh z_sign zx sz _ _ hP hd1 hzs hzx hd2
  have hN0 : 0 < N := by
    have := h.hinex
    rcases Nat.eq_zero_or_pos N with h0 | h0
    · rw [h0, Nat.zero_mod] at this; exact absurd rfl this
    · exact h0
  simp only [z2DiffTail, bind, pure, Except.pure, bind_ok', gt_emax e3 _ he]
  by_cases hm : m = .NearestEven
  · subst hm
    have hn := h.nearest pref
    simp only [beq_self_eq_true, bne_self_eq_false, Bool.false_eq_true, if_false, if_true]
    show _ = Except.ok (ofBits (encode (finish .rne sz N 1 E4 pref).1), ML, MG, L, G,
        pfpsf ||| UInt32.ofNat (finish .rne sz N 1 E4 pref).2)
    by_cases hov : 6111 < (deliver cf ef).2
    · rw [if_pos (by simpa using hov), hn, if_pos (by unfold eMax; exact hov), inf_word z_sign sz hzs]
      rw [show (c_StatusFlags_BID_INEXACT_EXCEPTION ||| c_StatusFlags_BID_OVERFLOW_EXCEPTION : UInt32) =
        UInt32.ofNat (fOverflow ||| fInexact) from by decide]
    · rw [if_neg (by simpa using hov), hn, if_neg (by unfold eMax; exact hov), if_neg hnt, z2Fin_eq]
      show Except.ok ((⟨l, (hh ||| (z_sign ||| (zx &&& c_MASK_EXP))) |||
        (z_sign ||| (((hh ||| (z_sign ||| (zx &&& c_MASK_EXP))) &&& c_MASK_EXP) &&& c_MASK_EXP))⟩ : U128), ML, MG, L, G, _) = _
      rw [final_or_word, f3 (by omega)]
      rfl
  · have hmb : (m == RoundingMode.NearestEven) = false := by simpa using hm
    have hmn : (m != RoundingMode.NearestEven) = true := by simpa using hm
    simp only [hmb, Bool.false_eq_true, if_false, hmn, if_true]
    by_cases hov : 6111 < (deliver cf ef).2
    · rw [if_pos (by simpa using hov)]
      obtain ⟨hcode, hfl⟩ := h.corr_nt2 hnt m hm e3 ⟨l, hh ||| (z_sign ||| (zx &&& c_MASK_EXP))⟩ pfpsf pref f1 f2 he
      rw [hcode]
      rfl
    · rw [if_neg (by simpa using hov)]
      obtain ⟨hcode, hfl⟩ := h.corr_nt2 hnt m hm e3 ⟨l, hh ||| (z_sign ||| (zx &&& c_MASK_EXP))⟩
        (pfpsf ||| c_StatusFlags_BID_INEXACT_EXCEPTION) pref f1 f2 he
      rw [hcode]
      simp only [Except.bind, z2Fin_eq]
      rw [final_or_id _ sz z_sign hzs (finish_shape (modeOf m) sz N 1 E4 pref hN0 (by decide)),
        flags_abs' pfpsf (pfpsf ||| c_StatusFlags_BID_INEXACT_EXCEPTION) False _ (Or.inl rfl)
          (by rcases hfl with h | h; exact Or.inl h; exact Or.inr (Or.inr h)) (fun h => h.elim)]


end Dec.C02GenFmaZ
