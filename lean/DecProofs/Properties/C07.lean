/-
  C07 — binary float → decimal128 conversion is correctly rounded.
-/
import DecModel.Ops

namespace Dec.C07

/-- a finite non-zero binary value `±m·2^E` is handed, exactly (as the integer `m·2^E` or the fraction
`m / 2^(−E)`), to the universal finishing step with preferred exponent 0: exact when 34 digits suffice
(quantum exponent as close to zero as the digits allow), otherwise rounded once -/
theorem bin_is_finish (mode : Mode) (s : Bool) (m : Nat) (E : Int) (h : m ≠ 0) :
    binToDecD mode s m E =
      (if E ≥ 0 then finish mode s (m * 2 ^ E.toNat) 1 0 0 else finish mode s m (2 ^ (-E).toNat) 0 0) := by
  simp [binToDecD, h]

/-- zeros keep their sign (exponent 0, no flag) -/
theorem bin_zero (mode : Mode) (s : Bool) (E : Int) : binToDecD mode s 0 E = (.fin s 0 0, 0) := by
  simp [binToDecD]

/-- decoding of the binary32 / binary64 interchange formats: specials -/
example : (decodeBin 8 23 0x7f800000 matches .inf false) ∧ (decodeBin 8 23 0xff800000 matches .inf true) ∧
    (decodeBin 8 23 0x7fc00000 matches .nan false false) ∧ (decodeBin 8 23 0xffa00000 matches .nan true true) := by decide
example : (decodeBin 11 52 0x7ff0000000000000 matches .inf false) ∧
    (decodeBin 11 52 0xfff4000000000000 matches .nan true true) ∧
    (decodeBin 11 52 0x7ff8000000000001 matches .nan false false) := by decide
/-- 1.0f = 2^23 · 2^-23; the smallest subnormal is 1 · 2^-149 and is flagged subnormal -/
example : (decodeBin 8 23 0x3f800000 matches .fin false 8388608 (-23) false) ∧
    (decodeBin 8 23 0x00000001 matches .fin false 1 (-149) true) := by decide
example : (decodeBin 11 52 0x3ff0000000000000 matches .fin false 4503599627370496 (-52) false) ∧
    (decodeBin 11 52 0x0000000000000001 matches .fin false 1 (-1074) true) := by decide

end Dec.C07
