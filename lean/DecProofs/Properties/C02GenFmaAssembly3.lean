/-
  C02GenFmaAssembly3 — the fused multiply-add and the multiplication of the translated source, with NO residual hypothesis.

  C02GenFmaAssembly2 proves `bid128_fma = fmaD` and `bid128_mul = mulD` on all operands from ONE named hypothesis, `Z0Spec` (the
  `z = 0` path: non-zero product, zero addend), and reduces `Z0Spec` (`z0Spec_of`) to `C02GenFmaZ0.TinySpec` (proved:
  `C02GenFmaZ0.tinySpec`) and `Z0SmallSpec` (products of at most 34 digits: `C02GenFmaZ0Small.z0K_small`).  This file puts them
  together:
    `z0SmallSpec`, `z0Spec`;
    `bid128_ext_fma_spec`, `bid128_fma_nonnan`, `bid128_mul_nonnan`: all operands that are not NaNs;
    `ternSpec`, `bid128_fma_spec`, `bid128_mul_spec`: ALL patterns (NaN rule of `C12GenNaN`, else the model), every rounding
      mode, every status word: `bid128_fma x y z m f = .ok (ternSpec (fmaD (modeOf m) false) x y z f)`,
      `bid128_mul x y m f = .ok (binSpec (mulD (modeOf m)) x y f)` — the routines never panic;
    `api_fused_multiply_add`, `api_multiplication`: the public methods as dispatched by the regenerated `DecGen/Api.lean`;
    `fma_property`, `fma_zero_property`, `product_property`: the C02 / C01 sentences for numbers (ONE correct rounding of the exact `x·y + z` /
      `x·y` in the sense of `FinishSpecStrict`, preferred exponent `min (e1 + e2, e3)` / `e1 + e2`; exact zero sums by the IEEE
      sign rule), about `Api.run`.
  The chain: source text → `ext_fma_shape` (C02GenFmaFront, `lockstep`) → front end (`C02GenFmaFrontSpec`) → loop and blocks
  (`C02GenFmaAssembly`, `relstep`) → block specifications (C02GenFmaSwap, Wrap/Low, Z*, Mid*, 1112*, Z0*) → `fmaD`.
-/
import DecProofs.Properties.C02GenFmaAssembly2
import DecProofs.Properties.C02GenFmaZ0Small
import DecProofs.Properties.C10GenFmodRem
import DecProofs.Properties.C02Q
import DecProofs.Properties.C01Strict
import DecGen.Api

set_option linter.unusedSimpArgs false
set_option linter.unusedVariables false

namespace Dec.C02GenFmaAssembly3
open Dec Dec.Rs Dec.Gen.Code Dec.Gen.Api Dec.C02GenFmaAssembly Dec.C02GenFmaAssembly2 Dec.C12GenNaN
open Dec.C01GenMul (dOf)
open Dec.C06GenFromInt (bitsOf)
open Dec.C02GenCorrection (ofBits modeOf)
open Dec.C10GenFmodRem (binSpec binSpec_nonnan result_datum)

/-! ## 1. The last hypothesis -/

/-- products of at most 34 digits on the `z = 0` path: `C02GenFmaZ0Small.z0K_small` -/
theorem z0SmallSpec : Z0SmallSpec :=
  fun m s N hN h34 E hElo hEhi C3 hC3 C4 hC4 q4 e3 e4 hq4 he4 E3 he3 hE3 z_exp hze f k =>
    Dec.C02GenFmaZ0Small.z0K_small m s N hN h34 E hElo hEhi C3 hC3 C4 hC4 q4 e3 e4 hq4 he4 E3 he3 hE3 z_exp hze f k

/-- (b) holds: the `z = 0` path returns the model's `fmaD` -/
theorem z0Spec : Z0Spec := z0Spec_of Dec.C02GenFmaZ0.tinySpec z0SmallSpec

/-! ## 2. All operands that are not NaNs -/

/-- **`bid128_ext_fma`**: every triple of patterns none of which is a NaN, every rounding mode, every incoming status word and
indicators: `.ok` of the canonical encoding of the model's `fmaD` datum, four indicators, `f ||| flags` -/
theorem bid128_ext_fma_spec (p1 p2 p3 p4 : Bool) (x y z : U128) (m : RoundingMode) (f : UInt32)
    (hx : (dOf x).isNaN = false) (hy : (dOf y).isNaN = false) (hz : (dOf z).isNaN = false) :
    ExtFmaOK p1 p2 p3 p4 x y z m f :=
  bid128_ext_fma_spec_of prodZeroSpec z0Spec case1112Spec midWideSpec p1 p2 p3 p4 x y z m f hx hy hz

theorem bid128_fma_nonnan (x y z : U128) (m : RoundingMode) (f : UInt32)
    (hx : (dOf x).isNaN = false) (hy : (dOf y).isNaN = false) (hz : (dOf z).isNaN = false) : FmaOK x y z m f :=
  bid128_fma_spec_partial2 z0Spec x y z m f hx hy hz

theorem bid128_mul_nonnan (x y : U128) (m : RoundingMode) (f : UInt32)
    (hx : (dOf x).isNaN = false) (hy : (dOf y).isNaN = false) : MulOK x y m f :=
  bid128_mul_spec_of z0Spec x y m f hx hy

/-! ## 3. All patterns -/

/-- what a ternary operation returns: the NaN rule (`C12GenNaN.fmaPick`, `nanFlags`) if an operand is a NaN, else the canonical
encoding of the model's datum and its flags OR-ed into the status word -/
def ternSpec (D : Datum → Datum → Datum → Datum × Flags) (x y z : U128) (f : UInt32) : U128 × UInt32 :=
  if ((decode (bitsOf x)).isNaN || (decode (bitsOf y)).isNaN || (decode (bitsOf z)).isNaN) = true then
    (fmaPick x y z, nanFlags f [decode (bitsOf x), decode (bitsOf y), decode (bitsOf z)])
  else (ofBits (encode (D (decode (bitsOf x)) (decode (bitsOf y)) (decode (bitsOf z))).1),
        f ||| UInt32.ofNat (D (decode (bitsOf x)) (decode (bitsOf y)) (decode (bitsOf z))).2)

/-- **`bid128_fma` of the translated source is the specification**: for every triple of patterns (NaNs, infinities, zeros,
non-canonical encodings included), every rounding mode and every status word on entry it returns — never panics — the
canonical quiet NaN of the NaN rule, or the canonical encoding of `fmaD`'s datum, and ORs the flags into the status word -/
theorem bid128_fma_spec (x y z : U128) (m : RoundingMode) (f : UInt32) :
    bid128_fma x y z m f = .ok (ternSpec (fmaD (modeOf m) false) x y z f) := by
  unfold ternSpec
  by_cases h : ((decode (bitsOf x)).isNaN || (decode (bitsOf y)).isNaN || (decode (bitsOf z)).isNaN) = true
  · rw [if_pos h]; exact fma_nan x y z m f h
  · rw [if_neg h]
    simp only [Bool.or_eq_true, not_or, Bool.not_eq_true] at h
    exact bid128_fma_nonnan x y z m f h.1.1 h.1.2 h.2

/-- **`bid128_mul` of the translated source is the specification**, all patterns, every mode, every status word -/
theorem bid128_mul_spec (x y : U128) (m : RoundingMode) (f : UInt32) :
    bid128_mul x y m f = .ok (binSpec (mulD (modeOf m)) x y f) := by
  unfold binSpec
  by_cases h : ((decode (bitsOf x)).isNaN || (decode (bitsOf y)).isNaN) = true
  · rw [if_pos h]; exact mul_nan x y m f h
  · rw [if_neg h]
    simp only [Bool.or_eq_true, not_or, Bool.not_eq_true] at h
    exact bid128_mul_nonnan x y m f h.1 h.2

/-! ## 4. The public methods -/

theorem run_fma (m : RoundingMode) (f : UInt32) (a0 a1 a2 : U128) :
    run "fused_multiply_add" m f [.d a0, .d a1, .d a2] = some ((bid128_fma a0 a1 a2 m f).map fun (r, g) => ([.d r], g)) := rfl

theorem run_mul (m : RoundingMode) (f : UInt32) (a0 a1 : U128) :
    run "multiplication" m f [.d a0, .d a1] = some ((bid128_mul a0 a1 m f).map fun (r, g) => ([.d r], g)) := rfl

/-- the public method `fused_multiply_add`, as dispatched by the regenerated `DecGen/Api.lean`: every triple of values, every
rounding mode, every status word — returns normally with what the specification prescribes -/
theorem api_fused_multiply_add (m : RoundingMode) (f : UInt32) (x y z : U128) :
    run "fused_multiply_add" m f [.d x, .d y, .d z]
      = some (.ok ([.d (ternSpec (fmaD (modeOf m) false) x y z f).1], (ternSpec (fmaD (modeOf m) false) x y z f).2)) := by
  rw [run_fma, bid128_fma_spec]
  generalize ternSpec (fmaD (modeOf m) false) x y z f = p
  cases p; rfl

/-- the public method `multiplication` -/
theorem api_multiplication (m : RoundingMode) (f : UInt32) (x y : U128) :
    run "multiplication" m f [.d x, .d y]
      = some (.ok ([.d (binSpec (mulD (modeOf m)) x y f).1], (binSpec (mulD (modeOf m)) x y f).2)) := by
  rw [run_mul, bid128_mul_spec]
  generalize binSpec (mulD (modeOf m)) x y f = p
  cases p; rfl

theorem ternSpec_nonnan (D : Datum → Datum → Datum → Datum × Flags) (x y z : U128) (f : UInt32)
    (hx : (dOf x).isNaN = false) (hy : (dOf y).isNaN = false) (hz : (dOf z).isNaN = false) :
    ternSpec D x y z f = (ofBits (encode (D (dOf x) (dOf y) (dOf z)).1), f ||| UInt32.ofNat (D (dOf x) (dOf y) (dOf z)).2) := by
  unfold ternSpec
  rw [if_neg]
  show ¬ (((dOf x).isNaN || (dOf y).isNaN || (dOf z).isNaN) = true)
  rw [hx, hy, hz]; decide

/-- **C02, three numbers with a non-zero exact result**: "fused multiply-add returns `x·y + z` computed exactly and rounded
ONCE".  With `V = x·y + z` as a rational, `V ≠ 0`: the method returns the pattern of a datum `d` and ORs flags `F` into the
status word, where `(d, F)` is THE correct delivery of `|V|` with the sign of `V` and preferred exponent `min (e1 + e2, e3)` in
the sense of `FinishSpecStrict` (exactly one solution: `C02Q.fma_eq_iff`) -/
theorem fma_property (m : RoundingMode) (f : UInt32) (x y z : U128) (s1 s2 s3 : Bool) (c1 c2 c3 : Nat) (e1 e2 e3 : Int)
    (hx : dOf x = .fin s1 c1 e1) (hy : dOf y = .fin s2 c2 e2) (hz : dOf z = .fin s3 c3 e3)
    (hV : fval s1 c1 e1 * fval s2 c2 e2 + fval s3 c3 e3 ≠ 0) :
    ∃ (r : U128) (d : Datum) (F : Flags), run "fused_multiply_add" m f [.d x, .d y, .d z] = some (.ok ([.d r], f ||| UInt32.ofNat F)) ∧
      r = ofBits (encode d) ∧
      FinishSpecStrict (modeOf m) (decide (fval s1 c1 e1 * fval s2 c2 e2 + fval s3 c3 e3 < 0))
        |fval s1 c1 e1 * fval s2 c2 e2 + fval s3 c3 e3| (min (e1 + e2) e3) (d, F) := by
  refine ⟨_, (fmaD (modeOf m) false (.fin s1 c1 e1) (.fin s2 c2 e2) (.fin s3 c3 e3)).1,
    (fmaD (modeOf m) false (.fin s1 c1 e1) (.fin s2 c2 e2) (.fin s3 c3 e3)).2, ?_, rfl,
    Dec.C02Q.fma_correct_strict (modeOf m) s1 c1 e1 s2 c2 e2 s3 c3 e3 hV⟩
  rw [api_fused_multiply_add, ternSpec_nonnan _ x y z f (by rw [hx]; rfl) (by rw [hy]; rfl) (by rw [hz]; rfl), hx, hy, hz]

/-- **C02, an exact zero result** (`x·y + z = 0`): the zero with the IEEE sign of a zero sum (of the product's sign and the
addend's) and the exponent `min (e1 + e2, e3)` clamped into the format's range; no flag -/
theorem fma_zero_property (m : RoundingMode) (f : UInt32) (x y z : U128) (s1 s2 s3 : Bool) (c1 c2 c3 : Nat) (e1 e2 e3 : Int)
    (hx : dOf x = .fin s1 c1 e1) (hy : dOf y = .fin s2 c2 e2) (hz : dOf z = .fin s3 c3 e3)
    (hV : fval s1 c1 e1 * fval s2 c2 e2 + fval s3 c3 e3 = 0) :
    run "fused_multiply_add" m f [.d x, .d y, .d z] =
      some (.ok ([.d (ofBits (encode (zeroAt (zeroSumSign (modeOf m) (s1 != s2) s3) (min (e1 + e2) e3))))], f)) := by
  have h := (Dec.C02Q.fma_correct (modeOf m) s1 c1 e1 s2 c2 e2 s3 c3 e3).1 hV
  rw [api_fused_multiply_add, ternSpec_nonnan _ x y z f (by rw [hx]; rfl) (by rw [hy]; rfl) (by rw [hz]; rfl), hx, hy, hz, h]
  exact congrArg (fun g => some (Except.ok ([_], g))) UInt32.or_zero


theorem binSpec_nn (D : Datum → Datum → Datum × Flags) (x y : U128) (f : UInt32) (hx : (dOf x).isNaN = false)
    (hy : (dOf y).isNaN = false) :
    binSpec D x y f = (ofBits (encode (D (dOf x) (dOf y)).1), f ||| UInt32.ofNat (D (dOf x) (dOf y)).2) :=
  binSpec_nonnan D x y f hx hy

/-- **C01, the product of two non-zero numbers**: "multiplication returns the exact product correctly rounded to 34 digits in
the rounding mode; an exact product gets the exponent closest to `e1 + e2`; the sign is the xor of the signs".  With
`V = x·y ≠ 0` as a rational: the method returns the pattern of a datum `d` and ORs flags `F` into the status word, where
`(d, F)` is THE correct delivery of `|V|` with sign `s1 xor s2` and preferred exponent `e1 + e2` (`FinishSpecStrict`) -/
theorem product_property (m : RoundingMode) (f : UInt32) (x y : U128) (s1 s2 : Bool) (c1 c2 : Nat) (e1 e2 : Int)
    (hx : dOf x = .fin s1 c1 e1) (hy : dOf y = .fin s2 c2 e2) (hV : fval s1 c1 e1 * fval s2 c2 e2 ≠ 0) :
    ∃ (r : U128) (d : Datum) (F : Flags), run "multiplication" m f [.d x, .d y] = some (.ok ([.d r], f ||| UInt32.ofNat F)) ∧
      r = ofBits (encode d) ∧ decide (fval s1 c1 e1 * fval s2 c2 e2 < 0) = (s1 != s2) ∧
      FinishSpecStrict (modeOf m) (s1 != s2) |fval s1 c1 e1 * fval s2 c2 e2| (e1 + e2) (d, F) := by
  obtain ⟨hsign, hspec⟩ := Dec.C01Strict.mul_correct_strict (modeOf m) s1 c1 e1 s2 c2 e2 hV
  rw [hsign] at hspec
  refine ⟨_, (mulD (modeOf m) (.fin s1 c1 e1) (.fin s2 c2 e2)).1, (mulD (modeOf m) (.fin s1 c1 e1) (.fin s2 c2 e2)).2, ?_, rfl,
    hsign, hspec⟩
  rw [api_multiplication, binSpec_nn _ x y f (by rw [hx]; rfl) (by rw [hy]; rfl), hx, hy]

/-! ### examples: the methods run on concrete operands (the translated routines, evaluated by the kernel) -/

-- 1.2 × 0.5 + 0.25 = 0.85 exactly (preferred exponent −2)
example : run "fused_multiply_add" .NearestEven 0
      [.d (ofBits (encode (.fin false 12 (-1)))), .d (ofBits (encode (.fin false 5 (-1)))), .d (ofBits (encode (.fin false 25 (-2))))] =
    some (.ok ([.d (ofBits (encode (.fin false 85 (-2))))], 0)) := by decide +kernel
-- (10^34 − 1)² + 1: one rounding of a 68-digit value (Case (7)), inexact
example : run "fused_multiply_add" .NearestEven 0
      [.d (ofBits (encode (.fin false (10^34 - 1) 0))), .d (ofBits (encode (.fin false (10^34 - 1) 0))), .d (ofBits (encode (.fin false 1 0)))] =
    some (.ok ([.d (ofBits (encode (.fin false 9999999999999999999999999999999998 34)))], 0x20)) := by decide +kernel
-- a subnormal product: 3E−3100 × 7E−3080 = 21E−6180 → 0E−6176 (nearest-even: 0.0021 units), underflow + inexact; upward: 1E−6176
example : run "multiplication" .NearestEven 0 [.d (ofBits (encode (.fin false 3 (-3100)))), .d (ofBits (encode (.fin false 7 (-3080))))] =
    some (.ok ([.d (ofBits (encode (.fin false 0 (-6176))))], 0x30)) := by decide +kernel
example : run "multiplication" .Upward 0 [.d (ofBits (encode (.fin false 3 (-3100)))), .d (ofBits (encode (.fin false 7 (-3080))))] =
    some (.ok ([.d (ofBits (encode (.fin false 1 (-6176))))], 0x30)) := by decide +kernel
-- overflow of a short product: 2E3100 × 5E3100 = 10E6200: +Inf (nearest-even), largest finite (toward zero); overflow + inexact
example : run "multiplication" .NearestEven 0 [.d (ofBits (encode (.fin false 2 3100))), .d (ofBits (encode (.fin false 5 3100)))] =
    some (.ok ([.d (ofBits (encode (.inf false)))], 0x28)) := by decide +kernel
example : run "multiplication" .TowardZero 0 [.d (ofBits (encode (.fin false 2 3100))), .d (ofBits (encode (.fin false 5 3100)))] =
    some (.ok ([.d (ofBits (encode (.fin false (10^34 - 1) 6111)))], 0x28)) := by decide +kernel
-- ∞ × 0: invalid, the default NaN
example : run "multiplication" .NearestEven 0 [.d (ofBits (encode (.inf true))), .d (ofBits (encode (.fin false 0 3)))] =
    some (.ok ([.d (ofBits (encode defaultNaN))], 0x01)) := by decide +kernel
end Dec.C02GenFmaAssembly3
