/-
  C08Q — round-to-integral: the result is the exact value rounded to an integer in the stated
  direction (over ℚ), with exponent 0 (or the operand unchanged when its exponent is ≥ 0), and the
  "changed" indication is raised iff the value changed.  modf: integral part = truncation; fractional
  part = exact difference (conditional on exactness of the model's subtraction, see below).
-/
import DecProofs.Core.RoundQ
import DecProofs.Properties.C06Q
import DecProofs.Properties.C08

namespace Dec.C08Q

/-- the exponent of the result of round-to-integral -/
def resExp (e : Int) : Int := if e < 0 then 0 else e

/-- link with the integer conversion: the result datum of `toIntegralD` has the operand's sign, the
exponent `resExp e`, its value is the integer computed by `roundToInt`, and "changed" is the negation
of `roundToInt`'s "exact" -/
theorem toIntegral_roundToInt (mode : Mode) (s : Bool) (c : Nat) (e : Int) :
    ∃ m, toIntegralD mode (.fin s c e) = (.fin s m (resExp e), !(roundToInt mode s c e).2) ∧
      fval s m (resExp e) = (((roundToInt mode s c e).1 : Int) : ℚ) ∧
      (0 ≤ e → m = c) := by
  by_cases h : 0 ≤ e
  · refine ⟨c, ?_, ?_, fun _ => rfl⟩
    · rw [C08.integral_unchanged mode s c e h, (C06.roundToInt_spec mode s c e).1 h]
      simp [resExp, h]
    · rw [(C06.roundToInt_spec mode s c e).1 h]
      have : resExp e = e := by simp [resExp, h]
      rw [this, fval_of_nonneg s c e h]
  · have h' : e < 0 := by omega
    refine ⟨roundInt mode s (c / 10 ^ (-e).toNat) (c % 10 ^ (-e).toNat) (10 ^ (-e).toNat), ?_, ?_, fun h0 => absurd h0 h⟩
    · rw [C08.integral_rounded mode s c e h', (C06.roundToInt_spec mode s c e).2 h']
      simp [resExp, h', bne]
    · rw [(C06.roundToInt_spec mode s c e).2 h']
      have : resExp e = 0 := by simp [resExp, h']
      rw [this, fval_zero_exp]

/-- **C08, all five directions.**  Let `n` be the exact value of the finite operand rounded to an
integer in the stated direction.  `toIntegralD` returns a datum with the operand's sign (also when the
result is zero), exponent 0 if the operand's exponent was negative and the operand's own exponent
(and coefficient) otherwise, whose value is exactly `n`; and its "changed" output is true iff the
value changed (iff the operand was not an integer). -/
theorem toIntegral_spec (mode : Mode) (s : Bool) (c : Nat) (e : Int) (n : Int)
    (hn : RoundedZ mode (fval s c e) n) :
    ∃ m, (toIntegralD mode (.fin s c e)).1 = .fin s m (resExp e) ∧
      fval s m (resExp e) = (n : ℚ) ∧
      (0 ≤ e → m = c) ∧
      ((toIntegralD mode (.fin s c e)).2 = true ↔ fval s m (resExp e) ≠ fval s c e) ∧
      ((toIntegralD mode (.fin s c e)).2 = true ↔ ¬ IsInt (fval s c e)) := by
  obtain ⟨m, h1, h2, h3⟩ := toIntegral_roundToInt mode s c e
  have hu := C06Q.roundToInt_unique mode s c e n hn
  have hch : (toIntegralD mode (.fin s c e)).2 = true ↔ ¬ IsInt (fval s c e) := by
    rw [h1, ← C06Q.roundToInt_exact_iff mode s c e]; simp
  refine ⟨m, by rw [h1], by rw [h2, hu], h3, ?_, hch⟩
  rw [hch, h2, hu]
  constructor
  · intro hni heq; exact hni ⟨n, heq.symm⟩
  · rintro hne ⟨k, hk⟩
    have := C06Q.roundToInt_of_isInt mode s c e k hk
    rw [hu] at this; rw [this, hk] at hne; exact hne rfl

/-- round-to-integral toward negative: the value of the result is `⌊x⌋` -/
theorem toIntegral_rdn_floor (s : Bool) (c : Nat) (e : Int) :
    ∃ m, (toIntegralD .rdn (.fin s c e)).1 = .fin s m (resExp e) ∧ fval s m (resExp e) = (⌊fval s c e⌋ : Int) := by
  obtain ⟨m, h1, h2, _⟩ := toIntegral_spec .rdn s c e ⌊fval s c e⌋ rfl
  exact ⟨m, h1, h2⟩

/-- round-to-integral toward positive: the value of the result is `⌈x⌉` -/
theorem toIntegral_rup_ceil (s : Bool) (c : Nat) (e : Int) :
    ∃ m, (toIntegralD .rup (.fin s c e)).1 = .fin s m (resExp e) ∧ fval s m (resExp e) = (⌈fval s c e⌉ : Int) := by
  obtain ⟨m, h1, h2, _⟩ := toIntegral_spec .rup s c e ⌈fval s c e⌉ rfl
  exact ⟨m, h1, h2⟩

/-- round-to-integral toward zero: the value of the result is the truncation of `x` -/
theorem toIntegral_rtz_trunc (s : Bool) (c : Nat) (e : Int) :
    ∃ m, (toIntegralD .rtz (.fin s c e)).1 = .fin s m (resExp e) ∧
      fval s m (resExp e) = ((if 0 ≤ fval s c e then ⌊fval s c e⌋ else ⌈fval s c e⌉ : Int) : ℚ) := by
  obtain ⟨m, h1, h2, _⟩ := toIntegral_spec .rtz s c e _ rfl
  exact ⟨m, h1, h2⟩

/-- round-to-integral to nearest (ties to even): the result is an integer within one half of `x`,
with an even value when `x` is exactly half-way -/
theorem toIntegral_rne_nearest (s : Bool) (c : Nat) (e : Int) :
    ∃ m n, (toIntegralD .rne (.fin s c e)).1 = .fin s m (resExp e) ∧ fval s m (resExp e) = ((n : Int) : ℚ) ∧
      |fval s c e - n| ≤ 1 / 2 ∧ (|fval s c e - n| = 1 / 2 → n % 2 = 0) := by
  obtain ⟨n, hn⟩ := C06Q.rounded_exists .rne s c e
  obtain ⟨m, h1, h2, _⟩ := toIntegral_spec .rne s c e n hn
  exact ⟨m, n, h1, h2, hn⟩

/-- round-to-integral to nearest (ties away from zero) -/
theorem toIntegral_rna_nearest (s : Bool) (c : Nat) (e : Int) :
    ∃ m n, (toIntegralD .rna (.fin s c e)).1 = .fin s m (resExp e) ∧ fval s m (resExp e) = ((n : Int) : ℚ) ∧
      |fval s c e - n| ≤ 1 / 2 ∧ (|fval s c e - n| = 1 / 2 → |fval s c e| ≤ |(n : ℚ)|) := by
  obtain ⟨n, hn⟩ := C06Q.rounded_exists .rna s c e
  obtain ⟨m, h1, h2, _⟩ := toIntegral_spec .rna s c e n hn
  exact ⟨m, n, h1, h2, hn⟩

/-- magnitude form, as `RoundedTo`: for a negative exponent the result coefficient is `|x|` rounded in
`mode` for a value of sign `s` -/
theorem toIntegral_RoundedTo (mode : Mode) (s : Bool) (c : Nat) (e : Int) (h : e < 0) :
    ∃ m, (toIntegralD mode (.fin s c e)).1 = .fin s m 0 ∧ RoundedTo mode s |fval s c e| m := by
  refine ⟨_, by rw [C08.integral_rounded mode s c e h], ?_⟩
  rw [abs_fval, zpow10_neg e (by omega), mul_one_div]
  exact roundInt_divmod_RoundedTo mode s c _ (pow10_pos _)

example : RoundedZ .rna (fval true 25 (-1)) (-3) := by
  have := C06Q.roundToInt_rounded .rna true 25 (-1)
  have e : (roundToInt .rna true 25 (-1)).1 = -3 := by decide
  rwa [e] at this

/-! ### modf -/

/-- the truncated operand, as the model computes it -/
def truncD (s : Bool) (c : Nat) (e : Int) : Datum := (toIntegralD .rtz (.fin s c e)).1

/-- the integral part returned by modf is the toward-zero integral value, with the sign of x -/
theorem modf_integral (s : Bool) (c : Nat) (e : Int) :
    ∃ m, (modfD (.fin s c e)).1 = .fin s m (resExp e) ∧
      fval s m (resExp e) = ((if 0 ≤ fval s c e then ⌊fval s c e⌋ else ⌈fval s c e⌉ : Int) : ℚ) := by
  obtain ⟨m, h1, h2⟩ := toIntegral_rtz_trunc s c e
  refine ⟨m, ?_, h2⟩
  rw [C08.modf_spec, h1]; rfl

/-- `x - trunc x` has the sign of `x` or is zero -/
theorem sub_trunc_sign (s : Bool) (c : Nat) (e : Int) (n : Int)
    (hn : n = if 0 ≤ fval s c e then ⌊fval s c e⌋ else ⌈fval s c e⌉) :
    if s then fval s c e - n ≤ 0 else 0 ≤ fval s c e - n := by
  have hmag : (0 : ℚ) ≤ (c : ℚ) * (10 : ℚ) ^ e := mul_nonneg (Nat.cast_nonneg c) (zpow_nonneg (by norm_num) e)
  cases s
  · have h0 : 0 ≤ fval false c e := by rw [fval_signed]; simpa using hmag
    rw [if_pos h0] at hn; subst hn
    simp only [Bool.false_eq_true, if_false]
    linarith [Int.floor_le (fval false c e)]
  · have h0 : fval true c e ≤ 0 := by rw [fval_signed]; simp only [if_true]; linarith
    simp only [if_true]
    by_cases h1 : 0 ≤ fval true c e
    · rw [if_pos h1] at hn; subst hn
      have : fval true c e = 0 := le_antisymm h0 h1
      rw [this]; simp
    · rw [if_neg h1] at hn; subst hn
      linarith [Int.le_ceil (fval true c e)]

/-- giving a datum the sign `s` does not change its value when that value already has sign `s` or is
zero -/
theorem fval_setSign (s sf : Bool) (cf : Nat) (ef : Int)
    (h : if s then fval sf cf ef ≤ 0 else 0 ≤ fval sf cf ef) : fval s cf ef = fval sf cf ef := by
  have hp : (0 : ℚ) < (10 : ℚ) ^ ef := zpow_pos (by norm_num) ef
  have hc : (0 : ℚ) ≤ cf := Nat.cast_nonneg cf
  cases s <;> cases sf <;> simp only [fval_signed, if_true, if_false, Bool.false_eq_true] at h ⊢
  · have : (cf : ℚ) * (10 : ℚ) ^ ef = 0 := le_antisymm (by linarith) (mul_nonneg hc hp.le)
    rw [this]; simp
  · have : (cf : ℚ) * (10 : ℚ) ^ ef = 0 := le_antisymm (by linarith) (mul_nonneg hc hp.le)
    rw [this]; simp

/-- operands with non-negative exponent are integers: modf returns x itself and a zero of x's sign
(unconditional) -/
theorem modf_of_nonneg_exp (s : Bool) (c : Nat) (e : Int) (h : 0 ≤ e) :
    ∃ ez, modfD (.fin s c e) = (.fin s c e, .fin s 0 ez) := by
  rw [C08.modf_spec, C08.integral_unchanged .rtz s c e h]
  have hS : sInt s (c * 10 ^ (e - e).toNat) + sInt (!s) (c * 10 ^ (e - e).toNat) = 0 := by
    unfold sInt; cases s <;> simp
  refine ⟨clampInt eMin eMax e, ?_⟩
  simp only [subD, Datum.negate, Datum.neg, Datum.setSign, addD, addFin, le_refl, if_true, hS, zeroAt]

/-- **modf, fractional part** — conditional on exactness of the model's subtraction in this special
case.  Hypothesis `hsub`: the model's `subD .rne x (trunc x)` returns a finite datum whose value is the
exact difference (this is an instance of the `finish` exactness theorem: the difference is
`±(c mod 10^(-e))·10^e`, a member of the format whenever x is).  Conclusion: the fractional part
returned by modf is that datum with the sign of x, and its value is exactly `x − integral part`. -/
theorem modf_fraction (s : Bool) (c : Nat) (e : Int) (sf : Bool) (cf : Nat) (ef : Int)
    (hfin : (subD .rne (.fin s c e) (truncD s c e)).1 = .fin sf cf ef)
    (hsub : fval sf cf ef =
      fval s c e - ((if 0 ≤ fval s c e then ⌊fval s c e⌋ else ⌈fval s c e⌉ : Int) : ℚ)) :
    ∃ m, modfD (.fin s c e) = (.fin s m (resExp e), .fin s cf ef) ∧
      fval s cf ef = fval s c e - fval s m (resExp e) := by
  obtain ⟨m, h1, h2⟩ := toIntegral_rtz_trunc s c e
  refine ⟨m, ?_, ?_⟩
  · rw [C08.modf_spec]
    unfold truncD at hfin
    rw [hfin, h1]; rfl
  · rw [h2, ← hsub]
    apply fval_setSign
    rw [hsub]
    exact sub_trunc_sign s c e _ rfl

example : modfD (.fin true 1234 (-2)) = (.fin true 12 0, .fin true 34 (-2)) := by decide +kernel

end Dec.C08Q
