/-
  C08Q — round-to-integral: the result is the exact value rounded to an integer in the stated
  direction (over ℚ), with exponent 0 (or the operand unchanged when its exponent is ≥ 0), and the
  "changed" indication is raised iff the value changed.  modf: integral part = truncation; fractional
  part = exact difference (`modf_spec_Q`, unconditional for members of the format, using the `finish`
  theorem of `DecProofs.Core.Finish`; `modf_fraction` is the older form conditional on exactness of the
  model's subtraction and does not depend on `Finish`).
-/
import DecProofs.Core.RoundQ
import DecProofs.Core.Finish
import DecProofs.Properties.C06Q
import DecProofs.Properties.C08

namespace Dec.C08Q

/-- the exponent of the result of round-to-integral -/
def resExp (e : Int) : Int := if e < 0 then 0 else e

/-- link with the integer conversion: the result datum of `toIntegralD` has the operand's sign, the
exponent `resExp e`, its value is the integer computed by `roundToInt`, and "changed" is the negation
of `roundToInt`'s "exact" -/
theorem toIntegral_roundToInt (mode : Mode) (s : Bool) (c : Nat) (e : Int) :
    ∃ m, toIntegralD mode (.fin s c e) = (.fin s m (resExp e), !(roundToInt mode s c e).2) ∧
      fval s m (resExp e) = (((roundToInt mode s c e).1 : Int) : ℚ) ∧
      (0 ≤ e → m = c) := by
  by_cases h : 0 ≤ e
  · refine ⟨c, ?_, ?_, fun _ => rfl⟩
    · rw [C08.integral_unchanged mode s c e h, (C06.roundToInt_spec mode s c e).1 h]
      simp [resExp, h]
    · rw [(C06.roundToInt_spec mode s c e).1 h]
      have : resExp e = e := by simp [resExp, h]
      rw [this, fval_of_nonneg s c e h]
  · have h' : e < 0 := by omega
    refine ⟨roundInt mode s (c / 10 ^ (-e).toNat) (c % 10 ^ (-e).toNat) (10 ^ (-e).toNat), ?_, ?_, fun h0 => absurd h0 h⟩
    · rw [C08.integral_rounded mode s c e h', (C06.roundToInt_spec mode s c e).2 h']
      simp [resExp, h', bne]
    · rw [(C06.roundToInt_spec mode s c e).2 h']
      have : resExp e = 0 := by simp [resExp, h']
      rw [this, fval_zero_exp]

/-- **C08, all five directions.**  Let `n` be the exact value of the finite operand rounded to an
integer in the stated direction.  `toIntegralD` returns a datum with the operand's sign (also when the
result is zero), exponent 0 if the operand's exponent was negative and the operand's own exponent
(and coefficient) otherwise, whose value is exactly `n`; and its "changed" output is true iff the
value changed (iff the operand was not an integer). -/
theorem toIntegral_spec (mode : Mode) (s : Bool) (c : Nat) (e : Int) (n : Int)
    (hn : RoundedZ mode (fval s c e) n) :
    ∃ m, (toIntegralD mode (.fin s c e)).1 = .fin s m (resExp e) ∧
      fval s m (resExp e) = (n : ℚ) ∧
      (0 ≤ e → m = c) ∧
      ((toIntegralD mode (.fin s c e)).2 = true ↔ fval s m (resExp e) ≠ fval s c e) ∧
      ((toIntegralD mode (.fin s c e)).2 = true ↔ ¬ IsInt (fval s c e)) := by
  obtain ⟨m, h1, h2, h3⟩ := toIntegral_roundToInt mode s c e
  have hu := C06Q.roundToInt_unique mode s c e n hn
  have hch : (toIntegralD mode (.fin s c e)).2 = true ↔ ¬ IsInt (fval s c e) := by
    rw [h1, ← C06Q.roundToInt_exact_iff mode s c e]; simp
  refine ⟨m, by rw [h1], by rw [h2, hu], h3, ?_, hch⟩
  rw [hch, h2, hu]
  constructor
  · intro hni heq; exact hni ⟨n, heq.symm⟩
  · rintro hne ⟨k, hk⟩
    have := C06Q.roundToInt_of_isInt mode s c e k hk
    rw [hu] at this; rw [this, hk] at hne; exact hne rfl

/-- round-to-integral toward negative: the value of the result is `⌊x⌋` -/
theorem toIntegral_rdn_floor (s : Bool) (c : Nat) (e : Int) :
    ∃ m, (toIntegralD .rdn (.fin s c e)).1 = .fin s m (resExp e) ∧ fval s m (resExp e) = (⌊fval s c e⌋ : Int) := by
  obtain ⟨m, h1, h2, _⟩ := toIntegral_spec .rdn s c e ⌊fval s c e⌋ rfl
  exact ⟨m, h1, h2⟩

/-- round-to-integral toward positive: the value of the result is `⌈x⌉` -/
theorem toIntegral_rup_ceil (s : Bool) (c : Nat) (e : Int) :
    ∃ m, (toIntegralD .rup (.fin s c e)).1 = .fin s m (resExp e) ∧ fval s m (resExp e) = (⌈fval s c e⌉ : Int) := by
  obtain ⟨m, h1, h2, _⟩ := toIntegral_spec .rup s c e ⌈fval s c e⌉ rfl
  exact ⟨m, h1, h2⟩

/-- round-to-integral toward zero: the value of the result is the truncation of `x` -/
theorem toIntegral_rtz_trunc (s : Bool) (c : Nat) (e : Int) :
    ∃ m, (toIntegralD .rtz (.fin s c e)).1 = .fin s m (resExp e) ∧
      fval s m (resExp e) = ((if 0 ≤ fval s c e then ⌊fval s c e⌋ else ⌈fval s c e⌉ : Int) : ℚ) := by
  obtain ⟨m, h1, h2, _⟩ := toIntegral_spec .rtz s c e _ rfl
  exact ⟨m, h1, h2⟩

/-- round-to-integral to nearest (ties to even): the result is an integer within one half of `x`,
with an even value when `x` is exactly half-way -/
theorem toIntegral_rne_nearest (s : Bool) (c : Nat) (e : Int) :
    ∃ m n, (toIntegralD .rne (.fin s c e)).1 = .fin s m (resExp e) ∧ fval s m (resExp e) = ((n : Int) : ℚ) ∧
      |fval s c e - n| ≤ 1 / 2 ∧ (|fval s c e - n| = 1 / 2 → n % 2 = 0) := by
  obtain ⟨n, hn⟩ := C06Q.rounded_exists .rne s c e
  obtain ⟨m, h1, h2, _⟩ := toIntegral_spec .rne s c e n hn
  exact ⟨m, n, h1, h2, hn⟩

/-- round-to-integral to nearest (ties away from zero) -/
theorem toIntegral_rna_nearest (s : Bool) (c : Nat) (e : Int) :
    ∃ m n, (toIntegralD .rna (.fin s c e)).1 = .fin s m (resExp e) ∧ fval s m (resExp e) = ((n : Int) : ℚ) ∧
      |fval s c e - n| ≤ 1 / 2 ∧ (|fval s c e - n| = 1 / 2 → |fval s c e| ≤ |(n : ℚ)|) := by
  obtain ⟨n, hn⟩ := C06Q.rounded_exists .rna s c e
  obtain ⟨m, h1, h2, _⟩ := toIntegral_spec .rna s c e n hn
  exact ⟨m, n, h1, h2, hn⟩

/-- magnitude form, as `RoundedTo`: for a negative exponent the result coefficient is `|x|` rounded in
`mode` for a value of sign `s` -/
theorem toIntegral_RoundedTo (mode : Mode) (s : Bool) (c : Nat) (e : Int) (h : e < 0) :
    ∃ m, (toIntegralD mode (.fin s c e)).1 = .fin s m 0 ∧ RoundedTo mode s |fval s c e| m := by
  refine ⟨_, by rw [C08.integral_rounded mode s c e h], ?_⟩
  rw [abs_fval, zpow10_neg e (by omega), mul_one_div]
  exact roundInt_divmod_RoundedTo mode s c _ (pow10_pos _)

example : RoundedZ .rna (fval true 25 (-1)) (-3) := by
  have := C06Q.roundToInt_rounded .rna true 25 (-1)
  have e : (roundToInt .rna true 25 (-1)).1 = -3 := by decide
  rwa [e] at this

/-! ### modf -/

/-- the truncated operand, as the model computes it -/
def truncD (s : Bool) (c : Nat) (e : Int) : Datum := (toIntegralD .rtz (.fin s c e)).1

/-- the integral part returned by modf is the toward-zero integral value, with the sign of x -/
theorem modf_integral (s : Bool) (c : Nat) (e : Int) :
    ∃ m, (modfD (.fin s c e)).1 = .fin s m (resExp e) ∧
      fval s m (resExp e) = ((if 0 ≤ fval s c e then ⌊fval s c e⌋ else ⌈fval s c e⌉ : Int) : ℚ) := by
  obtain ⟨m, h1, h2⟩ := toIntegral_rtz_trunc s c e
  refine ⟨m, ?_, h2⟩
  rw [C08.modf_spec, h1]; rfl

/-- `x - trunc x` has the sign of `x` or is zero -/
theorem sub_trunc_sign (s : Bool) (c : Nat) (e : Int) (n : Int)
    (hn : n = if 0 ≤ fval s c e then ⌊fval s c e⌋ else ⌈fval s c e⌉) :
    if s then fval s c e - n ≤ 0 else 0 ≤ fval s c e - n := by
  have hmag : (0 : ℚ) ≤ (c : ℚ) * (10 : ℚ) ^ e := mul_nonneg (Nat.cast_nonneg c) (zpow_nonneg (by norm_num) e)
  cases s
  · have h0 : 0 ≤ fval false c e := by rw [fval_signed]; simpa using hmag
    rw [if_pos h0] at hn; subst hn
    simp only [Bool.false_eq_true, if_false]
    linarith [Int.floor_le (fval false c e)]
  · have h0 : fval true c e ≤ 0 := by rw [fval_signed]; simp only [if_true]; linarith
    simp only [if_true]
    by_cases h1 : 0 ≤ fval true c e
    · rw [if_pos h1] at hn; subst hn
      have : fval true c e = 0 := le_antisymm h0 h1
      rw [this]; simp
    · rw [if_neg h1] at hn; subst hn
      linarith [Int.le_ceil (fval true c e)]

/-- giving a datum the sign `s` does not change its value when that value already has sign `s` or is
zero -/
theorem fval_setSign (s sf : Bool) (cf : Nat) (ef : Int)
    (h : if s then fval sf cf ef ≤ 0 else 0 ≤ fval sf cf ef) : fval s cf ef = fval sf cf ef := by
  have hp : (0 : ℚ) < (10 : ℚ) ^ ef := zpow_pos (by norm_num) ef
  have hc : (0 : ℚ) ≤ cf := Nat.cast_nonneg cf
  cases s <;> cases sf <;> simp only [fval_signed, if_true, if_false, Bool.false_eq_true] at h ⊢
  · have : (cf : ℚ) * (10 : ℚ) ^ ef = 0 := le_antisymm (by linarith) (mul_nonneg hc hp.le)
    rw [this]; simp
  · have : (cf : ℚ) * (10 : ℚ) ^ ef = 0 := le_antisymm (by linarith) (mul_nonneg hc hp.le)
    rw [this]; simp

/-- operands with non-negative exponent are integers: modf returns x itself and a zero of x's sign
(unconditional) -/
theorem modf_of_nonneg_exp (s : Bool) (c : Nat) (e : Int) (h : 0 ≤ e) :
    modfD (.fin s c e) = (.fin s c e, .fin s 0 (clampInt eMin eMax e)) := by
  rw [C08.modf_spec, C08.integral_unchanged .rtz s c e h]
  have hS : sInt s (c * 10 ^ (e - e).toNat) + sInt (!s) (c * 10 ^ (e - e).toNat) = 0 := by
    unfold sInt; cases s <;> simp
  simp only [subD, Datum.negate, Datum.neg, Datum.setSign, addD, addFin, le_refl, if_true, hS, zeroAt]

/-- **modf, fractional part** — conditional on exactness of the model's subtraction in this special
case.  Hypothesis `hsub`: the model's `subD .rne x (trunc x)` returns a finite datum whose value is the
exact difference (this is an instance of the `finish` exactness theorem: the difference is
`±(c mod 10^(-e))·10^e`, a member of the format whenever x is).  Conclusion: the fractional part
returned by modf is that datum with the sign of x, and its value is exactly `x − integral part`. -/
theorem modf_fraction (s : Bool) (c : Nat) (e : Int) (sf : Bool) (cf : Nat) (ef : Int)
    (hfin : (subD .rne (.fin s c e) (truncD s c e)).1 = .fin sf cf ef)
    (hsub : fval sf cf ef =
      fval s c e - ((if 0 ≤ fval s c e then ⌊fval s c e⌋ else ⌈fval s c e⌉ : Int) : ℚ)) :
    ∃ m, modfD (.fin s c e) = (.fin s m (resExp e), .fin s cf ef) ∧
      fval s cf ef = fval s c e - fval s m (resExp e) := by
  obtain ⟨m, h1, h2⟩ := toIntegral_rtz_trunc s c e
  refine ⟨m, ?_, ?_⟩
  · rw [C08.modf_spec]
    unfold truncD at hfin
    rw [hfin, h1]; rfl
  · rw [h2, ← hsub]
    apply fval_setSign
    rw [hsub]
    exact sub_trunc_sign s c e _ rfl

/-! #### modf, unconditional (uses `finish_representable` from `DecProofs.Core.Finish`) -/

theorem sub_trunc_int (s : Bool) (c D : Nat) :
    sInt s (c * 10 ^ 0) + sInt (!s) (c / D * D) = sInt s (c % D) := by
  have h := Nat.div_add_mod c D
  rw [Nat.mul_comm] at h
  generalize c / D * D = a at h ⊢
  generalize c % D = r at h ⊢
  unfold sInt; cases s <;> simp <;> omega

theorem sInt_ne_zero (s : Bool) (r : Nat) (hr : r ≠ 0) : sInt s r ≠ 0 := by
  unfold sInt; cases s <;> simp [hr]

theorem sInt_neg_iff (s : Bool) (r : Nat) (hr : r ≠ 0) : decide (sInt s r < 0) = s := by
  unfold sInt; cases s
  · simp
  · simp; omega

theorem sInt_natAbs' (s : Bool) (r : Nat) : (sInt s r).natAbs = r := by
  unfold sInt; cases s <;> simp

/-- modf of a member of the format with negative exponent, computed: integral part `⌊c / 10^(-e)⌋`
with exponent 0, fractional part `(c mod 10^(-e))·10^e` (a zero fraction gets the clamped exponent),
both with the sign of x -/
theorem modf_of_neg_exp (s : Bool) (c : Nat) (e : Int) (h : e < 0) (hc : c < P34) (he : eMin ≤ e) :
    modfD (.fin s c e) =
      (.fin s (c / 10 ^ (-e).toNat) 0,
       .fin s (c % 10 ^ (-e).toNat) (if c % 10 ^ (-e).toNat = 0 then clampInt eMin eMax e else e)) := by
  rw [C08.modf_spec, C08.integral_rounded .rtz s c e h]
  have hq : roundInt .rtz s (c / 10 ^ (-e).toNat) (c % 10 ^ (-e).toNat) (10 ^ (-e).toNat) = c / 10 ^ (-e).toNat := by
    simp [roundInt, roundUp]
  rw [hq]
  have hm : (if e ≤ 0 then e else 0) = e := by simp [h.le]
  have e1 : (e - e).toNat = 0 := by omega
  have e2 : ((0 : Int) - e).toNat = (-e).toNat := by omega
  simp only [subD, Datum.negate, Datum.neg, Datum.setSign, addD, addFin, hm, e1, e2, sub_trunc_int]
  by_cases hr : c % 10 ^ (-e).toNat = 0
  · simp [hr, sInt, zeroAt]
  · have hS := sInt_ne_zero s _ hr
    have hneg := sInt_neg_iff s _ hr
    have habs := sInt_natAbs' s (c % 10 ^ (-e).toNat)
    have hlt : c % 10 ^ (-e).toNat < P34 := Nat.lt_of_le_of_lt (Nat.mod_le _ _) hc
    have hmax : e ≤ eMax := by unfold eMax; omega
    simp only [hS, if_false, hneg, habs, hr]
    rw [finish_representable .rne s _ e hr hlt he hmax]

/-- **modf (C08).**  For every finite member x of the format, modf returns two finite members of the
format, both with the sign of x: the integral part has the value of x truncated toward zero, and the
fractional part has exactly the value `x − integral part` (no rounding, no flag is involved). -/
theorem modf_spec_Q (s : Bool) (c : Nat) (e : Int) (hrep : Representable c e) :
    ∃ mi cf ef, modfD (.fin s c e) = (.fin s mi (resExp e), .fin s cf ef) ∧
      Representable cf ef ∧
      fval s mi (resExp e) = ((if 0 ≤ fval s c e then ⌊fval s c e⌋ else ⌈fval s c e⌉ : Int) : ℚ) ∧
      fval s cf ef = fval s c e - fval s mi (resExp e) := by
  obtain ⟨hc, he1, he2⟩ := hrep
  obtain ⟨mi, hi1, hi2⟩ := modf_integral s c e
  have hclamp := clampInt_spec e (show eMin ≤ eMax by decide)
  by_cases h : 0 ≤ e
  · have hz := modf_of_nonneg_exp s c e h
    have hre : resExp e = e := by simp [resExp, h]
    refine ⟨c, 0, clampInt eMin eMax e, by rw [hre, hz], ⟨by decide, hclamp.1, hclamp.2.1⟩, ?_, ?_⟩
    · rw [hz, hre] at hi1
      simp only [Datum.fin.injEq, true_and, and_true] at hi1
      rw [← hi2, ← hi1]
    · rw [hre]; simp [fval]
  · have h' : e < 0 := by omega
    have hre : resExp e = 0 := by simp [resExp, h']
    have hm := modf_of_neg_exp s c e h' hc he1
    have hD : 0 < 10 ^ (-e).toNat := pow10_pos _
    have hmi : mi = c / 10 ^ (-e).toNat := by
      rw [hm, hre] at hi1
      simp only [Datum.fin.injEq, true_and, and_true] at hi1
      exact hi1.symm
    refine ⟨c / 10 ^ (-e).toNat, c % 10 ^ (-e).toNat, _, by rw [hm, hre], ?_, by rw [← hmi]; exact hi2, ?_⟩
    · refine ⟨Nat.lt_of_le_of_lt (Nat.mod_le _ _) hc, ?_, ?_⟩
      · split
        · exact hclamp.1
        · exact he1
      · split
        · exact hclamp.2.1
        · exact he2
    · -- value: (c mod D)·10^e = c·10^e − ⌊c/D⌋
      have hval : ∀ ef : Int, (c % 10 ^ (-e).toNat = 0 → fval s (c % 10 ^ (-e).toNat) ef = 0) := by
        intro ef h0; rw [h0]; simp [fval]
      have hmain : fval s (c % 10 ^ (-e).toNat) e = fval s c e - fval s (c / 10 ^ (-e).toNat) (resExp e) := by
        rw [hre]
        have hdm := cast_div_add_mod_div c (10 ^ (-e).toNat) hD
        have hd : ((10 ^ (-e).toNat : Nat) : ℚ) ≠ 0 := by exact_mod_cast hD.ne'
        unfold fval
        rw [zpow10_neg e (by omega), zpow_zero]
        have : (c : ℚ) = ((c / 10 ^ (-e).toNat : Nat) : ℚ) * ((10 ^ (-e).toNat : Nat) : ℚ) + ((c % 10 ^ (-e).toNat : Nat) : ℚ) := by
          have := Nat.div_add_mod c (10 ^ (-e).toNat)
          rw [Nat.mul_comm] at this
          exact_mod_cast this.symm
        rw [this]
        generalize ((c / 10 ^ (-e).toNat : Nat) : ℚ) = q
        generalize ((c % 10 ^ (-e).toNat : Nat) : ℚ) = r
        field_simp
        ring
      by_cases h0 : c % 10 ^ (-e).toNat = 0
      · rw [if_pos h0, hval _ h0, ← hmain, hval _ h0]
      · rw [if_neg h0]; exact hmain

example : Representable 1234 (-2) ∧ modfD (.fin true 1234 (-2)) = (.fin true 12 0, .fin true 34 (-2)) :=
  ⟨⟨by decide, by decide, by decide⟩, by decide +kernel⟩

end Dec.C08Q
