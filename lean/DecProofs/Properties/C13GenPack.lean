/-
  C13 (generated-code level) — the bridge from `DecGen/Code.lean` (the machine translation of /repo/src/bid*.rs,
  regenerated from the Rust source at every verification run) to the code-shaped model `DecModel/PackHelpers.lean`
  and, through it, to the theorems of `C13PackHelpers.lean`.

  For each routine a **bridge**: `Dec.Gen.Code.<routine> … = .ok …` with components that, through `.toNat` / `.toInt`
  (`pr x = (x.w0.toNat, x.w1.toNat)`, `md : RoundingMode → Mode`), are the model's output on the `.toNat` / `.toInt` of the
  arguments — on every input where the model returns `some` (everywhere, except where the Rust code indexes a table out
  of range: `handle_UF_128` with `1 ≤ expon < 2^31 − 34`, `bid_handle_UF_128_rem` with `2 ≤ expon < 2^31 − 34`):
    `unpack_value_bridge`, `unpack_bridge`, `get_very_fast_bridge`, `get_fast_bridge`, `handle_uf_bridge`,
    `handle_uf_rem_bridge`, `get_bridge`
  (and for the primitives they call: `mul64_bridge`, `mul_128x128_full_bridge`, `add_carry_out_bridge`,
  `add_carry_in_out_bridge`, `add_128_128_bridge`, `add_128_64_bridge`, `shr_128_bridge`, `shr_128_long_bridge`,
  `shl_128_long_bridge`, `ge_bridge`, `gt_bridge`; the tables: `roundConst_bridge`, `recip_bridge`, `recipScale_bridge`).

  Then the headline theorems, directly about the translated routines:
    `unpack_value_spec`, `unpack_spec` (all 2^128 patterns against `Dec.decode`; never a panic),
    `get_very_fast_spec`, `get_fast_spec`, `handle_uf_decode`, `handle_uf_rem_spec`, `handle_uf_rem_eq_finish`,
    `get_eq_finish` (= `Dec.finish`).

  How the underflow routines are handled: every call the code makes is resolved to `.ok v` with `pr v = model value`
  (`tail_data`, from the fact that the model returns `some`); `simp` then turns the `do` block into a pure nested `if`,
  split component-wise (`ok_ite`, `ite_prod`, `ite_u128`, `ite_self`) into the three expressions of `tail_coeff` /
  `tail_flags`, which are compared with the model block by block.  `bid_get_BID128`'s `for _ in [0:4096]` fuel loop is
  `whileIter` (`forIn_range_except`), equal to the model's `getLoop` for every fuel (`loop_model`); 34 turns suffice and
  the "loop fuel exhausted" exit is never taken (`getLoop_stable`).
-/
import DecGen.Code
import DecProofs.Properties.C13PackHelpers

namespace Dec.C13GenPack
open Dec.Rs Dec.Gen.Code Dec.C13PackHelpers

set_option linter.unusedVariables false
set_option linter.unusedSimpArgs false
set_option linter.unnecessarySeqFocus false

/-! ## 0. Words, tables, casts -/

/-- the model's view of a `U128`: `(w[0], w[1])` as naturals -/
abbrev pr (x : U128) : Dec.PackH.U128 := (x.w0.toNat, x.w1.toNat)

/-- reading a `BID_UINT128` table at a constant or computed index that is in range -/
theorem tbl128_eq (t : List Nat) (i : UInt64) (h : 2 * i.toNat + 1 < t.length) :
    tbl128 t i = .ok ⟨UInt64.ofNat (t.getD (2 * i.toNat) 0), UInt64.ofNat (t.getD (2 * i.toNat + 1) 0)⟩ := by
  unfold tbl128
  have h0 : 2 * i.toNat < t.length := by omega
  rw [List.getElem?_eq_getElem h0, List.getElem?_eq_getElem h]
  simp only [List.getD_eq_getElem?_getD, List.getElem?_eq_getElem h0, List.getElem?_eq_getElem h, Option.getD_some]

/-- `__unsigned_compare_ge_128`, translated = model -/
theorem ge_bridge (A B : U128) : unsigned_compare_ge_128 A B = .ok (Dec.PackH.ge_128 (pr A) (pr B)) := by
  unfold unsigned_compare_ge_128 Dec.PackH.ge_128 pr
  simp only [pure, Except.pure, gt_iff_lt, ge_iff_le, UInt64.lt_iff_toNat_lt, UInt64.le_iff_toNat_le]
  congr 2
  rw [Bool.eq_iff_iff]; simp [← UInt64.toNat_inj]

theorem t33 : tbl128 Gen.BID_POWER10_TABLE_128 (UInt64.ofInt (toI 33)) = .ok ⟨UInt64.ofNat (Dec.PackH.power10 33).1, UInt64.ofNat (Dec.PackH.power10 33).2⟩ := by
  rfl

theorem t34 : tbl128 Gen.BID_POWER10_TABLE_128 (UInt64.ofInt (toI 34)) = .ok ⟨UInt64.ofNat (Dec.PackH.power10 34).1, UInt64.ofNat (Dec.PackH.power10 34).2⟩ := by
  rfl
theorem pr_t33 : pr ⟨UInt64.ofNat (Dec.PackH.power10 33).1, UInt64.ofNat (Dec.PackH.power10 33).2⟩ = Dec.PackH.power10 33 := by
  decide +kernel
theorem pr_t34 : pr ⟨UInt64.ofNat (Dec.PackH.power10 34).1, UInt64.ofNat (Dec.PackH.power10 34).2⟩ = Dec.PackH.power10 34 := by
  decide +kernel

theorem expon_field (ex : UInt64) :
    (Int32.ofInt (toI ex) &&& c_EXPONENT_MASK128).toInt = ((ex.toNat % 0x100000000 &&& 0x3fff : Nat) : Int) := by
  have e : c_EXPONENT_MASK128 = Int32.ofBitVec 0x3fff#32 := by decide
  have h1 : (Int32.ofInt (toI ex) &&& c_EXPONENT_MASK128).toBitVec.toNat = ex.toNat % 0x100000000 &&& 0x3fff := by
    rw [e, Int32.toBitVec_and, BitVec.toNat_and]
    simp only [toI, Int32.toBitVec_ofInt, BitVec.toNat_ofInt]
    have a1 : ((ex.toNat : Int) % ((2 ^ 32 : Nat) : Int)).toNat = ex.toNat % 4294967296 := by omega
    have a2 : (Int32.ofBitVec 16383#32).toBitVec.toNat = 16383 := by decide
    rw [a1, a2]
  have h2 : ex.toNat % 0x100000000 &&& 0x3fff ≤ 0x3fff := Nat.and_le_right
  unfold Int32.toInt
  rw [BitVec.toInt_eq_toNat_cond, h1]
  split <;> omega

/-! ## 1. `unpack_BID128_value`, `unpack_BID128` -/

theorem unpack_value_bridge (s : UInt64) (e : Int32) (c x : U128) :
    ∃ r sg ex co, Dec.Gen.Code.unpack_BID128_value s e c x = .ok (r, sg, ex, co) ∧
      r.toNat = (PackH.unpack_BID128_value (pr x)).ret ∧ sg.toNat = (PackH.unpack_BID128_value (pr x)).sign ∧
      ex.toInt = (PackH.unpack_BID128_value (pr x)).expon ∧ pr co = (PackH.unpack_BID128_value (pr x)).coeff := by
  unfold Dec.Gen.Code.unpack_BID128_value Dec.PackH.unpack_BID128_value
  simp only [bind, Except.bind, pure, Except.pure, t33, t34, ge_bridge, pr_t33, pr_t34]
  simp only [c_INFINITY_MASK64, c_SPECIAL_ENCODING_MASK64, c_NAN_MASK64, c_SINFINITY_MASK64, c_SMALL_COEFF_MASK128,
    ge_iff_le, UInt64.le_iff_toNat_le, UInt64.lt_iff_toNat_lt, UInt64.toNat_and, UInt64.toNat_ofNat, decide_eq_true_eq,
    beq_iff_eq, ← UInt64.toNat_inj, pr, Nat.reducePow, Nat.reduceMod]
  have S : ∀ (a b : UInt64) (e' : Int32) (co : U128) (u : PackH.Unpacked),
      a.toNat = u.ret → b.toNat = u.sign → e'.toInt = u.expon → (co.w0.toNat, co.w1.toNat) = u.coeff →
      ∃ r sg ex co', (Except.ok (a, b, e', co) : Except String _) = .ok (r, sg, ex, co') ∧ r.toNat = u.ret ∧
        sg.toNat = u.sign ∧ ex.toInt = u.expon ∧ (co'.w0.toNat, co'.w1.toNat) = u.coeff :=
    fun a b e' co u h1 h2 h3 h4 => ⟨a, b, e', co, rfl, h1, h2, h3, h4⟩
  have T : ∀ k : UInt64, (Int32.ofInt (toI k) &&& c_EXPONENT_MASK128).toInt = ((k.toNat % 4294967296 &&& 16383 : Nat) : Int) :=
    expon_field
  by_cases h1 : 6917529027641081856 ≤ x.w1.toNat &&& 8646911284551352320
  · by_cases h2 : x.w1.toNat &&& 8646911284551352320 < 8646911284551352320
    · simp only [h1, h2, if_true]
      refine ⟨_, _, _, _, rfl, ?_, ?_, ?_, ?_⟩ <;> simp [T, PackH.shr64]
    · by_cases h3 : PackH.ge_128 (x.w0.toNat, x.w1.toNat &&& 70368744177663) (PackH.power10 33) = true <;>
      by_cases h4 : x.w1.toNat &&& 8935141660703064064 = 8646911284551352320 <;>
      · simp only [h1, h2, h3, h4, if_true, if_false]
        refine ⟨_, _, _, _, rfl, ?_, ?_, ?_, ?_⟩ <;> simp
  · by_cases h5 : PackH.ge_128 (x.w0.toNat, x.w1.toNat &&& 562949953421311) (PackH.power10 34) = true
    · simp only [h1, h5, if_true, if_false]
      refine ⟨_, _, _, _, rfl, ?_, ?_, ?_, ?_⟩ <;> simp [T, PackH.shr64]
    · simp only [h1, h5, if_true, if_false]
      refine ⟨_, _, _, _, rfl, ?_, ?_, ?_, ?_⟩ <;> simp [T, PackH.shr64]


/-- **bridge**: the translated `unpack_BID128` is the model `PackH.unpack_BID128` -/
theorem unpack_bridge (s : UInt64) (e : Int32) (c x : U128) :
    ∃ r sg ex co, Dec.Gen.Code.unpack_BID128 s e c x = .ok (r, sg, ex, co) ∧
      r.toNat = (PackH.unpack_BID128 (pr x)).ret ∧ sg.toNat = (PackH.unpack_BID128 (pr x)).sign ∧
      ex.toInt = (PackH.unpack_BID128 (pr x)).expon ∧ pr co = (PackH.unpack_BID128 (pr x)).coeff := by
  unfold Dec.Gen.Code.unpack_BID128 Dec.PackH.unpack_BID128
  have hm : ~~~c_LARGE_COEFF_MASK128 = 0xffff800000000000 := by decide
  simp only [bind, Except.bind, pure, Except.pure, t33, t34, ge_bridge, pr_t33, pr_t34, hm]
  simp only [c_INFINITY_MASK64, c_SPECIAL_ENCODING_MASK64, c_NAN_MASK64, c_SINFINITY_MASK64, c_SMALL_COEFF_MASK128,
    c_LARGE_COEFF_MASK128,
    ge_iff_le, UInt64.le_iff_toNat_le, UInt64.lt_iff_toNat_lt, UInt64.toNat_and, UInt64.toNat_ofNat, decide_eq_true_eq,
    beq_iff_eq, ← UInt64.toNat_inj, pr, Nat.reducePow, Nat.reduceMod]
  have T : ∀ k : UInt64, (Int32.ofInt (toI k) &&& c_EXPONENT_MASK128).toInt = ((k.toNat % 4294967296 &&& 16383 : Nat) : Int) :=
    expon_field
  by_cases h1 : 6917529027641081856 ≤ x.w1.toNat &&& 8646911284551352320
  · by_cases h2 : x.w1.toNat &&& 8646911284551352320 < 8646911284551352320
    · simp only [h1, h2, if_true]
      refine ⟨_, _, _, _, rfl, ?_, ?_, ?_, ?_⟩ <;> simp [T, PackH.shr64]
    · by_cases h3 : PackH.ge_128 (x.w0.toNat, x.w1.toNat &&& 140737488355327) (PackH.power10 33) = true <;>
      · simp only [h1, h2, h3, if_true, if_false]
        refine ⟨_, _, _, _, rfl, ?_, ?_, ?_, ?_⟩ <;> simp
  · by_cases h5 : PackH.ge_128 (x.w0.toNat, x.w1.toNat &&& 562949953421311) (PackH.power10 34) = true
    · simp only [h1, h5, if_true, if_false]
      refine ⟨_, _, _, _, rfl, ?_, ?_, ?_, ?_⟩ <;> simp [T, PackH.shr64]
    · simp only [h1, h5, if_true, if_false]
      refine ⟨_, _, _, _, rfl, ?_, ?_, ?_, ?_⟩ <;> simp [T, PackH.shr64]

/-- the 128-bit pattern held by a `U128` -/
abbrev bitsOf (x : U128) : Nat := x.w1.toNat * 2 ^ 64 + x.w0.toNat

theorem u64_eq_zero (r : UInt64) : r = 0 ↔ r.toNat = 0 := by rw [← UInt64.toNat_inj]; rfl
theorem i32_eq_zero (ex : Int32) : ex = 0 ↔ ex.toInt = 0 := by rw [← Int32.toInt_inj]; rfl

/-- **`unpack_BID128_value` (translated source), all 2^128 patterns**: never panics; the sign word is the sign of
`decode`; for a finite datum `(−1)^s·c·10^e` the exponent is `e + 6176`, the coefficient words are `c` (0 for a
non-canonical coefficient) and the return value is non-zero exactly when `c ≠ 0`; for an infinity or NaN the return
value and the exponent are 0 and the coefficient words are the canonical encoding `encode (decode b)`.  The three
incoming out-parameter values are irrelevant. -/
theorem unpack_value_spec (s : UInt64) (e : Int32) (c x : U128) :
    ∃ r sg ex co, Dec.Gen.Code.unpack_BID128_value s e c x = .ok (r, sg, ex, co) ∧
      sg.toNat = signWord (decode (bitsOf x)).neg ∧
      (match decode (bitsOf x) with
       | .fin _ cf ef => ex.toInt = ef + 6176 ∧ pr co = w128 cf ∧ (r ≠ 0 ↔ cf ≠ 0)
       | d => ex = 0 ∧ r = 0 ∧ pr co = w128 (encode d)) := by
  obtain ⟨r, sg, ex, co, h, h1, h2, h3, h4⟩ := unpack_value_bridge s e c x
  obtain ⟨a, b⟩ := C13PackHelpers.unpack_value_spec x.w0.toNat x.w1.toNat x.w0.toNat_lt x.w1.toNat_lt
  refine ⟨r, sg, ex, co, h, ?_, ?_⟩
  · rw [h2]; exact a
  · show match decode (x.w1.toNat * 2 ^ 64 + x.w0.toNat) with | .fin _ cf ef => _ | d => _
    generalize decode (x.w1.toNat * 2 ^ 64 + x.w0.toNat) = d at b ⊢
    cases d <;> simp only [ne_eq, u64_eq_zero, i32_eq_zero] at b ⊢ <;> rw [h1, h3, h4] <;> exact b

/-- **`unpack_BID128` (translated source), all 2^128 patterns**: as `unpack_BID128_value` on finite patterns; on an
infinity / NaN pattern the coefficient words are the input itself when its low 111 bits are below 10^33, else the
input with its low 111 bits cleared. -/
theorem unpack_spec (s : UInt64) (e : Int32) (c x : U128) :
    ∃ r sg ex co, Dec.Gen.Code.unpack_BID128 s e c x = .ok (r, sg, ex, co) ∧
      sg.toNat = signWord (decode (bitsOf x)).neg ∧
      (match decode (bitsOf x) with
       | .fin _ cf ef => ex.toInt = ef + 6176 ∧ pr co = w128 cf ∧ (r ≠ 0 ↔ cf ≠ 0)
       | _ => ex = 0 ∧ r = 0 ∧
           pr co = if bitsOf x % 2 ^ 111 < 10 ^ 33 then pr x else (0, x.w1.toNat - x.w1.toNat % 2 ^ 47)) := by
  obtain ⟨r, sg, ex, co, h, h1, h2, h3, h4⟩ := unpack_bridge s e c x
  obtain ⟨a, b⟩ := C13PackHelpers.unpack_spec x.w0.toNat x.w1.toNat x.w0.toNat_lt x.w1.toNat_lt
  refine ⟨r, sg, ex, co, h, ?_, ?_⟩
  · rw [h2]; exact a
  · show match decode (x.w1.toNat * 2 ^ 64 + x.w0.toNat) with | .fin _ cf ef => _ | _ => _
    generalize decode (x.w1.toNat * 2 ^ 64 + x.w0.toNat) = d at b ⊢
    cases d <;> simp only [ne_eq, u64_eq_zero, i32_eq_zero] at b ⊢ <;> rw [h1, h3, h4] <;> exact b

example : Dec.Gen.Code.unpack_BID128_value 7 9 default ⟨1, 0xb040000000000000⟩ = .ok (1, 0x8000000000000000, 6176, ⟨1, 0⟩) := by rfl
example : Dec.Gen.Code.unpack_BID128_value 0 0 default ⟨5, 0x7e00400000000000⟩ = .ok (0, 0, 0, ⟨5, 0x7e00000000000000⟩) := by rfl
example : Dec.Gen.Code.unpack_BID128 0 0 default ⟨5, 0x7e00400000000000⟩ = .ok (0, 0, 0, ⟨0, 0x7e00000000000000⟩) := by rfl
example : Dec.Gen.Code.unpack_BID128 0 0 default ⟨1, 0xf800000000000001⟩ = .ok (0, 0x8000000000000000, 0, ⟨1, 0xf800000000000001⟩) := by rfl
example : Dec.Gen.Code.unpack_BID128_value 0 0 default ⟨12345, 0x6c00000000012345⟩ = .ok (0, 0, 6144, ⟨0, 0⟩) := by rfl


/-- `x as u64` for an `i32` (sign extension) is the model's `wordOfI32` -/
theorem toNat_ofInt (x : Int) : (UInt64.ofInt x).toNat = PackH.wordOfI32 x := by
  unfold UInt64.ofInt PackH.wordOfI32
  rw [UInt64.toNat_ofNat']
  omega

/-- `i32` wrap-around (`Int.bmod 2^32`) is the model's `wrapI32` -/
theorem bmod_eq_wrap (x : Int) : x.bmod (2 ^ 32) = PackH.wrapI32 x := by
  unfold PackH.wrapI32 Int.bmod
  simp only [Nat.reducePow, Nat.cast_ofNat]
  split <;> omega

theorem i32_add (a b : Int32) : (a + b).toInt = PackH.wrapI32 (a.toInt + b.toInt) := by
  rw [Int32.toInt_add, bmod_eq_wrap]
theorem i32_sub (a b : Int32) : (a - b).toInt = PackH.wrapI32 (a.toInt - b.toInt) := by
  rw [Int32.toInt_sub, bmod_eq_wrap]

theorem shl49 (t : UInt64) : (t <<< (0x31 : UInt64)).toNat = PackH.shl64 t.toNat 49 := by
  rw [UInt64.toNat_shiftLeft]; rfl

/-! ## 2. `bid_get_BID128_very_fast`, `bid_get_BID128_fast` -/

theorem get_very_fast_bridge (sgn : UInt64) (e : Int32) (coeff : U128) :
    ∃ r, Dec.Gen.Code.bid_get_BID128_very_fast sgn e coeff = .ok r ∧
      pr r = PackH.get_BID128_very_fast sgn.toNat e.toInt (pr coeff) := by
  unfold Dec.Gen.Code.bid_get_BID128_very_fast PackH.get_BID128_very_fast
  simp only [bind, Except.bind, pure, Except.pure]
  refine ⟨_, rfl, ?_⟩
  simp only [pr, UInt64.toNat_or, shl49, toNat_ofInt, toI]

/-- **bridge**: the translated `bid_get_BID128_fast` (result, updated exponent, updated coefficient) is the model's, on all inputs (the `expon + 1` wraps as the model says) -/
theorem get_fast_bridge (sgn : UInt64) (e : Int32) (coeff : U128) :
    ∃ r e' c', Dec.Gen.Code.bid_get_BID128_fast sgn e coeff = .ok (r, e', c') ∧
      (pr r, e'.toInt, pr c') = PackH.get_BID128_fast sgn.toNat e.toInt (pr coeff) := by
  unfold Dec.Gen.Code.bid_get_BID128_fast PackH.get_BID128_fast
  simp only [bind, Except.bind, pure, Except.pure]
  by_cases h : coeff.w1 = 0x1ed09bead87c0 ∧ coeff.w0 = 0x378d8e6400000000
  · have h' : coeff.w1.toNat = 0x0001ed09bead87c0 ∧ coeff.w0.toNat = 0x378d8e6400000000 := by
      rw [h.1, h.2]; exact ⟨rfl, rfl⟩
    simp only [h.1, h.2, beq_self_eq_true, Bool.and_self, if_true]
    refine ⟨_, _, _, rfl, ?_⟩
    simp only [pr, h', and_self, if_true, UInt64.toNat_or, shl49, toNat_ofInt, toI, i32_add]
    rfl
  · have h' : ¬ (coeff.w1.toNat = 0x0001ed09bead87c0 ∧ coeff.w0.toNat = 0x378d8e6400000000) := by
      intro hh; apply h
      constructor <;> rw [← UInt64.toNat_inj]
      · exact hh.1
      · exact hh.2
    have hb : (coeff.w1 == 0x1ed09bead87c0 && coeff.w0 == 0x378d8e6400000000) = false := by
      rw [Bool.eq_false_iff]; intro hh; apply h
      simpa using hh
    simp only [hb, Bool.false_eq_true, if_false]
    refine ⟨_, _, _, rfl, ?_⟩
    simp only [pr, h', if_false, UInt64.toNat_or, shl49, toNat_ofInt, toI]

theorem bitsOf_eq (x : U128) : bitsOf x = x.w0.toNat + 2 ^ 64 * x.w1.toNat := by unfold bitsOf; omega

/-- the sign words the callers pass, as naturals -/
theorem sgn_cases (sgn : UInt64) (hs : sgn = 0 ∨ sgn = 0x8000000000000000) :
    (sgn.toNat = 0 ∨ sgn.toNat = 2 ^ 63) ∧ decide (sgn.toNat ≠ 0) = decide (sgn ≠ 0) := by
  rcases hs with rfl | rfl
  · exact ⟨Or.inl rfl, by decide⟩
  · exact ⟨Or.inr rfl, by decide⟩

/-- **`bid_get_BID128_very_fast` (translated source)**: sign word 0 / 2^63, biased exponent `0 … 12287`, coefficient below
10^34: never panics and returns the canonical encoding of `(sign, coeff, expon − 6176)`. -/
theorem get_very_fast_spec (sgn : UInt64) (e : Int32) (coeff : U128) (hs : sgn = 0 ∨ sgn = 0x8000000000000000)
    (he0 : 0 ≤ e.toInt) (he1 : e.toInt ≤ 12287) (hC : bitsOf coeff < 10 ^ 34) :
    ∃ r, Dec.Gen.Code.bid_get_BID128_very_fast sgn e coeff = .ok r ∧
      bitsOf r = encode (.fin (decide (sgn ≠ 0)) (bitsOf coeff) (e.toInt - 6176)) ∧
      decode (bitsOf r) = .fin (decide (sgn ≠ 0)) (bitsOf coeff) (e.toInt - 6176) := by
  obtain ⟨r, h, hr⟩ := get_very_fast_bridge sgn e coeff
  obtain ⟨hs', hd⟩ := sgn_cases sgn hs
  rw [bitsOf_eq coeff] at hC ⊢
  have := C13PackHelpers.get_very_fast_spec sgn.toNat e.toInt coeff.w0.toNat coeff.w1.toNat hs' he0 he1
    coeff.w0.toNat_lt hC
  rw [← hr, hd] at this
  exact ⟨r, h, this⟩

/-- **`bid_get_BID128_fast` (translated source)**: coefficient ≤ 10^34; with `(C', e') = norm34` (10^34 becomes 10^33 one
exponent up) and `0 ≤ e' ≤ 12287`: returns the canonical encoding of `(sign, C', e' − 6176)` together with `e'` and
the words of `C'`. -/
theorem get_fast_spec (sgn : UInt64) (e : Int32) (coeff : U128) (hs : sgn = 0 ∨ sgn = 0x8000000000000000)
    (hC : bitsOf coeff ≤ 10 ^ 34)
    (he0 : 0 ≤ (norm34 (bitsOf coeff) e.toInt).2) (he1 : (norm34 (bitsOf coeff) e.toInt).2 ≤ 12287) :
    ∃ r e' c', Dec.Gen.Code.bid_get_BID128_fast sgn e coeff = .ok (r, e', c') ∧
      e'.toInt = (norm34 (bitsOf coeff) e.toInt).2 ∧ pr c' = w128 (norm34 (bitsOf coeff) e.toInt).1 ∧
      bitsOf r = encode (.fin (decide (sgn ≠ 0)) (norm34 (bitsOf coeff) e.toInt).1 ((norm34 (bitsOf coeff) e.toInt).2 - 6176)) ∧
      decode (bitsOf r) = .fin (decide (sgn ≠ 0)) (norm34 (bitsOf coeff) e.toInt).1 ((norm34 (bitsOf coeff) e.toInt).2 - 6176) := by
  obtain ⟨r, e', c', h, hr⟩ := get_fast_bridge sgn e coeff
  obtain ⟨hs', hd⟩ := sgn_cases sgn hs
  rw [bitsOf_eq coeff] at hC he0 he1 ⊢
  have := C13PackHelpers.get_fast_spec sgn.toNat e.toInt coeff.w0.toNat coeff.w1.toNat hs' coeff.w0.toNat_lt
    coeff.w1.toNat_lt hC he0 he1
  simp only at this
  rw [← hr, hd] at this
  exact ⟨r, e', c', h, this⟩

example : Dec.Gen.Code.bid_get_BID128_fast 0 5 ⟨0x378d8e6400000000, 0x1ed09bead87c0⟩
    = .ok (⟨0x38c15b0a00000000, 0x000c314dc6448d93⟩, 6, ⟨0x38c15b0a00000000, 0x0000314dc6448d93⟩) := by rfl
example : Dec.Gen.Code.bid_get_BID128_very_fast 0x8000000000000000 6176 ⟨1, 0⟩ = .ok ⟨1, 0xb040000000000000⟩ := by rfl

/-! ## 3. The multi-word primitives -/

theorem lo32_cast (x : UInt64) : (UInt64.ofInt (toI (UInt32.ofInt (toI x)))).toNat = PackH.lo32 x.toNat := by
  simp only [toI, toNat_ofInt, PackH.wordOfI32, PackH.lo32]
  have : (UInt32.ofInt (x.toNat : Int)).toNat = x.toNat % 4294967296 := by
    unfold UInt32.ofInt
    rw [UInt32.toNat_ofNat']
    omega
  rw [this]; omega

theorem shr32 (t : UInt64) : (t >>> (0x20 : UInt64)).toNat = PackH.shr64 t.toNat 32 := by
  rw [UInt64.toNat_shiftRight]; rfl
theorem shl32 (t : UInt64) : (t <<< (0x20 : UInt64)).toNat = PackH.shl64 t.toNat 32 := by
  rw [UInt64.toNat_shiftLeft]; rfl

theorem u64_add (a b : UInt64) : (a + b).toNat = PackH.add64 a.toNat b.toNat := UInt64.toNat_add a b
theorem u64_mul (a b : UInt64) : (a * b).toNat = PackH.mul64 a.toNat b.toNat := UInt64.toNat_mul a b
theorem u64_sub (a b : UInt64) : (a - b).toNat = PackH.sub64 a.toNat b.toNat := by
  rw [UInt64.toNat_sub]; simp only [PackH.sub64, PackH.W64]
  have := a.toNat_lt; have := b.toNat_lt; omega

/-- `__mul_64x64_to_128`, translated = model -/
theorem mul64_bridge (x y : UInt64) :
    ∃ r, Dec.Gen.Code.mul_64x64_to_128 x y = .ok r ∧ pr r = PackH.mul_64x64_to_128 x.toNat y.toNat := by
  unfold Dec.Gen.Code.mul_64x64_to_128 PackH.mul_64x64_to_128
  simp only [bind, Except.bind, pure, Except.pure]
  refine ⟨_, rfl, ?_⟩
  simp only [pr, u64_add, u64_mul, shr32, shl32, lo32_cast]

/-- `__add_carry_out`, translated = model -/
theorem add_carry_out_bridge (x y : UInt64) :
    ∃ s c, Dec.Gen.Code.add_carry_out x y = .ok (s, c) ∧ (s.toNat, c.toNat) = PackH.add_carry_out x.toNat y.toNat := by
  unfold Dec.Gen.Code.add_carry_out PackH.add_carry_out
  simp only [bind, Except.bind, pure, Except.pure]
  refine ⟨_, _, rfl, ?_⟩
  simp only [u64_add, decide_eq_true_eq, UInt64.lt_iff_toNat_lt, apply_ite UInt64.toNat]
  rfl

/-- `__add_carry_in_out`, translated = model -/
theorem add_carry_in_out_bridge (x y ci : UInt64) :
    ∃ s c, Dec.Gen.Code.add_carry_in_out x y ci = .ok (s, c) ∧
      (s.toNat, c.toNat) = PackH.add_carry_in_out x.toNat y.toNat ci.toNat := by
  unfold Dec.Gen.Code.add_carry_in_out PackH.add_carry_in_out
  simp only [bind, Except.bind, pure, Except.pure]
  refine ⟨_, _, rfl, ?_⟩
  simp only [u64_add, Bool.or_eq_true, decide_eq_true_eq, UInt64.lt_iff_toNat_lt, apply_ite UInt64.toNat]
  rfl

/-- `__add_128_128`, translated = model -/
theorem add_128_128_bridge (a b : U128) :
    ∃ r, Dec.Gen.Code.add_128_128 a b = .ok r ∧ pr r = PackH.add_128_128 (pr a) (pr b) := by
  unfold Dec.Gen.Code.add_128_128 PackH.add_128_128
  simp only [bind, Except.bind, pure, Except.pure]
  by_cases h : b.w0 + a.w0 < b.w0
  · have h' : PackH.add64 b.w0.toNat a.w0.toNat < b.w0.toNat := by rw [← u64_add]; exact UInt64.lt_iff_toNat_lt.1 h
    simp only [h, decide_true, if_true]
    refine ⟨_, rfl, ?_⟩
    simp only [pr, h', if_true, u64_add]; rfl
  · have h' : ¬ PackH.add64 b.w0.toNat a.w0.toNat < b.w0.toNat := by
      rw [← u64_add]; exact fun hh => h (UInt64.lt_iff_toNat_lt.2 hh)
    simp only [h, decide_false, Bool.false_eq_true, if_false]
    refine ⟨_, rfl, ?_⟩
    simp only [pr, h', if_false, u64_add]

/-- `__add_128_64`, translated = model -/
theorem add_128_64_bridge (a : U128) (b : UInt64) :
    ∃ r, Dec.Gen.Code.add_128_64 a b = .ok r ∧ pr r = PackH.add_128_64 (pr a) b.toNat := by
  unfold Dec.Gen.Code.add_128_64 PackH.add_128_64
  simp only [bind, Except.bind, pure, Except.pure]
  by_cases h : b + a.w0 < b
  · have h' : PackH.add64 b.toNat a.w0.toNat < b.toNat := by rw [← u64_add]; exact UInt64.lt_iff_toNat_lt.1 h
    simp only [h, decide_true, if_true]
    refine ⟨_, rfl, ?_⟩
    simp only [pr, h', if_true, u64_add]; rfl
  · have h' : ¬ PackH.add64 b.toNat a.w0.toNat < b.toNat := by
      rw [← u64_add]; exact fun hh => h (UInt64.lt_iff_toNat_lt.2 hh)
    simp only [h, decide_false, Bool.false_eq_true, if_false]
    refine ⟨_, rfl, ?_⟩
    simp only [pr, h', if_false, u64_add]

/-- `__mul_128x128_full`, translated = model (all inputs, including those where the middle sum drops a carry) -/
theorem mul_128x128_full_bridge (a b : U128) :
    ∃ qh ql, Dec.Gen.Code.mul_128x128_full a b = .ok (qh, ql) ∧
      (pr qh, pr ql) = PackH.mul_128x128_full (pr a) (pr b) := by
  unfold Dec.Gen.Code.mul_128x128_full PackH.mul_128x128_full
  obtain ⟨r1, h1, e1⟩ := mul64_bridge a.w0 b.w1
  obtain ⟨r2, h2, e2⟩ := mul64_bridge b.w0 a.w1
  obtain ⟨r3, h3, e3⟩ := mul64_bridge a.w0 b.w0
  obtain ⟨r4, h4, e4⟩ := mul64_bridge a.w1 b.w1
  obtain ⟨q, h5, e5⟩ := add_128_128_bridge r1 r2
  obtain ⟨q2, h6, e6⟩ := add_128_64_bridge q r3.w1
  obtain ⟨qh, h7, e7⟩ := add_128_64_bridge r4 q2.w1
  simp only [bind, Except.bind, pure, Except.pure, h1, h2, h3, h4, h5, h6, h7]
  refine ⟨_, _, rfl, ?_⟩
  simp only [pr] at *
  simp only [← e1, ← e2, ← e3, ← e4, ← e5, ← e6, ← e7]

/-- a shift amount `j as u64` with `0 ≤ j ≤ 63` -/
theorem shamt (j : Int32) (h0 : 0 ≤ j.toInt) (h1 : j.toInt ≤ 63) :
    (UInt64.ofInt (toI j)).toNat % 64 = j.toInt.toNat := by
  simp only [toI, toNat_ofInt, PackH.wordOfI32]; omega

theorem shr_var (x : UInt64) (j : Int32) (h0 : 0 ≤ j.toInt) (h1 : j.toInt ≤ 63) :
    (x >>> UInt64.ofInt (toI j)).toNat = PackH.shr64 x.toNat j.toInt.toNat := by
  rw [UInt64.toNat_shiftRight, shamt j h0 h1]
theorem shl_var (x : UInt64) (j : Int32) (h0 : 0 ≤ j.toInt) (h1 : j.toInt ≤ 63) :
    (x <<< UInt64.ofInt (toI j)).toNat = PackH.shl64 x.toNat j.toInt.toNat := by
  rw [UInt64.toNat_shiftLeft, shamt j h0 h1]

theorem i32_lit_sub (c : Int) (hc : -2147483648 ≤ c ∧ c < 2147483648) (k : Int32) (h : -2147483648 ≤ c - k.toInt ∧ c - k.toInt < 2147483648) :
    ((Int32.ofInt c) - k).toInt = c - k.toInt := by
  rw [i32_sub, Int32.toInt_ofInt_of_le (by omega) (by omega), wrapI32_id _ h.1 h.2]

theorem toInt_40 : (0x40 : Int32).toInt = 64 := by decide
theorem toInt_80 : (0x80 : Int32).toInt = 128 := by decide

theorem sub40 (k : Int32) (h : -2147483584 ≤ k.toInt) : (k - (0x40 : Int32)).toInt = k.toInt - 64 := by
  rw [i32_sub, toInt_40, wrapI32_id _ (by omega) (by have := k.toInt_lt; omega)]
theorem rsub40 (k : Int32) (h : -2147483583 ≤ k.toInt) : ((0x40 : Int32) - k).toInt = 64 - k.toInt := by
  rw [i32_sub, toInt_40, wrapI32_id _ (by have := k.toInt_lt; omega) (by omega)]
theorem rsub80 (k : Int32) (h : -2147483519 ≤ k.toInt) : ((0x80 : Int32) - k).toInt = 128 - k.toInt := by
  rw [i32_sub, toInt_80, wrapI32_id _ (by have := k.toInt_lt; omega) (by omega)]

/-- `__shr_128` for `1 ≤ k ≤ 63` (outside, Rust's shift would overflow; Lean's masks the amount), translated = model -/
theorem shr_128_bridge (a : U128) (k : Int32) (h1 : 1 ≤ k.toInt) (h2 : k.toInt ≤ 63) :
    ∃ r, Dec.Gen.Code.shr_128 a k = .ok r ∧ pr r = PackH.shr_128 (pr a) k.toInt.toNat := by
  unfold Dec.Gen.Code.shr_128 PackH.shr_128
  simp only [bind, Except.bind, pure, Except.pure]
  refine ⟨_, rfl, ?_⟩
  have e := rsub40 k (by omega)
  simp only [pr, UInt64.toNat_or, shr_var _ k (by omega) h2, shl_var _ _ (by omega : 0 ≤ ((0x40 : Int32) - k).toInt) (by omega), e]
  congr 3; omega

/-- `__shr_128_long` for `1 ≤ k ≤ 127`, translated = model -/
theorem shr_128_long_bridge (a : U128) (k : Int32) (h1 : 1 ≤ k.toInt) (h2 : k.toInt ≤ 127) :
    ∃ r, Dec.Gen.Code.shr_128_long a k = .ok r ∧ pr r = PackH.shr_128_long (pr a) k.toInt.toNat := by
  unfold Dec.Gen.Code.shr_128_long PackH.shr_128_long
  simp only [bind, Except.bind, pure, Except.pure]
  by_cases h : k < (0x40 : Int32)
  · have h' : k.toInt < 64 := by rw [Int32.lt_iff_toInt_lt, toInt_40] at h; exact h
    simp only [h, decide_true, if_true, if_pos (by omega : k.toInt.toNat < 64)]
    refine ⟨_, rfl, ?_⟩
    have e := rsub40 k (by omega)
    simp only [pr, UInt64.toNat_or, shr_var _ k (by omega) (by omega), shl_var _ _ (by omega : 0 ≤ ((0x40 : Int32) - k).toInt) (by omega), e]
    congr 3; omega
  · have h' : ¬ k.toInt < 64 := by rw [Int32.lt_iff_toInt_lt, toInt_40] at h; exact h
    simp only [h, decide_false, Bool.false_eq_true, if_false, if_neg (by omega : ¬ k.toInt.toNat < 64)]
    refine ⟨_, rfl, ?_⟩
    have e := sub40 k (by omega)
    simp only [pr, shr_var _ _ (by omega : 0 ≤ (k - (0x40 : Int32)).toInt) (by omega), e]
    congr 2; omega

/-- `__shl_128_long` for `1 ≤ k ≤ 127`, translated = model -/
theorem shl_128_long_bridge (a : U128) (k : Int32) (h1 : 1 ≤ k.toInt) (h2 : k.toInt ≤ 127) :
    ∃ r, Dec.Gen.Code.shl_128_long a k = .ok r ∧ pr r = PackH.shl_128_long (pr a) k.toInt.toNat := by
  unfold Dec.Gen.Code.shl_128_long PackH.shl_128_long
  simp only [bind, Except.bind, pure, Except.pure]
  by_cases h : k < (0x40 : Int32)
  · have h' : k.toInt < 64 := by rw [Int32.lt_iff_toInt_lt, toInt_40] at h; exact h
    simp only [h, decide_true, if_true, if_pos (by omega : k.toInt.toNat < 64)]
    refine ⟨_, rfl, ?_⟩
    have e := rsub40 k (by omega)
    simp only [pr, UInt64.toNat_or, shl_var _ k (by omega) (by omega), shr_var _ _ (by omega : 0 ≤ ((0x40 : Int32) - k).toInt) (by omega), e]
    congr 3; omega
  · have h' : ¬ k.toInt < 64 := by rw [Int32.lt_iff_toInt_lt, toInt_40] at h; exact h
    simp only [h, decide_false, Bool.false_eq_true, if_false, if_neg (by omega : ¬ k.toInt.toNat < 64)]
    refine ⟨_, rfl, ?_⟩
    have e := sub40 k (by omega)
    simp only [pr, shl_var _ _ (by omega : 0 ≤ (k - (0x40 : Int32)).toInt) (by omega), e]
    congr 2; omega

/-! ## 4. Rounding modes and the three tables of the underflow routines -/

/-- `d128::RoundingMode` ↦ the model's `Mode` -/
def md : RoundingMode → Mode
  | .NearestEven => .rne | .Downward => .rdn | .Upward => .rup | .TowardZero => .rtz | .NearestAway => .rna

theorem toNat_mode (r : RoundingMode) : (UInt64.ofInt (toI r)).toNat = (md r).toNat := by
  cases r <;> rfl

theorem u64_ne_zero (s : UInt64) : (s != 0) = decide (s.toNat ≠ 0) := by
  rw [Bool.eq_iff_iff]; simp [← UInt64.toNat_inj]
theorem u64_beq_zero (s : UInt64) : (s == 0) = decide (s.toNat = 0) := by
  rw [Bool.eq_iff_iff]; simp [← UInt64.toNat_inj]

/-- the sign-swap test `sgn != 0 && (rmode as u32 − 1) < 2` -/
theorem swap_cond (sgn : UInt64) (m : RoundingMode) :
    (sgn != 0 && decide (UInt32.ofInt (toI m) - 1 < 2)) = decide (sgn.toNat ≠ 0 ∧ (md m = .rdn ∨ md m = .rup)) := by
  have dm : decide (UInt32.ofInt (toI m) - 1 < 2) = decide (md m = .rdn ∨ md m = .rup) := by
    cases m <;> decide
  rw [u64_ne_zero, dm, Bool.eq_iff_iff]
  simp

/-- the swapped mode `RoundingMode::from(3 − rmode)` -/
def swapR : RoundingMode → RoundingMode
  | .Downward => .Upward | .Upward => .Downward | x => x

theorem swap_val (m : RoundingMode) (h : md m = .rdn ∨ md m = .rup) :
    RoundingMode.fromU32 (3 - UInt32.ofInt (toI m)) = .ok (swapR m) ∧
      md (swapR m) = (if md m = .rdn then .rup else .rdn) := by
  cases m <;> simp [md] at h <;> exact ⟨by rfl, by rfl⟩

theorem rc_words : Dec.Gen.BID_ROUND_CONST_TABLE_128.all (· < 2 ^ 64) = true ∧
    Dec.Gen.BID_ROUND_CONST_TABLE_128.length = 360 := by decide +kernel
theorem rec_words : Dec.Gen.BID_RECIPROCALS10_128.all (· < 2 ^ 64) = true ∧
    Dec.Gen.BID_RECIPROCALS10_128.length = 72 := by decide +kernel
theorem scale_len : Dec.Gen.BID_RECIP_SCALE.length = 36 := by decide +kernel

theorem getD_lt (t : List Nat) (h : t.all (· < 2 ^ 64) = true) (i : Nat) (hi : i < t.length) : t.getD i 0 < 2 ^ 64 := by
  rw [List.all_eq_true] at h
  have := h (t[i]) (List.getElem_mem hi)
  simp only [decide_eq_true_eq] at this
  rw [List.getD_eq_getElem?_getD, List.getElem?_eq_getElem hi, Option.getD_some]
  exact this

theorem getElem?_getD (t : List Nat) (i : Nat) (hi : i < t.length) : t[i]? = some (t.getD i 0) := by
  rw [List.getD_eq_getElem?_getD, List.getElem?_eq_getElem hi, Option.getD_some]

theorem ofInt_nonneg (k : Int32) (h : 0 ≤ k.toInt) : (UInt64.ofInt (toI k)).toNat = k.toInt.toNat := by
  have := k.toInt_lt
  simp only [toI, toNat_ofInt, PackH.wordOfI32]; omega

/-- `BID_ROUND_CONST_TABLE_128[rmode as usize][ed2 as usize]` -/
theorem roundConst_bridge (r : RoundingMode) (ed2 : Int32) (T : PackH.U128)
    (h : PackH.roundConst (md r) ed2.toInt = some T) :
    ∃ Tc, tbl128_2 Dec.Gen.BID_ROUND_CONST_TABLE_128 36 (UInt64.ofInt (toI r)) (UInt64.ofInt (toI ed2)) = .ok Tc ∧
      pr Tc = T := by
  unfold PackH.roundConst at h
  obtain ⟨s1, s2, _, _⟩ := table_shapes
  rw [s1, s2] at h
  split at h
  · rename_i hc
    obtain ⟨h0, h1, h2⟩ := hc
    injection h with h
    have hj := ofInt_nonneg ed2 h0
    have hi := toNat_mode r
    unfold tbl128_2
    rw [hj, hi, if_pos h1]
    have hidx : 2 * ((md r).toNat * 36 + ed2.toInt.toNat) + 1 < Dec.Gen.BID_ROUND_CONST_TABLE_128.length := by
      rw [rc_words.2]; omega
    rw [getElem?_getD _ _ (by omega), getElem?_getD _ _ hidx]
    refine ⟨_, rfl, ?_⟩
    rw [← h]
    simp only [pr, PackH.tbl128, UInt64.toNat_ofNat']
    have a := getD_lt _ rc_words.1 _ (by omega : 2 * ((md r).toNat * 36 + ed2.toInt.toNat) < _)
    have b := getD_lt _ rc_words.1 _ hidx
    rw [Nat.mod_eq_of_lt a, Nat.mod_eq_of_lt b]
  · exact absurd h (by simp)

/-- `BID_RECIPROCALS10_128[ed2 as usize]` -/
theorem recip_bridge (ed2 : Int32) (T : PackH.U128) (h : PackH.recip ed2.toInt = some T) :
    ∃ Tc, tbl128 Dec.Gen.BID_RECIPROCALS10_128 (UInt64.ofInt (toI ed2)) = .ok Tc ∧ pr Tc = T := by
  unfold PackH.recip at h
  obtain ⟨_, _, s3, _⟩ := table_shapes
  rw [s3] at h
  split at h
  · rename_i hc
    obtain ⟨h0, h1⟩ := hc
    injection h with h
    have hidx : 2 * (UInt64.ofInt (toI ed2)).toNat + 1 < Dec.Gen.BID_RECIPROCALS10_128.length := by
      rw [rec_words.2, ofInt_nonneg ed2 h0]; omega
    rw [tbl128_eq _ _ hidx]
    refine ⟨_, rfl, ?_⟩
    rw [← h, ofInt_nonneg ed2 h0]
    rw [ofInt_nonneg ed2 h0] at hidx
    simp only [pr, PackH.tbl128, UInt64.toNat_ofNat']
    have a := getD_lt _ rec_words.1 _ (by omega : 2 * ed2.toInt.toNat < _)
    have b := getD_lt _ rec_words.1 _ hidx
    rw [Nat.mod_eq_of_lt a, Nat.mod_eq_of_lt b]
  · exact absurd h (by simp)

/-- `BID_RECIP_SCALE[ed2 as usize]` -/
theorem recipScale_bridge (ed2 : Int32) (a : Nat) (h : PackH.recipScale ed2.toInt = some a) :
    ∃ amount, tblI32 Dec.Gen.BID_RECIP_SCALE (UInt64.ofInt (toI ed2)) = .ok amount ∧ amount.toInt = a ∧
      1 ≤ a ∧ a ≤ 127 := by
  unfold PackH.recipScale at h
  obtain ⟨_, _, _, s4⟩ := table_shapes
  rw [s4] at h
  split at h
  · rename_i hc
    obtain ⟨h0, h1⟩ := hc
    simp only at h
    split at h
    · rename_i hr
      injection h with h
      unfold tblI32
      rw [ofInt_nonneg ed2 h0, getElem?_getD _ _ (by rw [scale_len]; exact h1)]
      refine ⟨_, rfl, ?_, by omega, by omega⟩
      rw [h]
      have : (UInt64.ofNat a).toInt64.toInt = a := by
        show (UInt64.ofNat a).toBitVec.toInt = a
        rw [BitVec.toInt_eq_toNat_cond]
        have : (UInt64.ofNat a).toBitVec.toNat = a := by
          show (UInt64.ofNat a).toNat = a
          rw [UInt64.toNat_ofNat', Nat.mod_eq_of_lt (by omega)]
        rw [this]; split <;> omega
      rw [this, Int32.toInt_ofInt_of_le (by omega) (by omega)]
    · exact absurd h (by simp)
  · exact absurd h (by simp)

/-! ## 5. The common tail of the two underflow routines, after normalisation -/

/-- the open-coded test `Qh1 == 0 && Ql < TP128` as it appears in the translated code -/
abbrev zeroB (Qh1 Ql TP : U128) : Bool :=
  if (Qh1.w1 == 0 && Qh1.w0 == 0) = true then
    if decide (Ql.w1 < TP.w1) = true then true
    else if (Ql.w1 == TP.w1) = true then decide (Ql.w0 < TP.w0) else false
  else false

abbrev halfB (Qh1 Ql TP : U128) : Bool :=
  if (Qh1.w1 == 9223372036854775808 && Qh1.w0 == 0) = true then
    if decide (Ql.w1 < TP.w1) = true then true
    else if (Ql.w1 == TP.w1) = true then decide (Ql.w0 < TP.w0) else false
  else false

theorem lt_block (Ql TP : U128) :
    (if decide (Ql.w1 < TP.w1) = true then true
      else if (Ql.w1 == TP.w1) = true then decide (Ql.w0 < TP.w0) else false) = PackH.lt_128 (pr Ql) (pr TP) := by
  unfold PackH.lt_128 pr
  simp only [UInt64.lt_iff_toNat_lt, decide_eq_true_eq, beq_iff_eq, ← UInt64.toNat_inj]
  by_cases h1 : Ql.w1.toNat < TP.w1.toNat
  · simp [h1]
  · by_cases h2 : Ql.w1.toNat = TP.w1.toNat
    · simp [h1, h2]
    · simp [h1, h2]

theorem u64_beq (a b : UInt64) : (a == b) = (a.toNat == b.toNat) := by
  rw [Bool.eq_iff_iff]; simp [← UInt64.toNat_inj]

theorem zeroB_eq (Qh1 Ql TP : U128) :
    zeroB Qh1 Ql TP = ((pr Qh1).2 == 0 && (pr Qh1).1 == 0 && PackH.lt_128 (pr Ql) (pr TP)) := by
  unfold zeroB
  rw [lt_block, u64_beq, u64_beq]
  simp only [pr, UInt64.toNat_zero]
  cases h : (Qh1.w1.toNat == 0 && Qh1.w0.toNat == 0) <;> simp [h]

theorem halfB_eq (Qh1 Ql TP : U128) :
    halfB Qh1 Ql TP = ((pr Qh1).2 == 0x8000000000000000 && (pr Qh1).1 == 0 && PackH.lt_128 (pr Ql) (pr TP)) := by
  unfold halfB
  rw [lt_block, u64_beq, u64_beq]
  have : (9223372036854775808 : UInt64).toNat = 0x8000000000000000 := by decide
  simp only [pr, UInt64.toNat_zero, this]
  cases h : (Qh1.w1.toNat == 9223372036854775808 && Qh1.w0.toNat == 0) <;> simp [h]

theorem mode_ne (m : RoundingMode) : (m == RoundingMode.NearestEven) = decide (md m = .rne) := by cases m <;> rfl
theorem i32_ge64 (a : Int32) : decide (a ≥ 64) = decide (64 ≤ a.toInt) := by
  have : a ≥ 64 ↔ 64 ≤ a.toInt := by rw [ge_iff_le, Int32.le_iff_toInt_le]; rfl
  rw [Bool.eq_iff_iff]; simp only [decide_eq_true_eq]; exact this

theorem fix_fst (c : Prop) [Decidable c] (z : Bool) (a : PackH.U128) :
    (if c then (if z = true then (PackH.sub64 a.1 1, a.2) else a) else a).1
      = if c then (if z = true then PackH.sub64 a.1 1 else a.1) else a.1 := by
  split
  · split <;> rfl
  · rfl
theorem fix_snd (c : Prop) [Decidable c] (z : Bool) (a : PackH.U128) :
    (if c then (if z = true then (PackH.sub64 a.1 1, a.2) else a) else a).2 = a.2 := by
  split
  · split <;> rfl
  · rfl

/-- the round-half-even repair `CQ.w[0] -= 1` on one word -/
theorem fix_word (m : RoundingMode) (z : Bool) (x : UInt64) :
    (if (m == RoundingMode.NearestEven && x &&& 1 == 1) = true then (if z = true then x - 1 else x) else x).toNat
      = if md m = .rne ∧ x.toNat &&& 1 = 1 then (if z = true then PackH.sub64 x.toNat 1 else x.toNat) else x.toNat := by
  have one : (1 : UInt64).toNat = 1 := by decide
  have hodd : (x &&& 1 == 1) = decide (x.toNat &&& 1 = 1) := by
    rw [u64_beq, UInt64.toNat_and, one, Bool.eq_iff_iff]
    simp only [beq_iff_eq, decide_eq_true_eq]
  rw [mode_ne, hodd]
  by_cases hc : md m = .rne ∧ x.toNat &&& 1 = 1
  · rw [if_pos hc, if_pos (by rw [Bool.and_eq_true, decide_eq_true_eq, decide_eq_true_eq]; exact hc)]
    cases z
    · rw [if_neg (by decide), if_neg (by decide)]
    · rw [if_pos rfl, if_pos rfl, u64_sub, one]
  · rw [if_neg hc, if_neg (by rw [Bool.and_eq_true, decide_eq_true_eq, decide_eq_true_eq]; exact hc)]

/-- the coefficient words the translated tail delivers (`W0`, `W1` after normalisation) are the model's -/
theorem tail_coeff (sgn : UInt64) (m : RoundingMode) (amount : Int32) (amt : Nat) (Qh Ql Qs Qh1 TP : U128)
    (ha : amount.toInt = amt) (h1 : 1 ≤ amt) (h2 : amt ≤ 127)
    (hQs : amt < 64 → pr Qs = PackH.shr_128 (pr Qh) amt)
    (hQh1 : pr Qh1 = PackH.shl_128_long (pr Qh) (128 - amt)) :
    let CQa : PackH.U128 := if amt ≥ 64 then (PackH.shr64 (pr Qh).2 (amt - 64), 0) else PackH.shr_128 (pr Qh) amt
    let CQb : PackH.U128 :=
      if md m = .rne ∧ CQa.1 &&& 1 = 1 then
        if PackH.fracZero (pr Qh) (pr Ql) (pr TP) amt = true then (PackH.sub64 CQa.1 1, CQa.2) else CQa
      else CQa
    (if decide (amount ≥ 64) = true then
        if (m == RoundingMode.NearestEven && Qh.w1 >>> UInt64.ofInt (toI (amount - 64)) &&& 1 == 1) = true then
          if zeroB Qh1 Ql TP = true then Qh.w1 >>> UInt64.ofInt (toI (amount - 64)) - 1
          else Qh.w1 >>> UInt64.ofInt (toI (amount - 64))
        else Qh.w1 >>> UInt64.ofInt (toI (amount - 64))
      else
        if (m == RoundingMode.NearestEven && Qs.w0 &&& 1 == 1) = true then
          if zeroB Qh1 Ql TP = true then Qs.w0 - 1 else Qs.w0
        else Qs.w0).toNat = CQb.1 ∧
    (if decide (amount ≥ 64) = true then sgn ||| 0 else sgn ||| Qs.w1).toNat = sgn.toNat ||| CQb.2 := by
  intro CQa CQb
  have hz : zeroB Qh1 Ql TP = PackH.fracZero (pr Qh) (pr Ql) (pr TP) amt := by
    rw [zeroB_eq]; unfold PackH.fracZero; rw [← hQh1]
  have e1 : CQb.1 = _ := fix_fst _ _ CQa
  have e2 : CQb.2 = _ := fix_snd _ _ CQa
  rw [e1, e2, hz, i32_ge64, ha]
  by_cases h64 : 64 ≤ amt
  · have hx : (Qh.w1 >>> UInt64.ofInt (toI (amount - 64))).toNat = PackH.shr64 Qh.w1.toNat (amt - 64) := by
      have e : (amount - (64 : Int32)).toInt = amt - 64 := by
        have := sub40 amount (by omega); rw [ha] at this; exact this
      rw [shr_var _ _ (by omega) (by omega), e]
      congr 1; omega
    have hCQa : CQa = (PackH.shr64 Qh.w1.toNat (amt - 64), 0) := if_pos h64
    have hd : decide ((64 : Int) ≤ (amt : Int)) = true := by rw [decide_eq_true_eq]; omega
    rw [hd, if_pos rfl, if_pos rfl, hCQa, fix_word, hx]
    exact ⟨rfl, by rw [UInt64.toNat_or]; rfl⟩
  · have hQs' := hQs (by omega)
    have hCQa : CQa = PackH.shr_128 (pr Qh) amt := if_neg h64
    rw [← hQs'] at hCQa
    have hd : decide ((64 : Int) ≤ (amt : Int)) = false := by rw [decide_eq_false_iff_not]; omega
    simp only [hd, Bool.false_eq_true, if_false]
    rw [hCQa, fix_word]
    exact ⟨rfl, by rw [UInt64.toNat_or]⟩

theorem u32_beq (a b : UInt32) : (a == b) = (a.toNat == b.toNat) := by
  rw [Bool.eq_iff_iff]; simp [← UInt32.toNat_inj]

/-- the status word the translated tail delivers (`FL` after normalisation, for the sign-adjusted mode `r`) is the
model's -/
theorem tail_flags (r : RoundingMode) (f : UInt32) (amt : Nat) (Qh Ql Qh1 Qh2 Tmp1 TP : U128) (c3 : UInt64)
    (hQh1 : pr Qh1 = PackH.shl_128_long (pr Qh) (128 - amt))
    (hc3 : c3.toNat = (PackH.add_carry_in_out Ql.w1.toNat TP.w1.toNat (PackH.add_carry_out Ql.w0.toNat TP.w0.toNat).2).2)
    (hQh2 : pr Qh2 = PackH.shr_128_long (pr Qh1) (128 - amt))
    (hTmp : pr Tmp1 = PackH.shl_128_long (1, 0) amt) :
    (if (f &&& c_StatusFlags_BID_INEXACT_EXCEPTION == c_StatusFlags_BID_INEXACT_EXCEPTION) = true then
        f ||| c_StatusFlags_BID_UNDERFLOW_EXCEPTION
      else
        if (r == RoundingMode.NearestEven || r == RoundingMode.NearestAway) = true then
          if halfB Qh1 Ql TP = true then f
          else f ||| (c_StatusFlags_BID_UNDERFLOW_EXCEPTION ||| c_StatusFlags_BID_INEXACT_EXCEPTION)
        else
          if (r == RoundingMode.Downward || r == RoundingMode.TowardZero) = true then
            if zeroB Qh1 Ql TP = true then f
            else f ||| (c_StatusFlags_BID_UNDERFLOW_EXCEPTION ||| c_StatusFlags_BID_INEXACT_EXCEPTION)
          else
            if decide (Qh2.w0 + c3 < c3) = true then
              if PackH.ge_128 (pr { w0 := Qh2.w0 + c3, w1 := Qh2.w1 + 1 }) (pr Tmp1) = true then f
              else f ||| (c_StatusFlags_BID_UNDERFLOW_EXCEPTION ||| c_StatusFlags_BID_INEXACT_EXCEPTION)
            else
              if PackH.ge_128 (pr { w0 := Qh2.w0 + c3, w1 := Qh2.w1 }) (pr Tmp1) = true then f
              else f ||| (c_StatusFlags_BID_UNDERFLOW_EXCEPTION ||| c_StatusFlags_BID_INEXACT_EXCEPTION)).toNat
      = (if f.toNat &&& fInexact = fInexact then f.toNat ||| fUnderflow
         else
          if (match md r with
              | .rne | .rna => PackH.fracHalf (pr Qh) (pr Ql) (pr TP) amt
              | .rdn | .rtz => PackH.fracZero (pr Qh) (pr Ql) (pr TP) amt
              | .rup => PackH.fracTop (pr Qh) (pr Ql) (pr TP) amt) = true then f.toNat
          else f.toNat ||| (fUnderflow ||| fInexact)) := by
  have hz : zeroB Qh1 Ql TP = PackH.fracZero (pr Qh) (pr Ql) (pr TP) amt := by
    rw [zeroB_eq]; unfold PackH.fracZero; rw [← hQh1]
  have hh : halfB Qh1 Ql TP = PackH.fracHalf (pr Qh) (pr Ql) (pr TP) amt := by
    rw [halfB_eq]; unfold PackH.fracHalf; rw [← hQh1]
  have ci : c_StatusFlags_BID_INEXACT_EXCEPTION.toNat = fInexact := by decide
  have cu : c_StatusFlags_BID_UNDERFLOW_EXCEPTION.toNat = fUnderflow := by decide
  have hin : (f &&& c_StatusFlags_BID_INEXACT_EXCEPTION == c_StatusFlags_BID_INEXACT_EXCEPTION)
      = decide (f.toNat &&& fInexact = fInexact) := by
    rw [u32_beq, UInt32.toNat_and, ci, Bool.eq_iff_iff]; simp only [beq_iff_eq, decide_eq_true_eq]
  have hor : (f ||| (c_StatusFlags_BID_UNDERFLOW_EXCEPTION ||| c_StatusFlags_BID_INEXACT_EXCEPTION)).toNat
      = f.toNat ||| (fUnderflow ||| fInexact) := by
    rw [UInt32.toNat_or, UInt32.toNat_or, ci, cu]
  rw [hin, hz, hh]
  by_cases hi : f.toNat &&& fInexact = fInexact
  · rw [if_pos hi, if_pos (by rw [decide_eq_true_eq]; exact hi), UInt32.toNat_or, cu]
  · rw [if_neg hi, if_neg (by rw [decide_eq_true_eq]; exact hi)]
    -- the "round up" arm
    have htop : (if decide (Qh2.w0 + c3 < c3) = true then
          PackH.ge_128 (pr { w0 := Qh2.w0 + c3, w1 := Qh2.w1 + 1 }) (pr Tmp1)
        else PackH.ge_128 (pr { w0 := Qh2.w0 + c3, w1 := Qh2.w1 }) (pr Tmp1))
        = PackH.fracTop (pr Qh) (pr Ql) (pr TP) amt := by
      unfold PackH.fracTop
      simp only [← hQh1, ← hQh2, ← hTmp, ← hc3]
      have one : (1 : UInt64).toNat = 1 := by decide
      by_cases hlt : Qh2.w0 + c3 < c3
      · have hlt' : PackH.add64 Qh2.w0.toNat c3.toNat < c3.toNat := by
          rw [← u64_add]; exact UInt64.lt_iff_toNat_lt.1 hlt
        simp only [hlt, decide_true, if_true, pr, hlt', u64_add, one]
      · have hlt' : ¬ PackH.add64 Qh2.w0.toNat c3.toNat < c3.toNat := by
          rw [← u64_add]; exact fun h => hlt (UInt64.lt_iff_toNat_lt.2 h)
        simp only [hlt, decide_false, Bool.false_eq_true, if_false, pr, hlt', u64_add]
    cases r
    · simp only [md]; rw [if_pos (by decide)]
      cases PackH.fracHalf (pr Qh) (pr Ql) (pr TP) amt
      · simp only [Bool.false_eq_true, if_false, hor]
      · simp only [if_true]
    · simp only [md]; rw [if_neg (by decide), if_pos (by decide)]
      cases PackH.fracZero (pr Qh) (pr Ql) (pr TP) amt
      · simp only [Bool.false_eq_true, if_false, hor]
      · simp only [if_true]
    · simp only [md]; rw [if_neg (by decide), if_neg (by decide), ← htop]
      by_cases hlt : Qh2.w0 + c3 < c3
      · simp only [hlt, decide_true, if_true]
        cases PackH.ge_128 (pr { w0 := Qh2.w0 + c3, w1 := Qh2.w1 + 1 }) (pr Tmp1)
        · simp only [Bool.false_eq_true, if_false, hor]
        · simp only [if_true]
      · simp only [hlt, decide_false, Bool.false_eq_true, if_false]
        cases PackH.ge_128 (pr { w0 := Qh2.w0 + c3, w1 := Qh2.w1 }) (pr Tmp1)
        · simp only [Bool.false_eq_true, if_false, hor]
        · simp only [if_true]
    · simp only [md]; rw [if_neg (by decide), if_pos (by decide)]
      cases PackH.fracZero (pr Qh) (pr Ql) (pr TP) amt
      · simp only [Bool.false_eq_true, if_false, hor]
      · simp only [if_true]
    · simp only [md]; rw [if_pos (by decide)]
      cases PackH.fracHalf (pr Qh) (pr Ql) (pr TP) amt
      · simp only [Bool.false_eq_true, if_false, hor]
      · simp only [if_true]

/-- `__shr_128` never fails; for `1 ≤ k ≤ 63` it is the model's -/
theorem shr_128_total (a : U128) (k : Int32) :
    ∃ r, Dec.Gen.Code.shr_128 a k = .ok r ∧
      (1 ≤ k.toInt → k.toInt ≤ 63 → pr r = PackH.shr_128 (pr a) k.toInt.toNat) := by
  by_cases h : 1 ≤ k.toInt ∧ k.toInt ≤ 63
  · obtain ⟨r, h1, h2⟩ := shr_128_bridge a k h.1 h.2
    exact ⟨r, h1, fun _ _ => h2⟩
  · refine ⟨_, rfl, fun h1 h2 => absurd ⟨h1, h2⟩ h⟩

/-- the sign-adjusted mode as the translated code computes it -/
theorem rmode_data (sgn : UInt64) (m : RoundingMode) :
    ∃ r : RoundingMode, md r = PackH.ufRmode sgn.toNat (md m) ∧
      (((sgn != 0 && decide (UInt32.ofInt (toI m) - 1 < 2)) = true ∧
          RoundingMode.fromU32 (3 - UInt32.ofInt (toI m)) = .ok r) ∨
        ((sgn != 0 && decide (UInt32.ofInt (toI m) - 1 < 2)) = false ∧ r = m)) := by
  unfold PackH.ufRmode
  by_cases hc : sgn.toNat ≠ 0 ∧ (md m = .rdn ∨ md m = .rup)
  · obtain ⟨h1, h2⟩ := swap_val m hc.2
    refine ⟨swapR m, ?_, Or.inl ⟨?_, h1⟩⟩
    · rw [if_pos hc, h2]
    · rw [swap_cond, decide_eq_true_eq]; exact hc
  · refine ⟨m, ?_, Or.inr ⟨?_, rfl⟩⟩
    · rw [if_neg hc]
    · rw [swap_cond, decide_eq_false_iff_not]; exact hc

/-- **Everything the translated tail computes**, obtained from the fact that the model's `ufTail` returns `some`: the
results of every call the code makes (each `.ok`), and the three normalised result expressions with their values. -/
theorem tail_data (sgn : UInt64) (ed2 : Int32) (CQ0 : U128) (m : RoundingMode) (f : UInt32) (p : PackH.U128) (q : Nat)
    (hm : PackH.ufTail sgn.toNat ed2.toInt (pr CQ0) (md m) f.toNat = some (p, q)) :
    ∃ (r : RoundingMode) (T TP : U128) (amount : Int32) (s1 c1 : UInt64) (Qh Ql Qs Qh1 : U128)
      (s2 c2 s3 c3 : UInt64) (Qh2 Tmp1 : U128),
      (((sgn != 0 && decide (UInt32.ofInt (toI m) - 1 < 2)) = true ∧
          RoundingMode.fromU32 (3 - UInt32.ofInt (toI m)) = .ok r) ∨
        ((sgn != 0 && decide (UInt32.ofInt (toI m) - 1 < 2)) = false ∧ r = m)) ∧
      tbl128_2 Dec.Gen.BID_ROUND_CONST_TABLE_128 36 (UInt64.ofInt (toI r)) (UInt64.ofInt (toI ed2)) = .ok T ∧
      add_carry_out T.w0 CQ0.w0 = .ok (s1, c1) ∧
      tbl128 Dec.Gen.BID_RECIPROCALS10_128 (UInt64.ofInt (toI ed2)) = .ok TP ∧
      mul_128x128_full { w0 := s1, w1 := CQ0.w1 + T.w1 + c1 } TP = .ok (Qh, Ql) ∧
      tblI32 Dec.Gen.BID_RECIP_SCALE (UInt64.ofInt (toI ed2)) = .ok amount ∧
      shr_128 Qh amount = .ok Qs ∧
      shl_128_long Qh ((0x80 : Int32) - amount) = .ok Qh1 ∧
      add_carry_out Ql.w0 TP.w0 = .ok (s2, c2) ∧
      add_carry_in_out Ql.w1 TP.w1 c2 = .ok (s3, c3) ∧
      shr_128_long Qh1 ((0x80 : Int32) - amount) = .ok Qh2 ∧
      shl_128_long { w0 := 1, w1 := 0 } amount = .ok Tmp1 ∧
      pr { w0 :=
            (if decide (amount ≥ 64) = true then
              if (m == RoundingMode.NearestEven && Qh.w1 >>> UInt64.ofInt (toI (amount - 64)) &&& 1 == 1) = true then
                if zeroB Qh1 Ql TP = true then Qh.w1 >>> UInt64.ofInt (toI (amount - 64)) - 1
                else Qh.w1 >>> UInt64.ofInt (toI (amount - 64))
              else Qh.w1 >>> UInt64.ofInt (toI (amount - 64))
            else
              if (m == RoundingMode.NearestEven && Qs.w0 &&& 1 == 1) = true then
                if zeroB Qh1 Ql TP = true then Qs.w0 - 1 else Qs.w0
              else Qs.w0),
           w1 := (if decide (amount ≥ 64) = true then sgn ||| 0 else sgn ||| Qs.w1) } = p ∧
      (if (f &&& c_StatusFlags_BID_INEXACT_EXCEPTION == c_StatusFlags_BID_INEXACT_EXCEPTION) = true then
          f ||| c_StatusFlags_BID_UNDERFLOW_EXCEPTION
        else
          if (r == RoundingMode.NearestEven || r == RoundingMode.NearestAway) = true then
            if halfB Qh1 Ql TP = true then f
            else f ||| (c_StatusFlags_BID_UNDERFLOW_EXCEPTION ||| c_StatusFlags_BID_INEXACT_EXCEPTION)
          else
            if (r == RoundingMode.Downward || r == RoundingMode.TowardZero) = true then
              if zeroB Qh1 Ql TP = true then f
              else f ||| (c_StatusFlags_BID_UNDERFLOW_EXCEPTION ||| c_StatusFlags_BID_INEXACT_EXCEPTION)
            else
              if decide (Qh2.w0 + c3 < c3) = true then
                if PackH.ge_128 (pr { w0 := Qh2.w0 + c3, w1 := Qh2.w1 + 1 }) (pr Tmp1) = true then f
                else f ||| (c_StatusFlags_BID_UNDERFLOW_EXCEPTION ||| c_StatusFlags_BID_INEXACT_EXCEPTION)
              else
                if PackH.ge_128 (pr { w0 := Qh2.w0 + c3, w1 := Qh2.w1 }) (pr Tmp1) = true then f
                else f ||| (c_StatusFlags_BID_UNDERFLOW_EXCEPTION ||| c_StatusFlags_BID_INEXACT_EXCEPTION)).toNat = q := by
  obtain ⟨r, hr, hsw⟩ := rmode_data sgn m
  unfold PackH.ufTail at hm
  simp only at hm
  rw [← hr] at hm
  -- the three table reads
  cases hT : PackH.roundConst (md r) ed2.toInt with
  | none => rw [hT] at hm; exact absurd hm (by simp)
  | some Tm =>
  cases hK : PackH.recip ed2.toInt with
  | none => rw [hT, hK] at hm; exact absurd hm (by simp)
  | some TPm =>
  cases hS : PackH.recipScale ed2.toInt with
  | none => rw [hT, hK, hS] at hm; exact absurd hm (by simp)
  | some amt =>
  rw [hT, hK, hS] at hm
  simp only at hm
  obtain ⟨T, hTc, hTp⟩ := roundConst_bridge r ed2 Tm hT
  obtain ⟨TP, hTPc, hTPp⟩ := recip_bridge ed2 TPm hK
  obtain ⟨amount, hac, ha, ha1, ha2⟩ := recipScale_bridge ed2 amt hS
  subst hTp hTPp
  -- the calls
  obtain ⟨s1, c1, h1, e1⟩ := add_carry_out_bridge T.w0 CQ0.w0
  obtain ⟨Qh, Ql, h2, e2⟩ := mul_128x128_full_bridge { w0 := s1, w1 := CQ0.w1 + T.w1 + c1 } TP
  obtain ⟨Qs, h3, e3⟩ := shr_128_total Qh amount
  have h80 : ((0x80 : Int32) - amount).toInt = 128 - (amt : Int) := by rw [rsub80 amount (by omega), ha]
  obtain ⟨Qh1, h4, e4⟩ := shl_128_long_bridge Qh ((0x80 : Int32) - amount) (by omega) (by omega)
  obtain ⟨s2, c2, h5, e5⟩ := add_carry_out_bridge Ql.w0 TP.w0
  obtain ⟨s3, c3, h6, e6⟩ := add_carry_in_out_bridge Ql.w1 TP.w1 c2
  obtain ⟨Qh2, h7, e7⟩ := shr_128_long_bridge Qh1 ((0x80 : Int32) - amount) (by omega) (by omega)
  obtain ⟨Tmp1, h8, e8⟩ := shl_128_long_bridge { w0 := 1, w1 := 0 } amount (by omega) (by omega)
  refine ⟨r, T, TP, amount, s1, c1, Qh, Ql, Qs, Qh1, s2, c2, s3, c3, Qh2, Tmp1, hsw, hTc, h1, hTPc, h2, hac, h3, h4, h5, h6,
    h7, h8, ?_, ?_⟩
  all_goals
    have hn : (128 - (amt : Int)).toNat = 128 - amt := by omega
    have hQ : PackH.mul_128x128_full ((PackH.add_carry_out (pr T).1 (pr CQ0).1).1,
        PackH.add64 (PackH.add64 (pr CQ0).2 (pr T).2) (PackH.add_carry_out (pr T).1 (pr CQ0).1).2) (pr TP) = (pr Qh, pr Ql) := by
      rw [e2]
      congr 1
      simp only [pr, ← e1, u64_add]
    rw [hQ] at hm
    simp only at hm
    injection hm with hm
    injection hm with hp hq
    rw [h80, hn] at e4 e7
    rw [ha] at e8
    have e8' : pr Tmp1 = PackH.shl_128_long (1, 0) amt := by rw [e8]; rfl
    have e3' : amt < 64 → pr Qs = PackH.shr_128 (pr Qh) amt := by
      intro h; have := e3 (by omega) (by omega); rw [ha] at this; exact this
    have ec3 : c3.toNat = (PackH.add_carry_in_out Ql.w1.toNat TP.w1.toNat
        (PackH.add_carry_out Ql.w0.toNat TP.w0.toNat).2).2 := by
      rw [← e5, ← e6]
  · obtain ⟨w0, w1⟩ := tail_coeff sgn m amount amt Qh Ql Qs Qh1 TP ha ha1 ha2 e3' e4
    rw [← hp]
    exact Prod.ext w0 w1
  · rw [← hq]
    exact tail_flags r f amt Qh Ql Qh1 Qh2 Tmp1 TP c3 e4 ec3 e7 e8'

/-! ## 6. `handle_UF_128`, `bid_handle_UF_128_rem` -/

theorem ok_ite {α} (c : Prop) [Decidable c] (a b : α) :
    (if c then (Except.ok a : Except String α) else Except.ok b) = Except.ok (if c then a else b) := by
  split <;> rfl
theorem ite_prod {α β} (c : Prop) [Decidable c] (a a' : α) (b b' : β) :
    (if c then (a, b) else (a', b')) = (if c then a else a', if c then b else b') := by split <;> rfl
theorem ite_u128 (c : Prop) [Decidable c] (a a' b b' : UInt64) :
    (if c then (⟨a, b⟩ : U128) else ⟨a', b'⟩) = ⟨if c then a else a', if c then b else b'⟩ := by split <;> rfl
theorem st1 : (c_StatusFlags_BID_EXACT_STATUS != c_StatusFlags_BID_EXACT_STATUS) = false := by decide
theorem st2 : (c_StatusFlags_BID_INEXACT_EXCEPTION != c_StatusFlags_BID_EXACT_STATUS) = true := by decide

/-- the early-return test `expon + 34 < 0` -/
theorem deep_cond (e : Int32) :
    decide (e + Int32.ofInt (toI c_MAX_FORMAT_DIGITS_128) < 0) = decide (PackH.wrapI32 (e.toInt + 34) < 0) := by
  have h34 : (Int32.ofInt (toI c_MAX_FORMAT_DIGITS_128)).toInt = 34 := by decide
  have : e + Int32.ofInt (toI c_MAX_FORMAT_DIGITS_128) < 0 ↔ PackH.wrapI32 (e.toInt + 34) < 0 := by
    rw [Int32.lt_iff_toInt_lt, i32_add, h34]; rfl
  rw [Bool.eq_iff_iff]; simp only [decide_eq_true_eq]; exact this

theorem deep_word (sgn : UInt64) (m : RoundingMode) :
    (sgn != 0 && m == RoundingMode.Downward || sgn == 0 && m == RoundingMode.Upward)
      = decide ((sgn.toNat ≠ 0 ∧ md m = .rdn) ∨ (sgn.toNat = 0 ∧ md m = .rup)) := by
  rw [u64_ne_zero, u64_beq_zero, Bool.eq_iff_iff]
  cases m <;> simp [md]

set_option maxHeartbeats 1000000 in
/-- the translated `handle_UF_128` past the early return, every call resolved, in normal form (sign-swapped mode `r`) -/
theorem uf_norm_s (sgn : UInt64) (e : Int32) (CQ : U128) (m : RoundingMode) (f : UInt32) (r : RoundingMode) 
    (T TP : U128) (amount : Int32) (s1 c1 : UInt64) (Qh Ql Qs Qh1 : U128) (s2 c2 s3 c3 : UInt64) (Qh2 Tmp1 : U128)
    (hdc : decide (e + Int32.ofInt (toI c_MAX_FORMAT_DIGITS_128) < 0) = false)
    (hc : (sgn != 0 && decide (UInt32.ofInt (toI m) - 1 < 2)) = true)
    (h9 : RoundingMode.fromU32 (3 - UInt32.ofInt (toI m)) = .ok r)
    (hT : tbl128_2 Dec.Gen.BID_ROUND_CONST_TABLE_128 36 (UInt64.ofInt (toI r)) (UInt64.ofInt (toI ((0 : Int32) - e))) = .ok T)
    (h1 : add_carry_out T.w0 CQ.w0 = .ok (s1, c1))
    (hTP : tbl128 Dec.Gen.BID_RECIPROCALS10_128 (UInt64.ofInt (toI ((0 : Int32) - e))) = .ok TP)
    (h2 : mul_128x128_full { w0 := s1, w1 := CQ.w1 + T.w1 + c1 } TP = .ok (Qh, Ql))
    (ha : tblI32 Dec.Gen.BID_RECIP_SCALE (UInt64.ofInt (toI ((0 : Int32) - e))) = .ok amount)
    (h3 : shr_128 Qh amount = .ok Qs)
    (h4 : shl_128_long Qh ((0x80 : Int32) - amount) = .ok Qh1)
    (h5 : add_carry_out Ql.w0 TP.w0 = .ok (s2, c2))
    (h6 : add_carry_in_out Ql.w1 TP.w1 c2 = .ok (s3, c3))
    (h7 : shr_128_long Qh1 ((0x80 : Int32) - amount) = .ok Qh2)
    (h8 : shl_128_long { w0 := 1, w1 := 0 } amount = .ok Tmp1) :
    Dec.Gen.Code.handle_UF_128 sgn e CQ m f = .ok
      ({ w0 :=
            (if decide (amount ≥ 64) = true then
              if (m == RoundingMode.NearestEven && Qh.w1 >>> UInt64.ofInt (toI (amount - 64)) &&& 1 == 1) = true then
                if zeroB Qh1 Ql TP = true then Qh.w1 >>> UInt64.ofInt (toI (amount - 64)) - 1
                else Qh.w1 >>> UInt64.ofInt (toI (amount - 64))
              else Qh.w1 >>> UInt64.ofInt (toI (amount - 64))
            else
              if (m == RoundingMode.NearestEven && Qs.w0 &&& 1 == 1) = true then
                if zeroB Qh1 Ql TP = true then Qs.w0 - 1 else Qs.w0
              else Qs.w0),
           w1 := (if decide (amount ≥ 64) = true then sgn ||| 0 else sgn ||| Qs.w1) },
       (if (f &&& c_StatusFlags_BID_INEXACT_EXCEPTION == c_StatusFlags_BID_INEXACT_EXCEPTION) = true then
          f ||| c_StatusFlags_BID_UNDERFLOW_EXCEPTION
        else
          if (r == RoundingMode.NearestEven || r == RoundingMode.NearestAway) = true then
            if halfB Qh1 Ql TP = true then f
            else f ||| (c_StatusFlags_BID_UNDERFLOW_EXCEPTION ||| c_StatusFlags_BID_INEXACT_EXCEPTION)
          else
            if (r == RoundingMode.Downward || r == RoundingMode.TowardZero) = true then
              if zeroB Qh1 Ql TP = true then f
              else f ||| (c_StatusFlags_BID_UNDERFLOW_EXCEPTION ||| c_StatusFlags_BID_INEXACT_EXCEPTION)
            else
              if decide (Qh2.w0 + c3 < c3) = true then
                if PackH.ge_128 (pr { w0 := Qh2.w0 + c3, w1 := Qh2.w1 + 1 }) (pr Tmp1) = true then f
                else f ||| (c_StatusFlags_BID_UNDERFLOW_EXCEPTION ||| c_StatusFlags_BID_INEXACT_EXCEPTION)
              else
                if PackH.ge_128 (pr { w0 := Qh2.w0 + c3, w1 := Qh2.w1 }) (pr Tmp1) = true then f
                else f ||| (c_StatusFlags_BID_UNDERFLOW_EXCEPTION ||| c_StatusFlags_BID_INEXACT_EXCEPTION))) := by
  unfold Dec.Gen.Code.handle_UF_128
  simp only [bind, Except.bind, pure, Except.pure, set_status_flags, is_inexact, ge_bridge, hdc, hc, h9, hT,
    h1, hTP, h2, ha, h3, h4, h5, h6, h7, h8, ok_ite, st1, st2, Bool.false_eq_true, if_false, if_true, ite_prod,
    ite_u128, ite_self]

set_option maxHeartbeats 1000000 in
/-- the translated `handle_UF_128` past the early return, every call resolved, in normal form (mode not swapped) -/
theorem uf_norm_n (sgn : UInt64) (e : Int32) (CQ : U128) (m : RoundingMode) (f : UInt32) 
    (T TP : U128) (amount : Int32) (s1 c1 : UInt64) (Qh Ql Qs Qh1 : U128) (s2 c2 s3 c3 : UInt64) (Qh2 Tmp1 : U128)
    (hdc : decide (e + Int32.ofInt (toI c_MAX_FORMAT_DIGITS_128) < 0) = false)
    (hc : (sgn != 0 && decide (UInt32.ofInt (toI m) - 1 < 2)) = false)
    (hT : tbl128_2 Dec.Gen.BID_ROUND_CONST_TABLE_128 36 (UInt64.ofInt (toI m)) (UInt64.ofInt (toI ((0 : Int32) - e))) = .ok T)
    (h1 : add_carry_out T.w0 CQ.w0 = .ok (s1, c1))
    (hTP : tbl128 Dec.Gen.BID_RECIPROCALS10_128 (UInt64.ofInt (toI ((0 : Int32) - e))) = .ok TP)
    (h2 : mul_128x128_full { w0 := s1, w1 := CQ.w1 + T.w1 + c1 } TP = .ok (Qh, Ql))
    (ha : tblI32 Dec.Gen.BID_RECIP_SCALE (UInt64.ofInt (toI ((0 : Int32) - e))) = .ok amount)
    (h3 : shr_128 Qh amount = .ok Qs)
    (h4 : shl_128_long Qh ((0x80 : Int32) - amount) = .ok Qh1)
    (h5 : add_carry_out Ql.w0 TP.w0 = .ok (s2, c2))
    (h6 : add_carry_in_out Ql.w1 TP.w1 c2 = .ok (s3, c3))
    (h7 : shr_128_long Qh1 ((0x80 : Int32) - amount) = .ok Qh2)
    (h8 : shl_128_long { w0 := 1, w1 := 0 } amount = .ok Tmp1) :
    Dec.Gen.Code.handle_UF_128 sgn e CQ m f = .ok
      ({ w0 :=
            (if decide (amount ≥ 64) = true then
              if (m == RoundingMode.NearestEven && Qh.w1 >>> UInt64.ofInt (toI (amount - 64)) &&& 1 == 1) = true then
                if zeroB Qh1 Ql TP = true then Qh.w1 >>> UInt64.ofInt (toI (amount - 64)) - 1
                else Qh.w1 >>> UInt64.ofInt (toI (amount - 64))
              else Qh.w1 >>> UInt64.ofInt (toI (amount - 64))
            else
              if (m == RoundingMode.NearestEven && Qs.w0 &&& 1 == 1) = true then
                if zeroB Qh1 Ql TP = true then Qs.w0 - 1 else Qs.w0
              else Qs.w0),
           w1 := (if decide (amount ≥ 64) = true then sgn ||| 0 else sgn ||| Qs.w1) },
       (if (f &&& c_StatusFlags_BID_INEXACT_EXCEPTION == c_StatusFlags_BID_INEXACT_EXCEPTION) = true then
          f ||| c_StatusFlags_BID_UNDERFLOW_EXCEPTION
        else
          if (m == RoundingMode.NearestEven || m == RoundingMode.NearestAway) = true then
            if halfB Qh1 Ql TP = true then f
            else f ||| (c_StatusFlags_BID_UNDERFLOW_EXCEPTION ||| c_StatusFlags_BID_INEXACT_EXCEPTION)
          else
            if (m == RoundingMode.Downward || m == RoundingMode.TowardZero) = true then
              if zeroB Qh1 Ql TP = true then f
              else f ||| (c_StatusFlags_BID_UNDERFLOW_EXCEPTION ||| c_StatusFlags_BID_INEXACT_EXCEPTION)
            else
              if decide (Qh2.w0 + c3 < c3) = true then
                if PackH.ge_128 (pr { w0 := Qh2.w0 + c3, w1 := Qh2.w1 + 1 }) (pr Tmp1) = true then f
                else f ||| (c_StatusFlags_BID_UNDERFLOW_EXCEPTION ||| c_StatusFlags_BID_INEXACT_EXCEPTION)
              else
                if PackH.ge_128 (pr { w0 := Qh2.w0 + c3, w1 := Qh2.w1 }) (pr Tmp1) = true then f
                else f ||| (c_StatusFlags_BID_UNDERFLOW_EXCEPTION ||| c_StatusFlags_BID_INEXACT_EXCEPTION))) := by
  unfold Dec.Gen.Code.handle_UF_128
  simp only [bind, Except.bind, pure, Except.pure, set_status_flags, is_inexact, ge_bridge, hdc, hc, hT,
    h1, hTP, h2, ha, h3, h4, h5, h6, h7, h8, ok_ite, st1, st2, Bool.false_eq_true, if_false, if_true, ite_prod,
    ite_u128, ite_self]

set_option maxHeartbeats 1000000 in
/-- **bridge**: wherever the model `PackH.handle_UF_128` returns `some (p, q)` — every input except `1 ≤ expon < 2^31 − 34`, where the Rust code indexes its tables out of range — the translated `handle_UF_128` returns `.ok` with result words `p` and status word `q` -/
theorem handle_uf_bridge (sgn : UInt64) (e : Int32) (CQ : U128) (m : RoundingMode) (f : UInt32)
    (p : PackH.U128) (q : Nat)
    (hm : PackH.handle_UF_128 sgn.toNat e.toInt (pr CQ) (md m) f.toNat = some (p, q)) :
    ∃ res fl, Dec.Gen.Code.handle_UF_128 sgn e CQ m f = .ok (res, fl) ∧ pr res = p ∧ fl.toNat = q := by
  unfold PackH.handle_UF_128 at hm
  by_cases hd : PackH.wrapI32 (e.toInt + 34) < 0
  · rw [if_pos hd] at hm
    injection hm with hm
    have hdc : decide (e + Int32.ofInt (toI c_MAX_FORMAT_DIGITS_128) < 0) = true := by
      rw [deep_cond, decide_eq_true_eq]; exact hd
    unfold Dec.Gen.Code.handle_UF_128
    simp only [bind, Except.bind, pure, Except.pure, set_status_flags, hdc, if_true, ok_ite, ite_prod, ite_u128, ite_self]
    unfold PackH.ufDeep at hm
    simp only at hm
    injection hm with hp hq
    refine ⟨_, _, rfl, ?_, ?_⟩
    · rw [← hp]
      simp only [pr, deep_word, decide_eq_true_eq, apply_ite UInt64.toNat]
      rfl
    · rw [← hq]
      simp only [UInt32.toNat_or]
      rfl
  · rw [if_neg hd] at hm
    simp only at hm
    have hdc : decide (e + Int32.ofInt (toI c_MAX_FORMAT_DIGITS_128) < 0) = false := by
      rw [deep_cond, decide_eq_false_iff_not]; exact hd
    have hed2 : ((0 : Int32) - e).toInt = PackH.wrapI32 (0 - e.toInt) := by rw [i32_sub]; rfl
    rw [← hed2] at hm
    obtain ⟨r, T, TP, amount, s1, c1, Qh, Ql, Qs, Qh1, s2, c2, s3, c3, Qh2, Tmp1, hsw, hT, h1, hTP, h2, ha, h3, h4, h5,
      h6, h7, h8, hp, hq⟩ := tail_data sgn ((0 : Int32) - e) CQ m f p q hm
    rcases hsw with ⟨hc, h9⟩ | ⟨hc, rfl⟩
    · exact ⟨_, _, uf_norm_s sgn e CQ m f r T TP amount s1 c1 Qh Ql Qs Qh1 s2 c2 s3 c3 Qh2 Tmp1 hdc hc h9 hT h1 hTP h2 ha h3 h4 h5 h6 h7 h8, hp, hq⟩
    · exact ⟨_, _, uf_norm_n sgn e CQ r f T TP amount s1 c1 Qh Ql Qs Qh1 s2 c2 s3 c3 Qh2 Tmp1 hdc hc hT h1 hTP h2 ha h3 h4 h5 h6 h7 h8, hp, hq⟩

theorem shl1 (t : UInt64) : (t <<< (1 : UInt64)).toNat = PackH.shl64 t.toNat 1 := by rw [UInt64.toNat_shiftLeft]; rfl
theorem shl3 (t : UInt64) : (t <<< (3 : UInt64)).toNat = PackH.shl64 t.toNat 3 := by rw [UInt64.toNat_shiftLeft]; rfl
theorem shr63 (t : UInt64) : (t >>> (0x3f : UInt64)).toNat = PackH.shr64 t.toNat 63 := by rw [UInt64.toNat_shiftRight]; rfl
theorem shr61 (t : UInt64) : (t >>> (0x3d : UInt64)).toNat = PackH.shr64 t.toNat 61 := by rw [UInt64.toNat_shiftRight]; rfl

set_option maxHeartbeats 1000000 in
/-- the translated `bid_handle_UF_128_rem` in normal form: `R = 0`, mode swapped -/
theorem rem_norm_ns (sgn : UInt64) (e : Int32) (CQ : U128) (R : UInt64) (m : RoundingMode) (f : UInt32) (r : RoundingMode) 
    (CQx T TP : U128) (amount : Int32) (s1 c1 : UInt64) (Qh Ql Qs Qh1 : U128) (s2 c2 s3 c3 : UInt64) (Qh2 Tmp1 : U128)
    (hdc : decide (e + Int32.ofInt (toI c_MAX_FORMAT_DIGITS_128) < 0) = false)
    (hx : add_128_128 { w0 := CQ.w0 <<< 1, w1 := CQ.w1 <<< 1 ||| CQ.w0 >>> 0x3f }
      { w0 := CQ.w0 <<< 3, w1 := CQ.w1 <<< 3 ||| CQ.w0 >>> 0x3d } = .ok CQx)
    (hRc : (R != 0) = false)
    (hc : (sgn != 0 && decide (UInt32.ofInt (toI m) - 1 < 2)) = true)
    (h9 : RoundingMode.fromU32 (3 - UInt32.ofInt (toI m)) = .ok r)
    (hT : tbl128_2 Dec.Gen.BID_ROUND_CONST_TABLE_128 36 (UInt64.ofInt (toI r)) (UInt64.ofInt (toI ((1 : Int32) - e))) = .ok T)
    (h1 : add_carry_out T.w0 (CQx : U128).w0 = .ok (s1, c1))
    (hTP : tbl128 Dec.Gen.BID_RECIPROCALS10_128 (UInt64.ofInt (toI ((1 : Int32) - e))) = .ok TP)
    (h2 : mul_128x128_full { w0 := s1, w1 := (CQx : U128).w1 + T.w1 + c1 } TP = .ok (Qh, Ql))
    (ha : tblI32 Dec.Gen.BID_RECIP_SCALE (UInt64.ofInt (toI ((1 : Int32) - e))) = .ok amount)
    (h3 : shr_128 Qh amount = .ok Qs)
    (h4 : shl_128_long Qh ((0x80 : Int32) - amount) = .ok Qh1)
    (h5 : add_carry_out Ql.w0 TP.w0 = .ok (s2, c2))
    (h6 : add_carry_in_out Ql.w1 TP.w1 c2 = .ok (s3, c3))
    (h7 : shr_128_long Qh1 ((0x80 : Int32) - amount) = .ok Qh2)
    (h8 : shl_128_long { w0 := 1, w1 := 0 } amount = .ok Tmp1) :
    Dec.Gen.Code.bid_handle_UF_128_rem sgn e CQ R m f = .ok
      ({ w0 :=
            (if decide (amount ≥ 64) = true then
              if (m == RoundingMode.NearestEven && Qh.w1 >>> UInt64.ofInt (toI (amount - 64)) &&& 1 == 1) = true then
                if zeroB Qh1 Ql TP = true then Qh.w1 >>> UInt64.ofInt (toI (amount - 64)) - 1
                else Qh.w1 >>> UInt64.ofInt (toI (amount - 64))
              else Qh.w1 >>> UInt64.ofInt (toI (amount - 64))
            else
              if (m == RoundingMode.NearestEven && Qs.w0 &&& 1 == 1) = true then
                if zeroB Qh1 Ql TP = true then Qs.w0 - 1 else Qs.w0
              else Qs.w0),
           w1 := (if decide (amount ≥ 64) = true then sgn ||| 0 else sgn ||| Qs.w1) },
       (if (f &&& c_StatusFlags_BID_INEXACT_EXCEPTION == c_StatusFlags_BID_INEXACT_EXCEPTION) = true then
          f ||| c_StatusFlags_BID_UNDERFLOW_EXCEPTION
        else
          if (r == RoundingMode.NearestEven || r == RoundingMode.NearestAway) = true then
            if halfB Qh1 Ql TP = true then f
            else f ||| (c_StatusFlags_BID_UNDERFLOW_EXCEPTION ||| c_StatusFlags_BID_INEXACT_EXCEPTION)
          else
            if (r == RoundingMode.Downward || r == RoundingMode.TowardZero) = true then
              if zeroB Qh1 Ql TP = true then f
              else f ||| (c_StatusFlags_BID_UNDERFLOW_EXCEPTION ||| c_StatusFlags_BID_INEXACT_EXCEPTION)
            else
              if decide (Qh2.w0 + c3 < c3) = true then
                if PackH.ge_128 (pr { w0 := Qh2.w0 + c3, w1 := Qh2.w1 + 1 }) (pr Tmp1) = true then f
                else f ||| (c_StatusFlags_BID_UNDERFLOW_EXCEPTION ||| c_StatusFlags_BID_INEXACT_EXCEPTION)
              else
                if PackH.ge_128 (pr { w0 := Qh2.w0 + c3, w1 := Qh2.w1 }) (pr Tmp1) = true then f
                else f ||| (c_StatusFlags_BID_UNDERFLOW_EXCEPTION ||| c_StatusFlags_BID_INEXACT_EXCEPTION))) := by
  unfold Dec.Gen.Code.bid_handle_UF_128_rem
  simp only [bind, Except.bind, pure, Except.pure, set_status_flags, is_inexact, ge_bridge, hdc, hx, hRc, hc, h9, hT,
    h1, hTP, h2, ha, h3, h4, h5, h6, h7, h8, ok_ite, st1, st2, Bool.false_eq_true, if_false, if_true, ite_prod,
    ite_u128, ite_self]

set_option maxHeartbeats 1000000 in
/-- the translated `bid_handle_UF_128_rem` in normal form: `R = 0`, mode not swapped -/
theorem rem_norm_nn (sgn : UInt64) (e : Int32) (CQ : U128) (R : UInt64) (m : RoundingMode) (f : UInt32) 
    (CQx T TP : U128) (amount : Int32) (s1 c1 : UInt64) (Qh Ql Qs Qh1 : U128) (s2 c2 s3 c3 : UInt64) (Qh2 Tmp1 : U128)
    (hdc : decide (e + Int32.ofInt (toI c_MAX_FORMAT_DIGITS_128) < 0) = false)
    (hx : add_128_128 { w0 := CQ.w0 <<< 1, w1 := CQ.w1 <<< 1 ||| CQ.w0 >>> 0x3f }
      { w0 := CQ.w0 <<< 3, w1 := CQ.w1 <<< 3 ||| CQ.w0 >>> 0x3d } = .ok CQx)
    (hRc : (R != 0) = false)
    (hc : (sgn != 0 && decide (UInt32.ofInt (toI m) - 1 < 2)) = false)
    (hT : tbl128_2 Dec.Gen.BID_ROUND_CONST_TABLE_128 36 (UInt64.ofInt (toI m)) (UInt64.ofInt (toI ((1 : Int32) - e))) = .ok T)
    (h1 : add_carry_out T.w0 (CQx : U128).w0 = .ok (s1, c1))
    (hTP : tbl128 Dec.Gen.BID_RECIPROCALS10_128 (UInt64.ofInt (toI ((1 : Int32) - e))) = .ok TP)
    (h2 : mul_128x128_full { w0 := s1, w1 := (CQx : U128).w1 + T.w1 + c1 } TP = .ok (Qh, Ql))
    (ha : tblI32 Dec.Gen.BID_RECIP_SCALE (UInt64.ofInt (toI ((1 : Int32) - e))) = .ok amount)
    (h3 : shr_128 Qh amount = .ok Qs)
    (h4 : shl_128_long Qh ((0x80 : Int32) - amount) = .ok Qh1)
    (h5 : add_carry_out Ql.w0 TP.w0 = .ok (s2, c2))
    (h6 : add_carry_in_out Ql.w1 TP.w1 c2 = .ok (s3, c3))
    (h7 : shr_128_long Qh1 ((0x80 : Int32) - amount) = .ok Qh2)
    (h8 : shl_128_long { w0 := 1, w1 := 0 } amount = .ok Tmp1) :
    Dec.Gen.Code.bid_handle_UF_128_rem sgn e CQ R m f = .ok
      ({ w0 :=
            (if decide (amount ≥ 64) = true then
              if (m == RoundingMode.NearestEven && Qh.w1 >>> UInt64.ofInt (toI (amount - 64)) &&& 1 == 1) = true then
                if zeroB Qh1 Ql TP = true then Qh.w1 >>> UInt64.ofInt (toI (amount - 64)) - 1
                else Qh.w1 >>> UInt64.ofInt (toI (amount - 64))
              else Qh.w1 >>> UInt64.ofInt (toI (amount - 64))
            else
              if (m == RoundingMode.NearestEven && Qs.w0 &&& 1 == 1) = true then
                if zeroB Qh1 Ql TP = true then Qs.w0 - 1 else Qs.w0
              else Qs.w0),
           w1 := (if decide (amount ≥ 64) = true then sgn ||| 0 else sgn ||| Qs.w1) },
       (if (f &&& c_StatusFlags_BID_INEXACT_EXCEPTION == c_StatusFlags_BID_INEXACT_EXCEPTION) = true then
          f ||| c_StatusFlags_BID_UNDERFLOW_EXCEPTION
        else
          if (m == RoundingMode.NearestEven || m == RoundingMode.NearestAway) = true then
            if halfB Qh1 Ql TP = true then f
            else f ||| (c_StatusFlags_BID_UNDERFLOW_EXCEPTION ||| c_StatusFlags_BID_INEXACT_EXCEPTION)
          else
            if (m == RoundingMode.Downward || m == RoundingMode.TowardZero) = true then
              if zeroB Qh1 Ql TP = true then f
              else f ||| (c_StatusFlags_BID_UNDERFLOW_EXCEPTION ||| c_StatusFlags_BID_INEXACT_EXCEPTION)
            else
              if decide (Qh2.w0 + c3 < c3) = true then
                if PackH.ge_128 (pr { w0 := Qh2.w0 + c3, w1 := Qh2.w1 + 1 }) (pr Tmp1) = true then f
                else f ||| (c_StatusFlags_BID_UNDERFLOW_EXCEPTION ||| c_StatusFlags_BID_INEXACT_EXCEPTION)
              else
                if PackH.ge_128 (pr { w0 := Qh2.w0 + c3, w1 := Qh2.w1 }) (pr Tmp1) = true then f
                else f ||| (c_StatusFlags_BID_UNDERFLOW_EXCEPTION ||| c_StatusFlags_BID_INEXACT_EXCEPTION))) := by
  unfold Dec.Gen.Code.bid_handle_UF_128_rem
  simp only [bind, Except.bind, pure, Except.pure, set_status_flags, is_inexact, ge_bridge, hdc, hx, hRc, hc, hT,
    h1, hTP, h2, ha, h3, h4, h5, h6, h7, h8, ok_ite, st1, st2, Bool.false_eq_true, if_false, if_true, ite_prod,
    ite_u128, ite_self]

set_option maxHeartbeats 1000000 in
/-- the translated `bid_handle_UF_128_rem` in normal form: `R ≠ 0`, mode swapped -/
theorem rem_norm_rs (sgn : UInt64) (e : Int32) (CQ : U128) (R : UInt64) (m : RoundingMode) (f : UInt32) (r : RoundingMode) 
    (CQx T TP : U128) (amount : Int32) (s1 c1 : UInt64) (Qh Ql Qs Qh1 : U128) (s2 c2 s3 c3 : UInt64) (Qh2 Tmp1 : U128)
    (hdc : decide (e + Int32.ofInt (toI c_MAX_FORMAT_DIGITS_128) < 0) = false)
    (hx : add_128_128 { w0 := CQ.w0 <<< 1, w1 := CQ.w1 <<< 1 ||| CQ.w0 >>> 0x3f }
      { w0 := CQ.w0 <<< 3, w1 := CQ.w1 <<< 3 ||| CQ.w0 >>> 0x3d } = .ok CQx)
    (hRc : (R != 0) = true)
    (hc : (sgn != 0 && decide (UInt32.ofInt (toI m) - 1 < 2)) = true)
    (h9 : RoundingMode.fromU32 (3 - UInt32.ofInt (toI m)) = .ok r)
    (hT : tbl128_2 Dec.Gen.BID_ROUND_CONST_TABLE_128 36 (UInt64.ofInt (toI r)) (UInt64.ofInt (toI ((1 : Int32) - e))) = .ok T)
    (h1 : add_carry_out T.w0 ({ w0 := CQx.w0 ||| 1, w1 := CQx.w1 } : U128).w0 = .ok (s1, c1))
    (hTP : tbl128 Dec.Gen.BID_RECIPROCALS10_128 (UInt64.ofInt (toI ((1 : Int32) - e))) = .ok TP)
    (h2 : mul_128x128_full { w0 := s1, w1 := ({ w0 := CQx.w0 ||| 1, w1 := CQx.w1 } : U128).w1 + T.w1 + c1 } TP = .ok (Qh, Ql))
    (ha : tblI32 Dec.Gen.BID_RECIP_SCALE (UInt64.ofInt (toI ((1 : Int32) - e))) = .ok amount)
    (h3 : shr_128 Qh amount = .ok Qs)
    (h4 : shl_128_long Qh ((0x80 : Int32) - amount) = .ok Qh1)
    (h5 : add_carry_out Ql.w0 TP.w0 = .ok (s2, c2))
    (h6 : add_carry_in_out Ql.w1 TP.w1 c2 = .ok (s3, c3))
    (h7 : shr_128_long Qh1 ((0x80 : Int32) - amount) = .ok Qh2)
    (h8 : shl_128_long { w0 := 1, w1 := 0 } amount = .ok Tmp1) :
    Dec.Gen.Code.bid_handle_UF_128_rem sgn e CQ R m f = .ok
      ({ w0 :=
            (if decide (amount ≥ 64) = true then
              if (m == RoundingMode.NearestEven && Qh.w1 >>> UInt64.ofInt (toI (amount - 64)) &&& 1 == 1) = true then
                if zeroB Qh1 Ql TP = true then Qh.w1 >>> UInt64.ofInt (toI (amount - 64)) - 1
                else Qh.w1 >>> UInt64.ofInt (toI (amount - 64))
              else Qh.w1 >>> UInt64.ofInt (toI (amount - 64))
            else
              if (m == RoundingMode.NearestEven && Qs.w0 &&& 1 == 1) = true then
                if zeroB Qh1 Ql TP = true then Qs.w0 - 1 else Qs.w0
              else Qs.w0),
           w1 := (if decide (amount ≥ 64) = true then sgn ||| 0 else sgn ||| Qs.w1) },
       (if (f &&& c_StatusFlags_BID_INEXACT_EXCEPTION == c_StatusFlags_BID_INEXACT_EXCEPTION) = true then
          f ||| c_StatusFlags_BID_UNDERFLOW_EXCEPTION
        else
          if (r == RoundingMode.NearestEven || r == RoundingMode.NearestAway) = true then
            if halfB Qh1 Ql TP = true then f
            else f ||| (c_StatusFlags_BID_UNDERFLOW_EXCEPTION ||| c_StatusFlags_BID_INEXACT_EXCEPTION)
          else
            if (r == RoundingMode.Downward || r == RoundingMode.TowardZero) = true then
              if zeroB Qh1 Ql TP = true then f
              else f ||| (c_StatusFlags_BID_UNDERFLOW_EXCEPTION ||| c_StatusFlags_BID_INEXACT_EXCEPTION)
            else
              if decide (Qh2.w0 + c3 < c3) = true then
                if PackH.ge_128 (pr { w0 := Qh2.w0 + c3, w1 := Qh2.w1 + 1 }) (pr Tmp1) = true then f
                else f ||| (c_StatusFlags_BID_UNDERFLOW_EXCEPTION ||| c_StatusFlags_BID_INEXACT_EXCEPTION)
              else
                if PackH.ge_128 (pr { w0 := Qh2.w0 + c3, w1 := Qh2.w1 }) (pr Tmp1) = true then f
                else f ||| (c_StatusFlags_BID_UNDERFLOW_EXCEPTION ||| c_StatusFlags_BID_INEXACT_EXCEPTION))) := by
  unfold Dec.Gen.Code.bid_handle_UF_128_rem
  simp only [bind, Except.bind, pure, Except.pure, set_status_flags, is_inexact, ge_bridge, hdc, hx, hRc, hc, h9, hT,
    h1, hTP, h2, ha, h3, h4, h5, h6, h7, h8, ok_ite, st1, st2, Bool.false_eq_true, if_false, if_true, ite_prod,
    ite_u128, ite_self]

set_option maxHeartbeats 1000000 in
/-- the translated `bid_handle_UF_128_rem` in normal form: `R ≠ 0`, mode not swapped -/
theorem rem_norm_rn (sgn : UInt64) (e : Int32) (CQ : U128) (R : UInt64) (m : RoundingMode) (f : UInt32) 
    (CQx T TP : U128) (amount : Int32) (s1 c1 : UInt64) (Qh Ql Qs Qh1 : U128) (s2 c2 s3 c3 : UInt64) (Qh2 Tmp1 : U128)
    (hdc : decide (e + Int32.ofInt (toI c_MAX_FORMAT_DIGITS_128) < 0) = false)
    (hx : add_128_128 { w0 := CQ.w0 <<< 1, w1 := CQ.w1 <<< 1 ||| CQ.w0 >>> 0x3f }
      { w0 := CQ.w0 <<< 3, w1 := CQ.w1 <<< 3 ||| CQ.w0 >>> 0x3d } = .ok CQx)
    (hRc : (R != 0) = true)
    (hc : (sgn != 0 && decide (UInt32.ofInt (toI m) - 1 < 2)) = false)
    (hT : tbl128_2 Dec.Gen.BID_ROUND_CONST_TABLE_128 36 (UInt64.ofInt (toI m)) (UInt64.ofInt (toI ((1 : Int32) - e))) = .ok T)
    (h1 : add_carry_out T.w0 ({ w0 := CQx.w0 ||| 1, w1 := CQx.w1 } : U128).w0 = .ok (s1, c1))
    (hTP : tbl128 Dec.Gen.BID_RECIPROCALS10_128 (UInt64.ofInt (toI ((1 : Int32) - e))) = .ok TP)
    (h2 : mul_128x128_full { w0 := s1, w1 := ({ w0 := CQx.w0 ||| 1, w1 := CQx.w1 } : U128).w1 + T.w1 + c1 } TP = .ok (Qh, Ql))
    (ha : tblI32 Dec.Gen.BID_RECIP_SCALE (UInt64.ofInt (toI ((1 : Int32) - e))) = .ok amount)
    (h3 : shr_128 Qh amount = .ok Qs)
    (h4 : shl_128_long Qh ((0x80 : Int32) - amount) = .ok Qh1)
    (h5 : add_carry_out Ql.w0 TP.w0 = .ok (s2, c2))
    (h6 : add_carry_in_out Ql.w1 TP.w1 c2 = .ok (s3, c3))
    (h7 : shr_128_long Qh1 ((0x80 : Int32) - amount) = .ok Qh2)
    (h8 : shl_128_long { w0 := 1, w1 := 0 } amount = .ok Tmp1) :
    Dec.Gen.Code.bid_handle_UF_128_rem sgn e CQ R m f = .ok
      ({ w0 :=
            (if decide (amount ≥ 64) = true then
              if (m == RoundingMode.NearestEven && Qh.w1 >>> UInt64.ofInt (toI (amount - 64)) &&& 1 == 1) = true then
                if zeroB Qh1 Ql TP = true then Qh.w1 >>> UInt64.ofInt (toI (amount - 64)) - 1
                else Qh.w1 >>> UInt64.ofInt (toI (amount - 64))
              else Qh.w1 >>> UInt64.ofInt (toI (amount - 64))
            else
              if (m == RoundingMode.NearestEven && Qs.w0 &&& 1 == 1) = true then
                if zeroB Qh1 Ql TP = true then Qs.w0 - 1 else Qs.w0
              else Qs.w0),
           w1 := (if decide (amount ≥ 64) = true then sgn ||| 0 else sgn ||| Qs.w1) },
       (if (f &&& c_StatusFlags_BID_INEXACT_EXCEPTION == c_StatusFlags_BID_INEXACT_EXCEPTION) = true then
          f ||| c_StatusFlags_BID_UNDERFLOW_EXCEPTION
        else
          if (m == RoundingMode.NearestEven || m == RoundingMode.NearestAway) = true then
            if halfB Qh1 Ql TP = true then f
            else f ||| (c_StatusFlags_BID_UNDERFLOW_EXCEPTION ||| c_StatusFlags_BID_INEXACT_EXCEPTION)
          else
            if (m == RoundingMode.Downward || m == RoundingMode.TowardZero) = true then
              if zeroB Qh1 Ql TP = true then f
              else f ||| (c_StatusFlags_BID_UNDERFLOW_EXCEPTION ||| c_StatusFlags_BID_INEXACT_EXCEPTION)
            else
              if decide (Qh2.w0 + c3 < c3) = true then
                if PackH.ge_128 (pr { w0 := Qh2.w0 + c3, w1 := Qh2.w1 + 1 }) (pr Tmp1) = true then f
                else f ||| (c_StatusFlags_BID_UNDERFLOW_EXCEPTION ||| c_StatusFlags_BID_INEXACT_EXCEPTION)
              else
                if PackH.ge_128 (pr { w0 := Qh2.w0 + c3, w1 := Qh2.w1 }) (pr Tmp1) = true then f
                else f ||| (c_StatusFlags_BID_UNDERFLOW_EXCEPTION ||| c_StatusFlags_BID_INEXACT_EXCEPTION))) := by
  unfold Dec.Gen.Code.bid_handle_UF_128_rem
  simp only [bind, Except.bind, pure, Except.pure, set_status_flags, is_inexact, ge_bridge, hdc, hx, hRc, hc, hT,
    h1, hTP, h2, ha, h3, h4, h5, h6, h7, h8, ok_ite, st1, st2, Bool.false_eq_true, if_false, if_true, ite_prod,
    ite_u128, ite_self]

set_option maxHeartbeats 1000000 in
/-- **bridge**: wherever the model `PackH.handle_UF_128_rem` returns `some (p, q)` — every input except `2 ≤ expon < 2^31 − 34` — the translated `bid_handle_UF_128_rem` returns `.ok` with result words `p` and status word `q` -/
theorem handle_uf_rem_bridge (sgn : UInt64) (e : Int32) (CQ : U128) (R : UInt64) (m : RoundingMode) (f : UInt32)
    (p : PackH.U128) (q : Nat)
    (hm : PackH.handle_UF_128_rem sgn.toNat e.toInt (pr CQ) R.toNat (md m) f.toNat = some (p, q)) :
    ∃ res fl, Dec.Gen.Code.bid_handle_UF_128_rem sgn e CQ R m f = .ok (res, fl) ∧ pr res = p ∧ fl.toNat = q := by
  unfold PackH.handle_UF_128_rem at hm
  by_cases hd : PackH.wrapI32 (e.toInt + 34) < 0
  · rw [if_pos hd] at hm
    injection hm with hm
    have hdc : decide (e + Int32.ofInt (toI c_MAX_FORMAT_DIGITS_128) < 0) = true := by
      rw [deep_cond, decide_eq_true_eq]; exact hd
    unfold Dec.Gen.Code.bid_handle_UF_128_rem
    simp only [bind, Except.bind, pure, Except.pure, set_status_flags, hdc, if_true, ok_ite, ite_prod, ite_u128, ite_self]
    unfold PackH.ufDeep at hm
    simp only at hm
    injection hm with hp hq
    refine ⟨_, _, rfl, ?_, ?_⟩
    · rw [← hp]
      simp only [pr, deep_word, decide_eq_true_eq, apply_ite UInt64.toNat]
      rfl
    · rw [← hq]
      simp only [UInt32.toNat_or]
      rfl
  · rw [if_neg hd] at hm
    simp only at hm
    have hdc : decide (e + Int32.ofInt (toI c_MAX_FORMAT_DIGITS_128) < 0) = false := by
      rw [deep_cond, decide_eq_false_iff_not]; exact hd
    have hed2 : ((1 : Int32) - e).toInt = PackH.wrapI32 (1 - e.toInt) := by rw [i32_sub]; rfl
    rw [← hed2] at hm
    -- CQ *= 10
    obtain ⟨CQx, hx, ex⟩ := add_128_128_bridge { w0 := CQ.w0 <<< 1, w1 := CQ.w1 <<< 1 ||| CQ.w0 >>> 0x3f }
      { w0 := CQ.w0 <<< 3, w1 := CQ.w1 <<< 3 ||| CQ.w0 >>> 0x3d }
    have ex' : pr CQx = PackH.add_128_128 (PackH.shl64 (pr CQ).1 1, PackH.shl64 (pr CQ).2 1 ||| PackH.shr64 (pr CQ).1 63)
        (PackH.shl64 (pr CQ).1 3, PackH.shl64 (pr CQ).2 3 ||| PackH.shr64 (pr CQ).1 61) := by
      rw [ex]; simp only [pr, UInt64.toNat_or, shl1, shl3, shr63, shr61]
    rw [← ex'] at hm
    by_cases hR : R = 0
    · have hRn : ¬ R.toNat ≠ 0 := by rw [hR]; decide
      have hRc : (R != 0) = false := by rw [hR]; decide
      rw [if_neg hRn] at hm
      obtain ⟨r, T, TP, amount, s1, c1, Qh, Ql, Qs, Qh1, s2, c2, s3, c3, Qh2, Tmp1, hsw, hT, h1, hTP, h2, ha, h3, h4, h5,
        h6, h7, h8, hp, hq⟩ := tail_data sgn ((1 : Int32) - e) CQx m f p q hm
      rcases hsw with ⟨hc, h9⟩ | ⟨hc, rfl⟩
      · exact ⟨_, _, rem_norm_ns sgn e CQ R m f r CQx T TP amount s1 c1 Qh Ql Qs Qh1 s2 c2 s3 c3 Qh2 Tmp1 hdc hx hRc hc h9 hT h1 hTP h2 ha h3 h4 h5 h6 h7 h8, hp, hq⟩
      · exact ⟨_, _, rem_norm_nn sgn e CQ R r f CQx T TP amount s1 c1 Qh Ql Qs Qh1 s2 c2 s3 c3 Qh2 Tmp1 hdc hx hRc hc hT h1 hTP h2 ha h3 h4 h5 h6 h7 h8, hp, hq⟩
    · have hRn : R.toNat ≠ 0 := by rw [ne_eq, ← u64_eq_zero]; exact hR
      have hRc : (R != 0) = true := by rw [u64_ne_zero, decide_eq_true_eq]; exact hRn
      rw [if_pos hRn] at hm
      have e1' : pr { w0 := CQx.w0 ||| 1, w1 := CQx.w1 } = ((pr CQx).1 ||| 1, (pr CQx).2) := by
        simp only [pr, UInt64.toNat_or]; rfl
      rw [← e1'] at hm
      obtain ⟨r, T, TP, amount, s1, c1, Qh, Ql, Qs, Qh1, s2, c2, s3, c3, Qh2, Tmp1, hsw, hT, h1, hTP, h2, ha, h3, h4, h5,
        h6, h7, h8, hp, hq⟩ := tail_data sgn ((1 : Int32) - e) { w0 := CQx.w0 ||| 1, w1 := CQx.w1 } m f p q hm
      rcases hsw with ⟨hc, h9⟩ | ⟨hc, rfl⟩
      · exact ⟨_, _, rem_norm_rs sgn e CQ R m f r CQx T TP amount s1 c1 Qh Ql Qs Qh1 s2 c2 s3 c3 Qh2 Tmp1 hdc hx hRc hc h9 hT h1 hTP h2 ha h3 h4 h5 h6 h7 h8, hp, hq⟩
      · exact ⟨_, _, rem_norm_rn sgn e CQ R r f CQx T TP amount s1 c1 Qh Ql Qs Qh1 s2 c2 s3 c3 Qh2 Tmp1 hdc hx hRc hc hT h1 hTP h2 ha h3 h4 h5 h6 h7 h8, hp, hq⟩

/-- **`handle_UF_128` (translated source), decoded**: sign word 0 / 2^63, `expon ≤ −1` (any negative `i32`), coefficient
`C ≤ 10^34` (non-zero unless `expon ≥ −34`), any mode, any status word: never panics; the result is the canonical
encoding of `(−1)^s · mm · 10^−6176` with `mm` the correct rounding of `C / 10^(−expon)`; the status word is `ufFlags`
(underflow alone if inexact was already set — the D4 dependence —, else underflow and inexact iff inexact). -/
theorem handle_uf_decode (sgn : UInt64) (e : Int32) (CQ : U128) (m : RoundingMode) (f : UInt32)
    (hs : sgn = 0 ∨ sgn = 0x8000000000000000) (he : e.toInt ≤ -1) (hC : bitsOf CQ ≤ 10 ^ 34)
    (hdom : bitsOf CQ ≠ 0 ∨ -34 ≤ e.toInt) :
    ∃ res fl mm, Dec.Gen.Code.handle_UF_128 sgn e CQ m f = .ok (res, fl) ∧
      fl.toNat = ufFlags f.toNat (decide (bitsOf CQ % 10 ^ (-e.toInt).toNat = 0)) ∧
      RoundedInt (md m) (decide (sgn ≠ 0)) (bitsOf CQ) (10 ^ (-e.toInt).toNat) mm ∧
      bitsOf res = encode (.fin (decide (sgn ≠ 0)) mm eMin) ∧
      decode (bitsOf res) = .fin (decide (sgn ≠ 0)) mm eMin := by
  obtain ⟨hs', hd⟩ := sgn_cases sgn hs
  rw [bitsOf_eq CQ] at hC hdom ⊢
  obtain ⟨r, mm, hmod, hround, hbits, hdec⟩ := C13PackHelpers.handle_uf_decode sgn.toNat e.toInt CQ.w0.toNat CQ.w1.toNat
    (md m) f.toNat hs' e.le_toInt he CQ.w0.toNat_lt CQ.w1.toNat_lt hC hdom
  obtain ⟨res, fl, hcode, hp, hq⟩ := handle_uf_bridge sgn e CQ m f _ _ hmod
  rw [hd] at hround hbits hdec
  refine ⟨res, fl, mm, hcode, hq, hround, ?_, ?_⟩
  · rw [← hp] at hbits; exact hbits
  · rw [← hp] at hdec; exact hdec

/-- **`bid_handle_UF_128_rem` (translated source) is `finish` on the exact quotient**: the call the division makes —
34-digit truncated quotient `CQ < 10^34`, non-zero remainder `R`, `expon ≤ −1`, status word clear or holding only the
inexact just raised.  If the exact quotient is `(CQ·Y + ρ)/Y` with `0 < ρ < Y`: never panics, returns underflow|inexact
and a pattern with (decoded pattern, flags) = `finish mode sign (CQ·Y + ρ) Y (expon − 6176) pref` for every `pref`. -/
theorem handle_uf_rem_eq_finish (sgn : UInt64) (e : Int32) (CQ : U128) (R : UInt64) (m : RoundingMode) (f : UInt32)
    (Y ρ : Nat) (pref : Int)
    (hs : sgn = 0 ∨ sgn = 0x8000000000000000) (hf : f = 0 ∨ f = c_StatusFlags_BID_INEXACT_EXCEPTION)
    (he : e.toInt ≤ -1) (hC : bitsOf CQ < 10 ^ 34) (hR : R ≠ 0) (hρ0 : 0 < ρ) (hρ : ρ < Y) :
    ∃ res fl, Dec.Gen.Code.bid_handle_UF_128_rem sgn e CQ R m f = .ok (res, fl) ∧
      fl.toNat = fUnderflow ||| fInexact ∧
      (decode (bitsOf res), fUnderflow ||| fInexact)
        = finish (md m) (decide (sgn ≠ 0)) (bitsOf CQ * Y + ρ) Y (e.toInt - 6176) pref := by
  obtain ⟨hs', hd⟩ := sgn_cases sgn hs
  rw [bitsOf_eq CQ] at hC ⊢
  have hf' : f.toNat = 0 ∨ f.toNat = fInexact := by
    rcases hf with rfl | rfl
    · exact Or.inl rfl
    · exact Or.inr (by decide)
  have hR' : R.toNat ≠ 0 := by rw [ne_eq, ← u64_eq_zero]; exact hR
  obtain ⟨r, hmod, hfin⟩ := C13PackHelpers.handle_uf_rem_eq_finish sgn.toNat e.toInt CQ.w0.toNat CQ.w1.toNat R.toNat (md m)
    f.toNat Y ρ pref hs' hf' e.le_toInt he CQ.w0.toNat_lt CQ.w1.toNat_lt hC hR' hρ0 hρ
  obtain ⟨res, fl, hcode, hp, hq⟩ := handle_uf_rem_bridge sgn e CQ R m f _ _ hmod
  rw [hd] at hfin
  refine ⟨res, fl, hcode, hq, ?_⟩
  rw [← hp] at hfin; exact hfin

/-- **`bid_handle_UF_128_rem` (translated source), general form**: `expon ≤ 0`, `CQ < 10^34` (not both `CQ` and `R` zero when
`expon < −34`): with `C10 = 10·CQ + [R ≠ 0]` and `x = 1 − expon`, the result words are `roundInt` of `C10 / 10^x` under the
sign word, the status word is `ufFlags`. -/
theorem handle_uf_rem_spec (sgn : UInt64) (e : Int32) (CQ : U128) (R : UInt64) (m : RoundingMode) (f : UInt32)
    (he : e.toInt ≤ 0) (hC : bitsOf CQ < 10 ^ 34) (hdom : bitsOf CQ ≠ 0 ∨ R ≠ 0 ∨ -34 ≤ e.toInt) :
    let C10 := 10 * bitsOf CQ + (if R ≠ 0 then 1 else 0)
    let x := (1 - e.toInt).toNat
    let mm := roundInt (md m) (decide (sgn ≠ 0)) (C10 / 10 ^ x) (C10 % 10 ^ x) (10 ^ x)
    ∃ res fl, Dec.Gen.Code.bid_handle_UF_128_rem sgn e CQ R m f = .ok (res, fl) ∧
      pr res = (mm % 2 ^ 64, sgn.toNat ||| mm / 2 ^ 64) ∧ fl.toNat = ufFlags f.toNat (decide (C10 % 10 ^ x = 0)) := by
  intro C10 x mm
  have hsg : decide (sgn.toNat ≠ 0) = decide (sgn ≠ 0) := by
    rw [Bool.eq_iff_iff]; simp [u64_eq_zero]
  have hRi : (if R.toNat ≠ 0 then 1 else 0) = (if R ≠ 0 then 1 else 0 : Nat) := by
    by_cases h : R = 0
    · rw [h]; rfl
    · rw [if_pos h, if_pos (by rw [ne_eq, ← u64_eq_zero]; exact h)]
  have hdom' : CQ.w0.toNat + 2 ^ 64 * CQ.w1.toNat ≠ 0 ∨ R.toNat ≠ 0 ∨ -34 ≤ e.toInt := by
    rw [← bitsOf_eq]
    rcases hdom with h | h | h
    · exact Or.inl h
    · exact Or.inr (Or.inl (by rw [ne_eq, ← u64_eq_zero]; exact h))
    · exact Or.inr (Or.inr h)
  have hmod := C13PackHelpers.handle_uf_rem_spec sgn.toNat e.toInt CQ.w0.toNat CQ.w1.toNat R.toNat (md m) f.toNat
    e.le_toInt he CQ.w0.toNat_lt CQ.w1.toNat_lt (by rw [← bitsOf_eq]; exact hC) hdom'
  rw [hsg, hRi, ← bitsOf_eq] at hmod
  obtain ⟨res, fl, hcode, hp, hq⟩ := handle_uf_rem_bridge sgn e CQ R m f _ _ hmod
  exact ⟨res, fl, hcode, hp, hq⟩

/-! ## 7. `bid_get_BID128` -/

/-- a `for _ in [0:n]` loop standing for a `while`: `n` turns at most of `while cont s { s = next s }` -/
def whileIter {σ} (cont : σ → Bool) (next : σ → σ) : Nat → σ → σ
  | 0, s => s
  | k + 1, s => if cont s then whileIter cont next k (next s) else s

theorem forIn_list_except {σ α} (l : List α) (f : α → σ → Except String (ForInStep σ)) (cont : σ → Bool) (next : σ → σ)
    (hf : ∀ x s, f x s = .ok (if cont s then ForInStep.yield (next s) else ForInStep.done s)) :
    ∀ s, forIn l s f = .ok (whileIter cont next l.length s) := by
  induction l with
  | nil => intro s; rfl
  | cons a t ih =>
    intro s
    rw [List.forIn_cons, hf]
    simp only [bind, Except.bind, List.length_cons, whileIter]
    by_cases h : cont s
    · simp only [h, if_true]; exact ih _
    · simp only [h, Bool.false_eq_true, if_false]; rfl

/-- `for _ in [0:n]` over `Except` with a body that is one turn of a `while` -/
theorem forIn_range_except {σ} (n : Nat) (f : Nat → σ → Except String (ForInStep σ)) (cont : σ → Bool) (next : σ → σ)
    (hf : ∀ x s, f x s = .ok (if cont s then ForInStep.yield (next s) else ForInStep.done s)) (s : σ) :
    forIn [:n] s f = .ok (whileIter cont next n s) := by
  rw [Std.Legacy.Range.forIn_eq_forIn_range', forIn_list_except _ f cont next hf]
  simp [Std.Legacy.Range.size]

/-- `__unsigned_compare_gt_128`, translated = model -/
theorem gt_bridge (A B : U128) : unsigned_compare_gt_128 A B = .ok (Dec.PackH.gt_128 (pr A) (pr B)) := by
  unfold unsigned_compare_gt_128 Dec.PackH.gt_128 pr
  simp only [pure, Except.pure, gt_iff_lt, UInt64.lt_iff_toNat_lt]
  congr 2
  rw [Bool.eq_iff_iff]; simp [← UInt64.toNat_inj]

/-- the loop body `coeff *= 10` of `bid_get_BID128` as translated -/
def times10C (c : U128) : U128 :=
  let c1 : U128 := { w0 := c.w0, w1 := c.w1 <<< 3 + c.w1 <<< 1 + c.w0 >>> 61 + c.w0 >>> 63 }
  let tmp2 := c1.w0 <<< 3
  let c2 : U128 := { w0 := c1.w0 <<< 1 + tmp2, w1 := c1.w1 }
  if decide (c2.w0 < tmp2) = true then { w0 := c2.w0, w1 := c2.w1 + 1 } else c2

theorem times10C_eq (c : U128) : pr (times10C c) = PackH.loopTimes10 (pr c) := by
  unfold times10C PackH.loopTimes10
  have a1 : ∀ t : UInt64, (t >>> (61 : UInt64)).toNat = PackH.shr64 t.toNat 61 := shr61
  have a2 : ∀ t : UInt64, (t >>> (63 : UInt64)).toNat = PackH.shr64 t.toNat 63 := shr63
  have one : (1 : UInt64).toNat = 1 := by decide
  simp only
  by_cases h : c.w0 <<< 1 + c.w0 <<< 3 < c.w0 <<< 3
  · have h' : PackH.add64 (PackH.shl64 c.w0.toNat 1) (PackH.shl64 c.w0.toNat 3) < PackH.shl64 c.w0.toNat 3 := by
      rw [← shl1, ← shl3, ← u64_add]; exact UInt64.lt_iff_toNat_lt.1 h
    simp only [h, decide_true, if_true, pr, h', u64_add, shl1, shl3, a1, a2, one]
  · have h' : ¬ PackH.add64 (PackH.shl64 c.w0.toNat 1) (PackH.shl64 c.w0.toNat 3) < PackH.shl64 c.w0.toNat 3 := by
      rw [← shl1, ← shl3, ← u64_add]; exact fun hh => h (UInt64.lt_iff_toNat_lt.2 hh)
    simp only [h, decide_false, Bool.false_eq_true, if_false, pr, h', u64_add, shl1, shl3, a1, a2]

theorem max_toInt : c_DECIMAL_MAX_EXPON_128.toInt = 12287 := by decide

/-- the loop condition and step of the translated `bid_get_BID128` -/
def loopCont (T : U128) (s : Int32 × U128 × UInt64) : Bool :=
  PackH.gt_128 (pr T) (pr s.2.1) && decide (s.1 > c_DECIMAL_MAX_EXPON_128)
def loopNext (s : Int32 × U128 × UInt64) : Int32 × U128 × UInt64 := (s.1 - 1, times10C s.2.1, s.2.1.w0 <<< 3)

/-- the translated loop, run for `n` turns, is the model's `getLoop n` -/
theorem loop_model (T : U128) (hT : pr T = PackH.power10 33) (n : Nat) :
    ∀ (e : Int32) (c : U128) (t : UInt64),
      (pr (whileIter (loopCont T) loopNext n (e, c, t)).2.1, (whileIter (loopCont T) loopNext n (e, c, t)).1.toInt)
        = PackH.getLoop n (pr c) e.toInt := by
  induction n with
  | zero => intro e c t; rfl
  | succ k ih =>
    intro e c t
    unfold whileIter PackH.getLoop
    have hgt : (e > c_DECIMAL_MAX_EXPON_128) ↔ e.toInt > 12287 := by
      rw [gt_iff_lt, Int32.lt_iff_toInt_lt, max_toInt]
    by_cases h : PackH.gt_128 (PackH.power10 33) (pr c) = true ∧ e.toInt > 12287
    · have hc : loopCont T (e, c, t) = true := by
        unfold loopCont; rw [hT, Bool.and_eq_true, decide_eq_true_eq, hgt]; exact h
      rw [hc, if_pos rfl, if_pos h]
      have := ih (e - 1) (times10C c) (c.w0 <<< 3)
      have he : (e - 1).toInt = e.toInt - 1 := by
        rw [i32_sub]
        have : (1 : Int32).toInt = 1 := by decide
        rw [this, wrapI32_id _ (by omega) (by have := e.toInt_lt; omega)]
      rw [he, times10C_eq] at this
      exact this
    · have hc : loopCont T (e, c, t) = false := by
        unfold loopCont; rw [hT, Bool.and_eq_false_iff, decide_eq_false_iff_not, hgt]
        rcases not_and_or.1 h with h | h
        · exact Or.inl (by simpa using h)
        · exact Or.inr h
      rw [hc, if_neg (by decide), if_neg h]

/-- with enough fuel the model's loop does not depend on the fuel, and stops where the loop condition is false -/
theorem getLoop_stable (n : Nat) : ∀ (c : PackH.U128) (e : Int), e - 12287 ≤ n → ∀ m, n ≤ m →
    PackH.getLoop m c e = PackH.getLoop n c e ∧
      ¬ (PackH.gt_128 (PackH.power10 33) (PackH.getLoop n c e).1 = true ∧ (PackH.getLoop n c e).2 > 12287) := by
  induction n with
  | zero =>
    intro c e he m _
    have h0 : PackH.getLoop 0 c e = (c, e) := rfl
    rw [h0]
    refine ⟨?_, fun h => by simp only at h; omega⟩
    cases m with
    | zero => rfl
    | succ k => unfold PackH.getLoop; rw [if_neg (fun h => by omega)]
  | succ k ih =>
    intro c e he m hm
    obtain ⟨m', rfl⟩ : ∃ m', m = m' + 1 := ⟨m - 1, by omega⟩
    unfold PackH.getLoop
    by_cases h : PackH.gt_128 (PackH.power10 33) c = true ∧ e > 12287
    · rw [if_pos h, if_pos h]
      exact ih _ _ (by omega) m' (by omega)
    · rw [if_neg h, if_neg h]
      exact ⟨rfl, h⟩

/-- the `coeff == 10^34` normalisation of the translated `bid_get_BID128`: the call continues as a call with 10^33 and
`expon + 1` -/
theorem get_code_34 (sgn : UInt64) (e : Int32) (m : RoundingMode) (f : UInt32) :
    Dec.Gen.Code.bid_get_BID128 sgn e ⟨0x378d8e6400000000, 0x1ed09bead87c0⟩ m f
      = Dec.Gen.Code.bid_get_BID128 sgn (e + 1) ⟨0x38c15b0a00000000, 0x314dc6448d93⟩ m f := by
  unfold Dec.Gen.Code.bid_get_BID128
  have h1 : ((0x1ed09bead87c0 : UInt64) == 542101086242752 && (0x378d8e6400000000 : UInt64) == 4003012203950112768) = true := by
    decide
  have h2 : ((0x314dc6448d93 : UInt64) == 542101086242752 && (0x38c15b0a00000000 : UInt64) == 4003012203950112768) = false := by
    decide
  simp only [h1, h2, if_true, Bool.false_eq_true, if_false]

theorem get_model_34 (sgn : Nat) (e : Int) (mode : Mode) (f : Nat) :
    PackH.get_BID128 sgn e (0x378d8e6400000000, 0x0001ed09bead87c0) mode f
      = PackH.get_BID128 sgn (PackH.wrapI32 (e + 1)) (0x38c15b0a00000000, 0x0000314dc6448d93) mode f := by
  unfold PackH.get_BID128
  have h1 : ((0x378d8e6400000000, 0x0001ed09bead87c0) : PackH.U128).2 = 0x0001ed09bead87c0 ∧
      ((0x378d8e6400000000, 0x0001ed09bead87c0) : PackH.U128).1 = 0x378d8e6400000000 := ⟨rfl, rfl⟩
  have h2 : ¬ (((0x38c15b0a00000000, 0x0000314dc6448d93) : PackH.U128).2 = 0x0001ed09bead87c0 ∧
      ((0x38c15b0a00000000, 0x0000314dc6448d93) : PackH.U128).1 = 0x378d8e6400000000) := by decide
  rw [if_pos h1, if_neg h2]

theorem i32_nonneg (e : Int32) : decide (0 ≤ e) = decide (0 ≤ e.toInt) := by
  have : (0 : Int32) ≤ e ↔ 0 ≤ e.toInt := by rw [Int32.le_iff_toInt_le]; rfl
  rw [Bool.eq_iff_iff]; simp only [decide_eq_true_eq]; exact this
theorem i32_le_max (e : Int32) : decide (e ≤ c_DECIMAL_MAX_EXPON_128) = decide (e.toInt ≤ 12287) := by
  have : e ≤ c_DECIMAL_MAX_EXPON_128 ↔ e.toInt ≤ 12287 := by rw [Int32.le_iff_toInt_le, max_toInt]
  rw [Bool.eq_iff_iff]; simp only [decide_eq_true_eq]; exact this
theorem i32_neg (e : Int32) : decide (e < 0) = decide (e.toInt < 0) := by
  have : e < 0 ↔ e.toInt < 0 := by rw [Int32.lt_iff_toInt_lt]; rfl
  rw [Bool.eq_iff_iff]; simp only [decide_eq_true_eq]; exact this
theorem i32_gt_max (e : Int32) : decide (e > c_DECIMAL_MAX_EXPON_128) = decide (e.toInt > 12287) := by
  have : e > c_DECIMAL_MAX_EXPON_128 ↔ e.toInt > 12287 := by rw [gt_iff_lt, Int32.lt_iff_toInt_lt, max_toInt]
  rw [Bool.eq_iff_iff]; simp only [decide_eq_true_eq]; exact this

/-- the words of `coeff` are not those of 10^34 -/
def Not34 (c : U128) : Prop := ¬ (c.w1 = 0x1ed09bead87c0 ∧ c.w0 = 0x378d8e6400000000)

theorem not34_code (c : U128) (h : Not34 c) : (c.w1 == 542101086242752 && c.w0 == 4003012203950112768) = false := by
  rw [Bool.eq_false_iff]; intro hh; apply h; simpa using hh
theorem not34_model (c : U128) (h : Not34 c) :
    ¬ ((pr c).2 = 0x0001ed09bead87c0 ∧ (pr c).1 = 0x378d8e6400000000) := by
  intro hh; apply h
  constructor <;> rw [← UInt64.toNat_inj]
  · exact hh.1
  · exact hh.2

/-- in range -/
theorem get_bridge_in (sgn : UInt64) (e : Int32) (c : U128) (m : RoundingMode) (f : UInt32) (hn : Not34 c)
    (h0 : 0 ≤ e.toInt) (h1 : e.toInt ≤ 12287) (p : PackH.U128) (q : Nat)
    (hm : PackH.get_BID128 sgn.toNat e.toInt (pr c) (md m) f.toNat = some (p, q)) :
    ∃ res fl, Dec.Gen.Code.bid_get_BID128 sgn e c m f = .ok (res, fl) ∧ pr res = p ∧ fl.toNat = q := by
  unfold PackH.get_BID128 at hm
  rw [if_neg (not34_model c hn)] at hm
  simp only at hm
  rw [if_pos ⟨h0, h1⟩] at hm
  injection hm with hm
  injection hm with hp hq
  unfold Dec.Gen.Code.bid_get_BID128
  have hc : (!(decide (0 ≤ e) && decide (e ≤ c_DECIMAL_MAX_EXPON_128))) = false := by
    rw [i32_nonneg, i32_le_max]; simp [h0, h1]
  simp only [bind, Except.bind, pure, Except.pure, not34_code c hn, hc, Bool.false_eq_true, if_false]
  refine ⟨_, _, rfl, ?_, hq⟩
  rw [← hp]
  simp only [pr, UInt64.toNat_or, toNat_ofInt, toI]
  have : ∀ t : UInt64, (t <<< (49 : UInt64)).toNat = PackH.shl64 t.toNat 49 := shl49
  rw [this, toNat_ofInt]

/-- negative exponent: the call goes to `handle_UF_128` -/
theorem get_bridge_uf (sgn : UInt64) (e : Int32) (c : U128) (m : RoundingMode) (f : UInt32) (hn : Not34 c)
    (h0 : e.toInt < 0) (p : PackH.U128) (q : Nat)
    (hm : PackH.get_BID128 sgn.toNat e.toInt (pr c) (md m) f.toNat = some (p, q)) :
    ∃ res fl, Dec.Gen.Code.bid_get_BID128 sgn e c m f = .ok (res, fl) ∧ pr res = p ∧ fl.toNat = q := by
  unfold PackH.get_BID128 at hm
  rw [if_neg (not34_model c hn)] at hm
  simp only at hm
  rw [if_neg (by omega), if_pos h0] at hm
  obtain ⟨res, fl, hcode, hp, hq⟩ := handle_uf_bridge sgn e c m f p q hm
  unfold Dec.Gen.Code.bid_get_BID128
  have hc : (!(decide (0 ≤ e) && decide (e ≤ c_DECIMAL_MAX_EXPON_128))) = true := by
    rw [i32_nonneg, i32_le_max]; simp; omega
  have hc2 : decide (e < 0) = true := by rw [i32_neg, decide_eq_true_eq]; exact h0
  simp only [bind, Except.bind, pure, Except.pure, not34_code c hn, hc, hc2, if_true, Bool.false_eq_true, if_false, hcode]
  exact ⟨_, _, rfl, hp, hq⟩

/-- what `bid_get_BID128` delivers once the exponent is above the range and the padding loop is over -/
def finalM (sgn : Nat) (expon : Int) (coeff : PackH.U128) (mode : Mode) (fpsc : Nat) : PackH.U128 × Nat :=
  if expon > 12287 then
    if coeff.2 ||| coeff.1 = 0 then ((0, sgn ||| PackH.shl64 12287 49), fpsc)
    else if mode = .rtz ∨ (sgn ≠ 0 ∧ mode = .rup) ∨ (sgn = 0 ∧ mode = .rdn) then
      ((0x378d8e63ffffffff, sgn ||| 0x5fffed09bead87c0), fpsc ||| (fOverflow ||| fInexact))
    else ((0, sgn ||| 0x7800000000000000), fpsc ||| (fOverflow ||| fInexact))
  else ((coeff.1, sgn ||| PackH.shl64 (PackH.wordOfI32 expon) 49 ||| coeff.2), fpsc)

theorem model_final (sgn : Nat) (expon : Int) (c0 c1 : Nat) (mode : Mode) (fpsc : Nat) :
    (if expon > 12287 then
      if c1 ||| c0 = 0 then some ((0, sgn ||| PackH.shl64 12287 49), fpsc)
      else
        if mode = .rtz ∨ (sgn ≠ 0 ∧ mode = .rup) ∨ (sgn = 0 ∧ mode = .rdn) then
          some ((0x378d8e63ffffffff, sgn ||| 0x5fffed09bead87c0), fpsc ||| (fOverflow ||| fInexact))
        else some ((0, sgn ||| 0x7800000000000000), fpsc ||| (fOverflow ||| fInexact))
    else some ((c0, sgn ||| PackH.shl64 (PackH.wordOfI32 expon) 49 ||| c1), fpsc))
      = some (finalM sgn expon (c0, c1) mode fpsc) := by
  unfold finalM; split_ifs <;> rfl

theorem ovf_mode (sgn : UInt64) (m : RoundingMode) :
    (m == RoundingMode.TowardZero || sgn != 0 && m == RoundingMode.Upward || sgn == 0 && m == RoundingMode.Downward)
      = decide (md m = .rtz ∨ (sgn.toNat ≠ 0 ∧ md m = .rup) ∨ (sgn.toNat = 0 ∧ md m = .rdn)) := by
  rw [u64_ne_zero, u64_beq_zero, Bool.eq_iff_iff]
  cases m <;> simp [md]

/-- the normalised final expression of the translated `bid_get_BID128` has the model's value -/
theorem final_values (sgn : UInt64) (e : Int32) (c : U128) (m : RoundingMode) (f : UInt32) :
    (pr { w0 :=
            if decide (e > c_DECIMAL_MAX_EXPON_128) = true then
              if (c.w1 ||| c.w0 == 0) = true then 0
              else
                if (m == RoundingMode.TowardZero || sgn != 0 && m == RoundingMode.Upward ||
                      sgn == 0 && m == RoundingMode.Downward) = true then c_LARGEST_BID128_LOW
                else 0
            else c.w0,
          w1 :=
            if decide (e > c_DECIMAL_MAX_EXPON_128) = true then
              if (c.w1 ||| c.w0 == 0) = true then sgn ||| UInt64.ofInt (toI c_DECIMAL_MAX_EXPON_128) <<< 49
              else
                if (m == RoundingMode.TowardZero || sgn != 0 && m == RoundingMode.Upward ||
                      sgn == 0 && m == RoundingMode.Downward) = true then sgn ||| c_LARGEST_BID128_HIGH
                else sgn ||| c_INFINITY_MASK64
            else sgn ||| UInt64.ofInt (toI e) <<< 49 ||| c.w1 },
      (if decide (e > c_DECIMAL_MAX_EXPON_128) = true then
          if (c.w1 ||| c.w0 == 0) = true then f
          else f ||| (c_StatusFlags_BID_OVERFLOW_EXCEPTION ||| c_StatusFlags_BID_INEXACT_EXCEPTION)
        else f).toNat)
      = finalM sgn.toNat e.toInt (pr c) (md m) f.toNat := by
  unfold finalM
  rw [i32_gt_max, ovf_mode]
  have hz : (c.w1 ||| c.w0 == 0) = decide ((pr c).2 ||| (pr c).1 = 0) := by
    rw [u64_beq, UInt64.toNat_or, Bool.eq_iff_iff]; simp [pr]
  have hmax : (UInt64.ofInt (toI c_DECIMAL_MAX_EXPON_128) <<< (49 : UInt64)).toNat = PackH.shl64 12287 49 := by decide
  have hl : c_LARGEST_BID128_LOW.toNat = 0x378d8e63ffffffff := by decide
  have hh : c_LARGEST_BID128_HIGH.toNat = 0x5fffed09bead87c0 := by decide
  have hi : c_INFINITY_MASK64.toNat = 0x7800000000000000 := by decide
  have hfl : (f ||| (c_StatusFlags_BID_OVERFLOW_EXCEPTION ||| c_StatusFlags_BID_INEXACT_EXCEPTION)).toNat
      = f.toNat ||| (fOverflow ||| fInexact) := by
    rw [UInt32.toNat_or]; congr 1
  have h49 : ∀ t : UInt64, (t <<< (49 : UInt64)).toNat = PackH.shl64 t.toNat 49 := shl49
  rw [hz]
  by_cases h1 : e.toInt > 12287
  · simp only [h1, decide_true, if_true]
    by_cases h2 : (pr c).2 ||| (pr c).1 = 0
    · simp only [h2, decide_true, if_true, pr, UInt64.toNat_or, hmax, UInt64.toNat_zero]
    · simp only [h2, decide_false, Bool.false_eq_true, if_false]
      by_cases h3 : md m = .rtz ∨ (sgn.toNat ≠ 0 ∧ md m = .rup) ∨ (sgn.toNat = 0 ∧ md m = .rdn)
      · simp only [h3, decide_true, if_true, pr, UInt64.toNat_or, hl, hh, hfl]
      · simp only [h3, decide_false, Bool.false_eq_true, if_false, pr, UInt64.toNat_or, hi, hfl, UInt64.toNat_zero]
  · simp only [h1, decide_false, Bool.false_eq_true, if_false, pr, UInt64.toNat_or, h49, toNat_ofInt, toI]

/-- exponent above the range by more than 34: the padding loop is skipped -/
theorem get_bridge_ovf_noloop (sgn : UInt64) (e : Int32) (c : U128) (m : RoundingMode) (f : UInt32) (hn : Not34 c)
    (h0 : e.toInt > 12287) (hl : ¬ e.toInt - 34 ≤ 12287) (p : PackH.U128) (q : Nat)
    (hm : PackH.get_BID128 sgn.toNat e.toInt (pr c) (md m) f.toNat = some (p, q)) :
    ∃ res fl, Dec.Gen.Code.bid_get_BID128 sgn e c m f = .ok (res, fl) ∧ pr res = p ∧ fl.toNat = q := by
  unfold PackH.get_BID128 at hm
  rw [if_neg (not34_model c hn)] at hm
  simp only at hm
  rw [if_neg (by omega), if_neg (by omega), if_neg hl] at hm
  simp only at hm
  rw [model_final] at hm
  injection hm with hm
  unfold Dec.Gen.Code.bid_get_BID128
  have hc : (!(decide (0 ≤ e) && decide (e ≤ c_DECIMAL_MAX_EXPON_128))) = true := by
    rw [i32_nonneg, i32_le_max]; simp; omega
  have hc2 : decide (e < 0) = false := by rw [i32_neg, decide_eq_false_iff_not]; omega
  have h34 : (Int32.ofInt (toI c_MAX_FORMAT_DIGITS_128)).toInt = 34 := by decide
  have hc3 : decide (e - Int32.ofInt (toI c_MAX_FORMAT_DIGITS_128) ≤ c_DECIMAL_MAX_EXPON_128) = false := by
    rw [decide_eq_false_iff_not, Int32.le_iff_toInt_le, max_toInt, i32_sub, h34, wrapI32_id _ (by omega) (by have := e.toInt_lt; omega)]
    exact hl
  simp only [bind, Except.bind, pure, Except.pure, not34_code c hn, hc, hc2, hc3, if_true, Bool.false_eq_true, if_false,
    set_status_flags, ok_ite, ite_prod, ite_u128, ite_self]
  have := final_values sgn e c m f
  rw [hm] at this
  injection this with hp hq
  exact ⟨_, _, rfl, hp, hq⟩

/-- the body of the translated padding loop, in the form `simp` leaves it, is one turn of `while cont { next }` -/
theorem loop_body (T : U128) (s : Int32 × U128 × UInt64) :
    (if (!(PackH.gt_128 (pr T) (pr s.2.1) && decide (s.1 > c_DECIMAL_MAX_EXPON_128))) = true then
        (Except.ok (ForInStep.done (s.1, s.2.1, s.2.2)) : Except String _)
      else
        if decide (s.2.1.w0 <<< 1 + s.2.1.w0 <<< 3 < s.2.1.w0 <<< 3) = true then
          Except.ok (ForInStep.yield (s.1 - 1,
            { w0 := s.2.1.w0 <<< 1 + s.2.1.w0 <<< 3,
              w1 := s.2.1.w1 <<< 3 + s.2.1.w1 <<< 1 + s.2.1.w0 >>> 61 + s.2.1.w0 >>> 63 + 1 }, s.2.1.w0 <<< 3))
        else
          Except.ok (ForInStep.yield (s.1 - 1,
            { w0 := s.2.1.w0 <<< 1 + s.2.1.w0 <<< 3,
              w1 := s.2.1.w1 <<< 3 + s.2.1.w1 <<< 1 + s.2.1.w0 >>> 61 + s.2.1.w0 >>> 63 }, s.2.1.w0 <<< 3)))
      = .ok (if loopCont T s = true then ForInStep.yield (loopNext s) else ForInStep.done s) := by
  obtain ⟨e, c, t⟩ := s
  unfold loopCont loopNext times10C
  simp only
  cases h : (PackH.gt_128 (pr T) (pr c) && decide (e > c_DECIMAL_MAX_EXPON_128))
  · simp only [Bool.not_false, if_true, Bool.false_eq_true, if_false]
  · simp only [Bool.not_true, Bool.false_eq_true, if_false, if_true]
    split <;> rfl

set_option maxHeartbeats 1000000 in
/-- exponent above the range by at most 34: the `for _ in [0:4096]` loop is the model's `getLoop 34`, and its fuel is never exhausted -/
theorem get_bridge_ovf_loop (sgn : UInt64) (e : Int32) (c : U128) (m : RoundingMode) (f : UInt32) (hn : Not34 c)
    (h0 : e.toInt > 12287) (hl : e.toInt - 34 ≤ 12287) (p : PackH.U128) (q : Nat)
    (hm : PackH.get_BID128 sgn.toNat e.toInt (pr c) (md m) f.toNat = some (p, q)) :
    ∃ res fl, Dec.Gen.Code.bid_get_BID128 sgn e c m f = .ok (res, fl) ∧ pr res = p ∧ fl.toNat = q := by
  unfold PackH.get_BID128 at hm
  rw [if_neg (not34_model c hn)] at hm
  simp only at hm
  rw [if_neg (by omega), if_neg (by omega), if_pos hl] at hm
  rw [model_final] at hm
  injection hm with hm
  unfold Dec.Gen.Code.bid_get_BID128
  have hc : (!(decide (0 ≤ e) && decide (e ≤ c_DECIMAL_MAX_EXPON_128))) = true := by
    rw [i32_nonneg, i32_le_max]; simp; omega
  have hc2 : decide (e < 0) = false := by rw [i32_neg, decide_eq_false_iff_not]; omega
  have h34 : (Int32.ofInt (toI c_MAX_FORMAT_DIGITS_128)).toInt = 34 := by decide
  have hc3 : decide (e - Int32.ofInt (toI c_MAX_FORMAT_DIGITS_128) ≤ c_DECIMAL_MAX_EXPON_128) = true := by
    rw [decide_eq_true_eq, Int32.le_iff_toInt_le, max_toInt, i32_sub, h34, wrapI32_id _ (by omega) (by have := e.toInt_lt; omega)]
    exact hl
  obtain ⟨T, hTd⟩ : ∃ T : U128, T = ⟨UInt64.ofNat (Dec.PackH.power10 33).1, UInt64.ofNat (Dec.PackH.power10 33).2⟩ := ⟨_, rfl⟩
  have hT : tbl128 Gen.BID_POWER10_TABLE_128 (UInt64.ofInt (toI (c_MAX_FORMAT_DIGITS_128 - 1))) = .ok T := by
    rw [hTd]; rfl
  have hTp : pr T = PackH.power10 33 := by rw [hTd]; exact pr_t33
  simp only [bind, Except.bind, pure, Except.pure, not34_code c hn, hc, hc2, hc3, if_true, Bool.false_eq_true, if_false,
    set_status_flags, hT, gt_bridge]
  rw [forIn_range_except 4096 _ (loopCont T) loopNext (fun x s => loop_body T s)]
  -- the state after the loop
  have hmod := loop_model T hTp 4096 e c default
  obtain ⟨hst, hfix⟩ := getLoop_stable 34 (pr c) e.toInt (by omega) 4096 (by omega)
  rw [hst] at hmod
  generalize whileIter (loopCont T) loopNext 4096 (e, c, default) = st at hmod ⊢
  obtain ⟨e2, c2, t2⟩ := st
  simp only at hmod ⊢
  have h1 : (PackH.getLoop 34 (pr c) e.toInt).1 = pr c2 := by rw [← hmod]
  have h2 : (PackH.getLoop 34 (pr c) e.toInt).2 = e2.toInt := by rw [← hmod]
  rw [h1, h2] at hfix
  have hex : (PackH.gt_128 (pr T) (pr c2) && decide (e2 > c_DECIMAL_MAX_EXPON_128)) = false := by
    rw [hTp, i32_gt_max, Bool.and_eq_false_iff, decide_eq_false_iff_not]
    rcases not_and_or.1 hfix with h | h
    · exact Or.inl (by simpa using h)
    · exact Or.inr h
  simp only [hex, Bool.false_eq_true, if_false, ok_ite, ite_prod, ite_u128, ite_self]
  have := final_values sgn e2 c2 m f
  rw [show finalM sgn.toNat e2.toInt (pr c2) (md m) f.toNat = (p, q) from by
    rw [← hm, ← h2]
    have : pr c2 = ((PackH.getLoop 34 (pr c) e.toInt).1.1, (PackH.getLoop 34 (pr c) e.toInt).1.2) := by rw [h1]
    rw [this]] at this
  injection this with hp hq
  exact ⟨_, _, rfl, hp, hq⟩

/-- the four cases together, for a coefficient whose words are not those of 10^34 -/
theorem get_bridge_ne (sgn : UInt64) (e : Int32) (c : U128) (m : RoundingMode) (f : UInt32) (hn : Not34 c)
    (p : PackH.U128) (q : Nat)
    (hm : PackH.get_BID128 sgn.toNat e.toInt (pr c) (md m) f.toNat = some (p, q)) :
    ∃ res fl, Dec.Gen.Code.bid_get_BID128 sgn e c m f = .ok (res, fl) ∧ pr res = p ∧ fl.toNat = q := by
  by_cases h0 : e.toInt < 0
  · exact get_bridge_uf sgn e c m f hn h0 p q hm
  · by_cases h1 : e.toInt ≤ 12287
    · exact get_bridge_in sgn e c m f hn (by omega) h1 p q hm
    · by_cases hl : e.toInt - 34 ≤ 12287
      · exact get_bridge_ovf_loop sgn e c m f hn (by omega) hl p q hm
      · exact get_bridge_ovf_noloop sgn e c m f hn (by omega) hl p q hm

/-- **`bid_get_BID128` (translated source) computes what the model computes**: whenever the model returns `some (p, q)`
(i.e. everywhere: `bid_get_BID128` reaches `handle_UF_128` only with a negative exponent, where no table index can be
out of range), the translated routine returns `.ok` with those words and that status word; the `for … in [0:4096]`
fuel loop standing for the Rust `while` never runs out of fuel. -/
theorem get_bridge (sgn : UInt64) (e : Int32) (c : U128) (m : RoundingMode) (f : UInt32) (p : PackH.U128) (q : Nat)
    (hm : PackH.get_BID128 sgn.toNat e.toInt (pr c) (md m) f.toNat = some (p, q)) :
    ∃ res fl, Dec.Gen.Code.bid_get_BID128 sgn e c m f = .ok (res, fl) ∧ pr res = p ∧ fl.toNat = q := by
  by_cases h34 : c.w1 = 0x1ed09bead87c0 ∧ c.w0 = 0x378d8e6400000000
  · obtain ⟨c0, c1⟩ := c
    simp only at h34
    obtain ⟨rfl, rfl⟩ := h34
    rw [get_code_34]
    have hpr : pr ({ w0 := 0x378d8e6400000000, w1 := 0x1ed09bead87c0 } : U128)
        = (0x378d8e6400000000, 0x0001ed09bead87c0) := by decide
    rw [hpr, get_model_34] at hm
    have he : (e + 1).toInt = PackH.wrapI32 (e.toInt + 1) := by rw [i32_add]; rfl
    have hpr' : pr ({ w0 := 0x38c15b0a00000000, w1 := 0x314dc6448d93 } : U128)
        = (0x38c15b0a00000000, 0x0000314dc6448d93) := by decide
    rw [← he, ← hpr'] at hm
    exact get_bridge_ne sgn (e + 1) _ m f (by unfold Not34; decide) p q hm
  · exact get_bridge_ne sgn e c m f h34 p q hm

/-- **`bid_get_BID128` (translated source) is `finish`**: sign word 0 / 2^63, non-zero coefficient `C ≤ 10^34`, any `i32`
biased exponent below `2^31 − 1`, any mode, clear status word on entry: never panics, and (decoded result, status
word) = `finish mode sign C 1 (e − 6176) (e − 6176)` — the correctly rounded delivery of `±C·10^(e−6176)` in the sense
of `FinishSpecStrict`. -/
theorem get_eq_finish (sgn : UInt64) (e : Int32) (c : U128) (m : RoundingMode)
    (hs : sgn = 0 ∨ sgn = 0x8000000000000000) (hC0 : 0 < bitsOf c) (hC : bitsOf c ≤ 10 ^ 34)
    (he : e.toInt < 2147483647) :
    ∃ res fl, Dec.Gen.Code.bid_get_BID128 sgn e c m 0 = .ok (res, fl) ∧
      (decode (bitsOf res), fl.toNat) = finish (md m) (decide (sgn ≠ 0)) (bitsOf c) 1 (e.toInt - 6176) (e.toInt - 6176) := by
  obtain ⟨hs', hd⟩ := sgn_cases sgn hs
  rw [bitsOf_eq c] at hC0 hC ⊢
  obtain ⟨r, fl, hmod, hfin⟩ := C13PackHelpers.get_eq_finish sgn.toNat e.toInt c.w0.toNat c.w1.toNat (md m) hs'
    c.w0.toNat_lt c.w1.toNat_lt hC0 hC e.le_toInt he
  obtain ⟨res, flc, hcode, hp, hq⟩ := get_bridge sgn e c m 0 r fl hmod
  refine ⟨res, flc, hcode, ?_⟩
  rw [hq, ← hd, ← hfin, ← hp]
  rfl

example : Dec.Gen.Code.bid_get_BID128 0 (-3) ⟨123456, 0⟩ .NearestEven 0 = .ok (⟨123, 0⟩, 0x30) := by rfl
-- through the padding loop (13 turns)
example : ∃ res fl, Dec.Gen.Code.bid_get_BID128 0x8000000000000000 12300 ⟨123, 0⟩ .NearestEven 0 = .ok (res, fl) ∧
    pr res = (123 * 10 ^ 13, 0xdffe000000000000) ∧ fl.toNat = 0 :=
  get_bridge _ _ _ _ _ _ _ (by decide +kernel)
example : ∃ res fl, Dec.Gen.Code.bid_get_BID128 0 12288 ⟨0x38c15b0a00000000, 0x314dc6448d93⟩ .Upward 1 = .ok (res, fl) ∧
    pr res = (0, 0x7800000000000000) ∧ fl.toNat = 0x29 :=
  get_bridge _ _ _ _ _ _ _ (by decide +kernel)

/-! ## 8. Examples: the translated routines on concrete inputs, and the theorems instantiated -/

example : Dec.Gen.Code.handle_UF_128 0 (-3) ⟨123456, 0⟩ .NearestEven 0 = .ok (⟨123, 0⟩, 0x30) := by rfl
example : Dec.Gen.Code.handle_UF_128 0 (-3) ⟨122500, 0⟩ .NearestEven 0 = .ok (⟨122, 0⟩, 0x30) := by rfl
example : Dec.Gen.Code.handle_UF_128 0x8000000000000000 (-3) ⟨122001, 0⟩ .Downward 0 = .ok (⟨123, 0x8000000000000000⟩, 0x30) := by rfl
-- D4: an exact result raises underflow iff inexact was already set
example : Dec.Gen.Code.handle_UF_128 0 (-3) ⟨5000, 0⟩ .NearestEven 0x00 = .ok (⟨5, 0⟩, 0x00) := by rfl
example : Dec.Gen.Code.handle_UF_128 0 (-3) ⟨5000, 0⟩ .NearestEven 0x20 = .ok (⟨5, 0⟩, 0x30) := by rfl
-- outside the domain of the model's `some`: the Rust index panic
example : Dec.Gen.Code.handle_UF_128 0 1 ⟨5, 0⟩ .NearestEven 0 = .error "index out of bounds" := by rfl
example : Dec.Gen.Code.bid_handle_UF_128_rem 0 (-3) ⟨1234500, 0⟩ 1 .NearestEven 0x20 = .ok (⟨1235, 0⟩, 0x30) := by rfl
example : Dec.Gen.Code.bid_handle_UF_128_rem 0 (-3) ⟨1234500, 0⟩ 0 .NearestEven 0x00 = .ok (⟨1234, 0⟩, 0x30) := by rfl
example : Dec.Gen.Code.bid_handle_UF_128_rem 0x8000000000000000 (-3) ⟨1234000, 0⟩ 7 .Upward 0x20
    = .ok (⟨1234, 0x8000000000000000⟩, 0x30) := by rfl

example := handle_uf_decode 0 (-3) ⟨123456, 0⟩ .NearestEven 0 (Or.inl rfl) (by decide) (by decide) (Or.inr (by decide))
example := handle_uf_rem_eq_finish 0 (-3) ⟨1234000, 0⟩ 1 .Upward c_StatusFlags_BID_INEXACT_EXCEPTION 3 1 0 (Or.inl rfl)
  (Or.inr rfl) (by decide) (by decide) (by decide) (by decide) (by decide)
example := get_eq_finish 0x8000000000000000 12300 ⟨123, 0⟩ .TowardZero (Or.inr rfl) (by decide) (by decide) (by decide)
example := unpack_value_spec 0 0 default ⟨5, 0x7e00400000000000⟩
example := get_very_fast_spec 0 6176 ⟨1, 0⟩ (Or.inl rfl) (by decide) (by decide) (by decide)

end Dec.C13GenPack
