/-
  C04 (grammar level) — the strict literal grammar `parseLiteral` accepts exactly the texts
  `sign? (digits+ ('.' digits*)? | '.' digits+) ([eE] sign? digits+)?`, and the literal it returns is
  what the text says: its sign, its integer and fraction digit strings, and its exponent value.
-/
import DecModel.Ops
import DecProofs.Core.DigitStr

namespace Dec.C04Grammar

/-! ### The shape of a well-formed literal text -/

/-- bytes of an optional sign: nothing, `+`, `-` -/
def signBytes : Option Bool → Bytes
  | none => []
  | some false => [43]
  | some true => [45]

/-- an exponent part: the letter (`E` or `e`), an optional sign, digits -/
structure ExpShape where
  upper : Bool
  sign : Option Bool
  digits : Bytes

/-- the parts of a literal text -/
structure Shape where
  sign : Option Bool
  ip : Bytes              -- integer digits
  point : Bool            -- is there a decimal point
  fp : Bytes              -- fraction digits
  exp : Option ExpShape

def ExpShape.bytes (x : ExpShape) : Bytes :=
  (if x.upper then 69 else 101) :: (signBytes x.sign ++ x.digits)

def ExpShape.val (x : ExpShape) : Int :=
  if x.sign == some true then -(digitsVal x.digits : Int) else (digitsVal x.digits : Int)

def ExpShape.WF (x : ExpShape) : Prop := x.digits ≠ [] ∧ ∀ b ∈ x.digits, isDigitB b = true

def expBytes : Option ExpShape → Bytes
  | none => []
  | some x => x.bytes

def expVal : Option ExpShape → Int
  | none => 0
  | some x => x.val

def expWF : Option ExpShape → Prop
  | none => True
  | some x => x.WF

/-- the text with these parts -/
def Shape.render (sh : Shape) : Bytes :=
  signBytes sh.sign ++ (sh.ip ++ ((if sh.point then 46 :: sh.fp else []) ++ expBytes sh.exp))

/-- the grammar: digit strings are digits, at least one digit in the integer or the fraction part, fraction
digits only after a point, at least one exponent digit when there is an exponent part -/
def Shape.WF (sh : Shape) : Prop :=
  (∀ b ∈ sh.ip, isDigitB b = true) ∧ (∀ b ∈ sh.fp, isDigitB b = true) ∧ (sh.ip ≠ [] ∨ sh.fp ≠ []) ∧
    (sh.point = false → sh.fp = []) ∧ expWF sh.exp

/-- the literal a text with these parts denotes -/
def Shape.literal (sh : Shape) : Literal :=
  { neg := sh.sign == some true, intDigits := sh.ip, fracDigits := sh.fp, exp := expVal sh.exp }

/-! ### Pieces of the parser -/

theorem digit_not_sign (b : Nat) (h : isDigitB b = true) : b ≠ 43 ∧ b ≠ 45 ∧ b ≠ 46 := by
  simp only [isDigitB, Bool.and_eq_true, decide_eq_true_eq] at h; omega

/-- `splitSign` undoes `signBytes` (when the rest does not itself start with a sign) -/
theorem splitSign_signBytes (sg : Option Bool) (r : Bytes)
    (h : sg = none → r.head? ≠ some 43 ∧ r.head? ≠ some 45) : splitSign (signBytes sg ++ r) = (sg, r) := by
  rcases sg with _ | _ | _
  · have h := h rfl
    simp only [signBytes, List.nil_append]
    unfold splitSign
    split
    · exact absurd rfl h.1
    · exact absurd rfl h.2
    · rfl
  · rfl
  · rfl

/-- what `splitSign` returns concatenates to the input -/
theorem splitSign_sound (s : Bytes) : s = signBytes (splitSign s).1 ++ (splitSign s).2 := by
  unfold splitSign
  split <;> rfl

/-- the exponent part of a well-formed shape parses to its value -/
theorem parseExpPart_render (x : Option ExpShape) (h : expWF x) : parseExpPart (expBytes x) = some (expVal x) := by
  rcases x with _ | ⟨up, sg, ds⟩
  · rfl
  · obtain ⟨hne, hds⟩ : ds ≠ [] ∧ ∀ b ∈ ds, isDigitB b = true := h
    have hE : ((if up then 69 else 101 : Nat) == 101 || (if up then 69 else 101 : Nat) == 69) = true := by
      cases up <;> decide
    have hss : splitSign (signBytes sg ++ ds) = (sg, ds) := by
      apply splitSign_signBytes
      intro _
      rcases ds with _ | ⟨d, t⟩
      · exact absurd rfl hne
      · have := digit_not_sign d (hds d (by simp))
        simp only [List.head?_cons, ne_eq, Option.some.injEq]
        exact ⟨this.1, this.2.1⟩
    have hemp : ds.isEmpty = false := by simpa [List.isEmpty_iff] using hne
    simp only [expBytes, ExpShape.bytes, parseExpPart, hE, if_true, hss, takeDigits_all ds hds, hemp, expVal,
      ExpShape.val]
    simp

/-- `parseExpPart` on a non-empty text, with the destructuring `let`s written as projections -/
theorem parseExpPart_cons (b : Nat) (t : Bytes) :
    parseExpPart (b :: t) =
      if (b == 101 || b == 69) = true then
        (if ((takeDigits (splitSign t).2).1.isEmpty || !(takeDigits (splitSign t).2).2.isEmpty) = true then none
         else some (if (splitSign t).1 == some true then -(digitsVal (takeDigits (splitSign t).2).1 : Int)
                    else (digitsVal (takeDigits (splitSign t).2).1 : Int)))
      else none := rfl

/-- a text accepted as an exponent part is empty or `[eE] sign? digits+`, and the value returned is the
signed value of the digits -/
theorem parseExpPart_sound (r : Bytes) (e : Int) (h : parseExpPart r = some e) :
    ∃ x : Option ExpShape, expWF x ∧ r = expBytes x ∧ e = expVal x := by
  rcases r with _ | ⟨b, t⟩
  · refine ⟨none, trivial, rfl, ?_⟩
    simpa [parseExpPart, expVal] using h.symm
  · rw [parseExpPart_cons] at h
    by_cases hb : (b == 101 || b == 69) = true
    · rw [if_pos hb] at h
      have hsp := takeDigits_spec (splitSign t).2
      by_cases hc : ((takeDigits (splitSign t).2).1.isEmpty || !(takeDigits (splitSign t).2).2.isEmpty) = true
      · rw [if_pos hc] at h; cases h
      · rw [if_neg hc] at h
        simp only [Bool.or_eq_true, Bool.not_eq_true', not_or, Bool.not_eq_false, List.isEmpty_iff] at hc
        refine ⟨some ⟨b == 69, (splitSign t).1, (takeDigits (splitSign t).2).1⟩, ⟨?_, hsp.2.1⟩, ?_, ?_⟩
        · simpa [List.isEmpty_iff] using hc.1
        · have h1 : (takeDigits (splitSign t).2).1 = (splitSign t).2 := by
            have := hsp.1; rw [hc.2, List.append_nil] at this; exact this
          have hb' : b = (if (b == 69) = true then 69 else 101) := by
            rcases Bool.or_eq_true _ _ ▸ hb with h' | h' <;> simp at h' <;> subst h' <;> decide
          simp only [expBytes, ExpShape.bytes, h1]
          rw [← splitSign_sound t, ← hb']
        · simpa [expVal, ExpShape.val] using (Option.some.inj h).symm
    · rw [if_neg hb] at h; cases h

/-- the exponent part of a shape does not begin with a digit or a point -/
theorem expBytes_head (x : Option ExpShape) :
    (expBytes x).head?.map isDigitB ≠ some true ∧ ∀ r', expBytes x ≠ 46 :: r' := by
  rcases x with _ | ⟨up, sg, ds⟩
  · simp [expBytes]
  · cases up <;> simp [expBytes, ExpShape.bytes, isDigitB]

/-- the parser after the sign, integer digits and optional fraction have been split off -/
def mk (sg : Option Bool) (ip fp r2 : Bytes) : Option Literal :=
  if ip.isEmpty && fp.isEmpty then none
  else (parseExpPart r2).map fun e => { neg := sg == some true, intDigits := ip, fracDigits := fp, exp := e }

theorem parseLiteral_point (s r' : Bytes) (h : (takeDigits (splitSign s).2).2 = 46 :: r') :
    parseLiteral s = mk (splitSign s).1 (takeDigits (splitSign s).2).1 (takeDigits r').1 (takeDigits r').2 := by
  unfold parseLiteral mk
  simp only [h]
  cases parseExpPart (takeDigits r').2 <;> rfl

theorem parseLiteral_nopoint (s : Bytes) (h : ∀ r', (takeDigits (splitSign s).2).2 ≠ 46 :: r') :
    parseLiteral s = mk (splitSign s).1 (takeDigits (splitSign s).2).1 [] (takeDigits (splitSign s).2).2 := by
  unfold parseLiteral mk
  simp only
  split
  · rfl
  · cases parseExpPart (takeDigits (splitSign s).2).2 <;> rfl

theorem mk_eq_some (sg : Option Bool) (ip fp r2 : Bytes) (l : Literal) (h : mk sg ip fp r2 = some l) :
    (ip ≠ [] ∨ fp ≠ []) ∧ ∃ e, parseExpPart r2 = some e ∧
      l = { neg := sg == some true, intDigits := ip, fracDigits := fp, exp := e } := by
  unfold mk at h
  by_cases hc : (ip.isEmpty && fp.isEmpty) = true
  · rw [if_pos hc] at h; cases h
  · rw [if_neg hc] at h
    refine ⟨?_, ?_⟩
    · simp only [Bool.and_eq_true, List.isEmpty_iff] at hc
      by_cases hi : ip = []
      · exact Or.inr (fun hf => hc ⟨hi, hf⟩)
      · exact Or.inl hi
    · cases hp : parseExpPart r2 with
      | none => rw [hp] at h; cases h
      | some e => rw [hp] at h; exact ⟨e, rfl, (Option.some.inj h).symm⟩

theorem mk_render (sg : Option Bool) (ip fp : Bytes) (x : Option ExpShape) (hx : expWF x)
    (hne : ip ≠ [] ∨ fp ≠ []) :
    mk sg ip fp (expBytes x) =
      some { neg := sg == some true, intDigits := ip, fracDigits := fp, exp := expVal x } := by
  have hc : ¬ (ip.isEmpty && fp.isEmpty) = true := by
    simp only [Bool.and_eq_true, List.isEmpty_iff]
    rintro ⟨h1, h2⟩
    rcases hne with h | h
    · exact h h1
    · exact h h2
  unfold mk
  rw [if_neg hc, parseExpPart_render x hx]
  rfl

/-- digits, or a point when there are no digits, are not mistaken for a sign -/
theorem head_not_sign (ip tail : Bytes) (hip : ∀ b ∈ ip, isDigitB b = true)
    (h : ip ≠ [] ∨ tail.head? = some 46) :
    (ip ++ tail).head? ≠ some 43 ∧ (ip ++ tail).head? ≠ some 45 := by
  rcases ip with _ | ⟨d, t⟩
  · rcases h with h | h
    · exact absurd rfl h
    · simp [h]
  · have := digit_not_sign d (hip d (by simp))
    simp only [List.cons_append, List.head?_cons, ne_eq, Option.some.injEq]
    exact ⟨this.1, this.2.1⟩

/-! ### Completeness and soundness of the grammar -/

/-- **Completeness.**  Every text of the grammar's shape is accepted, and the literal returned has exactly
the sign, the integer digits, the fraction digits and the exponent value of the text. -/
theorem parse_render (sh : Shape) (h : sh.WF) : parseLiteral sh.render = some sh.literal := by
  obtain ⟨sg, ip, point, fp, x⟩ := sh
  obtain ⟨hip, hfp, hne, hpt, hx⟩ := h
  simp only at hip hfp hne hpt hx
  have hxh := expBytes_head x
  cases point
  · -- no point: no fraction digits, so there are integer digits
    have hfp0 : fp = [] := hpt rfl
    subst hfp0
    have hine : ip ≠ [] := by rcases hne with h | h; exact h; exact absurd rfl h
    have hr : Shape.render ⟨sg, ip, false, [], x⟩ = signBytes sg ++ (ip ++ expBytes x) := by
      simp [Shape.render]
    have hss : splitSign (signBytes sg ++ (ip ++ expBytes x)) = (sg, ip ++ expBytes x) :=
      splitSign_signBytes sg _ (fun _ => head_not_sign ip _ hip (Or.inl hine))
    have htd := takeDigits_append ip (expBytes x) hip hxh.1
    have hnp : ∀ r', (takeDigits (splitSign (signBytes sg ++ (ip ++ expBytes x))).2).2 ≠ 46 :: r' := by
      rw [hss]; simp only [htd]; exact hxh.2
    rw [hr, parseLiteral_nopoint _ hnp, hss]
    simp only [htd]
    exact mk_render sg ip [] x hx hne
  · have hr : Shape.render ⟨sg, ip, true, fp, x⟩ = signBytes sg ++ (ip ++ 46 :: (fp ++ expBytes x)) := by
      simp [Shape.render]
    have hss : splitSign (signBytes sg ++ (ip ++ 46 :: (fp ++ expBytes x))) =
        (sg, ip ++ 46 :: (fp ++ expBytes x)) :=
      splitSign_signBytes sg _ (fun _ => head_not_sign ip _ hip (Or.inr rfl))
    have htd := takeDigits_append ip (46 :: (fp ++ expBytes x)) hip (by simp [isDigitB])
    have hp : (takeDigits (splitSign (signBytes sg ++ (ip ++ 46 :: (fp ++ expBytes x)))).2).2 =
        46 :: (fp ++ expBytes x) := by
      rw [hss]; simp only [htd]
    rw [hr, parseLiteral_point _ _ hp, hss]
    simp only [htd, takeDigits_append fp (expBytes x) hfp hxh.1]
    exact mk_render sg ip fp x hx hne

/-- **Soundness.**  A text accepted by the strict grammar is `sign? digits ('.' digits)? ([eE] sign? digits+)?`
with at least one digit before the exponent part, and the literal returned is what that text says: `neg` iff
the sign is `-`, `intDigits`/`fracDigits` are the digit strings before / after the point, and `exp` is the
signed value of the exponent digits (0 without an exponent part). -/
theorem parse_sound (s : Bytes) (l : Literal) (h : parseLiteral s = some l) :
    ∃ sh : Shape, sh.WF ∧ sh.render = s ∧ sh.literal = l := by
  have hs := splitSign_sound s
  have hd := takeDigits_spec (splitSign s).2
  by_cases hpt : ∃ r', (takeDigits (splitSign s).2).2 = 46 :: r'
  · obtain ⟨r', hr'⟩ := hpt
    rw [parseLiteral_point s r' hr'] at h
    obtain ⟨hne, e, he, hl⟩ := mk_eq_some _ _ _ _ _ h
    obtain ⟨x, hx, hxb, hxv⟩ := parseExpPart_sound _ _ he
    have hf := takeDigits_spec r'
    refine ⟨⟨(splitSign s).1, (takeDigits (splitSign s).2).1, true, (takeDigits r').1, x⟩,
      ⟨hd.2.1, hf.2.1, hne, by simp, hx⟩, ?_, ?_⟩
    · simp only [Shape.render, if_true, List.cons_append]
      rw [← hxb, hf.1, ← hr', hd.1, ← hs]
    · rw [hl, hxv]; rfl
  · have hnp : ∀ r', (takeDigits (splitSign s).2).2 ≠ 46 :: r' := fun r' hr' => hpt ⟨r', hr'⟩
    rw [parseLiteral_nopoint s hnp] at h
    obtain ⟨hne, e, he, hl⟩ := mk_eq_some _ _ _ _ _ h
    obtain ⟨x, hx, hxb, hxv⟩ := parseExpPart_sound _ _ he
    refine ⟨⟨(splitSign s).1, (takeDigits (splitSign s).2).1, false, [], x⟩,
      ⟨hd.2.1, by simp, hne, by simp, hx⟩, ?_, ?_⟩
    · simp only [Shape.render, Bool.false_eq_true, if_false, List.nil_append]
      rw [← hxb, hd.1, ← hs]
    · rw [hl, hxv]; rfl

/-- **The grammar, exactly.**  `parseLiteral s = some l` iff `s` is the rendering of a well-formed shape whose
literal is `l`. -/
theorem parseLiteral_iff (s : Bytes) (l : Literal) :
    parseLiteral s = some l ↔ ∃ sh : Shape, sh.WF ∧ sh.render = s ∧ sh.literal = l := by
  constructor
  · exact parse_sound s l
  · rintro ⟨sh, hwf, rfl, rfl⟩
    exact parse_render sh hwf

/-- a non-trivial well-formed shape: `-12.50E+3`, and what it parses to -/
example : (Shape.mk (some true) [49, 50] true [53, 48] (some ⟨true, some false, [51]⟩)).WF ∧
    (Shape.mk (some true) [49, 50] true [53, 48] (some ⟨true, some false, [51]⟩)).render =
      [45, 49, 50, 46, 53, 48, 69, 43, 51] ∧
    (parseLiteral [45, 49, 50, 46, 53, 48, 69, 43, 51]).map (fun l => (l.neg, l.intDigits, l.fracDigits, l.exp)) =
      some (true, [49, 50], [53, 48], 3) := by
  refine ⟨?_, rfl, by decide⟩
  simp [Shape.WF, expWF, ExpShape.WF, isDigitB]

/-! ### The value of a literal -/

/-- the coefficient of a literal is the integer digits shifted left by the number of fraction digits, plus the
fraction digits: together with `exp10 = exp − #fraction digits` this is the usual reading
`(int + frac/10^k)·10^exp = coeff·10^exp10` -/
theorem coeff_eq (l : Literal) :
    l.coeff = digitsVal l.intDigits * 10 ^ l.fracDigits.length + digitsVal l.fracDigits := by
  simp [Literal.coeff, digitsVal_append]

/-- the significant digits (leading zeros dropped) denote the same coefficient -/
theorem sigDigits_val (l : Literal) : digitsVal l.sigDigits = l.coeff := by
  simp [Literal.sigDigits, Literal.coeff, digitsVal_dropZeros]

/-- the coefficient of an accepted literal is below `10^(number of digits)` -/
theorem coeff_lt (s : Bytes) (l : Literal) (h : parseLiteral s = some l) :
    l.coeff < 10 ^ (l.intDigits.length + l.fracDigits.length) := by
  obtain ⟨sh, hwf, _, rfl⟩ := parse_sound s l h
  have := digitsVal_lt (sh.ip ++ sh.fp) (by
    intro b hb
    rcases List.mem_append.1 hb with h | h
    · exact hwf.1 b h
    · exact hwf.2.1 b h)
  simpa [Literal.coeff, Shape.literal] using this

/-- the exponent of an accepted literal without exponent part is 0; with an exponent part `[eE]±ds` it is
`± digitsVal ds` -/
theorem exp_value (sh : Shape) (h : sh.WF) :
    (parseLiteral sh.render).map (·.exp) = some (match sh.exp with
      | none => 0
      | some x => if x.sign == some true then -(digitsVal x.digits : Int) else (digitsVal x.digits : Int)) := by
  rw [parse_render sh h]
  rcases hx : sh.exp with _ | x <;> simp [Shape.literal, hx, expVal, ExpShape.val]

/-! ### Only ASCII text is ever a literal -/

/-- every byte of an accepted text is a sign, a point, an exponent letter or a digit -/
theorem literal_bytes (s : Bytes) (l : Literal) (h : parseLiteral s = some l) :
    ∀ b ∈ s, b = 43 ∨ b = 45 ∨ b = 46 ∨ b = 69 ∨ b = 101 ∨ isDigitB b = true := by
  obtain ⟨sh, hwf, rfl, _⟩ := parse_sound s l h
  obtain ⟨sg, ip, point, fp, x⟩ := sh
  obtain ⟨hip, hfp, _, _, hx⟩ := hwf
  simp only at hip hfp hx
  have hsign : ∀ (o : Option Bool), ∀ b ∈ signBytes o, b = 43 ∨ b = 45 := by
    intro o b hb
    rcases o with _ | _ | _ <;> simp [signBytes] at hb <;> simp [hb]
  intro b hb
  simp only [Shape.render, List.mem_append] at hb
  rcases hb with hb | hb | hb | hb
  · rcases hsign sg b hb with h | h <;> simp [h]
  · simp [hip b hb]
  · cases point
    · simp at hb
    · simp only [if_true, List.mem_cons] at hb
      rcases hb with hb | hb
      · simp [hb]
      · simp [hfp b hb]
  · rcases x with _ | ⟨up, esg, ds⟩
    · simp [expBytes] at hb
    · simp only [expBytes, ExpShape.bytes, List.mem_cons, List.mem_append] at hb
      rcases hb with hb | hb | hb
      · cases up <;> simp [hb]
      · rcases hsign esg b hb with h | h <;> simp [h]
      · simp [hx.2 b hb]

/-- `classifyText` says "literal" exactly when the strict grammar accepts -/
theorem classify_literal_iff (s : Bytes) (l : Literal) :
    classifyText s = .literal l ↔ parseLiteral s = some l := by
  unfold classifyText
  cases hp : parseLiteral s with
  | some l' => simp
  | none =>
    simp only
    constructor
    · intro h
      repeat' split at h
      all_goals cases h
    · intro h; cases h

/-- A text containing a non-ASCII byte (≥ 128; in particular any multi-byte UTF-8 sequence) is never
classified as a well-formed literal. -/
theorem nonascii_not_literal (s : Bytes) (h : ∃ b ∈ s, 128 ≤ b) (l : Literal) :
    classifyText s ≠ .literal l := by
  intro hc
  obtain ⟨b, hb, h128⟩ := h
  have := literal_bytes s l ((classify_literal_iff s l).1 hc) b hb
  simp only [isDigitB, Bool.and_eq_true, decide_eq_true_eq] at this
  omega

/-- e.g. `1é` (bytes 49, 195, 169) -/
example : ∃ b ∈ ([49, 195, 169] : Bytes), 128 ≤ b := ⟨195, by simp, by omega⟩

end Dec.C04Grammar
