/-
  C17GenNext — `bid128_nextup`, `bid128_nextdown`, `bid128_nextafter` of bid128_next.rs, as translated in
  `DecGen/Code.lean` (`Dec.Gen.Code.bid128_next*`), compute the spec-level `Dec.nextUpD`, `Dec.nextDownD`,
  `Dec.nextAfterD` of the decoded operand(s) (NaN operands: the quieted canonical NaN, `invalid` for a signalling one),
  for ALL 128-bit patterns (non-canonical ones included) and every incoming status word, without ever panicking.
-/
import DecGen.Code
import DecModel.Misc
import DecModel.Ops
import DecProofs.Core.Codec
import DecProofs.Core.Digits
import DecProofs.TableFacts.NrDigits
import DecProofs.Properties.C03GenCompare
import DecProofs.Properties.C06GenFromInt
import DecProofs.Properties.C17Adjacent
import Mathlib.Tactic.SplitIfs
import Mathlib.Tactic.Ring
import Mathlib.Tactic.Linarith

set_option linter.unusedSimpArgs false
set_option linter.unusedVariables false

namespace Dec.C17GenNext
open Dec.Rs Dec.Gen.Code Dec.C03GenCompare

/-- the `U128` holding a 128-bit pattern -/
abbrev ofBits (b : Nat) : U128 := Dec.C06GenFromInt.ofBits b

theorem eq_ofBits {r : U128} {n : Nat} (h : bitsOf r = n) : r = ofBits n :=
  Dec.C06GenFromInt.eq_ofBits h

/-! ## 0. The specification -/

/-- the result datum of `next_up`: a NaN operand gives the quieted NaN with the same sign and payload
(`nanRule` of `DecModel.Ops`), every other operand `nextUpD` -/
def upD (d : Datum) : Datum := if d.isNaN then quietNaN d else nextUpD d

/-- the result datum of `next_down` -/
def downD (d : Datum) : Datum := if d.isNaN then quietNaN d else nextDownD d

/-- the status word after `next_up` / `next_down`: `invalid` (0x01) is or-ed in iff the operand is a signalling NaN -/
def nanFlags (f : UInt32) (d : Datum) : UInt32 := if d.isSNaN then f ||| 1 else f

/-! ## 1. The routines, cut into stages

`bid128_nextup` and `bid128_nextdown` are the same text up to the constants of the front end and the direction of the
final step.  The stages below are that text, with the rest of the routine as a continuation `k`; `nextup_shape` /
`nextdown_shape` state that the translated routines are these stages chained. -/

/-- NaN / infinity operands -/
def specialK (up : Bool) (x : U128) (pfpsf : UInt32) : Except String (U128 × UInt32) :=
  if (((x.w1 &&& c_MASK_NAN)) == c_MASK_NAN) then
    if (((decide (((x.w1 &&& (0x3fffffffffff : UInt64))) > (0x314dc6448d93 : UInt64)))) || ((((((x.w1 &&& (0x3fffffffffff : UInt64))) == (0x314dc6448d93 : UInt64))) && ((decide (x.w0 > (0x38c15b09ffffffff : UInt64))))))) then
      if ((((x.w1 &&& (0xffffc00000000000 : UInt64)) &&& c_MASK_SNAN)) == c_MASK_SNAN) then
        .ok (⟨0, (x.w1 &&& (0xffffc00000000000 : UInt64)) &&& (0xfc003fffffffffff : UInt64)⟩, pfpsf ||| c_StatusFlags_BID_INVALID_EXCEPTION)
      else .ok (⟨0, (x.w1 &&& (0xffffc00000000000 : UInt64)) &&& (0xfc003fffffffffff : UInt64)⟩, pfpsf)
    else
      if (((x.w1 &&& c_MASK_SNAN)) == c_MASK_SNAN) then
        .ok (⟨x.w0, x.w1 &&& (0xfc003fffffffffff : UInt64)⟩, pfpsf ||| c_StatusFlags_BID_INVALID_EXCEPTION)
      else .ok (⟨x.w0, x.w1 &&& (0xfc003fffffffffff : UInt64)⟩, pfpsf)
  else
    if ((x.w1 &&& c_MASK_SIGN) == (0 : UInt64)) then
      .ok (if up then ⟨0, 0x7800000000000000⟩ else ⟨0x378d8e63ffffffff, 0x5fffed09bead87c0⟩, pfpsf)
    else
      .ok (if up then ⟨0x378d8e63ffffffff, 0xdfffed09bead87c0⟩ else ⟨0, 0xf800000000000000⟩, pfpsf)

/-- exponent field and coefficient of a finite operand; a non-canonical coefficient is replaced by 0 -/
def canonK {α : Type} (x : U128) (k : UInt64 → U128 → Except String α) : Except String α := do
  let mut x_exp : UInt64 := default
  let mut C1 : U128 := ⟨x.w0, x.w1 &&& c_MASK_COEFF⟩
  if (((x.w1 &&& (0x6000000000000000 : UInt64))) == (0x6000000000000000 : UInt64)) then
    x_exp := (((x.w1 <<< 2)) &&& c_MASK_EXP)
    C1 := { C1 with w1 := (0 : UInt64) }
    C1 := { C1 with w0 := (0 : UInt64) }
  else
    x_exp := (x.w1 &&& c_MASK_EXP)
    if ((decide (C1.w1 > (0x1ed09bead87c0 : UInt64))) || (((C1.w1 == (0x1ed09bead87c0 : UInt64)) && (decide (C1.w0 > (0x378d8e63ffffffff : UInt64)))))) then
      C1 := { C1 with w1 := (0 : UInt64) }
      C1 := { C1 with w0 := (0 : UInt64) }
    else
      pure ()
  k x_exp C1

/-- bit length of the coefficient, through the exponent field of a double -/
def nrBitsK {α : Type} (C1 : U128) (k : UInt64 → Except String α) : Except String α := do
  let mut tmp1 : F64U := default
  let mut x_nr_bits : UInt64 := default
  if (C1.w1 == (0 : UInt64)) then
    if (decide (C1.w0 ≥ (0x20000000000000 : UInt64))) then
      if (decide (C1.w0 ≥ (0x100000000 : UInt64))) then
        tmp1 := (F64U.ofU64 (UInt64.ofInt (toI ((C1.w0 >>> 0x20)))))
        x_nr_bits := (((0x21 : UInt64) + ((((((tmp1.bits >>> 0x34)) &&& (0x7ff : UInt64))) - (0x3ff : UInt64)))))
      else
        tmp1 := (F64U.ofU64 (UInt64.ofInt (toI C1.w0)))
        x_nr_bits := (((1 : UInt64) + ((((((tmp1.bits >>> 0x34)) &&& (0x7ff : UInt64))) - (0x3ff : UInt64)))))
    else
      tmp1 := (F64U.ofU64 (UInt64.ofInt (toI C1.w0)))
      x_nr_bits := (((1 : UInt64) + ((((((tmp1.bits >>> 0x34)) &&& (0x7ff : UInt64))) - (0x3ff : UInt64)))))
  else
    tmp1 := (F64U.ofU64 (UInt64.ofInt (toI C1.w1)))
    x_nr_bits := (((0x41 : UInt64) + ((((((tmp1.bits >>> 0x34)) &&& (0x7ff : UInt64))) - (0x3ff : UInt64)))))
  k x_nr_bits

/-- number of decimal digits of the coefficient from `BID_NR_DIGITS[bit length − 1]` -/
def digitsK {α : Type} (C1 : U128) (x_nr_bits : UInt64) (k : Int32 → Except String α) : Except String α := do
  let mut q1 : Int32 := (Int32.ofInt (toI ((← tblDD Dec.Gen.BID_NR_DIGITS (x_nr_bits - (1 : UInt64))).digits)))
  if (q1 == (0 : Int32)) then
    q1 := (Int32.ofInt (toI ((← tblDD Dec.Gen.BID_NR_DIGITS (x_nr_bits - (1 : UInt64))).digits1)))
    if (← (if (decide (C1.w1 > (← tblDD Dec.Gen.BID_NR_DIGITS (x_nr_bits - (1 : UInt64))).threshold_hi)) then pure true else (do pure ((← (if (C1.w1 == (← tblDD Dec.Gen.BID_NR_DIGITS (x_nr_bits - (1 : UInt64))).threshold_hi) then (do pure (decide (C1.w0 ≥ (← tblDD Dec.Gen.BID_NR_DIGITS (x_nr_bits - (1 : UInt64))).threshold_lo))) else pure false)))))) then
      q1 := (q1 + 1)
  k q1

/-- scale the coefficient to 34 digits, or as far as the exponent allows -/
def scaleK {α : Type} (q1 : Int32) (x_exp_ : UInt64) (C1_ : U128) (k : UInt64 → U128 → Except String α) : Except String α := do
  let mut x_exp : UInt64 := x_exp_
  let mut C1 : U128 := C1_
  let mut exp : Int32 := default
  let mut ind : Int32 := default
  if (decide (q1 < c_P34)) then
    exp := (Int32.ofInt (toI ((((x_exp >>> 0x31)) - (0x1820 : UInt64)))))
    if (decide ((exp + (0x1820 : Int32)) > (c_P34 - q1))) then
      ind := (c_P34 - q1)
      if (decide (q1 ≤ (0x13 : Int32))) then
        C1 := (← (if (decide (ind ≤ (0x13 : Int32))) then (do pure (← mul_64x64_to_128MACH C1.w0 (← tbl64 Dec.Gen.BID_TEN2K64 (UInt64.ofInt (toI ind))))) else (do pure (← mul_128x64_to_128 C1.w0 (← tbl128 Dec.Gen.BID_TEN2K128 (UInt64.ofInt (toI ((ind - (0x14 : Int32))))))))))
      else
        C1 := (← (if (decide (ind ≤ (0xe : Int32))) then (do pure (← mul_128x64_to_128 (← tbl64 Dec.Gen.BID_TEN2K64 (UInt64.ofInt (toI ind))) C1)) else (do pure (← (if (decide (ind ≤ (0x13 : Int32))) then (do pure (← mul_64x64_to_128MACH C1.w0 (← tbl64 Dec.Gen.BID_TEN2K64 (UInt64.ofInt (toI ind))))) else (do pure (← mul_128x64_to_128 C1.w0 (← tbl128 Dec.Gen.BID_TEN2K128 (UInt64.ofInt (toI ((ind - (0x14 : Int32)))))))))))))
      x_exp := (x_exp - (((UInt64.ofInt (toI ind))) <<< 0x31))
    else
      ind := (exp + (0x1820 : Int32))
      if (decide (ind ≤ (0x13 : Int32))) then
        C1 := (← (if (decide (q1 ≤ (0x13 : Int32))) then (do pure (← mul_64x64_to_128MACH C1.w0 (← tbl64 Dec.Gen.BID_TEN2K64 (UInt64.ofInt (toI ind))))) else (do pure (← mul_128x64_to_128 (← tbl64 Dec.Gen.BID_TEN2K64 (UInt64.ofInt (toI ind))) C1))))
      else
        C1 := (← mul_128x64_to_128 C1.w0 (← tbl128 Dec.Gen.BID_TEN2K128 (UInt64.ofInt (toI ((ind - (0x14 : Int32)))))))
      x_exp := c_EXP_MIN
  k x_exp C1

/-- one unit in the last place away from zero (`away = true`) or towards zero, and repack -/
def stepK (away : Bool) (x_sign x_exp_ : UInt64) (C1_ : U128) (pfpsf : UInt32) : Except String (U128 × UInt32) := do
  let mut x_exp : UInt64 := x_exp_
  let mut C1 : U128 := C1_
  if away then
    C1 := { C1 with w0 := (C1.w0 + 1) }
    if (C1.w0 == (0 : UInt64)) then
      C1 := { C1 with w1 := (C1.w1 + 1) }
    if ((C1.w1 == (0x1ed09bead87c0 : UInt64)) && (C1.w0 == (0x378d8e6400000000 : UInt64))) then
      C1 := { C1 with w1 := (0x314dc6448d93 : UInt64) }
      C1 := { C1 with w0 := (0x38c15b0a00000000 : UInt64) }
      x_exp := (x_exp + c_EXP_P1)
  else
    C1 := { C1 with w0 := (C1.w0 - 1) }
    if (C1.w0 == (0xffffffffffffffff : UInt64)) then
      C1 := { C1 with w1 := (C1.w1 - 1) }
    if (((x_exp != (0 : UInt64)) && (C1.w1 == (0x314dc6448d93 : UInt64))) && (C1.w0 == (0x38c15b09ffffffff : UInt64))) then
      C1 := { C1 with w1 := (0x1ed09bead87c0 : UInt64) }
      C1 := { C1 with w0 := (0x378d8e63ffffffff : UInt64) }
      x_exp := (x_exp - c_EXP_P1)
  return (⟨C1.w0, (x_sign ||| x_exp) ||| C1.w1⟩, pfpsf)

/-- the general path: digit count, scaling, step, repack -/
def generalK (away : Bool) (x_sign x_exp : UInt64) (C1 : U128) (pfpsf : UInt32) : Except String (U128 × UInt32) :=
  nrBitsK C1 (fun nb => digitsK C1 nb (fun q1 => scaleK q1 x_exp C1 (fun x_exp C1 =>
    stepK away x_sign x_exp C1 pfpsf)))

set_option maxRecDepth 8000 in
/-- `bid128_nextup` is the chain of the stages -/
theorem nextup_shape (x : U128) (f : UInt32) : bid128_nextup x f =
    if (x.w1 &&& c_MASK_SPECIAL == c_MASK_SPECIAL) = true then specialK true x f
    else canonK x (fun x_exp C1 =>
      if (C1.w1 == 0 && C1.w0 == 0) = true then .ok (⟨1, 0⟩, f)
      else if (x.w1 == 0x5fffed09bead87c0 && x.w0 == 0x378d8e63ffffffff) = true then .ok (⟨0, 0x7800000000000000⟩, f)
      else if (x.w1 == 0x8000000000000000 && x.w0 == 1) = true then .ok (⟨0, 0x8000000000000000⟩, f)
      else generalK (x.w1 &&& c_MASK_SIGN == 0) (x.w1 &&& c_MASK_SIGN) x_exp C1 f) := by
  simp only [bid128_nextup, specialK, canonK, generalK, nrBitsK, digitsK, scaleK, stepK, bind, Except.bind, pure, Except.pure,
    ↓reduceIte, Bool.false_eq_true]

set_option maxRecDepth 8000 in
/-- `bid128_nextdown` is the chain of the same stages, with the other constants and the other direction -/
theorem nextdown_shape (x : U128) (f : UInt32) : bid128_nextdown x f =
    if (x.w1 &&& c_MASK_SPECIAL == c_MASK_SPECIAL) = true then specialK false x f
    else canonK x (fun x_exp C1 =>
      if (C1.w1 == 0 && C1.w0 == 0) = true then .ok (⟨1, 0x8000000000000000⟩, f)
      else if (x.w1 == 0xdfffed09bead87c0 && x.w0 == 0x378d8e63ffffffff) = true then .ok (⟨0, 0xf800000000000000⟩, f)
      else if (x.w1 == 0 && x.w0 == 1) = true then .ok (⟨0, 0⟩, f)
      else generalK (x.w1 &&& c_MASK_SIGN != 0) (x.w1 &&& c_MASK_SIGN) x_exp C1 f) := by
  simp only [bid128_nextdown, specialK, canonK, generalK, nrBitsK, digitsK, scaleK, stepK, bind, Except.bind, pure, Except.pure,
    ↓reduceIte, Bool.false_eq_true]

/-! ## 2. Front ends: NaN, infinity, zero -/

theorem and_qmask (w : Nat) : w &&& 0xfc003fffffffffff = (w / 2^58 % 2^6) * 2^58 + w % 2^46 := by
  have e : (0xfc003fffffffffff : Nat) = (2^6 - 1) * 2^58 ||| (2^46 - 1) := by decide
  rw [e, Nat.and_or_distrib_left, and_field, Nat.and_two_pow_sub_one_eq_mod, Nat.mul_comm,
    ← Nat.two_pow_add_eq_or_of_lt (by omega)]

theorem and_payclr (w : Nat) : w &&& 0xffffc00000000000 = (w / 2^46 % 2^18) * 2^46 :=
  and_field w 18 46

theorem decodeW_nan (h l : Nat) (hN : h / 2^58 % 32 = 31) :
    decodeW h l = .nan (decide (h / 2^63 % 2 = 1)) (decide (h / 2^57 % 2 = 1))
      (if h % 2^46 * 2^64 + l < P33 then h % 2^46 * 2^64 + l else 0) := by
  unfold decodeW
  rw [if_pos (by omega), if_neg (by omega)]

theorem decodeW_inf (h l : Nat) (hI : h / 2^59 % 16 = 15) (hN : h / 2^58 % 32 ≠ 31) :
    decodeW h l = .inf (decide (h / 2^63 % 2 = 1)) := by
  unfold decodeW
  rw [if_pos hI, if_pos (by omega)]

theorem qmask_toNat (w : UInt64) : (w &&& 0xfc003fffffffffff).toNat = (w.toNat / 2^58 % 2^6) * 2^58 + w.toNat % 2^46 := by
  rw [UInt64.toNat_and, show (0xfc003fffffffffff : UInt64).toNat = 0xfc003fffffffffff from rfl, and_qmask]

theorem payclr_toNat (w : UInt64) : (w &&& 0xffffc00000000000).toNat = (w.toNat / 2^46 % 2^18) * 2^46 := by
  rw [UInt64.toNat_and, show (0xffffc00000000000 : UInt64).toNat = 0xffffc00000000000 from rfl, and_payclr]

theorem pay_toNat (w : UInt64) : (w &&& 0x3fffffffffff).toNat = w.toNat % 2^46 := by
  rw [UInt64.toNat_and, show (0x3fffffffffff : UInt64).toNat = 2^46 - 1 from rfl, Nat.and_two_pow_sub_one_eq_mod]

theorem sign_toNat (w : UInt64) : (w &&& 0x8000000000000000).toNat = (w.toNat / 2^63 % 2) * 2^63 :=
  toNat_and_field w _ 1 63 (by decide)

theorem sign_zero_test (w : UInt64) : (w &&& 0x8000000000000000 == 0) = decide (w.toNat / 2^63 % 2 = 0) := by
  rw [Bool.eq_iff_iff, beq_iff_eq, decide_eq_true_eq, ← UInt64.toNat_inj, sign_toNat, UInt64.toNat_zero]
  omega

/-- the encoding of a quiet NaN, by words -/
theorem encode_qnan (s : Bool) (p : Nat) :
    encode (.nan s false p) = ((if s then 1 else 0) * 2^63 + 0x7c00000000000000) * 2^64 + p := by
  cases s <;> simp only [encode, signBit, Bool.false_eq_true, if_true, if_false] <;> omega

/-- **NaN operands** of `bid128_nextup` / `bid128_nextdown`: every NaN pattern (either sign, quiet or signalling,
payload canonical or not, reserved bits set or not) returns the canonical quiet NaN of the same sign and (canonical)
payload; `invalid` is or-ed into the status word iff the operand is signalling. -/
theorem specialK_nan (up : Bool) (x : U128) (f : UInt32) (hN : x.w1.toNat / 2^58 % 32 = 31) :
    specialK up x f = .ok (ofBits (encode (quietNaN (decode (bitsOf x)))), nanFlags f (decode (bitsOf x))) := by
  have hl := x.w0.toNat_lt
  have hh := x.w1.toNat_lt
  rw [decode_bitsOf, decodeW_nan _ _ hN]
  simp only [specialK, c_MASK_NAN, c_MASK_SNAN, c_StatusFlags_BID_INVALID_EXCEPTION, c_DEC_FE_INVALID, nan_test, snan_test,
    gt128, pay_toNat, quietNaN, nanFlags, Datum.isSNaN, encode_qnan, hN, decide_true, if_true]
  simp only [UInt64.toNat_ofNat, payclr_toNat, decide_eq_true_eq]
  have e57 : (x.w1.toNat / 2^57 % 64 = 63) ↔ (x.w1.toNat / 2^57 % 2 = 1) := by omega
  have e57' : (x.w1.toNat / 2^46 % 2^18 * 2^46 / 2^57 % 64 = 63) ↔ (x.w1.toNat / 2^57 % 2 = 1) := by omega
  simp only [e57, e57']
  by_cases hp : x.w1.toNat % 2^46 * 2^64 + x.w0.toNat < P33
  · have hp' : ¬ (54210108624275 % 2^64 * 2^64 + 4089650035136921599 % 2^64 < x.w1.toNat % 2^46 * 2^64 + x.w0.toNat) := by
      simp only [P33] at hp; omega
    rw [if_neg hp', if_pos hp]
    have hr : (⟨x.w0, x.w1 &&& 0xfc003fffffffffff⟩ : U128) = ofBits (((if x.w1.toNat / 2^63 % 2 = 1 then 1 else 0) * 2^63 + 0x7c00000000000000) * 2^64 + (x.w1.toNat % 2^46 * 2^64 + x.w0.toNat)) := by
      apply eq_ofBits
      simp only [bitsOf, qmask_toNat]
      split <;> omega
    by_cases hs : x.w1.toNat / 2^57 % 2 = 1
    · simp only [hs, if_true, decide_true, hr]
    · simp only [hs, if_false, decide_false, hr, Bool.false_eq_true]
  · have hp' : (54210108624275 % 2^64 * 2^64 + 4089650035136921599 % 2^64 < x.w1.toNat % 2^46 * 2^64 + x.w0.toNat) := by
      simp only [P33] at hp; omega
    rw [if_pos hp', if_neg hp]
    have hr : (⟨0, x.w1 &&& 0xffffc00000000000 &&& 0xfc003fffffffffff⟩ : U128) = ofBits (((if x.w1.toNat / 2^63 % 2 = 1 then 1 else 0) * 2^63 + 0x7c00000000000000) * 2^64 + 0) := by
      apply eq_ofBits
      simp only [bitsOf, qmask_toNat, payclr_toNat, UInt64.toNat_zero]
      split <;> omega
    by_cases hs : x.w1.toNat / 2^57 % 2 = 1
    · simp only [hs, if_true, decide_true, hr]
    · simp only [hs, if_false, decide_false, hr, Bool.false_eq_true]


theorem special_test (w : UInt64) : (w &&& c_MASK_SPECIAL == c_MASK_SPECIAL) = decide (w.toNat / 2^59 % 16 = 15) := inf_test w

/-- **infinite operands**: `next_up (+Inf) = +Inf`, `next_up (−Inf)` = the most negative finite number,
`next_down (+Inf)` = the largest finite number, `next_down (−Inf) = −Inf` (trailing bits of the operand are ignored);
no flag. -/
theorem specialK_inf (up : Bool) (x : U128) (f : UInt32) (hI : x.w1.toNat / 2^59 % 16 = 15) (hN : x.w1.toNat / 2^58 % 32 ≠ 31) :
    specialK up x f =
      .ok (ofBits (encode (if up then nextUpD (decode (bitsOf x)) else nextDownD (decode (bitsOf x)))), f) := by
  rw [decode_bitsOf, decodeW_inf _ _ hI hN]
  simp only [specialK, c_MASK_NAN, c_MASK_SIGN, nan_test, sign_zero_test, hN, decide_false, Bool.false_eq_true, if_false]
  by_cases hs : x.w1.toNat / 2^63 % 2 = 0
  · have hs' : ¬ x.w1.toNat / 2^63 % 2 = 1 := by omega
    simp only [hs, hs', decide_true, decide_false, if_true]
    cases up
    · exact congrArg (fun r => Except.ok (r, f)) (by decide +kernel)
    · exact congrArg (fun r => Except.ok (r, f)) (by decide +kernel)
  · have hs' : x.w1.toNat / 2^63 % 2 = 1 := by omega
    simp only [hs, hs', decide_true, decide_false, if_false, Bool.false_eq_true]
    cases up
    · exact congrArg (fun r => Except.ok (r, f)) (by decide +kernel)
    · exact congrArg (fun r => Except.ok (r, f)) (by decide +kernel)

/-- the coefficient stage on an operand that is a zero (coefficient field 0, or a non-canonical encoding):
the coefficient handed on is 0 -/
theorem canonK_zero {α : Type} (x : U128) (k : UInt64 → U128 → Except String α)
    (hz : zeroP x.w1.toNat x.w0.toNat) : ∃ xe C, canonK x k = k xe C ∧ (C.w1 == 0 && C.w0 == 0) = true := by
  unfold canonK
  delta c_MASK_COEFF
  simp only [bind, Except.bind, pure, Except.pure, steer_test, gt128, coeff_hi, UInt64.toNat_ofNat]
  unfold zeroP sigW at hz
  by_cases h1 : x.w1.toNat / 2^61 % 4 = 3
  · exact ⟨_, _, by rw [if_pos (by simpa using h1)], rfl⟩
  · rw [if_neg (by simpa using h1)]
    by_cases h2 : P34 ≤ x.w1.toNat % 2^49 * 2^64 + x.w0.toNat
    · refine ⟨_, _, by rw [if_pos]; simp only [decide_eq_true_eq, P34] at h2 ⊢; omega, rfl⟩
    · refine ⟨_, _, by rw [if_neg]; simp only [decide_eq_true_eq, P34] at h2 ⊢; omega, ?_⟩
      have h3 : x.w1.toNat % 2^49 * 2^64 + x.w0.toNat = 0 := by
        rcases hz with hz | hz | hz
        · exact absurd hz h1
        · exact absurd hz h2
        · exact hz
      rw [zero128, coeff_hi]
      simpa using h3

/-- the coefficient stage on a finite non-zero operand: exponent field and coefficient field as they are -/
theorem canonK_nz {α : Type} (x : U128) (k : UInt64 → U128 → Except String α) (hx : nzFin x) :
    canonK x k = k (x.w1 &&& c_MASK_EXP) ⟨x.w0, x.w1 &&& c_MASK_COEFF⟩ := by
  unfold canonK
  delta c_MASK_COEFF
  simp only [bind, Except.bind, pure, Except.pure, steer_test, gt128, coeff_hi, UInt64.toNat_ofNat]
  obtain ⟨_, hz⟩ := hx
  unfold zeroP sigW at hz
  rw [if_neg (by simp only [decide_eq_true_eq]; omega), if_neg (by simp only [decide_eq_true_eq, P34] at hz ⊢; omega)]

theorem decodeW_zero (h l : Nat) (hI : h / 2^59 % 16 ≠ 15) (hz : zeroP h l) :
    ∃ e, decodeW h l = .fin (decide (h / 2^63 % 2 = 1)) 0 e := by
  rcases decodeW_kind h l with ⟨hN, s, p, hd⟩ | ⟨hN, hI', hd⟩ | ⟨hI', hz', e, hd⟩ | ⟨hI', hS, hlt, hpos, hd⟩
  · omega
  · omega
  · exact ⟨e, hd⟩
  · unfold zeroP at hz; omega

theorem nextUpD_zero (s : Bool) (e : Int) : nextUpD (.fin s 0 e) = .fin false 1 eMin := rfl
theorem nextDownD_zero (s : Bool) (e : Int) : nextDownD (.fin s 0 e) = .fin true 1 eMin := rfl

/-- **zero operands** of `bid128_nextup` (either sign, any exponent; every non-canonical finite encoding is a zero):
the smallest positive subnormal `1·10^−6176`; no flag. -/
theorem nextup_zero (x : U128) (f : UInt32) (hI : x.w1.toNat / 2^59 % 16 ≠ 15) (hz : zeroP x.w1.toNat x.w0.toNat) :
    bid128_nextup x f = .ok (ofBits (encode (nextUpD (decode (bitsOf x)))), f) := by
  obtain ⟨e, hd⟩ := decodeW_zero _ _ hI hz
  obtain ⟨xe, C, h1, h2⟩ := canonK_zero x (fun x_exp C1 =>
      if (C1.w1 == 0 && C1.w0 == 0) = true then .ok (⟨1, 0⟩, f)
      else if (x.w1 == 0x5fffed09bead87c0 && x.w0 == 0x378d8e63ffffffff) = true then .ok (⟨0, 0x7800000000000000⟩, f)
      else if (x.w1 == 0x8000000000000000 && x.w0 == 1) = true then .ok (⟨0, 0x8000000000000000⟩, f)
      else generalK (x.w1 &&& c_MASK_SIGN == 0) (x.w1 &&& c_MASK_SIGN) x_exp C1 f) hz
  rw [nextup_shape, special_test, if_neg (by simpa using hI), h1, if_pos h2, decode_bitsOf, hd, nextUpD_zero]
  exact congrArg (fun r => Except.ok (r, f)) (by decide +kernel)

/-- **zero operands** of `bid128_nextdown`: the negative number of least magnitude `−1·10^−6176`; no flag. -/
theorem nextdown_zero (x : U128) (f : UInt32) (hI : x.w1.toNat / 2^59 % 16 ≠ 15) (hz : zeroP x.w1.toNat x.w0.toNat) :
    bid128_nextdown x f = .ok (ofBits (encode (nextDownD (decode (bitsOf x)))), f) := by
  obtain ⟨e, hd⟩ := decodeW_zero _ _ hI hz
  obtain ⟨xe, C, h1, h2⟩ := canonK_zero x (fun x_exp C1 =>
      if (C1.w1 == 0 && C1.w0 == 0) = true then .ok (⟨1, 0x8000000000000000⟩, f)
      else if (x.w1 == 0xdfffed09bead87c0 && x.w0 == 0x378d8e63ffffffff) = true then .ok (⟨0, 0xf800000000000000⟩, f)
      else if (x.w1 == 0 && x.w0 == 1) = true then .ok (⟨0, 0⟩, f)
      else generalK (x.w1 &&& c_MASK_SIGN != 0) (x.w1 &&& c_MASK_SIGN) x_exp C1 f) hz
  rw [nextdown_shape, special_test, if_neg (by simpa using hI), h1, if_pos h2, decode_bitsOf, hd]
  rw [nextDownD_zero]
  exact congrArg (fun r => Except.ok (r, f)) (by decide +kernel)


theorem upD_nan {d : Datum} (h : d.isNaN = true) : upD d = quietNaN d := by unfold upD; rw [if_pos h]
theorem downD_nan {d : Datum} (h : d.isNaN = true) : downD d = quietNaN d := by unfold downD; rw [if_pos h]
theorem upD_of_not_nan {d : Datum} (h : d.isNaN = false) : upD d = nextUpD d := by unfold upD; rw [if_neg (by simp [h])]
theorem downD_of_not_nan {d : Datum} (h : d.isNaN = false) : downD d = nextDownD d := by unfold downD; rw [if_neg (by simp [h])]
theorem nanFlags_of_not_nan (f : UInt32) {d : Datum} (h : d.isNaN = false) : nanFlags f d = f := by
  unfold nanFlags; rw [if_neg (by cases d <;> simp_all [Datum.isNaN, Datum.isSNaN])]

theorem isNaN_of_nan_bits (x : U128) (hN : x.w1.toNat / 2^58 % 32 = 31) : (decode (bitsOf x)).isNaN = true := by
  rw [decode_bitsOf, isNaN_decodeW]; simpa using hN
theorem not_isNaN_of_bits (x : U128) (hN : x.w1.toNat / 2^58 % 32 ≠ 31) : (decode (bitsOf x)).isNaN = false := by
  rw [decode_bitsOf, isNaN_decodeW]; simpa using hN

/-- **front ends of `bid128_nextup`**: whenever the operand decodes to a NaN, an infinity or a zero (any pattern,
including every non-canonical finite encoding), the routine returns the canonical encoding of the spec-level result and
the spec-level status word. -/
theorem nextup_front (x : U128) (f : UInt32) (h : special (decode (bitsOf x)) = true) :
    bid128_nextup x f = .ok (ofBits (encode (upD (decode (bitsOf x)))), nanFlags f (decode (bitsOf x))) := by
  have hnz := (special_iff x).1 h
  by_cases hI : x.w1.toNat / 2^59 % 16 = 15
  · rw [nextup_shape, special_test, if_pos (by simpa using hI)]
    by_cases hN : x.w1.toNat / 2^58 % 32 = 31
    · rw [specialK_nan _ _ _ hN, upD_nan (isNaN_of_nan_bits x hN)]
    · rw [specialK_inf _ _ _ hI hN, upD_of_not_nan (not_isNaN_of_bits x hN), nanFlags_of_not_nan _ (not_isNaN_of_bits x hN)]
      simp only [↓reduceIte, Bool.false_eq_true]
  · have hN : x.w1.toNat / 2^58 % 32 ≠ 31 := by omega
    have hz : zeroP x.w1.toNat x.w0.toNat := by
      unfold nzFin at hnz
      exact Classical.not_not.1 (fun hc => hnz ⟨hI, hc⟩)
    rw [nextup_zero x f hI hz, upD_of_not_nan (not_isNaN_of_bits x hN), nanFlags_of_not_nan _ (not_isNaN_of_bits x hN)]

/-- **front ends of `bid128_nextdown`**, likewise -/
theorem nextdown_front (x : U128) (f : UInt32) (h : special (decode (bitsOf x)) = true) :
    bid128_nextdown x f = .ok (ofBits (encode (downD (decode (bitsOf x)))), nanFlags f (decode (bitsOf x))) := by
  have hnz := (special_iff x).1 h
  by_cases hI : x.w1.toNat / 2^59 % 16 = 15
  · rw [nextdown_shape, special_test, if_pos (by simpa using hI)]
    by_cases hN : x.w1.toNat / 2^58 % 32 = 31
    · rw [specialK_nan _ _ _ hN, downD_nan (isNaN_of_nan_bits x hN)]
    · rw [specialK_inf _ _ _ hI hN, downD_of_not_nan (not_isNaN_of_bits x hN), nanFlags_of_not_nan _ (not_isNaN_of_bits x hN)]
      simp only [↓reduceIte, Bool.false_eq_true]
  · have hN : x.w1.toNat / 2^58 % 32 ≠ 31 := by omega
    have hz : zeroP x.w1.toNat x.w0.toNat := by
      unfold nzFin at hnz
      exact Classical.not_not.1 (fun hc => hnz ⟨hI, hc⟩)
    rw [nextdown_zero x f hI hz, downD_of_not_nan (not_isNaN_of_bits x hN), nanFlags_of_not_nan _ (not_isNaN_of_bits x hN)]

-- a signalling NaN with a non-canonical payload (≥ 10^33) and reserved bits set, inexact already raised:
-- the canonical quiet NaN with payload 0, invalid added
example : bid128_nextup ⟨5, 0xfe03ffffffffffff⟩ 0x20 = .ok (⟨0, 0xfc00000000000000⟩, 0x21) := by rfl
example : bid128_nextup ⟨5, 0xfe03ffffffffffff⟩ 0x20 = .ok (ofBits (encode (.nan true false 0)), 0x21) := by
  rw [nextup_front _ _ (by decide +kernel)]; decide +kernel
-- a quiet NaN with payload 2^64 + 5: unchanged, no flag;  −Inf with trailing garbage ↦ −MAX;  a non-canonical finite
-- encoding (coefficient field ≥ 10^34) is a zero ↦ +1E−6176 (next_up), −1E−6176 (next_down)
example : bid128_nextdown ⟨5, 0x7c00000000000001⟩ 0 = .ok (⟨5, 0x7c00000000000001⟩, 0) := by rfl
example : bid128_nextup ⟨77, 0xf800000000000123⟩ 0 = .ok (⟨0x378d8e63ffffffff, 0xdfffed09bead87c0⟩, 0) := by rfl
example : bid128_nextup ⟨0xffffffffffffffff, 0xb041ffffffffffff⟩ 0 = .ok (⟨1, 0⟩, 0) := by rfl
example : bid128_nextdown ⟨0xffffffffffffffff, 0x3041ffffffffffff⟩ 0 = .ok (⟨1, 0x8000000000000000⟩, 0) := by
  rw [nextdown_front _ _ (by decide +kernel)]; decide +kernel

/-! ## 3. The digit-count block

`x_nr_bits` = bit length of the coefficient, read off the exponent field of the coefficient (or of its high word, or of
the top 32 bits of its low word) converted to `f64`; `q1` = `BID_NR_DIGITS[x_nr_bits − 1]`, corrected by a comparison
with the tabulated power of ten when the binary bucket straddles one.  Result: `q1 = ndigits C` for every
`0 < C < 2^113`, in particular for every canonical non-zero coefficient. -/

theorem toI_u64 (a : UInt64) : toI a = (a.toNat : Int) := rfl
theorem toI_u32 (a : UInt32) : toI a = (a.toNat : Int) := rfl
theorem toI_i32 (a : Int32) : toI a = a.toInt := rfl

theorem ofInt_toI (v : UInt64) : UInt64.ofInt (toI v) = v := by
  rw [← UInt64.toNat_inj, toI_u64, ofInt_natCast64, Nat.mod_eq_of_lt v.toNat_lt]

theorem bmod32 (n : Int) (h1 : -2^31 ≤ n) (h2 : n < 2^31) : n.bmod (2^32) = n :=
  Int.bmod_eq_of_le (by omega) (by omega)

/-- the exponent field of `n as f64` is the position of the leading bit of `n` (exact: `n < 2^53` is not rounded) -/
theorem float_exp (n : Nat) (h0 : 0 < n) (h : n < 2^53) :
    floatBitsOfNat 52 1023 n / 2^52 = n.log2 + 1023 ∧ floatBitsOfNat 52 1023 n < 2^63 := by
  have hne : n ≠ 0 := by omega
  have hl : n.log2 < 53 := (Nat.log2_lt hne).2 h
  have hlo : 2 ^ n.log2 ≤ n := Nat.log2_self_le hne
  have hhi : n < 2 ^ (n.log2 + 1) := Nat.lt_log2_self
  unfold floatBitsOfNat
  simp only [hne, if_false, show n.log2 ≤ 52 from by omega, if_true]
  generalize n.log2 = l at *
  have e : 2 ^ l * 2 ^ (52 - l) = 2 ^ 52 := by rw [← Nat.pow_add]; congr 1; omega
  have hp : 0 < 2 ^ (52 - l) := Nat.pow_pos (by decide)
  have h1 : 2 ^ 52 ≤ n * 2 ^ (52 - l) := by rw [← e]; exact Nat.mul_le_mul_right _ hlo
  have h2 : n * 2 ^ (52 - l) < 2 * 2 ^ 52 := by
    rw [← e, ← Nat.mul_assoc, ← Nat.pow_succ']; exact Nat.mul_lt_mul_of_pos_right hhi hp
  generalize n * 2 ^ (52 - l) = m at *
  constructor
  · omega
  · omega

/-- the code's bit-length computation through the exponent field of a double: `K + (biased exponent − 1023)` -/
theorem nr_bits (v K : UInt64) (h0 : 0 < v.toNat) (h53 : v.toNat < 2^53) (hK : K.toNat ≤ 65) :
    K + (((F64U.ofU64 (UInt64.ofInt (toI v))).bits >>> 52 &&& 2047) - 1023) = UInt64.ofNat (K.toNat + v.toNat.log2) := by
  obtain ⟨f1, f2⟩ := float_exp v.toNat h0 h53
  have hl : v.toNat.log2 < 53 := (Nat.log2_lt (by omega)).2 h53
  have e2 : ((F64U.ofU64 v).bits >>> 52).toNat = v.toNat.log2 + 1023 := by
    rw [UInt64.toNat_shiftRight, F64U.ofU64, UInt64.toNat_ofNat', Nat.mod_eq_of_lt (by omega),
      show (52 : UInt64).toNat % 64 = 52 from by decide, Nat.shiftRight_eq_div_pow, f1]
  rw [ofInt_toI, ← UInt64.toNat_inj, UInt64.toNat_add, UInt64.toNat_sub, UInt64.toNat_and, e2,
    show (2047 : UInt64).toNat = 2^11 - 1 from by decide, Nat.and_two_pow_sub_one_eq_mod,
    show (1023 : UInt64).toNat = 1023 from by decide, UInt64.toNat_ofNat']
  omega

/-- bit length of the low word through its top 32 bits -/
theorem log2_shift (l : Nat) (h : 2^53 ≤ l) : 32 + (l / 2^32).log2 = l.log2 := by
  have hne : l / 2^32 ≠ 0 := by omega
  have h1 := Nat.log2_self_le hne
  have h2 := @Nat.lt_log2_self (l / 2^32)
  symm
  rw [Nat.log2_eq_iff (by omega)]
  generalize (l / 2^32).log2 = k at *
  rw [show 32 + k + 1 = 32 + (k + 1) from rfl, Nat.pow_add, Nat.pow_add]
  generalize 2^k = A at *
  generalize 2^(k+1) = B at *
  omega

theorem log2_hi (hi l : Nat) (h0 : hi ≠ 0) (hl : l < 2^64) : 64 + hi.log2 = (hi * 2^64 + l).log2 := by
  have h1 := Nat.log2_self_le h0
  have h2 := @Nat.lt_log2_self hi
  symm
  rw [Nat.log2_eq_iff (by omega)]
  generalize hi.log2 = k at *
  rw [show 64 + k + 1 = 64 + (k + 1) from rfl, Nat.pow_add, Nat.pow_add]
  generalize 2^k = A at *
  generalize 2^(k+1) = B at *
  omega

theorem u64_ge (a b : UInt64) : decide (a ≥ b) = decide (b.toNat ≤ a.toNat) := by
  rw [decide_eq_decide, ge_iff_le, UInt64.le_iff_toNat_le]

theorem u64_beq_zero (a : UInt64) : (a == 0) = decide (a.toNat = 0) := by
  rw [Bool.eq_iff_iff, beq_iff_eq, decide_eq_true_eq, ← UInt64.toNat_inj, UInt64.toNat_zero]

/-- **bit length**: for every coefficient `0 < C < 2^113` the stage hands on `⌊log₂ C⌋ + 1` -/
theorem nrBitsK_spec {α : Type} (C1 : U128) (k : UInt64 → Except String α) (h0 : 0 < val128 C1) (hC : val128 C1 < 2^113) :
    nrBitsK C1 k = k (UInt64.ofNat ((val128 C1).log2 + 1)) := by
  have hl := C1.w0.toNat_lt
  unfold val128 at h0 hC ⊢
  unfold nrBitsK
  simp only [bind, Except.bind, pure, Except.pure, u64_beq_zero, u64_ge, UInt64.toNat_ofNat]
  by_cases c5 : C1.w1.toNat = 0
  · rw [if_pos (by simpa using c5)]
    by_cases c6 : 2^53 ≤ C1.w0.toNat
    · rw [if_pos (by simpa using c6), if_pos (by simp only [decide_eq_true_eq]; omega),
        nr_bits _ 33 (by rw [high32]; omega) (by rw [high32]; omega) (by decide)]
      rw [high32, show UInt64.toNat 33 = 32 + 1 from by decide, c5, Nat.zero_mul, Nat.zero_add, ← log2_shift _ c6]
      congr 2; omega
    · rw [if_neg (by simpa using c6), nr_bits _ 1 (by omega) (by omega) (by decide)]
      rw [show UInt64.toNat 1 = 1 from by decide, c5, Nat.zero_mul, Nat.zero_add, Nat.add_comm]
  · rw [if_neg (by simpa using c5), nr_bits _ 65 (by omega) (by omega) (by decide)]
    rw [show UInt64.toNat 65 = 64 + 1 from by decide, ← log2_hi _ _ c5 hl]
    congr 2; omega


theorem nr_len : Dec.Gen.BID_NR_DIGITS.length = 452 := by decide +kernel

theorem getElem?_getD (t : List Nat) (k : Nat) (h : k < t.length) : t[k]? = some (t.getD k 0) := by
  rw [List.getD_eq_getElem?_getD, List.getElem?_eq_getElem h, Option.getD_some]

/-- the table access of the code, on the index range the code uses -/
theorem tblDD_nr (i : Nat) (hi : i < 113) :
    tblDD Dec.Gen.BID_NR_DIGITS (UInt64.ofNat i) =
      .ok ⟨UInt32.ofNat (Dec.Gen.BID_NR_DIGITS.getD (i * 4 + 0) 0), UInt64.ofNat (Dec.Gen.BID_NR_DIGITS.getD (i * 4 + 1) 0),
        UInt64.ofNat (Dec.Gen.BID_NR_DIGITS.getD (i * 4 + 2) 0), UInt32.ofNat (Dec.Gen.BID_NR_DIGITS.getD (i * 4 + 3) 0)⟩ := by
  unfold tblDD
  rw [UInt64.toNat_ofNat', Nat.mod_eq_of_lt (by omega)]
  rw [getElem?_getD _ (4 * i) (by rw [nr_len]; omega), getElem?_getD _ (4 * i + 1) (by rw [nr_len]; omega),
    getElem?_getD _ (4 * i + 2) (by rw [nr_len]; omega), getElem?_getD _ (4 * i + 3) (by rw [nr_len]; omega)]
  simp only [Nat.mul_comm 4 i, Nat.add_zero]

/-- the digit-count stage once the table entry is known -/
theorem digitsK_eval {α : Type} (C1 : U128) (nb : UInt64) (k : Int32 → Except String α) (D D1 : UInt32) (THI TLO : UInt64)
    (ht : tblDD Dec.Gen.BID_NR_DIGITS (nb - 1) = .ok ⟨D, THI, TLO, D1⟩) :
    digitsK C1 nb k =
      k (if Int32.ofInt (toI D) = 0 then
          (if THI.toNat * 2^64 + TLO.toNat ≤ val128 C1 then Int32.ofInt (toI D1) + 1 else Int32.ofInt (toI D1))
        else Int32.ofInt (toI D)) := by
  obtain ⟨c0, c1⟩ := C1
  have := c0.toNat_lt; have := TLO.toNat_lt
  unfold val128
  simp only [digitsK, bind, Except.bind, pure, Except.pure, ht]
  by_cases h0 : Int32.ofInt (toI D) = 0
  · simp only [h0, beq_self_eq_true, if_true]
    by_cases h1 : c1 > THI
    · have : THI.toNat * 2^64 + TLO.toNat ≤ c1.toNat * 2^64 + c0.toNat := by
        rw [gt_iff_lt, UInt64.lt_iff_toNat_lt] at h1; omega
      simp only [h1, decide_true, if_true, this]
    · by_cases h2 : c1 = THI
      · subst h2
        by_cases h3 : c0 ≥ TLO
        · have : c1.toNat * 2^64 + TLO.toNat ≤ c1.toNat * 2^64 + c0.toNat := by
            rw [ge_iff_le, UInt64.le_iff_toNat_le] at h3; omega
          simp only [h1, decide_false, Bool.false_eq_true, if_false, beq_self_eq_true, if_true, h3, decide_true, this]
        · have : ¬ c1.toNat * 2^64 + TLO.toNat ≤ c1.toNat * 2^64 + c0.toNat := by
            rw [ge_iff_le, UInt64.le_iff_toNat_le] at h3; omega
          simp only [h1, decide_false, Bool.false_eq_true, if_false, beq_self_eq_true, if_true, h3, this]
      · have : ¬ THI.toNat * 2^64 + TLO.toNat ≤ c1.toNat * 2^64 + c0.toNat := by
          rw [gt_iff_lt, UInt64.lt_iff_toNat_lt] at h1
          rw [← UInt64.toNat_inj] at h2
          omega
        have h2' : (c1 == THI) = false := by rw [beq_eq_false_iff_ne]; exact h2
        simp only [h1, decide_false, Bool.false_eq_true, if_false, h2', this]
  · have h0' : (Int32.ofInt (toI D) == 0) = false := by rw [beq_eq_false_iff_ne]; exact h0
    simp only [h0', Bool.false_eq_true, if_false, h0]

theorem nr_bounds : (List.range 113).all (fun i =>
    decide (Dec.Gen.BID_NR_DIGITS.getD (i * 4 + 0) 0 < 64) && decide (Dec.Gen.BID_NR_DIGITS.getD (i * 4 + 1) 0 < 2^64) &&
    decide (Dec.Gen.BID_NR_DIGITS.getD (i * 4 + 2) 0 < 2^64) && decide (Dec.Gen.BID_NR_DIGITS.getD (i * 4 + 3) 0 < 64)) = true := by
  decide +kernel

theorem nr_bound (i : Nat) (hi : i < 113) :
    Dec.Gen.BID_NR_DIGITS.getD (i * 4 + 0) 0 < 64 ∧ Dec.Gen.BID_NR_DIGITS.getD (i * 4 + 1) 0 < 2^64 ∧
    Dec.Gen.BID_NR_DIGITS.getD (i * 4 + 2) 0 < 2^64 ∧ Dec.Gen.BID_NR_DIGITS.getD (i * 4 + 3) 0 < 64 := by
  have h := List.all_eq_true.1 nr_bounds i (List.mem_range.2 hi)
  simpa only [Bool.and_eq_true, decide_eq_true_eq, and_assoc] using h

theorem i32_of_small (n : Nat) (h : n < 2^31) : (Int32.ofInt (toI (UInt32.ofNat n))).toInt = n := by
  rw [toI_u32, UInt32.toNat_ofNat', Nat.mod_eq_of_lt (by omega), Int32.toInt_ofInt_of_le (by omega) (by omega)]

/-- the digit count the code derives from the table entry of the bit length of `C` is `ndigits C` -/
theorem nr_q (C : Nat) (h0 : 0 < C) (hC : C < 2^113) :
    (if Int32.ofInt (toI (UInt32.ofNat (Dec.Gen.BID_NR_DIGITS.getD (C.log2 * 4 + 0) 0))) = 0 then
      (if (UInt64.ofNat (Dec.Gen.BID_NR_DIGITS.getD (C.log2 * 4 + 1) 0)).toNat * 2^64
            + (UInt64.ofNat (Dec.Gen.BID_NR_DIGITS.getD (C.log2 * 4 + 2) 0)).toNat ≤ C
        then Int32.ofInt (toI (UInt32.ofNat (Dec.Gen.BID_NR_DIGITS.getD (C.log2 * 4 + 3) 0))) + 1
        else Int32.ofInt (toI (UInt32.ofNat (Dec.Gen.BID_NR_DIGITS.getD (C.log2 * 4 + 3) 0))))
      else Int32.ofInt (toI (UInt32.ofNat (Dec.Gen.BID_NR_DIGITS.getD (C.log2 * 4 + 0) 0)))).toInt = (ndigits C : Int) := by
  have hL : C.log2 < 113 := (Nat.log2_lt (by omega)).2 hC
  obtain ⟨b0, b1, b2, b3⟩ := nr_bound _ hL
  rw [← Dec.TableFacts.nrDigits_mechanism_ndigits h0 hC]
  unfold Dec.TableFacts.nrDigitsLookup
  simp only []
  rw [UInt64.toNat_ofNat', UInt64.toNat_ofNat', Nat.mod_eq_of_lt b1, Nat.mod_eq_of_lt b2]
  generalize Dec.Gen.BID_NR_DIGITS.getD (C.log2 * 4 + 0) 0 = d at *
  generalize Dec.Gen.BID_NR_DIGITS.getD (C.log2 * 4 + 1) 0 = thi at *
  generalize Dec.Gen.BID_NR_DIGITS.getD (C.log2 * 4 + 2) 0 = tlo at *
  generalize Dec.Gen.BID_NR_DIGITS.getD (C.log2 * 4 + 3) 0 = d1 at *
  have e0 : (Int32.ofInt (toI (UInt32.ofNat d)) = 0) ↔ d = 0 := by
    rw [← Int32.toInt_inj, i32_of_small d (by omega)]
    simp
  by_cases hd : d = 0
  · rw [if_pos (e0.2 hd), if_neg (show ¬ d ≠ 0 from fun h => h hd)]
    by_cases ht : thi * 2^64 + tlo ≤ C
    · rw [if_pos ht, if_pos (show C ≥ thi * 2^64 + tlo from ht), Int32.toInt_add, i32_of_small d1 (by omega),
        show (1 : Int32).toInt = 1 from by decide, bmod32 _ (by omega) (by omega)]
      omega
    · rw [if_neg ht, if_neg (show ¬ C ≥ thi * 2^64 + tlo from ht), i32_of_small d1 (by omega)]
  · rw [if_neg (fun h => hd (e0.1 h)), if_pos hd, i32_of_small d (by omega)]

/-- **digit count** (stages 2 and 3 together): for every coefficient `0 < C < 2^113` — in particular every canonical
non-zero coefficient — the block hands on `q1 = ndigits C`, and no table access panics. -/
theorem digit_count {α : Type} (C1 : U128) (k : Int32 → Except String α) (h0 : 0 < val128 C1) (hC : val128 C1 < 2^113) :
    ∃ Q : Int32, Q.toInt = (ndigits (val128 C1) : Int) ∧ nrBitsK C1 (fun nb => digitsK C1 nb k) = k Q := by
  have hL : (val128 C1).log2 < 113 := (Nat.log2_lt (by omega)).2 hC
  have hidx : UInt64.ofNat ((val128 C1).log2 + 1) - 1 = UInt64.ofNat (val128 C1).log2 := by
    rw [← UInt64.toNat_inj, UInt64.toNat_sub, UInt64.toNat_ofNat', UInt64.toNat_ofNat', UInt64.toNat_one]
    omega
  rw [nrBitsK_spec C1 _ h0 hC, digitsK_eval C1 _ k _ _ _ _ (by rw [hidx]; exact tblDD_nr _ hL)]
  exact ⟨_, nr_q _ h0 hC, rfl⟩

-- 999 and 1000 lie in the same binary bucket [512, 1024): three and four digits; 10^20 needs the two-word threshold
example : nrBitsK ⟨999, 0⟩ (fun nb => digitsK ⟨999, 0⟩ nb (fun q => .ok q)) = .ok 3 := by rfl
example : nrBitsK ⟨1000, 0⟩ (fun nb => digitsK ⟨1000, 0⟩ nb (fun q => .ok q)) = .ok 4 := by rfl
example : nrBitsK ⟨0x6bc75e2d63100000, 5⟩ (fun nb => digitsK ⟨0x6bc75e2d63100000, 5⟩ nb (fun q => .ok q)) = .ok 21 := by rfl
example : ndigits (val128 ⟨0x6bc75e2d63100000, 5⟩) = 21 := by decide +kernel

/-! ## 4. Scaling the coefficient -/

/-- `__mul_64x64_to_128MACH` is textually `__mul_64x64_to_128` -/
theorem mach_eq (a b : UInt64) : mul_64x64_to_128MACH a b = mul_64x64_to_128 a b := rfl

theorem mach_spec (a b : UInt64) : ∃ r, mul_64x64_to_128MACH a b = .ok r ∧ val128 r = a.toNat * b.toNat := by
  rw [mach_eq]; exact mul_64x64_to_128_spec a b

/-- `__mul_128x64_to_128`: the low 128 bits of the product -/
theorem mul_128x64_spec (a : UInt64) (B : U128) :
    ∃ r, mul_128x64_to_128 a B = .ok r ∧ val128 r = (a.toNat * val128 B) % 2^128 := by
  obtain ⟨q, hq, qv⟩ := mach_spec a B.w0
  refine ⟨⟨q.w0, q.w1 + a * B.w1⟩, ?_, ?_⟩
  · simp only [mul_128x64_to_128, bind, Except.bind, pure, Except.pure, hq]
  · have e : a.toNat * val128 B = a.toNat * B.w1.toNat * 2^64 + a.toNat * B.w0.toNat := by unfold val128; ring
    rw [e, ← qv]
    simp only [val128, UInt64.toNat_add, UInt64.toNat_mul]
    have := q.w0.toNat_lt; have := q.w1.toNat_lt
    generalize a.toNat * B.w1.toNat = m
    omega

example : mul_128x64_to_128 0xffffffffffffffff ⟨0xffffffffffffffff, 0xffffffffffffffff⟩ = .ok ⟨1, 0xffffffffffffffff⟩ := by rfl

/-- a small non-negative `i32` used as a table index -/
theorem idx_toNat (i : Int32) (n : Nat) (hi : i.toInt = n) : (UInt64.ofInt (toI i)).toNat = n := by
  have := i.toInt_lt
  rw [toI_i32, hi, ofInt_natCast64]
  have : (n : Int) < 2^31 := by rw [← hi]; exact i.toInt_lt
  omega

theorem sub20_toInt (i : Int32) (n : Nat) (hi : i.toInt = n) (h20 : 20 ≤ n) : (i - 20).toInt = ((n - 20 : Nat) : Int) := by
  have : (n : Int) < 2^31 := by rw [← hi]; exact i.toInt_lt
  rw [Int32.toInt_sub, hi, show (20 : Int32).toInt = 20 from rfl, bmod32 _ (by omega) (by omega)]
  omega

/-- one-word coefficient times `10^n`, `n ≤ 19`: the exact product -/
theorem scaleM1 (c : UInt64) (i : Int32) (n : Nat) (hi : i.toInt = n) (hn : n ≤ 19) :
    ∃ t r, tbl64 Dec.Gen.BID_TEN2K64 (UInt64.ofInt (toI i)) = .ok t ∧ mul_64x64_to_128MACH c t = .ok r ∧
      val128 r = c.toNat * 10 ^ n := by
  obtain ⟨t, ht, tv⟩ := tbl64_ten (UInt64.ofInt (toI i)) (by rw [idx_toNat i n hi]; omega)
  obtain ⟨r, hr, rv⟩ := mach_spec c t
  exact ⟨t, r, ht, hr, by rw [rv, tv, idx_toNat i n hi]⟩

/-- one-word coefficient times `10^n`, `20 ≤ n ≤ 38`: the low 128 bits of the product -/
theorem scaleM2 (c : UInt64) (i : Int32) (n : Nat) (hi : i.toInt = n) (h20 : 20 ≤ n) (h38 : n ≤ 38) :
    ∃ t r, tbl128 Dec.Gen.BID_TEN2K128 (UInt64.ofInt (toI (i - 20))) = .ok t ∧ mul_128x64_to_128 c t = .ok r ∧
      val128 r = (c.toNat * 10 ^ n) % 2^128 := by
  have hidx := idx_toNat (i - 20) (n - 20) (sub20_toInt i n hi h20)
  obtain ⟨t, ht, tv⟩ := tbl128_ten (UInt64.ofInt (toI (i - 20))) (by rw [hidx]; omega)
  obtain ⟨r, hr, rv⟩ := mul_128x64_spec c t
  refine ⟨t, r, ht, hr, ?_⟩
  rw [rv, tv, hidx, show n - 20 + 20 = n from by omega]

/-- two-word coefficient times `10^n`, `n ≤ 19`: the low 128 bits of the product -/
theorem scaleM3 (C1 : U128) (i : Int32) (n : Nat) (hi : i.toInt = n) (hn : n ≤ 19) :
    ∃ t r, tbl64 Dec.Gen.BID_TEN2K64 (UInt64.ofInt (toI i)) = .ok t ∧ mul_128x64_to_128 t C1 = .ok r ∧
      val128 r = (val128 C1 * 10 ^ n) % 2^128 := by
  obtain ⟨t, ht, tv⟩ := tbl64_ten (UInt64.ofInt (toI i)) (by rw [idx_toNat i n hi]; omega)
  obtain ⟨r, hr, rv⟩ := mul_128x64_spec t C1
  exact ⟨t, r, ht, hr, by rw [rv, tv, idx_toNat i n hi, Nat.mul_comm]⟩


theorem P34_toInt : c_P34.toInt = 34 := rfl

/-- the unbiased exponent as the code computes it (`(x_exp >> 49) − 6176` in `u64`, cast to `i32`), biased again -/
theorem exp_toInt (xe : UInt64) (E : Nat) (hE : xe.toNat = E * 2^49) (hE' : E < 2^14) :
    (Int32.ofInt (toI (xe >>> 49 - 6176)) + 6176).toInt = E := by
  have e1 : (xe >>> 49 - 6176).toNat = (2^64 - 6176 + E) % 2^64 := by
    rw [UInt64.toNat_sub, UInt64.toNat_shiftRight, hE, show (49 : UInt64).toNat % 64 = 49 from by decide,
      Nat.shiftRight_eq_div_pow, Nat.mul_div_cancel _ (by decide), show (6176 : UInt64).toNat = 6176 from by decide]
  rw [Int32.toInt_add, Int32.toInt_ofInt, toI_u64, e1, show (6176 : Int32).toInt = 6176 from rfl,
    show Int32.size = 4294967296 from rfl, Int.bmod_def, Int.bmod_def]
  omega

theorem P34_sub_toInt (Q : Int32) (q : Nat) (hQ : Q.toInt = q) (hq : q ≤ 34) : (c_P34 - Q).toInt = ((34 - q : Nat) : Int) := by
  rw [Int32.toInt_sub, P34_toInt, hQ, bmod32 _ (by omega) (by omega)]
  omega

theorem shl49 (w : UInt64) (n : Nat) (hw : w.toNat = n) (hn : n < 2^15) : (w <<< 49).toNat = n * 2^49 := by
  rw [UInt64.toNat_shiftLeft, hw, show (49 : UInt64).toNat % 64 = 49 from by decide, Nat.shiftLeft_eq]
  omega

theorem pow_le_34 (n : Nat) (h : n ≤ 34) : 10 ^ n ≤ 10 ^ 34 := Nat.pow_le_pow_right (by decide) h

/-- the scaled coefficient stays below `10^34` -/
theorem scaled_lt (C q n : Nat) (hC : C < 10 ^ q) (hn : q + n ≤ 34) : C * 10 ^ n < 10 ^ 34 :=
  calc C * 10 ^ n < 10 ^ q * 10 ^ n := Nat.mul_lt_mul_of_pos_right hC (Nat.pow_pos (by decide))
    _ = 10 ^ (q + n) := (Nat.pow_add 10 q n).symm
    _ ≤ 10 ^ 34 := pow_le_34 _ hn

theorem fits_word (C q : Nat) (hC : C < 10 ^ q) (hq : q ≤ 19) : C < 2^64 :=
  calc C < 10 ^ q := hC
    _ ≤ 10 ^ 19 := Nat.pow_le_pow_right (by decide) hq
    _ < 2 ^ 64 := by decide

theorem val128_word (C1 : U128) (h : val128 C1 < 2^64) : val128 C1 = C1.w0.toNat := by
  have := C1.w0.toNat_lt
  unfold val128 at h ⊢; omega

/-- **scaling stage**: a coefficient of `q` digits with biased exponent `E` is multiplied by `10^n`,
`n = min (34 − q) E` (as far as 34 digits and the least exponent allow), the exponent field lowered by `n`;
no table access panics. -/
theorem scaleK_spec {α : Type} (Q : Int32) (xe : UInt64) (C1 : U128) (k : UInt64 → U128 → Except String α)
    (q E : Nat) (hQ : Q.toInt = q) (hq1 : 1 ≤ q) (hq34 : q ≤ 34) (hE : xe.toNat = E * 2^49) (hE' : E < 2^14)
    (hC : val128 C1 < 10 ^ q) :
    ∃ xe' C1', scaleK Q xe C1 k = k xe' C1' ∧ val128 C1' = val128 C1 * 10 ^ (min (34 - q) E) ∧
      xe'.toNat = (E - min (34 - q) E) * 2^49 := by
  have hexp := exp_toInt xe E hE hE'
  have hsub := P34_sub_toInt Q q hQ hq34
  unfold scaleK
  simp only [bind, Except.bind, pure, Except.pure]
  by_cases h34 : Q < c_P34
  · rw [if_pos (by simpa using h34)]
    rw [Int32.lt_iff_toInt_lt, P34_toInt, hQ] at h34
    by_cases hgt : Int32.ofInt (toI (xe >>> 49 - 6176)) + 6176 > c_P34 - Q
    · rw [if_pos (by simpa using hgt)]
      rw [gt_iff_lt, Int32.lt_iff_toInt_lt, hexp, hsub] at hgt
      have hmin : min (34 - q) E = 34 - q := by omega
      have hxe : (xe - UInt64.ofInt (toI (c_P34 - Q)) <<< 49).toNat = (E - (34 - q)) * 2^49 := by
        rw [UInt64.toNat_sub, shl49 _ (34 - q) (idx_toNat _ _ hsub) (by omega), hE]
        have : (34 - q) * 2^49 ≤ E * 2^49 := Nat.mul_le_mul_right _ (by omega)
        rw [Nat.sub_mul]
        omega
      have hlt := scaled_lt _ q (34 - q) hC (by omega)
      rw [hmin]
      by_cases h19 : Q ≤ 19
      · rw [if_pos (by simpa using h19)]
        rw [Int32.le_iff_toInt_le, hQ, show (19 : Int32).toInt = 19 from rfl] at h19
        have hw := val128_word C1 (fits_word _ q hC (by omega))
        by_cases hi19 : c_P34 - Q ≤ 19
        · rw [if_pos (by simpa using hi19)]
          rw [Int32.le_iff_toInt_le, hsub, show (19 : Int32).toInt = 19 from rfl] at hi19
          obtain ⟨t, r, ht, hr, rv⟩ := scaleM1 C1.w0 (c_P34 - Q) (34 - q) hsub (by omega)
          simp only [ht, hr]
          exact ⟨_, _, rfl, by rw [rv, hw], hxe⟩
        · rw [if_neg (by simpa using hi19)]
          rw [Int32.le_iff_toInt_le, hsub, show (19 : Int32).toInt = 19 from rfl] at hi19
          obtain ⟨t, r, ht, hr, rv⟩ := scaleM2 C1.w0 (c_P34 - Q) (34 - q) hsub (by omega) (by omega)
          simp only [ht, hr]
          refine ⟨_, _, rfl, ?_, hxe⟩
          rw [rv, ← hw, Nat.mod_eq_of_lt (by omega)]
      · rw [if_neg (by simpa using h19)]
        rw [Int32.le_iff_toInt_le, hQ, show (19 : Int32).toInt = 19 from rfl] at h19
        have hi14 : c_P34 - Q ≤ 14 := by
          rw [Int32.le_iff_toInt_le, hsub, show (14 : Int32).toInt = 14 from rfl]; omega
        rw [if_pos (by simpa using hi14)]
        obtain ⟨t, r, ht, hr, rv⟩ := scaleM3 C1 (c_P34 - Q) (34 - q) hsub (by omega)
        simp only [ht, hr]
        refine ⟨_, _, rfl, ?_, hxe⟩
        rw [rv, Nat.mod_eq_of_lt (by omega)]
    · rw [if_neg (by simpa using hgt)]
      rw [gt_iff_lt, Int32.lt_iff_toInt_lt, hexp, hsub] at hgt
      have hmin : min (34 - q) E = E := by omega
      have hxe : c_EXP_MIN.toNat = (E - E) * 2^49 := by rw [Nat.sub_self, Nat.zero_mul]; rfl
      have hlt := scaled_lt _ q E hC (by omega)
      rw [hmin]
      by_cases hi19 : Int32.ofInt (toI (xe >>> 49 - 6176)) + 6176 ≤ 19
      · rw [if_pos (by simpa using hi19)]
        rw [Int32.le_iff_toInt_le, hexp, show (19 : Int32).toInt = 19 from rfl] at hi19
        by_cases h19 : Q ≤ 19
        · rw [if_pos (by simpa using h19)]
          rw [Int32.le_iff_toInt_le, hQ, show (19 : Int32).toInt = 19 from rfl] at h19
          have hw := val128_word C1 (fits_word _ q hC (by omega))
          obtain ⟨t, r, ht, hr, rv⟩ := scaleM1 C1.w0 _ E hexp (by omega)
          simp only [ht, hr]
          exact ⟨_, _, rfl, by rw [rv, hw], hxe⟩
        · rw [if_neg (by simpa using h19)]
          obtain ⟨t, r, ht, hr, rv⟩ := scaleM3 C1 _ E hexp (by omega)
          simp only [ht, hr]
          refine ⟨_, _, rfl, ?_, hxe⟩
          rw [rv, Nat.mod_eq_of_lt (by omega)]
      · rw [if_neg (by simpa using hi19)]
        rw [Int32.le_iff_toInt_le, hexp, show (19 : Int32).toInt = 19 from rfl] at hi19
        have hw := val128_word C1 (fits_word _ q hC (by omega))
        obtain ⟨t, r, ht, hr, rv⟩ := scaleM2 C1.w0 _ E hexp (by omega) (by omega)
        simp only [ht, hr]
        refine ⟨_, _, rfl, ?_, hxe⟩
        rw [rv, ← hw, Nat.mod_eq_of_lt (by omega)]
  · rw [if_neg (by simpa using h34)]
    rw [Int32.lt_iff_toInt_lt, P34_toInt, hQ] at h34
    have hmin : min (34 - q) E = 0 := by omega
    exact ⟨_, _, rfl, by rw [hmin, Nat.pow_zero, Nat.mul_one], by rw [hmin, Nat.sub_zero, hE]⟩

/-! ## 5. The final step and repacking -/

theorem or3 (S E W : Nat) (hS : S ≤ 1) (hE : E < 2^14) (hW : W < 2^49) :
    S * 2^63 ||| E * 2^49 ||| W = S * 2^63 + E * 2^49 + W := by
  rw [Dec.C06GenFromInt.or_disjoint S (E * 2^49) 63 (by omega)]
  have e : S * 2^63 + E * 2^49 = (S * 2^14 + E) * 2^49 := by omega
  rw [e, Dec.C06GenFromInt.or_disjoint _ W 49 hW]

/-- sign, exponent field and coefficient or-ed together are the pattern `S·2^127 + E·2^113 + c` -/
theorem pack_bits (sg xe w1 w0 : UInt64) (S E c : Nat) (hs : sg.toNat = S * 2^63) (hS : S ≤ 1)
    (hxe : xe.toNat = E * 2^49) (hE : E < 2^14) (hc : w1.toNat * 2^64 + w0.toNat = c) (hlt : c < 2^113) :
    (⟨w0, sg ||| xe ||| w1⟩ : U128) = ofBits (S * 2^127 + E * 2^113 + c) := by
  have := w0.toNat_lt
  apply eq_ofBits
  simp only [bitsOf, UInt64.toNat_or, hs, hxe]
  rw [or3 S E _ hS hE (by omega)]
  subst hc; ring

/-- **one unit away from zero**: the coefficient `c < 10^34` becomes `c + 1`, or `10^33` with the exponent raised when
`c + 1 = 10^34` -/
theorem stepK_away (sg xe : UInt64) (C1 : U128) (f : UInt32) (S E : Nat) (hs : sg.toNat = S * 2^63) (hS : S ≤ 1)
    (hxe : xe.toNat = E * 2^49) (hE : E + 1 < 2^14) (hlt : val128 C1 < P34) :
    stepK true sg xe C1 f =
      .ok (ofBits (S * 2^127 + (if val128 C1 + 1 = P34 then (E + 1) * 2^113 + P33 else E * 2^113 + (val128 C1 + 1))), f) := by
  obtain ⟨c0, c1⟩ := C1
  have h0 := c0.toNat_lt
  have h1 := c1.toNat_lt
  have e34 : P34 = 10000000000000000000000000000000000 := rfl
  have e33 : P33 = 1000000000000000000000000000000000 := rfl
  have hv : val128 ⟨c0, c1⟩ = c1.toNat * 2^64 + c0.toNat := rfl
  generalize val128 ⟨c0, c1⟩ = c at *
  have hxe' : (xe + c_EXP_P1).toNat = (E + 1) * 2^49 := by
    rw [UInt64.toNat_add, hxe, show c_EXP_P1.toNat = 2^49 from rfl]; omega
  simp only [stepK, bind, Except.bind, pure, Except.pure, ↓reduceIte]
  by_cases a1 : (c0 + 1 == 0) = true
  · rw [if_pos a1]
    simp only [beq_iff_eq, ← UInt64.toNat_inj, UInt64.toNat_add, UInt64.toNat_ofNat, UInt64.toNat_one] at a1
    by_cases a2 : (c1 + 1 == 542101086242752 && c0 + 1 == 4003012203950112768) = true
    · simp only [Bool.and_eq_true, beq_iff_eq, ← UInt64.toNat_inj, UInt64.toNat_add, UInt64.toNat_ofNat, UInt64.toNat_one] at a2
      omega
    · rw [if_neg a2, if_neg (by omega)]
      refine congrArg (fun r => Except.ok (r, f)) ?_
      rw [← Nat.add_assoc]
      exact pack_bits _ _ _ _ S E _ hs hS hxe (by omega) (by simp only [UInt64.toNat_add, UInt64.toNat_one]; omega) (by omega)
  · rw [if_neg a1]
    simp only [beq_iff_eq, ← UInt64.toNat_inj, UInt64.toNat_add, UInt64.toNat_ofNat, UInt64.toNat_one] at a1
    by_cases a2 : (c1 == 542101086242752 && c0 + 1 == 4003012203950112768) = true
    · rw [if_pos a2]
      simp only [Bool.and_eq_true, beq_iff_eq, ← UInt64.toNat_inj, UInt64.toNat_add, UInt64.toNat_ofNat, UInt64.toNat_one] at a2
      rw [if_pos (by omega)]
      refine congrArg (fun r => Except.ok (r, f)) ?_
      rw [← Nat.add_assoc]
      exact pack_bits _ _ _ _ S (E + 1) _ hs hS hxe' (by omega) (by rw [e33]; decide) (by omega)
    · rw [if_neg a2]
      simp only [Bool.and_eq_true, beq_iff_eq, ← UInt64.toNat_inj, UInt64.toNat_add, UInt64.toNat_ofNat, UInt64.toNat_one] at a2
      rw [if_neg (by omega)]
      refine congrArg (fun r => Except.ok (r, f)) ?_
      rw [← Nat.add_assoc]
      exact pack_bits _ _ _ _ S E _ hs hS hxe (by omega) (by simp only [UInt64.toNat_add, UInt64.toNat_one]; omega) (by omega)

/-- **one unit towards zero**: the coefficient `c > 0` becomes `c − 1`, or `10^34 − 1` with the exponent lowered when
`c = 10^33` and the exponent is not the least one -/
theorem stepK_toward (sg xe : UInt64) (C1 : U128) (f : UInt32) (S E : Nat) (hs : sg.toNat = S * 2^63) (hS : S ≤ 1)
    (hxe : xe.toNat = E * 2^49) (hE : E < 2^14) (hpos : 0 < val128 C1) (hlt : val128 C1 < P34) :
    stepK false sg xe C1 f =
      .ok (ofBits (S * 2^127 + (if E ≠ 0 ∧ val128 C1 = P33 then (E - 1) * 2^113 + (P34 - 1) else E * 2^113 + (val128 C1 - 1))), f) := by
  obtain ⟨c0, c1⟩ := C1
  have h0 := c0.toNat_lt
  have h1 := c1.toNat_lt
  have e34 : P34 = 10000000000000000000000000000000000 := rfl
  have e33 : P33 = 1000000000000000000000000000000000 := rfl
  have hv : val128 ⟨c0, c1⟩ = c1.toNat * 2^64 + c0.toNat := rfl
  generalize val128 ⟨c0, c1⟩ = c at *
  have hxe' : E ≠ 0 → (xe - c_EXP_P1).toNat = (E - 1) * 2^49 := by
    intro hne
    rw [UInt64.toNat_sub, hxe, show c_EXP_P1.toNat = 2^49 from rfl]; omega
  have hne : (xe != 0) = decide (E ≠ 0) := by
    rw [Bool.eq_iff_iff, bne_iff_ne, decide_eq_true_eq, ne_eq, ne_eq, ← UInt64.toNat_inj, hxe, UInt64.toNat_zero]
    omega
  simp only [stepK, bind, Except.bind, pure, Except.pure, ↓reduceIte, Bool.false_eq_true, hne]
  by_cases a1 : (c0 - 1 == 18446744073709551615) = true
  · rw [if_pos a1]
    simp only [beq_iff_eq, ← UInt64.toNat_inj, UInt64.toNat_sub, UInt64.toNat_ofNat, UInt64.toNat_one] at a1
    by_cases a2 : (decide (E ≠ 0) && c1 - 1 == 54210108624275 && c0 - 1 == 4089650035136921599) = true
    · simp only [Bool.and_eq_true, beq_iff_eq, ← UInt64.toNat_inj, UInt64.toNat_sub, UInt64.toNat_ofNat, UInt64.toNat_one] at a2
      omega
    · rw [if_neg a2, if_neg (by omega)]
      refine congrArg (fun r => Except.ok (r, f)) ?_
      rw [← Nat.add_assoc]
      exact pack_bits _ _ _ _ S E _ hs hS hxe (by omega) (by simp only [UInt64.toNat_sub, UInt64.toNat_one]; omega) (by omega)
  · rw [if_neg a1]
    simp only [beq_iff_eq, ← UInt64.toNat_inj, UInt64.toNat_sub, UInt64.toNat_ofNat, UInt64.toNat_one] at a1
    by_cases a2 : (decide (E ≠ 0) && c1 == 54210108624275 && c0 - 1 == 4089650035136921599) = true
    · rw [if_pos a2]
      simp only [Bool.and_eq_true, beq_iff_eq, decide_eq_true_eq, ← UInt64.toNat_inj, UInt64.toNat_sub, UInt64.toNat_ofNat, UInt64.toNat_one] at a2
      rw [if_pos ⟨a2.1.1, by omega⟩]
      refine congrArg (fun r => Except.ok (r, f)) ?_
      rw [← Nat.add_assoc]
      exact pack_bits _ _ _ _ S (E - 1) _ hs hS (hxe' a2.1.1) (by omega) (by rw [e34]; decide) (by omega)
    · rw [if_neg a2]
      simp only [Bool.and_eq_true, beq_iff_eq, decide_eq_true_eq, ← UInt64.toNat_inj, UInt64.toNat_sub, UInt64.toNat_ofNat, UInt64.toNat_one] at a2
      rw [if_neg (by omega)]
      refine congrArg (fun r => Except.ok (r, f)) ?_
      rw [← Nat.add_assoc]
      exact pack_bits _ _ _ _ S E _ hs hS hxe (by omega) (by simp only [UInt64.toNat_sub, UInt64.toNat_one]; omega) (by omega)

end Dec.C17GenNext
