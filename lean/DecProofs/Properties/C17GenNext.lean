/-
  C17GenNext — `bid128_nextup`, `bid128_nextdown`, `bid128_nextafter` of bid128_next.rs, as translated in
  `DecGen/Code.lean` (`Dec.Gen.Code.bid128_next*`), compute the spec-level `Dec.nextUpD`, `Dec.nextDownD`,
  `Dec.nextAfterD` of the decoded operand(s) (NaN operands: the quieted canonical NaN, `invalid` for a signalling one),
  for ALL 128-bit patterns (non-canonical ones included) and every incoming status word, without ever panicking.
-/
import DecGen.Code
import DecModel.Misc
import DecModel.Ops
import DecProofs.Core.Codec
import DecProofs.Core.Digits
import DecProofs.TableFacts.NrDigits
import DecProofs.Properties.C03GenCompare
import DecProofs.Properties.C06GenFromInt
import DecProofs.Properties.C17Adjacent
import Mathlib.Tactic.SplitIfs
import Mathlib.Tactic.Ring
import Mathlib.Tactic.Linarith

set_option linter.unusedSimpArgs false
set_option linter.unusedVariables false

namespace Dec.C17GenNext
open Dec.Rs Dec.Gen.Code Dec.C03GenCompare

/-- the `U128` holding a 128-bit pattern -/
abbrev ofBits (b : Nat) : U128 := Dec.C06GenFromInt.ofBits b

theorem eq_ofBits {r : U128} {n : Nat} (h : bitsOf r = n) : r = ofBits n :=
  Dec.C06GenFromInt.eq_ofBits h

/-! ## 0. The specification -/

/-- the result datum of `next_up`: a NaN operand gives the quieted NaN with the same sign and payload
(`nanRule` of `DecModel.Ops`), every other operand `nextUpD` -/
def upD (d : Datum) : Datum := if d.isNaN then quietNaN d else nextUpD d

/-- the result datum of `next_down` -/
def downD (d : Datum) : Datum := if d.isNaN then quietNaN d else nextDownD d

/-- the status word after `next_up` / `next_down`: `invalid` (0x01) is or-ed in iff the operand is a signalling NaN -/
def nanFlags (f : UInt32) (d : Datum) : UInt32 := if d.isSNaN then f ||| 1 else f

/-! ## 1. The routines, cut into stages

`bid128_nextup` and `bid128_nextdown` are the same text up to the constants of the front end and the direction of the
final step.  The stages below are that text, with the rest of the routine as a continuation `k`; `nextup_shape` /
`nextdown_shape` state that the translated routines are these stages chained. -/

/-- NaN / infinity operands -/
def specialK (up : Bool) (x : U128) (pfpsf : UInt32) : Except String (U128 × UInt32) :=
  if (((x.w1 &&& c_MASK_NAN)) == c_MASK_NAN) then
    if (((decide (((x.w1 &&& (0x3fffffffffff : UInt64))) > (0x314dc6448d93 : UInt64)))) || ((((((x.w1 &&& (0x3fffffffffff : UInt64))) == (0x314dc6448d93 : UInt64))) && ((decide (x.w0 > (0x38c15b09ffffffff : UInt64))))))) then
      if ((((x.w1 &&& (0xffffc00000000000 : UInt64)) &&& c_MASK_SNAN)) == c_MASK_SNAN) then
        .ok (⟨0, (x.w1 &&& (0xffffc00000000000 : UInt64)) &&& (0xfc003fffffffffff : UInt64)⟩, pfpsf ||| c_StatusFlags_BID_INVALID_EXCEPTION)
      else .ok (⟨0, (x.w1 &&& (0xffffc00000000000 : UInt64)) &&& (0xfc003fffffffffff : UInt64)⟩, pfpsf)
    else
      if (((x.w1 &&& c_MASK_SNAN)) == c_MASK_SNAN) then
        .ok (⟨x.w0, x.w1 &&& (0xfc003fffffffffff : UInt64)⟩, pfpsf ||| c_StatusFlags_BID_INVALID_EXCEPTION)
      else .ok (⟨x.w0, x.w1 &&& (0xfc003fffffffffff : UInt64)⟩, pfpsf)
  else
    if ((x.w1 &&& c_MASK_SIGN) == (0 : UInt64)) then
      .ok (if up then ⟨0, 0x7800000000000000⟩ else ⟨0x378d8e63ffffffff, 0x5fffed09bead87c0⟩, pfpsf)
    else
      .ok (if up then ⟨0x378d8e63ffffffff, 0xdfffed09bead87c0⟩ else ⟨0, 0xf800000000000000⟩, pfpsf)

/-- exponent field and coefficient of a finite operand; a non-canonical coefficient is replaced by 0 -/
def canonK {α : Type} (x : U128) (k : UInt64 → U128 → Except String α) : Except String α := do
  let mut x_exp : UInt64 := default
  let mut C1 : U128 := ⟨x.w0, x.w1 &&& c_MASK_COEFF⟩
  if (((x.w1 &&& (0x6000000000000000 : UInt64))) == (0x6000000000000000 : UInt64)) then
    x_exp := (((x.w1 <<< 2)) &&& c_MASK_EXP)
    C1 := { C1 with w1 := (0 : UInt64) }
    C1 := { C1 with w0 := (0 : UInt64) }
  else
    x_exp := (x.w1 &&& c_MASK_EXP)
    if ((decide (C1.w1 > (0x1ed09bead87c0 : UInt64))) || (((C1.w1 == (0x1ed09bead87c0 : UInt64)) && (decide (C1.w0 > (0x378d8e63ffffffff : UInt64)))))) then
      C1 := { C1 with w1 := (0 : UInt64) }
      C1 := { C1 with w0 := (0 : UInt64) }
    else
      pure ()
  k x_exp C1

/-- bit length of the coefficient, through the exponent field of a double -/
def nrBitsK {α : Type} (C1 : U128) (k : UInt64 → Except String α) : Except String α := do
  let mut tmp1 : F64U := default
  let mut x_nr_bits : UInt64 := default
  if (C1.w1 == (0 : UInt64)) then
    if (decide (C1.w0 ≥ (0x20000000000000 : UInt64))) then
      if (decide (C1.w0 ≥ (0x100000000 : UInt64))) then
        tmp1 := (F64U.ofU64 (UInt64.ofInt (toI ((C1.w0 >>> 0x20)))))
        x_nr_bits := (((0x21 : UInt64) + ((((((tmp1.bits >>> 0x34)) &&& (0x7ff : UInt64))) - (0x3ff : UInt64)))))
      else
        tmp1 := (F64U.ofU64 (UInt64.ofInt (toI C1.w0)))
        x_nr_bits := (((1 : UInt64) + ((((((tmp1.bits >>> 0x34)) &&& (0x7ff : UInt64))) - (0x3ff : UInt64)))))
    else
      tmp1 := (F64U.ofU64 (UInt64.ofInt (toI C1.w0)))
      x_nr_bits := (((1 : UInt64) + ((((((tmp1.bits >>> 0x34)) &&& (0x7ff : UInt64))) - (0x3ff : UInt64)))))
  else
    tmp1 := (F64U.ofU64 (UInt64.ofInt (toI C1.w1)))
    x_nr_bits := (((0x41 : UInt64) + ((((((tmp1.bits >>> 0x34)) &&& (0x7ff : UInt64))) - (0x3ff : UInt64)))))
  k x_nr_bits

/-- number of decimal digits of the coefficient from `BID_NR_DIGITS[bit length − 1]` -/
def digitsK {α : Type} (C1 : U128) (x_nr_bits : UInt64) (k : Int32 → Except String α) : Except String α := do
  let mut q1 : Int32 := (Int32.ofInt (toI ((← tblDD Dec.Gen.BID_NR_DIGITS (x_nr_bits - (1 : UInt64))).digits)))
  if (q1 == (0 : Int32)) then
    q1 := (Int32.ofInt (toI ((← tblDD Dec.Gen.BID_NR_DIGITS (x_nr_bits - (1 : UInt64))).digits1)))
    if (← (if (decide (C1.w1 > (← tblDD Dec.Gen.BID_NR_DIGITS (x_nr_bits - (1 : UInt64))).threshold_hi)) then pure true else (do pure ((← (if (C1.w1 == (← tblDD Dec.Gen.BID_NR_DIGITS (x_nr_bits - (1 : UInt64))).threshold_hi) then (do pure (decide (C1.w0 ≥ (← tblDD Dec.Gen.BID_NR_DIGITS (x_nr_bits - (1 : UInt64))).threshold_lo))) else pure false)))))) then
      q1 := (q1 + 1)
  k q1

/-- scale the coefficient to 34 digits, or as far as the exponent allows -/
def scaleK {α : Type} (q1 : Int32) (x_exp_ : UInt64) (C1_ : U128) (k : UInt64 → U128 → Except String α) : Except String α := do
  let mut x_exp : UInt64 := x_exp_
  let mut C1 : U128 := C1_
  let mut exp : Int32 := default
  let mut ind : Int32 := default
  if (decide (q1 < c_P34)) then
    exp := (Int32.ofInt (toI ((((x_exp >>> 0x31)) - (0x1820 : UInt64)))))
    if (decide ((exp + (0x1820 : Int32)) > (c_P34 - q1))) then
      ind := (c_P34 - q1)
      if (decide (q1 ≤ (0x13 : Int32))) then
        C1 := (← (if (decide (ind ≤ (0x13 : Int32))) then (do pure (← mul_64x64_to_128MACH C1.w0 (← tbl64 Dec.Gen.BID_TEN2K64 (UInt64.ofInt (toI ind))))) else (do pure (← mul_128x64_to_128 C1.w0 (← tbl128 Dec.Gen.BID_TEN2K128 (UInt64.ofInt (toI ((ind - (0x14 : Int32))))))))))
      else
        C1 := (← (if (decide (ind ≤ (0xe : Int32))) then (do pure (← mul_128x64_to_128 (← tbl64 Dec.Gen.BID_TEN2K64 (UInt64.ofInt (toI ind))) C1)) else (do pure (← (if (decide (ind ≤ (0x13 : Int32))) then (do pure (← mul_64x64_to_128MACH C1.w0 (← tbl64 Dec.Gen.BID_TEN2K64 (UInt64.ofInt (toI ind))))) else (do pure (← mul_128x64_to_128 C1.w0 (← tbl128 Dec.Gen.BID_TEN2K128 (UInt64.ofInt (toI ((ind - (0x14 : Int32)))))))))))))
      x_exp := (x_exp - (((UInt64.ofInt (toI ind))) <<< 0x31))
    else
      ind := (exp + (0x1820 : Int32))
      if (decide (ind ≤ (0x13 : Int32))) then
        C1 := (← (if (decide (q1 ≤ (0x13 : Int32))) then (do pure (← mul_64x64_to_128MACH C1.w0 (← tbl64 Dec.Gen.BID_TEN2K64 (UInt64.ofInt (toI ind))))) else (do pure (← mul_128x64_to_128 (← tbl64 Dec.Gen.BID_TEN2K64 (UInt64.ofInt (toI ind))) C1))))
      else
        C1 := (← mul_128x64_to_128 C1.w0 (← tbl128 Dec.Gen.BID_TEN2K128 (UInt64.ofInt (toI ((ind - (0x14 : Int32)))))))
      x_exp := c_EXP_MIN
  k x_exp C1

/-- one unit in the last place away from zero (`away = true`) or towards zero, and repack -/
def stepK (away : Bool) (x_sign x_exp_ : UInt64) (C1_ : U128) (pfpsf : UInt32) : Except String (U128 × UInt32) := do
  let mut x_exp : UInt64 := x_exp_
  let mut C1 : U128 := C1_
  if away then
    C1 := { C1 with w0 := (C1.w0 + 1) }
    if (C1.w0 == (0 : UInt64)) then
      C1 := { C1 with w1 := (C1.w1 + 1) }
    if ((C1.w1 == (0x1ed09bead87c0 : UInt64)) && (C1.w0 == (0x378d8e6400000000 : UInt64))) then
      C1 := { C1 with w1 := (0x314dc6448d93 : UInt64) }
      C1 := { C1 with w0 := (0x38c15b0a00000000 : UInt64) }
      x_exp := (x_exp + c_EXP_P1)
  else
    C1 := { C1 with w0 := (C1.w0 - 1) }
    if (C1.w0 == (0xffffffffffffffff : UInt64)) then
      C1 := { C1 with w1 := (C1.w1 - 1) }
    if (((x_exp != (0 : UInt64)) && (C1.w1 == (0x314dc6448d93 : UInt64))) && (C1.w0 == (0x38c15b09ffffffff : UInt64))) then
      C1 := { C1 with w1 := (0x1ed09bead87c0 : UInt64) }
      C1 := { C1 with w0 := (0x378d8e63ffffffff : UInt64) }
      x_exp := (x_exp - c_EXP_P1)
  return (⟨C1.w0, (x_sign ||| x_exp) ||| C1.w1⟩, pfpsf)

/-- the general path: digit count, scaling, step, repack -/
def generalK (away : Bool) (x_sign x_exp : UInt64) (C1 : U128) (pfpsf : UInt32) : Except String (U128 × UInt32) :=
  nrBitsK C1 (fun nb => digitsK C1 nb (fun q1 => scaleK q1 x_exp C1 (fun x_exp C1 =>
    stepK away x_sign x_exp C1 pfpsf)))

set_option maxRecDepth 8000 in
/-- `bid128_nextup` is the chain of the stages -/
theorem nextup_shape (x : U128) (f : UInt32) : bid128_nextup x f =
    if (x.w1 &&& c_MASK_SPECIAL == c_MASK_SPECIAL) = true then specialK true x f
    else canonK x (fun x_exp C1 =>
      if (C1.w1 == 0 && C1.w0 == 0) = true then .ok (⟨1, 0⟩, f)
      else if (x.w1 == 0x5fffed09bead87c0 && x.w0 == 0x378d8e63ffffffff) = true then .ok (⟨0, 0x7800000000000000⟩, f)
      else if (x.w1 == 0x8000000000000000 && x.w0 == 1) = true then .ok (⟨0, 0x8000000000000000⟩, f)
      else generalK (x.w1 &&& c_MASK_SIGN == 0) (x.w1 &&& c_MASK_SIGN) x_exp C1 f) := by
  simp only [bid128_nextup, specialK, canonK, generalK, nrBitsK, digitsK, scaleK, stepK, bind, Except.bind, pure, Except.pure,
    ↓reduceIte, Bool.false_eq_true]

set_option maxRecDepth 8000 in
/-- `bid128_nextdown` is the chain of the same stages, with the other constants and the other direction -/
theorem nextdown_shape (x : U128) (f : UInt32) : bid128_nextdown x f =
    if (x.w1 &&& c_MASK_SPECIAL == c_MASK_SPECIAL) = true then specialK false x f
    else canonK x (fun x_exp C1 =>
      if (C1.w1 == 0 && C1.w0 == 0) = true then .ok (⟨1, 0x8000000000000000⟩, f)
      else if (x.w1 == 0xdfffed09bead87c0 && x.w0 == 0x378d8e63ffffffff) = true then .ok (⟨0, 0xf800000000000000⟩, f)
      else if (x.w1 == 0 && x.w0 == 1) = true then .ok (⟨0, 0⟩, f)
      else generalK (x.w1 &&& c_MASK_SIGN != 0) (x.w1 &&& c_MASK_SIGN) x_exp C1 f) := by
  simp only [bid128_nextdown, specialK, canonK, generalK, nrBitsK, digitsK, scaleK, stepK, bind, Except.bind, pure, Except.pure,
    ↓reduceIte, Bool.false_eq_true]

/-! ## 2. Front ends: NaN, infinity, zero -/

theorem and_qmask (w : Nat) : w &&& 0xfc003fffffffffff = (w / 2^58 % 2^6) * 2^58 + w % 2^46 := by
  have e : (0xfc003fffffffffff : Nat) = (2^6 - 1) * 2^58 ||| (2^46 - 1) := by decide
  rw [e, Nat.and_or_distrib_left, and_field, Nat.and_two_pow_sub_one_eq_mod, Nat.mul_comm,
    ← Nat.two_pow_add_eq_or_of_lt (by omega)]

theorem and_payclr (w : Nat) : w &&& 0xffffc00000000000 = (w / 2^46 % 2^18) * 2^46 :=
  and_field w 18 46

theorem decodeW_nan (h l : Nat) (hN : h / 2^58 % 32 = 31) :
    decodeW h l = .nan (decide (h / 2^63 % 2 = 1)) (decide (h / 2^57 % 2 = 1))
      (if h % 2^46 * 2^64 + l < P33 then h % 2^46 * 2^64 + l else 0) := by
  unfold decodeW
  rw [if_pos (by omega), if_neg (by omega)]

theorem decodeW_inf (h l : Nat) (hI : h / 2^59 % 16 = 15) (hN : h / 2^58 % 32 ≠ 31) :
    decodeW h l = .inf (decide (h / 2^63 % 2 = 1)) := by
  unfold decodeW
  rw [if_pos hI, if_pos (by omega)]

theorem qmask_toNat (w : UInt64) : (w &&& 0xfc003fffffffffff).toNat = (w.toNat / 2^58 % 2^6) * 2^58 + w.toNat % 2^46 := by
  rw [UInt64.toNat_and, show (0xfc003fffffffffff : UInt64).toNat = 0xfc003fffffffffff from rfl, and_qmask]

theorem payclr_toNat (w : UInt64) : (w &&& 0xffffc00000000000).toNat = (w.toNat / 2^46 % 2^18) * 2^46 := by
  rw [UInt64.toNat_and, show (0xffffc00000000000 : UInt64).toNat = 0xffffc00000000000 from rfl, and_payclr]

theorem pay_toNat (w : UInt64) : (w &&& 0x3fffffffffff).toNat = w.toNat % 2^46 := by
  rw [UInt64.toNat_and, show (0x3fffffffffff : UInt64).toNat = 2^46 - 1 from rfl, Nat.and_two_pow_sub_one_eq_mod]

theorem sign_toNat (w : UInt64) : (w &&& 0x8000000000000000).toNat = (w.toNat / 2^63 % 2) * 2^63 :=
  toNat_and_field w _ 1 63 (by decide)

theorem sign_zero_test (w : UInt64) : (w &&& 0x8000000000000000 == 0) = decide (w.toNat / 2^63 % 2 = 0) := by
  rw [Bool.eq_iff_iff, beq_iff_eq, decide_eq_true_eq, ← UInt64.toNat_inj, sign_toNat, UInt64.toNat_zero]
  omega

/-- the encoding of a quiet NaN, by words -/
theorem encode_qnan (s : Bool) (p : Nat) :
    encode (.nan s false p) = ((if s then 1 else 0) * 2^63 + 0x7c00000000000000) * 2^64 + p := by
  cases s <;> simp only [encode, signBit, Bool.false_eq_true, if_true, if_false] <;> omega

/-- **NaN operands** of `bid128_nextup` / `bid128_nextdown`: every NaN pattern (either sign, quiet or signalling,
payload canonical or not, reserved bits set or not) returns the canonical quiet NaN of the same sign and (canonical)
payload; `invalid` is or-ed into the status word iff the operand is signalling. -/
theorem specialK_nan (up : Bool) (x : U128) (f : UInt32) (hN : x.w1.toNat / 2^58 % 32 = 31) :
    specialK up x f = .ok (ofBits (encode (quietNaN (decode (bitsOf x)))), nanFlags f (decode (bitsOf x))) := by
  have hl := x.w0.toNat_lt
  have hh := x.w1.toNat_lt
  rw [decode_bitsOf, decodeW_nan _ _ hN]
  simp only [specialK, c_MASK_NAN, c_MASK_SNAN, c_StatusFlags_BID_INVALID_EXCEPTION, c_DEC_FE_INVALID, nan_test, snan_test,
    gt128, pay_toNat, quietNaN, nanFlags, Datum.isSNaN, encode_qnan, hN, decide_true, if_true]
  simp only [UInt64.toNat_ofNat, payclr_toNat, decide_eq_true_eq]
  have e57 : (x.w1.toNat / 2^57 % 64 = 63) ↔ (x.w1.toNat / 2^57 % 2 = 1) := by omega
  have e57' : (x.w1.toNat / 2^46 % 2^18 * 2^46 / 2^57 % 64 = 63) ↔ (x.w1.toNat / 2^57 % 2 = 1) := by omega
  simp only [e57, e57']
  by_cases hp : x.w1.toNat % 2^46 * 2^64 + x.w0.toNat < P33
  · have hp' : ¬ (54210108624275 % 2^64 * 2^64 + 4089650035136921599 % 2^64 < x.w1.toNat % 2^46 * 2^64 + x.w0.toNat) := by
      simp only [P33] at hp; omega
    rw [if_neg hp', if_pos hp]
    have hr : (⟨x.w0, x.w1 &&& 0xfc003fffffffffff⟩ : U128) = ofBits (((if x.w1.toNat / 2^63 % 2 = 1 then 1 else 0) * 2^63 + 0x7c00000000000000) * 2^64 + (x.w1.toNat % 2^46 * 2^64 + x.w0.toNat)) := by
      apply eq_ofBits
      simp only [bitsOf, qmask_toNat]
      split <;> omega
    by_cases hs : x.w1.toNat / 2^57 % 2 = 1
    · simp only [hs, if_true, decide_true, hr]
    · simp only [hs, if_false, decide_false, hr, Bool.false_eq_true]
  · have hp' : (54210108624275 % 2^64 * 2^64 + 4089650035136921599 % 2^64 < x.w1.toNat % 2^46 * 2^64 + x.w0.toNat) := by
      simp only [P33] at hp; omega
    rw [if_pos hp', if_neg hp]
    have hr : (⟨0, x.w1 &&& 0xffffc00000000000 &&& 0xfc003fffffffffff⟩ : U128) = ofBits (((if x.w1.toNat / 2^63 % 2 = 1 then 1 else 0) * 2^63 + 0x7c00000000000000) * 2^64 + 0) := by
      apply eq_ofBits
      simp only [bitsOf, qmask_toNat, payclr_toNat, UInt64.toNat_zero]
      split <;> omega
    by_cases hs : x.w1.toNat / 2^57 % 2 = 1
    · simp only [hs, if_true, decide_true, hr]
    · simp only [hs, if_false, decide_false, hr, Bool.false_eq_true]


theorem special_test (w : UInt64) : (w &&& c_MASK_SPECIAL == c_MASK_SPECIAL) = decide (w.toNat / 2^59 % 16 = 15) := inf_test w

/-- **infinite operands**: `next_up (+Inf) = +Inf`, `next_up (−Inf)` = the most negative finite number,
`next_down (+Inf)` = the largest finite number, `next_down (−Inf) = −Inf` (trailing bits of the operand are ignored);
no flag. -/
theorem specialK_inf (up : Bool) (x : U128) (f : UInt32) (hI : x.w1.toNat / 2^59 % 16 = 15) (hN : x.w1.toNat / 2^58 % 32 ≠ 31) :
    specialK up x f =
      .ok (ofBits (encode (if up then nextUpD (decode (bitsOf x)) else nextDownD (decode (bitsOf x)))), f) := by
  rw [decode_bitsOf, decodeW_inf _ _ hI hN]
  simp only [specialK, c_MASK_NAN, c_MASK_SIGN, nan_test, sign_zero_test, hN, decide_false, Bool.false_eq_true, if_false]
  by_cases hs : x.w1.toNat / 2^63 % 2 = 0
  · have hs' : ¬ x.w1.toNat / 2^63 % 2 = 1 := by omega
    simp only [hs, hs', decide_true, decide_false, if_true]
    cases up
    · exact congrArg (fun r => Except.ok (r, f)) (by decide +kernel)
    · exact congrArg (fun r => Except.ok (r, f)) (by decide +kernel)
  · have hs' : x.w1.toNat / 2^63 % 2 = 1 := by omega
    simp only [hs, hs', decide_true, decide_false, if_false, Bool.false_eq_true]
    cases up
    · exact congrArg (fun r => Except.ok (r, f)) (by decide +kernel)
    · exact congrArg (fun r => Except.ok (r, f)) (by decide +kernel)

/-- the coefficient stage on an operand that is a zero (coefficient field 0, or a non-canonical encoding):
the coefficient handed on is 0 -/
theorem canonK_zero {α : Type} (x : U128) (k : UInt64 → U128 → Except String α)
    (hz : zeroP x.w1.toNat x.w0.toNat) : ∃ xe C, canonK x k = k xe C ∧ (C.w1 == 0 && C.w0 == 0) = true := by
  unfold canonK
  delta c_MASK_COEFF
  simp only [bind, Except.bind, pure, Except.pure, steer_test, gt128, coeff_hi, UInt64.toNat_ofNat]
  unfold zeroP sigW at hz
  by_cases h1 : x.w1.toNat / 2^61 % 4 = 3
  · exact ⟨_, _, by rw [if_pos (by simpa using h1)], rfl⟩
  · rw [if_neg (by simpa using h1)]
    by_cases h2 : P34 ≤ x.w1.toNat % 2^49 * 2^64 + x.w0.toNat
    · refine ⟨_, _, by rw [if_pos]; simp only [decide_eq_true_eq, P34] at h2 ⊢; omega, rfl⟩
    · refine ⟨_, _, by rw [if_neg]; simp only [decide_eq_true_eq, P34] at h2 ⊢; omega, ?_⟩
      have h3 : x.w1.toNat % 2^49 * 2^64 + x.w0.toNat = 0 := by
        rcases hz with hz | hz | hz
        · exact absurd hz h1
        · exact absurd hz h2
        · exact hz
      rw [zero128, coeff_hi]
      simpa using h3

/-- the coefficient stage on a finite non-zero operand: exponent field and coefficient field as they are -/
theorem canonK_nz {α : Type} (x : U128) (k : UInt64 → U128 → Except String α) (hx : nzFin x) :
    canonK x k = k (x.w1 &&& c_MASK_EXP) ⟨x.w0, x.w1 &&& c_MASK_COEFF⟩ := by
  unfold canonK
  delta c_MASK_COEFF
  simp only [bind, Except.bind, pure, Except.pure, steer_test, gt128, coeff_hi, UInt64.toNat_ofNat]
  obtain ⟨_, hz⟩ := hx
  unfold zeroP sigW at hz
  rw [if_neg (by simp only [decide_eq_true_eq]; omega), if_neg (by simp only [decide_eq_true_eq, P34] at hz ⊢; omega)]

theorem decodeW_zero (h l : Nat) (hI : h / 2^59 % 16 ≠ 15) (hz : zeroP h l) :
    ∃ e, decodeW h l = .fin (decide (h / 2^63 % 2 = 1)) 0 e := by
  rcases decodeW_kind h l with ⟨hN, s, p, hd⟩ | ⟨hN, hI', hd⟩ | ⟨hI', hz', e, hd⟩ | ⟨hI', hS, hlt, hpos, hd⟩
  · omega
  · omega
  · exact ⟨e, hd⟩
  · unfold zeroP at hz; omega

theorem nextUpD_zero (s : Bool) (e : Int) : nextUpD (.fin s 0 e) = .fin false 1 eMin := rfl
theorem nextDownD_zero (s : Bool) (e : Int) : nextDownD (.fin s 0 e) = .fin true 1 eMin := rfl

/-- **zero operands** of `bid128_nextup` (either sign, any exponent; every non-canonical finite encoding is a zero):
the smallest positive subnormal `1·10^−6176`; no flag. -/
theorem nextup_zero (x : U128) (f : UInt32) (hI : x.w1.toNat / 2^59 % 16 ≠ 15) (hz : zeroP x.w1.toNat x.w0.toNat) :
    bid128_nextup x f = .ok (ofBits (encode (nextUpD (decode (bitsOf x)))), f) := by
  obtain ⟨e, hd⟩ := decodeW_zero _ _ hI hz
  obtain ⟨xe, C, h1, h2⟩ := canonK_zero x (fun x_exp C1 =>
      if (C1.w1 == 0 && C1.w0 == 0) = true then .ok (⟨1, 0⟩, f)
      else if (x.w1 == 0x5fffed09bead87c0 && x.w0 == 0x378d8e63ffffffff) = true then .ok (⟨0, 0x7800000000000000⟩, f)
      else if (x.w1 == 0x8000000000000000 && x.w0 == 1) = true then .ok (⟨0, 0x8000000000000000⟩, f)
      else generalK (x.w1 &&& c_MASK_SIGN == 0) (x.w1 &&& c_MASK_SIGN) x_exp C1 f) hz
  rw [nextup_shape, special_test, if_neg (by simpa using hI), h1, if_pos h2, decode_bitsOf, hd, nextUpD_zero]
  exact congrArg (fun r => Except.ok (r, f)) (by decide +kernel)

/-- **zero operands** of `bid128_nextdown`: the negative number of least magnitude `−1·10^−6176`; no flag. -/
theorem nextdown_zero (x : U128) (f : UInt32) (hI : x.w1.toNat / 2^59 % 16 ≠ 15) (hz : zeroP x.w1.toNat x.w0.toNat) :
    bid128_nextdown x f = .ok (ofBits (encode (nextDownD (decode (bitsOf x)))), f) := by
  obtain ⟨e, hd⟩ := decodeW_zero _ _ hI hz
  obtain ⟨xe, C, h1, h2⟩ := canonK_zero x (fun x_exp C1 =>
      if (C1.w1 == 0 && C1.w0 == 0) = true then .ok (⟨1, 0x8000000000000000⟩, f)
      else if (x.w1 == 0xdfffed09bead87c0 && x.w0 == 0x378d8e63ffffffff) = true then .ok (⟨0, 0xf800000000000000⟩, f)
      else if (x.w1 == 0 && x.w0 == 1) = true then .ok (⟨0, 0⟩, f)
      else generalK (x.w1 &&& c_MASK_SIGN != 0) (x.w1 &&& c_MASK_SIGN) x_exp C1 f) hz
  rw [nextdown_shape, special_test, if_neg (by simpa using hI), h1, if_pos h2, decode_bitsOf, hd]
  rw [nextDownD_zero]
  exact congrArg (fun r => Except.ok (r, f)) (by decide +kernel)


theorem upD_nan {d : Datum} (h : d.isNaN = true) : upD d = quietNaN d := by unfold upD; rw [if_pos h]
theorem downD_nan {d : Datum} (h : d.isNaN = true) : downD d = quietNaN d := by unfold downD; rw [if_pos h]
theorem upD_of_not_nan {d : Datum} (h : d.isNaN = false) : upD d = nextUpD d := by unfold upD; rw [if_neg (by simp [h])]
theorem downD_of_not_nan {d : Datum} (h : d.isNaN = false) : downD d = nextDownD d := by unfold downD; rw [if_neg (by simp [h])]
theorem nanFlags_of_not_nan (f : UInt32) {d : Datum} (h : d.isNaN = false) : nanFlags f d = f := by
  unfold nanFlags; rw [if_neg (by cases d <;> simp_all [Datum.isNaN, Datum.isSNaN])]

theorem isNaN_of_nan_bits (x : U128) (hN : x.w1.toNat / 2^58 % 32 = 31) : (decode (bitsOf x)).isNaN = true := by
  rw [decode_bitsOf, isNaN_decodeW]; simpa using hN
theorem not_isNaN_of_bits (x : U128) (hN : x.w1.toNat / 2^58 % 32 ≠ 31) : (decode (bitsOf x)).isNaN = false := by
  rw [decode_bitsOf, isNaN_decodeW]; simpa using hN

/-- **front ends of `bid128_nextup`**: whenever the operand decodes to a NaN, an infinity or a zero (any pattern,
including every non-canonical finite encoding), the routine returns the canonical encoding of the spec-level result and
the spec-level status word. -/
theorem nextup_front (x : U128) (f : UInt32) (h : special (decode (bitsOf x)) = true) :
    bid128_nextup x f = .ok (ofBits (encode (upD (decode (bitsOf x)))), nanFlags f (decode (bitsOf x))) := by
  have hnz := (special_iff x).1 h
  by_cases hI : x.w1.toNat / 2^59 % 16 = 15
  · rw [nextup_shape, special_test, if_pos (by simpa using hI)]
    by_cases hN : x.w1.toNat / 2^58 % 32 = 31
    · rw [specialK_nan _ _ _ hN, upD_nan (isNaN_of_nan_bits x hN)]
    · rw [specialK_inf _ _ _ hI hN, upD_of_not_nan (not_isNaN_of_bits x hN), nanFlags_of_not_nan _ (not_isNaN_of_bits x hN)]
      simp only [↓reduceIte, Bool.false_eq_true]
  · have hN : x.w1.toNat / 2^58 % 32 ≠ 31 := by omega
    have hz : zeroP x.w1.toNat x.w0.toNat := by
      unfold nzFin at hnz
      exact Classical.not_not.1 (fun hc => hnz ⟨hI, hc⟩)
    rw [nextup_zero x f hI hz, upD_of_not_nan (not_isNaN_of_bits x hN), nanFlags_of_not_nan _ (not_isNaN_of_bits x hN)]

/-- **front ends of `bid128_nextdown`**, likewise -/
theorem nextdown_front (x : U128) (f : UInt32) (h : special (decode (bitsOf x)) = true) :
    bid128_nextdown x f = .ok (ofBits (encode (downD (decode (bitsOf x)))), nanFlags f (decode (bitsOf x))) := by
  have hnz := (special_iff x).1 h
  by_cases hI : x.w1.toNat / 2^59 % 16 = 15
  · rw [nextdown_shape, special_test, if_pos (by simpa using hI)]
    by_cases hN : x.w1.toNat / 2^58 % 32 = 31
    · rw [specialK_nan _ _ _ hN, downD_nan (isNaN_of_nan_bits x hN)]
    · rw [specialK_inf _ _ _ hI hN, downD_of_not_nan (not_isNaN_of_bits x hN), nanFlags_of_not_nan _ (not_isNaN_of_bits x hN)]
      simp only [↓reduceIte, Bool.false_eq_true]
  · have hN : x.w1.toNat / 2^58 % 32 ≠ 31 := by omega
    have hz : zeroP x.w1.toNat x.w0.toNat := by
      unfold nzFin at hnz
      exact Classical.not_not.1 (fun hc => hnz ⟨hI, hc⟩)
    rw [nextdown_zero x f hI hz, downD_of_not_nan (not_isNaN_of_bits x hN), nanFlags_of_not_nan _ (not_isNaN_of_bits x hN)]

-- a signalling NaN with a non-canonical payload (≥ 10^33) and reserved bits set, inexact already raised:
-- the canonical quiet NaN with payload 0, invalid added
example : bid128_nextup ⟨5, 0xfe03ffffffffffff⟩ 0x20 = .ok (⟨0, 0xfc00000000000000⟩, 0x21) := by rfl
example : bid128_nextup ⟨5, 0xfe03ffffffffffff⟩ 0x20 = .ok (ofBits (encode (.nan true false 0)), 0x21) := by
  rw [nextup_front _ _ (by decide +kernel)]; decide +kernel
-- a quiet NaN with payload 2^64 + 5: unchanged, no flag;  −Inf with trailing garbage ↦ −MAX;  a non-canonical finite
-- encoding (coefficient field ≥ 10^34) is a zero ↦ +1E−6176 (next_up), −1E−6176 (next_down)
example : bid128_nextdown ⟨5, 0x7c00000000000001⟩ 0 = .ok (⟨5, 0x7c00000000000001⟩, 0) := by rfl
example : bid128_nextup ⟨77, 0xf800000000000123⟩ 0 = .ok (⟨0x378d8e63ffffffff, 0xdfffed09bead87c0⟩, 0) := by rfl
example : bid128_nextup ⟨0xffffffffffffffff, 0xb041ffffffffffff⟩ 0 = .ok (⟨1, 0⟩, 0) := by rfl
example : bid128_nextdown ⟨0xffffffffffffffff, 0x3041ffffffffffff⟩ 0 = .ok (⟨1, 0x8000000000000000⟩, 0) := by
  rw [nextdown_front _ _ (by decide +kernel)]; decide +kernel

end Dec.C17GenNext
