/-
  C17GenNext — `bid128_nextup`, `bid128_nextdown`, `bid128_nextafter` (and `bid128_nexttoward`) of bid128_next.rs, as
  translated in `DecGen/Code.lean` (`Dec.Gen.Code.bid128_next*`), compute the spec-level `Dec.nextUpD`, `Dec.nextDownD`,
  `Dec.nextAfterD` of the decoded operand(s) and return the canonical encoding of the result; NaN operands give the
  quieted canonical NaN (`invalid` for a signalling one); for ALL 128-bit patterns (non-canonical ones included) and
  every incoming status word, without ever panicking.

  Main theorems (`d = decode (bitsOf x)`):
    1.  `nextup_front`, `nextdown_front`     NaN / infinity / zero operands (every non-canonical finite pattern is a zero)
    2.  `digit_count`                        the digit-count block (f64 exponent trick + `BID_NR_DIGITS`): `q1 = ndigits C`
                                             for every 0 < C < 2^113, no table access out of range
        (`nrBitsK_spec`: the bit length;  `float_exp`: exponent field of `n as f64` = ⌊log₂ n⌋ + 1023 for 0 < n < 2^53)
    3.  `nextup_fin`, `nextup_spec`          bid128_nextup x f = .ok (ofBits (encode (upD d)), nanFlags f d)
    4.  `nextdown_fin`, `nextdown_spec`      bid128_nextdown x f = .ok (ofBits (encode (downD d)), nanFlags f d)
    5.  `nextafter_spec`, `nexttoward_spec`  bid128_nextafter x y f = .ok (ofBits (encode (afterD dx dy)), afterFlags f dx dy)
        with the flags of `nextAfterD` (overflow + inexact, underflow + inexact) or-ed into the status word
    6.  `nextup_accepted`, `nextdown_accepted`, `nextafter_accepted`, `nexttoward_accepted`: the outcome meets the judge's
        `Dec.expect "next_up" / "next_down" / "next_after" / "next_toward"` for every mode.
  On the way: `scaleK_spec` (the coefficient is multiplied by 10^min(34−q, E) exactly, every table index in range),
  `stepK_away`, `stepK_toward` (±1 unit with the 10^34 ↔ 10^33 wrap), `mul_128x64_spec`, `mach_spec`
  (`__mul_128x64_to_128`, `__mul_64x64_to_128MACH` are exact modulo 2^128).

  Method: the routines are cut into stages written in continuation-passing style that are the text of the routine
  (`specialK`, `canonK`, `nrBitsK`, `digitsK`, `scaleK`, `stepK`; `naFrontK`, `naCanonK`, `naChooseK`, `naFlags`);
  `nextup_shape`, `nextdown_shape`, `nextafter_shape` prove that the translated routines ARE these stages chained, so the
  theorems are about `Dec.Gen.Code.bid128_next*` themselves.

  Nothing was found that deviates from the specification.  Things the code does that are worth knowing:
    * `bid128_nextafter` compares the operands AS GIVEN (`quiet_equal`, `quiet_greater` on the non-canonicalised patterns) and
      throws the status words of all four comparison calls away (no NaN reaches them);
    * for operands that compare equal it returns the CANONICALISED first operand with the sign of the second
      (so `nextafter (non-canonical zero, −0)` is the canonical −0 of the same exponent), raising nothing;
    * with two NaN operands it returns the first one quieted (the judge accepts either);
    * unreachable code: in the digit-count block the test `C1.w[0] >= 2^32` under `C1.w[0] >= 2^53`; in the scaling block,
      for q1 > 19 the cases `ind > 14` (ind = 34 − q1 ≤ 14 there).
-/
import DecGen.Code
import DecModel.Misc
import DecModel.Ops
import DecProofs.Core.Codec
import DecProofs.Core.Digits
import DecProofs.TableFacts.NrDigits
import DecProofs.Properties.C03GenCompare
import DecProofs.Properties.C06GenFromInt
import DecProofs.Properties.C17Adjacent
import DecProofs.Properties.C12Ops
import Mathlib.Tactic.SplitIfs
import Mathlib.Tactic.Ring
import Mathlib.Tactic.Linarith

set_option linter.unusedSimpArgs false
set_option linter.unusedVariables false

namespace Dec.C17GenNext
open Dec.Rs Dec.Gen.Code Dec.C03GenCompare

/-- the `U128` holding a 128-bit pattern -/
abbrev ofBits (b : Nat) : U128 := Dec.C06GenFromInt.ofBits b

theorem eq_ofBits {r : U128} {n : Nat} (h : bitsOf r = n) : r = ofBits n :=
  Dec.C06GenFromInt.eq_ofBits h

/-! ## 0. The specification -/

/-- the result datum of `next_up`: a NaN operand gives the quieted NaN with the same sign and payload
(`nanRule` of `DecModel.Ops`), every other operand `nextUpD` -/
def upD (d : Datum) : Datum := if d.isNaN then quietNaN d else nextUpD d

/-- the result datum of `next_down` -/
def downD (d : Datum) : Datum := if d.isNaN then quietNaN d else nextDownD d

/-- the status word after `next_up` / `next_down`: `invalid` (0x01) is or-ed in iff the operand is a signalling NaN -/
def nanFlags (f : UInt32) (d : Datum) : UInt32 := if d.isSNaN then f ||| 1 else f

/-! ## 1. The routines, cut into stages

`bid128_nextup` and `bid128_nextdown` are the same text up to the constants of the front end and the direction of the
final step.  The stages below are that text, with the rest of the routine as a continuation `k`; `nextup_shape` /
`nextdown_shape` state that the translated routines are these stages chained. -/

/-- NaN / infinity operands -/
def specialK (up : Bool) (x : U128) (pfpsf : UInt32) : Except String (U128 × UInt32) :=
  if (((x.w1 &&& c_MASK_NAN)) == c_MASK_NAN) then
    if (((decide (((x.w1 &&& (0x3fffffffffff : UInt64))) > (0x314dc6448d93 : UInt64)))) || ((((((x.w1 &&& (0x3fffffffffff : UInt64))) == (0x314dc6448d93 : UInt64))) && ((decide (x.w0 > (0x38c15b09ffffffff : UInt64))))))) then
      if ((((x.w1 &&& (0xffffc00000000000 : UInt64)) &&& c_MASK_SNAN)) == c_MASK_SNAN) then
        .ok (⟨0, (x.w1 &&& (0xffffc00000000000 : UInt64)) &&& (0xfc003fffffffffff : UInt64)⟩, pfpsf ||| c_StatusFlags_BID_INVALID_EXCEPTION)
      else .ok (⟨0, (x.w1 &&& (0xffffc00000000000 : UInt64)) &&& (0xfc003fffffffffff : UInt64)⟩, pfpsf)
    else
      if (((x.w1 &&& c_MASK_SNAN)) == c_MASK_SNAN) then
        .ok (⟨x.w0, x.w1 &&& (0xfc003fffffffffff : UInt64)⟩, pfpsf ||| c_StatusFlags_BID_INVALID_EXCEPTION)
      else .ok (⟨x.w0, x.w1 &&& (0xfc003fffffffffff : UInt64)⟩, pfpsf)
  else
    if ((x.w1 &&& c_MASK_SIGN) == (0 : UInt64)) then
      .ok (if up then ⟨0, 0x7800000000000000⟩ else ⟨0x378d8e63ffffffff, 0x5fffed09bead87c0⟩, pfpsf)
    else
      .ok (if up then ⟨0x378d8e63ffffffff, 0xdfffed09bead87c0⟩ else ⟨0, 0xf800000000000000⟩, pfpsf)

/-- exponent field and coefficient of a finite operand; a non-canonical coefficient is replaced by 0 -/
def canonK {α : Type} (x : U128) (k : UInt64 → U128 → Except String α) : Except String α := do
  let mut x_exp : UInt64 := default
  let mut C1 : U128 := ⟨x.w0, x.w1 &&& c_MASK_COEFF⟩
  if (((x.w1 &&& (0x6000000000000000 : UInt64))) == (0x6000000000000000 : UInt64)) then
    x_exp := (((x.w1 <<< 2)) &&& c_MASK_EXP)
    C1 := { C1 with w1 := (0 : UInt64) }
    C1 := { C1 with w0 := (0 : UInt64) }
  else
    x_exp := (x.w1 &&& c_MASK_EXP)
    if ((decide (C1.w1 > (0x1ed09bead87c0 : UInt64))) || (((C1.w1 == (0x1ed09bead87c0 : UInt64)) && (decide (C1.w0 > (0x378d8e63ffffffff : UInt64)))))) then
      C1 := { C1 with w1 := (0 : UInt64) }
      C1 := { C1 with w0 := (0 : UInt64) }
    else
      pure ()
  k x_exp C1

/-- bit length of the coefficient, through the exponent field of a double -/
def nrBitsK {α : Type} (C1 : U128) (k : UInt64 → Except String α) : Except String α := do
  let mut tmp1 : F64U := default
  let mut x_nr_bits : UInt64 := default
  if (C1.w1 == (0 : UInt64)) then
    if (decide (C1.w0 ≥ (0x20000000000000 : UInt64))) then
      if (decide (C1.w0 ≥ (0x100000000 : UInt64))) then
        tmp1 := (F64U.ofU64 (UInt64.ofInt (toI ((C1.w0 >>> 0x20)))))
        x_nr_bits := (((0x21 : UInt64) + ((((((tmp1.bits >>> 0x34)) &&& (0x7ff : UInt64))) - (0x3ff : UInt64)))))
      else
        tmp1 := (F64U.ofU64 (UInt64.ofInt (toI C1.w0)))
        x_nr_bits := (((1 : UInt64) + ((((((tmp1.bits >>> 0x34)) &&& (0x7ff : UInt64))) - (0x3ff : UInt64)))))
    else
      tmp1 := (F64U.ofU64 (UInt64.ofInt (toI C1.w0)))
      x_nr_bits := (((1 : UInt64) + ((((((tmp1.bits >>> 0x34)) &&& (0x7ff : UInt64))) - (0x3ff : UInt64)))))
  else
    tmp1 := (F64U.ofU64 (UInt64.ofInt (toI C1.w1)))
    x_nr_bits := (((0x41 : UInt64) + ((((((tmp1.bits >>> 0x34)) &&& (0x7ff : UInt64))) - (0x3ff : UInt64)))))
  k x_nr_bits

/-- number of decimal digits of the coefficient from `BID_NR_DIGITS[bit length − 1]` -/
def digitsK {α : Type} (C1 : U128) (x_nr_bits : UInt64) (k : Int32 → Except String α) : Except String α := do
  let mut q1 : Int32 := (Int32.ofInt (toI ((← tblDD Dec.Gen.BID_NR_DIGITS (x_nr_bits - (1 : UInt64))).digits)))
  if (q1 == (0 : Int32)) then
    q1 := (Int32.ofInt (toI ((← tblDD Dec.Gen.BID_NR_DIGITS (x_nr_bits - (1 : UInt64))).digits1)))
    if (← (if (decide (C1.w1 > (← tblDD Dec.Gen.BID_NR_DIGITS (x_nr_bits - (1 : UInt64))).threshold_hi)) then pure true else (do pure ((← (if (C1.w1 == (← tblDD Dec.Gen.BID_NR_DIGITS (x_nr_bits - (1 : UInt64))).threshold_hi) then (do pure (decide (C1.w0 ≥ (← tblDD Dec.Gen.BID_NR_DIGITS (x_nr_bits - (1 : UInt64))).threshold_lo))) else pure false)))))) then
      q1 := (q1 + 1)
  k q1

/-- scale the coefficient to 34 digits, or as far as the exponent allows -/
def scaleK {α : Type} (q1 : Int32) (x_exp_ : UInt64) (C1_ : U128) (k : UInt64 → U128 → Except String α) : Except String α := do
  let mut x_exp : UInt64 := x_exp_
  let mut C1 : U128 := C1_
  let mut exp : Int32 := default
  let mut ind : Int32 := default
  if (decide (q1 < c_P34)) then
    exp := (Int32.ofInt (toI ((((x_exp >>> 0x31)) - (0x1820 : UInt64)))))
    if (decide ((exp + (0x1820 : Int32)) > (c_P34 - q1))) then
      ind := (c_P34 - q1)
      if (decide (q1 ≤ (0x13 : Int32))) then
        C1 := (← (if (decide (ind ≤ (0x13 : Int32))) then (do pure (← mul_64x64_to_128MACH C1.w0 (← tbl64 Dec.Gen.BID_TEN2K64 (UInt64.ofInt (toI ind))))) else (do pure (← mul_128x64_to_128 C1.w0 (← tbl128 Dec.Gen.BID_TEN2K128 (UInt64.ofInt (toI ((ind - (0x14 : Int32))))))))))
      else
        C1 := (← (if (decide (ind ≤ (0xe : Int32))) then (do pure (← mul_128x64_to_128 (← tbl64 Dec.Gen.BID_TEN2K64 (UInt64.ofInt (toI ind))) C1)) else (do pure (← (if (decide (ind ≤ (0x13 : Int32))) then (do pure (← mul_64x64_to_128MACH C1.w0 (← tbl64 Dec.Gen.BID_TEN2K64 (UInt64.ofInt (toI ind))))) else (do pure (← mul_128x64_to_128 C1.w0 (← tbl128 Dec.Gen.BID_TEN2K128 (UInt64.ofInt (toI ((ind - (0x14 : Int32)))))))))))))
      x_exp := (x_exp - (((UInt64.ofInt (toI ind))) <<< 0x31))
    else
      ind := (exp + (0x1820 : Int32))
      if (decide (ind ≤ (0x13 : Int32))) then
        C1 := (← (if (decide (q1 ≤ (0x13 : Int32))) then (do pure (← mul_64x64_to_128MACH C1.w0 (← tbl64 Dec.Gen.BID_TEN2K64 (UInt64.ofInt (toI ind))))) else (do pure (← mul_128x64_to_128 (← tbl64 Dec.Gen.BID_TEN2K64 (UInt64.ofInt (toI ind))) C1))))
      else
        C1 := (← mul_128x64_to_128 C1.w0 (← tbl128 Dec.Gen.BID_TEN2K128 (UInt64.ofInt (toI ((ind - (0x14 : Int32)))))))
      x_exp := c_EXP_MIN
  k x_exp C1

/-- one unit in the last place away from zero (`away = true`) or towards zero, and repack -/
def stepK (away : Bool) (x_sign x_exp_ : UInt64) (C1_ : U128) (pfpsf : UInt32) : Except String (U128 × UInt32) := do
  let mut x_exp : UInt64 := x_exp_
  let mut C1 : U128 := C1_
  if away then
    C1 := { C1 with w0 := (C1.w0 + 1) }
    if (C1.w0 == (0 : UInt64)) then
      C1 := { C1 with w1 := (C1.w1 + 1) }
    if ((C1.w1 == (0x1ed09bead87c0 : UInt64)) && (C1.w0 == (0x378d8e6400000000 : UInt64))) then
      C1 := { C1 with w1 := (0x314dc6448d93 : UInt64) }
      C1 := { C1 with w0 := (0x38c15b0a00000000 : UInt64) }
      x_exp := (x_exp + c_EXP_P1)
  else
    C1 := { C1 with w0 := (C1.w0 - 1) }
    if (C1.w0 == (0xffffffffffffffff : UInt64)) then
      C1 := { C1 with w1 := (C1.w1 - 1) }
    if (((x_exp != (0 : UInt64)) && (C1.w1 == (0x314dc6448d93 : UInt64))) && (C1.w0 == (0x38c15b09ffffffff : UInt64))) then
      C1 := { C1 with w1 := (0x1ed09bead87c0 : UInt64) }
      C1 := { C1 with w0 := (0x378d8e63ffffffff : UInt64) }
      x_exp := (x_exp - c_EXP_P1)
  return (⟨C1.w0, (x_sign ||| x_exp) ||| C1.w1⟩, pfpsf)

/-- the general path: digit count, scaling, step, repack -/
def generalK (away : Bool) (x_sign x_exp : UInt64) (C1 : U128) (pfpsf : UInt32) : Except String (U128 × UInt32) :=
  nrBitsK C1 (fun nb => digitsK C1 nb (fun q1 => scaleK q1 x_exp C1 (fun x_exp C1 =>
    stepK away x_sign x_exp C1 pfpsf)))

/-- `bid128_nextup` is the chain of the stages (definitionally: the stages are the text of the routine) -/
theorem nextup_shape (x : U128) (f : UInt32) : bid128_nextup x f =
    if (x.w1 &&& c_MASK_SPECIAL == c_MASK_SPECIAL) = true then specialK true x f
    else canonK x (fun x_exp C1 =>
      if (C1.w1 == 0 && C1.w0 == 0) = true then .ok (⟨1, 0⟩, f)
      else if (x.w1 == 0x5fffed09bead87c0 && x.w0 == 0x378d8e63ffffffff) = true then .ok (⟨0, 0x7800000000000000⟩, f)
      else if (x.w1 == 0x8000000000000000 && x.w0 == 1) = true then .ok (⟨0, 0x8000000000000000⟩, f)
      else generalK (x.w1 &&& c_MASK_SIGN == 0) (x.w1 &&& c_MASK_SIGN) x_exp C1 f) := by
  rfl

/-- `bid128_nextdown` is the chain of the same stages, with the other constants and the other direction -/
theorem nextdown_shape (x : U128) (f : UInt32) : bid128_nextdown x f =
    if (x.w1 &&& c_MASK_SPECIAL == c_MASK_SPECIAL) = true then specialK false x f
    else canonK x (fun x_exp C1 =>
      if (C1.w1 == 0 && C1.w0 == 0) = true then .ok (⟨1, 0x8000000000000000⟩, f)
      else if (x.w1 == 0xdfffed09bead87c0 && x.w0 == 0x378d8e63ffffffff) = true then .ok (⟨0, 0xf800000000000000⟩, f)
      else if (x.w1 == 0 && x.w0 == 1) = true then .ok (⟨0, 0⟩, f)
      else generalK (x.w1 &&& c_MASK_SIGN != 0) (x.w1 &&& c_MASK_SIGN) x_exp C1 f) := by
  rfl

/-! ## 2. Front ends: NaN, infinity, zero -/

theorem and_qmask (w : Nat) : w &&& 0xfc003fffffffffff = (w / 2^58 % 2^6) * 2^58 + w % 2^46 := by
  have e : (0xfc003fffffffffff : Nat) = (2^6 - 1) * 2^58 ||| (2^46 - 1) := by decide
  rw [e, Nat.and_or_distrib_left, and_field, Nat.and_two_pow_sub_one_eq_mod, Nat.mul_comm,
    ← Nat.two_pow_add_eq_or_of_lt (by omega)]

theorem and_payclr (w : Nat) : w &&& 0xffffc00000000000 = (w / 2^46 % 2^18) * 2^46 :=
  and_field w 18 46

theorem decodeW_nan (h l : Nat) (hN : h / 2^58 % 32 = 31) :
    decodeW h l = .nan (decide (h / 2^63 % 2 = 1)) (decide (h / 2^57 % 2 = 1))
      (if h % 2^46 * 2^64 + l < P33 then h % 2^46 * 2^64 + l else 0) := by
  unfold decodeW
  rw [if_pos (by omega), if_neg (by omega)]

theorem decodeW_inf (h l : Nat) (hI : h / 2^59 % 16 = 15) (hN : h / 2^58 % 32 ≠ 31) :
    decodeW h l = .inf (decide (h / 2^63 % 2 = 1)) := by
  unfold decodeW
  rw [if_pos hI, if_pos (by omega)]

theorem qmask_toNat (w : UInt64) : (w &&& 0xfc003fffffffffff).toNat = (w.toNat / 2^58 % 2^6) * 2^58 + w.toNat % 2^46 := by
  rw [UInt64.toNat_and, show (0xfc003fffffffffff : UInt64).toNat = 0xfc003fffffffffff from rfl, and_qmask]

theorem payclr_toNat (w : UInt64) : (w &&& 0xffffc00000000000).toNat = (w.toNat / 2^46 % 2^18) * 2^46 := by
  rw [UInt64.toNat_and, show (0xffffc00000000000 : UInt64).toNat = 0xffffc00000000000 from rfl, and_payclr]

theorem pay_toNat (w : UInt64) : (w &&& 0x3fffffffffff).toNat = w.toNat % 2^46 := by
  rw [UInt64.toNat_and, show (0x3fffffffffff : UInt64).toNat = 2^46 - 1 from rfl, Nat.and_two_pow_sub_one_eq_mod]

theorem sign_toNat (w : UInt64) : (w &&& 0x8000000000000000).toNat = (w.toNat / 2^63 % 2) * 2^63 :=
  toNat_and_field w _ 1 63 (by decide)

theorem sign_zero_test (w : UInt64) : (w &&& 0x8000000000000000 == 0) = decide (w.toNat / 2^63 % 2 = 0) := by
  rw [Bool.eq_iff_iff, beq_iff_eq, decide_eq_true_eq, ← UInt64.toNat_inj, sign_toNat, UInt64.toNat_zero]
  omega

/-- the encoding of a quiet NaN, by words -/
theorem encode_qnan (s : Bool) (p : Nat) :
    encode (.nan s false p) = ((if s then 1 else 0) * 2^63 + 0x7c00000000000000) * 2^64 + p := by
  cases s <;> simp only [encode, signBit, Bool.false_eq_true, if_true, if_false] <;> omega

/-- **NaN operands** of `bid128_nextup` / `bid128_nextdown`: every NaN pattern (either sign, quiet or signalling,
payload canonical or not, reserved bits set or not) returns the canonical quiet NaN of the same sign and (canonical)
payload; `invalid` is or-ed into the status word iff the operand is signalling. -/
theorem specialK_nan (up : Bool) (x : U128) (f : UInt32) (hN : x.w1.toNat / 2^58 % 32 = 31) :
    specialK up x f = .ok (ofBits (encode (quietNaN (decode (bitsOf x)))), nanFlags f (decode (bitsOf x))) := by
  have hl := x.w0.toNat_lt
  have hh := x.w1.toNat_lt
  rw [decode_bitsOf, decodeW_nan _ _ hN]
  simp only [specialK, c_MASK_NAN, c_MASK_SNAN, c_StatusFlags_BID_INVALID_EXCEPTION, c_DEC_FE_INVALID, nan_test, snan_test,
    gt128, pay_toNat, quietNaN, nanFlags, Datum.isSNaN, encode_qnan, hN, decide_true, if_true]
  simp only [UInt64.toNat_ofNat, payclr_toNat, decide_eq_true_eq]
  have e57 : (x.w1.toNat / 2^57 % 64 = 63) ↔ (x.w1.toNat / 2^57 % 2 = 1) := by omega
  have e57' : (x.w1.toNat / 2^46 % 2^18 * 2^46 / 2^57 % 64 = 63) ↔ (x.w1.toNat / 2^57 % 2 = 1) := by omega
  simp only [e57, e57']
  by_cases hp : x.w1.toNat % 2^46 * 2^64 + x.w0.toNat < P33
  · have hp' : ¬ (54210108624275 % 2^64 * 2^64 + 4089650035136921599 % 2^64 < x.w1.toNat % 2^46 * 2^64 + x.w0.toNat) := by
      simp only [P33] at hp; omega
    rw [if_neg hp', if_pos hp]
    have hr : (⟨x.w0, x.w1 &&& 0xfc003fffffffffff⟩ : U128) = ofBits (((if x.w1.toNat / 2^63 % 2 = 1 then 1 else 0) * 2^63 + 0x7c00000000000000) * 2^64 + (x.w1.toNat % 2^46 * 2^64 + x.w0.toNat)) := by
      apply eq_ofBits
      simp only [bitsOf, qmask_toNat]
      split <;> omega
    by_cases hs : x.w1.toNat / 2^57 % 2 = 1
    · simp only [hs, if_true, decide_true, hr]
    · simp only [hs, if_false, decide_false, hr, Bool.false_eq_true]
  · have hp' : (54210108624275 % 2^64 * 2^64 + 4089650035136921599 % 2^64 < x.w1.toNat % 2^46 * 2^64 + x.w0.toNat) := by
      simp only [P33] at hp; omega
    rw [if_pos hp', if_neg hp]
    have hr : (⟨0, x.w1 &&& 0xffffc00000000000 &&& 0xfc003fffffffffff⟩ : U128) = ofBits (((if x.w1.toNat / 2^63 % 2 = 1 then 1 else 0) * 2^63 + 0x7c00000000000000) * 2^64 + 0) := by
      apply eq_ofBits
      simp only [bitsOf, qmask_toNat, payclr_toNat, UInt64.toNat_zero]
      split <;> omega
    by_cases hs : x.w1.toNat / 2^57 % 2 = 1
    · simp only [hs, if_true, decide_true, hr]
    · simp only [hs, if_false, decide_false, hr, Bool.false_eq_true]


theorem special_test (w : UInt64) : (w &&& c_MASK_SPECIAL == c_MASK_SPECIAL) = decide (w.toNat / 2^59 % 16 = 15) := inf_test w

/-- **infinite operands**: `next_up (+Inf) = +Inf`, `next_up (−Inf)` = the most negative finite number,
`next_down (+Inf)` = the largest finite number, `next_down (−Inf) = −Inf` (trailing bits of the operand are ignored);
no flag. -/
theorem specialK_inf (up : Bool) (x : U128) (f : UInt32) (hI : x.w1.toNat / 2^59 % 16 = 15) (hN : x.w1.toNat / 2^58 % 32 ≠ 31) :
    specialK up x f =
      .ok (ofBits (encode (if up then nextUpD (decode (bitsOf x)) else nextDownD (decode (bitsOf x)))), f) := by
  rw [decode_bitsOf, decodeW_inf _ _ hI hN]
  simp only [specialK, c_MASK_NAN, c_MASK_SIGN, nan_test, sign_zero_test, hN, decide_false, Bool.false_eq_true, if_false]
  by_cases hs : x.w1.toNat / 2^63 % 2 = 0
  · have hs' : ¬ x.w1.toNat / 2^63 % 2 = 1 := by omega
    simp only [hs, hs', decide_true, decide_false, if_true]
    cases up
    · exact congrArg (fun r => Except.ok (r, f)) (by decide +kernel)
    · exact congrArg (fun r => Except.ok (r, f)) (by decide +kernel)
  · have hs' : x.w1.toNat / 2^63 % 2 = 1 := by omega
    simp only [hs, hs', decide_true, decide_false, if_false, Bool.false_eq_true]
    cases up
    · exact congrArg (fun r => Except.ok (r, f)) (by decide +kernel)
    · exact congrArg (fun r => Except.ok (r, f)) (by decide +kernel)

/-- the coefficient stage on an operand that is a zero (coefficient field 0, or a non-canonical encoding):
the coefficient handed on is 0 -/
theorem canonK_zero {α : Type} (x : U128) (k : UInt64 → U128 → Except String α)
    (hz : zeroP x.w1.toNat x.w0.toNat) : ∃ xe C, canonK x k = k xe C ∧ (C.w1 == 0 && C.w0 == 0) = true := by
  unfold canonK
  delta c_MASK_COEFF
  simp only [bind, Except.bind, pure, Except.pure, steer_test, gt128, coeff_hi, UInt64.toNat_ofNat]
  unfold zeroP sigW at hz
  by_cases h1 : x.w1.toNat / 2^61 % 4 = 3
  · exact ⟨_, _, by rw [if_pos (by simpa using h1)], rfl⟩
  · rw [if_neg (by simpa using h1)]
    by_cases h2 : P34 ≤ x.w1.toNat % 2^49 * 2^64 + x.w0.toNat
    · refine ⟨_, _, by rw [if_pos]; simp only [decide_eq_true_eq, P34] at h2 ⊢; omega, rfl⟩
    · refine ⟨_, _, by rw [if_neg]; simp only [decide_eq_true_eq, P34] at h2 ⊢; omega, ?_⟩
      have h3 : x.w1.toNat % 2^49 * 2^64 + x.w0.toNat = 0 := by
        rcases hz with hz | hz | hz
        · exact absurd hz h1
        · exact absurd hz h2
        · exact hz
      rw [zero128, coeff_hi]
      simpa using h3

/-- the coefficient stage on a finite non-zero operand: exponent field and coefficient field as they are -/
theorem canonK_nz {α : Type} (x : U128) (k : UInt64 → U128 → Except String α) (hx : nzFin x) :
    canonK x k = k (x.w1 &&& c_MASK_EXP) ⟨x.w0, x.w1 &&& c_MASK_COEFF⟩ := by
  unfold canonK
  delta c_MASK_COEFF
  simp only [bind, Except.bind, pure, Except.pure, steer_test, gt128, coeff_hi, UInt64.toNat_ofNat]
  obtain ⟨_, hz⟩ := hx
  unfold zeroP sigW at hz
  rw [if_neg (by simp only [decide_eq_true_eq]; omega), if_neg (by simp only [decide_eq_true_eq, P34] at hz ⊢; omega)]

theorem decodeW_zero (h l : Nat) (hI : h / 2^59 % 16 ≠ 15) (hz : zeroP h l) :
    ∃ e, decodeW h l = .fin (decide (h / 2^63 % 2 = 1)) 0 e := by
  rcases decodeW_kind h l with ⟨hN, s, p, hd⟩ | ⟨hN, hI', hd⟩ | ⟨hI', hz', e, hd⟩ | ⟨hI', hS, hlt, hpos, hd⟩
  · omega
  · omega
  · exact ⟨e, hd⟩
  · unfold zeroP at hz; omega

theorem nextUpD_zero (s : Bool) (e : Int) : nextUpD (.fin s 0 e) = .fin false 1 eMin := rfl
theorem nextDownD_zero (s : Bool) (e : Int) : nextDownD (.fin s 0 e) = .fin true 1 eMin := rfl

/-- **zero operands** of `bid128_nextup` (either sign, any exponent; every non-canonical finite encoding is a zero):
the smallest positive subnormal `1·10^−6176`; no flag. -/
theorem nextup_zero (x : U128) (f : UInt32) (hI : x.w1.toNat / 2^59 % 16 ≠ 15) (hz : zeroP x.w1.toNat x.w0.toNat) :
    bid128_nextup x f = .ok (ofBits (encode (nextUpD (decode (bitsOf x)))), f) := by
  obtain ⟨e, hd⟩ := decodeW_zero _ _ hI hz
  obtain ⟨xe, C, h1, h2⟩ := canonK_zero x (fun x_exp C1 =>
      if (C1.w1 == 0 && C1.w0 == 0) = true then .ok (⟨1, 0⟩, f)
      else if (x.w1 == 0x5fffed09bead87c0 && x.w0 == 0x378d8e63ffffffff) = true then .ok (⟨0, 0x7800000000000000⟩, f)
      else if (x.w1 == 0x8000000000000000 && x.w0 == 1) = true then .ok (⟨0, 0x8000000000000000⟩, f)
      else generalK (x.w1 &&& c_MASK_SIGN == 0) (x.w1 &&& c_MASK_SIGN) x_exp C1 f) hz
  rw [nextup_shape, special_test, if_neg (by simpa using hI), h1, if_pos h2, decode_bitsOf, hd, nextUpD_zero]
  exact congrArg (fun r => Except.ok (r, f)) (by decide +kernel)

/-- **zero operands** of `bid128_nextdown`: the negative number of least magnitude `−1·10^−6176`; no flag. -/
theorem nextdown_zero (x : U128) (f : UInt32) (hI : x.w1.toNat / 2^59 % 16 ≠ 15) (hz : zeroP x.w1.toNat x.w0.toNat) :
    bid128_nextdown x f = .ok (ofBits (encode (nextDownD (decode (bitsOf x)))), f) := by
  obtain ⟨e, hd⟩ := decodeW_zero _ _ hI hz
  obtain ⟨xe, C, h1, h2⟩ := canonK_zero x (fun x_exp C1 =>
      if (C1.w1 == 0 && C1.w0 == 0) = true then .ok (⟨1, 0x8000000000000000⟩, f)
      else if (x.w1 == 0xdfffed09bead87c0 && x.w0 == 0x378d8e63ffffffff) = true then .ok (⟨0, 0xf800000000000000⟩, f)
      else if (x.w1 == 0 && x.w0 == 1) = true then .ok (⟨0, 0⟩, f)
      else generalK (x.w1 &&& c_MASK_SIGN != 0) (x.w1 &&& c_MASK_SIGN) x_exp C1 f) hz
  rw [nextdown_shape, special_test, if_neg (by simpa using hI), h1, if_pos h2, decode_bitsOf, hd]
  rw [nextDownD_zero]
  exact congrArg (fun r => Except.ok (r, f)) (by decide +kernel)


theorem upD_nan {d : Datum} (h : d.isNaN = true) : upD d = quietNaN d := by unfold upD; rw [if_pos h]
theorem downD_nan {d : Datum} (h : d.isNaN = true) : downD d = quietNaN d := by unfold downD; rw [if_pos h]
theorem upD_of_not_nan {d : Datum} (h : d.isNaN = false) : upD d = nextUpD d := by unfold upD; rw [if_neg (by simp [h])]
theorem downD_of_not_nan {d : Datum} (h : d.isNaN = false) : downD d = nextDownD d := by unfold downD; rw [if_neg (by simp [h])]
theorem nanFlags_of_not_nan (f : UInt32) {d : Datum} (h : d.isNaN = false) : nanFlags f d = f := by
  unfold nanFlags; rw [if_neg (by cases d <;> simp_all [Datum.isNaN, Datum.isSNaN])]

theorem isNaN_of_nan_bits (x : U128) (hN : x.w1.toNat / 2^58 % 32 = 31) : (decode (bitsOf x)).isNaN = true := by
  rw [decode_bitsOf, isNaN_decodeW]; simpa using hN
theorem not_isNaN_of_bits (x : U128) (hN : x.w1.toNat / 2^58 % 32 ≠ 31) : (decode (bitsOf x)).isNaN = false := by
  rw [decode_bitsOf, isNaN_decodeW]; simpa using hN

/-- **front ends of `bid128_nextup`**: whenever the operand decodes to a NaN, an infinity or a zero (any pattern,
including every non-canonical finite encoding), the routine returns the canonical encoding of the spec-level result and
the spec-level status word. -/
theorem nextup_front (x : U128) (f : UInt32) (h : special (decode (bitsOf x)) = true) :
    bid128_nextup x f = .ok (ofBits (encode (upD (decode (bitsOf x)))), nanFlags f (decode (bitsOf x))) := by
  have hnz := (special_iff x).1 h
  by_cases hI : x.w1.toNat / 2^59 % 16 = 15
  · rw [nextup_shape, special_test, if_pos (by simpa using hI)]
    by_cases hN : x.w1.toNat / 2^58 % 32 = 31
    · rw [specialK_nan _ _ _ hN, upD_nan (isNaN_of_nan_bits x hN)]
    · rw [specialK_inf _ _ _ hI hN, upD_of_not_nan (not_isNaN_of_bits x hN), nanFlags_of_not_nan _ (not_isNaN_of_bits x hN)]
      simp only [↓reduceIte, Bool.false_eq_true]
  · have hN : x.w1.toNat / 2^58 % 32 ≠ 31 := by omega
    have hz : zeroP x.w1.toNat x.w0.toNat := by
      unfold nzFin at hnz
      exact Classical.not_not.1 (fun hc => hnz ⟨hI, hc⟩)
    rw [nextup_zero x f hI hz, upD_of_not_nan (not_isNaN_of_bits x hN), nanFlags_of_not_nan _ (not_isNaN_of_bits x hN)]

/-- **front ends of `bid128_nextdown`**, likewise -/
theorem nextdown_front (x : U128) (f : UInt32) (h : special (decode (bitsOf x)) = true) :
    bid128_nextdown x f = .ok (ofBits (encode (downD (decode (bitsOf x)))), nanFlags f (decode (bitsOf x))) := by
  have hnz := (special_iff x).1 h
  by_cases hI : x.w1.toNat / 2^59 % 16 = 15
  · rw [nextdown_shape, special_test, if_pos (by simpa using hI)]
    by_cases hN : x.w1.toNat / 2^58 % 32 = 31
    · rw [specialK_nan _ _ _ hN, downD_nan (isNaN_of_nan_bits x hN)]
    · rw [specialK_inf _ _ _ hI hN, downD_of_not_nan (not_isNaN_of_bits x hN), nanFlags_of_not_nan _ (not_isNaN_of_bits x hN)]
      simp only [↓reduceIte, Bool.false_eq_true]
  · have hN : x.w1.toNat / 2^58 % 32 ≠ 31 := by omega
    have hz : zeroP x.w1.toNat x.w0.toNat := by
      unfold nzFin at hnz
      exact Classical.not_not.1 (fun hc => hnz ⟨hI, hc⟩)
    rw [nextdown_zero x f hI hz, downD_of_not_nan (not_isNaN_of_bits x hN), nanFlags_of_not_nan _ (not_isNaN_of_bits x hN)]

-- a signalling NaN with a non-canonical payload (≥ 10^33) and reserved bits set, inexact already raised:
-- the canonical quiet NaN with payload 0, invalid added
example : bid128_nextup ⟨5, 0xfe03ffffffffffff⟩ 0x20 = .ok (⟨0, 0xfc00000000000000⟩, 0x21) := by rfl
example : bid128_nextup ⟨5, 0xfe03ffffffffffff⟩ 0x20 = .ok (ofBits (encode (.nan true false 0)), 0x21) := by
  rw [nextup_front _ _ (by decide +kernel)]; decide +kernel
-- a quiet NaN with payload 2^64 + 5: unchanged, no flag;  −Inf with trailing garbage ↦ −MAX;  a non-canonical finite
-- encoding (coefficient field ≥ 10^34) is a zero ↦ +1E−6176 (next_up), −1E−6176 (next_down)
example : bid128_nextdown ⟨5, 0x7c00000000000001⟩ 0 = .ok (⟨5, 0x7c00000000000001⟩, 0) := by rfl
example : bid128_nextup ⟨77, 0xf800000000000123⟩ 0 = .ok (⟨0x378d8e63ffffffff, 0xdfffed09bead87c0⟩, 0) := by rfl
example : bid128_nextup ⟨0xffffffffffffffff, 0xb041ffffffffffff⟩ 0 = .ok (⟨1, 0⟩, 0) := by rfl
example : bid128_nextdown ⟨0xffffffffffffffff, 0x3041ffffffffffff⟩ 0 = .ok (⟨1, 0x8000000000000000⟩, 0) := by
  rw [nextdown_front _ _ (by decide +kernel)]; decide +kernel

/-! ## 3. The digit-count block

`x_nr_bits` = bit length of the coefficient, read off the exponent field of the coefficient (or of its high word, or of
the top 32 bits of its low word) converted to `f64`; `q1` = `BID_NR_DIGITS[x_nr_bits − 1]`, corrected by a comparison
with the tabulated power of ten when the binary bucket straddles one.  Result: `q1 = ndigits C` for every
`0 < C < 2^113`, in particular for every canonical non-zero coefficient. -/

theorem toI_u64 (a : UInt64) : toI a = (a.toNat : Int) := rfl
theorem toI_u32 (a : UInt32) : toI a = (a.toNat : Int) := rfl
theorem toI_i32 (a : Int32) : toI a = a.toInt := rfl

theorem ofInt_toI (v : UInt64) : UInt64.ofInt (toI v) = v := by
  rw [← UInt64.toNat_inj, toI_u64, ofInt_natCast64, Nat.mod_eq_of_lt v.toNat_lt]

theorem bmod32 (n : Int) (h1 : -2^31 ≤ n) (h2 : n < 2^31) : n.bmod (2^32) = n :=
  Int.bmod_eq_of_le (by omega) (by omega)

/-- the exponent field of `n as f64` is the position of the leading bit of `n` (exact: `n < 2^53` is not rounded) -/
theorem float_exp (n : Nat) (h0 : 0 < n) (h : n < 2^53) :
    floatBitsOfNat 52 1023 n / 2^52 = n.log2 + 1023 ∧ floatBitsOfNat 52 1023 n < 2^63 := by
  have hne : n ≠ 0 := by omega
  have hl : n.log2 < 53 := (Nat.log2_lt hne).2 h
  have hlo : 2 ^ n.log2 ≤ n := Nat.log2_self_le hne
  have hhi : n < 2 ^ (n.log2 + 1) := Nat.lt_log2_self
  unfold floatBitsOfNat
  simp only [hne, if_false, show n.log2 ≤ 52 from by omega, if_true]
  generalize n.log2 = l at *
  have e : 2 ^ l * 2 ^ (52 - l) = 2 ^ 52 := by rw [← Nat.pow_add]; congr 1; omega
  have hp : 0 < 2 ^ (52 - l) := Nat.pow_pos (by decide)
  have h1 : 2 ^ 52 ≤ n * 2 ^ (52 - l) := by rw [← e]; exact Nat.mul_le_mul_right _ hlo
  have h2 : n * 2 ^ (52 - l) < 2 * 2 ^ 52 := by
    rw [← e, ← Nat.mul_assoc, ← Nat.pow_succ']; exact Nat.mul_lt_mul_of_pos_right hhi hp
  generalize n * 2 ^ (52 - l) = m at *
  constructor
  · omega
  · omega

/-- the code's bit-length computation through the exponent field of a double: `K + (biased exponent − 1023)` -/
theorem nr_bits (v K : UInt64) (h0 : 0 < v.toNat) (h53 : v.toNat < 2^53) (hK : K.toNat ≤ 65) :
    K + (((F64U.ofU64 (UInt64.ofInt (toI v))).bits >>> 52 &&& 2047) - 1023) = UInt64.ofNat (K.toNat + v.toNat.log2) := by
  obtain ⟨f1, f2⟩ := float_exp v.toNat h0 h53
  have hl : v.toNat.log2 < 53 := (Nat.log2_lt (by omega)).2 h53
  have e2 : ((F64U.ofU64 v).bits >>> 52).toNat = v.toNat.log2 + 1023 := by
    rw [UInt64.toNat_shiftRight, F64U.ofU64, UInt64.toNat_ofNat', Nat.mod_eq_of_lt (by omega),
      show (52 : UInt64).toNat % 64 = 52 from by decide, Nat.shiftRight_eq_div_pow, f1]
  rw [ofInt_toI, ← UInt64.toNat_inj, UInt64.toNat_add, UInt64.toNat_sub, UInt64.toNat_and, e2,
    show (2047 : UInt64).toNat = 2^11 - 1 from by decide, Nat.and_two_pow_sub_one_eq_mod,
    show (1023 : UInt64).toNat = 1023 from by decide, UInt64.toNat_ofNat']
  omega

/-- bit length of the low word through its top 32 bits -/
theorem log2_shift (l : Nat) (h : 2^53 ≤ l) : 32 + (l / 2^32).log2 = l.log2 := by
  have hne : l / 2^32 ≠ 0 := by omega
  have h1 := Nat.log2_self_le hne
  have h2 := @Nat.lt_log2_self (l / 2^32)
  symm
  rw [Nat.log2_eq_iff (by omega)]
  generalize (l / 2^32).log2 = k at *
  rw [show 32 + k + 1 = 32 + (k + 1) from rfl, Nat.pow_add, Nat.pow_add]
  generalize 2^k = A at *
  generalize 2^(k+1) = B at *
  omega

theorem log2_hi (hi l : Nat) (h0 : hi ≠ 0) (hl : l < 2^64) : 64 + hi.log2 = (hi * 2^64 + l).log2 := by
  have h1 := Nat.log2_self_le h0
  have h2 := @Nat.lt_log2_self hi
  symm
  rw [Nat.log2_eq_iff (by omega)]
  generalize hi.log2 = k at *
  rw [show 64 + k + 1 = 64 + (k + 1) from rfl, Nat.pow_add, Nat.pow_add]
  generalize 2^k = A at *
  generalize 2^(k+1) = B at *
  omega

theorem u64_ge (a b : UInt64) : decide (a ≥ b) = decide (b.toNat ≤ a.toNat) := by
  rw [decide_eq_decide, ge_iff_le, UInt64.le_iff_toNat_le]

theorem u64_beq_zero (a : UInt64) : (a == 0) = decide (a.toNat = 0) := by
  rw [Bool.eq_iff_iff, beq_iff_eq, decide_eq_true_eq, ← UInt64.toNat_inj, UInt64.toNat_zero]

/-- **bit length**: for every coefficient `0 < C < 2^113` the stage hands on `⌊log₂ C⌋ + 1` -/
theorem nrBitsK_spec {α : Type} (C1 : U128) (k : UInt64 → Except String α) (h0 : 0 < val128 C1) (hC : val128 C1 < 2^113) :
    nrBitsK C1 k = k (UInt64.ofNat ((val128 C1).log2 + 1)) := by
  have hl := C1.w0.toNat_lt
  unfold val128 at h0 hC ⊢
  unfold nrBitsK
  simp only [bind, Except.bind, pure, Except.pure, u64_beq_zero, u64_ge, UInt64.toNat_ofNat]
  by_cases c5 : C1.w1.toNat = 0
  · rw [if_pos (by simpa using c5)]
    by_cases c6 : 2^53 ≤ C1.w0.toNat
    · rw [if_pos (by simpa using c6), if_pos (by simp only [decide_eq_true_eq]; omega),
        nr_bits _ 33 (by rw [high32]; omega) (by rw [high32]; omega) (by decide)]
      rw [high32, show UInt64.toNat 33 = 32 + 1 from by decide, c5, Nat.zero_mul, Nat.zero_add, ← log2_shift _ c6]
      congr 2; omega
    · rw [if_neg (by simpa using c6), nr_bits _ 1 (by omega) (by omega) (by decide)]
      rw [show UInt64.toNat 1 = 1 from by decide, c5, Nat.zero_mul, Nat.zero_add, Nat.add_comm]
  · rw [if_neg (by simpa using c5), nr_bits _ 65 (by omega) (by omega) (by decide)]
    rw [show UInt64.toNat 65 = 64 + 1 from by decide, ← log2_hi _ _ c5 hl]
    congr 2; omega


theorem nr_len : Dec.Gen.BID_NR_DIGITS.length = 452 := by decide +kernel

theorem getElem?_getD (t : List Nat) (k : Nat) (h : k < t.length) : t[k]? = some (t.getD k 0) := by
  rw [List.getD_eq_getElem?_getD, List.getElem?_eq_getElem h, Option.getD_some]

/-- the table access of the code, on the index range the code uses -/
theorem tblDD_nr (i : Nat) (hi : i < 113) :
    tblDD Dec.Gen.BID_NR_DIGITS (UInt64.ofNat i) =
      .ok ⟨UInt32.ofNat (Dec.Gen.BID_NR_DIGITS.getD (i * 4 + 0) 0), UInt64.ofNat (Dec.Gen.BID_NR_DIGITS.getD (i * 4 + 1) 0),
        UInt64.ofNat (Dec.Gen.BID_NR_DIGITS.getD (i * 4 + 2) 0), UInt32.ofNat (Dec.Gen.BID_NR_DIGITS.getD (i * 4 + 3) 0)⟩ := by
  unfold tblDD
  rw [UInt64.toNat_ofNat', Nat.mod_eq_of_lt (by omega)]
  rw [getElem?_getD _ (4 * i) (by rw [nr_len]; omega), getElem?_getD _ (4 * i + 1) (by rw [nr_len]; omega),
    getElem?_getD _ (4 * i + 2) (by rw [nr_len]; omega), getElem?_getD _ (4 * i + 3) (by rw [nr_len]; omega)]
  simp only [Nat.mul_comm 4 i, Nat.add_zero]

/-- the digit-count stage once the table entry is known -/
theorem digitsK_eval {α : Type} (C1 : U128) (nb : UInt64) (k : Int32 → Except String α) (D D1 : UInt32) (THI TLO : UInt64)
    (ht : tblDD Dec.Gen.BID_NR_DIGITS (nb - 1) = .ok ⟨D, THI, TLO, D1⟩) :
    digitsK C1 nb k =
      k (if Int32.ofInt (toI D) = 0 then
          (if THI.toNat * 2^64 + TLO.toNat ≤ val128 C1 then Int32.ofInt (toI D1) + 1 else Int32.ofInt (toI D1))
        else Int32.ofInt (toI D)) := by
  obtain ⟨c0, c1⟩ := C1
  have := c0.toNat_lt; have := TLO.toNat_lt
  unfold val128
  simp only [digitsK, bind, Except.bind, pure, Except.pure, ht]
  by_cases h0 : Int32.ofInt (toI D) = 0
  · simp only [h0, beq_self_eq_true, if_true]
    by_cases h1 : c1 > THI
    · have : THI.toNat * 2^64 + TLO.toNat ≤ c1.toNat * 2^64 + c0.toNat := by
        rw [gt_iff_lt, UInt64.lt_iff_toNat_lt] at h1; omega
      simp only [h1, decide_true, if_true, this]
    · by_cases h2 : c1 = THI
      · subst h2
        by_cases h3 : c0 ≥ TLO
        · have : c1.toNat * 2^64 + TLO.toNat ≤ c1.toNat * 2^64 + c0.toNat := by
            rw [ge_iff_le, UInt64.le_iff_toNat_le] at h3; omega
          simp only [h1, decide_false, Bool.false_eq_true, if_false, beq_self_eq_true, if_true, h3, decide_true, this]
        · have : ¬ c1.toNat * 2^64 + TLO.toNat ≤ c1.toNat * 2^64 + c0.toNat := by
            rw [ge_iff_le, UInt64.le_iff_toNat_le] at h3; omega
          simp only [h1, decide_false, Bool.false_eq_true, if_false, beq_self_eq_true, if_true, h3, this]
      · have : ¬ THI.toNat * 2^64 + TLO.toNat ≤ c1.toNat * 2^64 + c0.toNat := by
          rw [gt_iff_lt, UInt64.lt_iff_toNat_lt] at h1
          rw [← UInt64.toNat_inj] at h2
          omega
        have h2' : (c1 == THI) = false := by rw [beq_eq_false_iff_ne]; exact h2
        simp only [h1, decide_false, Bool.false_eq_true, if_false, h2', this]
  · have h0' : (Int32.ofInt (toI D) == 0) = false := by rw [beq_eq_false_iff_ne]; exact h0
    simp only [h0', Bool.false_eq_true, if_false, h0]

/-- bounds on the entries of `BID_NR_DIGITS`, from its closed form: digit counts ≤ 35, thresholds one word each -/
theorem nr_bound (i : Nat) (hi : i < 113) :
    Dec.Gen.BID_NR_DIGITS.getD (i * 4 + 0) 0 < 64 ∧ Dec.Gen.BID_NR_DIGITS.getD (i * 4 + 1) 0 < 2^64 ∧
    Dec.Gen.BID_NR_DIGITS.getD (i * 4 + 2) 0 < 2^64 ∧ Dec.Gen.BID_NR_DIGITS.getD (i * 4 + 3) 0 < 64 := by
  have hp : 0 < 2 ^ i := Nat.pow_pos (by decide)
  have h2 : 2 ^ i < 10 ^ 35 :=
    calc 2 ^ i < 2 ^ 113 := Nat.pow_lt_pow_right (by decide) hi
      _ < 10 ^ 35 := by decide
  have hd : ndigitsSlow (2 ^ i) ≤ 35 := by
    rw [← ndigits_eq_slow, ndigits_le_iff hp]; exact h2
  have h10 : 10 ^ ndigitsSlow (2 ^ i) < 2 ^ 128 :=
    calc 10 ^ ndigitsSlow (2 ^ i) ≤ 10 ^ 35 := Nat.pow_le_pow_right (by decide) hd
      _ < 2 ^ 128 := by decide
  rw [Dec.TableFacts.BID_NR_DIGITS_getD i 0 hi (by decide), Dec.TableFacts.BID_NR_DIGITS_getD i 1 hi (by decide),
    Dec.TableFacts.BID_NR_DIGITS_getD i 2 hi (by decide), Dec.TableFacts.BID_NR_DIGITS_getD i 3 hi (by decide)]
  simp only [Dec.TableFacts.nrRow, List.getD_cons_zero, List.getD_cons_succ]
  generalize ndigitsSlow (2 ^ i) = dl at *
  generalize 10 ^ dl = T at *
  refine ⟨?_, by omega, by omega, by omega⟩
  split <;> omega

theorem i32_of_small (n : Nat) (h : n < 2^31) : (Int32.ofInt (toI (UInt32.ofNat n))).toInt = n := by
  rw [toI_u32, UInt32.toNat_ofNat', Nat.mod_eq_of_lt (by omega), Int32.toInt_ofInt_of_le (by omega) (by omega)]

/-- the digit count the code derives from the table entry of the bit length of `C` is `ndigits C` -/
theorem nr_q (C : Nat) (h0 : 0 < C) (hC : C < 2^113) :
    (if Int32.ofInt (toI (UInt32.ofNat (Dec.Gen.BID_NR_DIGITS.getD (C.log2 * 4 + 0) 0))) = 0 then
      (if (UInt64.ofNat (Dec.Gen.BID_NR_DIGITS.getD (C.log2 * 4 + 1) 0)).toNat * 2^64
            + (UInt64.ofNat (Dec.Gen.BID_NR_DIGITS.getD (C.log2 * 4 + 2) 0)).toNat ≤ C
        then Int32.ofInt (toI (UInt32.ofNat (Dec.Gen.BID_NR_DIGITS.getD (C.log2 * 4 + 3) 0))) + 1
        else Int32.ofInt (toI (UInt32.ofNat (Dec.Gen.BID_NR_DIGITS.getD (C.log2 * 4 + 3) 0))))
      else Int32.ofInt (toI (UInt32.ofNat (Dec.Gen.BID_NR_DIGITS.getD (C.log2 * 4 + 0) 0)))).toInt = (ndigits C : Int) := by
  have hL : C.log2 < 113 := (Nat.log2_lt (by omega)).2 hC
  obtain ⟨b0, b1, b2, b3⟩ := nr_bound _ hL
  rw [← Dec.TableFacts.nrDigits_mechanism_ndigits h0 hC]
  unfold Dec.TableFacts.nrDigitsLookup
  simp only []
  rw [UInt64.toNat_ofNat', UInt64.toNat_ofNat', Nat.mod_eq_of_lt b1, Nat.mod_eq_of_lt b2]
  generalize Dec.Gen.BID_NR_DIGITS.getD (C.log2 * 4 + 0) 0 = d at *
  generalize Dec.Gen.BID_NR_DIGITS.getD (C.log2 * 4 + 1) 0 = thi at *
  generalize Dec.Gen.BID_NR_DIGITS.getD (C.log2 * 4 + 2) 0 = tlo at *
  generalize Dec.Gen.BID_NR_DIGITS.getD (C.log2 * 4 + 3) 0 = d1 at *
  have e0 : (Int32.ofInt (toI (UInt32.ofNat d)) = 0) ↔ d = 0 := by
    rw [← Int32.toInt_inj, i32_of_small d (by omega)]
    simp
  by_cases hd : d = 0
  · rw [if_pos (e0.2 hd), if_neg (show ¬ d ≠ 0 from fun h => h hd)]
    by_cases ht : thi * 2^64 + tlo ≤ C
    · rw [if_pos ht, if_pos (show C ≥ thi * 2^64 + tlo from ht), Int32.toInt_add, i32_of_small d1 (by omega),
        show (1 : Int32).toInt = 1 from by decide, bmod32 _ (by omega) (by omega)]
      omega
    · rw [if_neg ht, if_neg (show ¬ C ≥ thi * 2^64 + tlo from ht), i32_of_small d1 (by omega)]
  · rw [if_neg (fun h => hd (e0.1 h)), if_pos hd, i32_of_small d (by omega)]

/-- **digit count** (stages 2 and 3 together): for every coefficient `0 < C < 2^113` — in particular every canonical
non-zero coefficient — the block hands on `q1 = ndigits C`, and no table access panics. -/
theorem digit_count {α : Type} (C1 : U128) (k : Int32 → Except String α) (h0 : 0 < val128 C1) (hC : val128 C1 < 2^113) :
    ∃ Q : Int32, Q.toInt = (ndigits (val128 C1) : Int) ∧ nrBitsK C1 (fun nb => digitsK C1 nb k) = k Q := by
  have hL : (val128 C1).log2 < 113 := (Nat.log2_lt (by omega)).2 hC
  have hidx : UInt64.ofNat ((val128 C1).log2 + 1) - 1 = UInt64.ofNat (val128 C1).log2 := by
    rw [← UInt64.toNat_inj, UInt64.toNat_sub, UInt64.toNat_ofNat', UInt64.toNat_ofNat', UInt64.toNat_one]
    omega
  rw [nrBitsK_spec C1 _ h0 hC, digitsK_eval C1 _ k _ _ _ _ (by rw [hidx]; exact tblDD_nr _ hL)]
  exact ⟨_, nr_q _ h0 hC, rfl⟩

-- 999 and 1000 lie in the same binary bucket [512, 1024): three and four digits; 10^20 needs the two-word threshold
example : nrBitsK ⟨999, 0⟩ (fun nb => digitsK ⟨999, 0⟩ nb (fun q => .ok q)) = .ok 3 := by rfl
example : nrBitsK ⟨1000, 0⟩ (fun nb => digitsK ⟨1000, 0⟩ nb (fun q => .ok q)) = .ok 4 := by rfl
example : nrBitsK ⟨0x6bc75e2d63100000, 5⟩ (fun nb => digitsK ⟨0x6bc75e2d63100000, 5⟩ nb (fun q => .ok q)) = .ok 21 := by rfl
example : ∃ Q : Int32, Q.toInt = (ndigits (val128 ⟨0x6bc75e2d63100000, 5⟩) : Int) ∧
    nrBitsK ⟨0x6bc75e2d63100000, 5⟩ (fun nb => digitsK ⟨0x6bc75e2d63100000, 5⟩ nb (fun q => .ok q)) = .ok Q :=
  digit_count _ _ (by decide) (by decide)

/-! ## 4. Scaling the coefficient -/

/-- `__mul_64x64_to_128MACH` is textually `__mul_64x64_to_128` -/
theorem mach_eq (a b : UInt64) : mul_64x64_to_128MACH a b = mul_64x64_to_128 a b := rfl

theorem mach_spec (a b : UInt64) : ∃ r, mul_64x64_to_128MACH a b = .ok r ∧ val128 r = a.toNat * b.toNat := by
  rw [mach_eq]; exact mul_64x64_to_128_spec a b

/-- `__mul_128x64_to_128`: the low 128 bits of the product -/
theorem mul_128x64_spec (a : UInt64) (B : U128) :
    ∃ r, mul_128x64_to_128 a B = .ok r ∧ val128 r = (a.toNat * val128 B) % 2^128 := by
  obtain ⟨q, hq, qv⟩ := mach_spec a B.w0
  refine ⟨⟨q.w0, q.w1 + a * B.w1⟩, ?_, ?_⟩
  · simp only [mul_128x64_to_128, bind, Except.bind, pure, Except.pure, hq]
  · have e : a.toNat * val128 B = a.toNat * B.w1.toNat * 2^64 + a.toNat * B.w0.toNat := by unfold val128; ring
    rw [e, ← qv]
    simp only [val128, UInt64.toNat_add, UInt64.toNat_mul]
    have := q.w0.toNat_lt; have := q.w1.toNat_lt
    generalize a.toNat * B.w1.toNat = m
    omega

example : mul_128x64_to_128 0xffffffffffffffff ⟨0xffffffffffffffff, 0xffffffffffffffff⟩ = .ok ⟨1, 0xffffffffffffffff⟩ := by rfl

/-- a small non-negative `i32` used as a table index -/
theorem idx_toNat (i : Int32) (n : Nat) (hi : i.toInt = n) : (UInt64.ofInt (toI i)).toNat = n := by
  have := i.toInt_lt
  rw [toI_i32, hi, ofInt_natCast64]
  have : (n : Int) < 2^31 := by rw [← hi]; exact i.toInt_lt
  omega

theorem sub20_toInt (i : Int32) (n : Nat) (hi : i.toInt = n) (h20 : 20 ≤ n) : (i - 20).toInt = ((n - 20 : Nat) : Int) := by
  have : (n : Int) < 2^31 := by rw [← hi]; exact i.toInt_lt
  rw [Int32.toInt_sub, hi, show (20 : Int32).toInt = 20 from rfl, bmod32 _ (by omega) (by omega)]
  omega

/-- one-word coefficient times `10^n`, `n ≤ 19`: the exact product -/
theorem scaleM1 (c : UInt64) (i : Int32) (n : Nat) (hi : i.toInt = n) (hn : n ≤ 19) :
    ∃ t r, tbl64 Dec.Gen.BID_TEN2K64 (UInt64.ofInt (toI i)) = .ok t ∧ mul_64x64_to_128MACH c t = .ok r ∧
      val128 r = c.toNat * 10 ^ n := by
  obtain ⟨t, ht, tv⟩ := tbl64_ten (UInt64.ofInt (toI i)) (by rw [idx_toNat i n hi]; omega)
  obtain ⟨r, hr, rv⟩ := mach_spec c t
  exact ⟨t, r, ht, hr, by rw [rv, tv, idx_toNat i n hi]⟩

/-- one-word coefficient times `10^n`, `20 ≤ n ≤ 38`: the low 128 bits of the product -/
theorem scaleM2 (c : UInt64) (i : Int32) (n : Nat) (hi : i.toInt = n) (h20 : 20 ≤ n) (h38 : n ≤ 38) :
    ∃ t r, tbl128 Dec.Gen.BID_TEN2K128 (UInt64.ofInt (toI (i - 20))) = .ok t ∧ mul_128x64_to_128 c t = .ok r ∧
      val128 r = (c.toNat * 10 ^ n) % 2^128 := by
  have hidx := idx_toNat (i - 20) (n - 20) (sub20_toInt i n hi h20)
  obtain ⟨t, ht, tv⟩ := tbl128_ten (UInt64.ofInt (toI (i - 20))) (by rw [hidx]; omega)
  obtain ⟨r, hr, rv⟩ := mul_128x64_spec c t
  refine ⟨t, r, ht, hr, ?_⟩
  rw [rv, tv, hidx, show n - 20 + 20 = n from by omega]

/-- two-word coefficient times `10^n`, `n ≤ 19`: the low 128 bits of the product -/
theorem scaleM3 (C1 : U128) (i : Int32) (n : Nat) (hi : i.toInt = n) (hn : n ≤ 19) :
    ∃ t r, tbl64 Dec.Gen.BID_TEN2K64 (UInt64.ofInt (toI i)) = .ok t ∧ mul_128x64_to_128 t C1 = .ok r ∧
      val128 r = (val128 C1 * 10 ^ n) % 2^128 := by
  obtain ⟨t, ht, tv⟩ := tbl64_ten (UInt64.ofInt (toI i)) (by rw [idx_toNat i n hi]; omega)
  obtain ⟨r, hr, rv⟩ := mul_128x64_spec t C1
  exact ⟨t, r, ht, hr, by rw [rv, tv, idx_toNat i n hi, Nat.mul_comm]⟩


theorem P34_toInt : c_P34.toInt = 34 := rfl

/-- the unbiased exponent as the code computes it (`(x_exp >> 49) − 6176` in `u64`, cast to `i32`), biased again -/
theorem exp_toInt (xe : UInt64) (E : Nat) (hE : xe.toNat = E * 2^49) (hE' : E < 2^14) :
    (Int32.ofInt (toI (xe >>> 49 - 6176)) + 6176).toInt = E := by
  have e1 : (xe >>> 49 - 6176).toNat = (2^64 - 6176 + E) % 2^64 := by
    rw [UInt64.toNat_sub, UInt64.toNat_shiftRight, hE, show (49 : UInt64).toNat % 64 = 49 from by decide,
      Nat.shiftRight_eq_div_pow, Nat.mul_div_cancel _ (by decide), show (6176 : UInt64).toNat = 6176 from by decide]
  rw [Int32.toInt_add, Int32.toInt_ofInt, toI_u64, e1, show (6176 : Int32).toInt = 6176 from rfl,
    show Int32.size = 4294967296 from rfl, Int.bmod_def, Int.bmod_def]
  omega

theorem P34_sub_toInt (Q : Int32) (q : Nat) (hQ : Q.toInt = q) (hq : q ≤ 34) : (c_P34 - Q).toInt = ((34 - q : Nat) : Int) := by
  rw [Int32.toInt_sub, P34_toInt, hQ, bmod32 _ (by omega) (by omega)]
  omega

theorem shl49 (w : UInt64) (n : Nat) (hw : w.toNat = n) (hn : n < 2^15) : (w <<< 49).toNat = n * 2^49 := by
  rw [UInt64.toNat_shiftLeft, hw, show (49 : UInt64).toNat % 64 = 49 from by decide, Nat.shiftLeft_eq]
  omega

theorem pow_le_34 (n : Nat) (h : n ≤ 34) : 10 ^ n ≤ 10 ^ 34 := Nat.pow_le_pow_right (by decide) h

/-- the scaled coefficient stays below `10^34` -/
theorem scaled_lt (C q n : Nat) (hC : C < 10 ^ q) (hn : q + n ≤ 34) : C * 10 ^ n < 10 ^ 34 :=
  calc C * 10 ^ n < 10 ^ q * 10 ^ n := Nat.mul_lt_mul_of_pos_right hC (Nat.pow_pos (by decide))
    _ = 10 ^ (q + n) := (Nat.pow_add 10 q n).symm
    _ ≤ 10 ^ 34 := pow_le_34 _ hn

theorem fits_word (C q : Nat) (hC : C < 10 ^ q) (hq : q ≤ 19) : C < 2^64 :=
  calc C < 10 ^ q := hC
    _ ≤ 10 ^ 19 := Nat.pow_le_pow_right (by decide) hq
    _ < 2 ^ 64 := by decide

theorem val128_word (C1 : U128) (h : val128 C1 < 2^64) : val128 C1 = C1.w0.toNat := by
  have := C1.w0.toNat_lt
  unfold val128 at h ⊢; omega

/-- **scaling stage**: a coefficient of `q` digits with biased exponent `E` is multiplied by `10^n`,
`n = min (34 − q) E` (as far as 34 digits and the least exponent allow), the exponent field lowered by `n`;
no table access panics. -/
theorem scaleK_spec {α : Type} (Q : Int32) (xe : UInt64) (C1 : U128) (k : UInt64 → U128 → Except String α)
    (q E : Nat) (hQ : Q.toInt = q) (hq1 : 1 ≤ q) (hq34 : q ≤ 34) (hE : xe.toNat = E * 2^49) (hE' : E < 2^14)
    (hC : val128 C1 < 10 ^ q) :
    ∃ xe' C1', scaleK Q xe C1 k = k xe' C1' ∧ val128 C1' = val128 C1 * 10 ^ (min (34 - q) E) ∧
      xe'.toNat = (E - min (34 - q) E) * 2^49 := by
  have hexp := exp_toInt xe E hE hE'
  have hsub := P34_sub_toInt Q q hQ hq34
  unfold scaleK
  simp only [bind, Except.bind, pure, Except.pure]
  by_cases h34 : Q < c_P34
  · rw [if_pos (by simpa using h34)]
    rw [Int32.lt_iff_toInt_lt, P34_toInt, hQ] at h34
    by_cases hgt : Int32.ofInt (toI (xe >>> 49 - 6176)) + 6176 > c_P34 - Q
    · rw [if_pos (by simpa using hgt)]
      rw [gt_iff_lt, Int32.lt_iff_toInt_lt, hexp, hsub] at hgt
      have hmin : min (34 - q) E = 34 - q := by omega
      have hxe : (xe - UInt64.ofInt (toI (c_P34 - Q)) <<< 49).toNat = (E - (34 - q)) * 2^49 := by
        rw [UInt64.toNat_sub, shl49 _ (34 - q) (idx_toNat _ _ hsub) (by omega), hE]
        have : (34 - q) * 2^49 ≤ E * 2^49 := Nat.mul_le_mul_right _ (by omega)
        rw [Nat.sub_mul]
        omega
      have hlt := scaled_lt _ q (34 - q) hC (by omega)
      rw [hmin]
      by_cases h19 : Q ≤ 19
      · rw [if_pos (by simpa using h19)]
        rw [Int32.le_iff_toInt_le, hQ, show (19 : Int32).toInt = 19 from rfl] at h19
        have hw := val128_word C1 (fits_word _ q hC (by omega))
        by_cases hi19 : c_P34 - Q ≤ 19
        · rw [if_pos (by simpa using hi19)]
          rw [Int32.le_iff_toInt_le, hsub, show (19 : Int32).toInt = 19 from rfl] at hi19
          obtain ⟨t, r, ht, hr, rv⟩ := scaleM1 C1.w0 (c_P34 - Q) (34 - q) hsub (by omega)
          simp only [ht, hr]
          exact ⟨_, _, rfl, by rw [rv, hw], hxe⟩
        · rw [if_neg (by simpa using hi19)]
          rw [Int32.le_iff_toInt_le, hsub, show (19 : Int32).toInt = 19 from rfl] at hi19
          obtain ⟨t, r, ht, hr, rv⟩ := scaleM2 C1.w0 (c_P34 - Q) (34 - q) hsub (by omega) (by omega)
          simp only [ht, hr]
          refine ⟨_, _, rfl, ?_, hxe⟩
          rw [rv, ← hw, Nat.mod_eq_of_lt (by omega)]
      · rw [if_neg (by simpa using h19)]
        rw [Int32.le_iff_toInt_le, hQ, show (19 : Int32).toInt = 19 from rfl] at h19
        have hi14 : c_P34 - Q ≤ 14 := by
          rw [Int32.le_iff_toInt_le, hsub, show (14 : Int32).toInt = 14 from rfl]; omega
        rw [if_pos (by simpa using hi14)]
        obtain ⟨t, r, ht, hr, rv⟩ := scaleM3 C1 (c_P34 - Q) (34 - q) hsub (by omega)
        simp only [ht, hr]
        refine ⟨_, _, rfl, ?_, hxe⟩
        rw [rv, Nat.mod_eq_of_lt (by omega)]
    · rw [if_neg (by simpa using hgt)]
      rw [gt_iff_lt, Int32.lt_iff_toInt_lt, hexp, hsub] at hgt
      have hmin : min (34 - q) E = E := by omega
      have hxe : c_EXP_MIN.toNat = (E - E) * 2^49 := by rw [Nat.sub_self, Nat.zero_mul]; rfl
      have hlt := scaled_lt _ q E hC (by omega)
      rw [hmin]
      by_cases hi19 : Int32.ofInt (toI (xe >>> 49 - 6176)) + 6176 ≤ 19
      · rw [if_pos (by simpa using hi19)]
        rw [Int32.le_iff_toInt_le, hexp, show (19 : Int32).toInt = 19 from rfl] at hi19
        by_cases h19 : Q ≤ 19
        · rw [if_pos (by simpa using h19)]
          rw [Int32.le_iff_toInt_le, hQ, show (19 : Int32).toInt = 19 from rfl] at h19
          have hw := val128_word C1 (fits_word _ q hC (by omega))
          obtain ⟨t, r, ht, hr, rv⟩ := scaleM1 C1.w0 _ E hexp (by omega)
          simp only [ht, hr]
          exact ⟨_, _, rfl, by rw [rv, hw], hxe⟩
        · rw [if_neg (by simpa using h19)]
          obtain ⟨t, r, ht, hr, rv⟩ := scaleM3 C1 _ E hexp (by omega)
          simp only [ht, hr]
          refine ⟨_, _, rfl, ?_, hxe⟩
          rw [rv, Nat.mod_eq_of_lt (by omega)]
      · rw [if_neg (by simpa using hi19)]
        rw [Int32.le_iff_toInt_le, hexp, show (19 : Int32).toInt = 19 from rfl] at hi19
        have hw := val128_word C1 (fits_word _ q hC (by omega))
        obtain ⟨t, r, ht, hr, rv⟩ := scaleM2 C1.w0 _ E hexp (by omega) (by omega)
        simp only [ht, hr]
        refine ⟨_, _, rfl, ?_, hxe⟩
        rw [rv, ← hw, Nat.mod_eq_of_lt (by omega)]
  · rw [if_neg (by simpa using h34)]
    rw [Int32.lt_iff_toInt_lt, P34_toInt, hQ] at h34
    have hmin : min (34 - q) E = 0 := by omega
    exact ⟨_, _, rfl, by rw [hmin, Nat.pow_zero, Nat.mul_one], by rw [hmin, Nat.sub_zero, hE]⟩

/-! ## 5. The final step and repacking -/

theorem or3 (S E W : Nat) (hS : S ≤ 1) (hE : E < 2^14) (hW : W < 2^49) :
    S * 2^63 ||| E * 2^49 ||| W = S * 2^63 + E * 2^49 + W := by
  rw [Dec.C06GenFromInt.or_disjoint S (E * 2^49) 63 (by omega)]
  have e : S * 2^63 + E * 2^49 = (S * 2^14 + E) * 2^49 := by omega
  rw [e, Dec.C06GenFromInt.or_disjoint _ W 49 hW]

/-- sign, exponent field and coefficient or-ed together are the pattern `S·2^127 + E·2^113 + c` -/
theorem pack_bits (sg xe w1 w0 : UInt64) (S E c : Nat) (hs : sg.toNat = S * 2^63) (hS : S ≤ 1)
    (hxe : xe.toNat = E * 2^49) (hE : E < 2^14) (hc : w1.toNat * 2^64 + w0.toNat = c) (hlt : c < 2^113) :
    (⟨w0, sg ||| xe ||| w1⟩ : U128) = ofBits (S * 2^127 + E * 2^113 + c) := by
  have := w0.toNat_lt
  apply eq_ofBits
  simp only [bitsOf, UInt64.toNat_or, hs, hxe]
  rw [or3 S E _ hS hE (by omega)]
  subst hc; ring

/-- **one unit away from zero**: the coefficient `c < 10^34` becomes `c + 1`, or `10^33` with the exponent raised when
`c + 1 = 10^34` -/
theorem stepK_away (sg xe : UInt64) (C1 : U128) (f : UInt32) (S E : Nat) (hs : sg.toNat = S * 2^63) (hS : S ≤ 1)
    (hxe : xe.toNat = E * 2^49) (hE : E + 1 < 2^14) (hlt : val128 C1 < P34) :
    stepK true sg xe C1 f =
      .ok (ofBits (S * 2^127 + (if val128 C1 + 1 = P34 then (E + 1) * 2^113 + P33 else E * 2^113 + (val128 C1 + 1))), f) := by
  obtain ⟨c0, c1⟩ := C1
  have h0 := c0.toNat_lt
  have h1 := c1.toNat_lt
  have e34 : P34 = 10000000000000000000000000000000000 := rfl
  have e33 : P33 = 1000000000000000000000000000000000 := rfl
  have hv : val128 ⟨c0, c1⟩ = c1.toNat * 2^64 + c0.toNat := rfl
  generalize val128 ⟨c0, c1⟩ = c at *
  have hxe' : (xe + c_EXP_P1).toNat = (E + 1) * 2^49 := by
    rw [UInt64.toNat_add, hxe, show c_EXP_P1.toNat = 2^49 from rfl]; omega
  simp only [stepK, bind, Except.bind, pure, Except.pure, ↓reduceIte]
  by_cases a1 : (c0 + 1 == 0) = true
  · rw [if_pos a1]
    simp only [beq_iff_eq, ← UInt64.toNat_inj, UInt64.toNat_add, UInt64.toNat_ofNat, UInt64.toNat_one] at a1
    by_cases a2 : (c1 + 1 == 542101086242752 && c0 + 1 == 4003012203950112768) = true
    · simp only [Bool.and_eq_true, beq_iff_eq, ← UInt64.toNat_inj, UInt64.toNat_add, UInt64.toNat_ofNat, UInt64.toNat_one] at a2
      omega
    · rw [if_neg a2, if_neg (by omega)]
      refine congrArg (fun r => Except.ok (r, f)) ?_
      rw [← Nat.add_assoc]
      exact pack_bits _ _ _ _ S E _ hs hS hxe (by omega) (by simp only [UInt64.toNat_add, UInt64.toNat_one]; omega) (by omega)
  · rw [if_neg a1]
    simp only [beq_iff_eq, ← UInt64.toNat_inj, UInt64.toNat_add, UInt64.toNat_ofNat, UInt64.toNat_one] at a1
    by_cases a2 : (c1 == 542101086242752 && c0 + 1 == 4003012203950112768) = true
    · rw [if_pos a2]
      simp only [Bool.and_eq_true, beq_iff_eq, ← UInt64.toNat_inj, UInt64.toNat_add, UInt64.toNat_ofNat, UInt64.toNat_one] at a2
      rw [if_pos (by omega)]
      refine congrArg (fun r => Except.ok (r, f)) ?_
      rw [← Nat.add_assoc]
      exact pack_bits _ _ _ _ S (E + 1) _ hs hS hxe' (by omega) (by rw [e33]; decide) (by omega)
    · rw [if_neg a2]
      simp only [Bool.and_eq_true, beq_iff_eq, ← UInt64.toNat_inj, UInt64.toNat_add, UInt64.toNat_ofNat, UInt64.toNat_one] at a2
      rw [if_neg (by omega)]
      refine congrArg (fun r => Except.ok (r, f)) ?_
      rw [← Nat.add_assoc]
      exact pack_bits _ _ _ _ S E _ hs hS hxe (by omega) (by simp only [UInt64.toNat_add, UInt64.toNat_one]; omega) (by omega)

/-- **one unit towards zero**: the coefficient `c > 0` becomes `c − 1`, or `10^34 − 1` with the exponent lowered when
`c = 10^33` and the exponent is not the least one -/
theorem stepK_toward (sg xe : UInt64) (C1 : U128) (f : UInt32) (S E : Nat) (hs : sg.toNat = S * 2^63) (hS : S ≤ 1)
    (hxe : xe.toNat = E * 2^49) (hE : E < 2^14) (hpos : 0 < val128 C1) (hlt : val128 C1 < P34) :
    stepK false sg xe C1 f =
      .ok (ofBits (S * 2^127 + (if E ≠ 0 ∧ val128 C1 = P33 then (E - 1) * 2^113 + (P34 - 1) else E * 2^113 + (val128 C1 - 1))), f) := by
  obtain ⟨c0, c1⟩ := C1
  have h0 := c0.toNat_lt
  have h1 := c1.toNat_lt
  have e34 : P34 = 10000000000000000000000000000000000 := rfl
  have e33 : P33 = 1000000000000000000000000000000000 := rfl
  have hv : val128 ⟨c0, c1⟩ = c1.toNat * 2^64 + c0.toNat := rfl
  generalize val128 ⟨c0, c1⟩ = c at *
  have hxe' : E ≠ 0 → (xe - c_EXP_P1).toNat = (E - 1) * 2^49 := by
    intro hne
    rw [UInt64.toNat_sub, hxe, show c_EXP_P1.toNat = 2^49 from rfl]; omega
  have hne : (xe != 0) = decide (E ≠ 0) := by
    rw [Bool.eq_iff_iff, bne_iff_ne, decide_eq_true_eq, ne_eq, ne_eq, ← UInt64.toNat_inj, hxe, UInt64.toNat_zero]
    omega
  simp only [stepK, bind, Except.bind, pure, Except.pure, ↓reduceIte, Bool.false_eq_true, hne]
  by_cases a1 : (c0 - 1 == 18446744073709551615) = true
  · rw [if_pos a1]
    simp only [beq_iff_eq, ← UInt64.toNat_inj, UInt64.toNat_sub, UInt64.toNat_ofNat, UInt64.toNat_one] at a1
    by_cases a2 : (decide (E ≠ 0) && c1 - 1 == 54210108624275 && c0 - 1 == 4089650035136921599) = true
    · simp only [Bool.and_eq_true, beq_iff_eq, ← UInt64.toNat_inj, UInt64.toNat_sub, UInt64.toNat_ofNat, UInt64.toNat_one] at a2
      omega
    · rw [if_neg a2, if_neg (by omega)]
      refine congrArg (fun r => Except.ok (r, f)) ?_
      rw [← Nat.add_assoc]
      exact pack_bits _ _ _ _ S E _ hs hS hxe (by omega) (by simp only [UInt64.toNat_sub, UInt64.toNat_one]; omega) (by omega)
  · rw [if_neg a1]
    simp only [beq_iff_eq, ← UInt64.toNat_inj, UInt64.toNat_sub, UInt64.toNat_ofNat, UInt64.toNat_one] at a1
    by_cases a2 : (decide (E ≠ 0) && c1 == 54210108624275 && c0 - 1 == 4089650035136921599) = true
    · rw [if_pos a2]
      simp only [Bool.and_eq_true, beq_iff_eq, decide_eq_true_eq, ← UInt64.toNat_inj, UInt64.toNat_sub, UInt64.toNat_ofNat, UInt64.toNat_one] at a2
      rw [if_pos ⟨a2.1.1, by omega⟩]
      refine congrArg (fun r => Except.ok (r, f)) ?_
      rw [← Nat.add_assoc]
      exact pack_bits _ _ _ _ S (E - 1) _ hs hS (hxe' a2.1.1) (by omega) (by rw [e34]; decide) (by omega)
    · rw [if_neg a2]
      simp only [Bool.and_eq_true, beq_iff_eq, decide_eq_true_eq, ← UInt64.toNat_inj, UInt64.toNat_sub, UInt64.toNat_ofNat, UInt64.toNat_one] at a2
      rw [if_neg (by omega)]
      refine congrArg (fun r => Except.ok (r, f)) ?_
      rw [← Nat.add_assoc]
      exact pack_bits _ _ _ _ S E _ hs hS hxe (by omega) (by simp only [UInt64.toNat_sub, UInt64.toNat_one]; omega) (by omega)

/-! ## 6. The general path, and `bid128_nextup` on finite non-zero operands -/

/-- exponent field and coefficient after the final step: `away` from zero or towards zero, from the scaled
coefficient `c` with biased exponent `E` -/
def stepBits (away : Bool) (E c : Nat) : Nat :=
  if away then (if c + 1 = P34 then (E + 1) * 2^113 + P33 else E * 2^113 + (c + 1))
  else (if E ≠ 0 ∧ c = P33 then (E - 1) * 2^113 + (P34 - 1) else E * 2^113 + (c - 1))

/-- the number of zeros the coefficient `C` with biased exponent `E` is padded with -/
def padBy (C E : Nat) : Nat := min (34 - ndigits C) E

theorem ndigits_le_34 {C : Nat} (h0 : 0 < C) (hlt : C < P34) : ndigits C ≤ 34 := by
  rw [ndigits_le_iff h0]; exact hlt

/-- **the general path** (digit count, scaling, step, repacking) on a coefficient `0 < C < 10^34` with biased
exponent `E` and sign bit `S`: the pattern of sign, stepped exponent and stepped coefficient; no panic. -/
theorem generalK_spec (away : Bool) (sg xe : UInt64) (C1 : U128) (f : UInt32) (S E : Nat)
    (hs : sg.toNat = S * 2^63) (hS : S ≤ 1) (hxe : xe.toNat = E * 2^49) (hE : E < 12288)
    (hpos : 0 < val128 C1) (hlt : val128 C1 < P34) :
    generalK away sg xe C1 f =
      .ok (ofBits (S * 2^127 + stepBits away (E - padBy (val128 C1) E) (val128 C1 * 10 ^ padBy (val128 C1) E)), f) := by
  have hq34 := ndigits_le_34 hpos hlt
  have hq1 := ndigits_pos hpos
  have hCq := lt_pow_ndigits (val128 C1)
  have h113 : val128 C1 < 2^113 := by clear hCq; simp only [P34] at hlt; omega
  have hE14 : E < 2^14 := by clear hCq; omega
  unfold generalK padBy
  obtain ⟨Q, hQ, hdc⟩ := digit_count C1 (fun q1 => scaleK q1 xe C1 (fun x_exp C1 => stepK away sg x_exp C1 f)) hpos h113
  rw [hdc]
  generalize ndigits (val128 C1) = q at *
  have hn : q + min (34 - q) E ≤ 34 := by clear hCq; omega
  have hE1 : E - min (34 - q) E + 1 < 2^14 := by clear hCq; omega
  have hE2 : E - min (34 - q) E < 2^14 := by clear hCq; omega
  obtain ⟨xe', C1', hsc, hv', hxe'⟩ := scaleK_spec Q xe C1 (fun x_exp C1 => stepK away sg x_exp C1 f)
    q E hQ hq1 hq34 hxe hE14 hCq
  rw [hsc]
  have hlt' : val128 C1' < P34 := by
    rw [hv']; exact scaled_lt _ _ _ hCq hn
  have hpos' : 0 < val128 C1' := by
    rw [hv']; exact Nat.mul_pos hpos (Nat.pow_pos (by decide))
  unfold stepBits
  cases away
  · rw [stepK_toward sg xe' C1' f S _ hs hS hxe' hE2 hpos' hlt', hv']
    simp only [Bool.false_eq_true, if_false]
  · rw [stepK_away sg xe' C1' f S _ hs hS hxe' hE1 hlt', hv']
    simp only [if_true]


/-! ### the spec-level model in the same terms -/

/-- `normalize` in terms of the biased exponent -/
theorem normalize_eq (C E : Nat) (hq : ndigits C ≤ 34) :
    normalize C ((E : Int) - 6176) = (C * 10 ^ padBy C E, ((E - padBy C E : Nat) : Int) - 6176) := by
  unfold normalize padBy eMin
  generalize ndigits C = q at *
  simp only []
  by_cases h : (34 : Int) - (q : Int) ≤ (E : Int) - 6176 - -6176
  · rw [if_pos h]
    have e1 : ((34 : Int) - (q : Int)).toNat = min (34 - q) E := by omega
    rw [e1]
    congr 1
    omega
  · rw [if_neg h]
    have e1 : ((E : Int) - 6176 - -6176).toNat = min (34 - q) E := by omega
    rw [e1]
    congr 1
    omega

theorem ten_dvd_scaled (C n : Nat) (hn : 0 < n) : 10 ∣ C * 10 ^ n := by
  obtain ⟨m, rfl⟩ : ∃ m, n = m + 1 := ⟨n - 1, by omega⟩
  exact ⟨C * 10 ^ m, by rw [Nat.pow_succ]; ring⟩

/-- the scaled coefficient is `10^34 − 1` only if nothing was padded -/
theorem scaled_max (C n : Nat) (h : C * 10 ^ n + 1 = P34) : n = 0 := by
  by_contra hn
  obtain ⟨m, hm⟩ := ten_dvd_scaled C n (by omega)
  simp only [P34] at h
  omega

/-- `next_up` of a positive finite non-zero datum that is not the largest one: one unit away from zero -/
theorem encode_nextUp_pos (C E : Nat) (hpos : 0 < C) (hlt : C < P34) (hE : E < 12288) (hmax : ¬ (C + 1 = P34 ∧ E = 12287)) :
    encode (nextUpD (.fin false C ((E : Int) - 6176))) = stepBits true (E - padBy C E) (C * 10 ^ padBy C E) := by
  rw [Dec.C17Adjacent.nextUp_fin_pos C _ (by omega), normalize_eq C E (ndigits_le_34 hpos hlt)]
  unfold stepBits eMax
  simp only [if_true]
  have hle : padBy C E ≤ E := by unfold padBy; omega
  generalize hn : padBy C E = n at *
  by_cases h1 : C * 10 ^ n + 1 = P34
  · have hn0 := scaled_max C n h1
    subst hn0
    simp only [Nat.pow_zero, Nat.mul_one, Nat.sub_zero] at h1 ⊢
    have hE' : E ≠ 12287 := fun h => hmax ⟨h1, h⟩
    rw [if_pos h1, if_pos h1, if_neg (by omega)]
    simp only [encode, signBit, Bool.false_eq_true, if_false]
    rw [show ((((E : Nat) : Int) - 6176 + 1 + 6176).toNat) = E + 1 from by omega]
    omega
  · rw [if_neg h1, if_neg h1]
    simp only [encode, signBit, Bool.false_eq_true, if_false]
    rw [show ((((E - n : Nat) : Int) - 6176 + 6176).toNat) = E - n from by omega]
    omega

/-- `next_up` of a negative finite non-zero datum: one unit towards zero -/
theorem encode_nextUp_neg (C E : Nat) (hpos : 0 < C) (hlt : C < P34) :
    encode (nextUpD (.fin true C ((E : Int) - 6176))) = 2^127 + stepBits false (E - padBy C E) (C * 10 ^ padBy C E) := by
  rw [Dec.C17Adjacent.nextUp_fin_neg C _ (by omega), normalize_eq C E (ndigits_le_34 hpos hlt)]
  unfold stepBits eMin
  simp only [Bool.false_eq_true, if_false]
  have hle : padBy C E ≤ E := by unfold padBy; omega
  generalize hn : padBy C E = n at *
  generalize C * 10 ^ n = c
  by_cases h1 : E - n ≠ 0 ∧ c = P33
  · rw [if_pos h1, if_pos ⟨h1.2, by omega⟩]
    simp only [encode, signBit, if_true]
    rw [show ((((E - n : Nat) : Int) - 6176 - 1 + 6176).toNat) = E - n - 1 from by omega]
    omega
  · rw [if_neg h1, if_neg (fun h => h1 ⟨by omega, h.1⟩)]
    simp only [encode, signBit, if_true]
    rw [show ((((E - n : Nat) : Int) - 6176 + 6176).toNat) = E - n from by omega]
    omega


/-! ### `bid128_nextup`, finite non-zero operands -/

theorem exp_toNat (w : UInt64) : (w &&& c_MASK_EXP).toNat = (w.toNat / 2^49 % 2^14) * 2^49 :=
  toNat_and_field w _ 14 49 (by decide)

theorem coeff_val (x : U128) : val128 ⟨x.w0, x.w1 &&& c_MASK_COEFF⟩ = sigW x.w1.toNat x.w0.toNat := by
  unfold val128 sigW
  rw [show c_MASK_COEFF = 0x1ffffffffffff from rfl, coeff_hi]

theorem u128_beq (x : U128) (a b : UInt64) : (x.w1 == a && x.w0 == b) = decide (x = ⟨b, a⟩) := by
  obtain ⟨x0, x1⟩ := x
  rw [Bool.eq_iff_iff]
  simp only [Bool.and_eq_true, beq_iff_eq, decide_eq_true_eq, U128.mk.injEq]
  exact And.comm

theorem coeff_nonzero (x : U128) (hpos : 0 < sigW x.w1.toNat x.w0.toNat) :
    ((⟨x.w0, x.w1 &&& c_MASK_COEFF⟩ : U128).w1 == 0 && (⟨x.w0, x.w1 &&& c_MASK_COEFF⟩ : U128).w0 == 0) = false := by
  rw [zero128]
  show decide (val128 ⟨x.w0, x.w1 &&& c_MASK_COEFF⟩ = 0) = false
  rw [coeff_val, decide_eq_false_iff_not]
  omega

/-- the fields of a finite non-zero operand make up its high word -/
theorem hi_fields (h : Nat) (hh : h < 2^64) : h = (h / 2^63 % 2) * 2^63 + (h / 2^49 % 2^14) * 2^49 + h % 2^49 := by omega

/-- **`bid128_nextup` on finite non-zero operands** (canonical by necessity: every other finite pattern is a zero):
the canonical encoding of `nextUpD`, no flag, no panic. -/
theorem nextup_fin (x : U128) (f : UInt32) (hx : nzFin x) :
    bid128_nextup x f = .ok (ofBits (encode (nextUpD (decode (bitsOf x)))), f) := by
  obtain ⟨hd, hpos, hlt⟩ := nzFin_decode x hx
  have hI := hx.1
  have hS : x.w1.toNat / 2^61 % 4 ≠ 3 := fun h => hx.2 (Or.inl h)
  have hh := x.w1.toNat_lt
  have hl := x.w0.toNat_lt
  rw [nextup_shape, special_test, if_neg (by simpa using hI), canonK_nz x _ hx, coeff_nonzero x hpos,
    if_neg Bool.false_ne_true, u128_beq, u128_beq]
  by_cases hmax : x = ⟨0x378d8e63ffffffff, 0x5fffed09bead87c0⟩
  · rw [if_pos (by simpa using hmax), hmax]
    exact congrArg (fun r => Except.ok (r, f)) (by decide +kernel)
  rw [if_neg (by simpa using hmax)]
  by_cases hmin : x = ⟨1, 0x8000000000000000⟩
  · rw [if_pos (by simpa using hmin), hmin]
    exact congrArg (fun r => Except.ok (r, f)) (by decide +kernel)
  rw [if_neg (by simpa using hmin), hd]
  have hE : x.w1.toNat / 2^49 % 2^14 < 12288 := by omega
  rw [generalK_spec (x.w1 &&& c_MASK_SIGN == 0) (x.w1 &&& c_MASK_SIGN) (x.w1 &&& c_MASK_EXP) ⟨x.w0, x.w1 &&& c_MASK_COEFF⟩ f
    (x.w1.toNat / 2^63 % 2) (x.w1.toNat / 2^49 % 2^14) (sign_toNat x.w1) (by omega)
    (exp_toNat x.w1) hE (by rw [coeff_val]; exact hpos) (by rw [coeff_val]; exact hlt), coeff_val,
    show c_MASK_SIGN = 0x8000000000000000 from rfl, sign_zero_test]
  refine congrArg (fun r => Except.ok (ofBits r, f)) ?_
  unfold negW
  by_cases hs : x.w1.toNat / 2^63 % 2 = 0
  · have hs' : ¬ x.w1.toNat / 2^63 % 2 = 1 := by omega
    rw [decide_eq_false hs', decide_eq_true hs, hs, encode_nextUp_pos _ _ hpos hlt hE ?_]
    · omega
    · rintro ⟨h1, h2⟩
      apply hmax
      have e1 : x.w1.toNat % 2^49 * 2^64 + x.w0.toNat = 9999999999999999999999999999999999 :=
        Nat.eq_sub_of_add_eq h1
      have := hi_fields _ hh
      rw [u128_eq_iff]
      simp only [UInt64.toNat_ofNat]
      omega
  · have hs' : x.w1.toNat / 2^63 % 2 = 1 := by omega
    rw [decide_eq_true hs', decide_eq_false hs, hs', encode_nextUp_neg _ _ hpos hlt, Nat.one_mul]


theorem nzFin_not_nan (x : U128) (hx : nzFin x) : (decode (bitsOf x)).isNaN = false := by
  rw [(nzFin_decode x hx).1]; rfl

/-- **`bid128_nextup`, all 2^128 patterns, every incoming status word**: the result is the canonical encoding of
`nextUpD` of the decoded operand (NaN operand: its quieted canonical copy); `invalid` is or-ed into the status word
iff the operand is a signalling NaN, nothing else is ever raised; the routine never panics. -/
theorem nextup_spec (x : U128) (f : UInt32) :
    bid128_nextup x f = .ok (ofBits (encode (upD (decode (bitsOf x)))), nanFlags f (decode (bitsOf x))) := by
  by_cases h : special (decode (bitsOf x)) = true
  · exact nextup_front x f h
  · have hx : nzFin x := Classical.not_not.1 (fun hc => h ((special_iff x).2 hc))
    rw [nextup_fin x f hx, upD_of_not_nan (nzFin_not_nan x hx), nanFlags_of_not_nan f (nzFin_not_nan x hx)]

/-- non-NaN operands: exactly `encode (nextUpD d)`, status word unchanged -/
theorem nextup_nonnan (x : U128) (f : UInt32) (h : (decode (bitsOf x)).isNaN = false) :
    bid128_nextup x f = .ok (ofBits (encode (nextUpD (decode (bitsOf x)))), f) := by
  rw [nextup_spec, upD_of_not_nan h, nanFlags_of_not_nan f h]

-- 5 ↦ 5.000000000000000000000000000000001;  −5 ↦ −4.999999999999999999999999999999999;
-- 9999999999999999999999999999999999E+10 ↦ 1000000000000000000000000000000000E+11;
-- −1000000000000000000000000000000000E+10 ↦ −9999999999999999999999999999999999E+9;  +MAX ↦ +Inf;  −1E−6176 ↦ −0E−6176;
-- the subnormal 1E−6170 (exponent field 6) can only be padded by six zeros
example : bid128_nextup ⟨5, 0x3040000000000000⟩ 0 = .ok (⟨2001506101975056385, 3458472614410240992⟩, 0) := by rfl
example : bid128_nextup ⟨5, 0x3040000000000000⟩ 0 = .ok (ofBits (encode (.fin false (5 * 10^33 + 1) (-33))), 0) := by
  rw [nextup_nonnan _ _ (by decide +kernel)]; decide +kernel
example : bid128_nextup ⟨5, 0xb040000000000000⟩ 0 = .ok (ofBits (encode (.fin true (5 * 10^33 - 1) (-33))), 0) := by
  rw [nextup_nonnan _ _ (by decide +kernel)]; decide +kernel
example : bid128_nextup ⟨0x378d8e63ffffffff, 0x3055ed09bead87c0⟩ 0 = .ok (ofBits (encode (.fin false (10^33) 11)), 0) := by
  rw [nextup_nonnan _ _ (by decide +kernel)]; decide +kernel
example : bid128_nextup ⟨0x38c15b0a00000000, 0xb054314dc6448d93⟩ 0 = .ok (ofBits (encode (.fin true (10^34 - 1) 9)), 0) := by
  rw [nextup_nonnan _ _ (by decide +kernel)]; decide +kernel
example : bid128_nextup ⟨0x378d8e63ffffffff, 0x5fffed09bead87c0⟩ 0 = .ok (ofBits (encode (.inf false)), 0) := by
  rw [nextup_nonnan _ _ (by decide +kernel)]; decide +kernel
example : bid128_nextup ⟨1, 0x8000000000000000⟩ 0 = .ok (ofBits (encode (.fin true 0 (-6176))), 0) := by
  rw [nextup_nonnan _ _ (by decide +kernel)]; decide +kernel
example : bid128_nextup ⟨1, 0x000c000000000000⟩ 0x3f = .ok (ofBits (encode (.fin false 1000001 (-6176))), 0x3f) := by
  rw [nextup_nonnan _ _ (by decide +kernel)]; decide +kernel

/-! ## 7. `bid128_nextdown` -/

/-- flipping the sign of a datum flips bit 127 of its encoding -/
theorem encode_negate (d : Datum) :
    encode d.negate + (if d.neg then 2^127 else 0) = encode d + (if d.neg then 0 else 2^127) := by
  cases d with
  | fin s c e => cases s <;> simp only [Datum.negate, Datum.setSign, Datum.neg, encode, signBit, Bool.not_true, Bool.not_false,
      Bool.false_eq_true, if_true, if_false] <;> omega
  | inf s => cases s <;> simp only [Datum.negate, Datum.setSign, Datum.neg, encode, signBit, Bool.not_true, Bool.not_false,
      Bool.false_eq_true, if_true, if_false] <;> omega
  | nan s g p => cases s <;> simp only [Datum.negate, Datum.setSign, Datum.neg, encode, signBit, Bool.not_true, Bool.not_false,
      Bool.false_eq_true, if_true, if_false] <;> omega

/-- `next_up` of a non-zero finite datum keeps the sign -/
theorem nextUpD_neg (s : Bool) (c : Nat) (e : Int) (hc : c ≠ 0) : (nextUpD (.fin s c e)).neg = s := by
  cases s
  · rw [Dec.C17Adjacent.nextUp_fin_pos c e hc]
    split
    · split <;> rfl
    · rfl
  · rw [Dec.C17Adjacent.nextUp_fin_neg c e hc]
    split <;> rfl

theorem negate_fin (s : Bool) (c : Nat) (e : Int) : (Datum.fin s c e).negate = .fin (!s) c e := rfl

/-- `next_down` of a negative finite non-zero datum that is not the most negative one: one unit away from zero -/
theorem encode_nextDown_neg (C E : Nat) (hpos : 0 < C) (hlt : C < P34) (hE : E < 12288) (hmax : ¬ (C + 1 = P34 ∧ E = 12287)) :
    encode (nextDownD (.fin true C ((E : Int) - 6176))) = 2^127 + stepBits true (E - padBy C E) (C * 10 ^ padBy C E) := by
  have h := encode_negate (nextUpD (.fin false C ((E : Int) - 6176)))
  rw [nextUpD_neg _ _ _ (by omega), encode_nextUp_pos C E hpos hlt hE hmax] at h
  unfold nextDownD
  rw [negate_fin]
  simp only [Bool.false_eq_true, if_false, Bool.not_true] at h ⊢
  omega

/-- `next_down` of a positive finite non-zero datum: one unit towards zero -/
theorem encode_nextDown_pos (C E : Nat) (hpos : 0 < C) (hlt : C < P34) :
    encode (nextDownD (.fin false C ((E : Int) - 6176))) = stepBits false (E - padBy C E) (C * 10 ^ padBy C E) := by
  have h := encode_negate (nextUpD (.fin true C ((E : Int) - 6176)))
  rw [nextUpD_neg _ _ _ (by omega), encode_nextUp_neg C E hpos hlt] at h
  unfold nextDownD
  rw [negate_fin]
  simp only [if_true, Bool.not_false] at h ⊢
  omega

theorem sign_nonzero_test (w : UInt64) : (w &&& 0x8000000000000000 != 0) = decide (w.toNat / 2^63 % 2 = 1) := by
  rw [bne, sign_zero_test, Bool.eq_iff_iff]
  simp only [Bool.not_eq_true', decide_eq_false_iff_not, decide_eq_true_eq]
  omega

/-- **`bid128_nextdown` on finite non-zero operands**: the canonical encoding of `nextDownD`, no flag, no panic. -/
theorem nextdown_fin (x : U128) (f : UInt32) (hx : nzFin x) :
    bid128_nextdown x f = .ok (ofBits (encode (nextDownD (decode (bitsOf x)))), f) := by
  obtain ⟨hd, hpos, hlt⟩ := nzFin_decode x hx
  have hI := hx.1
  have hS : x.w1.toNat / 2^61 % 4 ≠ 3 := fun h => hx.2 (Or.inl h)
  have hh := x.w1.toNat_lt
  have hl := x.w0.toNat_lt
  rw [nextdown_shape, special_test, if_neg (by simpa using hI), canonK_nz x _ hx, coeff_nonzero x hpos,
    if_neg Bool.false_ne_true, u128_beq, u128_beq]
  by_cases hmax : x = ⟨0x378d8e63ffffffff, 0xdfffed09bead87c0⟩
  · rw [if_pos (by simpa using hmax), hmax]
    exact congrArg (fun r => Except.ok (r, f)) (by decide +kernel)
  rw [if_neg (by simpa using hmax)]
  by_cases hmin : x = ⟨1, 0⟩
  · rw [if_pos (by simpa using hmin), hmin]
    exact congrArg (fun r => Except.ok (r, f)) (by decide +kernel)
  rw [if_neg (by simpa using hmin), hd]
  have hE : x.w1.toNat / 2^49 % 2^14 < 12288 := by omega
  rw [generalK_spec (x.w1 &&& c_MASK_SIGN != 0) (x.w1 &&& c_MASK_SIGN) (x.w1 &&& c_MASK_EXP) ⟨x.w0, x.w1 &&& c_MASK_COEFF⟩ f
    (x.w1.toNat / 2^63 % 2) (x.w1.toNat / 2^49 % 2^14) (sign_toNat x.w1) (by omega)
    (exp_toNat x.w1) hE (by rw [coeff_val]; exact hpos) (by rw [coeff_val]; exact hlt), coeff_val,
    show c_MASK_SIGN = 0x8000000000000000 from rfl, sign_nonzero_test]
  refine congrArg (fun r => Except.ok (ofBits r, f)) ?_
  unfold negW
  by_cases hs : x.w1.toNat / 2^63 % 2 = 1
  · rw [decide_eq_true hs, hs, encode_nextDown_neg _ _ hpos hlt hE ?_, Nat.one_mul]
    rintro ⟨h1, h2⟩
    apply hmax
    have e1 : x.w1.toNat % 2^49 * 2^64 + x.w0.toNat = 9999999999999999999999999999999999 :=
      Nat.eq_sub_of_add_eq h1
    have := hi_fields _ hh
    rw [u128_eq_iff]
    simp only [UInt64.toNat_ofNat]
    omega
  · have hs' : x.w1.toNat / 2^63 % 2 = 0 := by omega
    rw [decide_eq_false hs, hs', encode_nextDown_pos _ _ hpos hlt]
    omega

/-- **`bid128_nextdown`, all 2^128 patterns, every incoming status word**: the result is the canonical encoding of
`nextDownD` of the decoded operand (NaN operand: its quieted canonical copy); `invalid` is or-ed into the status word
iff the operand is a signalling NaN, nothing else is ever raised; the routine never panics. -/
theorem nextdown_spec (x : U128) (f : UInt32) :
    bid128_nextdown x f = .ok (ofBits (encode (downD (decode (bitsOf x)))), nanFlags f (decode (bitsOf x))) := by
  by_cases h : special (decode (bitsOf x)) = true
  · exact nextdown_front x f h
  · have hx : nzFin x := Classical.not_not.1 (fun hc => h ((special_iff x).2 hc))
    rw [nextdown_fin x f hx, downD_of_not_nan (nzFin_not_nan x hx), nanFlags_of_not_nan f (nzFin_not_nan x hx)]

/-- non-NaN operands: exactly `encode (nextDownD d)`, status word unchanged -/
theorem nextdown_nonnan (x : U128) (f : UInt32) (h : (decode (bitsOf x)).isNaN = false) :
    bid128_nextdown x f = .ok (ofBits (encode (nextDownD (decode (bitsOf x)))), f) := by
  rw [nextdown_spec, downD_of_not_nan h, nanFlags_of_not_nan f h]

-- 5 ↦ 4.999999999999999999999999999999999;  1000000000000000000000000000000000E+10 ↦ 9999999999999999999999999999999999E+9;
-- −MAX ↦ −Inf;  +1E−6176 ↦ +0E−6176;  −9999999999999999999999999999999999E+10 ↦ −1000000000000000000000000000000000E+11
example : bid128_nextdown ⟨5, 0x3040000000000000⟩ 0 = .ok (⟨2001506101975056383, 3458472614410240992⟩, 0) := by rfl
example : bid128_nextdown ⟨5, 0x3040000000000000⟩ 0 = .ok (ofBits (encode (.fin false (5 * 10^33 - 1) (-33))), 0) := by
  rw [nextdown_nonnan _ _ (by decide +kernel)]; decide +kernel
example : bid128_nextdown ⟨0x38c15b0a00000000, 0x3054314dc6448d93⟩ 0 = .ok (ofBits (encode (.fin false (10^34 - 1) 9)), 0) := by
  rw [nextdown_nonnan _ _ (by decide +kernel)]; decide +kernel
example : bid128_nextdown ⟨0x378d8e63ffffffff, 0xdfffed09bead87c0⟩ 0 = .ok (ofBits (encode (.inf true)), 0) := by
  rw [nextdown_nonnan _ _ (by decide +kernel)]; decide +kernel
example : bid128_nextdown ⟨1, 0⟩ 7 = .ok (ofBits (encode (.fin false 0 (-6176))), 7) := by
  rw [nextdown_nonnan _ _ (by decide +kernel)]; decide +kernel
example : bid128_nextdown ⟨0x378d8e63ffffffff, 0xb055ed09bead87c0⟩ 0 = .ok (ofBits (encode (.fin true (10^33) 11)), 0) := by
  rw [nextdown_nonnan _ _ (by decide +kernel)]; decide +kernel

/-! ## 8. `bid128_nextafter`

### the routine, cut into stages -/

/-- NaN operands are answered; infinite operands are replaced by the canonical infinity of their sign -/
def naFrontK (x_ y_ : U128) (pfpsf_ : UInt32) (k : U128 → U128 → Except String (U128 × UInt32)) :
    Except String (U128 × UInt32) := do
  let mut x : U128 := x_
  let mut y : U128 := y_
  let mut pfpsf : UInt32 := pfpsf_
  let mut res : U128 := default
  if (((((x.w1 &&& c_MASK_SPECIAL)) == c_MASK_SPECIAL)) || ((((y.w1 &&& c_MASK_SPECIAL)) == c_MASK_SPECIAL))) then
    if (((x.w1 &&& c_MASK_NAN)) == c_MASK_NAN) then
      if (((decide (((x.w1 &&& (0x3fffffffffff : UInt64))) > (0x314dc6448d93 : UInt64)))) || ((((((x.w1 &&& (0x3fffffffffff : UInt64))) == (0x314dc6448d93 : UInt64))) && ((decide (x.w0 > (0x38c15b09ffffffff : UInt64))))))) then
        x := { x with w1 := (x.w1 &&& (0xffffc00000000000 : UInt64)) }
        x := { x with w0 := (0 : UInt64) }
      if (((x.w1 &&& c_MASK_SNAN)) == c_MASK_SNAN) then
        pfpsf := (pfpsf ||| c_StatusFlags_BID_INVALID_EXCEPTION)
        res := { res with w1 := (x.w1 &&& (0xfc003fffffffffff : UInt64)) }
        res := { res with w0 := x.w0 }
      else
        res := { res with w1 := (x.w1 &&& (0xfc003fffffffffff : UInt64)) }
        res := { res with w0 := x.w0 }
        if (((y.w1 &&& c_MASK_SNAN)) == c_MASK_SNAN) then
          pfpsf := (pfpsf ||| c_StatusFlags_BID_INVALID_EXCEPTION)
      return (res, pfpsf)
    else
      if (((y.w1 &&& c_MASK_NAN)) == c_MASK_NAN) then
        if (((decide (((y.w1 &&& (0x3fffffffffff : UInt64))) > (0x314dc6448d93 : UInt64)))) || ((((((y.w1 &&& (0x3fffffffffff : UInt64))) == (0x314dc6448d93 : UInt64))) && ((decide (y.w0 > (0x38c15b09ffffffff : UInt64))))))) then
          y := { y with w1 := (y.w1 &&& (0xffffc00000000000 : UInt64)) }
          y := { y with w0 := (0 : UInt64) }
        if (((y.w1 &&& c_MASK_SNAN)) == c_MASK_SNAN) then
          pfpsf := (pfpsf ||| c_StatusFlags_BID_INVALID_EXCEPTION)
          res := { res with w1 := (y.w1 &&& (0xfc003fffffffffff : UInt64)) }
          res := { res with w0 := y.w0 }
        else
          res := { res with w1 := (y.w1 &&& (0xfc003fffffffffff : UInt64)) }
          res := { res with w0 := y.w0 }
        return (res, pfpsf)
      else
        if (((x.w1 &&& c_MASK_ANY_INF)) == c_MASK_INF) then
          x := { x with w1 := (x.w1 &&& (c_MASK_SIGN ||| c_MASK_INF)) }
          x := { x with w0 := (0 : UInt64) }
        if (((y.w1 &&& c_MASK_ANY_INF)) == c_MASK_INF) then
          y := { y with w1 := (y.w1 &&& (c_MASK_SIGN ||| c_MASK_INF)) }
          y := { y with w0 := (0 : UInt64) }
  k x y

/-- a finite operand that is a zero in a non-canonical encoding is replaced by the canonical zero of its sign and exponent -/
def naCanonK (x_ : U128) (k : U128 → Except String (U128 × UInt32)) : Except String (U128 × UInt32) := do
  let mut x : U128 := x_
  let mut x_exp : UInt64 := default
  if (((x.w1 &&& c_MASK_ANY_INF)) != c_MASK_INF) then
    if (((x.w1 &&& (0x6000000000000000 : UInt64))) == (0x6000000000000000 : UInt64)) then
      x_exp := (((x.w1 <<< 2)) &&& c_MASK_EXP)
      x := { x with w1 := (((x.w1 &&& c_MASK_SIGN)) ||| x_exp) }
      x := { x with w0 := (0 : UInt64) }
    else
      x_exp := (x.w1 &&& c_MASK_EXP)
      if ((decide (((x.w1 &&& c_MASK_COEFF)) > (0x1ed09bead87c0 : UInt64))) || (((((x.w1 &&& c_MASK_COEFF)) == (0x1ed09bead87c0 : UInt64)) && (decide (x.w0 > (0x378d8e63ffffffff : UInt64)))))) then
        x := { x with w1 := (((x.w1 &&& c_MASK_SIGN)) ||| x_exp) }
        x := { x with w0 := (0 : UInt64) }
      else
        pure ()
  k x

/-- the comparisons and the choice of the result; `x y` the operands as canonicalised so far, `xnswp ynswp` the operands
as given -/
def naChooseK (x y xnswp ynswp : U128) (pfpsf_ : UInt32) (k : U128 → UInt32 → Except String (U128 × UInt32)) :
    Except String (U128 × UInt32) := do
  let mut pfpsf : UInt32 := pfpsf_
  let mut res : U128 := default
  let mut tmp_fpsf : UInt32 := default
  let mut res1 : Bool := default
  let mut res2 : Bool := default
  tmp_fpsf := pfpsf
  let t__1 ← bid128_quiet_equal xnswp ynswp pfpsf
  pfpsf := t__1.2
  res1 := t__1.1
  let t__2 ← bid128_quiet_greater xnswp ynswp pfpsf
  pfpsf := t__2.2
  res2 := t__2.1
  pfpsf := tmp_fpsf
  if res1 then
    res := { res with w1 := (((x.w1 &&& (0x7fffffffffffffff : UInt64))) ||| ((y.w1 &&& (0x8000000000000000 : UInt64)))) }
    res := { res with w0 := x.w0 }
  else
    if res2 then
      let t__3 ← bid128_nextdown xnswp pfpsf
      pfpsf := t__3.2
      res := t__3.1
    else
      let t__4 ← bid128_nextup xnswp pfpsf
      pfpsf := t__4.2
      res := t__4.1
  k res pfpsf

/-- the flags: overflow when a finite operand gives an infinite result, underflow when the result differs from the operand
and is below the least normal number in magnitude -/
def naFlags (x xnswp res : U128) (pfpsf_ : UInt32) : Except String (U128 × UInt32) := do
  let mut pfpsf : UInt32 := pfpsf_
  let mut tmp1 : U128 := default
  let mut tmp2 : U128 := default
  let mut tmp3 : U128 := default
  let mut tmp_fpsf : UInt32 := default
  let mut res1 : Bool := default
  let mut res2 : Bool := default
  if (((((x.w1 &&& c_MASK_SPECIAL)) != c_MASK_SPECIAL)) && ((((res.w1 &&& c_MASK_SPECIAL)) == c_MASK_SPECIAL))) then
    pfpsf := (pfpsf ||| c_StatusFlags_BID_INEXACT_EXCEPTION)
    pfpsf := (pfpsf ||| c_StatusFlags_BID_OVERFLOW_EXCEPTION)
  tmp1 := { tmp1 with w1 := (0x314dc6448d93 : UInt64) }
  tmp1 := { tmp1 with w0 := (0x38c15b0a00000000 : UInt64) }
  tmp2 := { tmp2 with w1 := (res.w1 &&& (0x7fffffffffffffff : UInt64)) }
  tmp2 := { tmp2 with w0 := res.w0 }
  tmp3 := { tmp3 with w1 := res.w1 }
  tmp3 := { tmp3 with w0 := res.w0 }
  tmp_fpsf := pfpsf
  let t__5 ← bid128_quiet_greater tmp1 tmp2 pfpsf
  pfpsf := t__5.2
  res1 := t__5.1
  let t__6 ← bid128_quiet_not_equal xnswp tmp3 pfpsf
  pfpsf := t__6.2
  res2 := t__6.1
  pfpsf := tmp_fpsf
  if (res1 && res2) then
    pfpsf := (pfpsf ||| c_StatusFlags_BID_INEXACT_EXCEPTION)
    pfpsf := (pfpsf ||| c_StatusFlags_BID_UNDERFLOW_EXCEPTION)
  return (res, pfpsf)

/-- `bid128_nextafter` is the chain of the stages -/
theorem nextafter_shape (x y : U128) (f : UInt32) : bid128_nextafter x y f =
    naFrontK x y f (fun x' y' => naCanonK x' (fun x'' => naChooseK x'' y' x y f (fun res f' => naFlags x'' x res f'))) := by
  rfl

/-! ### spec-level facts used by `bid128_nextafter` -/

theorem setSign_WF (s : Bool) {d : Datum} (h : d.WF) : (d.setSign s).WF := by
  cases d <;> exact h

theorem negate_WF {d : Datum} (h : d.WF) : d.negate.WF := setSign_WF _ h

theorem nextUpD_WF {d : Datum} (h : d.WF) : (nextUpD d).WF := by
  cases d with
  | fin s c e =>
    by_cases hc : c = 0
    · subst hc; rw [nextUpD_zero]; decide
    · rcases Dec.C17Adjacent.nextUp_representable s c e hc h with ⟨s', c', e', h1, h2⟩ | h1
      · rw [h1]; exact h2
      · rw [h1]; trivial
  | inf s => cases s <;> decide
  | nan s g p => exact h

theorem nextDownD_WF {d : Datum} (h : d.WF) : (nextDownD d).WF := negate_WF (nextUpD_WF (negate_WF h))

theorem bitsOf_ofBits_encode {d : Datum} (h : d.WF) : bitsOf (ofBits (encode d)) = encode d :=
  Dec.C06GenFromInt.bitsOf_ofBits (encode_lt h)

/-- the canonical encoding of a well-formed datum decodes to it -/
theorem decode_ofBits_encode {d : Datum} (h : d.WF) : decode (bitsOf (ofBits (encode d))) = d := by
  rw [bitsOf_ofBits_encode h, decode_encode h]

theorem isFin_decodeW (h l : Nat) : (decodeW h l).isFin = !decide (h / 2^59 % 16 = 15) := by
  rcases decodeW_kind h l with ⟨hN, s, p, hd⟩ | ⟨hN, hI, hd⟩ | ⟨hI, hz, e, hd⟩ | ⟨hI, hS, hlt, hpos, hd⟩ <;>
  rw [hd] <;> simp only [Datum.isFin] <;> simp <;> omega

/-- the special-bits test of the code: the operand is not finite -/
theorem special_test_decode (R : U128) : (R.w1 &&& c_MASK_SPECIAL == c_MASK_SPECIAL) = !(decode (bitsOf R)).isFin := by
  rw [special_test, decode_bitsOf, isFin_decodeW, Bool.not_not]

/-- clearing bit 127 of a pattern clears the sign of the datum -/
theorem decodeW_abs (h l : Nat) : decodeW (h % 2^63) l = (decodeW h l).setSign false := by
  have e1 : h % 2^63 / 2^63 % 2 = 0 := by omega
  have e2 : h % 2^63 / 2^59 % 16 = h / 2^59 % 16 := by omega
  have e3 : h % 2^63 / 2^58 % 2 = h / 2^58 % 2 := by omega
  have e4 : h % 2^63 / 2^57 % 2 = h / 2^57 % 2 := by omega
  have e5 : h % 2^63 % 2^46 = h % 2^46 := by omega
  have e6 : h % 2^63 / 2^61 % 4 = h / 2^61 % 4 := by omega
  have e7 : h % 2^63 / 2^47 % 2^14 = h / 2^47 % 2^14 := by omega
  have e8 : h % 2^63 % 2^49 = h % 2^49 := by omega
  have e9 : h % 2^63 / 2^49 % 2^14 = h / 2^49 % 2^14 := by omega
  unfold decodeW
  simp only [e1, e2, e3, e4, e5, e6, e7, e8, e9]
  split
  · split <;> rfl
  · split <;> rfl

theorem abs_toNat (w : UInt64) : (w &&& 0x7fffffffffffffff).toNat = w.toNat % 2^63 := by
  rw [UInt64.toNat_and, show (0x7fffffffffffffff : UInt64).toNat = 2^63 - 1 from rfl, Nat.and_two_pow_sub_one_eq_mod]

theorem decode_abs (R : U128) :
    decode (bitsOf ⟨R.w0, R.w1 &&& 0x7fffffffffffffff⟩) = (decode (bitsOf R)).setSign false := by
  rw [decode_bitsOf, decode_bitsOf, abs_toNat, decodeW_abs]

/-- the least positive normal number `10^33 · 10^−6176`, as the code writes it -/
theorem decode_minNormal : decode (bitsOf ⟨0x38c15b0a00000000, 0x314dc6448d93⟩) = .fin false P33 (-6176) := by
  decide +kernel

theorem scaled_lt_iff (c k n : Nat) (hc : 0 < c) : c * 10 ^ k < 10 ^ n ↔ ndigits c + k ≤ n := by
  obtain ⟨h1, h2⟩ := ndigits_spec hc
  have hq := ndigits_pos hc
  constructor
  · intro h
    by_contra hcon
    have : 10 ^ n ≤ c * 10 ^ k :=
      calc 10 ^ n ≤ 10 ^ (ndigits c - 1 + k) := Nat.pow_le_pow_right (by decide) (by omega)
        _ = 10 ^ (ndigits c - 1) * 10 ^ k := Nat.pow_add _ _ _
        _ ≤ c * 10 ^ k := Nat.mul_le_mul_right _ h1
    omega
  · intro h
    calc c * 10 ^ k < 10 ^ ndigits c * 10 ^ k := Nat.mul_lt_mul_of_pos_right h2 (Nat.pow_pos (by decide))
      _ = 10 ^ (ndigits c + k) := (Nat.pow_add _ _ _).symm
      _ ≤ 10 ^ n := Nat.pow_le_pow_right (by decide) h

/-- the result is a zero or below the least normal number in magnitude (`tinyRes` of `nextAfterD`) -/
def tinyD : Datum → Bool
  | .fin _ c e => c == 0 || adjExp c e < -6143
  | _ => false

/-- the code's test "least normal number > |result|" is the model's "result is tiny" -/
theorem tiny_iff (r : Datum) (h : r.WF) :
    (cmpD (.fin false P33 (-6176)) (r.setSign false) == some .gt) = tinyD r := by
  cases r with
  | fin s c e =>
    obtain ⟨hc, he1, he2⟩ := h
    simp only [eMin] at he1
    simp only [Datum.setSign, cmpD, tinyD, beq_some_gt, cmpFin, if_pos he1]
    rw [show ((-6176 : Int) - -6176).toNat = 0 from rfl, Nat.pow_zero, Nat.mul_one, Bool.eq_iff_iff]
    simp only [sInt, Bool.false_eq_true, if_false, decide_eq_true_eq, Int.compare_eq_gt, Bool.or_eq_true, beq_iff_eq]
    unfold adjExp
    generalize hk : (e - -6176).toNat = k
    by_cases h0 : c = 0
    · subst h0
      simp only [Nat.zero_mul, true_or, iff_true, P33]
      decide
    · have hpos : 0 < c := Nat.pos_of_ne_zero h0
      have key := scaled_lt_iff c k 33 hpos
      have e33 : P33 = 10 ^ 33 := by decide
      rw [e33]
      constructor
      · intro hlt
        right
        have : c * 10 ^ k < 10 ^ 33 := by exact_mod_cast hlt
        have := key.1 this
        omega
      · rintro (h1 | h1)
        · exact absurd h1 h0
        · have : ndigits c + k ≤ 33 := by omega
          exact_mod_cast key.2 this
  | inf s => cases s <;> rfl
  | nan s g p => rfl


theorem u128_eta (r : U128) : (⟨r.w0, r.w1⟩ : U128) = r := rfl

/-- the status word `bid128_nextafter` returns, from the datum `dX` of the (canonicalised) operand, the datum `dx` of the
operand as given, and the datum `r` of the result -/
def afterFlagsOf (f : UInt32) (dX dx r : Datum) : UInt32 :=
  if (dX.isFin && !r.isFin) = true then
    if (cmpD (.fin false P33 (-6176)) (r.setSign false) == some .gt && !(cmpD dx r == some .eq)) = true then
      f ||| 0x20 ||| 8 ||| 0x20 ||| 0x10
    else f ||| 0x20 ||| 8
  else
    if (cmpD (.fin false P33 (-6176)) (r.setSign false) == some .gt && !(cmpD dx r == some .eq)) = true then
      f ||| 0x20 ||| 0x10
    else f

/-- **the flag stage**, all patterns: the result is passed through, the status word is `afterFlagsOf` -/
theorem naFlags_spec (X x res : U128) (f : UInt32) :
    naFlags X x res f =
      .ok (res, afterFlagsOf f (decode (bitsOf X)) (decode (bitsOf x)) (decode (bitsOf res))) := by
  simp only [naFlags, bind, Except.bind, pure, Except.pure, bne, quiet_greater_spec, quiet_not_equal_spec, special_test_decode,
    decode_abs, decode_minNormal, u128_eta, Bool.not_not, afterFlagsOf]
  split <;> split <;> rfl

theorem isInf_of_not_fin {r : Datum} (hn : r.isNaN = false) : (!r.isFin) = r.isInf := by
  cases r <;> first | rfl | exact Bool.noConfusion hn

theorem tinyD_eq (r : Datum) : (match r with | .fin _ c e => c == 0 || adjExp c e < -6143 | _ => false) = tinyD r := by
  cases r <;> rfl

/-- the status word of the code is the incoming word with the model's flags or-ed in -/
theorem afterFlagsOf_model (f : UInt32) (dx dy : Datum) (hx : dx.WF)
    (hr : ((nextAfterD dx dy).1).isNaN = false) (hw : ((nextAfterD dx dy).1).WF) :
    afterFlagsOf f dx dx (nextAfterD dx dy).1 = f ||| UInt32.ofNat (nextAfterD dx dy).2 := by
  have h2 : (nextAfterD dx dy).2 =
      (if (dx.isFin && (nextAfterD dx dy).1.isInf) = true then fOverflow ||| fInexact
       else if ((cmpD dx (nextAfterD dx dy).1 != some .eq) && tinyD (nextAfterD dx dy).1) = true then fUnderflow ||| fInexact else 0) := by
    unfold nextAfterD
    rcases cmpD dx dy with _ | (_ | _ | _) <;> simp only []
    · generalize Datum.setSign dy.neg dx = R; cases R <;> rfl
    · generalize nextUpD dx = R; cases R <;> rfl
    · generalize Datum.setSign dy.neg dx = R; cases R <;> rfl
    · generalize nextDownD dx = R; cases R <;> rfl
  rw [h2]
  generalize (nextAfterD dx dy).1 = r at *
  unfold afterFlagsOf
  rw [isInf_of_not_fin hr, tiny_iff r hw]
  by_cases ho : (dx.isFin && r.isInf) = true
  · rw [if_pos ho, if_pos ho]
    have : tinyD r = false := by
      cases r <;> simp_all [Datum.isInf, tinyD]
    rw [this, Bool.false_and, if_neg Bool.false_ne_true, UInt32.or_assoc]
    rfl
  · rw [if_neg ho, if_neg ho, Bool.and_comm, bne]
    split
    · rw [UInt32.or_assoc]; rfl
    · exact (UInt32.or_zero).symm


/-- **the choice of the result**, non-NaN operands: `x` with the sign of `y` when they compare equal, else
`next_down x` / `next_up x`; the status word is handed on unchanged -/
theorem naChooseK_spec (X y' x y : U128) (f : UInt32) (k : U128 → UInt32 → Except String (U128 × UInt32))
    (hx : (decode (bitsOf x)).isNaN = false) :
    naChooseK X y' x y f k =
      k (if (cmpD (decode (bitsOf x)) (decode (bitsOf y)) == some .eq) = true then
           ⟨X.w0, X.w1 &&& 0x7fffffffffffffff ||| y'.w1 &&& 0x8000000000000000⟩
         else if (cmpD (decode (bitsOf x)) (decode (bitsOf y)) == some .gt) = true then
           ofBits (encode (nextDownD (decode (bitsOf x))))
         else ofBits (encode (nextUpD (decode (bitsOf x))))) f := by
  simp only [naChooseK, bind, Except.bind, pure, Except.pure, quiet_equal_spec, quiet_greater_spec,
    nextdown_nonnan x f hx, nextup_nonnan x f hx]
  split
  · rfl
  · split <;> rfl


theorem snan_decode (x : U128) : (x.w1 &&& c_MASK_SNAN == c_MASK_SNAN) = (decode (bitsOf x)).isSNaN := by
  rw [show c_MASK_SNAN = 0x7e00000000000000 from rfl, snan_test, decode_bitsOf, isSNaN_decodeW]

theorem snan_masked (w : UInt64) :
    (w &&& 0xffffc00000000000 &&& c_MASK_SNAN == c_MASK_SNAN) = (w &&& c_MASK_SNAN == c_MASK_SNAN) := by
  rw [show c_MASK_SNAN = 0x7e00000000000000 from rfl, snan_test, snan_test, payclr_toNat, decide_eq_decide]
  omega

theorem nan_decode (x : U128) : (x.w1 &&& c_MASK_NAN == c_MASK_NAN) = (decode (bitsOf x)).isNaN := by
  rw [show c_MASK_NAN = 0x7c00000000000000 from rfl, nan_test, decode_bitsOf, isNaN_decodeW]

theorem nan_special (w : UInt64) (h : (w &&& c_MASK_NAN == c_MASK_NAN) = true) :
    (w &&& c_MASK_SPECIAL == c_MASK_SPECIAL) = true := by
  rw [show c_MASK_NAN = 0x7c00000000000000 from rfl, nan_test] at h
  rw [special_test]
  simp only [decide_eq_true_eq] at h ⊢
  omega

theorem ok_fst {α β ε : Type} {a a' : α} {b b' : β} (h : (Except.ok (a, b) : Except ε (α × β)) = Except.ok (a', b')) : a = a' := by
  injection h with h; exact (Prod.mk.inj h).1

/-- **a NaN first operand** of `bid128_nextafter`: its quieted canonical copy; `invalid` iff some operand is signalling -/
theorem naFront_nanx (x y : U128) (f : UInt32) (k : U128 → U128 → Except String (U128 × UInt32))
    (hN : (decode (bitsOf x)).isNaN = true) :
    naFrontK x y f k = .ok (ofBits (encode (quietNaN (decode (bitsOf x)))),
      if ((decode (bitsOf x)).isSNaN || (decode (bitsOf y)).isSNaN) = true then f ||| 1 else f) := by
  have hN' : (x.w1 &&& c_MASK_NAN == c_MASK_NAN) = true := by rw [nan_decode]; exact hN
  have hb : x.w1.toNat / 2^58 % 32 = 31 := by
    rw [show c_MASK_NAN = 0x7c00000000000000 from rfl, nan_test] at hN'; simpa using hN'
  have H := specialK_nan true x f hb
  unfold specialK at H
  unfold naFrontK
  simp only [bind, Except.bind, pure, Except.pure]
  rw [if_pos hN'] at H
  rw [if_pos (by rw [nan_special _ hN']; rfl), if_pos hN']
  simp only [snan_masked, snan_decode, c_StatusFlags_BID_INVALID_EXCEPTION, c_DEC_FE_INVALID] at H ⊢
  split at H
  · rename_i hbig
    rw [if_pos hbig]
    cases hsx : (decode (bitsOf x)).isSNaN
    · rw [hsx] at H
      simp only [Bool.false_eq_true, if_false] at H
      rw [ok_fst H]
      simp only [Bool.false_eq_true, if_false, Bool.false_or]
      split <;> rfl
    · rw [hsx] at H
      simp only [if_true] at H
      rw [ok_fst H]
      simp only [if_true, Bool.true_or]
  · rename_i hbig
    rw [if_neg hbig]
    cases hsx : (decode (bitsOf x)).isSNaN
    · rw [hsx] at H
      simp only [Bool.false_eq_true, if_false] at H
      rw [ok_fst H]
      simp only [Bool.false_eq_true, if_false, Bool.false_or]
      split <;> rfl
    · rw [hsx] at H
      simp only [if_true] at H
      rw [ok_fst H]
      simp only [if_true, Bool.true_or]

/-- **a NaN second operand** (the first one not a NaN): its quieted canonical copy; `invalid` iff it is signalling -/
theorem naFront_nany (x y : U128) (f : UInt32) (k : U128 → U128 → Except String (U128 × UInt32))
    (hx : (decode (bitsOf x)).isNaN = false) (hN : (decode (bitsOf y)).isNaN = true) :
    naFrontK x y f k = .ok (ofBits (encode (quietNaN (decode (bitsOf y)))), nanFlags f (decode (bitsOf y))) := by
  have hx' : ¬ (x.w1 &&& c_MASK_NAN == c_MASK_NAN) = true := by rw [nan_decode, hx]; exact Bool.false_ne_true
  have hN' : (y.w1 &&& c_MASK_NAN == c_MASK_NAN) = true := by rw [nan_decode]; exact hN
  have hb : y.w1.toNat / 2^58 % 32 = 31 := by
    rw [show c_MASK_NAN = 0x7c00000000000000 from rfl, nan_test] at hN'; simpa using hN'
  rw [← specialK_nan true y f hb]
  unfold specialK naFrontK
  simp only [bind, Except.bind, pure, Except.pure]
  rw [if_pos (by rw [nan_special _ hN', Bool.or_true]), if_neg hx', if_pos hN', if_pos hN']


/-- an infinite operand is replaced by the canonical infinity of its sign -/
def infCanon (x : U128) : U128 :=
  if (x.w1 &&& c_MASK_ANY_INF == c_MASK_INF) = true then ⟨0, x.w1 &&& (c_MASK_SIGN ||| c_MASK_INF)⟩ else x

theorem anyinf_test (w : UInt64) : (w &&& c_MASK_ANY_INF == c_MASK_INF) = decide (w.toNat / 2^58 % 32 = 30) :=
  Dec.C06GenFromInt.test_field w _ _ 5 58 30 (by rfl) (by rfl)

/-- **no NaN operand**: `bid128_nextafter` goes on with the operands, infinities made canonical -/
theorem naFront_nonnan (x y : U128) (f : UInt32) (k : U128 → U128 → Except String (U128 × UInt32))
    (hx : (decode (bitsOf x)).isNaN = false) (hy : (decode (bitsOf y)).isNaN = false) :
    naFrontK x y f k = k (infCanon x) (infCanon y) := by
  have hx' : ¬ (x.w1 &&& c_MASK_NAN == c_MASK_NAN) = true := by rw [nan_decode, hx]; exact Bool.false_ne_true
  have hy' : ¬ (y.w1 &&& c_MASK_NAN == c_MASK_NAN) = true := by rw [nan_decode, hy]; exact Bool.false_ne_true
  unfold naFrontK
  simp only [bind, Except.bind, pure, Except.pure]
  by_cases hsp : (x.w1 &&& c_MASK_SPECIAL == c_MASK_SPECIAL || y.w1 &&& c_MASK_SPECIAL == c_MASK_SPECIAL) = true
  · rw [if_pos hsp, if_neg hx', if_neg hy']
    unfold infCanon
    split <;> split <;> rfl
  · rw [if_neg hsp]
    rw [special_test, special_test] at hsp
    simp only [Bool.or_eq_true, decide_eq_true_eq, not_or] at hsp
    unfold infCanon
    rw [anyinf_test, anyinf_test, if_neg (by simp only [decide_eq_true_eq]; omega),
      if_neg (by simp only [decide_eq_true_eq]; omega)]

theorem shl2_exp (w : UInt64) : (w <<< 2 &&& c_MASK_EXP).toNat = (w.toNat / 2^47 % 2^14) * 2^49 := by
  have := w.toNat_lt
  rw [exp_toNat, UInt64.toNat_shiftLeft, show (2 : UInt64).toNat % 64 = 2 from by decide, Nat.shiftLeft_eq]
  omega

theorem or2 (S E : Nat) (hE : E < 2^14) : S * 2^63 ||| E * 2^49 = S * 2^63 + E * 2^49 :=
  Dec.C06GenFromInt.or_disjoint S (E * 2^49) 63 (by omega)

theorem encode_fin_words (s : Bool) (c E : Nat) :
    encode (.fin s c ((E : Int) - 6176)) = (if s then 1 else 0) * 2^127 + E * 2^113 + c := by
  have : (((E : Int) - 6176 + 6176).toNat) = E := by omega
  cases s <;> simp only [encode, signBit, this, Bool.false_eq_true, if_true, if_false] <;> omega

theorem naCanonK_inf (X : U128) (k : U128 → Except String (U128 × UInt32)) (hI : X.w1.toNat / 2^58 % 32 = 30) :
    naCanonK X k = k X := by
  unfold naCanonK
  simp only [bind, Except.bind, pure, Except.pure, bne]
  rw [if_neg (by rw [anyinf_test]; simpa using hI)]

theorem naCanonK_fin (x : U128) (k : U128 → Except String (U128 × UInt32)) (hF : x.w1.toNat / 2^59 % 16 ≠ 15) :
    naCanonK x k = k (ofBits (encode (decode (bitsOf x)))) := by
  have hh := x.w1.toNat_lt
  have hl := x.w0.toNat_lt
  have hI : ¬ x.w1.toNat / 2^58 % 32 = 30 := by omega
  unfold naCanonK
  delta c_MASK_COEFF
  simp only [bind, Except.bind, pure, Except.pure, bne]
  rw [decode_bitsOf, if_pos (by rw [anyinf_test]; simpa using hI)]
  simp only [steer_test, gt128, coeff_hi, UInt64.toNat_ofNat]
  by_cases hS : x.w1.toNat / 2^61 % 4 = 3
  · rw [if_pos (by simpa using hS)]
    have hd : decodeW x.w1.toNat x.w0.toNat = .fin (decide (x.w1.toNat / 2^63 % 2 = 1)) 0 ((x.w1.toNat / 2^47 % 2^14 : Nat) - (6176 : Int)) := by
      unfold decodeW; rw [if_neg hF, if_pos hS]
    rw [hd, encode_fin_words]
    refine congrArg k ?_
    apply eq_ofBits
    simp only [bitsOf, UInt64.toNat_or, shl2_exp, UInt64.toNat_zero]
    rw [show c_MASK_SIGN = 0x8000000000000000 from rfl, sign_toNat, or2 _ _ (by omega)]
    split <;> rename_i hs <;> simp only [decide_eq_true_eq] at hs <;> omega
  · rw [if_neg (by simpa using hS)]
    by_cases hP : P34 ≤ x.w1.toNat % 2^49 * 2^64 + x.w0.toNat
    · rw [if_pos (by simp only [decide_eq_true_eq, P34] at hP ⊢; omega)]
      have hd : decodeW x.w1.toNat x.w0.toNat = .fin (decide (x.w1.toNat / 2^63 % 2 = 1)) 0 ((x.w1.toNat / 2^49 % 2^14 : Nat) - (6176 : Int)) := by
        unfold decodeW; rw [if_neg hF, if_neg hS, if_neg (by omega)]
      rw [hd, encode_fin_words]
      refine congrArg k ?_
      apply eq_ofBits
      simp only [bitsOf, UInt64.toNat_or, exp_toNat, UInt64.toNat_zero]
      rw [show c_MASK_SIGN = 0x8000000000000000 from rfl, sign_toNat, or2 _ _ (by omega)]
      split <;> rename_i hs <;> simp only [decide_eq_true_eq] at hs <;> omega
    · rw [if_neg (by simp only [decide_eq_true_eq, P34] at hP ⊢; omega)]
      have hd : decodeW x.w1.toNat x.w0.toNat = .fin (decide (x.w1.toNat / 2^63 % 2 = 1)) (x.w1.toNat % 2^49 * 2^64 + x.w0.toNat) ((x.w1.toNat / 2^49 % 2^14 : Nat) - (6176 : Int)) := by
        unfold decodeW; rw [if_neg hF, if_neg hS, if_pos (by omega)]
      rw [hd, encode_fin_words]
      refine congrArg k ?_
      apply eq_ofBits
      have := hi_fields _ hh
      simp only [bitsOf]
      split <;> rename_i hs <;> simp only [decide_eq_true_eq] at hs <;> omega

/-- **canonical operand**: after the two canonicalisation stages the first operand is the canonical encoding of its datum -/
theorem naCanon_spec (x : U128) (k : U128 → Except String (U128 × UInt32)) (hx : (decode (bitsOf x)).isNaN = false) :
    naCanonK (infCanon x) k = k (ofBits (encode (decode (bitsOf x)))) := by
  have hh := x.w1.toNat_lt
  have hN : x.w1.toNat / 2^58 % 32 ≠ 31 := by
    rw [decode_bitsOf, isNaN_decodeW] at hx; simpa using hx
  by_cases hI : x.w1.toNat / 2^58 % 32 = 30
  · have hc : infCanon x = ⟨0, x.w1 &&& (c_MASK_SIGN ||| c_MASK_INF)⟩ := by
      unfold infCanon; rw [if_pos (by rw [anyinf_test]; simpa using hI)]
    have hX : ((⟨0, x.w1 &&& (c_MASK_SIGN ||| c_MASK_INF)⟩ : U128).w1).toNat = (x.w1.toNat / 2^59 % 32) * 2^59 :=
      toNat_and_field x.w1 _ 5 59 (by decide)
    rw [hc, naCanonK_inf _ _ (by rw [hX]; omega), decode_bitsOf, decodeW_inf _ _ (by omega) hN]
    refine congrArg k ?_
    apply eq_ofBits
    simp only [bitsOf, hX, UInt64.toNat_zero, encode, signBit]
    split <;> rename_i hs <;> simp only [decide_eq_true_eq] at hs <;> omega
  · have hc : infCanon x = x := by
      unfold infCanon; rw [if_neg (by rw [anyinf_test]; simpa using hI)]
    rw [hc, naCanonK_fin x k (by omega)]

/-! ### `bid128_nextafter`: the theorem -/

/-- the result datum of `next_after`: a NaN operand gives the quieted NaN of the first NaN operand (`nanRule` of
`DecModel.Ops`), otherwise `nextAfterD` -/
def afterD (dx dy : Datum) : Datum :=
  if dx.isNaN then quietNaN dx else if dy.isNaN then quietNaN dy else (nextAfterD dx dy).1

/-- the status word after `next_after`: with a NaN operand, `invalid` (0x01) is or-ed in iff some operand is
signalling; otherwise the flags of `nextAfterD` (overflow + inexact 0x28, underflow + inexact 0x30, or nothing) -/
def afterFlags (f : UInt32) (dx dy : Datum) : UInt32 :=
  if dx.isNaN || dy.isNaN then (if dx.isSNaN || dy.isSNaN then f ||| 1 else f)
  else f ||| UInt32.ofNat (nextAfterD dx dy).2

theorem setSign_isNaN (s : Bool) (d : Datum) : (d.setSign s).isNaN = d.isNaN := by cases d <;> rfl

theorem nextUpD_isNaN {d : Datum} (h : d.isNaN = false) : (nextUpD d).isNaN = false := by
  cases d with
  | fin s c e =>
    by_cases hc : c = 0
    · subst hc; rfl
    · cases s
      · rw [Dec.C17Adjacent.nextUp_fin_pos c e hc]
        split
        · split <;> rfl
        · rfl
      · rw [Dec.C17Adjacent.nextUp_fin_neg c e hc]
        split <;> rfl
  | inf s => cases s <;> rfl
  | nan s g p => exact Bool.noConfusion h

theorem nextDownD_isNaN {d : Datum} (h : d.isNaN = false) : (nextDownD d).isNaN = false := by
  unfold nextDownD Datum.negate
  rw [setSign_isNaN]
  exact nextUpD_isNaN (by rw [setSign_isNaN]; exact h)

theorem neg_decodeW (h l : Nat) : (decodeW h l).neg = decide (h / 2^63 % 2 = 1) := by
  unfold decodeW
  simp only []
  split
  · split <;> rfl
  · split <;> rfl

/-- the part of a canonical encoding below the sign bit does not depend on the sign -/
theorem encode_setSign {d : Datum} (h : d.WF) :
    ∃ m, m < 2^127 ∧ ∀ s, encode (d.setSign s) = (if s then 1 else 0) * 2^127 + m := by
  cases d with
  | fin s c e =>
    obtain ⟨hc, h1, h2⟩ := h
    simp only [P34, eMin, eMax] at hc h1 h2
    refine ⟨(e + 6176).toNat * 2^113 + c, by omega, fun s' => ?_⟩
    cases s' <;> simp only [Datum.setSign, encode, signBit, Bool.false_eq_true, if_true, if_false] <;> omega
  | inf s =>
    refine ⟨0x78 * 2^120, by omega, fun s' => ?_⟩
    cases s' <;> simp only [Datum.setSign, encode, signBit, Bool.false_eq_true, if_true, if_false] <;> omega
  | nan s g p =>
    have hp : p < P33 := h
    simp only [P33] at hp
    refine ⟨0x7c * 2^120 + (if g then 2^121 else 0) + p, by split <;> omega, fun s' => ?_⟩
    cases s' <;> simp only [Datum.setSign, encode, signBit, Bool.false_eq_true, if_true, if_false] <;> omega

theorem setSign_self (d : Datum) : d.setSign d.neg = d := by cases d <;> rfl

theorem ofBits_w0 (b : Nat) : (ofBits b).w0.toNat = b % 2^64 := by
  simp only [ofBits, Dec.C06GenFromInt.ofBits, UInt64.toNat_ofNat']
  omega
theorem ofBits_w1 (b : Nat) : (ofBits b).w1.toNat = b / 2^64 % 2^64 := by
  simp only [ofBits, Dec.C06GenFromInt.ofBits, UInt64.toNat_ofNat']

theorem or_sign (a S : Nat) (ha : a < 2^63) : a ||| S * 2^63 = S * 2^63 + a := by
  rw [Nat.or_comm, Dec.C06GenFromInt.or_disjoint S a 63 ha]

/-- the canonical encoding of `d` with its sign bit replaced by the sign bit of the word `w` is the canonical encoding
of `d.setSign` -/
theorem setSign_bits {d : Datum} (hd : d.WF) (w : UInt64) :
    (⟨(ofBits (encode d)).w0, (ofBits (encode d)).w1 &&& 0x7fffffffffffffff ||| w &&& 0x8000000000000000⟩ : U128) =
      ofBits (encode (d.setSign (decide (w.toNat / 2^63 % 2 = 1)))) := by
  obtain ⟨m, hm, hs⟩ := encode_setSign hd
  have h1 := hs d.neg
  rw [setSign_self] at h1
  rw [hs]
  apply eq_ofBits
  simp only [bitsOf, UInt64.toNat_or, abs_toNat, sign_toNat, ofBits_w0, ofBits_w1]
  rw [or_sign _ _ (by omega), h1]
  generalize (if d.neg = true then 1 else 0) = S0
  have hS : w.toNat / 2^63 % 2 = 1 ∨ w.toNat / 2^63 % 2 = 0 := by omega
  rcases hS with hS | hS
  · rw [hS, if_pos (by simp)]
    omega
  · rw [hS, if_neg (by simp)]
    omega

theorem infCanon_sign (y : U128) : (infCanon y).w1 &&& 0x8000000000000000 = y.w1 &&& 0x8000000000000000 := by
  unfold infCanon
  split
  · rw [← UInt64.toNat_inj, sign_toNat, sign_toNat]
    have hX : ((⟨0, y.w1 &&& (c_MASK_SIGN ||| c_MASK_INF)⟩ : U128).w1).toNat = (y.w1.toNat / 2^59 % 32) * 2^59 :=
      toNat_and_field y.w1 _ 5 59 (by decide)
    rw [hX]
    omega
  · rfl


theorem cmpD_ne_none {dx dy : Datum} (hx : dx.isNaN = false) (hy : dy.isNaN = false) : cmpD dx dy ≠ none := by
  intro h
  have := cmpD_none dx dy
  rw [h, hx, hy] at this
  exact Bool.noConfusion this

/-- the result pattern chosen by the code is the canonical encoding of the model's result -/
theorem chosen_eq (x y : U128) (hx : (decode (bitsOf x)).isNaN = false) (hy : (decode (bitsOf y)).isNaN = false) :
    (if (cmpD (decode (bitsOf x)) (decode (bitsOf y)) == some .eq) = true then
        (⟨(ofBits (encode (decode (bitsOf x)))).w0,
          (ofBits (encode (decode (bitsOf x)))).w1 &&& 0x7fffffffffffffff ||| (infCanon y).w1 &&& 0x8000000000000000⟩ : U128)
      else if (cmpD (decode (bitsOf x)) (decode (bitsOf y)) == some .gt) = true then
        ofBits (encode (nextDownD (decode (bitsOf x))))
      else ofBits (encode (nextUpD (decode (bitsOf x))))) =
    ofBits (encode (nextAfterD (decode (bitsOf x)) (decode (bitsOf y))).1) := by
  have hne := cmpD_ne_none hx hy
  have hneg : (decode (bitsOf y)).neg = decide (y.w1.toNat / 2^63 % 2 = 1) := by rw [decode_bitsOf, neg_decodeW]
  unfold nextAfterD
  rw [infCanon_sign, setSign_bits (decode_WF _), ← hneg]
  rcases hcm : cmpD (decode (bitsOf x)) (decode (bitsOf y)) with _ | (_ | _ | _)
  · exact absurd hcm hne
  · rfl
  · rfl
  · rfl

/-- **`bid128_nextafter`, all pairs of 128-bit patterns, every incoming status word.**
No NaN operand: the result is the canonical encoding of the model's `nextAfterD` result (`x` with the sign of `y` when
they compare equal — a non-canonical `x` is returned canonical —, else `next_down x` / `next_up x`), and the status
word is the incoming one with exactly the model's flags or-ed in (overflow + inexact when a finite `x` gives an
infinity; underflow + inexact when the result differs from `x` and is zero or below `10^−6143` in magnitude).
A NaN operand: the quieted canonical copy of the first NaN operand, `invalid` iff some operand is signalling.
The routine never panics. -/
theorem nextafter_spec (x y : U128) (f : UInt32) :
    bid128_nextafter x y f =
      .ok (ofBits (encode (afterD (decode (bitsOf x)) (decode (bitsOf y)))),
        afterFlags f (decode (bitsOf x)) (decode (bitsOf y))) := by
  rw [nextafter_shape]
  unfold afterD afterFlags
  cases hx : (decode (bitsOf x)).isNaN
  · cases hy : (decode (bitsOf y)).isNaN
    · -- no NaN
      rw [naFront_nonnan x y f _ hx hy, naCanon_spec x _ hx, naChooseK_spec _ _ x y f _ hx, naFlags_spec,
        chosen_eq x y hx hy]
      have hw : (nextAfterD (decode (bitsOf x)) (decode (bitsOf y))).1.WF := by
        unfold nextAfterD
        rcases cmpD (decode (bitsOf x)) (decode (bitsOf y)) with _ | (_ | _ | _) <;> simp only []
        · exact setSign_WF _ (decode_WF _)
        · exact nextUpD_WF (decode_WF _)
        · exact setSign_WF _ (decode_WF _)
        · exact nextDownD_WF (decode_WF _)
      have hn : (nextAfterD (decode (bitsOf x)) (decode (bitsOf y))).1.isNaN = false := by
        unfold nextAfterD
        rcases cmpD (decode (bitsOf x)) (decode (bitsOf y)) with _ | (_ | _ | _) <;> simp only []
        · rw [setSign_isNaN]; exact hx
        · exact nextUpD_isNaN hx
        · rw [setSign_isNaN]; exact hx
        · exact nextDownD_isNaN hx
      rw [decode_ofBits_encode (decode_WF _), decode_ofBits_encode hw, afterFlagsOf_model f _ _ (decode_WF _) hn hw]
      simp only [Bool.false_eq_true, if_false, Bool.or_false]
    · rw [naFront_nany x y f _ hx hy]
      simp only [Bool.false_eq_true, if_false, if_true, Bool.false_or, Bool.or_true, nanFlags,
        Dec.C06GenFromInt.isSNaN_isNaN _ hx]
  · rw [naFront_nanx x y f _ hx]
    simp only [if_true, Bool.true_or]

/-- no NaN operand: exactly `encode (nextAfterD dx dy).1`, and the model's flags or-ed into the status word -/
theorem nextafter_nonnan (x y : U128) (f : UInt32)
    (hx : (decode (bitsOf x)).isNaN = false) (hy : (decode (bitsOf y)).isNaN = false) :
    bid128_nextafter x y f =
      .ok (ofBits (encode (nextAfterD (decode (bitsOf x)) (decode (bitsOf y))).1),
        f ||| UInt32.ofNat (nextAfterD (decode (bitsOf x)) (decode (bitsOf y))).2) := by
  rw [nextafter_spec]
  unfold afterD afterFlags
  rw [hx, hy]
  simp only [Bool.false_eq_true, if_false, Bool.or_false]

/-- `bid128_nexttoward` is `bid128_nextafter` (the second operand has the same format) -/
theorem nexttoward_spec (x y : U128) (f : UInt32) :
    bid128_nexttoward x y f =
      .ok (ofBits (encode (afterD (decode (bitsOf x)) (decode (bitsOf y)))),
        afterFlags f (decode (bitsOf x)) (decode (bitsOf y))) := by
  rw [Dec.C06GenFromInt.nexttoward_eq, nextafter_spec]


-- +MAX towards +Inf: +Inf, overflow + inexact (0x28);  +1E−6176 towards 0: +0E−6176, underflow + inexact (0x30)
example : bid128_nextafter ⟨0x378d8e63ffffffff, 0x5fffed09bead87c0⟩ ⟨0, 0x7800000000000000⟩ 0 =
    .ok (⟨0, 0x7800000000000000⟩, 0x28) := by rfl
example : bid128_nextafter ⟨0x378d8e63ffffffff, 0x5fffed09bead87c0⟩ ⟨0, 0x7800000000000000⟩ 0 =
    .ok (ofBits (encode (.inf false)), 0 ||| UInt32.ofNat (fOverflow ||| fInexact)) := by
  rw [nextafter_nonnan _ _ _ (by decide +kernel) (by decide +kernel)]; decide +kernel
example : bid128_nextafter ⟨1, 0⟩ ⟨0, 0x3040000000000000⟩ 0 = .ok (⟨0, 0⟩, 0x30) := by rfl
example : bid128_nextafter ⟨1, 0⟩ ⟨0, 0x3040000000000000⟩ 0 =
    .ok (ofBits (encode (.fin false 0 (-6176))), 0 ||| UInt32.ofNat (fUnderflow ||| fInexact)) := by
  rw [nextafter_nonnan _ _ _ (by decide +kernel) (by decide +kernel)]; decide +kernel
-- the least normal number 1E−6143 towards 0: the largest subnormal 999999999999999999999999999999999E−6176, underflow + inexact
example : bid128_nextafter ⟨1, 0x0042000000000000⟩ ⟨0, 0x3040000000000000⟩ 0 =
    .ok (ofBits (encode (.fin false (10^33 - 1) (-6176))), 0x30) := by
  rw [nextafter_nonnan _ _ _ (by decide +kernel) (by decide +kernel)]; decide +kernel
-- 5 and 5.0 compare equal: x itself, no flag;  a non-canonical zero (coefficient field ≥ 10^34) next to −0: the canonical
-- zero of the same exponent with the sign of y;  1 towards 2 with all flags already raised: nothing changes in the word
example : bid128_nextafter ⟨5, 0x3040000000000000⟩ ⟨50, 0x303e000000000000⟩ 0 = .ok (⟨5, 0x3040000000000000⟩, 0) := by rfl
example : bid128_nextafter ⟨0xffffffffffffffff, 0x3041ffffffffffff⟩ ⟨0, 0xb040000000000000⟩ 0 =
    .ok (ofBits (encode (.fin true 0 0)), 0) := by
  rw [nextafter_nonnan _ _ _ (by decide +kernel) (by decide +kernel)]; decide +kernel
example : bid128_nextafter ⟨1, 0x3040000000000000⟩ ⟨2, 0x3040000000000000⟩ 0x3f =
    .ok (ofBits (encode (.fin false (10^33 + 1) (-33))), 0x3f) := by
  rw [nextafter_nonnan _ _ _ (by decide +kernel) (by decide +kernel)]; decide +kernel
-- NaN operands: 1 and sNaN: the quiet NaN, invalid;  qNaN(7) and −sNaN(9): the first operand, invalid
example : bid128_nextafter ⟨1, 0x3040000000000000⟩ ⟨0, 0x7e00000000000000⟩ 0 = .ok (⟨0, 0x7c00000000000000⟩, 1) := by rfl
example : bid128_nextafter ⟨7, 0x7c00000000000000⟩ ⟨9, 0xfe00000000000000⟩ 0 = .ok (⟨7, 0x7c00000000000000⟩, 1) := by rfl
example : bid128_nextafter ⟨7, 0x7c00000000000000⟩ ⟨9, 0xfe00000000000000⟩ 0 =
    .ok (ofBits (encode (.nan false false 7)), 1) := by
  rw [nextafter_spec]; decide +kernel

/-! ## 9. In the judge's vocabulary

`Dec.expect op mode args` (DecModel/Ops.lean) is what the judge accepts for a call.  The outcome of the translated
routines is accepted, for every operand pattern, rounding mode and incoming status word. -/

/-- the outcome `(r, f')` of a call entered with status word `f` meets the expectation `E`: `E` lists alternatives,
the result is one of them, and exactly the listed flags are or-ed into the status word -/
def Accepted (E : Expect) (r : U128) (f f' : UInt32) : Prop :=
  ∃ alts raised, E = .oneOf alts raised ∧ [Val.d (bitsOf r)] ∈ alts ∧ f' = f ||| UInt32.ofNat raised

theorem quietNaN_WF {d : Datum} (h : d.WF) : (quietNaN d).WF := by cases d <;> exact h

theorem nanFlags_eq (f : UInt32) (d : Datum) : nanFlags f d = f ||| UInt32.ofNat (if d.isSNaN then fInvalid else 0) := by
  unfold nanFlags
  split
  · rfl
  · exact (UInt32.or_zero).symm

theorem expect_next_up (m : Mode) (b : Nat) (ta : Bool) :
    expect "next_up" m [.d b] ta = un b (fun a => exactly [.d (encode (nextUpD a))] 0) := rfl
theorem expect_next_down (m : Mode) (b : Nat) (ta : Bool) :
    expect "next_down" m [.d b] ta = un b (fun a => exactly [.d (encode (nextDownD a))] 0) := rfl
theorem expect_next_after (m : Mode) (a b : Nat) (ta : Bool) :
    expect "next_after" m [.d a, .d b] ta = bin a b (fun a b => exactD (nextAfterD a b)) := rfl
theorem expect_next_toward (m : Mode) (a b : Nat) (ta : Bool) :
    expect "next_toward" m [.d a, .d b] ta = bin a b (fun a b => exactD (nextAfterD a b)) := rfl

theorem un_no_nan (b : Nat) (k : Datum → Expect) (h : (decode b).isNaN = false) : un b k = k (decode b) := by
  unfold un
  rw [Dec.C12.nanRule_no_nan _ _ (by simp [h])]

theorem bin_no_nan (a b : Nat) (k : Datum → Datum → Expect) (ha : (decode a).isNaN = false) (hb : (decode b).isNaN = false) :
    bin a b k = k (decode a) (decode b) := by
  unfold bin
  rw [Dec.C12.nanRule_no_nan _ _ (by simp [ha, hb])]

/-- a one-operand routine that meets `upD`-style specification is accepted -/
theorem un_accepted (b : Nat) (g : Datum → Datum) (f : UInt32) (hg : ∀ d, d.WF → (g d).WF) :
    Accepted (un b (fun a => exactly [.d (encode (g a))] 0))
      (ofBits (encode (if (decode b).isNaN then quietNaN (decode b) else g (decode b)))) f (nanFlags f (decode b)) := by
  cases hn : (decode b).isNaN
  · refine ⟨_, _, un_no_nan b _ hn, ?_, ?_⟩
    · simp only [Bool.false_eq_true, if_false]
      rw [bitsOf_ofBits_encode (hg _ (decode_WF b))]
      exact List.mem_singleton.2 rfl
    · rw [nanFlags_of_not_nan f hn]; exact (UInt32.or_zero).symm
  · refine ⟨_, _, Dec.C12Ops.un_nan b _ hn, ?_, nanFlags_eq f _⟩
    simp only [if_true]
    rw [bitsOf_ofBits_encode (quietNaN_WF (decode_WF b))]
    exact List.mem_singleton.2 rfl

/-- **`bid128_nextup` is accepted by the judge's expectation for `next_up`** — every pattern, mode, status word -/
theorem nextup_accepted (m : Mode) (ta : Bool) (x : U128) (f : UInt32) :
    ∃ r f', bid128_nextup x f = .ok (r, f') ∧ Accepted (expect "next_up" m [.d (bitsOf x)] ta) r f f' :=
  ⟨_, _, nextup_spec x f, by rw [expect_next_up]; exact un_accepted _ nextUpD f (fun _ h => nextUpD_WF h)⟩

/-- **`bid128_nextdown` is accepted by the judge's expectation for `next_down`** -/
theorem nextdown_accepted (m : Mode) (ta : Bool) (x : U128) (f : UInt32) :
    ∃ r f', bid128_nextdown x f = .ok (r, f') ∧ Accepted (expect "next_down" m [.d (bitsOf x)] ta) r f f' :=
  ⟨_, _, nextdown_spec x f, by rw [expect_next_down]; exact un_accepted _ nextDownD f (fun _ h => nextDownD_WF h)⟩

theorem nextAfterD_WF {dx : Datum} (dy : Datum) (h : dx.WF) : (nextAfterD dx dy).1.WF := by
  unfold nextAfterD
  rcases cmpD dx dy with _ | (_ | _ | _) <;> simp only []
  · exact setSign_WF _ h
  · exact nextUpD_WF h
  · exact setSign_WF _ h
  · exact nextDownD_WF h

theorem after_accepted (a b : Nat) (f : UInt32) :
    Accepted (bin a b (fun a b => exactD (nextAfterD a b)))
      (ofBits (encode (afterD (decode a) (decode b)))) f (afterFlags f (decode a) (decode b)) := by
  unfold afterD afterFlags
  cases ha : (decode a).isNaN
  · cases hb : (decode b).isNaN
    · refine ⟨_, _, bin_no_nan a b _ ha hb, ?_, ?_⟩
      · simp only [Bool.false_eq_true, if_false, exactD]
        rw [bitsOf_ofBits_encode (nextAfterD_WF _ (decode_WF a))]
        exact List.mem_singleton.2 rfl
      · simp only [Bool.false_eq_true, if_false, Bool.or_false, exactD]
    · refine ⟨_, _, Dec.C12Ops.bin_nan_right a b _ ha hb, ?_, ?_⟩
      · simp only [Bool.false_eq_true, if_false, if_true]
        rw [bitsOf_ofBits_encode (quietNaN_WF (decode_WF b))]
        exact List.mem_singleton.2 rfl
      · simp only [Bool.false_or, if_true, Dec.C06GenFromInt.isSNaN_isNaN _ ha]
        exact nanFlags_eq f _
  · refine ⟨_, _, Dec.C12Ops.bin_nan a b _ (Or.inl ha), ?_, ?_⟩
    · simp only [if_true, List.filter, ha, List.map]
      rw [bitsOf_ofBits_encode (quietNaN_WF (decode_WF a))]
      exact List.mem_cons_self
    · simp only [Bool.true_or, if_true, List.any, Bool.or_false]
      split
      · rfl
      · exact (UInt32.or_zero).symm

/-- **`bid128_nextafter` is accepted by the judge's expectation for `next_after`** — every pair of patterns, mode,
status word (with two NaN operands the judge accepts either one quieted; the code returns the first) -/
theorem nextafter_accepted (m : Mode) (ta : Bool) (x y : U128) (f : UInt32) :
    ∃ r f', bid128_nextafter x y f = .ok (r, f') ∧
      Accepted (expect "next_after" m [.d (bitsOf x), .d (bitsOf y)] ta) r f f' :=
  ⟨_, _, nextafter_spec x y f, by rw [expect_next_after]; exact after_accepted _ _ f⟩

/-- **`bid128_nexttoward` is accepted by the judge's expectation for `next_toward`** -/
theorem nexttoward_accepted (m : Mode) (ta : Bool) (x y : U128) (f : UInt32) :
    ∃ r f', bid128_nexttoward x y f = .ok (r, f') ∧
      Accepted (expect "next_toward" m [.d (bitsOf x), .d (bitsOf y)] ta) r f f' :=
  ⟨_, _, nexttoward_spec x y f, by rw [expect_next_toward]; exact after_accepted _ _ f⟩

-- the smallest subnormal towards 0 (→ +0, underflow + inexact): the outcome is what the judge expects for `next_after`
example : ∃ r f', bid128_nextafter ⟨1, 0⟩ ⟨0, 0x3040000000000000⟩ 0 = .ok (r, f') ∧
    Accepted (expect "next_after" .rne [.d (bitsOf ⟨1, 0⟩), .d (bitsOf ⟨0, 0x3040000000000000⟩)] false) r 0 f' :=
  nextafter_accepted _ _ _ _ _
example : ∃ r f', bid128_nextup ⟨5, 0xfe03ffffffffffff⟩ 0x20 = .ok (r, f') ∧
    Accepted (expect "next_up" .rtz [.d (bitsOf ⟨5, 0xfe03ffffffffffff⟩)] false) r 0x20 f' :=
  nextup_accepted _ _ _ _

end Dec.C17GenNext
