/-
  C02GenFmaMidWideDefs — the interfaces of block "Mid" of `bid128_ext_fma` for its SECOND use: after the operand exchange of
  Cases (9), (10), (13), (14), (18) (C02GenFmaSwap: `swap_spec`) the block runs with the roles exchanged: `C3` is then the
  PRODUCT (at most 34 digits, exponent `e3 = e1 + e2` anywhere in `[−12352, 12222]`), `C4` the original addend.
  `EntryInvW` (here) / `LoopPreW` (in C02GenFmaMid) are `EntryInv` / `LoopPre` with the range of `e3` replaced by what is still true then:
  the leading digit of `C3` is not below `10^emin` (`delta ≥ 0`), and not above `10^6177` (`delta ≤ 33`).
-/
import DecProofs.Properties.C02GenFmaMid

namespace Dec.C02GenFmaMid
open Dec.Rs Dec.Gen.Code
open Dec.C03GenCompare (val128 val256)

/-- **the entry invariant of the block, second use**: as `EntryInv`, but `e3` (now the product's exponent) is only known to lie in
`[−12352, 12222]`, `c4` (now the addend) has at most 34 digits and `e4` is in `[−6176, 6111]` -/
structure EntryInvW (C3 : U128) (C4 : U256) (q3 q4 e3 e4 delta p34 : Int32) (z_sign p_sign : UInt64)
    (c3 c4 : Nat) (E3 E4 : Int) (sz sp : Bool) : Prop where
  hC3 : val128 C3 = c3
  hc3 : 0 < c3 ∧ c3 < P34
  hq3 : q3.toInt = ndigits c3
  he3 : e3.toInt = E3
  hE3 : -12352 ≤ E3 ∧ E3 ≤ 12222
  hC4 : val256 C4 = c4
  hc4 : 0 < c4 ∧ c4 < P34
  hq4 : q4.toInt = ndigits c4
  he4 : e4.toInt = E4
  hE4 : -6176 ≤ E4 ∧ E4 ≤ 6111
  hdelta : delta.toInt = (ndigits c3 : Int) + E3 - ndigits c4 - E4
  hdr : 0 ≤ delta.toInt ∧ delta.toInt ≤ 33
  hp34 : p34.toInt = 34
  hzs : z_sign.toNat = (if sz = true then 1 else 0) * 2 ^ 63
  hps : p_sign.toNat = (if sp = true then 1 else 0) * 2 ^ 63

end Dec.C02GenFmaMid
