/-
  C18 (order part) — `totalLe` (the model of `total_order`) is a total order on ALL data — numbers of any
  cohort member, signed zeros, infinities, quiet and signalling NaNs with payloads — and it is the IEEE 754-2008
  §5.10 order: numerically smaller first, −0 before +0, equal values by exponent, NaNs at the two ends.

  Route: `totalKey` maps a datum injectively into the lexicographic linear order `ℤ ×ₗ ℚ ×ₗ ℤ`
  (signed class rank, signed value, signed exponent-or-payload) and `totalLe x y ↔ totalKey x ≤ totalKey y`.
-/
import DecProofs.Core.Cmp
import DecProofs.Properties.C18
import Mathlib.Order.Lex
import Mathlib.Data.Prod.Lex

namespace Dec.C18Order

/-! ### the key -/

/-- magnitudes of finite numbers: smaller value first, and for equal values the smaller exponent first -/
theorem totalKeyFinLe_iff (c1 : Nat) (e1 : Int) (c2 : Nat) (e2 : Int) :
    totalKeyFinLe c1 e1 c2 e2 = true ↔
      fval false c1 e1 < fval false c2 e2 ∨ (fval false c1 e1 = fval false c2 e2 ∧ e1 ≤ e2) := by
  unfold totalKeyFinLe
  rcases h : cmpFin false c1 e1 false c2 e2 with _ | _ | _
  · simp [(cmpFin_lt_iff ..).1 h]
  · have := (cmpFin_eq_iff ..).1 h
    simp [this]
  · have := (cmpFin_gt_iff ..).1 h
    simp only [Bool.false_eq_true, false_iff, not_or, not_lt, not_and]
    exact ⟨this.le, fun h' => absurd h' (ne_of_gt this)⟩

/-- Sort key of the IEEE total order: (class rank, value, exponent or payload), everything negated for
negative data; compared lexicographically.  Ranks: numbers ±1, infinities ±2, signalling NaNs ±3, quiet NaNs ±4. -/
def totalKey : Datum → ℤ ×ₗ ℚ ×ₗ ℤ
  | .fin false c e => toLex (1, toLex (fval false c e, e))
  | .fin true c e => toLex (-1, toLex (-fval false c e, -e))
  | .inf false => toLex (2, toLex (0, 0))
  | .inf true => toLex (-2, toLex (0, 0))
  | .nan false true p => toLex (3, toLex (0, (p : ℤ)))
  | .nan false false p => toLex (4, toLex (0, (p : ℤ)))
  | .nan true true p => toLex (-3, toLex (0, -(p : ℤ)))
  | .nan true false p => toLex (-4, toLex (0, -(p : ℤ)))

/-- `totalLe` is `≤` on keys, for all data -/
theorem totalLe_iff_key (x y : Datum) : totalLe x y = true ↔ totalKey x ≤ totalKey y := by
  rcases x with ⟨_ | _, c1, e1⟩ | ⟨_ | _⟩ | ⟨_ | _, _ | _, p1⟩ <;>
  rcases y with ⟨_ | _, c2, e2⟩ | ⟨_ | _⟩ | ⟨_ | _, _ | _, p2⟩ <;>
  simp [totalLe, totalLeMag, Datum.neg, totalKey, Prod.Lex.toLex_le_toLex, totalKeyFinLe_iff]
  rw [@eq_comm ℚ (fval false c2 e2)]

/-- different data have different keys (sign, coefficient, exponent, NaN kind and payload all count) -/
theorem totalKey_injective : Function.Injective totalKey := by
  intro x y h
  rcases x with ⟨_ | _, c1, e1⟩ | ⟨_ | _⟩ | ⟨_ | _, _ | _, p1⟩ <;>
  rcases y with ⟨_ | _, c2, e2⟩ | ⟨_ | _⟩ | ⟨_ | _, _ | _, p2⟩ <;>
  simp [totalKey] at h <;>
  first
    | rfl
    | (obtain ⟨h1, rfl⟩ := h; rw [(fval_false_inj _ _ _).1 h1])
    | simp_all

/-! ### the order axioms, for all data -/

/-- reflexive (also in `C18.refl`) -/
theorem refl (x : Datum) : totalLe x x = true := (totalLe_iff_key x x).2 le_rfl

/-- transitive, for all data including NaNs and infinities -/
theorem trans {x y z : Datum} (h1 : totalLe x y = true) (h2 : totalLe y z = true) : totalLe x z = true :=
  (totalLe_iff_key x z).2 (le_trans ((totalLe_iff_key x y).1 h1) ((totalLe_iff_key y z).1 h2))

/-- total: any two data are comparable -/
theorem total (x y : Datum) : totalLe x y = true ∨ totalLe y x = true := by
  rw [totalLe_iff_key, totalLe_iff_key]; exact le_total _ _

/-- antisymmetric: data that precede each other are the same datum (same sign, coefficient and exponent;
same NaN kind and payload) -/
theorem antisymm {x y : Datum} (h1 : totalLe x y = true) (h2 : totalLe y x = true) : x = y :=
  totalKey_injective (le_antisymm ((totalLe_iff_key x y).1 h1) ((totalLe_iff_key y x).1 h2))

/-- `totalOrder(x,y) ∧ totalOrder(y,x)` exactly when `x` and `y` are the same datum -/
theorem le_and_ge_iff_eq (x y : Datum) : (totalLe x y = true ∧ totalLe y x = true) ↔ x = y :=
  ⟨fun h => antisymm h.1 h.2, fun h => h ▸ ⟨refl x, refl x⟩⟩

/-- if `x` does not precede `y` then `y` precedes `x` (strictly) -/
theorem lt_of_not_le {x y : Datum} (h : totalLe x y = false) : totalLe y x = true ∧ x ≠ y := by
  refine ⟨(total x y).resolve_left (by simp [h]), ?_⟩
  rintro rfl
  simp [refl] at h

/-- the strict part is transitive too -/
theorem trans_strict {x y z : Datum} (h1 : totalLe y x = false) (h2 : totalLe z y = false) :
    totalLe z x = false := by
  rw [Bool.eq_false_iff, Ne, totalLe_iff_key, not_le] at *
  exact lt_trans h1 h2

example : totalLe (.nan true false 7) (.inf true) = true ∧ totalLe (.inf true) (.fin true 5 2) = true ∧
    totalLe (.nan true false 7) (.fin true 5 2) = true := by decide
example : totalLe (.fin false 10 (-1)) (.fin false 1 0) = true ∧ totalLe (.fin false 1 0) (.fin false 10 (-1)) = false ∧
    Datum.fin false 10 (-1) ≠ .fin false 1 0 := by decide

/-! ### `total_order_mag`: the same facts on magnitudes -/

/-- `totalLeMag` is transitive -/
theorem mag_trans {x y z : Datum} (h1 : totalLeMag x y = true) (h2 : totalLeMag y z = true) :
    totalLeMag x z = true := by
  rw [C18.mag_is_abs] at *; exact trans h1 h2

/-- `totalLeMag` is total -/
theorem mag_total (x y : Datum) : totalLeMag x y = true ∨ totalLeMag y x = true := by
  rw [C18.mag_is_abs, C18.mag_is_abs y x]; exact total _ _

/-- `totalLeMag` is antisymmetric up to the sign it ignores -/
theorem mag_antisymm {x y : Datum} (h1 : totalLeMag x y = true) (h2 : totalLeMag y x = true) :
    x.setSign false = y.setSign false := by
  rw [C18.mag_is_abs] at *; exact antisymm h1 h2

example : totalLeMag (.fin true 3 0) (.fin false 3 0) = true ∧ totalLeMag (.fin false 3 0) (.fin true 3 0) = true := by
  decide

/-! ### clause-by-clause faithfulness to IEEE 754-2008 §5.10 -/

/-- §5.10 a): if `x < y` numerically then `totalOrder(x,y)` and not `totalOrder(y,x)` — finite numbers of
any signs, any cohort members -/
theorem lt_of_val_lt (s1 : Bool) (c1 : Nat) (e1 : Int) (s2 : Bool) (c2 : Nat) (e2 : Int)
    (h : fval s1 c1 e1 < fval s2 c2 e2) :
    totalLe (.fin s1 c1 e1) (.fin s2 c2 e2) = true ∧ totalLe (.fin s2 c2 e2) (.fin s1 c1 e1) = false := by
  have key : ∀ a ea b eb, fval false a ea < fval false b eb →
      totalKeyFinLe a ea b eb = true ∧ totalKeyFinLe b eb a ea = false := by
    intro a ea b eb hab
    refine ⟨(totalKeyFinLe_iff ..).2 (Or.inl hab), ?_⟩
    rw [Bool.eq_false_iff, Ne, totalKeyFinLe_iff]
    rintro (h' | ⟨h', _⟩) <;> linarith
  cases s1 <;> cases s2
  · simpa [totalLe, totalLeMag, Datum.neg] using key _ _ _ _ h
  · exact absurd h (not_lt.2 (le_trans (fval_true_nonpos c2 e2) (fval_false_nonneg c1 e1)))
  · simp [totalLe, Datum.neg]
  · rw [fval_true_eq_neg, fval_true_eq_neg, neg_lt_neg_iff] at h
    simpa [totalLe, totalLeMag, Datum.neg] using key _ _ _ _ h

/-- the same clause on data: whenever the numeric comparison says Less (numbers and infinities), the total
order agrees strictly -/
theorem lt_of_cmpD_lt {x y : Datum} (h : cmpD x y = some .lt) :
    totalLe x y = true ∧ totalLe y x = false := by
  rcases x with ⟨s1, c1, e1⟩ | ⟨_ | _⟩ | _ <;> rcases y with ⟨s2, c2, e2⟩ | ⟨_ | _⟩ | _ <;>
    simp [cmpD] at h
  · exact lt_of_val_lt _ _ _ _ _ _ ((cmpFin_lt_iff ..).1 h)
  · cases s1 <;> simp [totalLe, totalLeMag, Datum.neg]
  · cases s2 <;> simp [totalLe, totalLeMag, Datum.neg]
  · simp [totalLe, Datum.neg]

/-- §5.10 b): `totalOrder(−0, +0)` holds and `totalOrder(+0, −0)` does not — zeros of any exponents -/
theorem neg_zero_lt_pos_zero (e1 e2 : Int) :
    totalLe (.fin true 0 e1) (.fin false 0 e2) = true ∧ totalLe (.fin false 0 e2) (.fin true 0 e1) = false := by
  simp [totalLe, Datum.neg]

/-- §5.10 c): two representations of the same value with the same sign are ordered by exponent: smaller
exponent first when positive, larger exponent first when negative -/
theorem same_value_by_exponent (c1 c2 : Nat) (e1 e2 : Int) (h : fval false c1 e1 = fval false c2 e2) :
    totalLe (.fin false c1 e1) (.fin false c2 e2) = decide (e1 ≤ e2) ∧
    totalLe (.fin true c1 e1) (.fin true c2 e2) = decide (e2 ≤ e1) :=
  C18.equal_values_by_exponent c1 c2 e1 e2 ((cmpFin_eq_iff ..).2 h)

/-- in particular within one cohort: `c·10^k × 10^(e−k)` precedes `c × 10^e` when positive -/
theorem cohort_order (c k : Nat) (e : Int) :
    totalLe (.fin false (c * 10 ^ k) (e - k)) (.fin false c e) = true ∧
    totalLe (.fin true c e) (.fin true (c * 10 ^ k) (e - k)) = true := by
  have h := same_value_by_exponent (c * 10 ^ k) c (e - k) e (fval_cohort false c k e)
  have h' := same_value_by_exponent c (c * 10 ^ k) e (e - k) (fval_cohort false c k e).symm
  refine ⟨by rw [h.1]; simp, by rw [h'.2]; simp⟩

/-- §5.10 d): negative NaNs precede every non-NaN datum and positive NaNs follow every one, strictly -/
theorem nan_extremes (x : Datum) (hx : x.isNaN = false) (g : Bool) (p : Nat) :
    totalLe (.nan true g p) x = true ∧ totalLe x (.nan true g p) = false ∧
    totalLe x (.nan false g p) = true ∧ totalLe (.nan false g p) x = false := by
  rcases x with ⟨_ | _, c, e⟩ | ⟨_ | _⟩ | _ <;> simp [Datum.isNaN] at hx <;>
    simp [totalLe, totalLeMag, Datum.neg]

/-- infinities bound all numbers: −Inf first, +Inf last among non-NaN data -/
theorem inf_extremes (s : Bool) (c : Nat) (e : Int) :
    totalLe (.inf true) (.fin s c e) = true ∧ totalLe (.fin s c e) (.inf true) = false ∧
    totalLe (.fin s c e) (.inf false) = true ∧ totalLe (.inf false) (.fin s c e) = false := by
  cases s <;> simp [totalLe, totalLeMag, Datum.neg]

example : (fval true 25 (-1) < fval true 2 0) ∧
    totalLe (.fin true 25 (-1)) (.fin true 2 0) = true ∧ totalLe (.fin true 2 0) (.fin true 25 (-1)) = false := by
  refine ⟨by norm_num [fval], by decide, by decide⟩
example : fval false 10 (-1) = fval false 1 0 := by norm_num [fval]

end Dec.C18Order
