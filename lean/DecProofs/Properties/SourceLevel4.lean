import DecGen.Api
import DecProofs.Properties.SourceLevel3
import DecProofs.Properties.C02GenFmaAssembly2
import DecProofs.Properties.C02GenFmaAssembly3
import DecProofs.Properties.C01GenAddRoundClosed
import DecProofs.Properties.C01GenDivClosed
import DecProofs.Properties.C01GenSqrtLong
import DecProofs.Properties.C02Q
import DecProofs.Properties.C01Strict

/-!
  SourceLevel4 — the property sentences about the PUBLIC API of the source (`Dec.Gen.Api.run "<method>" mode flags args`) for
  the arithmetic that landed after `SourceLevel3.lean` (frozen; its table is superseded by the one below), same style: every
  theorem is about `Api.run` with the literal method name, holds for every 128-bit pattern (non-canonical ones included),
  every incoming status word and rounding mode, and says "returns normally".

    §1, §5 C02  `fused_multiply_add`: `fused_multiply_add_spec` (ALL operands, no hypothesis: NaN rule / `fmaD` = one rounding
                of the exact `x·y + z`), `fused_multiply_add_property` (finite operands: canonical; exact zero with the IEEE
                sign at `min (e₁+e₂, e₃)`; else THE strict correct delivery `FinishSpecStrict`, datum and flags),
                `fused_multiply_add_specials` (NaN rule; `∞·0`, `∞ − ∞` invalid).  From `C02GenFmaAssembly2.bid128_fma_spec_partial3`
                (`fused_multiply_add_partial`, `…_property_partial`: without the `z = 0` path), the hypothesis forms
                `…_of_Z0Spec`, and `C02GenFmaAssembly3.z0Spec`, which discharges the hypothesis.
    §2, §5 C01  `multiplication`: `multiplication_spec`, `multiplication_property`, `multiplication_zero_property`,
                `multiplication_agrees_with_fma` — no hypothesis (same route).
    §3     C01  `addition`, `subtraction`, `fdim`: `…_closed` / `…_property_closed` unconditional outside `AddOpen` (the code
                enters the rounding loop of `bid128_add` and leaves the 34-digit window: second rounding or second turn);
                `…_of_LoopRest` / `…_property_of_LoopRest` for ALL operands relative to the ONE named hypothesis left in the
                whole development, `C01GenAddRound.LoopRestRounding` (from `C01GenAddRoundClosed`).
    §4     C01  `division` (`division_spec` = `C01GenDivClosed.api_division`) and `square_root` (`square_root_spec`,
                `square_root_property`; `C01GenSqrtLong.long_ok` discharges `LongOK`): ALL operands, no hypothesis.

  No deviation of the code from the model was found.  No `sorry`; axioms: the three standard ones.

  FINAL TABLE — all 123 dispatched methods → the theorem(s) stating the method's property about `Api.run` (file.name); remaining
  hypotheses in [ ].  For ALL 123: C14 / C15 (the status word on entry is only OR-ed into; results and raised bits do not depend
  on it; histories) is `C14GenHistory.api_frame`, `runHistory_frame`, `runHistory_flags`; the methods without a status word
  also `C14GenHistory.api_silent`.

  encode_decimal                             SourceLevel.encode_decimal_spec, encode_decimal_datum, decode_encode_decimal, encode_decode_decimal
  decode_decimal                             SourceLevel.decode_decimal_spec, decode_decimal_datum, decode_encode_decimal, encode_decode_decimal
  abs                                        SourceLevel.abs_negate_spec
  class                                      SourceLevel.predicates_spec, class_consistent
  is_finite                                  SourceLevel.predicates_spec, class_consistent
  is_infinite                                SourceLevel.predicates_spec, class_consistent, noncanonical_treated
  is_nan                                     SourceLevel.predicates_spec, class_consistent
  is_normal                                  SourceLevel.predicates_spec, class_consistent, is_normal_iff
  is_signaling                               SourceLevel.predicates_spec, class_consistent
  is_sign_minus                              SourceLevel.predicates_spec, class_consistent
  is_subnormal                               SourceLevel.predicates_spec, class_consistent
  is_zero                                    SourceLevel.predicates_spec, class_consistent, noncanonical_treated
  negate                                     SourceLevel.abs_negate_spec
  same_quantum                               SourceLevel.same_quantum_spec, same_quantum_finite
  total_order                                SourceLevel.total_order_spec, total_order_refl, total_order_trans, total_order_total, total_order_antisymm, total_order_chain, total_order_cohort, total_order_nans
  total_order_mag                            SourceLevel.total_order_mag_spec
  fdim                                       SourceLevel4.fdim_closed  [unconditional unless x > y with (x, −y) in `AddOpen`]; fdim_of_LoopRest  [`LoopRestRounding`]; SourceLevel3.fdim_le
  fused_multiply_add                         SourceLevel4.fused_multiply_add_spec, fused_multiply_add_property, fused_multiply_add_specials; C02GenFmaAssembly3.api_fused_multiply_add, fma_property, fma_zero_property; NaN: SourceLevel.fma_nan
  fmod                                       C10GenFmodRem.api_fmod, fmod_property, invalid_property, yinf_property, far_property, fmod_accepted; NaN: SourceLevel.binary_nan
  frexp                                      SourceLevel.frexp_spec
  ldexp                                      SourceLevel.ldexp_spec, frame_scale
  llquantexp                                 SourceLevel.llquantexp_spec
  logb                                       SourceLevel3.logb_spec, logb_cases; NaN: SourceLevel.unary_nan
  lrint                                      SourceLevel.c_style_conversions
  llrint                                     SourceLevel.c_style_conversions
  lround                                     SourceLevel.c_style_conversions
  llround                                    SourceLevel.c_style_conversions
  log_b                                      SourceLevel2.log_b_spec, log_b_cases
  max_num                                    SourceLevel.max_num_spec, minmax_numbers, minmax_expected
  max_num_mag                                SourceLevel.max_num_mag_spec, minmax_numbers, minmax_expected
  min_num                                    SourceLevel.min_num_spec, minmax_numbers, minmax_expected
  min_num_mag                                SourceLevel.min_num_mag_spec, minmax_numbers, minmax_expected
  modf                                       SourceLevel2.modf_spec, modf_property, modf_specials, modf_accepted
  nearbyint                                  SourceLevel3.nearbyint_spec (+ ri_meaning, ri_result); NaN: SourceLevel.unary_nan
  next_after                                 SourceLevel.next_after_spec, next_accepted, binary_nan
  next_down                                  SourceLevel.next_down_spec, next_down_next_up, next_accepted, unary_nan
  next_toward                                SourceLevel.next_after_spec, next_accepted, binary_nan
  next_up                                    SourceLevel.next_up_spec, next_up_least, next_up_boundaries, next_down_next_up, next_accepted, unary_nan
  quantexp                                   SourceLevel.quantexp_spec
  quantize                                   SourceLevel3.quantize_spec, quantize_property, quantize_result; SourceLevel.quantize_special, quantize_infinities, quantize_one_infinity, binary_nan
  quantum                                    SourceLevel.quantum_spec
  scaleb                                     SourceLevel.scaleb_spec, scaleb_in_range, scaleb_specials, frame_scale
  scalebln                                   SourceLevel.scalebln_spec, frame_scale
  square_root                                SourceLevel4.square_root_spec, square_root_property; SourceLevel3.square_root_specials, square_root_exact; NaN: SourceLevel.unary_nan
  convert_to_i32_ties_to_even                SourceLevel2.convert_to_i32_ties_to_even_spec, convert_all, conv_meaning
  convert_to_i32_exact_ties_to_even          SourceLevel2.convert_to_i32_exact_ties_to_even_spec, convert_all, conv_meaning
  convert_to_i32_toward_negative             SourceLevel2.convert_to_i32_toward_negative_spec, convert_all, conv_meaning
  convert_to_i32_exact_toward_negative       SourceLevel2.convert_to_i32_exact_toward_negative_spec, convert_all, conv_meaning
  convert_to_i32_toward_positive             SourceLevel2.convert_to_i32_toward_positive_spec, convert_all, conv_meaning
  convert_to_i32_exact_toward_positive       SourceLevel2.convert_to_i32_exact_toward_positive_spec, convert_all, conv_meaning
  convert_to_i32_toward_zero                 SourceLevel2.convert_to_i32_toward_zero_spec, convert_all, conv_meaning
  convert_to_i32_exact_toward_zero           SourceLevel2.convert_to_i32_exact_toward_zero_spec, convert_all, conv_meaning
  convert_to_i32_ties_to_away                SourceLevel2.convert_to_i32_ties_to_away_spec, convert_all, conv_meaning
  convert_to_i32_exact_ties_to_away          SourceLevel2.convert_to_i32_exact_ties_to_away_spec, convert_all, conv_meaning
  convert_to_i64_toward_positive             SourceLevel2.convert_to_i64_toward_positive_spec, convert_all, conv_meaning
  convert_to_i64_toward_negative             SourceLevel2.convert_to_i64_toward_negative_spec, convert_all, conv_meaning
  convert_to_i64_toward_zero                 SourceLevel2.convert_to_i64_toward_zero_spec, convert_all, conv_meaning
  convert_to_i64_ties_to_even                SourceLevel2.convert_to_i64_ties_to_even_spec, convert_all, conv_meaning
  convert_to_i64_ties_to_away                SourceLevel2.convert_to_i64_ties_to_away_spec, convert_all, conv_meaning; SourceLevel.c_style_conversions
  convert_to_i64_exact_toward_positive       SourceLevel2.convert_to_i64_exact_toward_positive_spec, convert_all, conv_meaning; SourceLevel.c_style_conversions
  convert_to_i64_exact_toward_negative       SourceLevel2.convert_to_i64_exact_toward_negative_spec, convert_all, conv_meaning; SourceLevel.c_style_conversions
  convert_to_i64_exact_toward_zero           SourceLevel2.convert_to_i64_exact_toward_zero_spec, convert_all, conv_meaning; SourceLevel.c_style_conversions
  convert_to_i64_exact_ties_to_even          SourceLevel2.convert_to_i64_exact_ties_to_even_spec, convert_all, conv_meaning; SourceLevel.c_style_conversions
  convert_to_i64_exact_ties_to_away          SourceLevel2.convert_to_i64_exact_ties_to_away_spec, convert_all, conv_meaning; SourceLevel.c_style_conversions
  convert_to_u32_toward_positive             SourceLevel2.convert_to_u32_toward_positive_spec, convert_all, conv_meaning
  convert_to_u32_toward_negative             SourceLevel2.convert_to_u32_toward_negative_spec, convert_all, conv_meaning
  convert_to_u32_toward_zero                 SourceLevel2.convert_to_u32_toward_zero_spec, convert_all, conv_meaning
  convert_to_u32_ties_to_even                SourceLevel2.convert_to_u32_ties_to_even_spec, convert_all, conv_meaning
  convert_to_u32_ties_to_away                SourceLevel2.convert_to_u32_ties_to_away_spec, convert_all, conv_meaning
  convert_to_u32_exact_toward_positive       SourceLevel2.convert_to_u32_exact_toward_positive_spec, convert_all, conv_meaning
  convert_to_u32_exact_toward_negative       SourceLevel2.convert_to_u32_exact_toward_negative_spec, convert_all, conv_meaning
  convert_to_u32_exact_toward_zero           SourceLevel2.convert_to_u32_exact_toward_zero_spec, convert_all, conv_meaning
  convert_to_u32_exact_ties_to_even          SourceLevel2.convert_to_u32_exact_ties_to_even_spec, convert_all, conv_meaning
  convert_to_u32_exact_ties_to_away          SourceLevel2.convert_to_u32_exact_ties_to_away_spec, convert_all, conv_meaning
  convert_to_u64_toward_positive             SourceLevel2.convert_to_u64_toward_positive_spec, convert_all, conv_meaning
  convert_to_u64_toward_negative             SourceLevel2.convert_to_u64_toward_negative_spec, convert_all, conv_meaning
  convert_to_u64_toward_zero                 SourceLevel2.convert_to_u64_toward_zero_spec, convert_all, conv_meaning
  convert_to_u64_ties_to_even                SourceLevel2.convert_to_u64_ties_to_even_spec, convert_all, conv_meaning
  convert_to_u64_ties_to_away                SourceLevel2.convert_to_u64_ties_to_away_spec, convert_all, conv_meaning
  convert_to_u64_exact_toward_positive       SourceLevel2.convert_to_u64_exact_toward_positive_spec, convert_all, conv_meaning
  convert_to_u64_exact_toward_negative       SourceLevel2.convert_to_u64_exact_toward_negative_spec, convert_all, conv_meaning
  convert_to_u64_exact_toward_zero           SourceLevel2.convert_to_u64_exact_toward_zero_spec, convert_all, conv_meaning
  convert_to_u64_exact_ties_to_even          SourceLevel2.convert_to_u64_exact_ties_to_even_spec, convert_all, conv_meaning
  convert_to_u64_exact_ties_to_away          SourceLevel2.convert_to_u64_exact_ties_to_away_spec, convert_all, conv_meaning
  addition                                   SourceLevel4.addition_closed, addition_property_closed  [unconditional outside `AddOpen`]; addition_of_LoopRest, addition_property_of_LoopRest  [`LoopRestRounding`: all operands]; NaN: SourceLevel.binary_nan
  division                                   SourceLevel4.division_spec; C01GenDivClosed.api_division, quotient_property; C01GenDivFinal.exact_property, div_by_zero_property, invalid_property, inf_property, zero_property, nan_property; NaN: SourceLevel.binary_nan
  multiplication                             SourceLevel4.multiplication_spec, multiplication_property, multiplication_zero_property, multiplication_agrees_with_fma; C02GenFmaAssembly3.api_multiplication, product_property; NaN: SourceLevel.binary_nan
  remainder                                  C10GenFmodRem.api_remainder, remainder_property, invalid_property, yinf_property, far_property, rem_accepted; NaN: SourceLevel.binary_nan
  subtraction                                SourceLevel4.subtraction_closed, subtraction_property_closed  [unconditional outside `AddOpen` of (x, −y)]; subtraction_of_LoopRest, subtraction_property_of_LoopRest  [`LoopRestRounding`]; NaN: SourceLevel.binary_nan
  compare_quiet_equal                        SourceLevel.compare_quiet_equal_spec, compare_exactly_one, compare_by_value, compare_nan_operand
  compare_quiet_greater                      SourceLevel.compare_quiet_greater_spec, compare_exactly_one, compare_by_value, compare_nan_operand
  compare_quiet_unordered                    SourceLevel.compare_quiet_unordered_spec, compare_exactly_one, compare_nan_operand
  compare_quiet_ordered                      SourceLevel.compare_quiet_ordered_spec
  compare_quiet_greater_equal                SourceLevel.compare_quiet_greater_equal_spec, compare_by_value
  compare_quiet_greater_unordered            SourceLevel.compare_quiet_greater_unordered_spec
  compare_quiet_less                         SourceLevel.compare_quiet_less_spec, compare_exactly_one, compare_by_value, compare_nan_operand
  compare_quiet_less_equal                   SourceLevel.compare_quiet_less_equal_spec, compare_by_value
  compare_quiet_less_unordered               SourceLevel.compare_quiet_less_unordered_spec
  compare_quiet_not_equal                    SourceLevel.compare_quiet_not_equal_spec, compare_by_value, compare_nan_operand
  compare_quiet_not_greater                  SourceLevel.compare_quiet_not_greater_spec
  compare_quiet_not_less                     SourceLevel.compare_quiet_not_less_spec
  compare_signaling_greater                  SourceLevel.compare_signaling_greater_spec, compare_by_value
  compare_signaling_greater_equal            SourceLevel.compare_signaling_greater_equal_spec
  compare_signaling_greater_unordered        SourceLevel.compare_signaling_greater_unordered_spec
  compare_signaling_less                     SourceLevel.compare_signaling_less_spec, compare_by_value
  compare_signaling_less_equal               SourceLevel.compare_signaling_less_equal_spec
  compare_signaling_less_unordered           SourceLevel.compare_signaling_less_unordered_spec
  compare_signaling_not_greater              SourceLevel.compare_signaling_not_greater_spec
  compare_signaling_not_less                 SourceLevel.compare_signaling_not_less_spec
  round_to_integral_exact                    SourceLevel3.round_to_integral_exact_spec (+ ri_meaning, ri_result); NaN: SourceLevel.unary_nan
  round_to_integral_ties_to_away             SourceLevel3.round_to_integral_ties_to_away_spec (+ ri_meaning, ri_result); NaN: SourceLevel.unary_nan
  round_to_integral_ties_to_even             SourceLevel3.round_to_integral_ties_to_even_spec (+ ri_meaning, ri_result); NaN: SourceLevel.unary_nan
  round_to_integral_ties_toward_negative     SourceLevel3.round_to_integral_ties_toward_negative_spec (+ ri_meaning, ri_result); NaN: SourceLevel.unary_nan
  round_to_integral_ties_toward_positive     SourceLevel3.round_to_integral_ties_toward_positive_spec (+ ri_meaning, ri_result); NaN: SourceLevel.unary_nan
  round_to_integral_ties_toward_zero         SourceLevel3.round_to_integral_ties_toward_zero_spec (+ ri_meaning, ri_result); NaN: SourceLevel.unary_nan
  eq                                         SourceLevel.eq_spec, eq_refl, eq_symm, eq_trans, eq_by_value, eq_nan, partial_cmp_agrees, hash_eq_iff_eq
  lt                                         SourceLevel.lt_spec, partial_cmp_agrees, lt_trans
  le                                         SourceLevel.le_spec, le_trans
  gt                                         SourceLevel.gt_spec, partial_cmp_agrees
  ge                                         SourceLevel.ge_spec
  partial_cmp                                SourceLevel.partial_cmp_spec, partial_cmp_agrees, partial_cmp_swap
  ne                                         SourceLevel.ne_spec
  hash                                       SourceLevel.hash_eq_iff_eq

  REMAINING HYPOTHESES: only `C01GenAddRound.LoopRestRounding` (`addition`, `subtraction`, `fdim` on `AddOpen`: two non-zero
  numbers in the rounding loop of `bid128_add` whose padded first coefficient plus the rounded second one reaches 35 digits, or
  minus it falls to 10^33 or below).  Every other method is proved about the source for all inputs.  `Z0Spec` is discharged.
-/
namespace Dec.SourceLevel4
open Dec.Rs Dec.Gen.Code Dec.Gen.Api Dec
open Dec.C06GenFromInt (ofBits bitsOf_ofBits)
open Dec.C12GenNaN
open Dec.C02GenFmaAssembly (FmaOK MulOK)
open Dec.C02GenFmaAssembly2 (Z0Spec FmaRemaining2)
open Dec.C01GenAddRound (LoopRestRounding LoopRegion Loop1Region)

abbrev bitsOf (x : U128) : Nat := Dec.C06GenFromInt.bitsOf x
abbrev dOf (x : U128) : Datum := decode (bitsOf x)
abbrev md := Dec.C13GenPack.md

theorem result_datum {d : Datum} (w : d.WF) : dOf (ofBits (encode d)) = d ∧ isCanonical (bitsOf (ofBits (encode d))) = true :=
  Dec.SourceLevel3.result_datum w

theorem md_modeOf (m : RoundingMode) : Dec.C02GenCorrection.modeOf m = md m := by cases m <;> rfl

/-! ## 1. `fused_multiply_add` (C02) -/

/-- what the specification prescribes for `fused_multiply_add`: the NaN rule (the NaN of `y`, else of `z`, else of `x`;
invalid iff some operand is signalling) for a NaN operand, else the canonical encoding of `fmaD`'s datum and `fmaD`'s flags
OR-ed into the status word -/
def fmaSpec (mode : Mode) (x y z : U128) (f : UInt32) : U128 × UInt32 :=
  if ((dOf x).isNaN || (dOf y).isNaN || (dOf z).isNaN) = true then (fmaPick x y z, nanFlags f [dOf x, dOf y, dOf z])
  else (ofBits (encode (fmaD mode false (dOf x) (dOf y) (dOf z)).1), f ||| UInt32.ofNat (fmaD mode false (dOf x) (dOf y) (dOf z)).2)

/-- the routine from a proof of `FmaOK` on the operands that are not NaNs -/
theorem fma_routine_of (x y z : U128) (m : RoundingMode) (f : UInt32)
    (h : (dOf x).isNaN = false → (dOf y).isNaN = false → (dOf z).isNaN = false → FmaOK x y z m f) :
    bid128_fma x y z m f = .ok (fmaSpec (md m) x y z f) := by
  unfold fmaSpec
  by_cases hn : ((dOf x).isNaN || (dOf y).isNaN || (dOf z).isNaN) = true
  · rw [if_pos hn]; exact fma_nan x y z m f hn
  · rw [if_neg hn]
    simp only [Bool.or_eq_true, not_or, Bool.not_eq_true] at hn
    have := h hn.1.1 hn.1.2 hn.2
    unfold FmaOK at this
    rw [this, md_modeOf]

theorem run_fma_of (x y z : U128) (m : RoundingMode) (f : UInt32)
    (h : bid128_fma x y z m f = .ok (fmaSpec (md m) x y z f)) :
    run "fused_multiply_add" m f [.d x, .d y, .d z]
      = some (.ok ([.d (fmaSpec (md m) x y z f).1], (fmaSpec (md m) x y z f).2)) := by
  show some ((bid128_fma x y z m f).map _) = _
  rw [h]
  generalize fmaSpec (md m) x y z f = p
  cases p; rfl

/-- **C02, `fused_multiply_add`, unconditional part**: every triple of patterns (NaNs, infinities, zeros, non-canonical
patterns included), every mode and status word EXCEPT two numbers with a non-zero product and a zero addend
(`FmaRemaining2`: the `z = 0` path): the method returns normally what the specification prescribes -/
theorem fused_multiply_add_partial (m : RoundingMode) (f : UInt32) (x y z : U128) (h : ¬ FmaRemaining2 x y z) :
    run "fused_multiply_add" m f [.d x, .d y, .d z]
      = some (.ok ([.d (fmaSpec (md m) x y z f).1], (fmaSpec (md m) x y z f).2)) :=
  run_fma_of x y z m f (fma_routine_of x y z m f fun hx hy hz =>
    Dec.C02GenFmaAssembly2.bid128_fma_spec_partial3 x y z m f hx hy hz h)

/-- **C02, `fused_multiply_add`, ALL operands** — relative to the one open statement `C02GenFmaAssembly2.Z0Spec` (the `z = 0`
path `z0K` returns `fmaD`); closes by one application when `z0Spec` lands -/
theorem fused_multiply_add_of_Z0Spec (hb : Z0Spec) (m : RoundingMode) (f : UInt32) (x y z : U128) :
    run "fused_multiply_add" m f [.d x, .d y, .d z]
      = some (.ok ([.d (fmaSpec (md m) x y z f).1], (fmaSpec (md m) x y z f).2)) :=
  run_fma_of x y z m f (fma_routine_of x y z m f fun hx hy hz =>
    Dec.C02GenFmaAssembly2.bid128_fma_spec_partial2 hb x y z m f hx hy hz)


theorem fmaSpec_fin (mode : Mode) (x y z : U128) (f : UInt32) {s1 s2 s3 : Bool} {c1 c2 c3 : Nat} {e1 e2 e3 : Int}
    (hx : dOf x = .fin s1 c1 e1) (hy : dOf y = .fin s2 c2 e2) (hz : dOf z = .fin s3 c3 e3) :
    fmaSpec mode x y z f = (ofBits (encode (fmaD mode false (.fin s1 c1 e1) (.fin s2 c2 e2) (.fin s3 c3 e3)).1),
      f ||| UInt32.ofNat (fmaD mode false (.fin s1 c1 e1) (.fin s2 c2 e2) (.fin s3 c3 e3)).2) := by
  unfold fmaSpec
  rw [if_neg (by rw [hx, hy, hz]; exact fun h => Bool.noConfusion h), hx, hy, hz]

/-- the C02 sentence from the all-input statement (used below with the two ways of obtaining it) -/
theorem fma_property_of (m : RoundingMode) (f : UInt32) (x y z : U128) (s1 s2 s3 : Bool) (c1 c2 c3 : Nat) (e1 e2 e3 : Int)
    (hx : dOf x = .fin s1 c1 e1) (hy : dOf y = .fin s2 c2 e2) (hz : dOf z = .fin s3 c3 e3)
    (hspec : run "fused_multiply_add" m f [.d x, .d y, .d z]
      = some (.ok ([.d (fmaSpec (md m) x y z f).1], (fmaSpec (md m) x y z f).2))) :
    ∃ r g, run "fused_multiply_add" m f [.d x, .d y, .d z] = some (.ok ([.d r], g)) ∧ isCanonical (bitsOf r) = true ∧
      (fval s1 c1 e1 * fval s2 c2 e2 + fval s3 c3 e3 = 0 →
        dOf r = zeroAt (zeroSumSign (md m) (s1 != s2) s3) (min (e1 + e2) e3) ∧ g = f) ∧
      (fval s1 c1 e1 * fval s2 c2 e2 + fval s3 c3 e3 ≠ 0 → ∃ out : Datum × Flags,
        FinishSpecStrict (md m) (decide (fval s1 c1 e1 * fval s2 c2 e2 + fval s3 c3 e3 < 0))
          |fval s1 c1 e1 * fval s2 c2 e2 + fval s3 c3 e3| (min (e1 + e2) e3) out ∧
        dOf r = out.1 ∧ g = f ||| UInt32.ofNat out.2) := by
  have hb := fmaSpec_fin (md m) x y z f hx hy hz
  have hw : (fmaD (md m) false (.fin s1 c1 e1) (.fin s2 c2 e2) (.fin s3 c3 e3)).1.WF :=
    Dec.C01GenAddLoop.addFin_WF _ _ _ _ _ _ _ _
  obtain ⟨hd, hc⟩ := result_datum hw
  refine ⟨_, _, hspec, by rw [hb]; exact hc, ?_, ?_⟩
  · intro hV
    have := (Dec.C02Q.fma_correct (md m) s1 c1 e1 s2 c2 e2 s3 c3 e3).1 hV
    rw [hb]
    show dOf (ofBits (encode (fmaD (md m) false _ _ _).1)) = _ ∧ f ||| UInt32.ofNat (fmaD (md m) false _ _ _).2 = f
    rw [hd, this]
    exact ⟨rfl, UInt32.or_zero⟩
  · intro hV
    refine ⟨_, Dec.C02Q.fma_correct_strict (md m) s1 c1 e1 s2 c2 e2 s3 c3 e3 hV, ?_, ?_⟩
    · rw [hb]; exact hd
    · rw [hb]

/-- C02: "fused multiply-add returns without panicking the bit-exact IEEE 754-2008 result of rounding the infinitely precise
x*y+z a single time …, with the preferred exponent min(ex+ey, ez) for exact results, the standard's zero-sign … rules, and
exactly the standard's inexact/overflow/underflow/invalid flags."  Finite `x y z` (any patterns) with exact `V = x·y + z`,
outside the open case (non-zero product, zero addend): the method returns a canonical pattern; `V = 0`: the zero at
`min (e₁+e₂, e₃)` (clamped) with the IEEE sign (`zeroSumSign`) and no flag; `V ≠ 0`: THE strict correct delivery of `V`
(`FinishSpecStrict`: `V` itself at the cohort exponent closest to `min (e₁+e₂, e₃)` without a flag, else ONE rounding in the
mode at the least exponent, inexact, underflow iff tiny, or the mode's overflow result), datum and flags. -/
theorem fused_multiply_add_property_partial (m : RoundingMode) (f : UInt32) (x y z : U128) (s1 s2 s3 : Bool)
    (c1 c2 c3 : Nat) (e1 e2 e3 : Int) (hx : dOf x = .fin s1 c1 e1) (hy : dOf y = .fin s2 c2 e2) (hz : dOf z = .fin s3 c3 e3)
    (h : c1 * c2 = 0 ∨ c3 ≠ 0) :
    ∃ r g, run "fused_multiply_add" m f [.d x, .d y, .d z] = some (.ok ([.d r], g)) ∧ isCanonical (bitsOf r) = true ∧
      (fval s1 c1 e1 * fval s2 c2 e2 + fval s3 c3 e3 = 0 →
        dOf r = zeroAt (zeroSumSign (md m) (s1 != s2) s3) (min (e1 + e2) e3) ∧ g = f) ∧
      (fval s1 c1 e1 * fval s2 c2 e2 + fval s3 c3 e3 ≠ 0 → ∃ out : Datum × Flags,
        FinishSpecStrict (md m) (decide (fval s1 c1 e1 * fval s2 c2 e2 + fval s3 c3 e3 < 0))
          |fval s1 c1 e1 * fval s2 c2 e2 + fval s3 c3 e3| (min (e1 + e2) e3) out ∧
        dOf r = out.1 ∧ g = f ||| UInt32.ofNat out.2) :=
  fma_property_of m f x y z s1 s2 s3 c1 c2 c3 e1 e2 e3 hx hy hz (fused_multiply_add_partial m f x y z (by
    rintro ⟨t1, d1, g1, t2, d2, g2, t3, g3, ax, ay, az, hne⟩
    have ex : dOf x = Dec.C01GenMul.dOf x := rfl
    rw [← ex, hx] at ax
    have ey : dOf y = Dec.C01GenMul.dOf y := rfl
    rw [← ey, hy] at ay
    have ez : dOf z = Dec.C01GenMul.dOf z := rfl
    rw [← ez, hz] at az
    injection ax with _ a1 _; injection ay with _ a2 _; injection az with _ a3 _
    subst a1 a2 a3
    rcases h with h | h
    · exact hne h
    · exact h rfl))

/-- … and for ALL finite operands relative to `Z0Spec` -/
theorem fused_multiply_add_property_of_Z0Spec (hb : Z0Spec) (m : RoundingMode) (f : UInt32) (x y z : U128) (s1 s2 s3 : Bool)
    (c1 c2 c3 : Nat) (e1 e2 e3 : Int) (hx : dOf x = .fin s1 c1 e1) (hy : dOf y = .fin s2 c2 e2) (hz : dOf z = .fin s3 c3 e3) :
    ∃ r g, run "fused_multiply_add" m f [.d x, .d y, .d z] = some (.ok ([.d r], g)) ∧ isCanonical (bitsOf r) = true ∧
      (fval s1 c1 e1 * fval s2 c2 e2 + fval s3 c3 e3 = 0 →
        dOf r = zeroAt (zeroSumSign (md m) (s1 != s2) s3) (min (e1 + e2) e3) ∧ g = f) ∧
      (fval s1 c1 e1 * fval s2 c2 e2 + fval s3 c3 e3 ≠ 0 → ∃ out : Datum × Flags,
        FinishSpecStrict (md m) (decide (fval s1 c1 e1 * fval s2 c2 e2 + fval s3 c3 e3 < 0))
          |fval s1 c1 e1 * fval s2 c2 e2 + fval s3 c3 e3| (min (e1 + e2) e3) out ∧
        dOf r = out.1 ∧ g = f ||| UInt32.ofNat out.2) :=
  fma_property_of m f x y z s1 s2 s3 c1 c2 c3 e1 e2 e3 hx hy hz (fused_multiply_add_of_Z0Spec hb m f x y z)

/-- C02: "the standard's … special-value rules (0*Inf invalid, Inf-Inf invalid)" and the NaN rule — unconditional: a NaN
operand: the NaN rule (`y`'s NaN first, then `z`'s, then `x`'s; invalid iff some operand is signalling); no NaN and an
infinite operand: `fmaD` — `∞·0` and `∞ + (−∞)` give the default NaN with invalid (`C02.fma_invalid`), otherwise the
infinity of the product or of the addend with no flag -/
theorem fused_multiply_add_specials (m : RoundingMode) (f : UInt32) (x y z : U128) :
    (((dOf x).isNaN || (dOf y).isNaN || (dOf z).isNaN) = true →
      run "fused_multiply_add" m f [.d x, .d y, .d z]
        = some (.ok ([.d (fmaPick x y z)], nanFlags f [dOf x, dOf y, dOf z]))) ∧
    (((dOf x).isNaN || (dOf y).isNaN || (dOf z).isNaN) = false → ((dOf x).isInf || (dOf y).isInf || (dOf z).isInf) = true →
      run "fused_multiply_add" m f [.d x, .d y, .d z]
        = some (.ok ([.d (ofBits (encode (fmaD (md m) false (dOf x) (dOf y) (dOf z)).1))],
            f ||| UInt32.ofNat (fmaD (md m) false (dOf x) (dOf y) (dOf z)).2))) := by
  have hrem : ((dOf x).isInf || (dOf y).isInf || (dOf z).isInf) = true → ¬ FmaRemaining2 x y z := by
    rintro hi ⟨t1, d1, g1, t2, d2, g2, t3, g3, ax, ay, az, -⟩
    have ex : dOf x = Dec.C01GenMul.dOf x := rfl
    have ey : dOf y = Dec.C01GenMul.dOf y := rfl
    have ez : dOf z = Dec.C01GenMul.dOf z := rfl
    rw [ex, ey, ez, ax, ay, az] at hi
    exact Bool.noConfusion hi
  constructor
  · intro hn
    rw [fused_multiply_add_partial m f x y z (fun ⟨t1, d1, g1, t2, d2, g2, t3, g3, ax, ay, az, _⟩ => by
      have ex : dOf x = Dec.C01GenMul.dOf x := rfl
      have ey : dOf y = Dec.C01GenMul.dOf y := rfl
      have ez : dOf z = Dec.C01GenMul.dOf z := rfl
      rw [ex, ey, ez, ax, ay, az] at hn
      exact Bool.noConfusion hn)]
    unfold fmaSpec; rw [if_pos hn]
  · intro hn hi
    rw [fused_multiply_add_partial m f x y z (hrem hi)]
    unfold fmaSpec; rw [if_neg (by rw [hn]; exact Bool.false_ne_true)]


/-! ## 2. `multiplication` (C01) -/

open Dec.C01GenAddLoop (binSpec)

/-- the routine from a proof of `MulOK` on the operands that are not NaNs -/
theorem mul_routine_of (x y : U128) (m : RoundingMode) (f : UInt32)
    (h : (dOf x).isNaN = false → (dOf y).isNaN = false → MulOK x y m f) :
    bid128_mul x y m f = .ok (binSpec (mulD (md m)) x y f) := by
  unfold binSpec
  by_cases hn : ((dOf x).isNaN || (dOf y).isNaN) = true
  · rw [if_pos hn]; exact mul_nan x y m f hn
  · rw [if_neg hn]
    simp only [Bool.or_eq_true, not_or, Bool.not_eq_true] at hn
    have := h hn.1 hn.2
    unfold MulOK at this
    rw [this, md_modeOf]

theorem run_mul_of (x y : U128) (m : RoundingMode) (f : UInt32)
    (h : bid128_mul x y m f = .ok (binSpec (mulD (md m)) x y f)) :
    run "multiplication" m f [.d x, .d y]
      = some (.ok ([.d (binSpec (mulD (md m)) x y f).1], (binSpec (mulD (md m)) x y f).2)) := by
  show some ((bid128_mul x y m f).map _) = _
  rw [h]
  generalize binSpec (mulD (md m)) x y f = p
  cases p; rfl

/-- **C01, `multiplication`, unconditional part**: NaN operands (NaN rule), an infinite operand (`∞·0` invalid) and a zero
factor of every kind (canonical or not) — everything except two numbers with a non-zero product -/
theorem multiplication_partial (m : RoundingMode) (f : UInt32) (x y : U128)
    (h : ¬ ∃ s1 c1 e1 s2 c2 e2, dOf x = .fin s1 c1 e1 ∧ dOf y = .fin s2 c2 e2 ∧ c1 * c2 ≠ 0) :
    run "multiplication" m f [.d x, .d y]
      = some (.ok ([.d (binSpec (mulD (md m)) x y f).1], (binSpec (mulD (md m)) x y f).2)) :=
  run_mul_of x y m f (mul_routine_of x y m f fun hx hy => Dec.C02GenFmaAssembly.bid128_mul_spec_partial x y m f hx hy h)

/-- **C01, `multiplication`, ALL operands** — relative to `C02GenFmaAssembly2.Z0Spec` (a non-zero product is
`fused_multiply_add (y, x, +0E+6111)`, the `z = 0` path) -/
theorem multiplication_of_Z0Spec (hb : Z0Spec) (m : RoundingMode) (f : UInt32) (x y : U128) :
    run "multiplication" m f [.d x, .d y]
      = some (.ok ([.d (binSpec (mulD (md m)) x y f).1], (binSpec (mulD (md m)) x y f).2)) :=
  run_mul_of x y m f (mul_routine_of x y m f fun hx hy => Dec.C02GenFmaAssembly2.bid128_mul_spec_of hb x y m f hx hy)

theorem binSpec_fin (D : Datum → Datum → Datum × Flags) (x y : U128) (f : UInt32) {s1 s2 : Bool} {c1 c2 : Nat} {e1 e2 : Int}
    (hx : dOf x = .fin s1 c1 e1) (hy : dOf y = .fin s2 c2 e2) :
    binSpec D x y f = (ofBits (encode (D (.fin s1 c1 e1) (.fin s2 c2 e2)).1),
      f ||| UInt32.ofNat (D (.fin s1 c1 e1) (.fin s2 c2 e2)).2) := by
  unfold binSpec
  rw [show Dec.C01GenAddLoop.dOf x = dOf x from rfl, show Dec.C01GenAddLoop.dOf y = dOf y from rfl,
    if_neg (by rw [hx, hy]; exact fun h => Bool.noConfusion h), hx, hy]

theorem mulD_WF (mode : Mode) (s1 s2 : Bool) (c1 c2 : Nat) (e1 e2 : Int) :
    (mulD mode (.fin s1 c1 e1) (.fin s2 c2 e2)).1.WF := by
  show (if c1 * c2 = 0 then (zeroAt (s1 != s2) (e1 + e2), 0)
    else finish mode (s1 != s2) (c1 * c2) 1 (e1 + e2) (e1 + e2)).1.WF
  by_cases h : c1 * c2 = 0
  · rw [if_pos h]; exact Dec.C01GenAddLoop.zeroAt_WF _ _
  · rw [if_neg h]; exact finish_wf _ _ _ _ _ _ (Nat.pos_of_ne_zero h) (by decide)

/-- the C01 sentence for multiplication from the all-input statement -/
theorem mul_property_of (m : RoundingMode) (f : UInt32) (x y : U128) (s1 s2 : Bool) (c1 c2 : Nat) (e1 e2 : Int)
    (hx : dOf x = .fin s1 c1 e1) (hy : dOf y = .fin s2 c2 e2)
    (hspec : run "multiplication" m f [.d x, .d y]
      = some (.ok ([.d (binSpec (mulD (md m)) x y f).1], (binSpec (mulD (md m)) x y f).2))) :
    ∃ r g, run "multiplication" m f [.d x, .d y] = some (.ok ([.d r], g)) ∧ isCanonical (bitsOf r) = true ∧
      (fval s1 c1 e1 * fval s2 c2 e2 = 0 → dOf r = zeroAt (s1 != s2) (e1 + e2) ∧ g = f) ∧
      (fval s1 c1 e1 * fval s2 c2 e2 ≠ 0 → decide (fval s1 c1 e1 * fval s2 c2 e2 < 0) = (s1 != s2) ∧
        ∃ out : Datum × Flags,
          FinishSpecStrict (md m) (s1 != s2) |fval s1 c1 e1 * fval s2 c2 e2| (e1 + e2) out ∧
          dOf r = out.1 ∧ g = f ||| UInt32.ofNat out.2) := by
  have hb := binSpec_fin (mulD (md m)) x y f hx hy
  obtain ⟨hd, hc⟩ := result_datum (mulD_WF (md m) s1 s2 c1 c2 e1 e2)
  refine ⟨_, _, hspec, by rw [hb]; exact hc, ?_, ?_⟩
  · intro hV
    have := (Dec.C01Q.mul_correct (md m) s1 c1 e1 s2 c2 e2).1 hV
    rw [hb]
    show dOf (ofBits (encode (mulD (md m) _ _).1)) = _ ∧ f ||| UInt32.ofNat (mulD (md m) _ _).2 = f
    rw [hd, this]
    exact ⟨rfl, UInt32.or_zero⟩
  · intro hV
    obtain ⟨hs, hF⟩ := Dec.C01Strict.mul_correct_strict (md m) s1 c1 e1 s2 c2 e2 hV
    rw [hs] at hF
    refine ⟨hs, _, hF, ?_, ?_⟩
    · rw [hb]; exact hd
    · rw [hb]

/-- C01, multiplication: "return[s], bit for bit, the IEEE 754-2008 decimal128 result: the exact mathematical value rounded once
in the requested direction, encoded with the preferred quantum exponent (exact results) or the least possible exponent
(inexact results), with the standard's sign-of-zero, overflow …, gradual-underflow and exponent-clamping rules", flags exactly as
prescribed — UNCONDITIONAL for a zero product: the zero with the XOR of the signs at `e₁ + e₂` (clamped), no flag -/
theorem multiplication_zero_property (m : RoundingMode) (f : UInt32) (x y : U128) (s1 s2 : Bool) (c1 c2 : Nat) (e1 e2 : Int)
    (hx : dOf x = .fin s1 c1 e1) (hy : dOf y = .fin s2 c2 e2) (h : c1 * c2 = 0) :
    ∃ r, run "multiplication" m f [.d x, .d y] = some (.ok ([.d r], f)) ∧ isCanonical (bitsOf r) = true ∧
      dOf r = zeroAt (s1 != s2) (e1 + e2) := by
  have hspec := multiplication_partial m f x y (by
    rintro ⟨t1, d1, g1, t2, d2, g2, ax, ay, hne⟩
    rw [hx] at ax; rw [hy] at ay
    injection ax with _ a1 _; injection ay with _ a2 _
    subst a1 a2
    exact hne h)
  obtain ⟨r, g, h1, h2, h3, -⟩ := mul_property_of m f x y s1 s2 c1 c2 e1 e2 hx hy hspec
  have hV : fval s1 c1 e1 * fval s2 c2 e2 = 0 := by
    rw [mul_eq_zero, fval_eq_zero_iff, fval_eq_zero_iff]
    exact Nat.mul_eq_zero.mp h
  obtain ⟨a, b⟩ := h3 hV
  exact ⟨r, by rw [h1, b], h2, a⟩

/-- … and for ALL finite operands relative to `Z0Spec`: a non-zero product `V` has the sign `s₁ xor s₂` and is THE strict
correct delivery of `|V|` with preferred exponent `e₁ + e₂` (`FinishSpecStrict`), datum and flags -/
theorem multiplication_property_of_Z0Spec (hb : Z0Spec) (m : RoundingMode) (f : UInt32) (x y : U128) (s1 s2 : Bool)
    (c1 c2 : Nat) (e1 e2 : Int) (hx : dOf x = .fin s1 c1 e1) (hy : dOf y = .fin s2 c2 e2) :
    ∃ r g, run "multiplication" m f [.d x, .d y] = some (.ok ([.d r], g)) ∧ isCanonical (bitsOf r) = true ∧
      (fval s1 c1 e1 * fval s2 c2 e2 = 0 → dOf r = zeroAt (s1 != s2) (e1 + e2) ∧ g = f) ∧
      (fval s1 c1 e1 * fval s2 c2 e2 ≠ 0 → decide (fval s1 c1 e1 * fval s2 c2 e2 < 0) = (s1 != s2) ∧
        ∃ out : Datum × Flags,
          FinishSpecStrict (md m) (s1 != s2) |fval s1 c1 e1 * fval s2 c2 e2| (e1 + e2) out ∧
          dOf r = out.1 ∧ g = f ||| UInt32.ofNat out.2) :=
  mul_property_of m f x y s1 s2 c1 c2 e1 e2 hx hy (multiplication_of_Z0Spec hb m f x y)


/-! ## 3. `addition`, `subtraction`, `fdim` (C01) — closed except for the rest of the rounding loop -/

open Dec.C01GenAddLoop (negY)

/-- the pairs on which `bid128_add` is still open: the code enters the rounding loop (`LoopRegion`) and the padded first
coefficient plus / minus the rounded second one leaves the 34-digit window (not `Loop1Region`: a second rounding or a second
turn of the loop) -/
def AddOpen (dx dy : Datum) : Prop := LoopRegion dx dy ∧ ¬ Loop1Region dx dy

theorem run_add_of (x y : U128) (m : RoundingMode) (f : UInt32)
    (h : bid128_add x y m f = .ok (binSpec (addD (md m)) x y f)) :
    run "addition" m f [.d x, .d y]
      = some (.ok ([.d (binSpec (addD (md m)) x y f).1], (binSpec (addD (md m)) x y f).2)) := by
  show some ((bid128_add x y m f).map _) = _
  rw [h]
  generalize binSpec (addD (md m)) x y f = p
  cases p; rfl

/-- `bid128_sub` from `bid128_add` on `(x, −y)` (a NaN subtrahend is passed unchanged) -/
theorem sub_routine_of (x y : U128) (m : RoundingMode) (f : UInt32)
    (hadd : bid128_add x (negY y) m f = .ok (binSpec (addD (md m)) x (negY y) f)) :
    bid128_sub x y m f = .ok (binSpec (subD (md m)) x y f) := by
  unfold binSpec
  by_cases hn : ((Dec.C01GenAddLoop.dOf x).isNaN || (Dec.C01GenAddLoop.dOf y).isNaN) = true
  · rw [if_pos hn]; exact sub_nan x y m f hn
  · rw [if_neg hn]
    simp only [Bool.or_eq_true, not_or, Bool.not_eq_true] at hn
    have hd := Dec.C01GenAddLoop.dOf_negY y hn.2
    rw [Dec.C06GenFromInt.sub_eq, show (if (decode (Dec.C06GenFromInt.bitsOf y)).isNaN = true then y
      else ofBits ((Dec.C06GenFromInt.bitsOf y + 2^127) % 2^128)) = negY y from rfl, hadd]
    unfold binSpec
    rw [hd, if_neg (by rw [Dec.C01GenAddLoop.negate_isNaN, hn.1, hn.2]; decide)]
    rfl

theorem run_sub_of (x y : U128) (m : RoundingMode) (f : UInt32)
    (h : bid128_sub x y m f = .ok (binSpec (subD (md m)) x y f)) :
    run "subtraction" m f [.d x, .d y]
      = some (.ok ([.d (binSpec (subD (md m)) x y f).1], (binSpec (subD (md m)) x y f).2)) := by
  show some ((bid128_sub x y m f).map _) = _
  rw [h]
  generalize binSpec (subD (md m)) x y f = p
  cases p; rfl

/-- **C01, `addition`, closed part**: every pair of patterns (NaNs, infinities, zeros, non-canonical patterns, and all pairs of
non-zero numbers except `AddOpen`), every mode and status word -/
theorem addition_closed (m : RoundingMode) (f : UInt32) (x y : U128) (h : ¬ AddOpen (dOf x) (dOf y)) :
    run "addition" m f [.d x, .d y]
      = some (.ok ([.d (binSpec (addD (md m)) x y f).1], (binSpec (addD (md m)) x y f).2)) :=
  run_add_of x y m f (Dec.C01GenAddRoundClosed.bid128_add_spec_closed' x y m f h)

/-- **C01, `addition`, ALL operands** — relative to the one open statement of C01, `C01GenAddRound.LoopRestRounding` -/
theorem addition_of_LoopRest (HR : LoopRestRounding) (m : RoundingMode) (f : UInt32) (x y : U128) :
    run "addition" m f [.d x, .d y]
      = some (.ok ([.d (binSpec (addD (md m)) x y f).1], (binSpec (addD (md m)) x y f).2)) :=
  run_add_of x y m f (Dec.C01GenAddRoundClosed.bid128_add_spec_partial2' HR x y m f)

/-- **C01, `subtraction`, closed part**: `x − y` is `x + (−y)`: closed whenever `(x, −y)` is not in `AddOpen` -/
theorem subtraction_closed (m : RoundingMode) (f : UInt32) (x y : U128) (h : ¬ AddOpen (dOf x) (dOf (negY y))) :
    run "subtraction" m f [.d x, .d y]
      = some (.ok ([.d (binSpec (subD (md m)) x y f).1], (binSpec (subD (md m)) x y f).2)) :=
  run_sub_of x y m f (sub_routine_of x y m f (Dec.C01GenAddRoundClosed.bid128_add_spec_closed' x (negY y) m f h))

/-- **C01, `subtraction`, ALL operands** — relative to `LoopRestRounding` -/
theorem subtraction_of_LoopRest (HR : LoopRestRounding) (m : RoundingMode) (f : UInt32) (x y : U128) :
    run "subtraction" m f [.d x, .d y]
      = some (.ok ([.d (binSpec (subD (md m)) x y f).1], (binSpec (subD (md m)) x y f).2)) :=
  run_sub_of x y m f (Dec.C01GenAddRoundClosed.bid128_sub_spec_partial2' HR x y m f)

/-- the C01 sentence for addition from the all-input statement -/
theorem add_property_of (m : RoundingMode) (f : UInt32) (x y : U128) (s1 s2 : Bool) (c1 c2 : Nat) (e1 e2 : Int)
    (hx : dOf x = .fin s1 c1 e1) (hy : dOf y = .fin s2 c2 e2)
    (hspec : run "addition" m f [.d x, .d y]
      = some (.ok ([.d (binSpec (addD (md m)) x y f).1], (binSpec (addD (md m)) x y f).2))) :
    ∃ r g, run "addition" m f [.d x, .d y] = some (.ok ([.d r], g)) ∧ isCanonical (bitsOf r) = true ∧
      (fval s1 c1 e1 + fval s2 c2 e2 = 0 → dOf r = zeroAt (zeroSumSign (md m) s1 s2) (min e1 e2) ∧ g = f) ∧
      (fval s1 c1 e1 + fval s2 c2 e2 ≠ 0 → ∃ out : Datum × Flags,
        FinishSpecStrict (md m) (decide (fval s1 c1 e1 + fval s2 c2 e2 < 0)) |fval s1 c1 e1 + fval s2 c2 e2| (min e1 e2) out ∧
        dOf r = out.1 ∧ g = f ||| UInt32.ofNat out.2) := by
  have hb := binSpec_fin (addD (md m)) x y f hx hy
  have hw : (addD (md m) (.fin s1 c1 e1) (.fin s2 c2 e2)).1.WF := Dec.C01GenAddLoop.addFin_WF _ _ _ _ _ _ _ _
  obtain ⟨hd, hc⟩ := result_datum hw
  refine ⟨_, _, hspec, by rw [hb]; exact hc, ?_, ?_⟩
  · intro hV
    have := (Dec.C01Q.add_correct (md m) s1 c1 e1 s2 c2 e2).1 hV
    rw [hb]
    show dOf (ofBits (encode (addD (md m) _ _).1)) = _ ∧ f ||| UInt32.ofNat (addD (md m) _ _).2 = f
    rw [hd, this]
    exact ⟨rfl, UInt32.or_zero⟩
  · intro hV
    exact ⟨_, Dec.C01Strict.add_correct_strict (md m) s1 c1 e1 s2 c2 e2 hV, by rw [hb]; exact hd, by rw [hb]⟩

/-- the C01 sentence for subtraction from the all-input statement -/
theorem sub_property_of (m : RoundingMode) (f : UInt32) (x y : U128) (s1 s2 : Bool) (c1 c2 : Nat) (e1 e2 : Int)
    (hx : dOf x = .fin s1 c1 e1) (hy : dOf y = .fin s2 c2 e2)
    (hspec : run "subtraction" m f [.d x, .d y]
      = some (.ok ([.d (binSpec (subD (md m)) x y f).1], (binSpec (subD (md m)) x y f).2))) :
    ∃ r g, run "subtraction" m f [.d x, .d y] = some (.ok ([.d r], g)) ∧ isCanonical (bitsOf r) = true ∧
      (fval s1 c1 e1 - fval s2 c2 e2 = 0 → dOf r = zeroAt (zeroSumSign (md m) s1 (!s2)) (min e1 e2) ∧ g = f) ∧
      (fval s1 c1 e1 - fval s2 c2 e2 ≠ 0 → ∃ out : Datum × Flags,
        FinishSpecStrict (md m) (decide (fval s1 c1 e1 - fval s2 c2 e2 < 0)) |fval s1 c1 e1 - fval s2 c2 e2| (min e1 e2) out ∧
        dOf r = out.1 ∧ g = f ||| UInt32.ofNat out.2) := by
  have hb := binSpec_fin (subD (md m)) x y f hx hy
  have hw : (subD (md m) (.fin s1 c1 e1) (.fin s2 c2 e2)).1.WF := Dec.C01GenAddLoop.addFin_WF _ _ _ _ _ _ _ _
  obtain ⟨hd, hc⟩ := result_datum hw
  refine ⟨_, _, hspec, by rw [hb]; exact hc, ?_, ?_⟩
  · intro hV
    have := (Dec.C01Q.sub_correct (md m) s1 c1 e1 s2 c2 e2).1 hV
    rw [hb]
    show dOf (ofBits (encode (subD (md m) _ _).1)) = _ ∧ f ||| UInt32.ofNat (subD (md m) _ _).2 = f
    rw [hd, this]
    exact ⟨rfl, UInt32.or_zero⟩
  · intro hV
    exact ⟨_, Dec.C01Strict.sub_correct_strict (md m) s1 c1 e1 s2 c2 e2 hV, by rw [hb]; exact hd, by rw [hb]⟩

/-- C01, addition: "the exact mathematical value rounded once in the requested direction, encoded with the preferred quantum
exponent (exact results) or the least possible exponent (inexact results), with the standard's sign-of-zero, overflow …,
gradual-underflow and exponent-clamping rules; the status bits newly raised are exactly inexact / overflow / underflow …" —
on the closed part: canonical result; exact sum zero: the zero at `min e₁ e₂` with the IEEE sign, no flag; otherwise THE strict
correct delivery (`FinishSpecStrict`) of the exact sum, datum and flags -/
theorem addition_property_closed (m : RoundingMode) (f : UInt32) (x y : U128) (s1 s2 : Bool) (c1 c2 : Nat) (e1 e2 : Int)
    (hx : dOf x = .fin s1 c1 e1) (hy : dOf y = .fin s2 c2 e2) (h : ¬ AddOpen (dOf x) (dOf y)) :
    ∃ r g, run "addition" m f [.d x, .d y] = some (.ok ([.d r], g)) ∧ isCanonical (bitsOf r) = true ∧
      (fval s1 c1 e1 + fval s2 c2 e2 = 0 → dOf r = zeroAt (zeroSumSign (md m) s1 s2) (min e1 e2) ∧ g = f) ∧
      (fval s1 c1 e1 + fval s2 c2 e2 ≠ 0 → ∃ out : Datum × Flags,
        FinishSpecStrict (md m) (decide (fval s1 c1 e1 + fval s2 c2 e2 < 0)) |fval s1 c1 e1 + fval s2 c2 e2| (min e1 e2) out ∧
        dOf r = out.1 ∧ g = f ||| UInt32.ofNat out.2) :=
  add_property_of m f x y s1 s2 c1 c2 e1 e2 hx hy (addition_closed m f x y h)

/-- … for ALL finite operands relative to `LoopRestRounding` -/
theorem addition_property_of_LoopRest (HR : LoopRestRounding) (m : RoundingMode) (f : UInt32) (x y : U128) (s1 s2 : Bool)
    (c1 c2 : Nat) (e1 e2 : Int) (hx : dOf x = .fin s1 c1 e1) (hy : dOf y = .fin s2 c2 e2) :
    ∃ r g, run "addition" m f [.d x, .d y] = some (.ok ([.d r], g)) ∧ isCanonical (bitsOf r) = true ∧
      (fval s1 c1 e1 + fval s2 c2 e2 = 0 → dOf r = zeroAt (zeroSumSign (md m) s1 s2) (min e1 e2) ∧ g = f) ∧
      (fval s1 c1 e1 + fval s2 c2 e2 ≠ 0 → ∃ out : Datum × Flags,
        FinishSpecStrict (md m) (decide (fval s1 c1 e1 + fval s2 c2 e2 < 0)) |fval s1 c1 e1 + fval s2 c2 e2| (min e1 e2) out ∧
        dOf r = out.1 ∧ g = f ||| UInt32.ofNat out.2) :=
  add_property_of m f x y s1 s2 c1 c2 e1 e2 hx hy (addition_of_LoopRest HR m f x y)

/-- C01, subtraction, closed part: as for addition, for the exact difference -/
theorem subtraction_property_closed (m : RoundingMode) (f : UInt32) (x y : U128) (s1 s2 : Bool) (c1 c2 : Nat) (e1 e2 : Int)
    (hx : dOf x = .fin s1 c1 e1) (hy : dOf y = .fin s2 c2 e2) (h : ¬ AddOpen (dOf x) (dOf (negY y))) :
    ∃ r g, run "subtraction" m f [.d x, .d y] = some (.ok ([.d r], g)) ∧ isCanonical (bitsOf r) = true ∧
      (fval s1 c1 e1 - fval s2 c2 e2 = 0 → dOf r = zeroAt (zeroSumSign (md m) s1 (!s2)) (min e1 e2) ∧ g = f) ∧
      (fval s1 c1 e1 - fval s2 c2 e2 ≠ 0 → ∃ out : Datum × Flags,
        FinishSpecStrict (md m) (decide (fval s1 c1 e1 - fval s2 c2 e2 < 0)) |fval s1 c1 e1 - fval s2 c2 e2| (min e1 e2) out ∧
        dOf r = out.1 ∧ g = f ||| UInt32.ofNat out.2) :=
  sub_property_of m f x y s1 s2 c1 c2 e1 e2 hx hy (subtraction_closed m f x y h)

/-- … for ALL finite operands relative to `LoopRestRounding` -/
theorem subtraction_property_of_LoopRest (HR : LoopRestRounding) (m : RoundingMode) (f : UInt32) (x y : U128) (s1 s2 : Bool)
    (c1 c2 : Nat) (e1 e2 : Int) (hx : dOf x = .fin s1 c1 e1) (hy : dOf y = .fin s2 c2 e2) :
    ∃ r g, run "subtraction" m f [.d x, .d y] = some (.ok ([.d r], g)) ∧ isCanonical (bitsOf r) = true ∧
      (fval s1 c1 e1 - fval s2 c2 e2 = 0 → dOf r = zeroAt (zeroSumSign (md m) s1 (!s2)) (min e1 e2) ∧ g = f) ∧
      (fval s1 c1 e1 - fval s2 c2 e2 ≠ 0 → ∃ out : Datum × Flags,
        FinishSpecStrict (md m) (decide (fval s1 c1 e1 - fval s2 c2 e2 < 0)) |fval s1 c1 e1 - fval s2 c2 e2| (min e1 e2) out ∧
        dOf r = out.1 ∧ g = f ||| UInt32.ofNat out.2) :=
  sub_property_of m f x y s1 s2 c1 c2 e1 e2 hx hy (subtraction_of_LoopRest HR m f x y)


/-- `bid128_fdim` from `bid128_sub` on the pairs with `x > y` (NaN operands: the NaN rule; `x ≤ y`: `+0E+0`) -/
theorem fdim_routine_of (x y : U128) (m : RoundingMode) (f : UInt32)
    (hsub : cmpD (dOf x) (dOf y) = some .gt → bid128_sub x y m f = .ok (binSpec (subD (md m)) x y f)) :
    bid128_fdim x y m f = .ok (binSpec (fdimD (md m)) x y f) := by
  rw [Dec.C09GenQuantize.fdim_spec]
  have dx : decode (Dec.C13GenNoncomp.bitsOf x) = dOf x := rfl
  have dy : decode (Dec.C13GenNoncomp.bitsOf y) = dOf y := rfl
  rw [dx, dy]
  by_cases hc : (dOf x).isNaN = false ∧ (dOf y).isNaN = false ∧ cmpD (dOf x) (dOf y) ≠ some .gt
  · rw [if_pos hc]
    unfold binSpec
    rw [show Dec.C01GenAddLoop.dOf x = dOf x from rfl, show Dec.C01GenAddLoop.dOf y = dOf y from rfl,
      if_neg (by rw [hc.1, hc.2.1]; decide), ((Dec.SourceLevel3.fdimD_cases (md m) _ _).2 hc.2.2),
      Dec.SourceLevel3.plus_zero_word]
    exact congrArg (fun g => Except.ok (_, g)) (UInt32.or_zero).symm
  · rw [if_neg hc]
    have hs := Dec.C06GenFromInt.sub_eq x y m f
    rw [show (decode (Dec.C06GenFromInt.bitsOf y)) = dOf y from rfl] at hs
    show bid128_add x (if (dOf y).isNaN = true then y else ofBits ((Dec.C06GenFromInt.bitsOf y + 2^127) % 2^128)) m f = _
    rw [← hs]
    by_cases hn : ((dOf x).isNaN || (dOf y).isNaN) = true
    · rw [sub_nan x y m f hn]
      unfold binSpec
      rw [show Dec.C01GenAddLoop.dOf x = dOf x from rfl, show Dec.C01GenAddLoop.dOf y = dOf y from rfl, if_pos hn]
    · have hx : (dOf x).isNaN = false := by
        cases h1 : (dOf x).isNaN
        · rfl
        · rw [h1] at hn; exact absurd rfl hn
      have hy : (dOf y).isNaN = false := by
        cases h1 : (dOf y).isNaN
        · rfl
        · rw [h1, Bool.or_true] at hn; exact absurd rfl hn
      have hgt : cmpD (dOf x) (dOf y) = some .gt := by
        by_contra hne; exact hc ⟨hx, hy, hne⟩
      rw [hsub hgt]
      unfold binSpec
      rw [show Dec.C01GenAddLoop.dOf x = dOf x from rfl, show Dec.C01GenAddLoop.dOf y = dOf y from rfl,
        if_neg hn, if_neg hn, ((Dec.SourceLevel3.fdimD_cases (md m) _ _).1 hgt)]

theorem run_fdim_of (x y : U128) (m : RoundingMode) (f : UInt32)
    (h : bid128_fdim x y m f = .ok (binSpec (fdimD (md m)) x y f)) :
    run "fdim" m f [.d x, .d y] = some (.ok ([.d (binSpec (fdimD (md m)) x y f).1], (binSpec (fdimD (md m)) x y f).2)) := by
  show some ((bid128_fdim x y m f).map _) = _
  rw [h]
  generalize binSpec (fdimD (md m)) x y f = p
  cases p; rfl

/-- **`fdim`, closed part**: `fdimD` (the NaN rule; `+0E+0` and an untouched status word when not `x > y`; `x − y` rounded once
when `x > y`) whenever, for `x > y`, the pair `(x, −y)` is not in `AddOpen` -/
theorem fdim_closed (m : RoundingMode) (f : UInt32) (x y : U128)
    (h : cmpD (dOf x) (dOf y) = some .gt → ¬ AddOpen (dOf x) (dOf (negY y))) :
    run "fdim" m f [.d x, .d y] = some (.ok ([.d (binSpec (fdimD (md m)) x y f).1], (binSpec (fdimD (md m)) x y f).2)) :=
  run_fdim_of x y m f (fdim_routine_of x y m f fun hgt =>
    sub_routine_of x y m f (Dec.C01GenAddRoundClosed.bid128_add_spec_closed' x (negY y) m f (h hgt)))

/-- **`fdim`, ALL operands** — relative to `LoopRestRounding` -/
theorem fdim_of_LoopRest (HR : LoopRestRounding) (m : RoundingMode) (f : UInt32) (x y : U128) :
    run "fdim" m f [.d x, .d y] = some (.ok ([.d (binSpec (fdimD (md m)) x y f).1], (binSpec (fdimD (md m)) x y f).2)) :=
  run_fdim_of x y m f (fdim_routine_of x y m f fun _ => Dec.C01GenAddRoundClosed.bid128_sub_spec_partial2' HR x y m f)

/-! ## 4. `division` and `square_root` (C01) — unconditional -/

/-- **C01, `division`, ALL operands, no hypothesis** (`C01GenDivClosed`): the NaN rule, else the canonical encoding of `divD`'s
datum and `divD`'s flags OR-ed into the status word.  The property sentence (correctly rounded quotient with the XOR sign and
preferred exponent `e₁ − e₂`, canonical, flags) is `C01GenDivClosed.quotient_property`; division by zero, `0/0`, `∞/∞`,
infinite and zero operands: `C01GenDivFinal.div_by_zero_property`, `invalid_property`, `inf_property`, `zero_property` -/
theorem division_spec (m : RoundingMode) (f : UInt32) (x y : U128) :
    run "division" m f [.d x, .d y]
      = some (.ok ([.d (Dec.C10GenFmodRem.binSpec (divD (md m)) x y f).1], (Dec.C10GenFmodRem.binSpec (divD (md m)) x y f).2)) :=
  Dec.C01GenDivClosed.api_division m f x y

/-- **C01, `square_root`, ALL operands, no hypothesis** (`C01GenSqrtLong.long_ok` discharges the residual hypothesis of
`SourceLevel3.square_root_of_LongOK`): the NaN rule, else the canonical encoding of `sqrtD`'s datum — the correctly rounded
root, `C01Q.sqrt_correct` — and `sqrtD`'s flags (nothing / inexact / invalid) OR-ed into the status word -/
theorem square_root_spec (m : RoundingMode) (f : UInt32) (x : U128) :
    run "square_root" m f [.d x]
      = some (.ok ([.d (Dec.SourceLevel3.sqrtSpec (md m) x f).1], (Dec.SourceLevel3.sqrtSpec (md m) x f).2)) :=
  Dec.SourceLevel3.square_root_of_LongOK (fun C h1 h2 => Dec.C01GenSqrtLong.long_ok C h1 h2) m f x

theorem sqrtD_pos_WF (mode : Mode) (c : Nat) (e : Int) (hc : c ≠ 0) : (sqrtD mode (.fin false c e)).1.WF := by
  obtain ⟨N, r, E, hr, hN, hV, hout⟩ := Dec.C01Q.sqrtD_pos mode c e hc
  rw [hout]
  by_cases hsq : r * r = N
  · rw [if_pos hsq]
    refine finish_wf mode false r 1 E (halfFloor e) ?_ (by decide)
    by_contra h0
    have hz : r = 0 := by omega
    rw [hz] at hsq
    have : (0:Nat) < 10 ^ 74 := by norm_num
    omega
  · rw [if_neg hsq]
    exact finish_wf mode false (4 * r + 1) 4 E (halfFloor e) (by omega) (by decide)

/-- C01, square root of a positive number `c·10^e` (any pattern with `c ≠ 0`): the method returns a canonical pattern that
denotes `sqrtD`'s datum, with `sqrtD`'s flags — and `sqrtD` is the correct delivery of `√V` (`C01Q.sqrt_correct`): either `V`
has a rational root `v`, delivered exactly at the cohort exponent closest to `⌊e/2⌋` or correctly rounded; or `√V` lies in an
interval `(a, b)` (`a² < V < b²`) all of whose members have the same correct delivery, which is the result -/
theorem square_root_property (m : RoundingMode) (f : UInt32) (x : U128) (c : Nat) (e : Int) (hx : dOf x = .fin false c e)
    (hc : c ≠ 0) :
    ∃ r, run "square_root" m f [.d x] = some (.ok ([.d r], f ||| UInt32.ofNat (sqrtD (md m) (.fin false c e)).2)) ∧
      isCanonical (bitsOf r) = true ∧ dOf r = (sqrtD (md m) (.fin false c e)).1 ∧
      ((∃ v : ℚ, 0 < v ∧ v * v = fval false c e ∧ FinishSpec (md m) false v (halfFloor e) (sqrtD (md m) (.fin false c e))) ∨
       (∃ a b : ℚ, 0 < a ∧ a < b ∧ a * a < fval false c e ∧ fval false c e < b * b ∧
          ∀ ρ : ℚ, a < ρ → ρ < b → FinishSpec (md m) false ρ (halfFloor e) (sqrtD (md m) (.fin false c e)))) := by
  obtain ⟨hd, hcn⟩ := result_datum (sqrtD_pos_WF (md m) c e hc)
  refine ⟨_, ?_, hcn, hd, Dec.C01Q.sqrt_correct (md m) c e hc⟩
  rw [square_root_spec]
  unfold Dec.SourceLevel3.sqrtSpec
  rw [show Dec.SourceLevel3.dOf x = dOf x from rfl, hx, if_neg (by exact Bool.false_ne_true)]


/-! ## 5. `fused_multiply_add` and `multiplication` with `Z0Spec` discharged (`C02GenFmaAssembly3.z0Spec`): unconditional -/

/-- **C02, `fused_multiply_add`, ALL operands, no hypothesis**: every triple of 128-bit patterns, every rounding mode and
status word: the method returns normally the NaN rule's result for a NaN operand, else the canonical encoding of `fmaD`'s datum
— ONE rounding of the exact `x·y + z` — and `fmaD`'s flags OR-ed into the status word -/
theorem fused_multiply_add_spec (m : RoundingMode) (f : UInt32) (x y z : U128) :
    run "fused_multiply_add" m f [.d x, .d y, .d z]
      = some (.ok ([.d (fmaSpec (md m) x y z f).1], (fmaSpec (md m) x y z f).2)) :=
  fused_multiply_add_of_Z0Spec Dec.C02GenFmaAssembly3.z0Spec m f x y z

/-- C02, the property sentence for ALL finite operands (any patterns), no hypothesis: "the bit-exact IEEE 754-2008 result of
rounding the infinitely precise x*y+z a single time (never the doubly rounded product-then-sum), with the preferred exponent
min(ex+ey, ez) for exact results, the standard's zero-sign … rules, and exactly the standard's inexact/overflow/underflow/
invalid flags" -/
theorem fused_multiply_add_property (m : RoundingMode) (f : UInt32) (x y z : U128) (s1 s2 s3 : Bool)
    (c1 c2 c3 : Nat) (e1 e2 e3 : Int) (hx : dOf x = .fin s1 c1 e1) (hy : dOf y = .fin s2 c2 e2) (hz : dOf z = .fin s3 c3 e3) :
    ∃ r g, run "fused_multiply_add" m f [.d x, .d y, .d z] = some (.ok ([.d r], g)) ∧ isCanonical (bitsOf r) = true ∧
      (fval s1 c1 e1 * fval s2 c2 e2 + fval s3 c3 e3 = 0 →
        dOf r = zeroAt (zeroSumSign (md m) (s1 != s2) s3) (min (e1 + e2) e3) ∧ g = f) ∧
      (fval s1 c1 e1 * fval s2 c2 e2 + fval s3 c3 e3 ≠ 0 → ∃ out : Datum × Flags,
        FinishSpecStrict (md m) (decide (fval s1 c1 e1 * fval s2 c2 e2 + fval s3 c3 e3 < 0))
          |fval s1 c1 e1 * fval s2 c2 e2 + fval s3 c3 e3| (min (e1 + e2) e3) out ∧
        dOf r = out.1 ∧ g = f ||| UInt32.ofNat out.2) :=
  fused_multiply_add_property_of_Z0Spec Dec.C02GenFmaAssembly3.z0Spec m f x y z s1 s2 s3 c1 c2 c3 e1 e2 e3 hx hy hz

/-- **C01, `multiplication`, ALL operands, no hypothesis** -/
theorem multiplication_spec (m : RoundingMode) (f : UInt32) (x y : U128) :
    run "multiplication" m f [.d x, .d y]
      = some (.ok ([.d (binSpec (mulD (md m)) x y f).1], (binSpec (mulD (md m)) x y f).2)) :=
  multiplication_of_Z0Spec Dec.C02GenFmaAssembly3.z0Spec m f x y

/-- C01, multiplication, the property sentence for ALL finite operands, no hypothesis: canonical result; a zero product is the
zero with the XOR of the signs at `e₁ + e₂` (clamped), no flag; a non-zero product `V` has the sign `s₁ xor s₂` and is THE
strict correct delivery of `|V|` with preferred exponent `e₁ + e₂` — `V` itself without a flag when it is a member of the format,
else rounded once in the mode (inexact; underflow iff tiny; the mode's overflow result) -/
theorem multiplication_property (m : RoundingMode) (f : UInt32) (x y : U128) (s1 s2 : Bool)
    (c1 c2 : Nat) (e1 e2 : Int) (hx : dOf x = .fin s1 c1 e1) (hy : dOf y = .fin s2 c2 e2) :
    ∃ r g, run "multiplication" m f [.d x, .d y] = some (.ok ([.d r], g)) ∧ isCanonical (bitsOf r) = true ∧
      (fval s1 c1 e1 * fval s2 c2 e2 = 0 → dOf r = zeroAt (s1 != s2) (e1 + e2) ∧ g = f) ∧
      (fval s1 c1 e1 * fval s2 c2 e2 ≠ 0 → decide (fval s1 c1 e1 * fval s2 c2 e2 < 0) = (s1 != s2) ∧
        ∃ out : Datum × Flags,
          FinishSpecStrict (md m) (s1 != s2) |fval s1 c1 e1 * fval s2 c2 e2| (e1 + e2) out ∧
          dOf r = out.1 ∧ g = f ||| UInt32.ofNat out.2) :=
  multiplication_property_of_Z0Spec Dec.C02GenFmaAssembly3.z0Spec m f x y s1 s2 c1 c2 e1 e2 hx hy

/-- C02: "When the product is exact and z is zero it agrees with multiplication": for numbers with a non-zero product and a
zero addend `+0E+6111`… in general: `multiplication (x, y)` and `fused_multiply_add (y, x, +0E+6111)` are the same call
(`SourceLevel3.multiplication_is_fma`) outside the zero-factor case; at the model level `C02Q.fma_zero_addend_is_mul`,
`C02Q.fma_one_is_add` -/
theorem multiplication_agrees_with_fma (m : RoundingMode) (f : UInt32) (x y : U128)
    (h : ¬ ((dOf x).isFin = true ∧ (dOf y).isFin = true ∧ ((dOf x).isZero = true ∨ (dOf y).isZero = true))) :
    run "multiplication" m f [.d x, .d y] = run "fused_multiply_add" m f [.d y, .d x, .d ⟨0, 0x5ffe000000000000⟩] :=
  Dec.SourceLevel3.multiplication_is_fma m f x y h

/-! ## 6. Examples -/

-- 1.2·0.5 + 0.25 = 0.85 exactly; (10^34−1)² + 1: inexact; 2·3 + (−6) toward −∞: −0 (status word 8 untouched)
example : run "fused_multiply_add" .NearestEven 0 [.d ⟨12, 0x303e000000000000⟩, .d ⟨5, 0x303e000000000000⟩,
    .d ⟨25, 0x303c000000000000⟩] = some (.ok ([.d ⟨85, 0x303c000000000000⟩], 0)) := by decide +kernel
example : run "fused_multiply_add" .NearestEven 0 [.d ⟨0x378d8e63ffffffff, 0x3041ed09bead87c0⟩,
    .d ⟨0x378d8e63ffffffff, 0x3041ed09bead87c0⟩, .d ⟨1, 0x3040000000000000⟩]
    = some (.ok ([.d ⟨4003012203950112766, 3496461311832590272⟩], 0x20)) := by decide +kernel
example : run "fused_multiply_add" .Downward 8 [.d ⟨2, 0x3040000000000000⟩, .d ⟨3, 0x3040000000000000⟩,
    .d ⟨6, 0xb040000000000000⟩] = some (.ok ([.d ⟨0, 0xb040000000000000⟩], 8)) := by decide +kernel
-- "never the doubly rounded product-then-sum": x = y = 10^33 + 1, z = −(10^33 + 2)·10^33: the exact x·y + z is 1, which the
-- fused operation returns without a flag — the product alone is already inexact
example : run "fused_multiply_add" .NearestEven 0 [.d ⟨0x38c15b0a00000001, 0x3040314dc6448d93⟩,
    .d ⟨0x38c15b0a00000001, 0x3040314dc6448d93⟩, .d ⟨0x38c15b0a00000002, 0xb082314dc6448d93⟩]
    = some (.ok ([.d ⟨1, 0x3040000000000000⟩], 0)) := by decide +kernel
example : run "multiplication" .NearestEven 0 [.d ⟨0x38c15b0a00000001, 0x3040314dc6448d93⟩,
    .d ⟨0x38c15b0a00000001, 0x3040314dc6448d93⟩]
    = some (.ok ([.d ⟨4089650035136921602, 3495410470901550483⟩], 0x20)) := by decide +kernel
-- Inf·0 + 1: invalid, the default NaN (status word 0x20 on entry)
example : run "fused_multiply_add" .NearestEven 0x20 [.d ⟨0, 0x7800000000000000⟩, .d ⟨0, 0x3040000000000000⟩,
    .d ⟨1, 0x3040000000000000⟩] = some (.ok ([.d ⟨0, 0x7c00000000000000⟩], 0x21)) := by decide +kernel
-- 2·0.3 = 0.6 (preferred exponent e₁ + e₂); 9E+6111·10 = 90E+6111 (exact, clamped exponent); overflow toward zero: the largest
-- finite number, overflow|inexact; 1E−6176·0.1: underflow|inexact, 0 to nearest and 1E−6176 upward
example : run "multiplication" .NearestEven 0 [.d ⟨2, 0x3040000000000000⟩, .d ⟨3, 0x303e000000000000⟩]
    = some (.ok ([.d ⟨6, 0x303e000000000000⟩], 0)) := by decide +kernel
example : run "multiplication" .NearestEven 0 [.d ⟨9, 0x5ffe000000000000⟩, .d ⟨10, 0x3040000000000000⟩]
    = some (.ok ([.d ⟨90, 0x5ffe000000000000⟩], 0)) := by decide +kernel
example : run "multiplication" .TowardZero 0 [.d ⟨9, 0x5ffe000000000000⟩, .d ⟨0x378d8e63ffffffff, 0x3041ed09bead87c0⟩]
    = some (.ok ([.d ⟨0x378d8e63ffffffff, 0x5fffed09bead87c0⟩], 0x28)) := by decide +kernel
example : run "multiplication" .NearestEven 0 [.d ⟨1, 0⟩, .d ⟨1, 0x303e000000000000⟩] = some (.ok ([.d ⟨0, 0⟩], 0x30)) := by
  decide +kernel
example : run "multiplication" .Upward 0 [.d ⟨1, 0⟩, .d ⟨1, 0x303e000000000000⟩] = some (.ok ([.d ⟨1, 0⟩], 0x30)) := by
  decide +kernel
-- the witness of the former defect D1: 1.000E−23 + (−4.5E−57) toward −∞ = 9.999999999999999999999999999999995E−24, inexact
example : run "addition" .Downward 0 [.d ⟨1000, 0x300c000000000000⟩, .d ⟨45, 0xafcc000000000000⟩]
    = some (.ok ([.d ⟨4003012203950112763, 3445232866071250880⟩], 0x20)) := by decide +kernel
example : run "subtraction" .NearestEven 0 [.d ⟨5, 0x3040000000000000⟩, .d ⟨3, 0x3040000000000000⟩]
    = some (.ok ([.d ⟨2, 0x3040000000000000⟩], 0)) := by decide +kernel
-- 1/3 and √2, to nearest: 34 digits, inexact
example : run "division" .NearestEven 0 [.d ⟨1, 0x3040000000000000⟩, .d ⟨3, 0x3040000000000000⟩]
    = some (.ok ([.d ⟨7483252092553221461, 3457819314275779221⟩], 0x20)) := by decide +kernel
example : run "square_root" .NearestEven 0 [.d ⟨2, 0x3040000000000000⟩]
    = some (.ok ([.d ⟨12987834932751794210, 3458278228537953784⟩], 0x20)) := by decide +kernel
-- through the theorems: 2·3 + 4 for every mode and status word is THE correct delivery of 10 …
example (m : RoundingMode) (f : UInt32) : ∃ r g, run "fused_multiply_add" m f
    [.d ⟨2, 0x3040000000000000⟩, .d ⟨3, 0x3040000000000000⟩, .d ⟨4, 0x3040000000000000⟩] = some (.ok ([.d r], g)) ∧
    isCanonical (bitsOf r) = true := by
  obtain ⟨r, g, h1, h2, -⟩ := fused_multiply_add_property m f ⟨2, 0x3040000000000000⟩ ⟨3, 0x3040000000000000⟩
    ⟨4, 0x3040000000000000⟩ false false false 2 3 4 0 0 0 (by decide +kernel) (by decide +kernel) (by decide +kernel)
  exact ⟨r, g, h1, h2⟩
-- … and 0·5 is +0E+0 for every mode and status word
example (m : RoundingMode) (f : UInt32) : ∃ r, run "multiplication" m f [.d ⟨0, 0x3040000000000000⟩, .d ⟨5, 0x3040000000000000⟩]
    = some (.ok ([.d r], f)) ∧ isCanonical (bitsOf r) = true ∧ dOf r = zeroAt (false != false) (0 + 0) :=
  multiplication_zero_property m f _ _ false false 0 5 0 0 (by decide +kernel) (by decide +kernel) (by decide)
-- the model's values
example : fmaD .rne false (.fin false 12 (-1)) (.fin false 5 (-1)) (.fin false 25 (-2)) = (.fin false 85 (-2), 0) := by
  decide +kernel

end Dec.SourceLevel4
