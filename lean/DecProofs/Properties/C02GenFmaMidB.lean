/-
  C02GenFmaMidB — the SET-UP package of block "Mid" of `bid128_ext_fma` (owner of the block: `C02GenFmaMid.lean`; this file only
  imports it and proves specifications about ITS literal pieces):
    (1) `setupK_spec`   : `C02GenFmaMid.setupK` (Cases (2)/(4) | (6) | (3)/(5)) under the block's entry invariant `EntryInv` and
                          "not (`delta ≤ 1` and opposite signs)": the continuation gets `C4'`, `scale'`, `x0'` with the loop's
                          precondition `LoopPre c3 c4' S X E3 (sp == sz) m V`, `m` the smaller exponent;
                          per case `pre_A` (34 < delta + q4), `pre_B` (delta + q4 < q3; product scaled by 10^(q3−delta−q4)),
                          `pre_C` (q3 ≤ delta + q4 ≤ 34) on numbers, dominance `dom_of_delta` from `delta ≥ 2`;
    (2) `case_test` / `case_test_entry` : the Boolean at the head of `midBlock_eq` = `decide (¬ (delta ≤ 1 ∧ signs differ))`
                          (the five cases are exhaustive for `0 ≤ delta ≤ 33`);
    (3) `addFin_link` / `setup_link` : the model's sum `addFin mode sp c4 E4 sz c3 E3 (min E4 E3) = finish mode sz V 1 m m`, `V > 0`,
                          for the `m`, `V` handed to the loop.
  Findings: none (the case arithmetic of the source agrees with the model on all of `0 ≤ delta ≤ 33`).
-/
import DecProofs.Properties.C02GenFmaMid

set_option linter.unusedSimpArgs false
set_option linter.unusedVariables false
set_option linter.unnecessarySeqFocus false
namespace Dec.C02GenFmaMidB
open Dec Dec.Rs Dec.Gen.Code Dec.C02GenFmaMid
open Dec.C03GenCompare (val128 val256)

/-! ## 1. The link to the model: the sum when the addend `z` dominates -/

/-- the model's sum `p + z` (`p = ±c4·10^E4` the exact product, `z = ±c3·10^E3`) when `|z| > |p|` or the signs agree: sign of `z`,
magnitude `A ± B` in units of `10^m`, `m` the smaller exponent -/
theorem addFin_link (mode : Mode) (sp sz : Bool) (c4 c3 : Nat) (E4 E3 : Int) (A B : Nat)
    (hA : A = c3 * 10 ^ (E3 - (if E4 ≤ E3 then E4 else E3)).toNat)
    (hB : B = c4 * 10 ^ (E4 - (if E4 ≤ E3 then E4 else E3)).toNat)
    (hA0 : 0 < A) (hdom : (sp == sz) = false → B < A) :
    addFin mode sp c4 E4 sz c3 E3 (if E4 ≤ E3 then E4 else E3) =
      finish mode sz (if (sp == sz) = true then A + B else A - B) 1 (if E4 ≤ E3 then E4 else E3)
        (if E4 ≤ E3 then E4 else E3) := by
  unfold addFin
  simp only
  rw [← hA, ← hB]
  have b1 : (false == true) = false := rfl
  have b2 : (true == false) = false := rfl
  cases sp <;> cases sz <;> simp only [sInt, Bool.false_eq_true, if_false, if_true, beq_self_eq_true, b1, b2] at hdom ⊢
  · rw [if_neg (by omega), decide_eq_false (by omega)]
    congr 1; omega
  · have := hdom trivial
    rw [if_neg (by omega), decide_eq_true (by omega)]
    congr 1; omega
  · have := hdom trivial
    rw [if_neg (by omega), decide_eq_false (by omega)]
    congr 1; omega
  · rw [if_neg (by omega), decide_eq_true (by omega)]
    congr 1; omega

/-! ## 2. The case arithmetic, on numbers -/

theorem ndigits_mul_pow (c k : Nat) (hc : 0 < c) : ndigits (c * 10 ^ k) = ndigits c + k := by
  obtain ⟨a, b⟩ := ndigits_spec hc
  have hp := ndigits_pos hc
  rw [ndigits_eq_iff (Nat.mul_pos hc (Nat.pow_pos (by decide))) (by omega)]
  constructor
  · have : ndigits c + k - 1 = (ndigits c - 1) + k := by omega
    rw [this, Nat.pow_add]
    exact Nat.mul_le_mul_right _ a
  · rw [Nat.pow_add]
    exact Nat.mul_lt_mul_of_pos_right b (Nat.pow_pos (by decide))

theorem lt_pow_of_ndigits (c n : Nat) (h : ndigits c ≤ n) : c < 10 ^ n :=
  lt_of_lt_of_le (lt_pow_ndigits c) (Nat.pow_le_pow_right (by decide) h)

/-- the common numeric hypotheses at the entry of the block -/
structure Num (c3 c4 : Nat) (E3 E4 : Int) (d : Nat) : Prop where
  hc3 : 0 < c3 ∧ c3 < P34
  hc4 : 0 < c4 ∧ c4 < P34 * P34
  hE3 : -6176 ≤ E3 ∧ E3 ≤ 6111
  hd : (d : Int) = (ndigits c3 : Int) + E3 - ndigits c4 - E4
  hd33 : d ≤ 33

theorem Num.q3 {c3 c4 : Nat} {E3 E4 : Int} {d : Nat} (h : Num c3 c4 E3 E4 d) : 1 ≤ ndigits c3 ∧ ndigits c3 ≤ 34 := by
  refine ⟨ndigits_pos h.hc3.1, (ndigits_le_iff h.hc3.1).2 ?_⟩
  have : P34 = 10 ^ 34 := by decide
  have := h.hc3.2; omega
theorem Num.q4 {c3 c4 : Nat} {E3 E4 : Int} {d : Nat} (h : Num c3 c4 E3 E4 d) : 1 ≤ ndigits c4 ∧ ndigits c4 ≤ 68 := by
  refine ⟨ndigits_pos h.hc4.1, (ndigits_le_iff h.hc4.1).2 ?_⟩
  have : P34 * P34 = 10 ^ 68 := by decide
  have := h.hc4.2; omega

/-- dominance of the addend for opposite signs, from `delta ≥ 2`: `10·c4·10^b < c3·10^a` whenever the exponents line up -/
theorem dom_of_delta (c3 c4 a b : Nat) (hc3 : 0 < c3) (hc4 : 0 < c4) (h : ndigits c4 + b + 2 ≤ ndigits c3 + a) :
    10 * (c4 * 10 ^ b) < c3 * 10 ^ a := by
  obtain ⟨l3, -⟩ := ndigits_spec hc3
  have u4 := lt_pow_ndigits c4
  have p3 := ndigits_pos hc3
  calc 10 * (c4 * 10 ^ b) < 10 * (10 ^ ndigits c4 * 10 ^ b) :=
        Nat.mul_lt_mul_of_pos_left (Nat.mul_lt_mul_of_pos_right u4 (Nat.pow_pos (by decide))) (by decide)
    _ = 10 ^ (ndigits c4 + b + 1) := by rw [Nat.pow_succ, Nat.pow_add]; ring
    _ ≤ 10 ^ (ndigits c3 - 1 + a) := Nat.pow_le_pow_right (by decide) (by omega)
    _ = 10 ^ (ndigits c3 - 1) * 10 ^ a := Nat.pow_add _ _ _
    _ ≤ c3 * 10 ^ a := Nat.mul_le_mul_right _ l3

/-- Cases (2)/(4): `34 < delta + q4` -/
theorem pre_A {c3 c4 : Nat} {E3 E4 : Int} {d : Nat} (h : Num c3 c4 E3 E4 d) (same : Bool) (hcase : same = false → 2 ≤ d)
    (hA : 34 < d + ndigits c4) :
    E4 ≤ E3 ∧ LoopPre c3 c4 (34 - ndigits c3) (d + ndigits c4 - 34) E3 same E4
      (if same = true then c3 * 10 ^ (34 - ndigits c3) * 10 ^ (d + ndigits c4 - 34) + c4
       else c3 * 10 ^ (34 - ndigits c3) * 10 ^ (d + ndigits c4 - 34) - c4) := by
  obtain ⟨a3, b3⟩ := h.q3
  obtain ⟨a4, b4⟩ := h.q4
  have hd := h.hd
  have hd33 := h.hd33
  refine ⟨by omega, ⟨h.hc3.1, by omega, h.hc4.1, b4, Or.inr (by omega), by omega, fun _ _ => by omega, fun h0 => by omega,
    h.hE3, by omega, Or.inr (by omega), rfl, ?_⟩⟩
  intro hs
  have := hcase hs
  have := dom_of_delta c3 c4 (34 - ndigits c3 + (d + ndigits c4 - 34)) 0 h.hc3.1 h.hc4.1 (by omega)
  rw [Nat.pow_zero, Nat.mul_one, Nat.pow_add, ← Nat.mul_assoc] at this
  exact this

/-- Cases (3)/(5): `q3 ≤ delta + q4 ≤ 34` -/
theorem pre_C {c3 c4 : Nat} {E3 E4 : Int} {d : Nat} (h : Num c3 c4 E3 E4 d) (same : Bool) (hcase : same = false → 2 ≤ d)
    (h1 : ndigits c3 ≤ d + ndigits c4) (h2 : d + ndigits c4 ≤ 34) :
    E4 ≤ E3 ∧ LoopPre c3 c4 (d + ndigits c4 - ndigits c3) 0 E3 same E4
      (if same = true then c3 * 10 ^ (d + ndigits c4 - ndigits c3) * 10 ^ 0 + c4
       else c3 * 10 ^ (d + ndigits c4 - ndigits c3) * 10 ^ 0 - c4) := by
  obtain ⟨a3, b3⟩ := h.q3
  obtain ⟨a4, b4⟩ := h.q4
  have hd := h.hd
  have hd33 := h.hd33
  have hP : P34 = 10 ^ 34 := by decide
  refine ⟨by omega, ⟨h.hc3.1, by omega, h.hc4.1, b4, Or.inl rfl, by omega, fun _ hx => by omega,
    fun _ => by rw [hP]; exact lt_pow_of_ndigits c4 34 (by omega),
    h.hE3, by omega, Or.inl rfl, rfl, ?_⟩⟩
  intro hs
  have := hcase hs
  have := dom_of_delta c3 c4 (d + ndigits c4 - ndigits c3) 0 h.hc3.1 h.hc4.1 (by omega)
  rw [Nat.pow_zero, Nat.mul_one] at this ⊢
  exact this

/-- Case (6): `delta + q4 < q3`; the product is scaled up to the exponent of the addend -/
theorem pre_B {c3 c4 : Nat} {E3 E4 : Int} {d : Nat} (h : Num c3 c4 E3 E4 d) (same : Bool) (hcase : same = false → 2 ≤ d)
    (hB : d + ndigits c4 < ndigits c3) :
    E3 < E4 ∧ (E4 - E3).toNat = ndigits c3 - d - ndigits c4 ∧
    LoopPre c3 (c4 * 10 ^ (ndigits c3 - d - ndigits c4)) 0 0 E3 same E3
      (if same = true then c3 * 10 ^ 0 * 10 ^ 0 + c4 * 10 ^ (ndigits c3 - d - ndigits c4)
       else c3 * 10 ^ 0 * 10 ^ 0 - c4 * 10 ^ (ndigits c3 - d - ndigits c4)) := by
  obtain ⟨a3, b3⟩ := h.q3
  obtain ⟨a4, b4⟩ := h.q4
  have hd := h.hd
  have hd33 := h.hd33
  have hP : P34 = 10 ^ 34 := by decide
  have hnd := ndigits_mul_pow c4 (ndigits c3 - d - ndigits c4) h.hc4.1
  refine ⟨by omega, by omega, ⟨h.hc3.1, by omega, Nat.mul_pos h.hc4.1 (Nat.pow_pos (by decide)), by rw [hnd]; omega,
    Or.inl rfl, by rw [hnd]; omega, fun _ hx => by omega,
    fun _ => by rw [hP]; exact lt_pow_of_ndigits _ 34 (by rw [hnd]; omega),
    h.hE3, by omega, Or.inl rfl, rfl, ?_⟩⟩
  intro hs
  have := hcase hs
  have := dom_of_delta c3 c4 0 (ndigits c3 - d - ndigits c4) h.hc3.1 h.hc4.1 (by omega)
  rw [Nat.pow_zero, Nat.mul_one] at this ⊢
  rw [Nat.mul_one]
  exact this

/-- the small `i32` quantities of the case analysis, as integers -/
structure Small (q3 q4 delta p34 : Int32) (Q3 Q4 d : Nat) : Prop where
  hq3 : q3.toInt = Q3
  hq4 : q4.toInt = Q4
  hd : delta.toInt = d
  hp : p34.toInt = 34
  b3 : 1 ≤ Q3 ∧ Q3 ≤ 34
  b4 : 1 ≤ Q4 ∧ Q4 ≤ 68
  bd : d ≤ 33

theorem Small.dq {q3 q4 delta p34 : Int32} {Q3 Q4 d : Nat} (h : Small q3 q4 delta p34 Q3 Q4 d) :
    (delta + q4).toInt = ((d + Q4 : Nat) : Int) := by
  rw [i32_add' delta q4 d Q4 h.hd h.hq4 (by have := h.b4; have := h.bd; omega) (by have := h.b4; have := h.bd; omega)]
  push_cast; rfl

theorem sign_ne (p_sign z_sign : UInt64) (sp sz : Bool)
    (hzs : z_sign.toNat = (if sz = true then 1 else 0) * 2 ^ 63) (hps : p_sign.toNat = (if sp = true then 1 else 0) * 2 ^ 63) :
    (p_sign != z_sign) = !(sp == sz) := by
  rw [Bool.eq_iff_iff, bne_iff_ne, ne_eq, ← UInt64.toNat_inj, hzs, hps]
  cases sp <;> cases sz <;> simp

/-- **the case test at the head of the block**: under the entry invariant the five cases are exhaustive, so the test is
"not (`delta ≤ 1` and opposite signs)" -/
theorem case_test {q3 q4 delta p34 : Int32} {Q3 Q4 d : Nat} (h : Small q3 q4 delta p34 Q3 Q4 d) (p_sign z_sign : UInt64)
    (sp sz : Bool) (hzs : z_sign.toNat = (if sz = true then 1 else 0) * 2 ^ 63)
    (hps : p_sign.toNat = (if sp = true then 1 else 0) * 2 ^ 63) :
    ((((((((((decide (q3 ≤ delta)) && (decide (delta < p34))) && (decide (p34 < (delta + q4))))) || (((decide (q3 ≤ delta)) && (decide ((delta + q4) ≤ p34))))) || (((decide (delta < q3)) && (decide (p34 < (delta + q4)))))) || ((((decide (delta < q3)) && (decide (q3 ≤ (delta + q4)))) && (decide ((delta + q4) ≤ p34))))) || ((decide ((delta + q4) < q3))))) && (!(((decide (delta ≤ (1 : Int32))) && (p_sign != z_sign)))))
      = decide (¬ (d ≤ 1 ∧ (sp == sz) = false)) := by
  have hdq := h.dq
  simp only [i32_le, i32_lt]
  rw [sign_ne p_sign z_sign sp sz hzs hps, hdq, h.hq3, h.hd, h.hp, show (1 : Int32).toInt = 1 from rfl]
  have := h.bd
  rw [Bool.eq_iff_iff]
  simp only [Bool.and_eq_true, Bool.or_eq_true, decide_eq_true_eq, Bool.not_eq_true', Bool.and_eq_false_iff,
    decide_eq_false_iff_not, Bool.not_eq_false', Bool.not_eq_true]
  cases hs : (sp == sz) <;> simp <;> omega
/-! ## 3. `setupK` -/

theorem entry_small {C3 : U128} {C4 : U256} {q3 q4 e3 e4 delta p34 : Int32} {z_sign p_sign : UInt64}
    {c3 c4 : Nat} {E3 E4 : Int} {sz sp : Bool}
    (h : EntryInv C3 C4 q3 q4 e3 e4 delta p34 z_sign p_sign c3 c4 E3 E4 sz sp) :
    Small q3 q4 delta p34 (ndigits c3) (ndigits c4) delta.toInt.toNat ∧ Num c3 c4 E3 E4 delta.toInt.toNat := by
  have hdr := h.hdr
  have hN : Num c3 c4 E3 E4 delta.toInt.toNat :=
    ⟨h.hc3, h.hc4, h.hE3, by rw [← h.hdelta]; omega, by omega⟩
  exact ⟨⟨h.hq3, h.hq4, by omega, h.hp34, hN.q3, hN.q4, by omega⟩, hN⟩

/-- the first test of `setupK` is `34 < delta + q4` -/
theorem testA {q3 q4 delta p34 : Int32} {Q3 Q4 d : Nat} (h : Small q3 q4 delta p34 Q3 Q4 d) :
    ((((((decide (q3 ≤ delta)) && (decide (delta < p34))) && (decide (p34 < (delta + q4))))) || (((decide (delta < q3)) && (decide (p34 < (delta + q4)))))))
      = decide (34 < d + Q4) := by
  have hdq := h.dq
  simp only [i32_le, i32_lt]
  rw [hdq, h.hq3, h.hd, h.hp]
  have := h.bd
  rw [Bool.eq_iff_iff]
  simp only [Bool.and_eq_true, Bool.or_eq_true, decide_eq_true_eq]
  omega

set_option maxHeartbeats 1000000 in
/-- **`setupK`**: Cases (2)/(4) (`34 < delta + q4`: `scale = 34 − q3`, `x0 = delta + q4 − 34`), Case (6) (`delta + q4 < q3`: the
product's coefficient is multiplied by `10^(q3 − delta − q4)`, `scale = x0 = 0`), Cases (3)/(5) (`scale = delta + q4 − q3`,
`x0 = 0`): the continuation gets a state satisfying the loop's precondition `LoopPre`, with `m` the smaller exponent and `c4'`
the product's coefficient in units of `10^m` when nothing is removed from it -/
theorem setupK_spec {α : Type} {C3 : U128} {C4 : U256} {q3 q4 e3 e4 delta p34 : Int32} {z_sign p_sign : UInt64}
    {c3 c4 : Nat} {E3 E4 : Int} {sz sp : Bool}
    (h : EntryInv C3 C4 q3 q4 e3 e4 delta p34 z_sign p_sign c3 c4 E3 E4 sz sp)
    (hcase : ¬ (delta.toInt ≤ 1 ∧ sp ≠ sz)) (scale x0 : Int32) (P128 : U128)
    (k : U256 → Int32 → Int32 → U128 → Except String α) :
    ∃ (C4' : U256) (scale' x0' : Int32) (P128' : U128) (c4' S X : Nat) (m : Int) (V : Nat),
      setupK C4 q3 q4 scale delta x0 p34 P128 k = k C4' scale' x0' P128' ∧
      val256 C4' = c4' ∧ scale'.toInt = S ∧ x0'.toInt = X ∧ (1 ≤ X → C4' = C4) ∧
      LoopPre c3 c4' S X E3 (sp == sz) m V ∧
      m = (if E4 ≤ E3 then E4 else E3) ∧ (X = 0 → c4' = c4 * 10 ^ (E4 - m).toNat) ∧ (1 ≤ X → c4' = c4 ∧ m = E4) := by
  obtain ⟨hS, hN⟩ := entry_small h
  have hdr := h.hdr
  have hc2 : (sp == sz) = false → 2 ≤ delta.toInt.toNat := by
    intro hs
    by_contra hc
    apply hcase
    refine ⟨by omega, ?_⟩
    intro he; rw [he] at hs; simp at hs
  generalize hdd : delta.toInt.toNat = d at *
  obtain ⟨a3, b3⟩ := hS.b3
  obtain ⟨a4, b4⟩ := hS.b4
  have hbd := hS.bd
  have hdq := hS.dq
  unfold setupK
  simp only [bind, Except.bind, pure, Except.pure]
  rw [testA hS]
  by_cases hA : 34 < d + ndigits c4
  · -- Cases (2)/(4)
    rw [if_pos (decide_eq_true hA)]
    obtain ⟨hle, hpre⟩ := pre_A hN (sp == sz) hc2 hA
    refine ⟨C4, p34 - q3, delta + q4 - p34, P128, c4, 34 - ndigits c3, d + ndigits c4 - 34, E4, _, rfl, h.hC4, ?_, ?_,
      fun _ => rfl, hpre, by rw [if_pos hle], fun h0 => by omega, fun _ => ⟨rfl, rfl⟩⟩
    · rw [i32_sub' p34 q3 34 (ndigits c3) hS.hp hS.hq3 (by omega) (by omega)]; omega
    · rw [i32_sub' (delta + q4) p34 ((d + ndigits c4 : Nat) : Int) 34 hdq hS.hp (by omega) (by omega)]; omega
  · rw [if_neg (by rw [decide_eq_true_eq]; exact hA)]
    by_cases hB : d + ndigits c4 < ndigits c3
    · -- Case (6)
      have hBc : decide (delta + q4 < q3) = true := by
        rw [i32_lt, hdq, hS.hq3, decide_eq_true_eq]; exact_mod_cast hB
      rw [if_pos hBc]
      obtain ⟨hlt, hk, hpre⟩ := pre_B hN (sp == sz) hc2 hB
      generalize hkd : ndigits c3 - d - ndigits c4 = kk at *
      have hsc : (q3 - delta - q4).toInt = (kk : Int) := by
        have h1 : (q3 - delta).toInt = (ndigits c3 : Int) - d :=
          i32_sub' q3 delta _ _ hS.hq3 hS.hd (by omega) (by omega)
        rw [i32_sub' (q3 - delta) q4 _ _ h1 hS.hq4 (by omega) (by omega)]; omega
      -- the coefficient is below 10^33: two words
      have hcQ : c4 < 10 ^ ndigits c4 := lt_pow_ndigits c4
      have hc33 : c4 < 10 ^ 33 := lt_of_lt_of_le hcQ (Nat.pow_le_pow_right (by decide) (by omega))
      have h33 : (10 : Nat) ^ 33 < 2 ^ 128 := by decide
      obtain ⟨z2, z3, hv⟩ := val256_small C4 (by rw [h.hC4]; omega)
      rw [h.hC4] at hv
      have hlt34 : c4 * 10 ^ kk < 10 ^ 34 := by
        calc c4 * 10 ^ kk < 10 ^ ndigits c4 * 10 ^ kk := Nat.mul_lt_mul_of_pos_right hcQ (Nat.pow_pos (by decide))
          _ = 10 ^ (ndigits c4 + kk) := (Nat.pow_add _ _ _).symm
          _ ≤ 10 ^ 34 := Nat.pow_le_pow_right (by decide) (by omega)
      have h34 : (10 : Nat) ^ 34 < 2 ^ 128 := by decide
      have hl := C4.w0.toNat_lt
      have hm : (if E4 ≤ E3 then E4 else E3) = E3 := by rw [if_neg (by omega)]
      have close : ∀ P : U128, val128 P = c4 * 10 ^ kk →
          ∃ (C4' : U256) (scale' x0' : Int32) (P128' : U128) (c4' S X : Nat) (m : Int) (V : Nat),
            k ⟨P.w0, P.w1, C4.w2, C4.w3⟩ 0 0 P = k C4' scale' x0' P128' ∧
            val256 C4' = c4' ∧ scale'.toInt = S ∧ x0'.toInt = X ∧ (1 ≤ X → C4' = C4) ∧
            LoopPre c3 c4' S X E3 (sp == sz) m V ∧
            m = (if E4 ≤ E3 then E4 else E3) ∧ (X = 0 → c4' = c4 * 10 ^ (E4 - m).toNat) ∧ (1 ≤ X → c4' = c4 ∧ m = E4) := by
        intro P hP
        refine ⟨⟨P.w0, P.w1, C4.w2, C4.w3⟩, 0, 0, P, c4 * 10 ^ kk, 0, 0, E3, _, rfl, ?_, rfl, rfl, fun h0 => by omega, hpre,
          hm.symm, fun _ => by rw [hk], fun h0 => by omega⟩
        unfold val256
        simp only
        rw [z2, z3, ← hP]; unfold val128; omega
      have hidx := idx_nat (q3 - delta - q4) kk hsc
      by_cases hq19 : ndigits c4 ≤ 19
      · rw [if_pos (by rw [i32_le, hS.hq4, decide_eq_true_eq]; show (ndigits c4 : Int) ≤ 19; omega)]
        have hCs : c4 < 10 ^ 19 := lt_of_lt_of_le hcQ (Nat.pow_le_pow_right (by decide) hq19)
        have hw0 : C4.w0.toNat = c4 := by
          have : (10 : Nat) ^ 19 < 2 ^ 64 := by decide
          unfold val128 at hv; simp only at hv; omega
        by_cases hs19 : kk ≤ 19
        · rw [if_pos (by rw [i32_le, hsc, decide_eq_true_eq]; show (kk : Int) ≤ 19; omega)]
          obtain ⟨v, hv', hv10⟩ := Dec.C03GenCompare.tbl64_ten (UInt64.ofInt (toI (q3 - delta - q4))) (by omega)
          obtain ⟨r, hr, hrv⟩ := Dec.C01GenArith.gen_mul_64x64_to_128MACH C4.w0 v
          rw [hv']
          simp only [hr]
          exact close r (by rw [← val128_toNat', hrv, hw0, hv10, hidx])
        · rw [if_neg (by rw [i32_le, hsc, decide_eq_true_eq]; show ¬ (kk : Int) ≤ 19; omega)]
          have hs20 : (q3 - delta - q4 - (0x14 : Int32)).toInt = ((kk - 20 : Nat) : Int) := by
            rw [i32_sub' (q3 - delta - q4) 0x14 kk 20 hsc rfl (by omega) (by omega)]; omega
          have hidx2 := idx_nat _ _ hs20
          obtain ⟨v, hv', hv10⟩ := Dec.C03GenCompare.tbl128_ten (UInt64.ofInt (toI (q3 - delta - q4 - (0x14 : Int32)))) (by omega)
          rw [hidx2, show kk - 20 + 20 = kk by omega] at hv10
          obtain ⟨r, hr, hrv⟩ := Dec.C01GenArith.gen_mul_128x64_to_128_exact C4.w0 v (by
            rw [val128_toNat', hv10, hw0]; omega)
          rw [hv']
          simp only [hr]
          exact close r (by rw [← val128_toNat', hrv, val128_toNat', hv10, hw0])
      · rw [if_neg (by rw [i32_le, hS.hq4, decide_eq_true_eq]; show ¬ (ndigits c4 : Int) ≤ 19; omega)]
        obtain ⟨v, hv', hv10⟩ := Dec.C03GenCompare.tbl64_ten (UInt64.ofInt (toI (q3 - delta - q4))) (by omega)
        obtain ⟨r, hr, hrv⟩ := Dec.C01GenArith.gen_mul_128x64_to_128_exact v (⟨C4.w0, C4.w1⟩ : U128) (by
          rw [val128_toNat', hv10, hidx, hv, Nat.mul_comm]; omega)
        rw [hv']
        simp only [hr]
        exact close r (by rw [← val128_toNat', hrv, val128_toNat', hv10, hidx, hv, Nat.mul_comm])
    · -- Cases (3)/(5)
      have hBc : ¬ decide (delta + q4 < q3) = true := by
        rw [i32_lt, hdq, hS.hq3, decide_eq_true_eq]; intro hc; exact hB (by exact_mod_cast hc)
      rw [if_neg hBc]
      obtain ⟨hle, hpre⟩ := pre_C hN (sp == sz) hc2 (by omega) (by omega)
      refine ⟨C4, delta + q4 - q3, 0, P128, c4, d + ndigits c4 - ndigits c3, 0, E4, _, rfl, h.hC4, ?_, rfl,
        fun h0 => by omega, hpre, by rw [if_pos hle], fun _ => by simp, fun h0 => by omega⟩
      rw [i32_sub' (delta + q4) q3 ((d + ndigits c4 : Nat) : Int) (ndigits c3) hdq hS.hq3 (by omega) (by omega)]; omega
/-- **the link to the model**: with `m`, `V` as `setupK_spec` hands them to the loop, the model's sum of the exact product
`±c4·10^E4` and the addend `±c3·10^E3` is `finish` of `V·10^m` with the sign of the addend (the sum is non-zero and `z` dominates) -/
theorem setup_link (mode : Mode) (sp sz : Bool) (c3 c4 c4' S X : Nat) (E3 E4 m : Int) (V : Nat)
    (hpre : LoopPre c3 c4' S X E3 (sp == sz) m V) (hm : m = (if E4 ≤ E3 then E4 else E3))
    (h0 : X = 0 → c4' = c4 * 10 ^ (E4 - m).toNat) (h1 : 1 ≤ X → c4' = c4 ∧ m = E4) :
    addFin mode sp c4 E4 sz c3 E3 (if E4 ≤ E3 then E4 else E3) = finish mode sz V 1 m m ∧ 0 < V := by
  have hA : c3 * 10 ^ S * 10 ^ X = c3 * 10 ^ (E3 - m).toNat := by
    have : (E3 - m).toNat = S + X := by have := hpre.hm; omega
    rw [this, Nat.pow_add, Nat.mul_assoc]
  have hB : c4' = c4 * 10 ^ (E4 - m).toNat := by
    rcases Nat.eq_zero_or_pos X with hx | hx
    · exact h0 hx
    · obtain ⟨a, b⟩ := h1 hx
      rw [a, b, Int.sub_self, Int.toNat_zero, Nat.pow_zero, Nat.mul_one]
  have hA0 : 0 < c3 * 10 ^ S * 10 ^ X := Nat.mul_pos (Nat.mul_pos hpre.hc3 (Nat.pow_pos (by decide))) (Nat.pow_pos (by decide))
  have hdom : (sp == sz) = false → c4' < c3 * 10 ^ S * 10 ^ X := fun hs => by have := hpre.hdom hs; omega
  have hV := hpre.hV
  have hlink := addFin_link mode sp sz c4 c3 E4 E3 (c3 * 10 ^ S * 10 ^ X) c4' (by rw [← hm]; exact hA) (by rw [← hm]; exact hB)
    hA0 hdom
  rw [← hm] at hlink
  refine ⟨by rw [← hm, hlink, hV], ?_⟩
  rw [hV]
  split
  · omega
  · rename_i hs
    have := hdom (by simpa using hs)
    omega

/-- the case test under the entry invariant -/
theorem case_test_entry {C3 : U128} {C4 : U256} {q3 q4 e3 e4 delta p34 : Int32} {z_sign p_sign : UInt64}
    {c3 c4 : Nat} {E3 E4 : Int} {sz sp : Bool}
    (h : EntryInv C3 C4 q3 q4 e3 e4 delta p34 z_sign p_sign c3 c4 E3 E4 sz sp) :
    ((((((((((decide (q3 ≤ delta)) && (decide (delta < p34))) && (decide (p34 < (delta + q4))))) || (((decide (q3 ≤ delta)) && (decide ((delta + q4) ≤ p34))))) || (((decide (delta < q3)) && (decide (p34 < (delta + q4)))))) || ((((decide (delta < q3)) && (decide (q3 ≤ (delta + q4)))) && (decide ((delta + q4) ≤ p34))))) || ((decide ((delta + q4) < q3))))) && (!(((decide (delta ≤ (1 : Int32))) && (p_sign != z_sign)))))
      = decide (¬ (delta.toInt ≤ 1 ∧ sp ≠ sz)) := by
  obtain ⟨hS, -⟩ := entry_small h
  rw [case_test hS p_sign z_sign sp sz h.hzs h.hps, decide_eq_decide]
  have := h.hdr
  constructor
  · rintro hn ⟨a, b⟩
    exact hn ⟨by omega, by cases sp <;> cases sz <;> simp_all⟩
  · rintro hn ⟨a, b⟩
    exact hn ⟨by omega, by intro he; rw [he] at b; simp at b⟩

-- examples
example := addFin_link .rne false true 5 70 0 0 70 5 rfl rfl (by decide) (fun _ => by decide)
example : addFin .rne false 5 0 true 70 0 0 = finish .rne true 65 1 0 0 := by decide +kernel
example := ndigits_mul_pow 123 4 (by decide)
example := dom_of_delta 1000 5 0 0 (by decide) (by decide) (by decide +kernel)

end Dec.C02GenFmaMidB
