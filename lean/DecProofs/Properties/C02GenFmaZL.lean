/-
  C02GenFmaZ (part L: Case (1''B), the `10^33` branch in slices; exact 34-digit results) — see C02GenFmaZ.lean
-/
import DecProofs.Properties.C02GenFmaZK
set_option linter.unusedSimpArgs false
set_option linter.unusedVariables false
namespace Dec.C02GenFmaZ
open Dec Dec.Rs Dec.Gen.Code Dec.C03GenCompare Dec.C02GenCorrection
open Dec.C08GenRoundIntegral (bind_ok' ite_true_bool ite_false_bool i32_add i32_sub i32_neg)
open Dec.C02RoundHelpers (Spec rne rne_eq)
open Dec.C02GenRound (bid_round64_2_18_spec bid_round128_19_38_spec bid_round192_39_57_spec bid_round256_58_76_spec v128 v192 v256)

/-! ## 16. Case (1''B), the padded `z` = `10^33`: the translated text in slices -/


/-- Case (1''B), `10^33`: `C4` rounded to one digit by the helper the digit count selects (the translated text) -/
def z2PowR {α : Type} (C4_ : U256) (q4_ : Int32) (is_midpoint_lt_even_ : Bool) (is_midpoint_gt_even_ : Bool) (is_inexact_lt_midpoint_ : Bool) (is_inexact_gt_midpoint_ : Bool) (incr_exp_ : Bool) (R64_ : UInt64) (P128_ : U128) (R128_ : U128) (P192_ : U192) (R192_ : U192) (R256_ : U256) (k : UInt64 → Bool → Bool → Bool → Bool → Bool → Except String α) : Except String α := do
  let mut C4 : U256 := C4_
  let mut q4 : Int32 := q4_
  let mut is_midpoint_lt_even : Bool := is_midpoint_lt_even_
  let mut is_midpoint_gt_even : Bool := is_midpoint_gt_even_
  let mut is_inexact_lt_midpoint : Bool := is_inexact_lt_midpoint_
  let mut is_inexact_gt_midpoint : Bool := is_inexact_gt_midpoint_
  let mut incr_exp : Bool := incr_exp_
  let mut R64 : UInt64 := R64_
  let mut P128 : U128 := P128_
  let mut R128 : U128 := R128_
  let mut P192 : U192 := P192_
  let mut R192 : U192 := R192_
  let mut R256 : U256 := R256_
  if (decide (q4 ≤ (0x12 : Int32))) then
    let t__30 ← bid_round64_2_18 q4 (q4 - (1 : Int32)) C4.w0 incr_exp is_midpoint_lt_even is_midpoint_gt_even is_inexact_lt_midpoint is_inexact_gt_midpoint
    incr_exp := t__30.2.1
    is_midpoint_lt_even := t__30.2.2.1
    is_midpoint_gt_even := t__30.2.2.2.1
    is_inexact_lt_midpoint := t__30.2.2.2.2.1
    is_inexact_gt_midpoint := t__30.2.2.2.2.2
    R64 := t__30.1
  else
    if (decide (q4 ≤ (0x26 : Int32))) then
      P128 := { P128 with w1 := C4.w1 }
      P128 := { P128 with w0 := C4.w0 }
      let t__31 ← bid_round128_19_38 q4 (q4 - (1 : Int32)) P128 incr_exp is_midpoint_lt_even is_midpoint_gt_even is_inexact_lt_midpoint is_inexact_gt_midpoint
      incr_exp := t__31.2.1
      is_midpoint_lt_even := t__31.2.2.1
      is_midpoint_gt_even := t__31.2.2.2.1
      is_inexact_lt_midpoint := t__31.2.2.2.2.1
      is_inexact_gt_midpoint := t__31.2.2.2.2.2
      R128 := t__31.1
      R64 := R128.w0
    else
      if (decide (q4 ≤ (0x39 : Int32))) then
        P192 := { P192 with w2 := C4.w2 }
        P192 := { P192 with w1 := C4.w1 }
        P192 := { P192 with w0 := C4.w0 }
        let t__32 ← bid_round192_39_57 q4 (q4 - (1 : Int32)) P192 incr_exp is_midpoint_lt_even is_midpoint_gt_even is_inexact_lt_midpoint is_inexact_gt_midpoint
        incr_exp := t__32.2.1
        is_midpoint_lt_even := t__32.2.2.1
        is_midpoint_gt_even := t__32.2.2.2.1
        is_inexact_lt_midpoint := t__32.2.2.2.2.1
        is_inexact_gt_midpoint := t__32.2.2.2.2.2
        R192 := t__32.1
        R64 := R192.w0
      else
        let t__33 ← bid_round256_58_76 q4 (q4 - (1 : Int32)) C4 incr_exp is_midpoint_lt_even is_midpoint_gt_even is_inexact_lt_midpoint is_inexact_gt_midpoint
        incr_exp := t__33.2.1
        is_midpoint_lt_even := t__33.2.2.1
        is_midpoint_gt_even := t__33.2.2.2.1
        is_inexact_lt_midpoint := t__33.2.2.2.2.1
        is_inexact_gt_midpoint := t__33.2.2.2.2.2
        R256 := t__33.1
        R64 := R256.w0
  k R64 incr_exp is_midpoint_lt_even is_midpoint_gt_even is_inexact_lt_midpoint is_inexact_gt_midpoint

/-- Case (1''B), `10^33`, inexact: `10^34 − R64` one exponent lower, the indicators mirrored, overflow, the correction (the translated text) -/
def z2PowC (ptr_is_midpoint_lt_even_ : Bool) (ptr_is_midpoint_gt_even_ : Bool) (ptr_is_inexact_lt_midpoint_ : Bool) (ptr_is_inexact_gt_midpoint_ : Bool) (rnd_mode_ : RoundingMode) (pfpsf_ : UInt32) (res_ : U128) (z_sign_ : UInt64) (z_exp_ : UInt64) (e3_ : Int32) (is_midpoint_lt_even_ : Bool) (is_midpoint_gt_even_ : Bool) (is_inexact_lt_midpoint_ : Bool) (is_inexact_gt_midpoint_ : Bool) (incr_exp_ : Bool) (R64_ : UInt64) (k : U128 → UInt64 → Int32 → UInt32 → Bool → Bool → Bool → Bool → Except String (U128 × Bool × Bool × Bool × Bool × UInt32)) : Except String (U128 × Bool × Bool × Bool × Bool × UInt32) := do
  let mut ptr_is_midpoint_lt_even : Bool := ptr_is_midpoint_lt_even_
  let mut ptr_is_midpoint_gt_even : Bool := ptr_is_midpoint_gt_even_
  let mut ptr_is_inexact_lt_midpoint : Bool := ptr_is_inexact_lt_midpoint_
  let mut ptr_is_inexact_gt_midpoint : Bool := ptr_is_inexact_gt_midpoint_
  let mut rnd_mode : RoundingMode := rnd_mode_
  let mut pfpsf : UInt32 := pfpsf_
  let mut res : U128 := res_
  let mut z_sign : UInt64 := z_sign_
  let mut z_exp : UInt64 := z_exp_
  let mut e3 : Int32 := e3_
  let mut is_midpoint_lt_even : Bool := is_midpoint_lt_even_
  let mut is_midpoint_gt_even : Bool := is_midpoint_gt_even_
  let mut is_inexact_lt_midpoint : Bool := is_inexact_lt_midpoint_
  let mut is_inexact_gt_midpoint : Bool := is_inexact_gt_midpoint_
  let mut incr_exp : Bool := incr_exp_
  let mut R64 : UInt64 := R64_
  if incr_exp then
    R64 := (0xa : UInt64)
  res := { res with w1 := (z_sign ||| (0x1ed09bead87c0 : UInt64)) }
  res := { res with w0 := ((0x378d8e6400000000 : UInt64) - R64) }
  z_exp := (z_exp - c_EXP_P1)
  e3 := (e3 - 1)
  if is_inexact_lt_midpoint then
    is_inexact_lt_midpoint := false
    is_inexact_gt_midpoint := true
  else
    if is_inexact_gt_midpoint then
      is_inexact_gt_midpoint := false
      is_inexact_lt_midpoint := true
    else
      if is_midpoint_lt_even then
        is_midpoint_lt_even := false
        is_midpoint_gt_even := true
      else
        if is_midpoint_gt_even then
          is_midpoint_gt_even := false
          is_midpoint_lt_even := true
        else
          pure ()
  if (decide (e3 > c_EXP_MAX_UNBIASED)) then
    if (rnd_mode == RoundingMode.NearestEven) then
      res := { res with w1 := (z_sign ||| (0x7800000000000000 : UInt64)) }
      res := { res with w0 := (0 : UInt64) }
      pfpsf := (pfpsf ||| (c_StatusFlags_BID_INEXACT_EXCEPTION ||| c_StatusFlags_BID_OVERFLOW_EXCEPTION))
    else
      let t__34 ← bid_rounding_correction rnd_mode is_inexact_lt_midpoint is_inexact_gt_midpoint is_midpoint_lt_even is_midpoint_gt_even e3 res pfpsf
      res := t__34.1
      pfpsf := t__34.2
    ptr_is_midpoint_lt_even := is_midpoint_lt_even
    ptr_is_midpoint_gt_even := is_midpoint_gt_even
    ptr_is_inexact_lt_midpoint := is_inexact_lt_midpoint
    ptr_is_inexact_gt_midpoint := is_inexact_gt_midpoint
    return (res, ptr_is_midpoint_lt_even, ptr_is_midpoint_gt_even, ptr_is_inexact_lt_midpoint, ptr_is_inexact_gt_midpoint, pfpsf)
  pfpsf := (pfpsf ||| c_StatusFlags_BID_INEXACT_EXCEPTION)
  res := { res with w1 := (res.w1 ||| (z_sign ||| ((((UInt64.ofInt (toI ((e3 + (0x1820 : Int32)))))) <<< 0x31)))) }
  if (rnd_mode != RoundingMode.NearestEven) then
    let t__35 ← bid_rounding_correction rnd_mode is_inexact_lt_midpoint is_inexact_gt_midpoint is_midpoint_lt_even is_midpoint_gt_even e3 res pfpsf
    res := t__35.1
    pfpsf := t__35.2
  z_exp := (res.w1 &&& c_MASK_EXP)
  k res z_exp e3 pfpsf is_midpoint_lt_even is_midpoint_gt_even is_inexact_lt_midpoint is_inexact_gt_midpoint

/-- Case (1''B), `10^33`: the overflow check of the exact differences (the translated text) -/
def z2PowO (ptr_is_midpoint_lt_even_ : Bool) (ptr_is_midpoint_gt_even_ : Bool) (ptr_is_inexact_lt_midpoint_ : Bool) (ptr_is_inexact_gt_midpoint_ : Bool) (rnd_mode_ : RoundingMode) (pfpsf_ : UInt32) (res_ : U128) (z_sign_ : UInt64) (z_exp_ : UInt64) (e3_ : Int32) (is_midpoint_lt_even_ : Bool) (is_midpoint_gt_even_ : Bool) (is_inexact_lt_midpoint_ : Bool) (is_inexact_gt_midpoint_ : Bool) (k : U128 → UInt64 → UInt32 → Bool → Bool → Bool → Bool → Except String (U128 × Bool × Bool × Bool × Bool × UInt32)) : Except String (U128 × Bool × Bool × Bool × Bool × UInt32) := do
  let mut ptr_is_midpoint_lt_even : Bool := ptr_is_midpoint_lt_even_
  let mut ptr_is_midpoint_gt_even : Bool := ptr_is_midpoint_gt_even_
  let mut ptr_is_inexact_lt_midpoint : Bool := ptr_is_inexact_lt_midpoint_
  let mut ptr_is_inexact_gt_midpoint : Bool := ptr_is_inexact_gt_midpoint_
  let mut rnd_mode : RoundingMode := rnd_mode_
  let mut pfpsf : UInt32 := pfpsf_
  let mut res : U128 := res_
  let mut z_sign : UInt64 := z_sign_
  let mut z_exp : UInt64 := z_exp_
  let mut e3 : Int32 := e3_
  let mut is_midpoint_lt_even : Bool := is_midpoint_lt_even_
  let mut is_midpoint_gt_even : Bool := is_midpoint_gt_even_
  let mut is_inexact_lt_midpoint : Bool := is_inexact_lt_midpoint_
  let mut is_inexact_gt_midpoint : Bool := is_inexact_gt_midpoint_
  if (decide (e3 > c_EXP_MAX_UNBIASED)) then
    if (rnd_mode == RoundingMode.NearestEven) then
      res := { res with w1 := (z_sign ||| (0x7800000000000000 : UInt64)) }
      res := { res with w0 := (0 : UInt64) }
      pfpsf := (pfpsf ||| (c_StatusFlags_BID_INEXACT_EXCEPTION ||| c_StatusFlags_BID_OVERFLOW_EXCEPTION))
    else
      let t__36 ← bid_rounding_correction rnd_mode is_inexact_lt_midpoint is_inexact_gt_midpoint is_midpoint_lt_even is_midpoint_gt_even e3 res pfpsf
      res := t__36.1
      pfpsf := t__36.2
    ptr_is_midpoint_lt_even := is_midpoint_lt_even
    ptr_is_midpoint_gt_even := is_midpoint_gt_even
    ptr_is_inexact_lt_midpoint := is_inexact_lt_midpoint
    ptr_is_inexact_gt_midpoint := is_inexact_gt_midpoint
    return (res, ptr_is_midpoint_lt_even, ptr_is_midpoint_gt_even, ptr_is_inexact_lt_midpoint, ptr_is_inexact_gt_midpoint, pfpsf)
  k res z_exp pfpsf is_midpoint_lt_even is_midpoint_gt_even is_inexact_lt_midpoint is_inexact_gt_midpoint

/-- Case (1''B), `10^33` at the least exponent (the translated text) -/
def z2PowM {α : Type} (rnd_mode_ : RoundingMode) (pfpsf_ : UInt32) (res_ : U128) (z_sign_ : UInt64) (z_exp_ : UInt64) (e3_ : Int32) (is_midpoint_lt_even_ : Bool) (is_midpoint_gt_even_ : Bool) (is_inexact_lt_midpoint_ : Bool) (is_inexact_gt_midpoint_ : Bool) (lt_half_ulp_ : Bool) (eq_half_ulp_ : Bool) (gt_half_ulp_ : Bool) (k : U128 → UInt64 → UInt32 → Bool → Bool → Bool → Bool → Except String α) : Except String α := do
  let mut rnd_mode : RoundingMode := rnd_mode_
  let mut pfpsf : UInt32 := pfpsf_
  let mut res : U128 := res_
  let mut z_sign : UInt64 := z_sign_
  let mut z_exp : UInt64 := z_exp_
  let mut e3 : Int32 := e3_
  let mut is_midpoint_lt_even : Bool := is_midpoint_lt_even_
  let mut is_midpoint_gt_even : Bool := is_midpoint_gt_even_
  let mut is_inexact_lt_midpoint : Bool := is_inexact_lt_midpoint_
  let mut is_inexact_gt_midpoint : Bool := is_inexact_gt_midpoint_
  let mut lt_half_ulp : Bool := lt_half_ulp_
  let mut eq_half_ulp : Bool := eq_half_ulp_
  let mut gt_half_ulp : Bool := gt_half_ulp_
  if gt_half_ulp then
    res := { res with w1 := (0x314dc6448d93 : UInt64) }
    res := { res with w0 := (0x38c15b09ffffffff : UInt64) }
  else
    res := { res with w1 := (0x314dc6448d93 : UInt64) }
    res := { res with w0 := (0x38c15b0a00000000 : UInt64) }
  res := { res with w1 := (res.w1 ||| (z_sign ||| ((z_exp &&& c_MASK_EXP)))) }
  pfpsf := (pfpsf ||| c_StatusFlags_BID_UNDERFLOW_EXCEPTION)
  if eq_half_ulp then
    is_midpoint_lt_even := true
  else
    if lt_half_ulp then
      is_inexact_gt_midpoint := true
    else
      is_inexact_lt_midpoint := true
  if (rnd_mode != RoundingMode.NearestEven) then
    let t__37 ← bid_rounding_correction rnd_mode is_inexact_lt_midpoint is_inexact_gt_midpoint is_midpoint_lt_even is_midpoint_gt_even e3 res pfpsf
    res := t__37.1
    pfpsf := t__37.2
    z_exp := (res.w1 &&& c_MASK_EXP)
  k res z_exp pfpsf is_midpoint_lt_even is_midpoint_gt_even is_inexact_lt_midpoint is_inexact_gt_midpoint

/-- the end of the `10^33` branch: inexact if some indicator is set -/
def z2PowF {α : Type} (k : U128 → UInt64 → UInt32 → Bool → Bool → Bool → Bool → Except String α)
    (res : U128) (z_exp : UInt64) (pfpsf : UInt32) (ml mg il ig : Bool) : Except String α :=
  if (((il || ig) || ml) || mg) = true then k res z_exp (pfpsf ||| c_StatusFlags_BID_INEXACT_EXCEPTION) ml mg il ig
  else k res z_exp pfpsf ml mg il ig

set_option maxRecDepth 8000 in
theorem z2Pow_eq (pml pmg pil pig : Bool) (m : RoundingMode) (pfpsf : UInt32) (res : U128) (z_sign z_exp : UInt64)
    (C4 : U256) (q4 e3 : Int32) (ml mg il ig incr lt eq gt : Bool) (R64 : UInt64) (P128 R128 : U128)
    (P192 R192 : U192) (R256 : U256)
    (k : U128 → UInt64 → UInt32 → Bool → Bool → Bool → Bool → Except String (U128 × Bool × Bool × Bool × Bool × UInt32)) :
    z2Pow pml pmg pil pig m pfpsf res z_sign z_exp C4 q4 e3 ml mg il ig incr lt eq gt R64 P128 R128 P192 R192 R256 k =
      if decide (Int32.ofInt (toI ((z_exp >>> 0x31) - (0x1820 : UInt64))) > c_EXP_MIN_UNBIASED) = true then
        if (q4 == (1 : Int32)) = true then
          z2PowO pml pmg pil pig m pfpsf
            ⟨(0x378d8e6400000000 : UInt64) - C4.w0,
              (0x1ed09bead87c0 : UInt64) ||| (z_sign ||| ((z_exp - c_EXP_P1) &&& c_MASK_EXP))⟩ z_sign (z_exp - c_EXP_P1)
            (Int32.ofInt (toI ((z_exp >>> 0x31) - (0x1820 : UInt64))) - 1) ml mg il ig
            (z2PowF k)
        else
          z2PowR C4 q4 ml mg il ig incr R64 P128 R128 P192 R192 R256 fun R64 incr ml mg il ig =>
            if ((((!ml) && (!mg)) && (!il)) && (!ig)) = true then
              z2PowO pml pmg pil pig m pfpsf
                ⟨(0x378d8e6400000000 : UInt64) - R64,
                  (z_sign ||| ((z_exp - c_EXP_P1) &&& c_MASK_EXP)) ||| (0x1ed09bead87c0 : UInt64)⟩ z_sign (z_exp - c_EXP_P1)
                (Int32.ofInt (toI ((z_exp >>> 0x31) - (0x1820 : UInt64))) - 1) ml mg il ig
                (z2PowF k)
            else
              z2PowC pml pmg pil pig m pfpsf res z_sign z_exp (Int32.ofInt (toI ((z_exp >>> 0x31) - (0x1820 : UInt64))))
                ml mg il ig incr R64 fun res z_exp e3 pfpsf ml mg il ig =>
                  z2PowO pml pmg pil pig m pfpsf res z_sign z_exp e3 ml mg il ig
                    (z2PowF k)
      else
        z2PowM m pfpsf res z_sign z_exp (Int32.ofInt (toI ((z_exp >>> 0x31) - (0x1820 : UInt64)))) ml mg il ig lt eq gt
          (z2PowF k) := by
  rfl


/-- **`finish` on an exact 34-digit value** whose last digit is not zero: itself, or overflow above `emax` -/
theorem finish_exact34 (mode : Mode) (s : Bool) (N : Nat) (E pref : Int) (hN1 : 10 ^ 33 ≤ N) (hN2 : N < 10 ^ 34)
    (hnz : N % 10 ≠ 0) (hE : eMin ≤ E) :
    finish mode s N 1 E pref =
      if eMax < E then (overflowResult mode s, fOverflow ||| fInexact) else (.fin s N E, 0) := by
  have hil : ilog10Ratio N 1 = 33 := ilog_33 N 1 (by decide) (by omega) (by omega)
  rw [finish_eq, hil]
  unfold eMin at hE
  by_cases hbig : 33 + E > 7000
  · rw [if_pos hbig, if_pos (by unfold eMax; omega)]
  rw [if_neg hbig, if_neg (by omega)]
  have hx0 : fx0 (33 + E) = E := by unfold fx0 eMin; rw [if_neg (by omega)]; omega
  rw [hx0, Int.sub_self]
  have hnum : fnum N 0 = N := by unfold fnum; simp
  have hden : fden 1 0 = 1 := by unfold fden; simp
  rw [hnum, hden]
  by_cases hov : eMax < E
  · rw [if_pos hov, finishAt_exact_ovf _ _ _ _ _ _ _ (Nat.mod_one N) hov]
  · rw [if_neg hov, finishAt_exact _ _ _ _ _ _ _ (Nat.mod_one N) (by omega)]
    have htz : trailingZeros 34 (N / 1) = 0 := by
      rw [Nat.div_one]
      show (if N ≠ 0 ∧ N % 10 = 0 then 1 + trailingZeros 33 (N / 10) else 0) = 0
      rw [if_neg (fun h => hnz h.2)]
    rw [htz, show E + ((0 : Nat) : Int) = E by simp, if_neg (by omega : ¬ E > eMax)]
    have hcl : clampInt E E pref = E := by unfold clampInt; split <;> (try split) <;> omega
    rw [hcl, Int.sub_self]
    simp


/-- the exponent read back from the exponent word -/
theorem e3_of_zexp (zx : UInt64) (ef : Int) (hzx : zx.toNat = (ef + 6176).toNat * 2^49) (h1 : -6176 ≤ ef) (h2 : ef ≤ 12300) :
    (Int32.ofInt (toI ((zx >>> 0x31) - (0x1820 : UInt64)))).toInt = ef := by
  have hs : (zx >>> 0x31).toNat = (ef + 6176).toNat := by
    rw [UInt64.toNat_shiftRight, hzx, Nat.shiftRight_eq_div_pow]
    show (ef + 6176).toNat * 2^49 / 2^49 = _
    rw [Nat.mul_div_cancel _ (by decide)]
  have ht : (toI ((zx >>> 0x31) - (0x1820 : UInt64)) : Int) = (((zx >>> 0x31) - (0x1820 : UInt64)).toNat : Int) := rfl
  rw [ht, UInt64.toNat_sub, hs]
  show (Int32.ofInt (((2^64 - 6176 + (ef + 6176).toNat) % 2^64 : Nat) : Int)).toInt = ef
  rw [Int32.toInt_ofInt, show Int32.size = 4294967296 from rfl]
  by_cases hneg : ef < 0
  · have : (2^64 - 6176 + (ef + 6176).toNat) % 2^64 = 2^64 - 6176 + (ef + 6176).toNat := Nat.mod_eq_of_lt (by omega)
    rw [this]
    have e : (((2^64 - 6176 + (ef + 6176).toNat : Nat) : Int)) = ef + 4294967296 * ((4294967296 : Nat) : Int) := by omega
    rw [e, Int.add_mul_bmod_self_right]
    exact Int.bmod_eq_of_le (by omega) (by omega)
  · have : (2^64 - 6176 + (ef + 6176).toNat) % 2^64 = (ef + 6176).toNat - 6176 := by
      rw [show 2^64 - 6176 + (ef + 6176).toNat = ((ef + 6176).toNat - 6176) + 2^64 by omega, Nat.add_mod_right,
        Nat.mod_eq_of_lt (by omega)]
    rw [this]
    have e : ((((ef + 6176).toNat - 6176 : Nat) : Int)) = ef := by omega
    rw [e]
    exact Int.bmod_eq_of_le (by omega) (by omega)

theorem z2PowO_eval (pml pmg pil pig : Bool) (m : RoundingMode) (pfpsf : UInt32) (res : U128) (z_sign z_exp : UInt64)
    (e3 : Int32) (ml mg il ig : Bool)
    (k : U128 → UInt64 → UInt32 → Bool → Bool → Bool → Bool → Except String (U128 × Bool × Bool × Bool × Bool × UInt32)) :
    z2PowO pml pmg pil pig m pfpsf res z_sign z_exp e3 ml mg il ig k =
      if decide (e3 > c_EXP_MAX_UNBIASED) = true then
        (if (m == RoundingMode.NearestEven) = true then
          .ok (⟨0, z_sign ||| 0x7800000000000000⟩, ml, mg, il, ig,
            pfpsf ||| (c_StatusFlags_BID_INEXACT_EXCEPTION ||| c_StatusFlags_BID_OVERFLOW_EXCEPTION))
        else (bid_rounding_correction m il ig ml mg e3 res pfpsf).bind fun t => .ok (t.1, ml, mg, il, ig, t.2))
      else k res z_exp pfpsf ml mg il ig := by
  simp only [z2PowO, bind, pure, Except.pure, bind_ok']


/-- **`C4` rounded to one digit** (`q4 ≥ 2`) through whichever helper the digit count selects: the helper's contract -/
theorem z2PowR_spec {α : Type} (C4 : U256) (q4 : Int32) (R64 : UInt64) (P128 R128 : U128) (P192 R192 : U192) (R256 : U256)
    (k : UInt64 → Bool → Bool → Bool → Bool → Bool → Except String α) (c4 : Nat)
    (hC4 : C4.w3.toNat * 2^192 + C4.w2.toNat * 2^128 + C4.w1.toNat * 2^64 + C4.w0.toNat = c4) (h40 : 0 < c4)
    (hq4 : q4.toInt = ndigits c4) (hq42 : 2 ≤ ndigits c4) (hq468 : ndigits c4 ≤ 68) :
    ∃ (r : UInt64) (incr ml mg il ig : Bool),
      z2PowR C4 q4 false false false false false R64 P128 R128 P192 R192 R256 k = k r incr ml mg il ig ∧
      Spec (ndigits c4) (ndigits c4 - 1) c4 r.toNat incr ⟨ml, mg, il, ig⟩ := by
  obtain ⟨lo, hi⟩ := ndigits_spec h40
  have w0 := C4.w0.toNat_lt; have w1 := C4.w1.toNat_lt; have w2 := C4.w2.toNat_lt; have w3 := C4.w3.toNat_lt
  have hqe := i32_ofNat_of q4 _ hq4 (by omega)
  have hqm : q4 - 1 = Int32.ofNat (ndigits c4 - 1) := by
    apply i32_ofNat_of _ _ _ (by omega)
    rw [i32_sub _ _ (by omega) (by decide), hq4]; show (ndigits c4 : Int) - 1 = _; omega
  by_cases c2 : ndigits c4 ≤ 18
  · have d2 : decide (q4 ≤ 0x12) = true := by
      rw [decide_eq_true_eq, Int32.le_iff_toInt_le, hq4]; show (ndigits c4 : Int) ≤ 18; omega
    have hlt : c4 < 2^64 := lt_of_lt_of_le hi (le_trans (Nat.pow_le_pow_right (by decide) c2) (by decide))
    have hw : C4.w0.toNat = c4 := by omega
    obtain ⟨cs, incr, lt, gt, ilt, igt, hcall, hs⟩ := bid_round64_2_18_spec (ndigits c4) (ndigits c4 - 1) C4.w0 (by omega) c2
      (by omega) (by omega) (by rw [hw]; exact hi)
    rw [← hqe, ← hqm] at hcall
    rw [hw] at hs
    refine ⟨cs, incr, lt, gt, ilt, igt, ?_, hs⟩
    simp only [z2PowR, bind, pure, Except.pure, bind_ok', d2, if_true, hcall]
  · have d2 : decide (q4 ≤ 0x12) = false := by
      rw [decide_eq_false_iff_not, Int32.le_iff_toInt_le, hq4]; show ¬ (ndigits c4 : Int) ≤ 18; omega
    by_cases c3 : ndigits c4 ≤ 38
    · have d3 : decide (q4 ≤ 0x26) = true := by
        rw [decide_eq_true_eq, Int32.le_iff_toInt_le, hq4]; show (ndigits c4 : Int) ≤ 38; omega
      have hlt : c4 < 2^128 := lt_of_lt_of_le hi (le_trans (Nat.pow_le_pow_right (by decide) c3) (by decide))
      have hw : v128 ⟨C4.w0, C4.w1⟩ = c4 := by unfold v128; show C4.w0.toNat + 2^64 * C4.w1.toNat = c4; omega
      obtain ⟨cs, incr, lt, gt, ilt, igt, hcall, hs⟩ := bid_round128_19_38_spec (ndigits c4) (ndigits c4 - 1) ⟨C4.w0, C4.w1⟩
        (by omega) c3 (by omega) (by omega) (by rw [hw]; exact hi)
      rw [← hqe, ← hqm] at hcall
      rw [hw] at hs
      have h9 := (gapR_of_spec c4 _ incr lt gt ilt igt h40 (by omega) hs).2
      have hcw : cs.w0.toNat = v128 cs := by unfold v128 at h9 ⊢; omega
      rw [← hcw] at hs
      refine ⟨cs.w0, incr, lt, gt, ilt, igt, ?_, hs⟩
      simp only [z2PowR, bind, pure, Except.pure, bind_ok', d2, d3, if_true, Bool.false_eq_true, if_false, hcall]
    · have d3 : decide (q4 ≤ 0x26) = false := by
        rw [decide_eq_false_iff_not, Int32.le_iff_toInt_le, hq4]; show ¬ (ndigits c4 : Int) ≤ 38; omega
      by_cases c5 : ndigits c4 ≤ 57
      · have d4 : decide (q4 ≤ 0x39) = true := by
          rw [decide_eq_true_eq, Int32.le_iff_toInt_le, hq4]; show (ndigits c4 : Int) ≤ 57; omega
        have hlt : c4 < 2^192 := lt_of_lt_of_le hi (le_trans (Nat.pow_le_pow_right (by decide) c5) (by decide))
        have hw : v192 ⟨C4.w0, C4.w1, C4.w2⟩ = c4 := by
          unfold v192; show C4.w0.toNat + 2^64 * C4.w1.toNat + 2^128 * C4.w2.toNat = c4; omega
        obtain ⟨cs, incr, lt, gt, ilt, igt, hcall, hs⟩ := bid_round192_39_57_spec (ndigits c4) (ndigits c4 - 1)
          ⟨C4.w0, C4.w1, C4.w2⟩ (by omega) c5 (by omega) (by omega) (by rw [hw]; exact hi)
        rw [← hqe, ← hqm] at hcall
        rw [hw] at hs
        have h9 := (gapR_of_spec c4 _ incr lt gt ilt igt h40 (by omega) hs).2
        have hcw : cs.w0.toNat = v192 cs := by unfold v192 at h9 ⊢; omega
        rw [← hcw] at hs
        refine ⟨cs.w0, incr, lt, gt, ilt, igt, ?_, hs⟩
        simp only [z2PowR, bind, pure, Except.pure, bind_ok', d2, d3, d4, if_true, Bool.false_eq_true, if_false, hcall]
      · have d4 : decide (q4 ≤ 0x39) = false := by
          rw [decide_eq_false_iff_not, Int32.le_iff_toInt_le, hq4]; show ¬ (ndigits c4 : Int) ≤ 57; omega
        have hw : v256 C4 = c4 := by unfold v256; omega
        obtain ⟨cs, incr, lt, gt, ilt, igt, hcall, hs⟩ := bid_round256_58_76_spec (ndigits c4) (ndigits c4 - 1) C4
          (by omega) (by omega) (by omega) (by omega) (by rw [hw]; exact hi)
        rw [← hqe, ← hqm] at hcall
        rw [hw] at hs
        have h9 := (gapR_of_spec c4 _ incr lt gt ilt igt h40 (by omega) hs).2
        have hcw : cs.w0.toNat = v256 cs := by unfold v256 at h9 ⊢; omega
        rw [← hcw] at hs
        refine ⟨cs.w0, incr, lt, gt, ilt, igt, ?_, hs⟩
        simp only [z2PowR, bind, pure, Except.pure, bind_ok', d2, d3, d4, if_true, Bool.false_eq_true, if_false, hcall]


end Dec.C02GenFmaZ
