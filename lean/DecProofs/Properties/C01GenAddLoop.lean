/-
  C01 (generated-code level), continuation of `C01GenAdd.lean`: the branch `delta = P34` of `bid128_add`, `bid128_sub`, and
  the all-input / public-method statements as far as they are closed.

  New region (two non-zero numbers):
    add_d34           `D34Cond`: `q_H + e_H − q_L − e_L = 34` and (signs agree or `C_H` is not a power of ten) — the main part
                      of the code's branch `delta = P34` (source text `d34Main`, `code_d34`, `d34Main_spec`): the second
                      operand is compared with half a unit of the 34th digit of the first (64- and 128-bit variants: below /
                      tie with even `X` / the rest), the five different rounding-mode tails are each proved to be
                      `roundInt` (`sem_bool`), common end `modeTail` / `modeTail_spec`, model side `finish_mode`.
  Closed statements:
    bid128_add_spec_partial, bid128_sub_spec_partial   on `Proved` (NaN ∨ `C01GenAdd.Covered` ∨ `Extra` = `D34Cond`);
                      `bid128_sub` is `bid128_add` with the sign bit of a non-NaN `y` flipped (`C06GenFromInt.sub_eq`,
                      `dOf_negY`), so `x − y` needs `Proved (dOf x) (dOf y).negate`
    api_addition_partial, api_subtraction_partial      `Api.run "addition" / "subtraction"`
    addition_property_partial, subtraction_property_partial   the text of C01 for finite operands: canonical result, exact
                      zero with the IEEE sign and exponent `min e₁ e₂`, otherwise THE strict correct delivery
                      (`FinishSpecStrict`: preferred exponent for exact results, least exponent and one rounding otherwise;
                      inexact / underflow / overflow exactly as prescribed)
  NOT closed (`Remaining` / `AddRounding` state exactly what is missing; `proved_or_remaining`; with `AddRounding` as a
  hypothesis the headline for ALL inputs follows: `bid128_add_spec_partial'`, `bid128_sub_spec_partial'`): two non-zero finite operands with
    (a) `34 − q_L < delta < 34` — the rounding loop with `BID_TEN2MK128`, `second_pass`, double-rounding repair;
    (b) `delta = 34`, opposite signs and `C_H` a power of ten — the sub-case that reuses the loop-body rounding (the witness of
        the former defect D1, `1.000E-23 + -4.5E-57` `Downward`, lies HERE).
  Findings: none in the region proved.
  Tools added: `Sym2.symExec` (symbolic execution that continues under the binder of a call with unknown result, so that two
  copies of a source text with different sets of carried variables normalise to the same term: `sync_with`), `head_cases`.
-/
import DecProofs.Properties.C01GenAdd
import DecProofs.Properties.C13GenNoncomp
import DecProofs.Properties.C01Strict
import DecProofs.Properties.C01Q
import DecGen.Api

namespace Dec.C01GenAddLoop
open Dec.Rs Dec.Gen.Code Dec.C06GenFromInt Dec.C12GenNaN Dec.C01GenAdd
open Dec.C13GenPack (md)
open Dec.C01GenAdd.Sym
set_option linter.unusedVariables false
set_option linter.unusedTactic false
set_option linter.unreachableTactic false
set_option linter.unusedSectionVars false
set_option linter.unusedSimpArgs false

/-! ## 1b. Symbolic execution through calls with unknown results -/

theorem bind_congr_both {α β : Type} {a a' : Except String α} {k k' : α → Except String β} (ha : a = a')
    (hk : ∀ v, k v = k' v) : (a >>= k) = (a' >>= k') := by
  subst ha
  cases a <;> simp [bind, Except.bind, hk]

namespace Sym2
open Lean Meta Elab Tactic

/-- zeta-reduce the leading `have`/`let`s of a term (no β, nothing else) -/
partial def zetaHead (e : Expr) : Expr :=
  match e with
  | .mdata _ b => zetaHead b
  | .letE _ _ v b _ => zetaHead (b.instantiate1 v)
  | e' => e'

def mkEqTrans' (u : Level) (ty a b c p q : Expr) : Expr := mkApp6 (.const ``Eq.trans [u]) ty a b c p q
def mkEqRefl' (u : Level) (ty a : Expr) : Expr := mkApp2 (.const ``Eq.refl [u]) ty a

/-- is `a` visibly `Except.ok v` (or `pure v`), or is there a hypothesis `a = Except.ok v`?  returns `v` and a proof of
`a = Except.ok v` -/
def findOk (a : Expr) : MetaM (Option (Expr × Expr)) := do
  match a.getAppFn, a.getAppArgs with
  | .const ``Except.ok _, #[ε, α, v] => return some (v, mkEqRefl' (.succ .zero) (mkApp2 (.const ``Except [.zero, .zero]) ε α) a)
  | .const ``Pure.pure _, #[m, _, α, v] => return some (v, mkEqRefl' (.succ .zero) (mkApp m α) a)
  | _, _ =>
    for d in ← getLCtx do
      if d.isImplementationDetail then continue
      let t ← instantiateMVars d.type
      let some (_, lhs, rhs) := t.eq? | continue
      unless rhs.isAppOfArity ``Except.ok 3 do continue
      if lhs == a then return some (rhs.appArg!, d.toExpr)
      if lhs.getAppFn == a.getAppFn && lhs.getAppNumArgs == a.getAppNumArgs then
        if ← withReducible (isDefEq lhs a) then return some (rhs.appArg!, d.toExpr)
    return none

/-- is the test `c` (or its negation) among the hypotheses? -/
def findDecided (c : Expr) : MetaM (Option (Bool × Expr)) := do
  let nc := mkNot c
  for d in ← getLCtx do
    if d.isImplementationDetail then continue
    let t ← instantiateMVars d.type
    if t == c then return some (true, d.toExpr)
    if t == nc then return some (false, d.toExpr)
  return none

/-- Symbolic execution of a region of a translated `do` block, up to its join point.  `e : ty`.  Steps: leading `have`s
(ζ), `bind a k` with `a` visibly or provably `.ok v` (`k v`, β), `if c then t else e` (both branches executed; if they end in
the same continuation `F` — a join point λ, `pure`, `Except.ok` — applied to arguments, the test is pushed into the
arguments: `F (if c then a₁ else b₁) …`).  Returns the new term and a proof of `e = new` (`none`: definitionally equal). -/
partial def symExec (deep : Bool) (u : Level) (ty : Expr) (e0 : Expr) : MetaM (Expr × Option Expr) := do
  let e := zetaHead e0
  if deep && e.getAppFn.isLambda && e.getAppNumArgs > 0 then
    return ← symExec deep u ty e.headBeta
  if deep && e.getAppFn.isFVar then
    if let some v ← e.getAppFn.fvarId!.getValue? then
      return ← symExec deep u ty (mkAppN v e.getAppArgs).headBeta
  match e.getAppFn, e.getAppArgs with
  | .const ``ite [_], #[α, c, inst, t, el] =>
    -- a test decided by a hypothesis
    if let some (pos, h) ← findDecided c then
      let br := if pos then t else el
      let p1 := mkAppN (.const (if pos then ``if_pos else ``if_neg) [u]) #[c, inst, h, α, t, el]
      let (r, p2?) ← symExec deep u ty br
      let p := match p2? with
        | none => p1
        | some p2 => mkEqTrans' u α e br r p1 p2
      return (r, some p)
    let (t', pt?) ← symExec deep u ty t
    let (el', pel?) ← symExec deep u ty el
    let refl (x : Expr) : Expr := mkEqRefl' u α x
    let eA := mkApp5 (.const ``ite [u]) α c inst t' el'
    let pA? : Option Expr :=
      if pt?.isNone && pel?.isNone then none
      else some (mkAppN (.const ``ite_congr_branches [u]) #[α, c, inst, t, t', el, el', pt?.getD (refl t), pel?.getD (refl el)])
    let f := t'.getAppFn
    let as := t'.getAppArgs
    let bs := el'.getAppArgs
    let okHead := f.isLambda || f.isConstOf ``Pure.pure || f.isConstOf ``Except.ok
    if okHead && as.size == bs.size && as.size > 0 && f == el'.getAppFn then
      let dTy := mkApp (.const ``Decidable []) c
      let mut tys := #[]
      for i in [0:as.size] do
        if as[i]! == bs[i]! then tys := tys.push none
        else
          let aty ← inferType as[i]!
          let v ← getLevel aty
          tys := tys.push (some (aty, v))
      let fTy ← inferType f
      let mkRf (f : Expr) (d : Expr) (as bs : Array Expr) : Expr := Id.run do
        let mut args := #[]
        for i in [0:as.size] do
          match tys[i]! with
          | none => args := args.push as[i]!
          | some (aty, v) => args := args.push (mkApp5 (.const ``ite [v]) aty c d as[i]! bs[i]!)
        return mkAppN f args
      let r := mkRf f inst as bs
      -- the generic statement, with the continuation and the differing arguments as variables
      let rec mkVars (i : Nat) (as' bs' vars vals : Array Expr) (k : Array Expr → Array Expr → Array Expr → Array Expr → MetaM Expr) :
          MetaM Expr := do
        if i < as.size then
          match tys[i]! with
          | none => mkVars (i+1) (as'.push as[i]!) (bs'.push bs[i]!) vars vals k
          | some (aty, _) =>
            withLocalDeclD `a aty fun a => withLocalDeclD `b aty fun b =>
              mkVars (i+1) (as'.push a) (bs'.push b) (vars.push a |>.push b) (vals.push as[i]! |>.push bs[i]!) k
        else k as' bs' vars vals
      let pB ← withLocalDeclD `F fTy fun F => mkVars 0 #[] #[] #[] #[] fun as' bs' vars vals => do
        let tF := mkAppN F as'
        let eF := mkAppN F bs'
        let motive ← withLocalDeclD `d dTy fun d => do
          let lhsd := mkApp5 (.const ``ite [u]) α c d tF eF
          mkLambdaFVars #[d] (mkApp3 (.const ``Eq [u]) α lhsd (mkRf F d as' bs'))
        let mF := Expr.lam `h (mkNot c) (refl eF) .default
        let mT := Expr.lam `h c (refl tF) .default
        let pF := mkAppN (.const ``Decidable.casesOn [Level.zero]) #[c, motive, inst, mF, mT]
        return mkAppN (mkApp (← mkLambdaFVars (#[F] ++ vars) pF) f) vals
      let p := match pA? with
        | none => pB
        | some pA => mkEqTrans' u α e eA r pA pB
      return (r, some p)
    else
      return (eA, pA?)
  | .const ``Bind.bind _, #[m, _, α, β, a, k] =>
    let (a', pa?) ← symExec deep u (mkApp m α) a
    let some (v, h) ← findOk a' |
      -- a call whose result is not known: in deep mode continue under the binder
      if deep then
        let aTy := mkApp m α
        let res ← withLocalDeclD `v α fun v => do
          let body := k.beta #[v]
          let (body', p?) ← symExec deep u ty body
          let k' ← mkLambdaFVars #[v] body'
          let pk ← mkLambdaFVars #[v] (p?.getD (mkEqRefl' u ty body))
          return (k', pk)
        let (k', pk) := res
        let pa := pa?.getD (mkEqRefl' u aTy a)
        let e' := mkAppN e.getAppFn #[m, e.getAppArgs[1]!, α, β, a', k']
        let p := mkAppN (.const ``bind_congr_both []) #[α, β, a, a', k, k', pa, pk]
        return (e', some p)
      else return (e, none)
    let aTy := mkApp m α
    let hTot := match pa? with
      | none => h
      | some pa => mkEqTrans' u aTy a a' (mkApp3 (.const ``Except.ok [.zero, .zero]) (m.appArg!) α v) pa h
    let e1 := k.beta #[v]
    let p1 := mkAppN (.const ``bind_ok_step []) #[α, β, a, v, hTot, k]
    let (e2, p2?) ← symExec deep u ty e1
    let p := match p2? with
      | none => p1
      | some p2 => mkEqTrans' u ty e e1 e2 p1 p2
    return (e2, some p)
  | _, _ => return (e, none)

/-- run `symExec` on the left-hand side of the goal -/
def symExecTac (deep : Bool) : TacticM Unit := withMainContext do
  let g ← getMainGoal
  let t := (← instantiateMVars (← g.getType)).consumeMData
  let some (ty, lhs, rhs) := t.eq? | throwError "sym_exec: not an equation"
  let u ← getLevel ty
  let (lhs', p?) ← symExec deep u ty lhs
  match p? with
  | none =>
    let g' ← g.replaceTargetDefEq (mkApp3 (.const ``Eq [u]) ty lhs' rhs)
    replaceMainGoal [g']
  | some p =>
    let rest ← mkFreshExprSyntheticOpaqueMVar (mkApp3 (.const ``Eq [u]) ty lhs' rhs) `rest
    g.assign (mkEqTrans' u ty lhs lhs' rhs p rest)
    replaceMainGoal [rest.mvarId!]

/-- symbolic execution up to the next join point -/
elab "sym_exec2" : tactic => symExecTac false
/-- symbolic execution through the join points as well (for a region that ends the routine) -/
elab "sym_exec2!" : tactic => symExecTac true

end Sym2

open Dec.C01GenAddLoop.Sym2

/-! ## 2. The branch `delta = P34`: the code level -/

/-- the main part of the branch `delta = P34` (that test true), as in the source: the second operand is compared with half
a unit of the 34th digit of the first one -/
def d34Main (x_sign_ y_sign_ x_exp_ C1_hi_ C1_lo_ C2_hi_ C2_lo_ : UInt64) (q1_ q2_ : Int32) (rnd_mode : RoundingMode)
    (pfpsf_ : UInt32) : Except String (U128 × UInt32) := do
  let mut res : U128 := (⟨(0xbaddbaddbaddbadd : UInt64), (0xbaddbaddbaddbadd : UInt64)⟩ : U128)
  let mut x_sign : UInt64 := default
  let mut y_sign : UInt64 := default
  let mut tmp_sign : UInt64 := default
  let mut x_exp : UInt64 := default
  let mut y_exp : UInt64 := default
  let mut tmp_exp : UInt64 := default
  let mut C1_hi : UInt64 := default
  let mut C2_hi : UInt64 := default
  let mut tmp_signif_hi : UInt64 := default
  let mut C1_lo : UInt64 := default
  let mut C2_lo : UInt64 := default
  let mut tmp_signif_lo : UInt64 := default
  let mut tmp64 : UInt64 := default
  let mut tmp64A : UInt64 := default
  let mut tmp64B : UInt64 := default
  let mut tmp1 : F64U := default
  let mut tmp2 : F64U := default
  let mut x_nr_bits : Int32 := default
  let mut y_nr_bits : Int32 := default
  let mut q1 : Int32 := default
  let mut q2 : Int32 := default
  let mut delta : Int32 := default
  let mut scale : Int32 := default
  let mut x1 : Int32 := default
  let mut ind : Int32 := default
  let mut shift : Int32 := default
  let mut tmp_inexact : Bool := false
  let mut halfulp64 : UInt64 := default
  let mut halfulp128 : U128 := default
  let mut C1 : U128 := default
  let mut C2 : U128 := default
  let mut ten2m1 : U128 := default
  let mut highf2star : U128 := default
  let mut P256 : U256 := default
  let mut Q256 : U256 := default
  let mut R256 : U256 := default
  let mut is_inexact : Bool := false
  let mut is_midpoint_lt_even : Bool := false
  let mut is_midpoint_gt_even : Bool := false
  let mut is_inexact_lt_midpoint : Bool := false
  let mut is_inexact_gt_midpoint : Bool := false
  let mut second_pass : Bool := false
  x_sign := x_sign_
  y_sign := y_sign_
  x_exp := x_exp_
  C1_hi := C1_hi_
  C1_lo := C1_lo_
  C2_hi := C2_hi_
  C2_lo := C2_lo_
  q1 := q1_
  q2 := q2_
  let mut pfpsf : UInt32 := pfpsf_
  if (decide (q2 ≤ (0x13 : Int32))) then
    halfulp64 := (← tbl64 Dec.Gen.BID_MIDPOINT64 (UInt64.ofInt (toI ((q2 - (1 : Int32))))))
    if (decide (C2_lo < halfulp64)) then
      if (decide (q1 < c_P34)) then
        scale := (c_P34 - q1)
        if (decide (q1 ≤ (0x13 : Int32))) then
          if (decide (scale ≤ (0x13 : Int32))) then
            C1 := (← mul_64x64_to_128MACH (← tbl64 Dec.Gen.BID_TEN2K64 (UInt64.ofInt (toI scale))) C1_lo)
          else
            C1_lo := (C1_lo * (← tbl64 Dec.Gen.BID_TEN2K64 (UInt64.ofInt (toI ((scale - (0x13 : Int32)))))))
            C1 := (← mul_64x64_to_128MACH (← tbl64 Dec.Gen.BID_TEN2K64 (UInt64.ofInt (toI 0x13))) C1_lo)
        else
          C1 := { C1 with w1 := C1_hi }
          C1 := { C1 with w0 := C1_lo }
          C1 := (← mul_128x64_to_128 (← tbl64 Dec.Gen.BID_TEN2K64 (UInt64.ofInt (toI ((c_P34 - q1))))) C1)
        x_exp := (x_exp - (((UInt64.ofInt (toI scale))) <<< 0x31))
        C1_hi := C1.w1
        C1_lo := C1.w0
      if (rnd_mode != RoundingMode.NearestEven) then
        if (((((rnd_mode == RoundingMode.Downward) && (x_sign != (0 : UInt64))) && (y_sign != (0 : UInt64)))) || ((((rnd_mode == RoundingMode.Upward) && (x_sign == (0 : UInt64))) && (y_sign == (0 : UInt64))))) then
          C1_lo := (C1_lo + 1)
          if (C1_lo == (0 : UInt64)) then
            C1_hi := (C1_hi + 1)
          if ((C1_hi == (0x1ed09bead87c0 : UInt64)) && (C1_lo == (0x378d8e6400000000 : UInt64))) then
            C1_hi := (0x314dc6448d93 : UInt64)
            C1_lo := (0x38c15b0a00000000 : UInt64)
            x_exp := (x_exp + c_EXP_P1)
            if (x_exp == c_EXP_MAX_P1) then
              C1_hi := (0x7800000000000000 : UInt64)
              C1_lo := (0 : UInt64)
              x_exp := (0 : UInt64)
              pfpsf := (pfpsf ||| c_StatusFlags_BID_OVERFLOW_EXCEPTION)
        else
          if ((((((rnd_mode == RoundingMode.Downward) && (x_sign == (0 : UInt64))) && (y_sign != (0 : UInt64)))) || ((((rnd_mode == RoundingMode.Upward) && (x_sign != (0 : UInt64))) && (y_sign == (0 : UInt64))))) || (((rnd_mode == RoundingMode.TowardZero) && (x_sign != y_sign)))) then
            C1_lo := (C1_lo - 1)
            if (C1_lo == (0xffffffffffffffff : UInt64)) then
              C1_hi := (C1_hi - 1)
            if ((C1_hi == (0x314dc6448d93 : UInt64)) && (C1_lo == (0x38c15b09ffffffff : UInt64))) then
              C1_hi := (0x1ed09bead87c0 : UInt64)
              C1_lo := (0x378d8e63ffffffff : UInt64)
              x_exp := (x_exp - c_EXP_P1)
          else
            pure ()
      pfpsf := (pfpsf ||| c_StatusFlags_BID_INEXACT_EXCEPTION)
      res := { res with w1 := ((x_sign ||| x_exp) ||| C1_hi) }
      res := { res with w0 := C1_lo }
    else
      if (((C2_lo == halfulp64)) && (((decide (q1 < c_P34)) || ((((C1_lo &&& (1 : UInt64))) == (0 : UInt64)))))) then
        if (decide (q1 < c_P34)) then
          scale := (c_P34 - q1)
          if (decide (q1 ≤ (0x13 : Int32))) then
            if (decide (scale ≤ (0x13 : Int32))) then
              C1 := (← mul_64x64_to_128MACH (← tbl64 Dec.Gen.BID_TEN2K64 (UInt64.ofInt (toI scale))) C1_lo)
            else
              C1_lo := (C1_lo * (← tbl64 Dec.Gen.BID_TEN2K64 (UInt64.ofInt (toI ((scale - (0x13 : Int32)))))))
              C1 := (← mul_64x64_to_128MACH (← tbl64 Dec.Gen.BID_TEN2K64 (UInt64.ofInt (toI 0x13))) C1_lo)
          else
            C1 := { C1 with w1 := C1_hi }
            C1 := { C1 with w0 := C1_lo }
            C1 := (← mul_128x64_to_128 (← tbl64 Dec.Gen.BID_TEN2K64 (UInt64.ofInt (toI ((c_P34 - q1))))) C1)
          x_exp := (x_exp - (((UInt64.ofInt (toI scale))) <<< 0x31))
          C1_hi := C1.w1
          C1_lo := C1.w0
        if (((((((rnd_mode == RoundingMode.NearestEven) && (x_sign == y_sign)) && (((C1_lo &&& (1 : UInt64))) == (1 : UInt64)))) || (((rnd_mode == RoundingMode.NearestAway) && (x_sign == y_sign)))) || ((((rnd_mode == RoundingMode.Upward) && (x_sign == (0 : UInt64))) && (y_sign == (0 : UInt64))))) || ((((rnd_mode == RoundingMode.Downward) && (x_sign != (0 : UInt64))) && (y_sign != (0 : UInt64))))) then
          C1_lo := (C1_lo + 1)
          if (C1_lo == (0 : UInt64)) then
            C1_hi := (C1_hi + 1)
          if ((C1_hi == (0x1ed09bead87c0 : UInt64)) && (C1_lo == (0x378d8e6400000000 : UInt64))) then
            C1_hi := (0x314dc6448d93 : UInt64)
            C1_lo := (0x38c15b0a00000000 : UInt64)
            x_exp := (x_exp + c_EXP_P1)
            if (x_exp == c_EXP_MAX_P1) then
              C1_hi := (0x7800000000000000 : UInt64)
              C1_lo := (0 : UInt64)
              x_exp := (0 : UInt64)
              pfpsf := (pfpsf ||| c_StatusFlags_BID_OVERFLOW_EXCEPTION)
        else
          if (((((((rnd_mode == RoundingMode.NearestEven) && (x_sign != y_sign)) && (((C1_lo &&& (1 : UInt64))) == (1 : UInt64)))) || ((((rnd_mode == RoundingMode.Downward) && (x_sign == (0 : UInt64))) && (y_sign != (0 : UInt64))))) || ((((rnd_mode == RoundingMode.Upward) && (x_sign != (0 : UInt64))) && (y_sign == (0 : UInt64))))) || (((rnd_mode == RoundingMode.TowardZero) && (x_sign != y_sign)))) then
            C1_lo := (C1_lo - 1)
            if (C1_lo == (0xffffffffffffffff : UInt64)) then
              C1_hi := (C1_hi - 1)
            if ((C1_hi == (0x314dc6448d93 : UInt64)) && (C1_lo == (0x38c15b09ffffffff : UInt64))) then
              C1_hi := (0x1ed09bead87c0 : UInt64)
              C1_lo := (0x378d8e63ffffffff : UInt64)
              x_exp := (x_exp - c_EXP_P1)
          else
            pure ()
        pfpsf := (pfpsf ||| c_StatusFlags_BID_INEXACT_EXCEPTION)
        res := { res with w1 := ((x_sign ||| x_exp) ||| C1_hi) }
        res := { res with w0 := C1_lo }
      else
        if (decide (q1 < c_P34)) then
          scale := (c_P34 - q1)
          if (decide (q1 ≤ (0x13 : Int32))) then
            if (decide (scale ≤ (0x13 : Int32))) then
              C1 := (← mul_64x64_to_128MACH (← tbl64 Dec.Gen.BID_TEN2K64 (UInt64.ofInt (toI scale))) C1_lo)
            else
              C1_lo := (C1_lo * (← tbl64 Dec.Gen.BID_TEN2K64 (UInt64.ofInt (toI ((scale - (0x13 : Int32)))))))
              C1 := (← mul_64x64_to_128MACH (← tbl64 Dec.Gen.BID_TEN2K64 (UInt64.ofInt (toI 0x13))) C1_lo)
          else
            C1 := { C1 with w1 := C1_hi }
            C1 := { C1 with w0 := C1_lo }
            C1 := (← mul_128x64_to_128 (← tbl64 Dec.Gen.BID_TEN2K64 (UInt64.ofInt (toI ((c_P34 - q1))))) C1)
          x_exp := (x_exp - (((UInt64.ofInt (toI scale))) <<< 0x31))
          C1_hi := C1.w1
          C1_lo := C1.w0
          if ((C1_hi == (0x1ed09bead87c0 : UInt64)) && (C1_lo == (0x378d8e6400000000 : UInt64))) then
            C1_hi := (0x314dc6448d93 : UInt64)
            C1_lo := (0x38c15b0a00000000 : UInt64)
            x_exp := (x_exp + c_EXP_P1)
        if (((((((rnd_mode == RoundingMode.NearestEven) && (x_sign != y_sign))) || ((((rnd_mode == RoundingMode.NearestAway) && (x_sign != y_sign)) && (C2_lo != halfulp64)))) || ((((rnd_mode == RoundingMode.Downward) && (x_sign == (0 : UInt64))) && (y_sign != (0 : UInt64))))) || ((((rnd_mode == RoundingMode.Upward) && (x_sign != (0 : UInt64))) && (y_sign == (0 : UInt64))))) || (((rnd_mode == RoundingMode.TowardZero) && (x_sign != y_sign)))) then
          C1_lo := (C1_lo - 1)
          if (C1_lo == (0xffffffffffffffff : UInt64)) then
            C1_hi := (C1_hi - 1)
          if ((C1_hi == (0x314dc6448d93 : UInt64)) && (C1_lo == (0x38c15b09ffffffff : UInt64))) then
            C1_hi := (0x1ed09bead87c0 : UInt64)
            C1_lo := (0x378d8e63ffffffff : UInt64)
            x_exp := (x_exp - c_EXP_P1)
        else
          if ((((((rnd_mode == RoundingMode.NearestEven) && (x_sign == y_sign))) || (((rnd_mode == RoundingMode.NearestAway) && (x_sign == y_sign)))) || ((((rnd_mode == RoundingMode.Downward) && (x_sign != (0 : UInt64))) && (y_sign != (0 : UInt64))))) || ((((rnd_mode == RoundingMode.Upward) && (x_sign == (0 : UInt64))) && (y_sign == (0 : UInt64))))) then
            C1_lo := (C1_lo + 1)
            if (C1_lo == (0 : UInt64)) then
              C1_hi := (C1_hi + 1)
            if ((C1_hi == (0x1ed09bead87c0 : UInt64)) && (C1_lo == (0x378d8e6400000000 : UInt64))) then
              C1_hi := (0x314dc6448d93 : UInt64)
              C1_lo := (0x38c15b0a00000000 : UInt64)
              x_exp := (x_exp + c_EXP_P1)
              if (x_exp == c_EXP_MAX_P1) then
                C1_hi := (0x7800000000000000 : UInt64)
                C1_lo := (0 : UInt64)
                x_exp := (0 : UInt64)
                pfpsf := (pfpsf ||| c_StatusFlags_BID_OVERFLOW_EXCEPTION)
          else
            pure ()
        pfpsf := (pfpsf ||| c_StatusFlags_BID_INEXACT_EXCEPTION)
        res := { res with w1 := ((x_sign ||| x_exp) ||| C1_hi) }
        res := { res with w0 := C1_lo }
  else
    halfulp128 := (← tbl128 Dec.Gen.BID_MIDPOINT128 (UInt64.ofInt (toI ((q2 - (0x14 : Int32))))))
    if (((decide (C2_hi < halfulp128.w1))) || (((C2_hi == halfulp128.w1) && (decide (C2_lo < halfulp128.w0))))) then
      if (decide (q1 < c_P34)) then
        scale := (c_P34 - q1)
        if (decide (q1 ≤ (0x13 : Int32))) then
          if (decide (scale ≤ (0x13 : Int32))) then
            C1 := (← mul_64x64_to_128MACH (← tbl64 Dec.Gen.BID_TEN2K64 (UInt64.ofInt (toI scale))) C1_lo)
          else
            C1_lo := (C1_lo * (← tbl64 Dec.Gen.BID_TEN2K64 (UInt64.ofInt (toI ((scale - (0x13 : Int32)))))))
            C1 := (← mul_64x64_to_128MACH (← tbl64 Dec.Gen.BID_TEN2K64 (UInt64.ofInt (toI 0x13))) C1_lo)
        else
          C1 := { C1 with w1 := C1_hi }
          C1 := { C1 with w0 := C1_lo }
          C1 := (← mul_128x64_to_128 (← tbl64 Dec.Gen.BID_TEN2K64 (UInt64.ofInt (toI ((c_P34 - q1))))) C1)
        C1_hi := C1.w1
        C1_lo := C1.w0
        x_exp := (x_exp - (((UInt64.ofInt (toI scale))) <<< 0x31))
      if (rnd_mode != RoundingMode.NearestEven) then
        if (((((rnd_mode == RoundingMode.Downward) && (x_sign != (0 : UInt64))) && (y_sign != (0 : UInt64)))) || ((((rnd_mode == RoundingMode.Upward) && (x_sign == (0 : UInt64))) && (y_sign == (0 : UInt64))))) then
          C1_lo := (C1_lo + 1)
          if (C1_lo == (0 : UInt64)) then
            C1_hi := (C1_hi + 1)
          if ((C1_hi == (0x1ed09bead87c0 : UInt64)) && (C1_lo == (0x378d8e6400000000 : UInt64))) then
            C1_hi := (0x314dc6448d93 : UInt64)
            C1_lo := (0x38c15b0a00000000 : UInt64)
            x_exp := (x_exp + c_EXP_P1)
            if (x_exp == c_EXP_MAX_P1) then
              C1_hi := (0x7800000000000000 : UInt64)
              C1_lo := (0 : UInt64)
              x_exp := (0 : UInt64)
              pfpsf := (pfpsf ||| c_StatusFlags_BID_OVERFLOW_EXCEPTION)
        else
          if ((((((rnd_mode == RoundingMode.Downward) && (x_sign == (0 : UInt64))) && (y_sign != (0 : UInt64)))) || ((((rnd_mode == RoundingMode.Upward) && (x_sign != (0 : UInt64))) && (y_sign == (0 : UInt64))))) || (((rnd_mode == RoundingMode.TowardZero) && (x_sign != y_sign)))) then
            C1_lo := (C1_lo - 1)
            if (C1_lo == (0xffffffffffffffff : UInt64)) then
              C1_hi := (C1_hi - 1)
            if ((C1_hi == (0x314dc6448d93 : UInt64)) && (C1_lo == (0x38c15b09ffffffff : UInt64))) then
              C1_hi := (0x1ed09bead87c0 : UInt64)
              C1_lo := (0x378d8e63ffffffff : UInt64)
              x_exp := (x_exp - c_EXP_P1)
          else
            pure ()
      pfpsf := (pfpsf ||| c_StatusFlags_BID_INEXACT_EXCEPTION)
      res := { res with w1 := ((x_sign ||| x_exp) ||| C1_hi) }
      res := { res with w0 := C1_lo }
    else
      if ((((C2_hi == halfulp128.w1) && (C2_lo == halfulp128.w0))) && (((decide (q1 < c_P34)) || ((((C1_lo &&& (1 : UInt64))) == (0 : UInt64)))))) then
        if (decide (q1 < c_P34)) then
          scale := (c_P34 - q1)
          if (decide (q1 ≤ (0x13 : Int32))) then
            if (decide (scale ≤ (0x13 : Int32))) then
              C1 := (← mul_64x64_to_128MACH (← tbl64 Dec.Gen.BID_TEN2K64 (UInt64.ofInt (toI scale))) C1_lo)
            else
              C1_lo := (C1_lo * (← tbl64 Dec.Gen.BID_TEN2K64 (UInt64.ofInt (toI ((scale - (0x13 : Int32)))))))
              C1 := (← mul_64x64_to_128MACH (← tbl64 Dec.Gen.BID_TEN2K64 (UInt64.ofInt (toI 0x13))) C1_lo)
          else
            C1 := { C1 with w1 := C1_hi }
            C1 := { C1 with w0 := C1_lo }
            C1 := (← mul_128x64_to_128 (← tbl64 Dec.Gen.BID_TEN2K64 (UInt64.ofInt (toI ((c_P34 - q1))))) C1)
          x_exp := (x_exp - (((UInt64.ofInt (toI scale))) <<< 0x31))
          C1_hi := C1.w1
          C1_lo := C1.w0
        if (rnd_mode != RoundingMode.NearestEven) then
          if (((((rnd_mode == RoundingMode.NearestAway) && (x_sign == y_sign))) || ((((rnd_mode == RoundingMode.Upward) && (x_sign == (0 : UInt64))) && (y_sign == (0 : UInt64))))) || ((((rnd_mode == RoundingMode.Downward) && (x_sign != (0 : UInt64))) && (y_sign != (0 : UInt64))))) then
            C1_lo := (C1_lo + 1)
            if (C1_lo == (0 : UInt64)) then
              C1_hi := (C1_hi + 1)
            if ((C1_hi == (0x1ed09bead87c0 : UInt64)) && (C1_lo == (0x378d8e6400000000 : UInt64))) then
              C1_hi := (0x314dc6448d93 : UInt64)
              C1_lo := (0x38c15b0a00000000 : UInt64)
              x_exp := (x_exp + c_EXP_P1)
              if (x_exp == c_EXP_MAX_P1) then
                C1_hi := (0x7800000000000000 : UInt64)
                C1_lo := (0 : UInt64)
                x_exp := (0 : UInt64)
                pfpsf := (pfpsf ||| c_StatusFlags_BID_OVERFLOW_EXCEPTION)
          else
            if ((((((rnd_mode == RoundingMode.Downward) && (x_sign == (0 : UInt64))) && (y_sign != (0 : UInt64)))) || ((((rnd_mode == RoundingMode.Upward) && (x_sign != (0 : UInt64))) && (y_sign == (0 : UInt64))))) || (((rnd_mode == RoundingMode.TowardZero) && (x_sign != y_sign)))) then
              C1_lo := (C1_lo - 1)
              if (C1_lo == (0xffffffffffffffff : UInt64)) then
                C1_hi := (C1_hi - 1)
              if ((C1_hi == (0x314dc6448d93 : UInt64)) && (C1_lo == (0x38c15b09ffffffff : UInt64))) then
                C1_hi := (0x1ed09bead87c0 : UInt64)
                C1_lo := (0x378d8e63ffffffff : UInt64)
                x_exp := (x_exp - c_EXP_P1)
            else
              pure ()
        pfpsf := (pfpsf ||| c_StatusFlags_BID_INEXACT_EXCEPTION)
        res := { res with w1 := ((x_sign ||| x_exp) ||| C1_hi) }
        res := { res with w0 := C1_lo }
      else
        if (decide (q1 < c_P34)) then
          scale := (c_P34 - q1)
          if (decide (q1 ≤ (0x13 : Int32))) then
            if (decide (scale ≤ (0x13 : Int32))) then
              C1 := (← mul_64x64_to_128MACH (← tbl64 Dec.Gen.BID_TEN2K64 (UInt64.ofInt (toI scale))) C1_lo)
            else
              C1_lo := (C1_lo * (← tbl64 Dec.Gen.BID_TEN2K64 (UInt64.ofInt (toI ((scale - (0x13 : Int32)))))))
              C1 := (← mul_64x64_to_128MACH (← tbl64 Dec.Gen.BID_TEN2K64 (UInt64.ofInt (toI 0x13))) C1_lo)
          else
            C1 := { C1 with w1 := C1_hi }
            C1 := { C1 with w0 := C1_lo }
            C1 := (← mul_128x64_to_128 (← tbl64 Dec.Gen.BID_TEN2K64 (UInt64.ofInt (toI ((c_P34 - q1))))) C1)
          C1_hi := C1.w1
          C1_lo := C1.w0
          x_exp := (x_exp - (((UInt64.ofInt (toI scale))) <<< 0x31))
        if (((((((rnd_mode == RoundingMode.NearestEven) && (x_sign != y_sign))) || ((((rnd_mode == RoundingMode.NearestAway) && (x_sign != y_sign)) && (((C2_hi != halfulp128.w1) || (C2_lo != halfulp128.w0)))))) || ((((rnd_mode == RoundingMode.Downward) && (x_sign == (0 : UInt64))) && (y_sign != (0 : UInt64))))) || ((((rnd_mode == RoundingMode.Upward) && (x_sign != (0 : UInt64))) && (y_sign == (0 : UInt64))))) || (((rnd_mode == RoundingMode.TowardZero) && (x_sign != y_sign)))) then
          C1_lo := (C1_lo - 1)
          if (C1_lo == (0xffffffffffffffff : UInt64)) then
            C1_hi := (C1_hi - 1)
          if ((C1_hi == (0x314dc6448d93 : UInt64)) && (C1_lo == (0x38c15b09ffffffff : UInt64))) then
            C1_hi := (0x1ed09bead87c0 : UInt64)
            C1_lo := (0x378d8e63ffffffff : UInt64)
            x_exp := (x_exp - c_EXP_P1)
        else
          if ((((((rnd_mode == RoundingMode.NearestEven) && (x_sign == y_sign))) || (((rnd_mode == RoundingMode.NearestAway) && (x_sign == y_sign)))) || ((((rnd_mode == RoundingMode.Downward) && (x_sign != (0 : UInt64))) && (y_sign != (0 : UInt64))))) || ((((rnd_mode == RoundingMode.Upward) && (x_sign == (0 : UInt64))) && (y_sign == (0 : UInt64))))) then
            C1_lo := (C1_lo + 1)
            if (C1_lo == (0 : UInt64)) then
              C1_hi := (C1_hi + 1)
            if ((C1_hi == (0x1ed09bead87c0 : UInt64)) && (C1_lo == (0x378d8e6400000000 : UInt64))) then
              C1_hi := (0x314dc6448d93 : UInt64)
              C1_lo := (0x38c15b0a00000000 : UInt64)
              x_exp := (x_exp + c_EXP_P1)
              if (x_exp == c_EXP_MAX_P1) then
                C1_hi := (0x7800000000000000 : UInt64)
                C1_lo := (0 : UInt64)
                x_exp := (0 : UInt64)
                pfpsf := (pfpsf ||| c_StatusFlags_BID_OVERFLOW_EXCEPTION)
          else
            pure ()
        pfpsf := (pfpsf ||| c_StatusFlags_BID_INEXACT_EXCEPTION)
        res := { res with w1 := ((x_sign ||| x_exp) ||| C1_hi) }
        res := { res with w0 := C1_lo }
  return (res, pfpsf)


open Dec.C13GenNoncomp (ten2k64_get bmod32)

/-- **the branch `delta = P34`, first test true** (the signs agree, or the first coefficient `cA` is not `10^(QA−1)`):
`bid128_add` continues with `d34Main` -/
theorem code_d34 (x y a b : U128) (m : RoundingMode) (f : UInt32)
    (hsp : ¬ ((x.w1 &&& c_MASK_SPECIAL == c_MASK_SPECIAL) || (y.w1 &&& c_MASK_SPECIAL == c_MASK_SPECIAL)) = true)
    (hx0 : ¬ (uH x == 0 && uL x == 0) = true) (hy0 : ¬ (uH y == 0 && uL y == 0) = true)
    (hab : Ordered x y a b)
    (D D1 : UInt32) (THI TLO : UInt64) (D' D1' : UInt32) (THI' TLO' : UInt64)
    (hTa : tblDD Dec.Gen.BID_NR_DIGITS (UInt64.ofInt (toI (nbOf (uH a) (uL a)))) = .ok ⟨D, THI, TLO, D1⟩)
    (hTb : tblDD Dec.Gen.BID_NR_DIGITS (UInt64.ofInt (toI (nbOf (uH b) (uL b)))) = .ok ⟨D', THI', TLO', D1'⟩)
    (hd1 : decide (deltaOf (qOf D D1 THI TLO (uH a) (uL a)) (qOf D' D1' THI' TLO' (uH b) (uL b)) (uE a) (uE b) ≥ c_P34) = true)
    (hd2 : ¬ decide (deltaOf (qOf D D1 THI TLO (uH a) (uL a)) (qOf D' D1' THI' TLO' (uH b) (uL b)) (uE a) (uE b) ≥ c_P34 + 1) = true)
    (cA QA : Nat) (hC : (uH a).toNat * 2^64 + (uL a).toNat = cA) (hqa : (qOf D D1 THI TLO (uH a) (uL a)).toInt = QA)
    (hQ1 : 1 ≤ QA) (hQ34 : QA ≤ 34)
    (hc : (a.w1 &&& c_MASK_SIGN == b.w1 &&& c_MASK_SIGN) = true ∨ cA ≠ 10 ^ (QA - 1)) :
    bid128_add x y m f =
      d34Main (a.w1 &&& c_MASK_SIGN) (b.w1 &&& c_MASK_SIGN) (uE a) (uH a) (uL a) (uH b) (uL b)
        (qOf D D1 THI TLO (uH a) (uL a)) (qOf D' D1' THI' TLO' (uH b) (uL b)) m f := by
  add_front
  take_pos
  · rw [hq1, hq2, hea, heb]; exact hd1
  take_neg
  · rw [hq1, hq2, hea, heb]; exact hd2
  subst hsa hsb hea heb hah hbh hal hbl hq1 hq2
  generalize hq1 : qOf D D1 THI TLO (uH a) (uL a) = q1 at *
  have hl := (uL a).toNat_lt
  have htt : true = true := rfl
  have hft : ¬ false = true := Bool.false_ne_true
  head_step
  -- the two halves of the test
  refine Eq.trans (bind_ok_step (v := (a.w1 &&& c_MASK_SIGN == b.w1 &&& c_MASK_SIGN) || decide (QA ≤ 20)) ?_ _) ?_
  · by_cases hs : (a.w1 &&& c_MASK_SIGN == b.w1 &&& c_MASK_SIGN) = true
    · sym_exec
      rw [hs]; rfl
    · have hne : cA ≠ 10 ^ (QA - 1) := hc.resolve_left hs
      have hs' : (a.w1 &&& c_MASK_SIGN == b.w1 &&& c_MASK_SIGN) = false := by simpa using hs
      by_cases h20 : QA ≤ 20
      · have hq20 : decide (q1 ≤ 20) = true := by rw [i32_le_lit, hqa]; exact decide_eq_true (by simpa using h20)
        by_cases hh : (uH a != 0) = true
        · sym_exec
          rw [hs', decide_eq_true h20]; rfl
        · obtain ⟨v, hv, hv10⟩ := ten2k64_get (QA - 1) (by omega)
          have hidx : (q1 - 1).toInt = ((QA - 1 : Nat) : Int) := by
            rw [Int32.toInt_sub, hqa, show (1 : Int32).toInt = 1 from by decide, bmod32 _ (by omega) (by omega)]; omega
          rw [← idx_i32 (q1 - 1) (QA - 1) hidx] at hv
          sym_exec
          rw [hs', decide_eq_true h20]
          refine congrArg Except.ok ?_
          show (uL a != v) = true
          rw [bne_iff_ne, ne_eq, ← UInt64.toNat_inj, hv10]
          have : (uH a).toNat = 0 := by
            have : uH a = 0 := by simpa using hh
            rw [this]; rfl
          intro h; apply hne; omega
      · have hq20 : ¬ decide (q1 ≤ 20) = true := by rw [i32_le_lit, hqa]; simpa using h20
        sym_exec
        rw [hs', decide_eq_false h20]; rfl
  head_step
  refine Eq.trans (bind_ok_step (v := true) ?_ _) ?_
  · by_cases hv1 : ((a.w1 &&& c_MASK_SIGN == b.w1 &&& c_MASK_SIGN) || decide (QA ≤ 20)) = true
    · sym_exec
      rfl
    · have hv1' := hv1
      rw [Bool.or_eq_true, not_or] at hv1
      have hne : cA ≠ 10 ^ (QA - 1) := hc.resolve_left hv1.1
      have h20 : ¬ QA ≤ 20 := by simpa using hv1.2
      have hq21 : decide (q1 ≥ 21) = true := by
        rw [i32_ge, hqa, show (21 : Int32).toInt = 21 from by decide]; exact decide_eq_true (by omega)
      obtain ⟨t, ht, ht10⟩ := ten2k128_get19 (QA - 21) (by omega)
      have hidx : (q1 - 21).toInt = ((QA - 21 : Nat) : Int) := by
        rw [Int32.toInt_sub, hqa, show (21 : Int32).toInt = 21 from by decide, bmod32 _ (by omega) (by omega)]; omega
      rw [← idx_i32 (q1 - 21) (QA - 21) hidx] at ht
      have hval : t.w1.toNat * 2^64 + t.w0.toNat = 10 ^ (QA - 1) := by
        rw [show QA - 1 = QA - 21 + 20 from by omega]; exact words_swap t _ ht10
      by_cases hh : (uH a != t.w1) = true
      · sym_exec
        rfl
      · sym_exec
        refine congrArg Except.ok ?_
        show (uL a != t.w0) = true
        rw [bne_iff_ne, ne_eq, ← UInt64.toNat_inj]
        have : (uH a).toNat = t.w1.toNat := by
          have : uH a = t.w1 := by simpa using hh
          rw [this]
        intro h; apply hne; omega
  head_step
  take_pos
  · rfl
  rw [← hq1]
  sym_exec2!
  apply Eq.symm
  unfold d34Main
  sym_exec2!
  rfl

/-! ## 3. The common end of the sub-branches of `delta = P34`: one unit up, one unit down, or nothing -/

/-- the text all these sub-branches end with (tests `up` / `dn` abstracted): the padded coefficient plus one (a carry to
`10^34` becomes `10^33` at the next exponent, or the overflow exit), or minus one (below `10^33`: `10^34 − 1` at the previous
exponent), or unchanged; inexact -/
def modeTail (up dn : Bool) (x_sign x_exp_ C1_hi_ C1_lo_ : UInt64) (pfpsf_ : UInt32) : Except String (U128 × UInt32) := do
  let mut res : U128 := (⟨(0xbaddbaddbaddbadd : UInt64), (0xbaddbaddbaddbadd : UInt64)⟩ : U128)
  let mut pfpsf : UInt32 := pfpsf_
  let mut x_exp : UInt64 := x_exp_
  let mut C1_hi : UInt64 := C1_hi_
  let mut C1_lo : UInt64 := C1_lo_
  if up then
    C1_lo := (C1_lo + 1)
    if (C1_lo == (0 : UInt64)) then
      C1_hi := (C1_hi + 1)
    if ((C1_hi == (0x1ed09bead87c0 : UInt64)) && (C1_lo == (0x378d8e6400000000 : UInt64))) then
      C1_hi := (0x314dc6448d93 : UInt64)
      C1_lo := (0x38c15b0a00000000 : UInt64)
      x_exp := (x_exp + c_EXP_P1)
      if (x_exp == c_EXP_MAX_P1) then
        C1_hi := (0x7800000000000000 : UInt64)
        C1_lo := (0 : UInt64)
        x_exp := (0 : UInt64)
        pfpsf := (pfpsf ||| c_StatusFlags_BID_OVERFLOW_EXCEPTION)
  else
    if dn then
      C1_lo := (C1_lo - 1)
      if (C1_lo == (0xffffffffffffffff : UInt64)) then
        C1_hi := (C1_hi - 1)
      if ((C1_hi == (0x314dc6448d93 : UInt64)) && (C1_lo == (0x38c15b09ffffffff : UInt64))) then
        C1_hi := (0x1ed09bead87c0 : UInt64)
        C1_lo := (0x378d8e63ffffffff : UInt64)
        x_exp := (x_exp - c_EXP_P1)
    else
      pure ()
  pfpsf := (pfpsf ||| c_StatusFlags_BID_INEXACT_EXCEPTION)
  res := { res with w1 := ((x_sign ||| x_exp) ||| C1_hi) }
  res := { res with w0 := C1_lo }
  return (res, pfpsf)

/-- what `modeTail` delivers -/
def modeOut (sA : Bool) (X : Nat) (E : Int) (up dn : Bool) : Datum × Flags :=
  if up = true then
    (if X + 1 = 10^34 then
      (if E + 1 > eMax then (.inf sA, fOverflow ||| fInexact) else (.fin sA (10^33) (E + 1), fInexact))
    else (.fin sA (X + 1) E, fInexact))
  else if dn = true then
    (if X = 10^33 then (.fin sA (10^34 - 1) (E - 1), fInexact) else (.fin sA (X - 1) E, fInexact))
  else (.fin sA X E, fInexact)

theorem modeTail_spec (up dn : Bool) (sa xe hi lo : UInt64) (f : UInt32) (sA : Bool) (X XE : Nat)
    (hsa : sa.toNat = if sA then 2^63 else 0) (hxe : xe.toNat = XE * 2^49) (hXE1 : 1 ≤ XE) (hXE2 : XE ≤ 12287)
    (hX : hi.toNat * 2^64 + lo.toNat = X) (hX1 : 10^33 ≤ X) (hX2 : X < 10^34) :
    modeTail up dn sa xe hi lo f =
      .ok (ofBits (encode (modeOut sA X ((XE : Int) - 6176) up dn).1), f ||| UInt32.ofNat (modeOut sA X ((XE : Int) - 6176) up dn).2) := by
  unfold modeTail modeOut
  head_step
  by_cases hup : up = true
  · take_pos
    · exact hup
    rw [if_pos hup]
    have hv := inc_words hi lo (by rw [hX]; exact lt_trans (by omega : X + 1 < 10^34 + 1) (by decide))
    rw [hX] at hv
    head_step
    sym_exec
    gen_args _ hiC
    head_step
    by_cases hX34 : X + 1 = 10^34
    · take_pos
      · rw [hhiC, eq_words, hv, show (542101086242752 : UInt64).toNat * 2^64 + (4003012203950112768 : UInt64).toNat = 10^34 from by decide]
        exact decide_eq_true hX34
      rw [if_pos hX34]
      head_step
      have hye := expP1 xe XE hxe hXE2
      by_cases hov : XE + 1 = 12288
      · take_pos
        · rw [beq_iff_eq, ← UInt64.toNat_inj, hye, hov]; rfl
        sym_exec!
        rw [if_pos (show (XE : Int) - 6176 + 1 > eMax by unfold eMax; omega)]
        exact congrArg Except.ok (Prod.ext (inf_word sa sA hsa) (flags_oi f))
      · take_neg
        · rw [beq_iff_eq, ← UInt64.toNat_inj, hye]
          show ¬ (XE + 1) * 2^49 = 12288 * 2^49
          omega
        sym_exec!
        rw [if_neg (show ¬ (XE : Int) - 6176 + 1 > eMax by unfold eMax; omega)]
        refine Eq.trans (far_asm sa (xe + c_EXP_P1) 54210108624275 4089650035136921600 f sA (10^33) (XE + 1) hsa hye (by omega)
          (by decide) (by decide)) ?_
        rw [show ((XE + 1 : Nat) : Int) - 6176 = (XE : Int) - 6176 + 1 from by omega]
    · take_neg
      · rw [hhiC, eq_words, hv, show (542101086242752 : UInt64).toNat * 2^64 + (4003012203950112768 : UInt64).toNat = 10^34 from by decide]
        simpa using hX34
      rw [if_neg hX34]
      sym_exec!
      exact far_asm sa xe hiC (lo + 1) f sA (X + 1) XE hsa hxe (by omega) (by rw [hhiC]; exact hv) (by omega)
  · take_neg
    · exact hup
    rw [if_neg hup]
    head_step
    by_cases hdn : dn = true
    · take_pos
      · exact hdn
      rw [if_pos hdn]
      have hv := dec_words hi lo (by rw [hX]; omega)
      rw [hX] at hv
      head_step
      sym_exec
      gen_args _ hiC
      head_step
      by_cases hX33 : X = 10^33
      · take_pos
        · rw [hhiC, eq_words, hv, show (54210108624275 : UInt64).toNat * 2^64 + (4089650035136921599 : UInt64).toNat = 10^33 - 1 from by decide]
          exact decide_eq_true (by omega)
        rw [if_pos hX33]
        sym_exec!
        refine Eq.trans (far_asm sa (xe - c_EXP_P1) 542101086242752 4003012203950112767 f sA (10^34 - 1) (XE - 1) hsa
          (expM1 xe XE hxe hXE1) (by omega) (by decide) (by decide)) ?_
        rw [show ((XE - 1 : Nat) : Int) - 6176 = (XE : Int) - 6176 - 1 from by omega]
      · take_neg
        · rw [hhiC, eq_words, hv, show (54210108624275 : UInt64).toNat * 2^64 + (4089650035136921599 : UInt64).toNat = 10^33 - 1 from by decide]
          simp only [decide_eq_true_eq]; omega
        rw [if_neg hX33]
        sym_exec!
        exact far_asm sa xe hiC (lo - 1) f sA (X - 1) XE hsa hxe (by omega) (by rw [hhiC]; exact hv) (by omega)
    · take_neg
      · exact hdn
      rw [if_neg hdn]
      sym_exec!
      exact far_asm sa xe hi lo f sA X XE hsa hxe (by omega) hX hX2

/-! ## 4. The model on `X·10^k ± c` with `c < 10^k`, in terms of "one unit up / down" -/

theorem ri_cases (mode : Mode) (neg : Bool) (q r D : Nat) : roundInt mode neg q r D = q ∨ roundInt mode neg q r D = q + 1 := by
  unfold roundInt; split <;> simp

theorem ovf_of_up (mode : Mode) (sA : Bool) (q r D : Nat) (h : roundInt mode sA q r D = q + 1) :
    overflowResult mode sA = .inf sA := by
  unfold roundInt roundUp at h
  cases mode <;> cases sA <;> first | rfl | (exfalso; split at h <;> simp at h)

/-- **the model when the second operand is below one unit of the 34th digit of the first** (`c < 10^k`, `X` the first
coefficient padded to 34 digits): the padded coefficient, one unit more (same signs, the mode rounds `c/10^k` up) or one
unit less (opposite signs, the mode rounds `1 − c/10^k` down); inexact -/
theorem finish_mode (mode : Mode) (sA sB : Bool) (X c k : Nat) (eB : Int) (hX1 : 10^33 ≤ X) (hX2 : X < 10^34)
    (hc0 : 0 < c) (hc : c < 10 ^ k) (hk : 1 ≤ k) (he : -6176 ≤ eB) (hE : eB + k ≤ 6111) (hX33 : ¬ sA = sB → 10^33 < X) :
    finish mode sA (if sA = sB then X * 10 ^ k + c else X * 10 ^ k - c) 1 eB eB =
      modeOut sA X (eB + k) (decide (sA = sB ∧ roundInt mode sA X c (10 ^ k) = X + 1))
        (decide (¬ sA = sB ∧ roundInt mode sA (X - 1) (10 ^ k - c) (10 ^ k) = X - 1)) := by
  have hp : 0 < 10 ^ k := Nat.pow_pos (by decide)
  unfold modeOut
  by_cases hs : sA = sB
  · rw [if_pos hs]
    obtain ⟨hd, hm⟩ := divmod_add X k c hc
    have hN1 : 10 ^ (33 + k) ≤ X * 10 ^ k + c := by
      rw [Nat.pow_add]; exact le_trans (Nat.mul_le_mul_right _ hX1) (Nat.le_add_right _ _)
    have hN2 : X * 10 ^ k + c < 10 ^ (34 + k) := by
      rw [Nat.pow_add]
      have : (X + 1) * 10 ^ k ≤ 10 ^ 34 * 10 ^ k := Nat.mul_le_mul_right _ (by omega)
      rw [Nat.succ_mul] at this
      omega
    rw [finish_long mode sA _ eB k hN1 hN2 hk he (by omega) (by rw [hm]; omega), hd, hm]
    rcases ri_cases mode sA X c (10 ^ k) with h | h
    · rw [h, if_neg (show ¬ X = P34 by unfold P34; omega), if_neg (show ¬ eB + k > eMax by unfold eMax; omega),
        if_neg (show ¬ decide (sA = sB ∧ X = X + 1) = true by simp), if_neg (show ¬ decide (¬ sA = sB ∧ _) = true by simp [hs])]
    · rw [h, if_pos (show decide (sA = sB ∧ X + 1 = X + 1) = true by simp [hs])]
      by_cases hX : X + 1 = 10^34
      · rw [if_pos (show X + 1 = P34 from hX), if_pos hX, ovf_of_up mode sA X c _ h]
        rfl
      · rw [if_neg (show ¬ X + 1 = P34 from hX), if_neg hX, if_neg (show ¬ eB + k > eMax by unfold eMax; omega)]
  · rw [if_neg hs]
    have hXgt := hX33 hs
    obtain ⟨hd, hm⟩ := divmod_sub X k c (by omega) hc0 hc
    have e : X * 10 ^ k - c = (X - 1) * 10 ^ k + (10 ^ k - c) := by
      have : X * 10 ^ k = (X - 1) * 10 ^ k + 10 ^ k := by
        rw [← Nat.succ_mul]; congr 1; omega
      omega
    have hN1 : 10 ^ (33 + k) ≤ X * 10 ^ k - c := by
      rw [e, Nat.pow_add]; exact le_trans (Nat.mul_le_mul_right _ (by omega)) (Nat.le_add_right _ _)
    have hN2 : X * 10 ^ k - c < 10 ^ (34 + k) := by
      rw [Nat.pow_add]
      have : X * 10 ^ k ≤ 10 ^ 34 * 10 ^ k := Nat.mul_le_mul_right _ (by omega)
      omega
    rw [finish_long mode sA _ eB k hN1 hN2 hk he (by omega) (by rw [hm]; omega), hd, hm,
      if_neg (show ¬ decide (sA = sB ∧ _) = true by simp [hs])]
    rcases ri_cases mode sA (X - 1) (10 ^ k - c) (10 ^ k) with h | h
    · rw [h, if_neg (show ¬ X - 1 = P34 by unfold P34; omega), if_neg (show ¬ eB + k > eMax by unfold eMax; omega),
        if_pos (show decide (¬ sA = sB ∧ X - 1 = X - 1) = true by simp [hs]), if_neg (show ¬ X = 10^33 by omega)]
    · rw [h, show X - 1 + 1 = X from by omega, if_neg (show ¬ X = P34 by unfold P34; omega),
        if_neg (show ¬ eB + k > eMax by unfold eMax; omega),
        if_neg (show ¬ decide (¬ sA = sB ∧ X = X - 1) = true by simp; omega)]

open Lean Meta Elab Tactic in
/-- case distinction on the test at the head of the left-hand side (after `head_step`) -/
elab "head_cases " h:ident : tactic => withMainContext do
  let g ← getMainGoal
  let t := (← instantiateMVars (← g.getType)).consumeMData
  let some (_, lhs, _) := t.eq? | throwError "head_cases: not an equation"
  let lhs ← whnfCore lhs
  unless lhs.isAppOfArity ``ite 5 do throwError "head_cases: no test at the head"
  let c := lhs.getAppArgs[1]!
  let cs ← Lean.Elab.Term.exprToSyntax c
  evalTactic (← `(tactic| by_cases $h : $cs))

/-- both sides are the same text up to the variables carried along: normalise both and compare -/
macro "sync_with " d:ident : tactic => `(tactic| (sym_exec2!; apply Eq.symm; unfold $d; sym_exec2!; rfl))

/-! ## 5. The main part of the branch `delta = P34` is the model's rounding step -/

open Dec.C13GenNoncomp (bmod32)

theorem sign_bools (sa : UInt64) (sA : Bool) (hsa : sa.toNat = if sA then 2^63 else 0) :
    (sa == 0) = !sA ∧ (sa != 0) = sA := by
  rw [word_of_sign sa sA hsa]; cases sA <;> exact ⟨rfl, rfl⟩
theorem sign_eq_bools (sa sb : UInt64) (sA sB : Bool) (hsa : sa.toNat = if sA then 2^63 else 0)
    (hsb : sb.toNat = if sB then 2^63 else 0) : (sa == sb) = (sA == sB) ∧ (sa != sb) = !(sA == sB) := by
  rw [word_of_sign sa sA hsa, word_of_sign sb sB hsb]; cases sA <;> cases sB <;> exact ⟨rfl, rfl⟩

theorem parity_word (h l : UInt64) : (l &&& 1 == 1) = decide ((h.toNat * 2^64 + l.toNat) % 2 = 1) ∧
    (l &&& 1 == 0) = decide ((h.toNat * 2^64 + l.toNat) % 2 = 0) := by
  have := l.toNat_lt
  constructor
  · rw [C06GenFromInt.test_field l 1 1 1 0 1 (by rfl) (by rfl), decide_eq_decide]; omega
  · rw [C06GenFromInt.test_field l 1 0 1 0 0 (by rfl) (by rfl), decide_eq_decide]; omega

set_option hygiene false in
/-- dummy -/
macro "sem_dummy" : tactic => `(tactic| skip)

set_option hygiene false in
/-- the semantic side conditions of a path of the mode logic: from the code's tests (as Booleans of the mode and the
signs) to what `roundInt` does -/
macro "sem_tac" : tactic => `(tactic| (
  simp only [roundInt, roundUp] at *
  cases m <;> cases sA <;> cases sB <;> simp_all [md] <;> omega))

/-- `padFarK` with separate continuations for the padding paths and for "nothing to pad" -/
def padFarK2 {β : Type} (q1 : Int32) (ea ah al : UInt64) (K1 K2 : UInt64 → UInt64 → UInt64 → Except String β) : Except String β :=
  if decide (q1 < c_P34) = true then
    (if decide (q1 ≤ 19) = true then
      (if decide (c_P34 - q1 ≤ 19) = true then (do
          let t ← tbl64 Dec.Gen.BID_TEN2K64 (UInt64.ofInt (toI (c_P34 - q1)))
          let C1 ← mul_64x64_to_128MACH t al
          K1 (ea - (UInt64.ofInt (toI (c_P34 - q1))) <<< 49) C1.w1 C1.w0)
        else (do
          let t ← tbl64 Dec.Gen.BID_TEN2K64 (UInt64.ofInt (toI (c_P34 - q1 - 19)))
          let t2 ← tbl64 Dec.Gen.BID_TEN2K64 (UInt64.ofInt (toI (19 : Int32)))
          let C1 ← mul_64x64_to_128MACH t2 (al * t)
          K1 (ea - (UInt64.ofInt (toI (c_P34 - q1))) <<< 49) C1.w1 C1.w0))
      else (do
        let t ← tbl64 Dec.Gen.BID_TEN2K64 (UInt64.ofInt (toI (c_P34 - q1)))
        let C1 ← mul_128x64_to_128 t ⟨al, ah⟩
        K1 (ea - (UInt64.ofInt (toI (c_P34 - q1))) <<< 49) C1.w1 C1.w0))
  else K2 ea ah al

theorem padFarK2_ok {β : Type} (q1 : Int32) (ea ah al : UInt64) (C Q EA : Nat) (hC : ah.toNat * 2^64 + al.toNat = C)
    (hq : q1.toInt = Q) (hQ : Q = ndigits C) (hC0 : 0 < C) (hQ34 : Q ≤ 34) (hea : ea.toNat = EA * 2^49)
    (hEA : EA < 2^14) (hpad : 34 - Q ≤ EA) :
    ∃ (xe hi lo : UInt64), hi.toNat * 2^64 + lo.toNat = C * 10 ^ (34 - Q) ∧ xe.toNat = (EA - (34 - Q)) * 2^49 ∧
      ∀ K1 K2 : UInt64 → UInt64 → UInt64 → Except String β,
        padFarK2 q1 ea ah al K1 K2 = if Q < 34 then K1 xe hi lo else K2 xe hi lo := by
  have h34 : c_P34.toInt = 34 := by decide
  by_cases c0 : Q < 34
  · have hq34 : decide (q1 < c_P34) = true := by rw [i32_lt_lit, hq, h34]; exact decide_eq_true (by omega)
    obtain ⟨xe, hi, lo, h1, h2, hK⟩ := padFarK_ok (β := β) q1 ea ah al C Q EA hC hq hQ hC0 hQ34 hea hEA hpad
    refine ⟨xe, hi, lo, h1, h2, fun K1 K2 => ?_⟩
    rw [if_pos c0, ← hK K1]
    unfold padFarK2 padFarK
    rw [if_pos hq34, if_pos hq34]
  · have hq34 : ¬ decide (q1 < c_P34) = true := by rw [i32_lt_lit, hq, h34]; simpa using c0
    have hQe : Q = 34 := by omega
    refine ⟨ea, ah, al, by rw [hQe, Nat.sub_self, Nat.pow_zero, Nat.mul_one]; exact hC,
      by rw [hQe, Nat.sub_self, Nat.sub_zero]; exact hea, fun K1 K2 => ?_⟩
    rw [if_neg c0]
    unfold padFarK2
    rw [if_neg hq34]

set_option hygiene false in
/-- equality of two Booleans given by tests on the mode and the signs -/
macro "sem_bool" : tactic => `(tactic| (
  rw [Bool.eq_iff_iff]
  simp only [roundInt, roundUp]
  cases m <;> cases sA <;> cases sB <;> simp [md] <;> omega))

open Dec.C13GenNoncomp (bmod32)

/-- `d34Main_spec`, second coefficient of at most 19 digits (64-bit half-unit comparison) -/
theorem d34Main_spec64 (sa sb xe ah al bh bl : UInt64) (q1 q2 : Int32) (m : RoundingMode) (f : UInt32) (sA sB : Bool)
    (cA QA EA cB QB : Nat)
    (hsa : sa.toNat = if sA then 2^63 else 0) (hsb : sb.toNat = if sB then 2^63 else 0)
    (hea : xe.toNat = EA * 2^49) (hEA : EA ≤ 12287)
    (hC : ah.toNat * 2^64 + al.toNat = cA) (hq1 : q1.toInt = QA) (hQA : QA = ndigits cA) (hcA0 : 0 < cA) (hQA34 : QA ≤ 34)
    (hB : bh.toNat * 2^64 + bl.toNat = cB) (hq2 : q2.toInt = QB) (hQB : QB = ndigits cB) (hcB0 : 0 < cB) (hQB34 : QB ≤ 34)
    (hXE : (34 - QA) + QB ≤ EA)
    (hX33 : ¬ sA = sB → cA ≠ 10 ^ (QA - 1)) (hq : QB ≤ 19) :
    d34Main sa sb xe ah al bh bl q1 q2 m f =
      .ok (ofBits (encode (finish (md m) sA
            (if sA = sB then cA * 10 ^ (34 - QA) * 10 ^ QB + cB else cA * 10 ^ (34 - QA) * 10 ^ QB - cB) 1
            (((EA - (34 - QA) - QB : Nat) : Int) - 6176) (((EA - (34 - QA) - QB : Nat) : Int) - 6176)).1),
        f ||| UInt32.ofNat (finish (md m) sA
            (if sA = sB then cA * 10 ^ (34 - QA) * 10 ^ QB + cB else cA * 10 ^ (34 - QA) * 10 ^ QB - cB) 1
            (((EA - (34 - QA) - QB : Nat) : Int) - 6176) (((EA - (34 - QA) - QB : Nat) : Int) - 6176)).2) := by
  have htt : true = true := rfl
  have hft : ¬ false = true := Bool.false_ne_true
  have hQA1 := hQA ▸ ndigits_pos hcA0
  have hQB1 := hQB ▸ ndigits_pos hcB0
  -- the padded coefficient
  obtain ⟨xe', hi, lo, hval, hxe', hK⟩ := padFarK2_ok (β := U128 × UInt32) q1 xe ah al cA QA EA hC hq1 hQA hcA0 hQA34 hea
    (by omega) (by omega)
  have hlo' := (ndigits_spec hcA0).1
  have hX1 : 10^33 ≤ cA * 10 ^ (34 - QA) := by
    calc 10^33 = 10 ^ (QA - 1) * 10 ^ (34 - QA) := by rw [← Nat.pow_add]; congr 1; omega
      _ ≤ cA * 10 ^ (34 - QA) := Nat.mul_le_mul_right _ (by rw [hQA]; exact hlo')
  have hX2 : cA * 10 ^ (34 - QA) < 10^34 := pow_lt_of_digits (C := cA) hQA (by omega)
  have hXgt : ¬ sA = sB → 10^33 < cA * 10 ^ (34 - QA) := by
    intro hs
    have hne := hX33 hs
    have : 10 ^ (QA - 1) < cA := lt_of_le_of_ne (by rw [hQA]; exact hlo') (Ne.symm hne)
    calc 10^33 = 10 ^ (QA - 1) * 10 ^ (34 - QA) := by rw [← Nat.pow_add]; congr 1; omega
      _ < cA * 10 ^ (34 - QA) := Nat.mul_lt_mul_of_pos_right this (Nat.pow_pos (by decide))
  have hcBlt : cB < 10 ^ QB := by rw [hQB]; exact lt_pow_ndigits cB
  have hcBge : 10 ^ (QB - 1) ≤ cB := by rw [hQB]; exact (ndigits_spec hcB0).1
  rw [finish_mode (md m) sA sB _ cB QB _ hX1 hX2 hcB0 hcBlt hQB1 (by omega) (by omega) hXgt,
    show (((EA - (34 - QA) - QB : Nat) : Int) - 6176 + QB) = ((EA - (34 - QA) : Nat) : Int) - 6176 from by omega]
  generalize hXdef : cA * 10 ^ (34 - QA) = X at *
  generalize hXEdef : EA - (34 - QA) = XE at *
  generalize hD : 10 ^ QB = Dn at *
  have hDH : Dn = 10 * 10 ^ (QB - 1) := by rw [← hD, ← Nat.pow_succ']; congr 1; omega
  -- Boolean facts
  obtain ⟨hza, hnza⟩ := sign_bools sa sA hsa
  obtain ⟨hzb, hnzb⟩ := sign_bools sb sB hsb
  obtain ⟨hseq, hsne⟩ := sign_eq_bools sa sb sA sB hsa hsb
  obtain ⟨hpar1, hpar0⟩ := parity_word hi lo
  rw [hval] at hpar1 hpar0
  -- the common end of a leaf: the code is `modeTail u d`, and (u, d) is what the model does
  have leaf : ∀ u d : Bool, (u = true → sA = sB ∧ roundInt (md m) sA X cB Dn = X + 1) →
      (u = false → d = true → ¬ sA = sB ∧ roundInt (md m) sA (X - 1) (Dn - cB) Dn = X - 1) →
      (u = false → d = false → ¬ (sA = sB ∧ roundInt (md m) sA X cB Dn = X + 1) ∧
        ¬ (¬ sA = sB ∧ roundInt (md m) sA (X - 1) (Dn - cB) Dn = X - 1)) →
      modeTail u d sa xe' hi lo f =
        .ok (ofBits (encode (modeOut sA X ((XE : Int) - 6176) (decide (sA = sB ∧ roundInt (md m) sA X cB Dn = X + 1))
              (decide (¬ sA = sB ∧ roundInt (md m) sA (X - 1) (Dn - cB) Dn = X - 1))).1),
          f ||| UInt32.ofNat (modeOut sA X ((XE : Int) - 6176) (decide (sA = sB ∧ roundInt (md m) sA X cB Dn = X + 1))
              (decide (¬ sA = sB ∧ roundInt (md m) sA (X - 1) (Dn - cB) Dn = X - 1))).2) := by
    intro u d h1 h2 h3
    rw [modeTail_spec u d sa xe' hi lo f sA X XE hsa hxe' (by omega) (by omega) hval hX1 hX2]
    cases u
    · cases d
      · obtain ⟨g1, g2⟩ := h3 rfl rfl
        rw [decide_eq_false g1, decide_eq_false g2]
      · have g2 := h2 rfl rfl
        have g1 : ¬ (sA = sB ∧ roundInt (md m) sA X cB Dn = X + 1) := fun h => g2.1 h.1
        rw [decide_eq_false g1, decide_eq_true g2]
    · rw [decide_eq_true (h1 rfl)]
      unfold modeOut
      rw [if_pos rfl, if_pos rfl]
  have hXpar : QA < 34 → X % 2 = 0 := by
    intro h
    rw [← hXdef, show 34 - QA = (34 - QA - 1) + 1 from by omega, Nat.pow_succ, ← Nat.mul_assoc]
    omega
  have hXeq : ¬ QA < 34 → X = cA := by
    intro h
    rw [← hXdef, show 34 - QA = 0 from by omega, Nat.pow_zero, Nat.mul_one]
  obtain ⟨hparA1, hparA0⟩ := parity_word ah al
  rw [hC] at hparA1 hparA0
  have h34 : c_P34.toInt = 34 := by decide
  have hq34 : decide (q1 < c_P34) = decide (QA < 34) := by rw [i32_lt_lit, hq1, h34, decide_eq_decide]; omega
  -- the tie test "`X` is even"
  have hEven : (decide (q1 < c_P34) || al &&& 1 == 0) = decide (X % 2 = 0) := by
    rw [hq34, hparA0]
    by_cases h : QA < 34
    · rw [decide_eq_true h, Bool.true_or]; exact (decide_eq_true (hXpar h)).symm
    · rw [decide_eq_false h, Bool.false_or, hXeq h]
  unfold d34Main
  head_step
  have hq19 : decide (q2 ≤ 19) = true := by rw [i32_le_lit, hq2]; exact decide_eq_true (by simpa using hq)
  obtain ⟨v, hv, hv5⟩ := midpoint64_get (QB - 1) (by omega)
  have hidx : (q2 - 1).toInt = ((QB - 1 : Nat) : Int) := by
    rw [Int32.toInt_sub, hq2, show (1 : Int32).toInt = 1 from by decide, bmod32 _ (by omega) (by omega)]; omega
  rw [← idx_i32 (q2 - 1) (QB - 1) hidx] at hv
  have hcs : cB < 10^19 := lt_of_lt_of_le (hD ▸ hcBlt) (Nat.pow_le_pow_right (by decide) hq)
  have hbl : bl.toNat = cB := by
    have := bl.toNat_lt
    have : (10:Nat)^19 < 2^64 := by decide
    omega
  have hblv : (bl == v) = decide (2 * cB = Dn) := by
    rw [Bool.eq_iff_iff, beq_iff_eq, decide_eq_true_eq, ← UInt64.toNat_inj, hbl, hv5]; omega
  have hneH : (bl != v) = decide (2 * cB ≠ Dn) := by
    rw [bne, hblv]; by_cases h : 2 * cB = Dn <;> simp [h]
  take_pos
  · exact hq19
  take_call hv
  head_step
  by_cases hlt : 2 * cB < Dn
  · take_pos
    · rw [decide_eq_true_eq, UInt64.lt_iff_toNat_lt, hbl, hv5]; omega
    have hUP_A : (((((m == RoundingMode.Downward) && (sa != (0 : UInt64))) && (sb != (0 : UInt64)))) || ((((m == RoundingMode.Upward) && (sa == (0 : UInt64))) && (sb == (0 : UInt64))))) = decide (sA = sB ∧ roundInt (md m) sA X cB Dn = X + 1) := by
      simp only [hza, hnza, hzb, hnzb, hseq, hsne, hpar1, hpar0]
      clear * - hlt hcBlt hcB0 hX1 hX2 hXgt
      sem_bool
    have hDN_A : ((((((m == RoundingMode.Downward) && (sa == (0 : UInt64))) && (sb != (0 : UInt64)))) || ((((m == RoundingMode.Upward) && (sa != (0 : UInt64))) && (sb == (0 : UInt64))))) || (((m == RoundingMode.TowardZero) && (sa != sb)))) = decide (¬ sA = sB ∧ roundInt (md m) sA (X - 1) (Dn - cB) Dn = X - 1) := by
      simp only [hza, hnza, hzb, hnzb, hseq, hsne, hpar1, hpar0]
      clear * - hlt hcBlt hcB0 hX1 hX2 hXgt
      sem_bool
    extract_lets -underBinder +onlyGivenNames J
    refine Eq.trans (show _ = padFarK2 q1 xe ah al (fun xe hi lo => J () xe hi lo default default)
      (fun xe hi lo => J () xe hi lo default default) from by unfold padFarK2; rfl) ?_
    rw [hK, ite_self]
    unfold J
    head_step
    head_cases h0
    · take_pos
      · exact h0
      head_step
      head_cases hU
      · take_pos
        · exact hU
        refine Eq.trans (?_ : _ = modeTail true false sa xe' hi lo f) (leaf true false (fun _ => of_decide_eq_true (hUP_A ▸ hU)) (fun h => absurd h (by decide)) (fun h => absurd h (by decide)))
        sync_with modeTail
      · take_neg
        · exact hU
        head_step
        head_cases hDd
        · take_pos
          · exact hDd
          refine Eq.trans (?_ : _ = modeTail false true sa xe' hi lo f) (leaf false true (fun h => absurd h (by decide)) (fun _ _ => of_decide_eq_true (hDN_A ▸ hDd)) (fun _ h => absurd h (by decide)))
          sync_with modeTail
        · take_neg
          · exact hDd
          refine Eq.trans (?_ : _ = modeTail false false sa xe' hi lo f) (leaf false false (fun h => absurd h (by decide)) (fun _ h => absurd h (by decide)) (fun _ _ => ⟨of_decide_eq_false (hUP_A ▸ (Bool.eq_false_iff.2 hU)), of_decide_eq_false (hDN_A ▸ (Bool.eq_false_iff.2 hDd))⟩))
          sync_with modeTail
    · take_neg
      · exact h0
      have hme : m = .NearestEven := by cases m <;> first | rfl | exact absurd rfl h0
      have hUf : ¬ (((((m == RoundingMode.Downward) && (sa != (0 : UInt64))) && (sb != (0 : UInt64)))) || ((((m == RoundingMode.Upward) && (sa == (0 : UInt64))) && (sb == (0 : UInt64))))) = true := by rw [hme]; simp
      have hDf : ¬ ((((((m == RoundingMode.Downward) && (sa == (0 : UInt64))) && (sb != (0 : UInt64)))) || ((((m == RoundingMode.Upward) && (sa != (0 : UInt64))) && (sb == (0 : UInt64))))) || (((m == RoundingMode.TowardZero) && (sa != sb)))) = true := by rw [hme]; simp
      refine Eq.trans (?_ : _ = modeTail false false sa xe' hi lo f) (leaf false false (fun h => absurd h (by decide)) (fun _ h => absurd h (by decide)) (fun _ _ => ⟨of_decide_eq_false (hUP_A ▸ (Bool.eq_false_iff.2 hUf)), of_decide_eq_false (hDN_A ▸ (Bool.eq_false_iff.2 hDf))⟩))
      sync_with modeTail
  · take_neg
    · rw [decide_eq_true_eq, UInt64.lt_iff_toNat_lt, hbl, hv5]; omega
    head_step
    by_cases hB : 2 * cB = Dn ∧ X % 2 = 0
    · obtain ⟨heq2, hev⟩ := hB
      take_pos
      · rw [hblv, hEven, decide_eq_true heq2, decide_eq_true hev]; rfl
      have hUP_B64 : (((((((m == RoundingMode.NearestEven) && (sa == sb)) && (((lo &&& (1 : UInt64))) == (1 : UInt64)))) || (((m == RoundingMode.NearestAway) && (sa == sb)))) || ((((m == RoundingMode.Upward) && (sa == (0 : UInt64))) && (sb == (0 : UInt64))))) || ((((m == RoundingMode.Downward) && (sa != (0 : UInt64))) && (sb != (0 : UInt64))))) = decide (sA = sB ∧ roundInt (md m) sA X cB Dn = X + 1) := by
        simp only [hza, hnza, hzb, hnzb, hseq, hsne, hpar1, hpar0]
        clear * - heq2 hev hcBlt hcB0 hX1 hX2 hXgt
        sem_bool
      have hDN_B64 : (((((((m == RoundingMode.NearestEven) && (sa != sb)) && (((lo &&& (1 : UInt64))) == (1 : UInt64)))) || ((((m == RoundingMode.Downward) && (sa == (0 : UInt64))) && (sb != (0 : UInt64))))) || ((((m == RoundingMode.Upward) && (sa != (0 : UInt64))) && (sb == (0 : UInt64))))) || (((m == RoundingMode.TowardZero) && (sa != sb)))) = decide (¬ sA = sB ∧ roundInt (md m) sA (X - 1) (Dn - cB) Dn = X - 1) := by
        simp only [hza, hnza, hzb, hnzb, hseq, hsne, hpar1, hpar0]
        clear * - heq2 hev hcBlt hcB0 hX1 hX2 hXgt
        sem_bool
      extract_lets -underBinder +onlyGivenNames J
      refine Eq.trans (show _ = padFarK2 q1 xe ah al (fun xe hi lo => J () xe hi lo default default)
        (fun xe hi lo => J () xe hi lo default default) from by unfold padFarK2; rfl) ?_
      rw [hK, ite_self]
      unfold J
      head_step
      head_cases hU
      · take_pos
        · exact hU
        refine Eq.trans (?_ : _ = modeTail true false sa xe' hi lo f) (leaf true false (fun _ => of_decide_eq_true (hUP_B64 ▸ hU)) (fun h => absurd h (by decide)) (fun h => absurd h (by decide)))
        sync_with modeTail
      · take_neg
        · exact hU
        head_step
        head_cases hDd
        · take_pos
          · exact hDd
          refine Eq.trans (?_ : _ = modeTail false true sa xe' hi lo f) (leaf false true (fun h => absurd h (by decide)) (fun _ _ => of_decide_eq_true (hDN_B64 ▸ hDd)) (fun _ h => absurd h (by decide)))
          sync_with modeTail
        · take_neg
          · exact hDd
          refine Eq.trans (?_ : _ = modeTail false false sa xe' hi lo f) (leaf false false (fun h => absurd h (by decide)) (fun _ h => absurd h (by decide)) (fun _ _ => ⟨of_decide_eq_false (hUP_B64 ▸ (Bool.eq_false_iff.2 hU)), of_decide_eq_false (hDN_B64 ▸ (Bool.eq_false_iff.2 hDd))⟩))
          sync_with modeTail
    · have hgt : Dn < 2 * cB ∨ (2 * cB = Dn ∧ X % 2 = 1) := by
        by_cases h : 2 * cB = Dn
        · right; exact ⟨h, by have := fun h' => hB ⟨h, h'⟩; omega⟩
        · left; omega
      take_neg
      · rw [hblv, hEven, Bool.and_eq_true, decide_eq_true_eq, decide_eq_true_eq]; exact hB
      have hUP_C64 : ((((((m == RoundingMode.NearestEven) && (sa == sb))) || (((m == RoundingMode.NearestAway) && (sa == sb)))) || ((((m == RoundingMode.Downward) && (sa != (0 : UInt64))) && (sb != (0 : UInt64))))) || ((((m == RoundingMode.Upward) && (sa == (0 : UInt64))) && (sb == (0 : UInt64))))) = decide (sA = sB ∧ roundInt (md m) sA X cB Dn = X + 1) := by
        simp only [hza, hnza, hzb, hnzb, hseq, hsne, hpar1, hpar0, hneH]
        clear * - hgt hcBlt hcB0 hX1 hX2 hXgt
        sem_bool
      have hDN_C64 : (((((((m == RoundingMode.NearestEven) && (sa != sb))) || ((((m == RoundingMode.NearestAway) && (sa != sb)) && (bl != v)))) || ((((m == RoundingMode.Downward) && (sa == (0 : UInt64))) && (sb != (0 : UInt64))))) || ((((m == RoundingMode.Upward) && (sa != (0 : UInt64))) && (sb == (0 : UInt64))))) || (((m == RoundingMode.TowardZero) && (sa != sb)))) = decide (¬ sA = sB ∧ roundInt (md m) sA (X - 1) (Dn - cB) Dn = X - 1) := by
        simp only [hza, hnza, hzb, hnzb, hseq, hsne, hpar1, hpar0, hneH]
        clear * - hgt hcBlt hcB0 hX1 hX2 hXgt
        sem_bool
      extract_lets -underBinder +onlyGivenNames J
      refine Eq.trans (show _ = padFarK2 q1 xe ah al (fun xe hi lo =>
          if (hi == 542101086242752 && lo == 4003012203950112768) = true then
            J () (xe + c_EXP_P1) 54210108624275 4089650035136921600 (c_P34 - q1) default
          else J () xe hi lo (c_P34 - q1) default)
        (fun xe hi lo => J () xe hi lo default default) from by unfold padFarK2; rfl) ?_
      rw [hK]
      have hndead : ¬ (hi == 542101086242752 && lo == 4003012203950112768) = true := by
        rw [eq_words, hval, show (542101086242752 : UInt64).toNat * 2^64 + (4003012203950112768 : UInt64).toNat = 10^34 from by decide]
        simp only [decide_eq_true_eq]; omega
      rw [if_neg hndead]
      refine Eq.trans (show _ = J () xe' hi lo default default from by split <;> rfl) ?_
      unfold J
      head_step
      head_cases hDd
      · take_pos
        · exact hDd
        refine Eq.trans (?_ : _ = modeTail false true sa xe' hi lo f) (leaf false true (fun h => absurd h (by decide)) (fun _ _ => of_decide_eq_true (hDN_C64 ▸ hDd)) (fun _ h => absurd h (by decide)))
        sync_with modeTail
      · take_neg
        · exact hDd
        head_step
        head_cases hU
        · take_pos
          · exact hU
          refine Eq.trans (?_ : _ = modeTail true false sa xe' hi lo f) (leaf true false (fun _ => of_decide_eq_true (hUP_C64 ▸ hU)) (fun h => absurd h (by decide)) (fun h => absurd h (by decide)))
          sync_with modeTail
        · take_neg
          · exact hU
          refine Eq.trans (?_ : _ = modeTail false false sa xe' hi lo f) (leaf false false (fun h => absurd h (by decide)) (fun _ h => absurd h (by decide)) (fun _ _ => ⟨of_decide_eq_false (hUP_C64 ▸ (Bool.eq_false_iff.2 hU)), of_decide_eq_false (hDN_C64 ▸ (Bool.eq_false_iff.2 hDd))⟩))
          sync_with modeTail

/-- `d34Main_spec`, second coefficient of 20 to 34 digits (128-bit half-unit comparison) -/
theorem d34Main_spec128 (sa sb xe ah al bh bl : UInt64) (q1 q2 : Int32) (m : RoundingMode) (f : UInt32) (sA sB : Bool)
    (cA QA EA cB QB : Nat)
    (hsa : sa.toNat = if sA then 2^63 else 0) (hsb : sb.toNat = if sB then 2^63 else 0)
    (hea : xe.toNat = EA * 2^49) (hEA : EA ≤ 12287)
    (hC : ah.toNat * 2^64 + al.toNat = cA) (hq1 : q1.toInt = QA) (hQA : QA = ndigits cA) (hcA0 : 0 < cA) (hQA34 : QA ≤ 34)
    (hB : bh.toNat * 2^64 + bl.toNat = cB) (hq2 : q2.toInt = QB) (hQB : QB = ndigits cB) (hcB0 : 0 < cB) (hQB34 : QB ≤ 34)
    (hXE : (34 - QA) + QB ≤ EA)
    (hX33 : ¬ sA = sB → cA ≠ 10 ^ (QA - 1)) (hq : ¬ QB ≤ 19) :
    d34Main sa sb xe ah al bh bl q1 q2 m f =
      .ok (ofBits (encode (finish (md m) sA
            (if sA = sB then cA * 10 ^ (34 - QA) * 10 ^ QB + cB else cA * 10 ^ (34 - QA) * 10 ^ QB - cB) 1
            (((EA - (34 - QA) - QB : Nat) : Int) - 6176) (((EA - (34 - QA) - QB : Nat) : Int) - 6176)).1),
        f ||| UInt32.ofNat (finish (md m) sA
            (if sA = sB then cA * 10 ^ (34 - QA) * 10 ^ QB + cB else cA * 10 ^ (34 - QA) * 10 ^ QB - cB) 1
            (((EA - (34 - QA) - QB : Nat) : Int) - 6176) (((EA - (34 - QA) - QB : Nat) : Int) - 6176)).2) := by
  have htt : true = true := rfl
  have hft : ¬ false = true := Bool.false_ne_true
  have hQA1 := hQA ▸ ndigits_pos hcA0
  have hQB1 := hQB ▸ ndigits_pos hcB0
  -- the padded coefficient
  obtain ⟨xe', hi, lo, hval, hxe', hK⟩ := padFarK2_ok (β := U128 × UInt32) q1 xe ah al cA QA EA hC hq1 hQA hcA0 hQA34 hea
    (by omega) (by omega)
  have hlo' := (ndigits_spec hcA0).1
  have hX1 : 10^33 ≤ cA * 10 ^ (34 - QA) := by
    calc 10^33 = 10 ^ (QA - 1) * 10 ^ (34 - QA) := by rw [← Nat.pow_add]; congr 1; omega
      _ ≤ cA * 10 ^ (34 - QA) := Nat.mul_le_mul_right _ (by rw [hQA]; exact hlo')
  have hX2 : cA * 10 ^ (34 - QA) < 10^34 := pow_lt_of_digits (C := cA) hQA (by omega)
  have hXgt : ¬ sA = sB → 10^33 < cA * 10 ^ (34 - QA) := by
    intro hs
    have hne := hX33 hs
    have : 10 ^ (QA - 1) < cA := lt_of_le_of_ne (by rw [hQA]; exact hlo') (Ne.symm hne)
    calc 10^33 = 10 ^ (QA - 1) * 10 ^ (34 - QA) := by rw [← Nat.pow_add]; congr 1; omega
      _ < cA * 10 ^ (34 - QA) := Nat.mul_lt_mul_of_pos_right this (Nat.pow_pos (by decide))
  have hcBlt : cB < 10 ^ QB := by rw [hQB]; exact lt_pow_ndigits cB
  have hcBge : 10 ^ (QB - 1) ≤ cB := by rw [hQB]; exact (ndigits_spec hcB0).1
  rw [finish_mode (md m) sA sB _ cB QB _ hX1 hX2 hcB0 hcBlt hQB1 (by omega) (by omega) hXgt,
    show (((EA - (34 - QA) - QB : Nat) : Int) - 6176 + QB) = ((EA - (34 - QA) : Nat) : Int) - 6176 from by omega]
  generalize hXdef : cA * 10 ^ (34 - QA) = X at *
  generalize hXEdef : EA - (34 - QA) = XE at *
  generalize hD : 10 ^ QB = Dn at *
  have hDH : Dn = 10 * 10 ^ (QB - 1) := by rw [← hD, ← Nat.pow_succ']; congr 1; omega
  -- Boolean facts
  obtain ⟨hza, hnza⟩ := sign_bools sa sA hsa
  obtain ⟨hzb, hnzb⟩ := sign_bools sb sB hsb
  obtain ⟨hseq, hsne⟩ := sign_eq_bools sa sb sA sB hsa hsb
  obtain ⟨hpar1, hpar0⟩ := parity_word hi lo
  rw [hval] at hpar1 hpar0
  -- the common end of a leaf: the code is `modeTail u d`, and (u, d) is what the model does
  have leaf : ∀ u d : Bool, (u = true → sA = sB ∧ roundInt (md m) sA X cB Dn = X + 1) →
      (u = false → d = true → ¬ sA = sB ∧ roundInt (md m) sA (X - 1) (Dn - cB) Dn = X - 1) →
      (u = false → d = false → ¬ (sA = sB ∧ roundInt (md m) sA X cB Dn = X + 1) ∧
        ¬ (¬ sA = sB ∧ roundInt (md m) sA (X - 1) (Dn - cB) Dn = X - 1)) →
      modeTail u d sa xe' hi lo f =
        .ok (ofBits (encode (modeOut sA X ((XE : Int) - 6176) (decide (sA = sB ∧ roundInt (md m) sA X cB Dn = X + 1))
              (decide (¬ sA = sB ∧ roundInt (md m) sA (X - 1) (Dn - cB) Dn = X - 1))).1),
          f ||| UInt32.ofNat (modeOut sA X ((XE : Int) - 6176) (decide (sA = sB ∧ roundInt (md m) sA X cB Dn = X + 1))
              (decide (¬ sA = sB ∧ roundInt (md m) sA (X - 1) (Dn - cB) Dn = X - 1))).2) := by
    intro u d h1 h2 h3
    rw [modeTail_spec u d sa xe' hi lo f sA X XE hsa hxe' (by omega) (by omega) hval hX1 hX2]
    cases u
    · cases d
      · obtain ⟨g1, g2⟩ := h3 rfl rfl
        rw [decide_eq_false g1, decide_eq_false g2]
      · have g2 := h2 rfl rfl
        have g1 : ¬ (sA = sB ∧ roundInt (md m) sA X cB Dn = X + 1) := fun h => g2.1 h.1
        rw [decide_eq_false g1, decide_eq_true g2]
    · rw [decide_eq_true (h1 rfl)]
      unfold modeOut
      rw [if_pos rfl, if_pos rfl]
  have hXpar : QA < 34 → X % 2 = 0 := by
    intro h
    rw [← hXdef, show 34 - QA = (34 - QA - 1) + 1 from by omega, Nat.pow_succ, ← Nat.mul_assoc]
    omega
  have hXeq : ¬ QA < 34 → X = cA := by
    intro h
    rw [← hXdef, show 34 - QA = 0 from by omega, Nat.pow_zero, Nat.mul_one]
  obtain ⟨hparA1, hparA0⟩ := parity_word ah al
  rw [hC] at hparA1 hparA0
  have h34 : c_P34.toInt = 34 := by decide
  have hq34 : decide (q1 < c_P34) = decide (QA < 34) := by rw [i32_lt_lit, hq1, h34, decide_eq_decide]; omega
  -- the tie test "`X` is even"
  have hEven : (decide (q1 < c_P34) || al &&& 1 == 0) = decide (X % 2 = 0) := by
    rw [hq34, hparA0]
    by_cases h : QA < 34
    · rw [decide_eq_true h, Bool.true_or]; exact (decide_eq_true (hXpar h)).symm
    · rw [decide_eq_false h, Bool.false_or, hXeq h]
  unfold d34Main
  head_step
  have hq19 : ¬ decide (q2 ≤ 19) = true := by rw [i32_le_lit, hq2]; simpa using hq
  obtain ⟨w, hw, hw5⟩ := midpoint128_get (QB - 20) (by omega)
  have hidx : (q2 - 20).toInt = ((QB - 20 : Nat) : Int) := by
    rw [Int32.toInt_sub, hq2, show (20 : Int32).toInt = 20 from by decide, bmod32 _ (by omega) (by omega)]; omega
  rw [← idx_i32 (q2 - 20) (QB - 20) hidx] at hw
  rw [show QB - 20 + 19 = QB - 1 from by omega] at hw5
  have hltw : (decide (bh < w.w1) || bh == w.w1 && decide (bl < w.w0)) = decide (2 * cB < Dn) := by
    rw [C13GenNoncomp.lt128, hB, hw5, decide_eq_decide]; omega
  have heqw : (bh == w.w1 && bl == w.w0) = decide (2 * cB = Dn) := by
    rw [eq_words, hB, hw5, decide_eq_decide]; omega
  have hneH : (bh != w.w1 || bl != w.w0) = decide (2 * cB ≠ Dn) := by
    have : (bh != w.w1 || bl != w.w0) = !(bh == w.w1 && bl == w.w0) := by
      cases h1 : bh == w.w1 <;> cases h2 : bl == w.w0 <;> simp [bne, h1, h2]
    rw [this, heqw]; by_cases h : 2 * cB = Dn <;> simp [h]
  take_neg
  · exact hq19
  take_call hw
  head_step
  by_cases hlt : 2 * cB < Dn
  · take_pos
    · rw [hltw]; exact decide_eq_true hlt
    have hUP_A' : (((((m == RoundingMode.Downward) && (sa != (0 : UInt64))) && (sb != (0 : UInt64)))) || ((((m == RoundingMode.Upward) && (sa == (0 : UInt64))) && (sb == (0 : UInt64))))) = decide (sA = sB ∧ roundInt (md m) sA X cB Dn = X + 1) := by
      simp only [hza, hnza, hzb, hnzb, hseq, hsne, hpar1, hpar0]
      clear * - hlt hcBlt hcB0 hX1 hX2 hXgt
      sem_bool
    have hDN_A' : ((((((m == RoundingMode.Downward) && (sa == (0 : UInt64))) && (sb != (0 : UInt64)))) || ((((m == RoundingMode.Upward) && (sa != (0 : UInt64))) && (sb == (0 : UInt64))))) || (((m == RoundingMode.TowardZero) && (sa != sb)))) = decide (¬ sA = sB ∧ roundInt (md m) sA (X - 1) (Dn - cB) Dn = X - 1) := by
      simp only [hza, hnza, hzb, hnzb, hseq, hsne, hpar1, hpar0]
      clear * - hlt hcBlt hcB0 hX1 hX2 hXgt
      sem_bool
    extract_lets -underBinder +onlyGivenNames J
    refine Eq.trans (show _ = padFarK2 q1 xe ah al (fun xe hi lo => J () xe hi lo default default)
      (fun xe hi lo => J () xe hi lo default default) from by unfold padFarK2; rfl) ?_
    rw [hK, ite_self]
    unfold J
    head_step
    head_cases h0
    · take_pos
      · exact h0
      head_step
      head_cases hU
      · take_pos
        · exact hU
        refine Eq.trans (?_ : _ = modeTail true false sa xe' hi lo f) (leaf true false (fun _ => of_decide_eq_true (hUP_A' ▸ hU)) (fun h => absurd h (by decide)) (fun h => absurd h (by decide)))
        sync_with modeTail
      · take_neg
        · exact hU
        head_step
        head_cases hDd
        · take_pos
          · exact hDd
          refine Eq.trans (?_ : _ = modeTail false true sa xe' hi lo f) (leaf false true (fun h => absurd h (by decide)) (fun _ _ => of_decide_eq_true (hDN_A' ▸ hDd)) (fun _ h => absurd h (by decide)))
          sync_with modeTail
        · take_neg
          · exact hDd
          refine Eq.trans (?_ : _ = modeTail false false sa xe' hi lo f) (leaf false false (fun h => absurd h (by decide)) (fun _ h => absurd h (by decide)) (fun _ _ => ⟨of_decide_eq_false (hUP_A' ▸ (Bool.eq_false_iff.2 hU)), of_decide_eq_false (hDN_A' ▸ (Bool.eq_false_iff.2 hDd))⟩))
          sync_with modeTail
    · take_neg
      · exact h0
      have hme : m = .NearestEven := by cases m <;> first | rfl | exact absurd rfl h0
      have hUf : ¬ (((((m == RoundingMode.Downward) && (sa != (0 : UInt64))) && (sb != (0 : UInt64)))) || ((((m == RoundingMode.Upward) && (sa == (0 : UInt64))) && (sb == (0 : UInt64))))) = true := by rw [hme]; simp
      have hDf : ¬ ((((((m == RoundingMode.Downward) && (sa == (0 : UInt64))) && (sb != (0 : UInt64)))) || ((((m == RoundingMode.Upward) && (sa != (0 : UInt64))) && (sb == (0 : UInt64))))) || (((m == RoundingMode.TowardZero) && (sa != sb)))) = true := by rw [hme]; simp
      refine Eq.trans (?_ : _ = modeTail false false sa xe' hi lo f) (leaf false false (fun h => absurd h (by decide)) (fun _ h => absurd h (by decide)) (fun _ _ => ⟨of_decide_eq_false (hUP_A' ▸ (Bool.eq_false_iff.2 hUf)), of_decide_eq_false (hDN_A' ▸ (Bool.eq_false_iff.2 hDf))⟩))
      sync_with modeTail
  · take_neg
    · rw [hltw]; simpa using hlt
    head_step
    by_cases hB' : 2 * cB = Dn ∧ X % 2 = 0
    · obtain ⟨heq2, hev⟩ := hB'
      take_pos
      · rw [heqw, hEven, decide_eq_true heq2, decide_eq_true hev]; rfl
      have hUP_B128 : (((((m == RoundingMode.NearestAway) && (sa == sb))) || ((((m == RoundingMode.Upward) && (sa == (0 : UInt64))) && (sb == (0 : UInt64))))) || ((((m == RoundingMode.Downward) && (sa != (0 : UInt64))) && (sb != (0 : UInt64))))) = decide (sA = sB ∧ roundInt (md m) sA X cB Dn = X + 1) := by
        simp only [hza, hnza, hzb, hnzb, hseq, hsne, hpar1, hpar0]
        clear * - heq2 hev hcBlt hcB0 hX1 hX2 hXgt
        sem_bool
      have hDN_B128 : ((((((m == RoundingMode.Downward) && (sa == (0 : UInt64))) && (sb != (0 : UInt64)))) || ((((m == RoundingMode.Upward) && (sa != (0 : UInt64))) && (sb == (0 : UInt64))))) || (((m == RoundingMode.TowardZero) && (sa != sb)))) = decide (¬ sA = sB ∧ roundInt (md m) sA (X - 1) (Dn - cB) Dn = X - 1) := by
        simp only [hza, hnza, hzb, hnzb, hseq, hsne, hpar1, hpar0]
        clear * - heq2 hev hcBlt hcB0 hX1 hX2 hXgt
        sem_bool
      extract_lets -underBinder +onlyGivenNames J
      refine Eq.trans (show _ = padFarK2 q1 xe ah al (fun xe hi lo => J () xe hi lo default default)
        (fun xe hi lo => J () xe hi lo default default) from by unfold padFarK2; rfl) ?_
      rw [hK, ite_self]
      unfold J
      head_step
      head_cases h0
      · take_pos
        · exact h0
        head_step
        head_cases hU
        · take_pos
          · exact hU
          refine Eq.trans (?_ : _ = modeTail true false sa xe' hi lo f) (leaf true false (fun _ => of_decide_eq_true (hUP_B128 ▸ hU)) (fun h => absurd h (by decide)) (fun h => absurd h (by decide)))
          sync_with modeTail
        · take_neg
          · exact hU
          head_step
          head_cases hDd
          · take_pos
            · exact hDd
            refine Eq.trans (?_ : _ = modeTail false true sa xe' hi lo f) (leaf false true (fun h => absurd h (by decide)) (fun _ _ => of_decide_eq_true (hDN_B128 ▸ hDd)) (fun _ h => absurd h (by decide)))
            sync_with modeTail
          · take_neg
            · exact hDd
            refine Eq.trans (?_ : _ = modeTail false false sa xe' hi lo f) (leaf false false (fun h => absurd h (by decide)) (fun _ h => absurd h (by decide)) (fun _ _ => ⟨of_decide_eq_false (hUP_B128 ▸ (Bool.eq_false_iff.2 hU)), of_decide_eq_false (hDN_B128 ▸ (Bool.eq_false_iff.2 hDd))⟩))
            sync_with modeTail
      · take_neg
        · exact h0
        have hme : m = .NearestEven := by cases m <;> first | rfl | exact absurd rfl h0
        have hUf : ¬ (((((m == RoundingMode.NearestAway) && (sa == sb))) || ((((m == RoundingMode.Upward) && (sa == (0 : UInt64))) && (sb == (0 : UInt64))))) || ((((m == RoundingMode.Downward) && (sa != (0 : UInt64))) && (sb != (0 : UInt64))))) = true := by rw [hme]; simp
        have hDf : ¬ ((((((m == RoundingMode.Downward) && (sa == (0 : UInt64))) && (sb != (0 : UInt64)))) || ((((m == RoundingMode.Upward) && (sa != (0 : UInt64))) && (sb == (0 : UInt64))))) || (((m == RoundingMode.TowardZero) && (sa != sb)))) = true := by rw [hme]; simp
        refine Eq.trans (?_ : _ = modeTail false false sa xe' hi lo f) (leaf false false (fun h => absurd h (by decide)) (fun _ h => absurd h (by decide)) (fun _ _ => ⟨of_decide_eq_false (hUP_B128 ▸ (Bool.eq_false_iff.2 hUf)), of_decide_eq_false (hDN_B128 ▸ (Bool.eq_false_iff.2 hDf))⟩))
        sync_with modeTail
    · have hgt : Dn < 2 * cB ∨ (2 * cB = Dn ∧ X % 2 = 1) := by
        by_cases h : 2 * cB = Dn
        · right; exact ⟨h, by have := fun h' => hB' ⟨h, h'⟩; omega⟩
        · left; omega
      take_neg
      · rw [heqw, hEven, Bool.and_eq_true, decide_eq_true_eq, decide_eq_true_eq]; exact hB'
      have hUP_C128 : ((((((m == RoundingMode.NearestEven) && (sa == sb))) || (((m == RoundingMode.NearestAway) && (sa == sb)))) || ((((m == RoundingMode.Downward) && (sa != (0 : UInt64))) && (sb != (0 : UInt64))))) || ((((m == RoundingMode.Upward) && (sa == (0 : UInt64))) && (sb == (0 : UInt64))))) = decide (sA = sB ∧ roundInt (md m) sA X cB Dn = X + 1) := by
        simp only [hza, hnza, hzb, hnzb, hseq, hsne, hpar1, hpar0, hneH]
        clear * - hgt hcBlt hcB0 hX1 hX2 hXgt
        sem_bool
      have hDN_C128 : (((((((m == RoundingMode.NearestEven) && (sa != sb))) || ((((m == RoundingMode.NearestAway) && (sa != sb)) && (((bh != w.w1) || (bl != w.w0)))))) || ((((m == RoundingMode.Downward) && (sa == (0 : UInt64))) && (sb != (0 : UInt64))))) || ((((m == RoundingMode.Upward) && (sa != (0 : UInt64))) && (sb == (0 : UInt64))))) || (((m == RoundingMode.TowardZero) && (sa != sb)))) = decide (¬ sA = sB ∧ roundInt (md m) sA (X - 1) (Dn - cB) Dn = X - 1) := by
        simp only [hza, hnza, hzb, hnzb, hseq, hsne, hpar1, hpar0, hneH]
        clear * - hgt hcBlt hcB0 hX1 hX2 hXgt
        sem_bool
      extract_lets -underBinder +onlyGivenNames J
      refine Eq.trans (show _ = padFarK2 q1 xe ah al (fun xe hi lo => J () xe hi lo default default)
        (fun xe hi lo => J () xe hi lo default default) from by unfold padFarK2; rfl) ?_
      rw [hK, ite_self]
      unfold J
      head_step
      head_cases hDd
      · take_pos
        · exact hDd
        refine Eq.trans (?_ : _ = modeTail false true sa xe' hi lo f) (leaf false true (fun h => absurd h (by decide)) (fun _ _ => of_decide_eq_true (hDN_C128 ▸ hDd)) (fun _ h => absurd h (by decide)))
        sync_with modeTail
      · take_neg
        · exact hDd
        head_step
        head_cases hU
        · take_pos
          · exact hU
          refine Eq.trans (?_ : _ = modeTail true false sa xe' hi lo f) (leaf true false (fun _ => of_decide_eq_true (hUP_C128 ▸ hU)) (fun h => absurd h (by decide)) (fun h => absurd h (by decide)))
          sync_with modeTail
        · take_neg
          · exact hU
          refine Eq.trans (?_ : _ = modeTail false false sa xe' hi lo f) (leaf false false (fun h => absurd h (by decide)) (fun _ h => absurd h (by decide)) (fun _ _ => ⟨of_decide_eq_false (hUP_C128 ▸ (Bool.eq_false_iff.2 hU)), of_decide_eq_false (hDN_C128 ▸ (Bool.eq_false_iff.2 hDd))⟩))
          sync_with modeTail

/-- **the main part of the branch `delta = P34`** (the second operand is exactly one digit position below the 34th digit
of the first, padded, operand `X`; the signs agree or `X` is not `10^33`): the code compares the second coefficient with
half a unit (`5·10^(q2−1)`: below / equal with `X` even / the rest), pads, and moves the last digit by the rounding mode;
the result is the model's rounding step on the exact sum, for every mode -/
theorem d34Main_spec (sa sb xe ah al bh bl : UInt64) (q1 q2 : Int32) (m : RoundingMode) (f : UInt32) (sA sB : Bool)
    (cA QA EA cB QB : Nat)
    (hsa : sa.toNat = if sA then 2^63 else 0) (hsb : sb.toNat = if sB then 2^63 else 0)
    (hea : xe.toNat = EA * 2^49) (hEA : EA ≤ 12287)
    (hC : ah.toNat * 2^64 + al.toNat = cA) (hq1 : q1.toInt = QA) (hQA : QA = ndigits cA) (hcA0 : 0 < cA) (hQA34 : QA ≤ 34)
    (hB : bh.toNat * 2^64 + bl.toNat = cB) (hq2 : q2.toInt = QB) (hQB : QB = ndigits cB) (hcB0 : 0 < cB) (hQB34 : QB ≤ 34)
    (hXE : (34 - QA) + QB ≤ EA)
    (hX33 : ¬ sA = sB → cA ≠ 10 ^ (QA - 1)) :
    d34Main sa sb xe ah al bh bl q1 q2 m f =
      .ok (ofBits (encode (finish (md m) sA
            (if sA = sB then cA * 10 ^ (34 - QA) * 10 ^ QB + cB else cA * 10 ^ (34 - QA) * 10 ^ QB - cB) 1
            (((EA - (34 - QA) - QB : Nat) : Int) - 6176) (((EA - (34 - QA) - QB : Nat) : Int) - 6176)).1),
        f ||| UInt32.ofNat (finish (md m) sA
            (if sA = sB then cA * 10 ^ (34 - QA) * 10 ^ QB + cB else cA * 10 ^ (34 - QA) * 10 ^ QB - cB) 1
            (((EA - (34 - QA) - QB : Nat) : Int) - 6176) (((EA - (34 - QA) - QB : Nat) : Int) - 6176)).2) := by
  by_cases hq : QB ≤ 19
  · exact d34Main_spec64 sa sb xe ah al bh bl q1 q2 m f sA sB cA QA EA cB QB hsa hsb hea hEA hC hq1 hQA hcA0 hQA34 hB hq2 hQB hcB0 hQB34
      hXE hX33 hq
  · exact d34Main_spec128 sa sb xe ah al bh bl q1 q2 m f sA sB cA QA EA cB QB hsa hsb hea hEA hC hq1 hQA hcA0 hQA34 hB hq2 hQB hcB0
      hQB34 hXE hX33 hq

/-! ## 6. The branch `delta = P34`, main part, as a theorem about the decoded operands -/

/-- **`delta = 34`, the signs agree or the first coefficient is not a power of ten** (operands in the code's order) -/
theorem add_d34_core (x y a b : U128) (m : RoundingMode) (f : UInt32) (hab : Ordered x y a b)
    {sA sB : Bool} {cA cB : Nat} {eA eB : Int}
    (ha : decode (bitsOf a) = .fin sA cA eA) (hb : decode (bitsOf b) = .fin sB cB eB) (hcA : cA ≠ 0) (hcB : cB ≠ 0)
    (h34d : (ndigits cA : Int) + eA - ndigits cB - eB = 34)
    (hpow : sA = sB ∨ cA ≠ 10 ^ (ndigits cA - 1)) :
    bid128_add x y m f =
      .ok (ofBits (encode (addFin (md m) sA cA eA sB cB eB (if eA ≤ eB then eA else eB)).1),
           f ||| UInt32.ofNat (addFin (md m) sA cA eA sB cB eB (if eA ≤ eB then eA else eB)).2) := by
  obtain ⟨ha1, hac, haP, hae, halo, hahi, has, -⟩ := fin_view a ha
  obtain ⟨hb1, hbc, hbP, hbe, hblo, hbhi, hbs, -⟩ := fin_view b hb
  have hcA0 : 0 < cA := Nat.pos_of_ne_zero hcA
  have hcB0 : 0 < cB := Nat.pos_of_ne_zero hcB
  have ha0 := nonzero_words hac hcA
  have hb0 := nonzero_words hbc hcB
  have hEle : (eB + 6176).toNat ≤ (eA + 6176).toNat := by
    have hle : uE b ≤ uE a := by
      rcases hab with ⟨rfl, rfl, hc⟩ | ⟨rfl, rfl, hc⟩
      · exact UInt64.not_lt.1 (by simpa using hc)
      · exact UInt64.le_of_lt (by simpa using hc)
    rw [UInt64.le_iff_toNat_le, hae, hbe] at hle
    omega
  have hle : eB ≤ eA := by omega
  have hsp : ¬ ((x.w1 &&& c_MASK_SPECIAL == c_MASK_SPECIAL) || (y.w1 &&& c_MASK_SPECIAL == c_MASK_SPECIAL)) = true := by
    rcases hab with ⟨rfl, rfl, -⟩ | ⟨rfl, rfl, -⟩
    · exact not_special2 ha1 hb1
    · exact not_special2 hb1 ha1
  have hx0 : ¬ (uH x == 0 && uL x == 0) = true := by
    rcases hab with ⟨rfl, rfl, -⟩ | ⟨rfl, rfl, -⟩
    · exact ha0
    · exact hb0
  have hy0 : ¬ (uH y == 0 && uL y == 0) = true := by
    rcases hab with ⟨rfl, rfl, -⟩ | ⟨rfl, rfl, -⟩
    · exact hb0
    · exact ha0
  obtain ⟨D, D1, THI, TLO, hTa, hqa⟩ := digits_row (uH a) (uL a) (by rw [hac]; exact hcA0) (hi_lt hac haP)
  obtain ⟨D', D1', THI', TLO', hTb, hqb⟩ := digits_row (uH b) (uL b) (by rw [hbc]; exact hcB0) (hi_lt hbc hbP)
  rw [hac] at hqa
  rw [hbc] at hqb
  have hQA1 := ndigits_pos hcA0
  have hQB1 := ndigits_pos hcB0
  have hQA : ndigits cA ≤ 34 := (ndigits_le_iff hcA0).2 (by simpa [P34] using haP)
  have hQB : ndigits cB ≤ 34 := (ndigits_le_iff hcB0).2 (by simpa [P34] using hbP)
  have hEA : (eA + 6176).toNat < 2^14 := by omega
  have hEB : (eB + 6176).toNat < 2^14 := by omega
  have hdl := delta_toInt _ _ (uE a) (uE b) _ _ _ _ hqa hqb hQA hQB hae hbe hEA hEB
  have hsc := scA_toInt _ _ (uE a) (uE b) _ _ _ _ hqa hqb hQA hQB hae hbe hEA hEB
  have h34 : c_P34.toInt = 34 := by decide
  have hd1 : decide (deltaOf (qOf D D1 THI TLO (uH a) (uL a)) (qOf D' D1' THI' TLO' (uH b) (uL b)) (uE a) (uE b) ≥ c_P34) = true := by
    rw [i32_ge, hdl, h34]; exact decide_eq_true (by omega)
  have hd2 : ¬ decide (deltaOf (qOf D D1 THI TLO (uH a) (uL a)) (qOf D' D1' THI' TLO' (uH b) (uL b)) (uE a) (uE b) ≥ c_P34 + 1) = true := by
    rw [i32_ge, hdl, show (c_P34 + 1).toInt = 35 from by decide]; simp only [decide_eq_true_eq]; omega
  have hsig : (a.w1 &&& c_MASK_SIGN == b.w1 &&& c_MASK_SIGN) = (sA == sB) := (sign_eq_bools _ _ sA sB has hbs).1
  rw [code_d34 x y a b m f hsp hx0 hy0 hab D D1 THI TLO D' D1' THI' TLO' hTa hTb hd1 hd2 cA (ndigits cA) hac hqa hQA1 hQA
    (by rcases hpow with h | h
        · left; rw [hsig, h]; simp
        · right; exact h),
    d34Main_spec _ _ (uE a) (uH a) (uL a) (uH b) (uL b) _ _ m f sA sB cA (ndigits cA) _ cB (ndigits cB) has hbs hae (by omega) hac
      hqa rfl hcA0 hQA hbc hqb rfl hcB0 hQB (by omega) (fun hs => hpow.resolve_left hs)]
  -- the model
  have hgap : (eA - eB).toNat = (34 - ndigits cA) + ndigits cB := by omega
  have hA : cA * 10 ^ (eA - eB).toNat = cA * 10 ^ (34 - ndigits cA) * 10 ^ ndigits cB := by
    rw [hgap, Nat.pow_add, Nat.mul_assoc]
  have hlo' := (ndigits_spec hcA0).1
  have hX1 : 10^33 ≤ cA * 10 ^ (34 - ndigits cA) := by
    calc 10^33 = 10 ^ (ndigits cA - 1) * 10 ^ (34 - ndigits cA) := by rw [← Nat.pow_add]; congr 1; omega
      _ ≤ cA * 10 ^ (34 - ndigits cA) := Nat.mul_le_mul_right _ hlo'
  have hcBlt : cB < 10 ^ ndigits cB := lt_pow_ndigits cB
  have hgt : cB < cA * 10 ^ (eA - eB).toNat := by
    rw [hA]
    have : 10^33 * 10 ^ ndigits cB ≤ cA * 10 ^ (34 - ndigits cA) * 10 ^ ndigits cB := Nat.mul_le_mul_right _ hX1
    have : 10 ^ ndigits cB ≤ 10^33 * 10 ^ ndigits cB := Nat.le_mul_of_pos_left _ (by decide)
    omega
  rw [addFin_big (md m) sA cA eA sB cB eB hle hgt, hA,
    show (((eA + 6176).toNat - (34 - ndigits cA) - ndigits cB : Nat) : Int) - 6176 = eB from by omega]

/-- in terms of the decoded operands: with `H` the operand of the larger exponent (`x` on a tie) and `L` the other one,
`q_H + e_H − q_L − e_L = 34` (the code's `delta = P34`: `L` has its leading digit exactly one position below the 34th digit
of `H` padded to 34 digits), and the signs agree or `C_H` is not a power of ten (the code's first test in that branch) -/
def D34Cond (s1 : Bool) (c1 : Nat) (e1 : Int) (s2 : Bool) (c2 : Nat) (e2 : Int) : Prop :=
  if e2 ≤ e1 then (ndigits c1 : Int) + e1 - ndigits c2 - e2 = 34 ∧ (s1 = s2 ∨ c1 ≠ 10 ^ (ndigits c1 - 1))
  else (ndigits c2 : Int) + e2 - ndigits c1 - e1 = 34 ∧ (s2 = s1 ∨ c2 ≠ 10 ^ (ndigits c2 - 1))

instance (s1 : Bool) (c1 : Nat) (e1 : Int) (s2 : Bool) (c2 : Nat) (e2 : Int) : Decidable (D34Cond s1 c1 e1 s2 c2 e2) := by
  unfold D34Cond; infer_instance

/-- **`bid128_add`, two non-zero numbers, `D34Cond`** (the main part of the code's branch `delta = P34`): `L` is compared
with half a unit of the last place of `H` padded to 34 digits, `X·10^E`: the result is `X`, `X + 1` or `X − 1` at `E` (with
the carry `10^34 → 10^33` at the next exponent and the overflow exit) exactly as the rounding mode, the signs, the
comparison and — on a tie — the parity of `X` prescribe; inexact.  This is `addD`, datum and flags, for all five modes. -/
theorem add_d34 (x y : U128) (m : RoundingMode) (f : UInt32) {s1 s2 : Bool} {c1 c2 : Nat} {e1 e2 : Int}
    (hx : decode (bitsOf x) = .fin s1 c1 e1) (hy : decode (bitsOf y) = .fin s2 c2 e2) (hc1 : c1 ≠ 0) (hc2 : c2 ≠ 0)
    (h : D34Cond s1 c1 e1 s2 c2 e2) :
    bid128_add x y m f =
      .ok (ofBits (encode (addD (md m) (decode (bitsOf x)) (decode (bitsOf y))).1),
           f ||| UInt32.ofNat (addD (md m) (decode (bitsOf x)) (decode (bitsOf y))).2) := by
  obtain ⟨-, -, -, hxe, hxlo, hxhi, -, -⟩ := fin_view x hx
  obtain ⟨-, -, -, hye, hylo, hyhi, -, -⟩ := fin_view y hy
  rw [hx, hy, addD_fin_fin]
  unfold D34Cond at h
  by_cases hle : e2 ≤ e1
  · rw [if_pos hle] at h
    have hab : Ordered x y x y := Or.inl ⟨rfl, rfl, by
      rw [decide_eq_true_eq, UInt64.lt_iff_toNat_lt, hxe, hye]; omega⟩
    exact add_d34_core x y x y m f hab hx hy hc1 hc2 h.1 h.2
  · rw [if_neg hle] at h
    have hab : Ordered x y y x := Or.inr ⟨rfl, rfl, by
      rw [decide_eq_true_eq, UInt64.lt_iff_toNat_lt, hxe, hye]; omega⟩
    rw [addFin_comm]
    exact add_d34_core x y y x m f hab hy hx hc2 hc1 h.1 h.2

-- 1.001E-23 + (−4.5E-57), Downward: 1.000999999999999999999999999999999E-23, inexact (next to the witness of the former defect
-- D1, `1.000E-23 + -4.5E-57`, which has a power of ten as first coefficient and is NOT in this case)
example : bid128_add ⟨1001, 0x300c000000000000⟩ ⟨45, 0xafcc000000000000⟩ .Downward 0
    = .ok (ofBits (encode (.fin false (1001 * 10^30 - 1) (-56))), 0x20) := by
  rw [add_d34 (s1 := false) (c1 := 1001) (e1 := -26) (s2 := true) (c2 := 45) (e2 := -58) _ _ _ _ (by decide +kernel)
    (by decide +kernel) (by decide) (by decide) (by decide +kernel)]
  decide +kernel

/-! ## 7. All inputs: what is closed, `bid128_sub`, the public methods -/

/-- the datum a value denotes -/
abbrev dOf (x : U128) : Datum := decode (bitsOf x)

/-- what the specification prescribes for a binary arithmetic method with datum-level definition `D`: the NaN rule when an
operand is a NaN (first operand's NaN first), else the canonical encoding of `D`'s datum and `D`'s flags OR-ed in -/
def binSpec (D : Datum → Datum → Datum × Flags) (x y : U128) (f : UInt32) : U128 × UInt32 :=
  if ((dOf x).isNaN || (dOf y).isNaN) = true then (pick2 x y, nanFlags f [dOf x, dOf y])
  else (ofBits (encode (D (dOf x) (dOf y)).1), f ||| UInt32.ofNat (D (dOf x) (dOf y)).2)

/-- the region added in this file: two non-zero numbers in the main part of the branch `delta = P34` (`D34Cond`) -/
def Extra : Datum → Datum → Prop
  | .fin s1 c1 e1, .fin s2 c2 e2 => c1 ≠ 0 ∧ c2 ≠ 0 ∧ D34Cond s1 c1 e1 s2 c2 e2
  | _, _ => False

/-- the pairs of data on which `bid128_add` is proved to be `addD`: NaN operands, the region `Covered` of `C01GenAdd`, and
`Extra` -/
def Proved (dx dy : Datum) : Prop := dx.isNaN = true ∨ dy.isNaN = true ∨ Covered dx dy ∨ Extra dx dy

theorem add_extra (x y : U128) (m : RoundingMode) (f : UInt32) (h : Extra (dOf x) (dOf y)) :
    bid128_add x y m f = .ok (ofBits (encode (addD (md m) (dOf x) (dOf y)).1), f ||| UInt32.ofNat (addD (md m) (dOf x) (dOf y)).2) := by
  unfold dOf at *
  cases hx : decode (bitsOf x) with
  | fin s1 c1 e1 =>
    cases hy : decode (bitsOf y) with
    | fin s2 c2 e2 =>
      rw [hx, hy] at h
      rw [← hx, ← hy]
      exact add_d34 x y m f hx hy h.1 h.2.1 h.2.2
    | inf s => rw [hx, hy] at h; exact absurd h id
    | nan s g p => rw [hx, hy] at h; exact absurd h id
  | inf s => rw [hx] at h; exact absurd h id
  | nan s g p => rw [hx] at h; exact absurd h id

/-- **`bid128_add` on the closed part of the input space** (every rounding mode, every status word; never panics there) -/
theorem bid128_add_spec_partial (x y : U128) (m : RoundingMode) (f : UInt32) (h : Proved (dOf x) (dOf y)) :
    bid128_add x y m f = .ok (binSpec (addD (md m)) x y f) := by
  unfold binSpec
  by_cases hn : ((dOf x).isNaN || (dOf y).isNaN) = true
  · rw [if_pos hn]; exact add_nan x y m f hn
  · rw [if_neg hn]
    simp only [Bool.or_eq_true, not_or, Bool.not_eq_true] at hn
    rcases h with h | h | h | h
    · rw [hn.1] at h; exact absurd h (by decide)
    · rw [hn.2] at h; exact absurd h (by decide)
    · exact (add_cases_covered x y m f).2 h
    · exact add_extra x y m f h

/-- the subtrahend as `bid128_sub` hands it to `bid128_add`: the sign bit flipped, unless it is a NaN -/
def negY (y : U128) : U128 := if (dOf y).isNaN then y else ofBits ((bitsOf y + 2^127) % 2^128)

theorem dOf_negY (y : U128) (hy : (dOf y).isNaN = false) : dOf (negY y) = (dOf y).negate := by
  unfold negY
  rw [hy]
  obtain ⟨r, hr, -, hd⟩ := C13GenNoncomp.negate_decode y
  have : r = ofBits ((bitsOf y + 2^127) % 2^128) := by
    have := C13GenNoncomp.negate_spec y
    rw [hr] at this
    exact Except.ok.inj this
  rw [← this]
  exact hd

theorem negate_isNaN (d : Datum) : d.negate.isNaN = d.isNaN := by cases d <;> rfl

/-- the region `Covered` of `C01GenAdd` does not look at the signs: it is closed for `x − y` whenever it is for `x + y` -/
theorem covered_negate (dx dy : Datum) : Covered dx dy.negate ↔ Covered dx dy := by
  cases dx <;> cases dy <;> exact Iff.rfl

/-- **`bid128_sub` on the closed part**: `x − y` is `x + (−y)`; a NaN subtrahend keeps its sign (NaN rule) -/
theorem bid128_sub_spec_partial (x y : U128) (m : RoundingMode) (f : UInt32)
    (h : Proved (dOf x) (dOf y).negate) :
    bid128_sub x y m f = .ok (binSpec (subD (md m)) x y f) := by
  unfold binSpec
  by_cases hn : ((dOf x).isNaN || (dOf y).isNaN) = true
  · rw [if_pos hn]; exact sub_nan x y m f hn
  · rw [if_neg hn]
    simp only [Bool.or_eq_true, not_or, Bool.not_eq_true] at hn
    have hd := dOf_negY y hn.2
    rw [sub_eq, show (if (decode (bitsOf y)).isNaN = true then y else ofBits ((bitsOf y + 2^127) % 2^128)) = negY y from rfl,
      bid128_add_spec_partial x (negY y) m f (by rw [hd]; exact h)]
    unfold binSpec
    rw [hd, if_neg (by rw [negate_isNaN, hn.1, hn.2]; decide)]
    rfl

open Dec.Gen.Api

theorem run_addition (m : RoundingMode) (f : UInt32) (a0 a1 : U128) :
    run "addition" m f [.d a0, .d a1] = some ((bid128_add a0 a1 m f).map fun (r, g) => ([.d r], g)) := rfl
theorem run_subtraction (m : RoundingMode) (f : UInt32) (a0 a1 : U128) :
    run "subtraction" m f [.d a0, .d a1] = some ((bid128_sub a0 a1 m f).map fun (r, g) => ([.d r], g)) := rfl

/-- `d128::addition` on the closed part: returns normally with what the specification prescribes -/
theorem api_addition_partial (m : RoundingMode) (f : UInt32) (x y : U128) (h : Proved (dOf x) (dOf y)) :
    run "addition" m f [.d x, .d y] = some (.ok ([.d (binSpec (addD (md m)) x y f).1], (binSpec (addD (md m)) x y f).2)) := by
  rw [run_addition, bid128_add_spec_partial x y m f h]
  generalize binSpec (addD (md m)) x y f = p
  cases p; rfl

/-- `d128::subtraction` on the closed part -/
theorem api_subtraction_partial (m : RoundingMode) (f : UInt32) (x y : U128) (h : Proved (dOf x) (dOf y).negate) :
    run "subtraction" m f [.d x, .d y] = some (.ok ([.d (binSpec (subD (md m)) x y f).1], (binSpec (subD (md m)) x y f).2)) := by
  rw [run_subtraction, bid128_sub_spec_partial x y m f h]
  generalize binSpec (subD (md m)) x y f = p
  cases p; rfl

theorem zeroAt_WF (b : Bool) (t : Int) : (zeroAt b t).WF := by
  unfold zeroAt clampInt
  show (0 : Nat) < P34 ∧ eMin ≤ _ ∧ _ ≤ eMax
  simp only [eMin, eMax]
  refine ⟨by decide, ?_, ?_⟩ <;> omega

theorem addFin_WF (mode : Mode) (s1 : Bool) (c1 : Nat) (e1 : Int) (s2 : Bool) (c2 : Nat) (e2 pref : Int) :
    (addFin mode s1 c1 e1 s2 c2 e2 pref).1.WF := by
  unfold addFin
  simp only []
  by_cases h : sInt s1 (c1 * 10 ^ (e1 - (if e1 ≤ e2 then e1 else e2)).toNat) + sInt s2 (c2 * 10 ^ (e2 - (if e1 ≤ e2 then e1 else e2)).toNat) = 0
  · rw [if_pos h]; exact zeroAt_WF _ _
  · rw [if_neg h]
    exact finish_wf _ _ _ _ _ _ (by omega) (by decide)

/-- a result `ofBits (encode d)` for a well-formed `d` denotes `d` and is canonical -/
theorem result_datum {d : Datum} (w : d.WF) : dOf (ofBits (encode d)) = d ∧ isCanonical (bitsOf (ofBits (encode d))) = true := by
  unfold dOf
  rw [bitsOf_ofBits (encode_lt w)]
  exact ⟨decode_encode w, isCanonical_encode w⟩

/-- C01, addition, on the closed part: "For any operands … and each of the five rounding modes, addition … return[s], bit for
bit, the IEEE 754-2008 decimal128 result: the exact mathematical value rounded once in the requested direction, encoded
with the preferred quantum exponent (exact results) or the least possible exponent (inexact results), with the standard's
sign-of-zero, overflow … rules.  The status bits newly raised are exactly inexact / overflow / underflow …".  For finite
`x = ±c₁·10^e₁`, `y = ±c₂·10^e₂` with exact sum `V`: the method returns normally a canonical pattern; if `V = 0` the zero
of exponent `min e₁ e₂` with the sign of the IEEE rule (`zeroSumSign`: `−` only for two negative zeros-sums or in
`Downward`) and no new flag; otherwise THE strict correct delivery of `V` (`FinishSpecStrict`: `V` itself at the cohort
exponent closest to `min e₁ e₂` without a flag, else rounded once in the mode at the least exponent, inexact, underflow iff
tiny, or the mode's overflow result) — datum and exactly those flags OR-ed into the status word. -/
theorem addition_property_partial (m : RoundingMode) (f : UInt32) (x y : U128) (s1 s2 : Bool) (c1 c2 : Nat) (e1 e2 : Int)
    (hx : dOf x = .fin s1 c1 e1) (hy : dOf y = .fin s2 c2 e2) (h : Proved (dOf x) (dOf y)) :
    ∃ r g, run "addition" m f [.d x, .d y] = some (.ok ([.d r], g)) ∧ isCanonical (bitsOf r) = true ∧
      (fval s1 c1 e1 + fval s2 c2 e2 = 0 → dOf r = zeroAt (zeroSumSign (md m) s1 s2) (min e1 e2) ∧ g = f) ∧
      (fval s1 c1 e1 + fval s2 c2 e2 ≠ 0 → ∃ out : Datum × Flags,
        FinishSpecStrict (md m) (decide (fval s1 c1 e1 + fval s2 c2 e2 < 0)) |fval s1 c1 e1 + fval s2 c2 e2| (min e1 e2) out ∧
        dOf r = out.1 ∧ g = f ||| UInt32.ofNat out.2) := by
  have hw : (addD (md m) (dOf x) (dOf y)).1.WF := by
    rw [hx, hy]; exact addFin_WF _ _ _ _ _ _ _ _
  obtain ⟨hd, hc⟩ := result_datum hw
  have hb : binSpec (addD (md m)) x y f =
      (ofBits (encode (addD (md m) (dOf x) (dOf y)).1), f ||| UInt32.ofNat (addD (md m) (dOf x) (dOf y)).2) := by
    unfold binSpec; rw [if_neg (by rw [hx, hy]; exact fun h => Bool.noConfusion h)]
  refine ⟨_, _, api_addition_partial m f x y h, by rw [hb]; exact hc, ?_, ?_⟩
  · intro hV
    have := (Dec.C01Q.add_correct (md m) s1 c1 e1 s2 c2 e2).1 hV
    rw [hb]
    show dOf (ofBits (encode (addD (md m) (dOf x) (dOf y)).1)) = _ ∧ f ||| UInt32.ofNat (addD (md m) (dOf x) (dOf y)).2 = f
    rw [hd, hx, hy, this]
    exact ⟨rfl, or_zero32 f⟩
  · intro hV
    refine ⟨addD (md m) (.fin s1 c1 e1) (.fin s2 c2 e2), Dec.C01Strict.add_correct_strict (md m) s1 c1 e1 s2 c2 e2 hV, ?_, ?_⟩
    · rw [hb]
      show dOf (ofBits (encode (addD (md m) (dOf x) (dOf y)).1)) = _
      rw [hd, hx, hy]
    · rw [hb, hx, hy]

/-- C01, subtraction, on the closed part: as `addition_property_partial` for the exact difference -/
theorem subtraction_property_partial (m : RoundingMode) (f : UInt32) (x y : U128) (s1 s2 : Bool) (c1 c2 : Nat) (e1 e2 : Int)
    (hx : dOf x = .fin s1 c1 e1) (hy : dOf y = .fin s2 c2 e2) (h : Proved (dOf x) (dOf y).negate) :
    ∃ r g, run "subtraction" m f [.d x, .d y] = some (.ok ([.d r], g)) ∧ isCanonical (bitsOf r) = true ∧
      (fval s1 c1 e1 - fval s2 c2 e2 = 0 → dOf r = zeroAt (zeroSumSign (md m) s1 (!s2)) (min e1 e2) ∧ g = f) ∧
      (fval s1 c1 e1 - fval s2 c2 e2 ≠ 0 → ∃ out : Datum × Flags,
        FinishSpecStrict (md m) (decide (fval s1 c1 e1 - fval s2 c2 e2 < 0)) |fval s1 c1 e1 - fval s2 c2 e2| (min e1 e2) out ∧
        dOf r = out.1 ∧ g = f ||| UInt32.ofNat out.2) := by
  have hsub : subD (md m) (dOf x) (dOf y) = addD (md m) (.fin s1 c1 e1) (.fin (!s2) c2 e2) := by rw [hx, hy]; rfl
  have hw : (subD (md m) (dOf x) (dOf y)).1.WF := by
    rw [hsub]; exact addFin_WF _ _ _ _ _ _ _ _
  obtain ⟨hd, hc⟩ := result_datum hw
  have hb : binSpec (subD (md m)) x y f =
      (ofBits (encode (subD (md m) (dOf x) (dOf y)).1), f ||| UInt32.ofNat (subD (md m) (dOf x) (dOf y)).2) := by
    unfold binSpec; rw [if_neg (by rw [hx, hy]; exact fun h => Bool.noConfusion h)]
  refine ⟨_, _, api_subtraction_partial m f x y h, by rw [hb]; exact hc, ?_, ?_⟩
  · intro hV
    have := (Dec.C01Q.sub_correct (md m) s1 c1 e1 s2 c2 e2).1 hV
    rw [hb]
    show dOf (ofBits (encode (subD (md m) (dOf x) (dOf y)).1)) = _ ∧ f ||| UInt32.ofNat (subD (md m) (dOf x) (dOf y)).2 = f
    rw [hd, hx, hy, this]
    exact ⟨rfl, or_zero32 f⟩
  · intro hV
    refine ⟨subD (md m) (.fin s1 c1 e1) (.fin s2 c2 e2), Dec.C01Strict.sub_correct_strict (md m) s1 c1 e1 s2 c2 e2 hV, ?_, ?_⟩
    · rw [hb]
      show dOf (ofBits (encode (subD (md m) (dOf x) (dOf y)).1)) = _
      rw [hd, hx, hy]
    · rw [hb, hx, hy]

/-! ## 8. What is missing for the headline -/

/-- the pairs of data NOT closed: two non-zero finite operands; with `H` the operand of the larger exponent (`x` on a tie),
`L` the other one and `delta = q_H + e_H − q_L − e_L`: `34 − q_L < delta < 34` (the rounding loop), or `delta = 34` with
opposite signs and `C_H` a power of ten (the sub-case of the branch `delta = P34` that reuses the loop-body rounding) -/
def RemCond (s1 : Bool) (c1 : Nat) (e1 : Int) (s2 : Bool) (c2 : Nat) (e2 : Int) : Prop :=
  if e2 ≤ e1 then
    (34 - (ndigits c2 : Int) < (ndigits c1 : Int) + e1 - ndigits c2 - e2 ∧ (ndigits c1 : Int) + e1 - ndigits c2 - e2 < 34) ∨
    ((ndigits c1 : Int) + e1 - ndigits c2 - e2 = 34 ∧ ¬ s1 = s2 ∧ c1 = 10 ^ (ndigits c1 - 1))
  else
    (34 - (ndigits c1 : Int) < (ndigits c2 : Int) + e2 - ndigits c1 - e1 ∧ (ndigits c2 : Int) + e2 - ndigits c1 - e1 < 34) ∨
    ((ndigits c2 : Int) + e2 - ndigits c1 - e1 = 34 ∧ ¬ s2 = s1 ∧ c2 = 10 ^ (ndigits c2 - 1))

def Remaining : Datum → Datum → Prop
  | .fin s1 c1 e1, .fin s2 c2 e2 => c1 ≠ 0 ∧ c2 ≠ 0 ∧ RemCond s1 c1 e1 s2 c2 e2
  | _, _ => False

/-- every pair of data is closed or in `Remaining` -/
theorem proved_or_remaining (dx dy : Datum) : Proved dx dy ∨ Remaining dx dy := by
  unfold Proved
  cases dx with
  | nan s g p => exact Or.inl (Or.inl rfl)
  | inf s =>
    cases dy with
    | nan s' g p => exact Or.inl (Or.inr (Or.inl rfl))
    | inf s' => exact Or.inl (Or.inr (Or.inr (Or.inl trivial)))
    | fin s' c e => exact Or.inl (Or.inr (Or.inr (Or.inl trivial)))
  | fin s1 c1 e1 =>
    cases dy with
    | nan s' g p => exact Or.inl (Or.inr (Or.inl rfl))
    | inf s' => exact Or.inl (Or.inr (Or.inr (Or.inl trivial)))
    | fin s2 c2 e2 =>
      by_cases h1 : c1 = 0
      · exact Or.inl (Or.inr (Or.inr (Or.inl (Or.inl h1))))
      by_cases h2 : c2 = 0
      · exact Or.inl (Or.inr (Or.inr (Or.inl (Or.inr (Or.inl h2)))))
      by_cases hA : AlignedCond c1 e1 c2 e2
      · exact Or.inl (Or.inr (Or.inr (Or.inl (Or.inr (Or.inr (Or.inl hA))))))
      by_cases hF : FarCond c1 e1 c2 e2
      · exact Or.inl (Or.inr (Or.inr (Or.inl (Or.inr (Or.inr (Or.inr hF))))))
      by_cases hD : D34Cond s1 c1 e1 s2 c2 e2
      · exact Or.inl (Or.inr (Or.inr (Or.inr ⟨h1, h2, hD⟩)))
      refine Or.inr ⟨h1, h2, ?_⟩
      unfold AlignedCond at hA
      unfold FarCond at hF
      unfold D34Cond at hD
      unfold RemCond
      by_cases hle : e2 ≤ e1
      · rw [if_pos hle] at hA hF hD ⊢
        by_cases h34 : (ndigits c1 : Int) + e1 - ndigits c2 - e2 = 34
        · right
          refine ⟨h34, fun hs => hD ⟨h34, Or.inl hs⟩, ?_⟩
          by_contra hne; exact hD ⟨h34, Or.inr hne⟩
        · left; omega
      · rw [if_neg hle] at hA hF hD ⊢
        by_cases h34 : (ndigits c2 : Int) + e2 - ndigits c1 - e1 = 34
        · right
          refine ⟨h34, fun hs => hD ⟨h34, Or.inl hs⟩, ?_⟩
          by_contra hne; exact hD ⟨h34, Or.inr hne⟩
        · left; omega

/-- **what is missing**: `bid128_add` on `Remaining` (the rounding loop and the power-of-ten sub-case of `delta = 34`).
Stated as the hypothesis `H`; everything else is proved: with `H` the headline holds for ALL patterns, modes and status
words, for `bid128_add` and `bid128_sub`. -/
def AddRounding : Prop :=
  ∀ (x y : U128) (m : RoundingMode) (f : UInt32), Remaining (dOf x) (dOf y) →
    bid128_add x y m f = .ok (ofBits (encode (addD (md m) (dOf x) (dOf y)).1), f ||| UInt32.ofNat (addD (md m) (dOf x) (dOf y)).2)

/-- `add_rounding`, partial: the headline `bid128_add x y m f = .ok (binSpec (addD (md m)) x y f)` for all inputs follows from
`AddRounding` (the only missing piece) -/
theorem bid128_add_spec_partial' (H : AddRounding) (x y : U128) (m : RoundingMode) (f : UInt32) :
    bid128_add x y m f = .ok (binSpec (addD (md m)) x y f) := by
  rcases proved_or_remaining (dOf x) (dOf y) with h | h
  · exact bid128_add_spec_partial x y m f h
  · unfold binSpec
    have hn : ¬ ((dOf x).isNaN || (dOf y).isNaN) = true := by
      cases hx : dOf x <;> cases hy : dOf y <;> rw [hx, hy] at h <;> first | exact absurd h id | (intro h'; exact Bool.noConfusion h')
    rw [if_neg hn]
    exact H x y m f h

theorem bid128_sub_spec_partial' (H : AddRounding) (x y : U128) (m : RoundingMode) (f : UInt32) :
    bid128_sub x y m f = .ok (binSpec (subD (md m)) x y f) := by
  unfold binSpec
  by_cases hn : ((dOf x).isNaN || (dOf y).isNaN) = true
  · rw [if_pos hn]; exact sub_nan x y m f hn
  · rw [if_neg hn]
    simp only [Bool.or_eq_true, not_or, Bool.not_eq_true] at hn
    have hd := dOf_negY y hn.2
    rw [sub_eq, show (if (decode (bitsOf y)).isNaN = true then y else ofBits ((bitsOf y + 2^127) % 2^128)) = negY y from rfl,
      bid128_add_spec_partial' H x (negY y) m f]
    unfold binSpec
    rw [hd, if_neg (by rw [negate_isNaN, hn.1, hn.2]; decide)]
    rfl

-- 5E0 − 3E0 = 2E0; −0 − (−0) toward −∞ … the zero difference of equal operands is −0 only in Downward
example : bid128_sub ⟨5, 0x3040000000000000⟩ ⟨3, 0x3040000000000000⟩ .NearestEven 0 = .ok (⟨2, 0x3040000000000000⟩, 0) := by
  rw [bid128_sub_spec_partial _ _ _ _ (by
    rw [show dOf ⟨5, 0x3040000000000000⟩ = .fin false 5 0 from by decide +kernel,
      show dOf ⟨3, 0x3040000000000000⟩ = .fin false 3 0 from by decide +kernel]
    exact Or.inr (Or.inr (Or.inl (Or.inr (Or.inr (Or.inl (by decide +kernel))))))) ]
  decide +kernel
example : bid128_sub ⟨5, 0x3040000000000000⟩ ⟨5, 0x3040000000000000⟩ .Downward 0 = .ok (⟨0, 0xb040000000000000⟩, 0) := by
  rw [bid128_sub_spec_partial _ _ _ _ (by
    rw [show dOf ⟨5, 0x3040000000000000⟩ = .fin false 5 0 from by decide +kernel]
    exact Or.inr (Or.inr (Or.inl (Or.inr (Or.inr (Or.inl (by decide +kernel))))))) ]
  decide +kernel

end Dec.C01GenAddLoop
