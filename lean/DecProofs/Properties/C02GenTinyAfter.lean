/-
  The secondary build configuration (`--features decimal_tiny_detection_after_rounding`), wrapper level, about the source.

  With the feature on, `bid128_fma` is `bid128_fma_tiny_after` (/repo `fa63f62`, the repair of D23): it runs the feature build's
  `bid128_ext_fma` on a clear word and, only when an inexact result is delivered as ±10^33·10^emin, decides the underflow bit by
  a second run on x·(10y) + 10z.  The feature build's `bid128_ext_fma` differs from the default one in five gated tests, so it is
  NOT the routine the fma theorems are about; the wrapper is translated (`DecGen/Code3.lean`, regenerated every run) with that
  routine as an explicit parameter `E`, and the statements below hold for EVERY `E`:

  * `tiny_after_frame` — C14 in the secondary configuration: results, raised flags and panics do not depend on the incoming
    status word, the outgoing word is the incoming one OR-ed with what was raised;
  * `tiny_after_outcome` — the wrapper returns exactly the value `E` returns for (x, y, z) from a clear word (so C02's VALUE
    clause in this configuration reduces to that of `E`), and its raised set differs from `E`'s at most in the underflow bit,
    and not at all unless `E` raised inexact and delivered ±1E−6143 (coefficient 10^33 at the least exponent, biased exponent field 0: the words
    `0x0000314dc6448d93`, `0x38c15b0a00000000`).
  What the theorems do not say: that the underflow bit chosen in that one case is the IEEE one (that needs the feature build's
  `E` specified; it is checked differentially, thorough tier of C02, 5 M observations per run in that configuration).

  Axioms: `propext`, `Classical.choice`, `Quot.sound`.
-/
import DecGen.Api3
import DecProofs.Properties.C14GenFrame

set_option linter.unusedVariables false

namespace Dec.C02GenTinyAfter
open Dec Dec.Rs Dec.Gen.Code Dec.Gen.Code3 Dec.C14GenFrame

/-- the type of `bid128_ext_fma` (four indicator flags in and out, operands, mode, status word) -/
abbrev EF := Bool → Bool → Bool → Bool → U128 → U128 → U128 → RoundingMode → UInt32 →
  Except String (U128 × Bool × Bool × Bool × Bool × UInt32)

/-- **C14 for the feature configuration's `bid128_fma`**, for any inner routine -/
theorem tiny_after_frame (E : EF) (x y z : U128) (m : RoundingMode) :
    Framed (fun pf => bid128_fma_tiny_after E x y z m pf) := by frame_auto

theorem andnot_or (a b : UInt32) : (a &&& ~~~b) ||| b = a ||| b := by
  apply UInt32.toBitVec_inj.mp
  simp only [UInt32.toBitVec_or, UInt32.toBitVec_and, UInt32.toBitVec_not]
  ext i hi
  simp only [BitVec.getElem_or, BitVec.getElem_and, BitVec.getElem_not]
  cases a.toBitVec[i] <;> cases b.toBitVec[i] <;> rfl
theorem or_or_self (a b : UInt32) : (a ||| b) ||| b = a ||| b := by
  rw [UInt32.or_assoc, UInt32.or_self]

/-- the result is ±1E−6143 (least normal number), as the source tests it -/
def isMinNormal (r : U128) : Bool := (r.w1 &&& 0x7fffffffffffffff) == 0x0000314dc6448d93 && r.w0 == 0x38c15b0a00000000

/-- **what the wrapper returns**: `E`'s value; `E`'s flags up to the underflow bit, and exactly `E`'s flags unless `E` raised
inexact and delivered the least normal number -/
theorem tiny_after_outcome (E : EF) (x y z : U128) (m : RoundingMode) (f : UInt32) (r : U128) (g : UInt32)
    (h : bid128_fma_tiny_after E x y z m f = .ok (r, g)) :
    ∃ i1 i2 i3 i4 fl, E false false false false x y z m 0 = .ok (r, i1, i2, i3, i4, fl) ∧ ∃ fl', g = f ||| fl' ∧
      fl' ||| 0x10 = fl ||| 0x10 ∧ ((fl &&& 0x20 = 0 ∨ isMinNormal r = false) → fl' = fl) := by
  cases h1 : E false false false false x y z m 0 with
  | error e => simp [bid128_fma_tiny_after, bind, Except.bind, h1] at h
  | ok p =>
    obtain ⟨r0, i1, i2, i3, i4, fl⟩ := p
    refine ⟨i1, i2, i3, i4, fl, ?_⟩
    simp only [bid128_fma_tiny_after, bind, Except.bind, pure, Except.pure, h1] at h
    by_cases hc : ((fl &&& c_StatusFlags_BID_INEXACT_EXCEPTION != 0 && r0.w1 &&& 9223372036854775807 == 54210108624275 &&
              r0.w0 == 4089650035136921600) = true)
    · rw [if_pos hc] at h
      have key : ∀ (fl' : UInt32), (fl' = fl ∨ fl' = fl ||| c_StatusFlags_BID_UNDERFLOW_EXCEPTION ∨ fl' = fl &&& ~~~c_StatusFlags_BID_UNDERFLOW_EXCEPTION) →
          (Except.ok (r0, f ||| fl') : Except String (U128 × UInt32)) = .ok (r, g) →
          (Except.ok (r0, i1, i2, i3, i4, fl) : Except String _) = .ok (r, i1, i2, i3, i4, fl) ∧ ∃ fl', g = f ||| fl' ∧
            fl' ||| 0x10 = fl ||| 0x10 ∧ ((fl &&& 0x20 = 0 ∨ isMinNormal r = false) → fl' = fl) := by
        intro fl' hfl' he
        cases he
        refine ⟨rfl, fl', rfl, ?_, ?_⟩
        · rcases hfl' with rfl | rfl | rfl
          · rfl
          · exact or_or_self _ _
          · exact andnot_or _ _
        · intro hh
          simp only [Bool.and_eq_true, bne_iff_ne, ne_eq, beq_iff_eq, c_StatusFlags_BID_INEXACT_EXCEPTION, c_DEC_FE_INEXACT] at hc
          rcases hh with hh | hh
          · exact absurd hh hc.1.1
          · simp [isMinNormal, hc.1.2, hc.2] at hh
      repeat' (split at h)
      all_goals first
        | exact key _ (Or.inl rfl) h
        | exact key _ (Or.inr (Or.inl rfl)) h
        | exact key _ (Or.inr (Or.inr rfl)) h
        | (exfalso; simp at h)
    · rw [if_neg hc] at h
      cases h
      exact ⟨rfl, fl, rfl, rfl, fun _ => rfl⟩

end Dec.C02GenTinyAfter
