/-
  C08GenRiDirected — `bid128_round_integral_zero` (truncation), `bid128_round_integral_negative` (floor) and
  `bid128_round_integral_positive` (ceiling) as translated in `DecGen/Code.lean` compute `toIntegralD .rtz / .rdn / .rup` of the
  decoded operand, for ALL 128-bit patterns and status words (`round_integral_zero_spec`, `round_integral_negative_spec`,
  `round_integral_positive_spec`).
-/
import DecProofs.Properties.C08GenRiBase

set_option linter.unusedSimpArgs false
set_option linter.unusedVariables false

namespace Dec.C08GenRoundIntegral
open Dec.Rs Dec.Gen.Code Dec.C03GenCompare

/-! ## Truncation -/

/-- digit removal of `bid128_round_integral_zero` -/
def truncMain (C : U128) (s : UInt64) (exp : Int32) (f : UInt32) : Except String (U128 × UInt32) :=
  (tbl128 Dec.Gen.BID_TEN2MK128 (UInt64.ofInt (toI (-exp - 1)))).bind fun t =>
  (mul_128x128_to_256 C t).bind fun v =>
    if decide (-exp - 1 ≤ 2) = true then .ok (⟨v.w2, v.w3 ||| (s ||| 0x3040000000000000)⟩, f)
    else if decide (-exp - 1 ≤ 21) = true then
      (tblI32 Dec.Gen.BID_SHIFTRIGHT128 (UInt64.ofInt (toI (-exp - 1)))).bind fun sh =>
        .ok (⟨v.w3 <<< UInt64.ofInt (toI (64 - sh)) ||| v.w2 >>> UInt64.ofInt (toI sh),
              v.w3 >>> UInt64.ofInt (toI sh) ||| (s ||| 0x3040000000000000)⟩, f)
    else
      (tblI32 Dec.Gen.BID_SHIFTRIGHT128 (UInt64.ofInt (toI (-exp - 1)))).bind fun sh =>
        .ok (⟨v.w3 >>> UInt64.ofInt (toI (sh - 64)), 0 ||| (s ||| 0x3040000000000000)⟩, f)

def rizFin (x : U128) (f : UInt32) (s e : UInt64) (C : U128) : Except String (U128 × UInt32) :=
  if decide (e ≤ 0x2ffc000000000000) = true then .ok (⟨0, s ||| 0x3040000000000000⟩, f)
  else
    withQ C fun q =>
      if decide (expOf e ≥ 0) = true then .ok (⟨x.w0, x.w1⟩, f)
      else if decide (q + expOf e > 0) = true then truncMain C s (expOf e) f
      else .ok (⟨0, s ||| 0x3040000000000000⟩, f)

theorem riz_unfold (x : U128) (f : UInt32) :
    bid128_round_integral_zero x f = frontEnd x f (rizFin x f) := by
  simp only [bid128_round_integral_zero, frontEnd, rizFin, truncMain, specialRes, zeroRes, withQ, expOf, bind, Except.bind, pure,
    Except.pure, beq_self_eq_true, Bool.and_self, if_true]

/-! ### truncation -/

/-- **digit removal of `bid128_round_integral_zero`**: for a coefficient `c < 10^34` and `1 ≤ x ≤ 33` digits to remove, the
product with the tabulated reciprocal, shifted right as the code does it in its three word-position cases, is
`⌊c / 10^x⌋` exactly; the result is assembled with the sign and exponent 0.  No table index is out of range. -/
theorem truncMain_spec (C : U128) (S : UInt64) (exp : Int32) (f : UInt32) (s : Bool) (c x : Nat)
    (hc : val128 C = c) (hlt : c < P34) (hx1 : 1 ≤ x) (hx2 : x ≤ 33) (hexp : exp.toInt = -(x : Int))
    (hS : S.toNat = if s then 2^63 else 0) :
    truncMain C S exp f = .ok (ofBits (encode (.fin s (c / 10 ^ x) 0)), f) := by
  have hi : (-exp - 1).toInt = (x : Int) - 1 := by
    rw [i32_sub _ _ (by rw [i32_neg _ (by omega)]; omega) (by decide), i32_neg _ (by omega), hexp]
    show - -(x : Int) - 1 = _
    omega
  have hidx : (UInt64.ofInt (toI (-exp - 1))).toNat = x - 1 := u64_of_i32 _ _ (by rw [hi]; omega)
  obtain ⟨t, ht, tv⟩ := tbl128_ten2mk _ (x - 1) hidx (by omega)
  obtain ⟨v, hv, vv⟩ := mul_128x128_to_256_spec C t
  obtain ⟨sh, hsh, shv⟩ := tblI32_shift _ (x - 1) hidx (by omega)
  obtain ⟨δ, _, _, hK, _, hdiv, _⟩ := recip_core (x - 1) (by omega) c (Nat.lt_trans hlt (by decide))
  obtain ⟨_, _, r1, r2, r3⟩ := ten2mk_row (x - 1) (by omega)
  rw [show x - 1 + 1 = x by omega] at hdiv
  rw [hc, tv] at vv
  have hm : c / 10 ^ x < 2 ^ 113 := Nat.lt_of_le_of_lt (Nat.div_le_self _ _) (Nat.lt_trans hlt (by decide))
  have h0 := v.w0.toNat_lt; have h1 := v.w1.toNat_lt; have h2 := v.w2.toNat_lt; have h3 := v.w3.toNat_lt
  unfold val256 at vv
  -- the product, divided by 2^128
  have hhi : c * Dec.TF.entry Dec.Gen.BID_TEN2MK128 2 (x - 1) / 2 ^ 128 = v.w3.toNat * 2^64 + v.w2.toNat := by
    rw [← vv]; omega
  rw [Nat.pow_add, ← Nat.div_div_eq_div_mul, hhi] at hdiv
  have c1 : (decide (-exp - 1 ≤ 2) = true) ↔ x - 1 ≤ 2 := by
    rw [decide_eq_true_eq, Int32.le_iff_toInt_le, hi, show (2 : Int32).toInt = 2 from rfl]; omega
  have c2 : (decide (-exp - 1 ≤ 21) = true) ↔ x - 1 ≤ 21 := by
    rw [decide_eq_true_eq, Int32.le_iff_toInt_le, hi, show (21 : Int32).toInt = 21 from rfl]; omega
  unfold truncMain
  simp only [ht, hv, hsh, Except.bind]
  generalize Dec.Gen.BID_SHIFTRIGHT128.getD (x - 1) 0 = sN at *
  by_cases b1 : x - 1 ≤ 2
  · rw [if_pos (c1.2 b1)]
    rw [r1 b1, Nat.pow_zero, Nat.div_one] at hdiv
    rw [mk_result S s hS ⟨v.w2, v.w3⟩ _ hdiv hm]
  · rw [if_neg (fun h => b1 (c1.1 h))]
    by_cases b2 : x - 1 ≤ 21
    · rw [if_pos (c2.2 b2)]
      obtain ⟨s1, s2⟩ := r2 (by omega) b2
      have a1 : (UInt64.ofInt (toI sh)).toNat = sN := u64_of_i32 _ _ shv
      have a2 : (UInt64.ofInt (toI (64 - sh))).toNat = 64 - sN :=
        u64_of_i32 _ _ (by rw [i32_sub _ _ (by decide) (by omega), shv]; show (64 : Int) - _ = _; omega)
      refine congrArg (fun r => Except.ok (r, f)) ?_
      refine mk_result S s hS ⟨v.w3 <<< UInt64.ofInt (toI (64 - sh)) ||| v.w2 >>> UInt64.ofInt (toI sh),
        v.w3 >>> UInt64.ofInt (toI sh)⟩ _ ?_ hm
      rw [← hdiv, ← shr128 _ _ sN s1 s2 h3 h2]
      simp only [val128, UInt64.toNat_or, UInt64.toNat_shiftLeft, UInt64.toNat_shiftRight, a1, a2,
        Nat.shiftLeft_eq, Nat.shiftRight_eq_div_pow]
      rw [Nat.mod_eq_of_lt (show sN < 64 by omega), Nat.mod_eq_of_lt (show 64 - sN < 64 by omega)]
    · rw [if_neg (fun h => b2 (c2.1 h))]
      obtain ⟨s1, s2⟩ := r3 (by omega)
      have a1 : (UInt64.ofInt (toI (sh - 64))).toNat = sN - 64 :=
        u64_of_i32 _ _ (by rw [i32_sub _ _ (by omega) (by decide), shv]; show _ - (64 : Int) = _; omega)
      refine congrArg (fun r => Except.ok (r, f)) ?_
      refine mk_result S s hS ⟨v.w3 >>> UInt64.ofInt (toI (sh - 64)), 0⟩ _ ?_ hm
      rw [← hdiv]
      simp only [val128, UInt64.toNat_shiftRight, a1, Nat.shiftRight_eq_div_pow, UInt64.toNat_zero, Nat.zero_mul, Nat.zero_add]
      rw [Nat.mod_eq_of_lt (show sN - 64 < 64 by omega)]
      have e : 2 ^ sN = 2 ^ 64 * 2 ^ (sN - 64) := by rw [← Nat.pow_add]; congr 1; omega
      rw [e, ← Nat.div_div_eq_div_mul]
      congr 1
      omega


/-- **`bid128_round_integral_zero` on finite non-zero operands** -/
theorem rizFin_spec (x : U128) (f : UInt32) (s : Bool) (c E : Nat) (hv : FinView x s c E) :
    rizFin x f (x.w1 &&& c_MASK_SIGN) (x.w1 &&& c_MASK_EXP) ⟨x.w0, x.w1 &&& c_MASK_COEFF⟩
      = .ok (ofBits (encode (riD .rtz (decode (bitsOf x)))), riFlags f (decode (bitsOf x))) := by
  obtain ⟨hdec, hpos, hlt, hE, hS, he, hc, henc⟩ := hv
  have h34 := ndigits_le_34 c hlt
  rw [hdec, riFlags_fin]
  unfold rizFin
  by_cases t1 : E ≤ 6142
  · rw [if_pos ((expword_le _ E he 0x2ffc000000000000 6142 (by decide)).2 t1), riD_neg_exp _ _ _ _ (by omega),
      roundInt_rtz, (small_quot c (6176 - E) (by omega)).1, mk_zero _ s hS]
  · rw [if_neg (fun h => t1 ((expword_le _ E he 0x2ffc000000000000 6142 (by decide)).1 h))]
    obtain ⟨q, hq, qv⟩ := countQ_spec ⟨x.w0, x.w1 &&& c_MASK_COEFF⟩ (by rw [hc]; exact hpos)
      (by rw [hc]; exact Nat.lt_trans hlt (by decide))
    rw [hc] at qv
    have hexp := expOf_toInt _ E hE he
    simp only [withQ_eq, hq, Except.bind]
    by_cases t2 : 6176 ≤ E
    · rw [if_pos (by rw [decide_eq_true_eq, ge_iff_le, Int32.le_iff_toInt_le, hexp]; show (0 : Int) ≤ _; omega),
        riD_nonneg_exp _ _ _ _ t2, ← henc]
      exact congrArg (fun r => Except.ok (r, f)) (Dec.C06GenFromInt.ofBits_bitsOf x).symm
    · rw [if_neg (by rw [decide_eq_true_eq, ge_iff_le, Int32.le_iff_toInt_le, hexp]; show ¬ (0 : Int) ≤ _; omega),
        riD_neg_exp _ _ _ _ (by omega), roundInt_rtz]
      have hsum : (q + expOf (x.w1 &&& c_MASK_EXP)).toInt = (ndigits c : Int) + ((E : Int) - 6176) := by
        rw [i32_add _ _ (by omega) (by omega), qv, hexp]
      by_cases t3 : 6176 < ndigits c + E
      · rw [if_pos (by rw [decide_eq_true_eq, gt_iff_lt, Int32.lt_iff_toInt_lt, hsum]; show (0 : Int) < _; omega)]
        exact truncMain_spec _ _ _ f s c (6176 - E) hc hlt (by omega) (by omega) (by rw [hexp]; omega) hS
      · rw [if_neg (by rw [decide_eq_true_eq, gt_iff_lt, Int32.lt_iff_toInt_lt, hsum]; show ¬ (0 : Int) < _; omega),
          (small_quot c (6176 - E) (by omega)).1, mk_zero _ s hS]

/-- **`bid128_round_integral_zero`** (round to integral, toward zero), ALL 128-bit patterns, every incoming status word:
the result is the canonical encoding of `toIntegralD .rtz` of the decoded operand (NaN: the quieted canonical NaN;
infinity: the canonical infinity; zero and every non-canonical finite encoding: the zero of the same sign with exponent
`max(e, 0)`; exponent ≥ 0: the operand; otherwise `±⌊c / 10^(−e)⌋` with exponent 0, the sign kept also when the result is
zero); the status word gets `invalid` or-ed in iff the operand is a signalling NaN, nothing else; the routine never panics. -/
theorem round_integral_zero_spec (x : U128) (f : UInt32) :
    bid128_round_integral_zero x f =
      .ok (ofBits (encode (riD .rtz (decode (bitsOf x)))), riFlags f (decode (bitsOf x))) := by
  rw [riz_unfold]
  rcases frontEnd_cases .rtz x f (rizFin x f) with h | ⟨s, c, E, hv, h⟩
  · exact h.1
  · rw [h]; exact rizFin_spec x f s c E hv


-- −123.456 (coefficient 123456, exponent −3) ↦ −123; 0.999 ↦ +0; a signalling NaN with payload 5 and inexact already raised
example : bid128_round_integral_zero ⟨123456, 0xb03a000000000000⟩ 0 = .ok (⟨123, 0xb040000000000000⟩, 0) := by
  rw [round_integral_zero_spec]; decide +kernel
example : bid128_round_integral_zero ⟨999, 0x303a000000000000⟩ 0 = .ok (⟨0, 0x3040000000000000⟩, 0) := by rfl
example : bid128_round_integral_zero ⟨5, 0x7e00000000000000⟩ 0x20 = .ok (⟨5, 0x7c00000000000000⟩, 0x21) := by rfl
-- 34 nines with exponent −33 (the third word-position case: 33 digits removed) ↦ 9
example : bid128_round_integral_zero ⟨0x378d8e63ffffffff, 0x2fffed09bead87c0⟩ 0 = .ok (⟨9, 0x3040000000000000⟩, 0) := by rfl

/-! ## 5. Floor and ceiling -/

/-- digit removal of `bid128_round_integral_negative` (the translated block, its mutable state as parameters) -/
def floorMain (C1_ : U128) (x_sign : UInt64) (exp : Int32) (pfpsf_ : UInt32) : Except String (U128 × UInt32) := do
  let mut res : U128 := default
  let mut fstar : U256 := default
  let mut shift : Int32 := default
  let mut ind : Int32 := default
  let mut tmp64 : UInt64 := default
  let mut P256 : U256 := default
  let mut C1 : U128 := C1_
  let mut pfpsf : UInt32 := pfpsf_
  ind := (-exp)
  P256 := (← mul_128x128_to_256 C1 (← tbl128 Dec.Gen.BID_TEN2MK128 (UInt64.ofInt (toI ((ind - (1 : Int32)))))))
  if (decide ((ind - (1 : Int32)) ≤ (2 : Int32))) then
    res := { res with w1 := P256.w3 }
    res := { res with w0 := P256.w2 }
    if (x_sign != (0 : UInt64)) then
      if (← (if ((decide (P256.w1 > (← tbl128 Dec.Gen.BID_TEN2MK128 (UInt64.ofInt (toI ((ind - (1 : Int32)))))).w1))) then pure true else (do pure ((← (if (P256.w1 == (← tbl128 Dec.Gen.BID_TEN2MK128 (UInt64.ofInt (toI ((ind - (1 : Int32)))))).w1) then (do pure ((decide (P256.w0 ≥ (← tbl128 Dec.Gen.BID_TEN2MK128 (UInt64.ofInt (toI ((ind - (1 : Int32)))))).w0)))) else pure false)))))) then
        res := { res with w0 := (res.w0 + 1) }
        if (res.w0 == (0 : UInt64)) then
          res := { res with w1 := (res.w1 + 1) }
  else
    if (decide ((ind - (1 : Int32)) ≤ (0x15 : Int32))) then
      shift := (← tblI32 Dec.Gen.BID_SHIFTRIGHT128 (UInt64.ofInt (toI ((ind - (1 : Int32))))))
      res := { res with w1 := (P256.w3 >>> (UInt64.ofInt (toI shift))) }
      res := { res with w0 := (((P256.w3 <<< (UInt64.ofInt (toI (((0x40 : Int32) - shift)))))) ||| ((P256.w2 >>> (UInt64.ofInt (toI shift))))) }
      if (x_sign != (0 : UInt64)) then
        fstar := { fstar with w2 := (P256.w2 &&& (← tbl64 Dec.Gen.BID_MASKHIGH128 (UInt64.ofInt (toI ((ind - (1 : Int32))))))) }
        fstar := { fstar with w1 := P256.w1 }
        fstar := { fstar with w0 := P256.w0 }
        if (← (if (← (if (fstar.w2 != (0 : UInt64)) then pure true else (do pure (decide (fstar.w1 > (← tbl128 Dec.Gen.BID_TEN2MK128 (UInt64.ofInt (toI ((ind - (1 : Int32)))))).w1))))) then pure true else (do pure ((← (if (fstar.w1 == (← tbl128 Dec.Gen.BID_TEN2MK128 (UInt64.ofInt (toI ((ind - (1 : Int32)))))).w1) then (do pure (decide (fstar.w0 ≥ (← tbl128 Dec.Gen.BID_TEN2MK128 (UInt64.ofInt (toI ((ind - (1 : Int32)))))).w0))) else pure false)))))) then
          res := { res with w0 := (res.w0 + 1) }
          if (res.w0 == (0 : UInt64)) then
            res := { res with w1 := (res.w1 + 1) }
    else
      shift := ((← tblI32 Dec.Gen.BID_SHIFTRIGHT128 (UInt64.ofInt (toI ((ind - (1 : Int32)))))) - (0x40 : Int32))
      res := { res with w1 := (0 : UInt64) }
      res := { res with w0 := (P256.w3 >>> (UInt64.ofInt (toI shift))) }
      if (x_sign != (0 : UInt64)) then
        fstar := { fstar with w3 := (P256.w3 &&& (← tbl64 Dec.Gen.BID_MASKHIGH128 (UInt64.ofInt (toI ((ind - (1 : Int32))))))) }
        fstar := { fstar with w2 := P256.w2 }
        fstar := { fstar with w1 := P256.w1 }
        fstar := { fstar with w0 := P256.w0 }
        if (← (if (← (if ((fstar.w3 != (0 : UInt64)) || (fstar.w2 != (0 : UInt64))) then pure true else (do pure (decide (fstar.w1 > (← tbl128 Dec.Gen.BID_TEN2MK128 (UInt64.ofInt (toI ((ind - (1 : Int32)))))).w1))))) then pure true else (do pure ((← (if (fstar.w1 == (← tbl128 Dec.Gen.BID_TEN2MK128 (UInt64.ofInt (toI ((ind - (1 : Int32)))))).w1) then (do pure (decide (fstar.w0 ≥ (← tbl128 Dec.Gen.BID_TEN2MK128 (UInt64.ofInt (toI ((ind - (1 : Int32)))))).w0))) else pure false)))))) then
          res := { res with w0 := (res.w0 + 1) }
          if (res.w0 == (0 : UInt64)) then
            res := { res with w1 := (res.w1 + 1) }
  res := { res with w1 := (res.w1 ||| (x_sign ||| (0x3040000000000000 : UInt64))) }
  return (res, pfpsf)

/-- digit removal of `bid128_round_integral_positive` (the translated block) -/
def ceilMain (C1_ : U128) (x_sign : UInt64) (exp : Int32) (pfpsf_ : UInt32) : Except String (U128 × UInt32) := do
  let mut res : U128 := default
  let mut fstar : U256 := default
  let mut shift : Int32 := default
  let mut ind : Int32 := default
  let mut tmp64 : UInt64 := default
  let mut P256 : U256 := default
  let mut C1 : U128 := C1_
  let mut pfpsf : UInt32 := pfpsf_
  ind := (-exp)
  P256 := (← mul_128x128_to_256 C1 (← tbl128 Dec.Gen.BID_TEN2MK128 (UInt64.ofInt (toI ((ind - (1 : Int32)))))))
  if (decide ((ind - (1 : Int32)) ≤ (2 : Int32))) then
    res := { res with w1 := P256.w3 }
    res := { res with w0 := P256.w2 }
    if (x_sign == (0 : UInt64)) then
      if (← (if ((decide (P256.w1 > (← tbl128 Dec.Gen.BID_TEN2MK128 (UInt64.ofInt (toI ((ind - (1 : Int32)))))).w1))) then pure true else (do pure ((← (if (P256.w1 == (← tbl128 Dec.Gen.BID_TEN2MK128 (UInt64.ofInt (toI ((ind - (1 : Int32)))))).w1) then (do pure ((decide (P256.w0 ≥ (← tbl128 Dec.Gen.BID_TEN2MK128 (UInt64.ofInt (toI ((ind - (1 : Int32)))))).w0)))) else pure false)))))) then
        res := { res with w0 := (res.w0 + 1) }
        if (res.w0 == (0 : UInt64)) then
          res := { res with w1 := (res.w1 + 1) }
  else
    if (decide ((ind - (1 : Int32)) ≤ (0x15 : Int32))) then
      shift := (← tblI32 Dec.Gen.BID_SHIFTRIGHT128 (UInt64.ofInt (toI ((ind - (1 : Int32))))))
      res := { res with w1 := (P256.w3 >>> (UInt64.ofInt (toI shift))) }
      res := { res with w0 := (((P256.w3 <<< (UInt64.ofInt (toI (((0x40 : Int32) - shift)))))) ||| ((P256.w2 >>> (UInt64.ofInt (toI shift))))) }
      if (x_sign == (0 : UInt64)) then
        fstar := { fstar with w2 := (P256.w2 &&& (← tbl64 Dec.Gen.BID_MASKHIGH128 (UInt64.ofInt (toI ((ind - (1 : Int32))))))) }
        fstar := { fstar with w1 := P256.w1 }
        fstar := { fstar with w0 := P256.w0 }
        if (← (if (← (if (fstar.w2 != (0 : UInt64)) then pure true else (do pure (decide (fstar.w1 > (← tbl128 Dec.Gen.BID_TEN2MK128 (UInt64.ofInt (toI ((ind - (1 : Int32)))))).w1))))) then pure true else (do pure ((← (if (fstar.w1 == (← tbl128 Dec.Gen.BID_TEN2MK128 (UInt64.ofInt (toI ((ind - (1 : Int32)))))).w1) then (do pure (decide (fstar.w0 ≥ (← tbl128 Dec.Gen.BID_TEN2MK128 (UInt64.ofInt (toI ((ind - (1 : Int32)))))).w0))) else pure false)))))) then
          res := { res with w0 := (res.w0 + 1) }
          if (res.w0 == (0 : UInt64)) then
            res := { res with w1 := (res.w1 + 1) }
    else
      shift := ((← tblI32 Dec.Gen.BID_SHIFTRIGHT128 (UInt64.ofInt (toI ((ind - (1 : Int32)))))) - (0x40 : Int32))
      res := { res with w1 := (0 : UInt64) }
      res := { res with w0 := (P256.w3 >>> (UInt64.ofInt (toI shift))) }
      if (x_sign == (0 : UInt64)) then
        fstar := { fstar with w3 := (P256.w3 &&& (← tbl64 Dec.Gen.BID_MASKHIGH128 (UInt64.ofInt (toI ((ind - (1 : Int32))))))) }
        fstar := { fstar with w2 := P256.w2 }
        fstar := { fstar with w1 := P256.w1 }
        fstar := { fstar with w0 := P256.w0 }
        if (← (if (← (if ((fstar.w3 != (0 : UInt64)) || (fstar.w2 != (0 : UInt64))) then pure true else (do pure (decide (fstar.w1 > (← tbl128 Dec.Gen.BID_TEN2MK128 (UInt64.ofInt (toI ((ind - (1 : Int32)))))).w1))))) then pure true else (do pure ((← (if (fstar.w1 == (← tbl128 Dec.Gen.BID_TEN2MK128 (UInt64.ofInt (toI ((ind - (1 : Int32)))))).w1) then (do pure (decide (fstar.w0 ≥ (← tbl128 Dec.Gen.BID_TEN2MK128 (UInt64.ofInt (toI ((ind - (1 : Int32)))))).w0))) else pure false)))))) then
          res := { res with w0 := (res.w0 + 1) }
          if (res.w0 == (0 : UInt64)) then
            res := { res with w1 := (res.w1 + 1) }
  res := { res with w1 := (res.w1 ||| (x_sign ||| (0x3040000000000000 : UInt64))) }
  return (res, pfpsf)

def rinFin (x : U128) (f : UInt32) (s e : UInt64) (C : U128) : Except String (U128 × UInt32) :=
  if decide (e ≤ 0x2ffc000000000000) = true then
    if (s != 0) = true then .ok (⟨1, 0xb040000000000000⟩, f) else .ok (⟨0, 0x3040000000000000⟩, f)
  else
    withQ C fun q =>
      if decide (expOf e ≥ 0) = true then .ok (⟨x.w0, x.w1⟩, f)
      else if decide (q + expOf e > 0) = true then floorMain C s (expOf e) f
      else if (s != 0) = true then .ok (⟨1, 0xb040000000000000⟩, f) else .ok (⟨0, 0x3040000000000000⟩, f)

def ripFin (x : U128) (f : UInt32) (s e : UInt64) (C : U128) : Except String (U128 × UInt32) :=
  if decide (e ≤ 0x2ffc000000000000) = true then
    if (s != 0) = true then .ok (⟨0, 0xb040000000000000⟩, f) else .ok (⟨1, 0x3040000000000000⟩, f)
  else
    withQ C fun q =>
      if decide (expOf e ≥ 0) = true then .ok (⟨x.w0, x.w1⟩, f)
      else if decide (q + expOf e > 0) = true then ceilMain C s (expOf e) f
      else if (s != 0) = true then .ok (⟨0, 0xb040000000000000⟩, f) else .ok (⟨1, 0x3040000000000000⟩, f)

theorem rin_unfold (x : U128) (f : UInt32) :
    bid128_round_integral_negative x f = frontEnd x f (rinFin x f) := by
  rw [← frontEndB_eq]
  simp only [bid128_round_integral_negative, frontEndB, rinFin, floorMain, specialRes, withQ, expOf, bind, Except.bind, pure,
    Except.pure, beq_self_eq_true, Bool.and_self, if_true]

theorem rip_unfold (x : U128) (f : UInt32) :
    bid128_round_integral_positive x f = frontEnd x f (ripFin x f) := by
  simp only [bid128_round_integral_positive, frontEnd, ripFin, ceilMain, specialRes, zeroRes, withQ, expOf, bind, Except.bind, pure,
    Except.pure, beq_self_eq_true, Bool.and_self, if_true]

theorem floor_finish (S : UInt64) (s : Bool) (hS : S.toNat = if s then 2^63 else 0) (r : U128) (q rem : Nat)
    (hq : val128 r = q) (hlt : q + 1 < 2^113) (f : UInt32) :
    (if s = true then
        (if decide (rem ≠ 0) = true then ((⟨(inc128 r).w0, (inc128 r).w1 ||| (S ||| 0x3040000000000000)⟩ : U128), f)
         else (⟨r.w0, r.w1 ||| (S ||| 0x3040000000000000)⟩, f))
      else (⟨r.w0, r.w1 ||| (S ||| 0x3040000000000000)⟩, f))
      = (ofBits (encode (.fin s (if rem ≠ 0 ∧ s = true then q + 1 else q) 0)), f) := by
  have e1 := mk_result S s hS r q hq (by omega)
  have e2 := mk_result S s hS (inc128 r) (q + 1) (by rw [inc128_val r (by omega), hq]) hlt
  by_cases hr : rem = 0 <;> cases s <;>
    simp only [hr, e1, e2, ne_eq, decide_true, decide_false, if_true, if_false, Bool.false_eq_true, and_true, and_false,
      not_true_eq_false, not_false_eq_true, false_and, true_and, decide_not, Bool.not_true, Bool.not_false]

/-- **digit removal of `bid128_round_integral_negative`**: `⌊c / 10^x⌋`, plus one for a negative operand with a non-zero
discarded part (the test `f* ≥ K` in its three word-position forms is exactly "the remainder is non-zero") -/
theorem floorMain_spec (C : U128) (S : UInt64) (exp : Int32) (f : UInt32) (s : Bool) (c x : Nat)
    (hc : val128 C = c) (hlt : c < P34) (hx1 : 1 ≤ x) (hx2 : x ≤ 33) (hexp : exp.toInt = -(x : Int))
    (hS : S.toNat = if s then 2^63 else 0) :
    floorMain C S exp f = .ok (ofBits (encode (.fin s (roundInt .rdn s (c / 10 ^ x) (c % 10 ^ x) (10 ^ x)) 0)), f) := by
  obtain ⟨t, v, sh, mk, oh, sN, δ, R⟩ := recip_exists C exp c x hc (Nat.lt_trans hlt (by decide)) hx1 (by omega) hexp
  have hm : c / 10 ^ x + 1 < 2 ^ 113 := by
    have : c / 10 ^ x ≤ c := Nat.div_le_self _ _
    have : c < 2^113 - 1 := Nat.lt_trans hlt (by decide)
    omega
  simp only [floorMain, bind, pure, Except.pure, bind_ok', ite_ok, R.ht, R.hv, R.hsh, R.hmk, ite_true_bool, ite_false_bool,
    Bool.decide_eq_true]
  rw [sign_ne_zero S s hS, roundInt_rdn]
  by_cases b1 : x ≤ 3
  · rw [if_pos (R.c1.2 b1), R.geA b1, inc_res]
    exact congrArg Except.ok (floor_finish S s hS ⟨v.w2, v.w3⟩ _ _ (R.qA b1) hm f)
  · rw [if_neg (fun h => b1 (R.c1.1 h))]
    by_cases b2 : x ≤ 22
    · rw [if_pos (R.c2.2 b2), R.geB (by omega) b2, inc_res]
      exact congrArg Except.ok (floor_finish S s hS _ _ _ (R.qB (by omega) b2) hm f)
    · rw [if_neg (fun h => b2 (R.c2.1 h)), R.geC (by omega), inc_res]
      exact congrArg Except.ok (floor_finish S s hS _ _ _ (R.qC (by omega)) hm f)


/-- the result `−1` / `+0` of the floor of a number of magnitude below one -/
theorem below_one_floor (S : UInt64) (s : Bool) (hS : S.toNat = if s then 2^63 else 0) (f : UInt32) (c D : Nat) (hc : 0 < c) (hD : c < D) :
    (if (S != 0) = true then (Except.ok ((⟨1, 0xb040000000000000⟩ : U128), f) : Except String (U128 × UInt32))
      else .ok (⟨0, 0x3040000000000000⟩, f))
      = .ok (ofBits (encode (.fin s (roundInt .rdn s (c / D) (c % D) D) 0)), f) := by
  rw [sign_ne_zero S s hS, roundInt_rdn, Nat.div_eq_of_lt hD, Nat.mod_eq_of_lt hD]
  cases s
  · rw [if_neg (by decide), if_neg (by simp)]
    exact congrArg (fun r => Except.ok (r, f)) (Dec.C06GenFromInt.ofBits_encode_int false 0 (by decide)).symm
  · rw [if_pos rfl, if_pos ⟨by omega, rfl⟩]
    exact congrArg (fun r => Except.ok (r, f)) (Dec.C06GenFromInt.ofBits_encode_int true 1 (by decide)).symm

/-- **`bid128_round_integral_negative` on finite non-zero operands** -/
theorem rinFin_spec (x : U128) (f : UInt32) (s : Bool) (c E : Nat) (hv : FinView x s c E) :
    rinFin x f (x.w1 &&& c_MASK_SIGN) (x.w1 &&& c_MASK_EXP) ⟨x.w0, x.w1 &&& c_MASK_COEFF⟩
      = .ok (ofBits (encode (riD .rdn (decode (bitsOf x)))), riFlags f (decode (bitsOf x))) := by
  obtain ⟨hdec, hpos, hlt, hE, hS, he, hc, henc⟩ := hv
  have h34 := ndigits_le_34 c hlt
  rw [hdec, riFlags_fin]
  unfold rinFin
  by_cases t1 : E ≤ 6142
  · rw [if_pos ((expword_le _ E he 0x2ffc000000000000 6142 (by decide)).2 t1), riD_neg_exp _ _ _ _ (by omega)]
    exact below_one_floor _ s hS f c _ hpos (lt_pow_of_digits c _ (by omega))
  · rw [if_neg (fun h => t1 ((expword_le _ E he 0x2ffc000000000000 6142 (by decide)).1 h))]
    obtain ⟨q, hq, qv⟩ := countQ_spec ⟨x.w0, x.w1 &&& c_MASK_COEFF⟩ (by rw [hc]; exact hpos)
      (by rw [hc]; exact Nat.lt_trans hlt (by decide))
    rw [hc] at qv
    have hexp := expOf_toInt _ E hE he
    simp only [withQ_eq, hq, Except.bind]
    by_cases t2 : 6176 ≤ E
    · rw [if_pos (by rw [decide_eq_true_eq, ge_iff_le, Int32.le_iff_toInt_le, hexp]; show (0 : Int) ≤ _; omega),
        riD_nonneg_exp _ _ _ _ t2, ← henc]
      exact congrArg (fun r => Except.ok (r, f)) (Dec.C06GenFromInt.ofBits_bitsOf x).symm
    · rw [if_neg (by rw [decide_eq_true_eq, ge_iff_le, Int32.le_iff_toInt_le, hexp]; show ¬ (0 : Int) ≤ _; omega),
        riD_neg_exp _ _ _ _ (by omega)]
      have hsum : (q + expOf (x.w1 &&& c_MASK_EXP)).toInt = (ndigits c : Int) + ((E : Int) - 6176) := by
        rw [i32_add _ _ (by omega) (by omega), qv, hexp]
      by_cases t3 : 6176 < ndigits c + E
      · rw [if_pos (by rw [decide_eq_true_eq, gt_iff_lt, Int32.lt_iff_toInt_lt, hsum]; show (0 : Int) < _; omega)]
        exact floorMain_spec _ _ _ f s c (6176 - E) hc hlt (by omega) (by omega) (by rw [hexp]; omega) hS
      · rw [if_neg (by rw [decide_eq_true_eq, gt_iff_lt, Int32.lt_iff_toInt_lt, hsum]; show ¬ (0 : Int) < _; omega)]
        exact below_one_floor _ s hS f c _ hpos (lt_pow_of_digits c _ (by omega))

/-- **`bid128_round_integral_negative`** (round to integral, toward −∞: floor), ALL 128-bit patterns, every incoming status
word: the canonical encoding of `toIntegralD .rdn` of the decoded operand (special operands and zeros as for truncation;
otherwise `⌊c/10^(−e)⌋`, one more in magnitude for a negative operand with a non-zero fraction, so `−0.3 ↦ −1`, `+0.3 ↦ +0`);
`invalid` iff the operand is a signalling NaN, nothing else; never panics. -/
theorem round_integral_negative_spec (x : U128) (f : UInt32) :
    bid128_round_integral_negative x f =
      .ok (ofBits (encode (riD .rdn (decode (bitsOf x)))), riFlags f (decode (bitsOf x))) := by
  rw [rin_unfold]
  rcases frontEnd_cases .rdn x f (rinFin x f) with h | ⟨s, c, E, hv, h⟩
  · exact h.1
  · rw [h]; exact rinFin_spec x f s c E hv

-- −123.456 ↦ −124; +123.456 ↦ +123; −0.3·10^−40 ↦ −1; −5.000 ↦ −5
example : bid128_round_integral_negative ⟨123456, 0xb03a000000000000⟩ 0 = .ok (⟨124, 0xb040000000000000⟩, 0) := by
  rw [round_integral_negative_spec]; decide +kernel
example : bid128_round_integral_negative ⟨123456, 0x303a000000000000⟩ 0 = .ok (⟨123, 0x3040000000000000⟩, 0) := by rfl
example : bid128_round_integral_negative ⟨3, 0xaff0000000000000⟩ 0 = .ok (⟨1, 0xb040000000000000⟩, 0) := by rfl
example : bid128_round_integral_negative ⟨5000, 0xb03a000000000000⟩ 0 = .ok (⟨5, 0xb040000000000000⟩, 0) := by rfl


/-! ### ceiling -/

theorem ceil_finish (S : UInt64) (s : Bool) (hS : S.toNat = if s then 2^63 else 0) (r : U128) (q rem : Nat)
    (hq : val128 r = q) (hlt : q + 1 < 2^113) (f : UInt32) :
    (if (!s) = true then
        (if decide (rem ≠ 0) = true then ((⟨(inc128 r).w0, (inc128 r).w1 ||| (S ||| 0x3040000000000000)⟩ : U128), f)
         else (⟨r.w0, r.w1 ||| (S ||| 0x3040000000000000)⟩, f))
      else (⟨r.w0, r.w1 ||| (S ||| 0x3040000000000000)⟩, f))
      = (ofBits (encode (.fin s (if rem ≠ 0 ∧ s = false then q + 1 else q) 0)), f) := by
  have e1 := mk_result S s hS r q hq (by omega)
  have e2 := mk_result S s hS (inc128 r) (q + 1) (by rw [inc128_val r (by omega), hq]) hlt
  by_cases hr : rem = 0 <;> cases s <;>
    simp only [hr, e1, e2, ne_eq, decide_true, decide_false, if_true, if_false, Bool.false_eq_true, and_true, and_false,
      not_true_eq_false, not_false_eq_true, false_and, true_and, decide_not, Bool.not_true, Bool.not_false, Bool.true_eq_false]

/-- **digit removal of `bid128_round_integral_positive`**: `⌊c / 10^x⌋`, plus one for a positive operand with a non-zero
discarded part -/
theorem ceilMain_spec (C : U128) (S : UInt64) (exp : Int32) (f : UInt32) (s : Bool) (c x : Nat)
    (hc : val128 C = c) (hlt : c < P34) (hx1 : 1 ≤ x) (hx2 : x ≤ 33) (hexp : exp.toInt = -(x : Int))
    (hS : S.toNat = if s then 2^63 else 0) :
    ceilMain C S exp f = .ok (ofBits (encode (.fin s (roundInt .rup s (c / 10 ^ x) (c % 10 ^ x) (10 ^ x)) 0)), f) := by
  obtain ⟨t, v, sh, mk, oh, sN, δ, R⟩ := recip_exists C exp c x hc (Nat.lt_trans hlt (by decide)) hx1 (by omega) hexp
  have hm : c / 10 ^ x + 1 < 2 ^ 113 := by
    have : c / 10 ^ x ≤ c := Nat.div_le_self _ _
    have : c < 2^113 - 1 := Nat.lt_trans hlt (by decide)
    omega
  simp only [ceilMain, bind, pure, Except.pure, bind_ok', ite_ok, R.ht, R.hv, R.hsh, R.hmk, ite_true_bool, ite_false_bool,
    Bool.decide_eq_true]
  rw [sign_eq_zero S s hS, roundInt_rup]
  by_cases b1 : x ≤ 3
  · rw [if_pos (R.c1.2 b1), R.geA b1, inc_res]
    exact congrArg Except.ok (ceil_finish S s hS ⟨v.w2, v.w3⟩ _ _ (R.qA b1) hm f)
  · rw [if_neg (fun h => b1 (R.c1.1 h))]
    by_cases b2 : x ≤ 22
    · rw [if_pos (R.c2.2 b2), R.geB (by omega) b2, inc_res]
      exact congrArg Except.ok (ceil_finish S s hS _ _ _ (R.qB (by omega) b2) hm f)
    · rw [if_neg (fun h => b2 (R.c2.1 h)), R.geC (by omega), inc_res]
      exact congrArg Except.ok (ceil_finish S s hS _ _ _ (R.qC (by omega)) hm f)

/-- the result `−0` / `+1` of the ceiling of a number of magnitude below one -/
theorem below_one_ceil (S : UInt64) (s : Bool) (hS : S.toNat = if s then 2^63 else 0) (f : UInt32) (c D : Nat) (hc : 0 < c) (hD : c < D) :
    (if (S != 0) = true then (Except.ok ((⟨0, 0xb040000000000000⟩ : U128), f) : Except String (U128 × UInt32))
      else .ok (⟨1, 0x3040000000000000⟩, f))
      = .ok (ofBits (encode (.fin s (roundInt .rup s (c / D) (c % D) D) 0)), f) := by
  rw [sign_ne_zero S s hS, roundInt_rup, Nat.div_eq_of_lt hD, Nat.mod_eq_of_lt hD]
  cases s
  · rw [if_neg (by decide), if_pos ⟨by omega, rfl⟩]
    exact congrArg (fun r => Except.ok (r, f)) (Dec.C06GenFromInt.ofBits_encode_int false 1 (by decide)).symm
  · rw [if_pos rfl, if_neg (by simp)]
    exact congrArg (fun r => Except.ok (r, f)) (Dec.C06GenFromInt.ofBits_encode_int true 0 (by decide)).symm

/-- **`bid128_round_integral_positive` on finite non-zero operands** -/
theorem ripFin_spec (x : U128) (f : UInt32) (s : Bool) (c E : Nat) (hv : FinView x s c E) :
    ripFin x f (x.w1 &&& c_MASK_SIGN) (x.w1 &&& c_MASK_EXP) ⟨x.w0, x.w1 &&& c_MASK_COEFF⟩
      = .ok (ofBits (encode (riD .rup (decode (bitsOf x)))), riFlags f (decode (bitsOf x))) := by
  obtain ⟨hdec, hpos, hlt, hE, hS, he, hc, henc⟩ := hv
  have h34 := ndigits_le_34 c hlt
  rw [hdec, riFlags_fin]
  unfold ripFin
  by_cases t1 : E ≤ 6142
  · rw [if_pos ((expword_le _ E he 0x2ffc000000000000 6142 (by decide)).2 t1), riD_neg_exp _ _ _ _ (by omega)]
    exact below_one_ceil _ s hS f c _ hpos (lt_pow_of_digits c _ (by omega))
  · rw [if_neg (fun h => t1 ((expword_le _ E he 0x2ffc000000000000 6142 (by decide)).1 h))]
    obtain ⟨q, hq, qv⟩ := countQ_spec ⟨x.w0, x.w1 &&& c_MASK_COEFF⟩ (by rw [hc]; exact hpos)
      (by rw [hc]; exact Nat.lt_trans hlt (by decide))
    rw [hc] at qv
    have hexp := expOf_toInt _ E hE he
    simp only [withQ_eq, hq, Except.bind]
    by_cases t2 : 6176 ≤ E
    · rw [if_pos (by rw [decide_eq_true_eq, ge_iff_le, Int32.le_iff_toInt_le, hexp]; show (0 : Int) ≤ _; omega),
        riD_nonneg_exp _ _ _ _ t2, ← henc]
      exact congrArg (fun r => Except.ok (r, f)) (Dec.C06GenFromInt.ofBits_bitsOf x).symm
    · rw [if_neg (by rw [decide_eq_true_eq, ge_iff_le, Int32.le_iff_toInt_le, hexp]; show ¬ (0 : Int) ≤ _; omega),
        riD_neg_exp _ _ _ _ (by omega)]
      have hsum : (q + expOf (x.w1 &&& c_MASK_EXP)).toInt = (ndigits c : Int) + ((E : Int) - 6176) := by
        rw [i32_add _ _ (by omega) (by omega), qv, hexp]
      by_cases t3 : 6176 < ndigits c + E
      · rw [if_pos (by rw [decide_eq_true_eq, gt_iff_lt, Int32.lt_iff_toInt_lt, hsum]; show (0 : Int) < _; omega)]
        exact ceilMain_spec _ _ _ f s c (6176 - E) hc hlt (by omega) (by omega) (by rw [hexp]; omega) hS
      · rw [if_neg (by rw [decide_eq_true_eq, gt_iff_lt, Int32.lt_iff_toInt_lt, hsum]; show ¬ (0 : Int) < _; omega)]
        exact below_one_ceil _ s hS f c _ hpos (lt_pow_of_digits c _ (by omega))

/-- **`bid128_round_integral_positive`** (round to integral, toward +∞: ceiling), ALL 128-bit patterns, every incoming status
word: the canonical encoding of `toIntegralD .rup` of the decoded operand (`+0.3 ↦ +1`, `−0.3 ↦ −0`); `invalid` iff the
operand is a signalling NaN, nothing else; never panics. -/
theorem round_integral_positive_spec (x : U128) (f : UInt32) :
    bid128_round_integral_positive x f =
      .ok (ofBits (encode (riD .rup (decode (bitsOf x)))), riFlags f (decode (bitsOf x))) := by
  rw [rip_unfold]
  rcases frontEnd_cases .rup x f (ripFin x f) with h | ⟨s, c, E, hv, h⟩
  · exact h.1
  · rw [h]; exact ripFin_spec x f s c E hv

-- +123.456 ↦ +124; −123.456 ↦ −123; −0.3·10^−40 ↦ −0; 18446744073709551615.5 ↦ 18446744073709551616 (carry into the high word)
example : bid128_round_integral_positive ⟨123456, 0x303a000000000000⟩ 0 = .ok (⟨124, 0x3040000000000000⟩, 0) := by
  rw [round_integral_positive_spec]; decide +kernel
example : bid128_round_integral_positive ⟨123456, 0xb03a000000000000⟩ 0 = .ok (⟨123, 0xb040000000000000⟩, 0) := by rfl
example : bid128_round_integral_positive ⟨3, 0xaff0000000000000⟩ 0 = .ok (⟨0, 0xb040000000000000⟩, 0) := by rfl
example : bid128_round_integral_positive ⟨0xfffffffffffffffb, 0x303e000000000009⟩ 0 = .ok (⟨0, 0x3040000000000001⟩, 0) := by rfl


end Dec.C08GenRoundIntegral
